import CuqiVerif.Model.C02
/-
  C02 model, session-3 extension — the code AROUND the accept/reject transitions
  (import-free, executable).

  Transcribed
    cuqi/sampler/_mh.py, _pcn.py, _cwmh.py, _langevin_algorithm.py
        `_sample(N, Nb)`        : the chain loop with burn-in            -> `legSample`
        `_sample_adapt(N, Nb)`  : the chain loop with the adaptation
                                  schedule `(s+1) % Na == 0`             -> `legSampleAdapt`
        the Robbins–Monro scale update inside `_sample_adapt`            -> `tuneUpdate`
        `scale is None` handling of legacy MH / pCN                      -> `legScaleArg`
    cuqi/experimental/mcmc/_mh.py, _cwmh.py, _pcn.py, _langevin_algorithm.py
        `tune(skip_len, update_count)` of MH, CWMH, PCN (MALA: `pass`)   -> `smpTune`
    cuqi/experimental/mcmc/_sampler.py  (the loops that call `step` / `tune`)
        `sample(Ns)`, `warmup(Nb, tune_freq)`, `get_state`/`set_state`,
        assignment of `scale`                                            -> `smpSample`, `smpWarmup`,
                                                                            `smpReload`, `smpRescale`
        `reinitialize()`, `initial_point = …`, `target = …`              -> `smpReinit`, `PhaseT`, `runSessionT`
    cuqi/sampler/_sampler.py  `step(x)`, `step_tune(x, *args)`           -> `legStep`, `legStepTune`
    `np.sqrt(1 - scale**2)` for `scale > 1` in `PCN.step` / `pCN.single_update`
                                                                         -> `pcnContractionDefined`, `pcnNanStep`

  Numbers.  The Robbins–Monro recursion `lambd = exp(log(lambd) + zeta*(hat_acc - star_acc))`,
  `scale = min(lambd, 1)` is modelled in the LOG domain: the model carries `log lambd` as an
  `XVal` (so `log 0 = -inf`, NaN from an empty window etc. are representable), the update is the
  exact rational `L + zeta*(hat - star)` and the cap `min(·, 1)` is `capLog` (`L > 0 ↦ 0`).  The
  scale the kernels then USE (`exp` of that, a float) is handed back to the model as a recorded
  leaf (`newScale`), the harness checks `newScale ≈ exp(capLog L)`.  `zeta = 1/np.sqrt(i+1)` enters
  through the float `np.sqrt(i+1)` (certificate `sqrtCert`).

  The loops are generic in the transition `step : St → ι → St × List Bool` (next state, accept
  row): the driver instantiates `ι` with (draws, log u, recorded target values) and `step` with
  `mhStep`/`pcnStep`/`malaStep`/`cwStep` on the recorded leaf values; the theorems instantiate it
  with the same step functions on arbitrary target functions.
-/
namespace CuqiVerif.C02

open XVal

/-! ### pCN with `scale > 1` -/

/-- Is `np.sqrt(1 - scale**2)` a number?  (For `scale² > 1` numpy returns NaN with a
    RuntimeWarning — no exception — and every coordinate of `x_star` is NaN.) -/
def pcnContractionDefined (s : Rat) : Bool := decide (s * s ≤ 1)

/-- `PCN.step` / `pCN.single_update` when the contraction factor is NaN: the proposal is the all-NaN
    vector, the likelihood is still evaluated there (`t`) and the usual accept test is applied.
    Returns the new cached log-likelihood and the accept bit; on acceptance the point would be the
    all-NaN vector (not a `Vec`). -/
def pcnNanStep (k : Kernel) (cache t ell : XVal) : XVal × Bool :=
  if accepts k ell (t.sub cache) t then (t, true) else (cache, false)

/-! ### Robbins–Monro scale adaptation (log domain) -/

/-- which samplers adapt, and towards which acceptance rate -/
inductive Tuner
  | mh | pcn | cwmh | none
  deriving DecidableEq, Repr

/-- `star_acc`: 0.234 (MH, both interfaces), 0.44 (PCN/pCN), `0.21/dim + 0.23` (CWMH). -/
def Tuner.star (dim : Nat) : Tuner → Rat
  | .mh => 234 / 1000
  | .pcn => 44 / 100
  | .cwmh => (21 / 100) / (dim : Rat) + 23 / 100
  | .none => 0

/-- how the window of past accept rows is cut out of the history -/
inductive Window
  | last      -- `self._acc[-skip_len:]`                          (experimental MH, PCN)
  | block     -- `acc[i*T:(i+1)*T]` / `acc[idx:idx+Na]`           (experimental CWMH, all legacy loops)
  deriving DecidableEq, Repr

def Window.cut (w : Window) (acc : List (List Bool)) (T i : Nat) : List (List Bool) :=
  match w with
  | .last => acc.drop (acc.length - T)
  | .block => (acc.drop (i * T)).take T

def boolRat (b : Bool) : Rat := if b then 1 else 0

/-- `np.mean(window, axis=0)[j]`; NaN for an empty window (numpy: mean of empty slice). -/
def colMean (w : List (List Bool)) (j : Nat) : XVal :=
  if w.isEmpty then nan else fin ((w.map (fun r => boolRat (r.getD j false))).sum / (w.length : Rat))

/-- one Robbins–Monro step in the log domain: `log(lambd) + zeta*(hat_acc - star_acc)` -/
def rmStep (L : XVal) (zeta star : Rat) (hat : XVal) : XVal :=
  match hat with
  | fin h => L.add (fin (zeta * (h - star)))
  | _ => nan

/-- `min(lambd, 1)` (Python builtin: `1 if 1 < lambd else lambd`; `np.minimum` agrees, NaN stays NaN)
    in the log domain. -/
def capLog (L : XVal) : XVal := if lt (fin 0) L then fin 0 else L

/-- all components: new `log lambd` -/
def tuneUpdate (star zeta : Rat) (w : List (List Bool)) (logLam : List XVal) : List XVal :=
  logLam.mapIdx (fun j L => rmStep L zeta star (colMean w j))

/-- `tune_interval = max(int(tune_freq * Nb), 1)`; `prod` is the float product, `int()` truncates toward zero. -/
def tuneInterval (prod : Rat) : Nat := max (Int.toNat (Int.tdiv prod.num (prod.den : Int))) 1

/-! ### the experimental sampler object: `sample`, `warmup`, `tune`, state reload -/

/-- The part of a `cuqi.experimental.mcmc` sampler that `sample`/`warmup`/`tune`/`set_state` touch:
    transition state (point, caches, scale), `log` of `_scale_temp` / `lambd`, the histories
    `_acc` and `_samples`, and the number of tuning updates done (index of the recorded leaves). -/
structure Smp where
  st : St
  logLam : List XVal
  acc : List (List Bool)
  samples : List Vec
  nUpd : Nat
  trace : List (List XVal) := []      -- ghost: `log lambd` after every tuning update (for the tie)
  deriving Repr

/-- `self._acc.append(acc); self._samples.append(self.current_point)` -/
def smpRecord (s : Smp) (a : List Bool) : Smp :=
  { s with acc := s.acc ++ [a], samples := s.samples ++ [s.st.x] }

/-- `initialize()`: state from the initial point (its log-density / gradient evaluated there),
    `_scale_temp = scale` / `lambd = scale`, `_acc = [1]` (`[ones(dim)]` for CWMH: `width = dim`), `_samples = []`. -/
def smpInit (width : Nat) (st0 : St) (logScale0 : List XVal) : Smp :=
  { st := st0, logLam := logScale0, acc := [List.replicate width true],
    samples := [], nUpd := 0, trace := [] }

/-- `sample(Ns)`: `Ns` transitions, each recorded; nothing else. -/
def smpSample {ι : Type} (step : St → ι → St × List Bool) (s : Smp) (inputs : List ι) : Smp :=
  inputs.foldl (fun s inp => let r := step s.st inp; smpRecord { s with st := r.1 } r.2) s

/-- `tune(skip_len = T, update_count = i)` of MH / CWMH / PCN (`Tuner.none`: MALA's `pass`).
    `zetaInv` = the float `np.sqrt(i+1)`, `newScale` = the float scale(s) the sampler holds afterwards. -/
def smpTune (tn : Tuner) (wk : Window) (dim T i : Nat) (zetaInv : Rat) (newScale : Vec) (s : Smp) : Smp :=
  match tn with
  | .none => s
  | _ =>
    let lam := tuneUpdate (tn.star dim) (1 / zetaInv) (wk.cut s.acc T i) s.logLam
    { s with logLam := lam, st := { s.st with scale := newScale }, nUpd := s.nUpd + 1,
             trace := s.trace ++ [lam] }

/-- body of the `warmup` loop at index `idx`: step, tune at the tuning intervals (BEFORE the accept
    row of this step is appended), record. -/
def smpWarmupBody {ι : Type} (tn : Tuner) (wk : Window) (dim T : Nat) (step : St → ι → St × List Bool)
    (zetaInv : Nat → Rat) (newScale : Nat → Vec) (s : Smp) (idx : Nat) (inp : ι) : Smp :=
  let r := step s.st inp
  let s1 := { s with st := r.1 }
  let s2 := if (idx + 1) % T = 0 then smpTune tn wk dim T (idx / T) (zetaInv (idx / T)) (newScale s1.nUpd) s1 else s1
  smpRecord s2 r.2

/-- `warmup(Nb, tune_freq)` from loop index `idx` on (`Nb` = number of inputs). -/
def smpWarmupFrom {ι : Type} (tn : Tuner) (wk : Window) (dim T : Nat) (step : St → ι → St × List Bool)
    (zetaInv : Nat → Rat) (newScale : Nat → Vec) : Nat → Smp → List ι → Smp
  | _, s, [] => s
  | idx, s, inp :: rest =>
    smpWarmupFrom tn wk dim T step zetaInv newScale (idx + 1)
      (smpWarmupBody tn wk dim T step zetaInv newScale s idx inp) rest

def smpWarmup {ι : Type} (tn : Tuner) (wk : Window) (dim T : Nat) (step : St → ι → St × List Bool)
    (zetaInv : Nat → Rat) (newScale : Nat → Vec) (s : Smp) (inputs : List ι) : Smp :=
  smpWarmupFrom tn wk dim T step zetaInv newScale 0 s inputs

/-- `new.set_state(old.get_state())`: the `_STATE_KEYS` (point, caches, scale, `_scale_temp`/`lambd`)
    are copied, the histories of the receiving sampler stay. -/
def smpReload (fresh old : Smp) : Smp :=
  { fresh with st := old.st, logLam := old.logLam, nUpd := old.nUpd, trace := old.trace }

/-- `sampler.scale = v` after initialisation: only `scale` changes (not `_scale_temp` / `lambd`). -/
def smpRescale (s : Smp) (v : Vec) : Smp := { s with st := { s.st with scale := v } }

/-- the phases of a sampler history -/
inductive Phase (ι : Type)
  | sample (inputs : List ι)
  | warmup (T : Nat) (zetaInv : Nat → Rat) (newScale : Nat → Vec) (inputs : List ι)
  | rescale (v : Vec)
  | reload          -- get_state → freshly initialised sampler of the same class → set_state

def runPhase {ι : Type} (tn : Tuner) (wk : Window) (dim : Nat) (step : St → ι → St × List Bool) (fresh : Smp)
    (s : Smp) : Phase ι → Smp
  | .sample inputs => smpSample step s inputs
  | .warmup T zi ns inputs => smpWarmup tn wk dim T step zi ns s inputs
  | .rescale v => smpRescale s v
  | .reload => smpReload fresh s

def runSession {ι : Type} (tn : Tuner) (wk : Window) (dim : Nat) (step : St → ι → St × List Bool) (fresh : Smp)
    (s : Smp) (phases : List (Phase ι)) : Smp :=
  phases.foldl (runPhase tn wk dim step fresh) s

/-! ### histories with `reinitialize()`, `initial_point` / `target` re-assignment -/

/-- Phases of a history in which the target may change.  `τ` names targets.
    `reinit x0 scale0 lam0`: `reinitialize()` — every state and history key is reset and `initialize()` runs
    again from the CURRENT `initial_point` `x0` (it may have been re-assigned, or mutated in place) with
    `scale = initial_scale` (`scale0`; `lam0` = its log, `_scale_temp`/`lambd` restart there): the
    log-density (and gradient) of the CURRENT target are evaluated at `x0`, `_acc = [1]`, `_samples = []`.
    `retarget t …`: `sampler.target = t` followed by `reinitialize()`. -/
inductive PhaseT (τ ι : Type)
  | base (p : Phase ι)
  | reinit (x0 : Vec) (scale0 : Vec) (lam0 : List XVal)
  | retarget (t : τ) (x0 : Vec) (scale0 : Vec) (lam0 : List XVal)

/-- sampler + current target + number of (re)initialisations so far (index of the recorded leaves) -/
structure SmpT (τ : Type) where
  tgt : τ
  s : Smp
  nInit : Nat

/-- `initialize()` inside a history: `evalInit n t x0` = (log-density / log-likelihood, gradient) of target `t`
    at `x0` (`n` = index of this initialisation: the driver looks the recorded values up by it). The ghost
    counters of the tie (`nUpd`, `trace`) continue. -/
def smpReinit {τ : Type} (width : Nat) (evalInit : Nat → τ → Vec → XVal × Vec) (S : SmpT τ) (t : τ)
    (x0 scale0 : Vec) (lam0 : List XVal) : SmpT τ :=
  let v := evalInit S.nInit t x0
  { tgt := t,
    s := { smpInit width { x := x0, logd := v.1, grad := v.2, scale := scale0 } lam0 with
             nUpd := S.s.nUpd, trace := S.s.trace },
    nInit := S.nInit + 1 }

def runPhaseT {τ ι : Type} (tn : Tuner) (wk : Window) (dim width : Nat) (step : τ → St → ι → St × List Bool)
    (evalInit : Nat → τ → Vec → XVal × Vec) (fresh : Smp) (S : SmpT τ) : PhaseT τ ι → SmpT τ
  | .base p => { S with s := runPhase tn wk dim (step S.tgt) fresh S.s p }
  | .reinit x0 scale0 lam0 => smpReinit width evalInit S S.tgt x0 scale0 lam0
  | .retarget t x0 scale0 lam0 => smpReinit width evalInit S t x0 scale0 lam0

def runSessionT {τ ι : Type} (tn : Tuner) (wk : Window) (dim width : Nat) (step : τ → St → ι → St × List Bool)
    (evalInit : Nat → τ → Vec → XVal × Vec) (fresh : Smp) (S : SmpT τ) (phases : List (PhaseT τ ι)) : SmpT τ :=
  phases.foldl (runPhaseT tn wk dim width step evalInit fresh) S

/-! ### the legacy loops `_sample(N, Nb)` and `_sample_adapt(N, Nb)` -/

/-- Loop state of the legacy loops: the stored chain (`samples[:, s]`, `target_eval[s]`,
    `g_target_eval[:, s]` as one `St` per column, newest LAST), the accept rows `acc[:, s]`, the
    scale in force, `log lambd`, and the adaptation counter `i` (`idx = i*Na`). -/
structure Leg where
  chain : List St
  acc : List (List Bool)
  cur : St
  logLam : List XVal
  nUpd : Nat
  trace : List (List XVal) := []      -- ghost: `log lambd` after every adaptation (for the tie)
  deriving Repr

/-- `samples[:, 0] = x0; target_eval[0] = logd(x0); acc[0] = 1` -/
def legInit (width : Nat) (st0 : St) (logScale0 : List XVal) : Leg :=
  { chain := [st0], acc := [List.replicate width true], cur := st0,
    logLam := logScale0, nUpd := 0, trace := [] }

/-- one iteration `samples[:, s+1], target_eval[s+1], acc[s+1] = single_update(samples[:, s], target_eval[s])` -/
def legAdvance {ι : Type} (step : St → ι → St × List Bool) (L : Leg) (inp : ι) : Leg :=
  let r := step L.cur inp
  { L with chain := L.chain ++ [r.1], acc := L.acc ++ [r.2], cur := r.1 }

/-- `_sample(N, Nb)`: `Ns = N + Nb` states, `Ns - 1` transitions, the first `Nb` columns removed.
    `none`: `Ns = 0` (`samples[:, 0] = x0` raises) or a wrong number of inputs. -/
def legSample {ι : Type} (width : Nat) (step : St → ι → St × List Bool) (st0 : St) (N Nb : Nat) (inputs : List ι) :
    Option (List St × List (List Bool)) :=
  if N + Nb = 0 ∨ inputs.length + 1 ≠ N + Nb then none
  else
    let L := inputs.foldl (legAdvance step) (legInit width st0 [])
    some (L.chain.drop Nb, L.acc.drop Nb)

/-- the adaptation block of `_sample_adapt` executed when `(s+1) % Na == 0`:
    `hat_acc[i] = mean(acc[idx:idx+Na]); lambd = exp(log(lambd) + zeta*(hat_acc[i]-star_acc));
     self.scale = min(lambd, 1); i += 1; idx += Na` -/
def legAdapt (tn : Tuner) (dim Na : Nat) (zetaInv : Rat) (newScale : Vec) (L : Leg) : Leg :=
  let lam := tuneUpdate (tn.star dim) (1 / zetaInv) (Window.block.cut L.acc Na L.nUpd) L.logLam
  { L with logLam := lam, cur := { L.cur with scale := newScale }, nUpd := L.nUpd + 1,
           trace := L.trace ++ [lam] }

def legAdaptBody {ι : Type} (tn : Tuner) (dim Na : Nat) (step : St → ι → St × List Bool)
    (zetaInv : Nat → Rat) (newScale : Nat → Vec) (L : Leg) (s : Nat) (inp : ι) : Leg :=
  let L1 := legAdvance step L inp
  if (s + 1) % Na = 0 then legAdapt tn dim Na (zetaInv L1.nUpd) (newScale L1.nUpd) L1 else L1

def legAdaptFrom {ι : Type} (tn : Tuner) (dim Na : Nat) (step : St → ι → St × List Bool)
    (zetaInv : Nat → Rat) (newScale : Nat → Vec) : Nat → Leg → List ι → Leg
  | _, L, [] => L
  | s, L, inp :: rest =>
    legAdaptFrom tn dim Na step zetaInv newScale (s + 1) (legAdaptBody tn dim Na step zetaInv newScale L s inp) rest

/-- `_sample_adapt(N, Nb)` of legacy MH / pCN / CWMH (`Tuner.none`: legacy MALA, whose
    `_sample_adapt` is `_sample`).  `Na = int(0.1*N)` (`prodNa` = the float product); `Na = 0`
    raises `ZeroDivisionError` (`Ns/Na`) — `none`. The stored state keeps the scale it was
    PRODUCED with; `cur.scale` is the scale of the next transition. -/
def legSampleAdapt {ι : Type} (tn : Tuner) (width dim : Nat) (step : St → ι → St × List Bool)
    (zetaInv : Nat → Rat) (newScale : Nat → Vec) (st0 : St) (logScale0 : List XVal) (N Nb : Nat) (prodNa : Rat)
    (inputs : List ι) : Option (List St × List (List Bool) × Leg) :=
  match tn with
  | .none => (legSample width step st0 N Nb inputs).map (fun r => (r.1, r.2, legInit width st0 logScale0))
  | _ =>
    let Na := Int.toNat (Int.tdiv prodNa.num (prodNa.den : Int))
    if Na = 0 ∨ N + Nb = 0 ∨ inputs.length + 1 ≠ N + Nb then none
    else
      let L := legAdaptFrom tn dim Na step zetaInv newScale 0 (legInit width st0 logScale0) inputs
      some (L.chain.drop Nb, L.acc.drop Nb, L)

/-! ### the transitions on recorded leaf values (what the driver folds the loops over) -/

/-- everything one transition consumes: the normal draw(s), `log u` (one per component for CWMH), the
    target value(s) recorded at the proposal(s), the gradient recorded at the proposal (MALA), and the
    float square root the kernel uses (`np.sqrt(1-s²)` for pCN, `np.sqrt(scale)` for MALA). -/
structure Inp where
  z : Vec
  ells : List XVal
  ts : List XVal
  gs : Vec
  aux : Rat
  deriving Repr

/-- one transition of kernel `k` on recorded values (the existing step functions, unchanged) -/
def stepLeaf (k : Kernel) (intDtype : Bool) (st : St) (inp : Inp) : St × List Bool :=
  match k with
  | .expMH | .legMH =>
    let r := mhStep k (fun _ => inp.ts.headD nan) st inp.z (inp.ells.headD nan); (r.1, [r.2])
  | .expPCN | .legPCN =>
    let r := pcnStep k (fun _ => inp.ts.headD nan) inp.aux st inp.z (inp.ells.headD nan); (r.1, [r.2])
  | .expMALA | .legMALA =>
    let r := malaStep k (fun _ => inp.ts.headD nan) (fun _ => inp.gs) inp.aux st inp.z (inp.ells.headD nan)
    (r.1, [r.2])
  | .expCWMH | .legCWMH =>
    let r := cwStep k (fun j _ => inp.ts.getD j nan) st inp.z inp.ells intDtype; (r.1, r.2.1)

/-- Explicit class of non-finite points inside sessions: the EMPTY vector stands for the all-NaN point (real
    points have `dim ≥ 1` coordinates, so `[]` is otherwise unused). -/
def nanPoint : Vec := []

/-- `stepLeaf` extended to pCN transitions whose proposal is the all-NaN vector: the contraction factor
    `np.sqrt(1 - scale²)` is NaN (`scale > 1`), or the current point is already NaN.  The likelihood is still
    evaluated (leaf) and the usual accept test applied (`pcnNanStep`); on acceptance the point becomes
    `nanPoint`.  Everything else is `stepLeaf`. -/
def stepLeafX (k : Kernel) (intDtype : Bool) (st : St) (inp : Inp) : St × List Bool :=
  match k with
  | .expPCN | .legPCN =>
    if st.x = nanPoint ∨ pcnContractionDefined (scalar st) = false then
      let r := pcnNanStep k st.logd (inp.ts.headD nan) (inp.ells.headD nan)
      ({ st with x := if r.2 then nanPoint else st.x, logd := r.1 }, [r.2])
    else stepLeaf k intDtype st inp
  | _ => stepLeaf k intDtype st inp

/-- which tuner / window a kernel's adaptation uses -/
def Kernel.tuner : Kernel → Tuner
  | .expMH | .legMH => .mh
  | .expPCN | .legPCN => .pcn
  | .expCWMH | .legCWMH => .cwmh
  | .expMALA | .legMALA => .none

def Kernel.window : Kernel → Window
  | .expMH | .expPCN => .last
  | _ => .block

/-- legacy `Sampler.step(x)`: `self.x0 = x; return self.sample(2).samples[:, -1]` — the chain of two states
    started at `x` with a FRESHLY evaluated cache (`st0` = `x` with the target's values there), last column. -/
def legStep {ι : Type} (width : Nat) (step : St → ι → St × List Bool) (st0 : St) (inp : ι) : Option Vec :=
  (legSample width step st0 2 0 [inp]).bind (fun r => (r.1.getLast?).map (·.x))

/-- legacy `Sampler.step_tune(x, *args, **kwargs)`: `out = self.step(x); self.tune(*args, *kwargs); return out`.
    The legacy `tune()` of MH / CWMH / pCN / MALA is the base-class `pass` and takes no argument: with
    `nargs > 0` extra arguments it raises `TypeError` (after the step was made) — `none`. -/
def legStepTune {ι : Type} (width : Nat) (step : St → ι → St × List Bool) (st0 : St) (inp : ι) (nargs : Nat) :
    Option Vec :=
  if nargs = 0 then legStep width step st0 inp else none

/-- `scale=None` of legacy MH / pCN: `_sample` refuses (`ValueError`), `_sample_adapt` starts from `0.1`. -/
def legScaleArg (adapt : Bool) (scale : Option Rat) : Option Rat :=
  match scale with
  | some s => some s
  | none => if adapt then some (1 / 10) else none

end CuqiVerif.C02
