import CuqiVerif.Model.C07
import CuqiVerif.Model.C17
import CuqiVerif.Model.C17_psf
/-
  C17 model, part 6 — which option combinations `Deconvolution1D.__init__` (both forms),
  `_getConvolutionOperator`, `_getCirculantMatrix` and `_getExactSolution` accept, and the class of the
  FIRST exception raised otherwise (`cuqi/testproblem/_testproblem.py`), in the order of the code.
  Data-dependent refusals (scaled noise with a zero exact datum, a `0/0` phantom reaching
  `Gaussian`) are outside this function.  No Mathlib, executable.
-/
namespace CuqiVerif.C17
open CuqiVerif.C07

/-- what the caller passes for `PSF` / `phantom`: an ndarray (its `ndim` and `shape[0]`), a string, or anything else -/
inductive Arg
  | array (ndim len : Nat)
  | str (s : String)
  | other
  deriving DecidableEq, Repr

structure D1Opts where
  dim : Nat
  legacy : Bool
  bc : String
  psfSize : Option Nat
  psf : Arg
  /-- `PSF_param == 0` (only read by the `'defocus'` branch) -/
  psfParamZero : Bool
  phantom : Arg
  /-- for a named phantom: `_getExactSolution` itself raises (`phantom_param < 3`, unfillable `'hat'`
      slices — `Model/C17_phantom`) -/
  phantomRefused : Bool
  noise : String
  deriving Repr

def phantomNames : List String := ["gauss", "sinc", "vonmises", "square", "hat", "bumps", "derivgauss", "pc", "skyscraper"]
def legacyPsfNames : List String := ["gauss", "sinc", "prolate", "vonmises"]

/-- set-up of the forward model: `none` = built -/
def forwardRefusal (o : D1Opts) : Option String :=
  if o.legacy then
    if o.bc ≠ "periodic" then some "ValueError"                 -- compared WITHOUT `.lower()`
    else if o.psfSize.isSome then some "ValueError"
    else if o.dim % 2 ≠ 0 then some "NotImplementedError"
    else match o.psf with
      | .array nd len => if nd ≠ 1 ∨ len ≠ o.dim then some "ValueError" else none
      | .str s => if legacyPsfNames.contains s.toLower then none else some "NotImplementedError"
      | .other => some "AttributeError"                        -- `PSF.lower()`
  else
    if (bc1d o.bc.toLower).isNone then some "ValueError"
    else match o.psf with
      | .array nd _ => if nd ≠ 1 then some "ValueError" else none
      | .str s =>
        match psfName s.toLower with
        | none => some "ValueError"
        | some .defocus => if o.psfParamZero then some "IndexError" else none
        | some _ => none
      | .other => some "NameError"                             -- `P` is never bound; raised by the first `Afun(...)`

def phantomRefusal (o : D1Opts) : Option String :=
  match o.phantom with
  | .array nd len => if nd ≠ 1 ∨ len ≠ o.dim then some "ValueError" else none
  | .str s => if phantomNames.contains s.toLower then (if o.phantomRefused then some "ValueError" else none) else some "NotImplementedError"
  | .other => some "ValueError"

/-- the first exception of `Deconvolution1D.__init__`; `none`: the problem is constructed -/
def deconv1dRefusal (o : D1Opts) : Option String :=
  match forwardRefusal o with
  | some e => some e
  | none =>
    match phantomRefusal o with
    | some e => some e
    | none => if (noiseType o.noise.toLower).isNone then some "NotImplementedError" else none

/-! ### Deconvolution2D -/

/-- what the caller passes as `PSF` to `Deconvolution2D` -/
inductive Psf2Arg
  | square            -- a 2-D ndarray with equal sides
  | nonsquare         -- a 2-D ndarray with different sides: the forward output has the wrong size
  | str (s : String)
  | other
  deriving DecidableEq, Repr

/-- what the caller passes as `phantom` to `Deconvolution2D` -/
inductive Phantom2Arg
  | image (ndim : Nat)          -- ndarray, `ndim ≥ 2` (any size: it is resized)
  | vector (len : Nat)          -- 1-D ndarray: reshaped to `N × N`, `N = round(sqrt(len))`
  | str (s : String) (inLibrary : Bool)   -- `inLibrary`: `hasattr(cuqi.data, name)` after `lower()` and `-` → `_` (leaf)
  | other
  deriving DecidableEq, Repr

structure D2Opts where
  bc : String
  psf : Psf2Arg
  psfParamZero : Bool
  phantom : Phantom2Arg
  noise : String
  deriving Repr

/-- `N*N == len` for `N = int(round(sqrt(len)))`: `len` is a perfect square -/
def isSquareNat (n : Nat) : Bool := n.sqrt * n.sqrt == n

/-- the first exception of `Deconvolution2D.__init__`, in the order of the code; `none`: constructed.
    An unknown PSF name leaves `P` unbound: the `NameError` only surfaces at `y_exact = model@x_exact`, AFTER
    the phantom has been validated; a non-square PSF array is only refused after the noise type was checked. -/
def deconv2dRefusal (o : D2Opts) : Option String :=
  if (bc2d o.bc.toLower).isNone then some "TypeError" else
  let psfNow : Option String := match o.psf with
    | .str s => (match psfName s.toLower with
        | some .defocus => if o.psfParamZero then some "IndexError" else none
        | _ => none)
    | .other => some "TypeError"
    | _ => none
  match psfNow with
  | some e => some e
  | none =>
    let ph : Option String := match o.phantom with
      | .image nd => if nd > 2 then some "ValueError" else none
      | .vector len => if isSquareNat len then none else some "ValueError"
      | .str _ inLib => if inLib then none else some "ValueError"
      | .other => some "TypeError"
    match ph with
    | some e => some e
    | none =>
      let psfLater : Option String := match o.psf with
        | .str s => if (psfName s.toLower).isNone then some "NameError" else none
        | _ => none
      match psfLater with
      | some e => some e
      | none =>
        match noiseType o.noise.toLower with
        | none => some "NotImplementedError"
        | some scaled =>
          -- a non-square PSF gives exact data of the wrong length: the scaled covariance is refused by the
          -- geometry check of `Gaussian` (TypeError), the scalar one only when the noise is sampled (ValueError)
          match o.psf with
          | .nonsquare => some (if scaled then "TypeError" else "ValueError")
          | _ => none

end CuqiVerif.C17
