import CuqiVerif.Model.C07
import CuqiVerif.Model.C17
import CuqiVerif.Model.C17_psf
/-
  C17 model, part 6 — which option combinations `Deconvolution1D.__init__` (both forms),
  `_getConvolutionOperator`, `_getCirculantMatrix` and `_getExactSolution` accept, and the class of the
  FIRST exception raised otherwise (`cuqi/testproblem/_testproblem.py`), in the order of the code.
  Data-dependent refusals (scaled noise with a zero exact datum, a `0/0` phantom reaching
  `Gaussian`) are outside this function.  No Mathlib, executable.
-/
namespace CuqiVerif.C17
open CuqiVerif.C07

/-- what the caller passes for `PSF` / `phantom`: an ndarray (its `ndim` and `shape[0]`), a string, or anything else -/
inductive Arg
  | array (ndim len : Nat)
  | str (s : String)
  | other
  deriving DecidableEq, Repr

structure D1Opts where
  dim : Nat
  legacy : Bool
  bc : String
  psfSize : Option Nat
  psf : Arg
  /-- `PSF_param == 0` (only read by the `'defocus'` branch) -/
  psfParamZero : Bool
  phantom : Arg
  /-- for a named phantom: `_getExactSolution` itself raises (`phantom_param < 3`, unfillable `'hat'`
      slices — `Model/C17_phantom`) -/
  phantomRefused : Bool
  noise : String
  deriving Repr

def phantomNames : List String := ["gauss", "sinc", "vonmises", "square", "hat", "bumps", "derivgauss", "pc", "skyscraper"]
def legacyPsfNames : List String := ["gauss", "sinc", "prolate", "vonmises"]

/-- set-up of the forward model: `none` = built -/
def forwardRefusal (o : D1Opts) : Option String :=
  if o.legacy then
    if o.bc ≠ "periodic" then some "ValueError"                 -- compared WITHOUT `.lower()`
    else if o.psfSize.isSome then some "ValueError"
    else if o.dim % 2 ≠ 0 then some "NotImplementedError"
    else match o.psf with
      | .array nd len => if nd ≠ 1 ∨ len ≠ o.dim then some "ValueError" else none
      | .str s => if legacyPsfNames.contains s.toLower then none else some "NotImplementedError"
      | .other => some "AttributeError"                        -- `PSF.lower()`
  else
    if (bc1d o.bc.toLower).isNone then some "ValueError"
    else match o.psf with
      | .array nd _ => if nd ≠ 1 then some "ValueError" else none
      | .str s =>
        match psfName s.toLower with
        | none => some "ValueError"
        | some .defocus => if o.psfParamZero then some "IndexError" else none
        | some _ => none
      | .other => some "NameError"                             -- `P` is never bound; raised by the first `Afun(...)`

def phantomRefusal (o : D1Opts) : Option String :=
  match o.phantom with
  | .array nd len => if nd ≠ 1 ∨ len ≠ o.dim then some "ValueError" else none
  | .str s => if phantomNames.contains s.toLower then (if o.phantomRefused then some "ValueError" else none) else some "NotImplementedError"
  | .other => some "ValueError"

/-- the first exception of `Deconvolution1D.__init__`; `none`: the problem is constructed -/
def deconv1dRefusal (o : D1Opts) : Option String :=
  match forwardRefusal o with
  | some e => some e
  | none =>
    match phantomRefusal o with
    | some e => some e
    | none => if (noiseType o.noise.toLower).isNone then some "NotImplementedError" else none

end CuqiVerif.C17
