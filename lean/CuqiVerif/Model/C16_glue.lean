/-
  C16 model, part 2 — the glue of `cuqi/solver/_solver.py` around the recurrences of `Model/C16.lean`:
  constructors (`int(maxit)`), what `solve()` returns, the dispatch of `PCGLS` on
  `config.MAX_DIM_INV` / `has_cholmod` with its error branches, the start-vector dtype promotion
  of `CGLS`/`PCGLS`, the `info` dictionaries of `L_BFGS_B` and `LS`, the call `LS` hands to
  `scipy.optimize.least_squares`, the re-wrapping of the solution as a `CUQIarray`, and the
  non-callable (`explicitA`) branch of `LM`.
  Import-free apart from `Model/C16.lean` (core Lean only).
-/
import CuqiVerif.Model.C16
namespace CuqiVerif.C16

/-! ## `int(maxit)` — every constructor (`CGLS`, `PCGLS`, `LM`, `FISTA`, `LS`) starts with it -/

/-- a Python real number as a constructor can receive it for `maxit`
    (`int`, `bool`, `float`, numpy scalar): finite with its exact value, or one of the three non-finite floats -/
inductive PyNum where
  | fin (q : Rat)
  | nan
  | posInf
  | negInf
  deriving DecidableEq, Repr

/-- the exception classes `int(x)` raises -/
inductive CtorErr where
  | valueError      -- `int(float('nan'))`
  | overflowError   -- `int(float('inf'))`, `int(-float('inf'))`
  deriving DecidableEq, Repr

/-- Python `int(q)` for a finite number: truncation toward zero -/
def pyTrunc (q : Rat) : Int := if q < 0 then -((-q).floor) else q.floor

/-- Python `int(x)` -/
def pyInt : PyNum → Except CtorErr Int
  | .fin q => .ok (pyTrunc q)
  | .nan => .error .valueError
  | .posInf => .error .overflowError
  | .negInf => .error .overflowError

/-- number of passes `while k < maxit` (counter from 0) allows -/
def budget (maxit : Int) : Nat := maxit.toNat

/-! ## What `solve()` returns, from the constructor arguments -/
section Solve
variable {K V W : Type} [Add K] [Sub K] [Mul K] [Div K] [Neg K] [Zero K] [One K] [LT K] [LE K]
  [DecidableEq K] [DecidableLT K] [DecidableLE K] [NatCast K]
variable (oV : VOps K V) (oW : VOps K W) (fwd : V → W) (adj : W → V) (b : W)

/-- `CGLS(A, b, x0, maxit, tol, shift).solve()` = `(x, k)`; the constructor raises for a non-finite `maxit` -/
def cglsSolve (shift tol eps : K) (x0 : V) (maxit : PyNum) : Except CtorErr (V × Nat) :=
  (pyInt maxit).map fun n =>
    let st := cgls oV oW fwd adj b shift tol eps x0 (budget n)
    (st.x, st.k)

/-- `FISTA(A, b, x0, proximal, maxit, stepsize, abstol, adaptive).solve()` = `(x_new, k)`;
    `k >= maxit` with an `int` that may be `≤ 0`: the loop body always runs once -/
def fistaSolve (prox : V → K → V) (stepsize abstol : K) (adaptive : Bool) (x0 : V) (maxit : PyNum) :
    Except CtorErr (V × Nat) :=
  (pyInt maxit).map fun n => fista oV oW fwd adj b prox stepsize abstol (budget n) adaptive x0

/-- which way `PCGLS` applies `P⁻¹` (`__init__`, l.368-377, and `_apply_Pinv`) -/
inductive PinvBranch where
  | explicitInv   -- `Pinv = spa.linalg.inv(P)`, then `Pinv @ x` / `Pinv.T @ x`
  | cholmod       -- `self._P.solve_A(x)` / `self._P.solve_At(x)`
  | spsolve       -- `spa.linalg.spsolve(P, x)` / `spsolve(P.T, x)`
  deriving DecidableEq, Repr

/-- `if self._dim < config.MAX_DIM_INV: explicit … else: (cholmod if has_cholmod else spsolve)` -/
def pinvBranch (dim maxDimInv : Int) (hasCholmod : Bool) : PinvBranch :=
  if dim < maxDimInv then .explicitInv else if hasCholmod then .cholmod else .spsolve

/-- how `PCGLS(...)` / `.solve()` can fail for consistent shapes and an invertible `P` -/
inductive PcErr where
  | ctor (e : CtorErr)   -- `int(maxit)`
  | inv1x1               -- `spa.linalg.inv` of a 1×1 matrix is 1-D: `Pinv @ p` is 0-d, the first loop pass raises `ValueError`
  | cholmodAttr          -- `__init__` rebinds the *local* `P` to the factor; `self._P` is still the sparse matrix: `AttributeError`
  deriving DecidableEq, Repr

/-- `PCGLS(A, b, x0, P, maxit, tol, shift).solve()` = `(x, k)` with `dim = len(x0)`;
    `pinv`/`pinvT` = the maps `P⁻¹·`, `P⁻ᵀ·` whichever branch computes them -/
def pcglsSolve (dim maxDimInv : Int) (hasCholmod : Bool) (pinv pinvT : V → V) (shift tol eps : K) (x0 : V)
    (maxit : PyNum) : Except PcErr (V × Nat) :=
  match pyInt maxit with
  | .error e => .error (.ctor e)
  | .ok n =>
    let run : Except PcErr (V × Nat) :=
      let st := pcgls oV oW fwd adj b tol eps pinv pinvT shift x0 (budget n)
      .ok (st.x, st.k)
    match pinvBranch dim maxDimInv hasCholmod with
    | .explicitInv => if dim = 1 ∧ 1 ≤ n then .error .inv1x1 else run
    | .cholmod => .error .cholmodAttr          -- already in the initial state (`_apply_Pinv(…, 2)`)
    | .spsolve => run

end Solve

section SolveLM
variable {K V W M : Type} [Add K] [Sub K] [Mul K] [Div K] [Neg K] [Zero K] [LT K] [LE K]
  [DecidableEq K] [DecidableLT K] [DecidableLE K] [NatCast K]
variable (oV : VOps K V) (oW : VOps K W)

/-- `LM(A, x0, jacfun, maxit, tol, gradtol, nu0, sparse).solve()` for callable `A`, `jacfun`:
    `(x, {"func": r, "Jac": J, "nfev": i})` -/
def lmSolve (res : V → W) (jac : V → M) (jtv : M → W → V) (insolve : M → K → V → V) (nu0 gradtol : K)
    (x0 : V) (nuInit : K) (maxit : PyNum) : Except CtorErr (V × W × M × Nat) :=
  (pyInt maxit).map fun n =>
    let st := lm oV oW res jac jtv insolve nu0 gradtol x0 nuInit (budget n)
    (st.x, st.r, st.J, st.i)

inductive LmErr where
  | ctor (e : CtorErr)
  | explicitBranch     -- `J = jacfun @ x` is a vector: `J.T@J + nu*I` / `insolve(…, g)` with a 0-d `g` raise
  deriving DecidableEq, Repr

/-- `LM.solve()` when `A` is not callable (`explicitA`): `r = A @ x`, `J = jacfun @ x` (a *vector*), `g = J.T @ r`
    a scalar.  If the loop is entered (`g ≠ 0`, `1 > gradtol`, `maxit ≥ 1`) the first pass raises;
    otherwise `x0` comes back with `info = {func: A@x0, Jac: jacfun@x0, nfev: 0}`. -/
def lmSolveExplicit (A Jf : V → W) (gradtol : K) (x0 : V) (maxit : PyNum) : Except LmErr (V × W × W × Nat) :=
  match pyInt maxit with
  | .error e => .error (.ctor e)
  | .ok n =>
    let r := A x0
    let J := Jf x0
    let g := oW.dot J r
    if lmCont (g * g) (g * g) gradtol && decide (0 < n) then .error .explicitBranch else .ok (x0, r, J, 0)

end SolveLM

/-! ## dtype of the iterate: `x = x0.astype(np.result_type(x0.dtype, np.float64))` (CGLS, PCGLS) -/

inductive DType where
  | bool | int8 | uint8 | int16 | uint16 | int32 | uint32 | int64 | uint64
  | float16 | float32 | float64 | longdouble | complex64 | complex128
  deriving DecidableEq, Repr

/-- `np.result_type(dt, np.float64)` -/
def promoteF64 : DType → DType
  | .longdouble => .longdouble
  | .complex64 => .complex128
  | .complex128 => .complex128
  | _ => .float64

/-- real floating types at least as wide as double -/
def DType.atLeastDouble : DType → Bool
  | .float64 | .longdouble | .complex128 => true
  | _ => false

/-! ## `L_BFGS_B.solve`: the whole translation of `fmin_l_bfgs_b`'s `(x, f, d)` -/

/-- what `fmin_l_bfgs_b` returns: `(x, f, {"grad", "task", "funcalls", "nit", "warnflag"})` -/
structure FminRes (X F G : Type) where
  x : X
  f : F
  grad : G
  task : String
  funcalls : Nat
  nit : Nat
  warnflag : Int

/-- `info` of `L_BFGS_B` (`success` is the integer `1`/`0`) -/
structure LInfo (F G : Type) where
  success : Nat
  message : String
  func : F
  grad : G
  nit : Nat
  nfev : Nat
  deriving DecidableEq

/-- `L_BFGS_B.solve`, l.69-84 -/
def wrapLbfgsb {X F G : Type} (r : FminRes X F G) : X × LInfo F G :=
  let sm := lbfgsbStatus r.warnflag r.task
  (r.x, { success := sm.1, message := sm.2, func := r.f, grad := r.grad, nit := r.nit, nfev := r.funcalls })

/-- the call `fmin_l_bfgs_b(func, x0, fprime=gradfunc, approx_grad=…, **kwargs)` -/
structure FminCall where
  hasFprime : Bool
  approxGrad : Nat
  kwargs : List String
  deriving DecidableEq, Repr

def lbfgsbCall (hasGrad : Bool) (kwargs : List String) : FminCall :=
  { hasFprime := hasGrad, approxGrad := lbfgsbApproxGrad hasGrad, kwargs := kwargs }

/-! ## `LS`: constructor, the call handed to `scipy.optimize.least_squares`, the `info` dictionary -/

/-- the `jac` argument of `least_squares` as `LS` can produce it -/
inductive JacArg where
  | none                 -- `jacfun=None` (the documented default of `LS`)
  | callable
  | str (s : String)     -- a user may pass SciPy's strings through `jacfun`
  deriving DecidableEq, Repr

/-- `least_squares(func, x0, jac=jacfun, method=method, loss=loss, xtol=tol, max_nfev=int(maxit))` -/
structure LSCall (T : Type) where
  jac : JacArg
  method : String
  loss : String
  xtol : T
  maxNfev : Int
  deriving DecidableEq, Repr

/-- `LS.__init__` + the call in `LS.solve` (the constructor raises for a non-finite `maxit`) -/
def lsCall {T : Type} (jacfun : JacArg) (method loss : String) (tol : T) (maxit : PyNum) : Except CtorErr (LSCall T) :=
  (pyInt maxit).map fun n => { jac := jacfun, method := method, loss := loss, xtol := tol, maxNfev := n }

/-- defaults of `LS.__init__`: `jacfun=None, method='trf', loss='linear', tol=1e-6, maxit=1e4` -/
def lsDefaultCall : Except CtorErr (LSCall Rat) :=
  lsCall .none "trf" "linear" ((1 : Rat) / 1000000) (.fin 10000)

/-- SciPy's own check of `jac` (`least_squares`: "`jac` must be '2-point', '3-point', 'cs' or callable") -/
def scipyJacOk : JacArg → Bool
  | .none => false
  | .callable => true
  | .str s => s = "2-point" || s = "3-point" || s = "cs"

/-- fields of SciPy's `OptimizeResult` of `least_squares` that `LS.solve` reads -/
structure LsqRes (X F J : Type) where
  x : X
  fn : F
  jac : J
  nfev : Nat
  success : Bool
  message : String

structure LSInfo (F J : Type) where
  success : Bool
  message : String
  func : F
  jac : J
  nfev : Nat
  deriving DecidableEq

/-- `LS.solve`, l.225-229 -/
def wrapLS {X F J : Type} (r : LsqRes X F J) : X × LSInfo F J :=
  (r.x, { success := r.success, message := r.message, func := r.fn, jac := r.jac, nfev := r.nfev })

inductive LSErr where
  | ctor (e : CtorErr)
  | scipyRejectsJac      -- `ValueError: jac must be …`
  deriving DecidableEq, Repr

/-- `LS(func, x0, jacfun, method, loss, tol, maxit).solve()` with SciPy as a function of the call -/
def lsSolve {T X F J : Type} (scipy : LSCall T → LsqRes X F J)
    (jacfun : JacArg) (method loss : String) (tol : T) (maxit : PyNum) : Except LSErr (X × LSInfo F J) :=
  match lsCall jacfun method loss tol maxit with
  | .error e => .error (.ctor e)
  | .ok c => if scipyJacOk c.jac then .ok (wrapLS (scipy c)) else .error .scipyRejectsJac

/-! ## `minimize` / `maximize` / `LS`: `CUQIarray(solution['x'], geometry=x0.geometry)` if `x0` is a `CUQIarray` -/

/-- what the caller gets: SciPy's array, or a `CUQIarray` carrying a geometry -/
inductive Sol (X Geo : Type) where
  | plain (x : X)
  | cuqi (x : X) (geometry : Geo)
  deriving DecidableEq, Repr

def Sol.values {X Geo : Type} : Sol X Geo → X
  | .plain x => x
  | .cuqi x _ => x

/-- l.153-157 / l.230-233: `x0geom = some g` iff `isinstance(x0, CUQIarray)` with `x0.geometry = g` -/
def rewrap {X Geo : Type} (x0geom : Option Geo) (x : X) : Sol X Geo :=
  match x0geom with
  | some g => .cuqi x g
  | none => .plain x

/-- the wrappers that re-wrap: `minimize`, `maximize` (inherits `solve`), `LS`; `L_BFGS_B` returns `solution[0]` as is -/
def wrapperRewraps (wrapper : String) : Bool :=
  wrapper = "minimize" || wrapper = "maximize" || wrapper = "LS"

def wrapperSolution {X Geo : Type} (wrapper : String) (x0geom : Option Geo) (x : X) : Sol X Geo :=
  if wrapperRewraps wrapper then rewrap x0geom x else .plain x

/-! ## the inverse certificate of the PCGLS driver op, on the arrays the model runs on -/
section Cert
variable {K : Type} [Add K] [Mul K] [Zero K] [One K] [DecidableEq K]

/-- `(Q @ P)[i][j]` -/
def matMulEntry {n : Nat} (Q P : Mat K n n) (i j : Fin n) : K :=
  (List.ofFn (fun k : Fin n => Q[i][k] * P[k][j])).sum

/-- `Q @ P == I`, entry by entry -/
def isLeftInverse {n : Nat} (Q P : Mat K n n) : Bool :=
  decide (∀ i j : Fin n, matMulEntry Q P i j = if i = j then 1 else 0)

/-- the certificate the driver checks before it runs `pcgls` with `pinv = mulVec Pim`: `Pim @ Pm == I` and `Pm @ Pim == I` -/
def isInverseCert {n : Nat} (Pm Pim : Mat K n n) : Bool := isLeftInverse Pim Pm && isLeftInverse Pm Pim

end Cert

/-! ## `maxit` re-assigned on an existing solver object (`solver.maxit = q`): no `int()` is applied -/

/-- passes `while (k < maxit)` (counter from 0) allows when `maxit` is the raw Python number: the number of naturals
    below it — `⌈q⌉` for `q > 0`, `0` for `q ≤ 0`, `nan` (`k < nan` is `False`) and `-inf`; unbounded (`none`) for `+inf` -/
def pyCeil (q : Rat) : Int := -((-q).floor)

def budgetAssigned : PyNum → Option Nat
  | .fin q => some (pyCeil q).toNat
  | .nan => some 0
  | .negInf => some 0
  | .posInf => none

/-- FISTA's `k >= maxit` with the raw number: `nan` never stops the loop (`none`), `-inf` stops after the first pass -/
def budgetAssignedFista : PyNum → Option Nat
  | .fin q => some (pyCeil q).toNat
  | .nan => none
  | .negInf => some 0
  | .posInf => none

section Assigned
variable {K V W : Type} [Add K] [Sub K] [Mul K] [Div K] [Neg K] [Zero K] [One K] [LT K] [LE K]
  [DecidableEq K] [DecidableLT K] [DecidableLE K] [NatCast K]
variable (oV : VOps K V) (oW : VOps K W) (fwd : V → W) (adj : W → V) (b : W)

/-- `s = CGLS(A, b, x0, …); s.maxit = q; s.solve()`; `none` = the budget is unbounded (only the flag can stop the loop) -/
def cglsAssigned (shift tol eps : K) (x0 : V) (maxit : PyNum) : Option (V × Nat) :=
  (budgetAssigned maxit).map fun n =>
    let st := cgls oV oW fwd adj b shift tol eps x0 n
    (st.x, st.k)

/-- `s = FISTA(…); s.maxit = q; s.solve()` -/
def fistaAssigned (prox : V → K → V) (stepsize abstol : K) (adaptive : Bool) (x0 : V) (maxit : PyNum) : Option (V × Nat) :=
  (budgetAssignedFista maxit).map fun n => fista oV oW fwd adj b prox stepsize abstol n adaptive x0

end Assigned

end CuqiVerif.C16
