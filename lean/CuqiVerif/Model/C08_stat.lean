/-
  C08 model, part 3 — the acceptance statistic `alpha / n_alpha` of the No-U-Turn samplers.

  `_BuildTree` returns, besides the tree, two accumulators: `alpha_prime` (base case
  `1 if diff_Ham > 0 else np.exp(diff_Ham)`, recursion `alpha_prime += alpha_2prime` — only when the first
  half reported `s' = 1`) and `n_alpha_prime` (base case 1, recursion `+= n_alpha_2prime`).  The doubling loop
  of `step` / `_sample` stores `alpha/n_alpha` of the sub-tree of the iteration just executed
  (`self._current_alpha_ratio = alpha/n_alpha`; legacy: the locals `alpha, n_alpha` read by the dual-averaging
  block after the loop).  `Model/C08.lean` only logs the visited leaves; here the accumulators themselves are
  transcribed, in one recursion with the tree exactly like the code, generically in the type `A` in which the
  statistic is added up and in the leaf weight `w`.  `Props/C08_stat.lean` proves that the tree component is
  `buildTree`'s tree and that the accumulators are the sum of `w` over / the number of the visited leaves.

  Executable instance: `exp` is irrational, so the statistic is accumulated *symbolically* (`StatSum`: how many
  leaves contribute `1`, the list of exponents `ΔH ≤ 0` contributing `exp ΔH`, how many contribute
  `exp(-inf) = 0`, how many contribute NaN); the harness evaluates the `exp`s.
  Import-free, executable.
-/
import CuqiVerif.Model.C08
namespace CuqiVerif.C08

/-- `_BuildTree(…, v, j, …)` with the accumulators: returns (tree, (alpha', n_alpha'), remaining draws). -/
def buildTreeStat {Z A : Type} [Add A] (c : Ctx Z) (w : Z → A) (v : Int) :
    Nat → Z → List Rat → Tree Z × (A × Nat) × List Rat
  | 0, z, us =>
    let z' := c.step v z
    ({ zminus := z', zplus := z', cand := z', n := if inSlice c z' then 1 else 0,
       s := notDiverged c z', leaves := [z'], nodes := 1, wts := [1] }, (w z', 1), us)
  | j + 1, z, us =>
    let (t1, (a1, m1), us1) := buildTreeStat c w v j z us
    if t1.s then
      let start := if v = -1 then t1.zminus else t1.zplus
      let (t2, (a2, m2), us2) := buildTreeStat c w v j start us1
      let (u, us3) := popU us2
      let zminus := if v = -1 then t2.zminus else t1.zminus
      let zplus := if v = -1 then t1.zplus else t2.zplus
      ({ zminus := zminus, zplus := zplus,
         cand := if takeSecond u t1.n t2.n then t2.cand else t1.cand,
         n := t1.n + t2.n,
         s := t2.s && c.noUturn zminus zplus,
         leaves := t1.leaves ++ t2.leaves,
         nodes := 1 + t1.nodes + t2.nodes,
         wts := t1.wts.map ((1 - secondProb t1.n t2.n) * ·) ++ t2.wts.map (secondProb t1.n t2.n * ·) },
       (a1 + a2, m1 + m2), us3)
    else
      ({ t1 with nodes := 1 + t1.nodes }, (a1, m1), us1)

/-- one iteration of the doubling loop, also returning `(alpha, n_alpha)` of the sub-tree just built
    (what `self._current_alpha_ratio = alpha/n_alpha` is computed from) -/
def loopBodyStat {Z A : Type} [Add A] (c : Ctx Z) (w : Z → A) (guard : Z → Bool) (st : Loop Z) :
    Loop Z × (A × Nat) :=
  let (ud, us0) := popU st.us
  let v : Int := if ud < 1/2 then 1 else -1
  let (t, stat, us1) := buildTreeStat c w v st.j (if v = -1 then st.zminus else st.zplus) us0
  let zminus := if v = -1 then t.zminus else st.zminus
  let zplus := if v = -1 then st.zplus else t.zplus
  let (accept, us2) :=
    if t.s then
      let (u, rest) := popU us1
      (decide (u * (st.n : Rat) < (t.n : Rat)) && decide (u < 1) && guard t.cand, rest)
    else (false, us1)
  ({ cur := if accept then t.cand else st.cur,
     zminus := zminus, zplus := zplus,
     j := st.j + 1,
     s := t.s && c.noUturn zminus zplus,
     n := st.n + t.n,
     acc := st.acc || accept,
     last := t.leaves,
     nodes := st.nodes + t.nodes,
     us := us2 }, stat)

/-- the doubling loop carrying the statistic; `none` = not assigned in this transition (the experimental
    interface initialises `_current_alpha_ratio = nan` and keeps the previous transition's value) -/
def loopStat {Z A : Type} [Add A] (c : Ctx Z) (w : Z → A) (guard : Z → Bool) (maxDepth : Nat) :
    Nat → Loop Z × Option (A × Nat) → Loop Z × Option (A × Nat)
  | 0, p => p
  | fuel + 1, (st, o) =>
    if st.s && decide (st.j ≤ maxDepth) then
      let (st', stat) := loopBodyStat c w guard st
      loopStat c w guard maxDepth fuel (st', some stat)
    else (st, o)

def nutsStepStat {Z A : Type} [Add A] (c : Ctx Z) (w : Z → A) (guard : Z → Bool) (maxDepth : Nat)
    (z0 : Z) (us : List Rat) : Loop Z × Option (A × Nat) :=
  loopStat c w guard maxDepth (maxDepth + 1)
    ({ cur := z0, zminus := z0, zplus := z0, j := 0, s := true, n := 1, acc := false,
       last := [], nodes := 0, us := us }, none)

/-! ## executable instance: the sum accumulated symbolically -/

/-- a sum of leaf weights `1 if ΔH > 0 else exp(ΔH)`: `ones` leaves with `ΔH > 0` (incl. `+inf`), the exponents
    `ΔH ≤ 0` in accumulation order, `zeros` leaves with `ΔH = -inf` (`exp(-inf) = 0`), `nans` leaves with NaN `ΔH`
    (`nan > 0` is false and `exp(nan) = nan`: one such leaf makes the float sum NaN) -/
structure StatSum where
  ones : Nat
  exps : List Rat
  zeros : Nat
  nans : Nat
  deriving Repr, BEq, DecidableEq

instance : Add StatSum :=
  ⟨fun a b => ⟨a.ones + b.ones, a.exps ++ b.exps, a.zeros + b.zeros, a.nans + b.nans⟩⟩

/-- `diff_Ham = Ham_prime - Ham`; `alpha_prime = 1 if diff_Ham > 0 else np.exp(diff_Ham)` with the `exp` kept symbolic -/
def xrWeight (d : XR) : StatSum :=
  match d with
  | .fin q => if q > 0 then ⟨1, [], 0, 0⟩ else ⟨0, [q], 0, 0⟩
  | .pinf => ⟨1, [], 0, 0⟩
  | .ninf => ⟨0, [], 1, 0⟩
  | .nan => ⟨0, [], 0, 1⟩

def psWeight (ham0 : Rat) (z : PS) : StatSum := xrWeight ((psHam z).subRat ham0)

end CuqiVerif.C08
