/-
  C14 model — record keeping, checkpointing and re-initialisation of the samplers.
  Import-free and executable.

  Stateful interface (`cuqi/experimental/mcmc/_sampler.py`):
    a sampler object is an attribute map `Obj`; a sampler class is a `Spec` (its `_STATE_KEYS`, what
    `initialize` / `_initialize` do, `step`, `tune`, `_pre_sample`, `_pre_warmup`);
    `sample`, `warmup`, `get_state`, `set_state`, `save_checkpoint`/`load_checkpoint`, `reinitialize`
    and `_call_callback` are transcribed statement by statement from the base class `Sampler`.
  Stateless interface (`cuqi/sampler/_*.py`): the `_sample` / `_sample_adapt` loops over a
    pre-allocated column array, including the two things in which the classes differ: whether the
    loop calls `_call_callback`, and whether `single_update` writes through the *view* of the
    previous column it is handed (legacy `CWMH`).
  Gibbs samplers: `HybridGibbs.sample/warmup` (`cuqi/experimental/mcmc/_gibbs.py`) and legacy
    `Gibbs.sample` (`cuqi/sampler/_gibbs.py`) as iterated sweeps with their storage.
-/
namespace CuqiVerif.C14

/-! ## attribute maps -/

/-- attribute values occurring in the executable instances (`none` = Python `None`,
    `unset` = NUTS' string marker `"unset"`) -/
inductive Val
  | none
  | unset
  | int (i : Int)
  | ints (v : List Int)
  deriving DecidableEq, Repr, Inhabited

/-- a Python object's attribute dictionary: association list, newest binding first -/
abbrev Obj := List (String × Val)

def Obj.empty : Obj := []

/-- `getattr(self, k)` (absent attributes read as `none`) -/
def Obj.get : Obj → String → Val
  | [], _ => .none
  | (k', v) :: rest, k => if k = k' then v else Obj.get rest k

/-- `setattr(self, k, v)` -/
def Obj.set (o : Obj) (k : String) (v : Val) : Obj := (k, v) :: o

/-- `for key in keys: setattr(self, key, None)` -/
def Obj.clear (o : Obj) : List String → Obj
  | [] => o
  | k :: ks => Obj.clear (o.set k .none) ks

/-- `{key: getattr(self, key) for key in _STATE_KEYS}` -/
def getState (keys : List String) (o : Obj) : List (String × Val) := keys.map (fun k => (k, o.get k))

/-- `set_state`: every key of the dictionary must be a state key (else `ValueError`). -/
def setState (keys : List String) : List (String × Val) → Obj → Option Obj
  | [], o => some o
  | (k, v) :: rest, o => if k ∈ keys then setState keys rest (o.set k v) else Option.none

/-! ## stateful interface -/

/-- A sampler class: `D` random draws, `A` acceptance records. -/
structure Spec (D A : Type) where
  stateKeys : List String
  /-- `initialize()`: state attributes from the configuration attributes (incl. `_initialize`) -/
  init : Obj → Obj
  /-- initial `_acc` (`[1]`; `[ones(dim)]` for CWMH) -/
  initAcc : Obj → List A
  step : Obj → List D → Obj × A × List D
  /-- `tune(skip_len, update_count)`; sees `self._acc` -/
  tune : Obj → List A → Nat → Nat → Obj
  preSample : Obj → Obj
  preWarmup : Obj → Obj

/-- The run-time record of a sampler: attributes, history lists, and (ghost) the callback log,
    the tuning calls and the rest of the random stream. -/
structure Run (D A : Type) where
  obj : Obj
  initialized : Bool
  samples : List Val
  acc : List A
  events : List (Val × Nat)
  /-- ghost log of the `tune` calls: (number of stored samples at the call, skip_len, update_count) -/
  tunes : List (Nat × Nat × Nat)
  stream : List D

def point (o : Obj) : Val := o.get "current_point"

/-- a freshly constructed sampler with configuration attributes `cfg` -/
def Run.fresh {D A : Type} (cfg : Obj) (stream : List D) : Run D A :=
  { obj := cfg, initialized := false, samples := [], acc := [], events := [], tunes := [], stream := stream }

/-- `Sampler.initialize` -/
def initializeRun {D A : Type} (sp : Spec D A) (r : Run D A) : Run D A :=
  { r with obj := sp.init r.obj, samples := [], acc := sp.initAcc r.obj, initialized := true }

/-- `Sampler._ensure_initialized` -/
def ensureInit {D A : Type} (sp : Spec D A) (r : Run D A) : Run D A :=
  if r.initialized then r else initializeRun sp r

/-- body of the `for idx in range(Ns)` loop of `Sampler.sample`:
    `acc = self.step(); self._acc.append(acc); self._samples.append(self.current_point);
     self._call_callback(self.current_point, len(self._samples)-1)` -/
def oneStep {D A : Type} (sp : Spec D A) (r : Run D A) : Run D A :=
  let res := sp.step r.obj r.stream
  let samples := r.samples ++ [point res.1]
  { r with obj := res.1, stream := res.2.2, acc := r.acc ++ [res.2.1], samples := samples,
           events := r.events ++ [(point res.1, samples.length - 1)] }

def sampleLoop {D A : Type} (sp : Spec D A) : Nat → Run D A → Run D A
  | 0, r => r
  | n + 1, r => sampleLoop sp n (oneStep sp r)

/-- `Sampler.sample(Ns)` (no batching) -/
def sample {D A : Type} (sp : Spec D A) (n : Nat) (r : Run D A) : Run D A :=
  let r := ensureInit sp r
  sampleLoop sp n { r with obj := sp.preSample r.obj }

/-! ### batching (`sample(Ns, batch_size=b, sample_path=…)`, class `_BatchHandler`) -/

/-- `_BatchHandler.add_sample`: append to the current batch; when it holds `b` samples write it to
    the next file and clear it.  State: (current batch, files written so far). -/
def batchAdd (b : Nat) (p : Val) (st : List Val × List (List Val)) : List Val × List (List Val) :=
  let cur := st.1 ++ [p]
  if cur.length ≥ b then ([], st.2 ++ [cur]) else (cur, st.2)

/-- the loop of `sample` with `batch_size = b > 0`: the loop body of `sample`, plus
    `batch_handler.add_sample(self.current_point)` (between the store and the callback) -/
def batchLoop {D A : Type} (sp : Spec D A) (b : Nat) :
    Nat → Run D A × (List Val × List (List Val)) → Run D A × (List Val × List (List Val))
  | 0, x => x
  | n + 1, (r, bs) =>
    let r' := oneStep sp r
    batchLoop sp b n (r', batchAdd b (point r'.obj) bs)

/-- `Sampler.sample(Ns, batch_size=b)` with `b > 0`: a new batch handler per call; the remainder of
    an incomplete last batch is *not* written (the code never calls `finalize`). -/
def sampleBatched {D A : Type} (sp : Spec D A) (n b : Nat) (r : Run D A) : Run D A × List (List Val) :=
  let r := ensureInit sp r
  let res := batchLoop sp b n ({ r with obj := sp.preSample r.obj }, ([], []))
  (res.1, res.2.2)

/-- body of the warm-up loop: step, tune at tuning intervals (before the acceptance record of
    this step is appended), then store and call back. -/
def warmStep {D A : Type} (sp : Spec D A) (ti idx : Nat) (r : Run D A) : Run D A :=
  let res := sp.step r.obj r.stream
  let tuned := (idx + 1) % ti = 0
  let o := if tuned then sp.tune res.1 r.acc ti (idx / ti) else res.1
  let tunes := if tuned then r.tunes ++ [(r.samples.length, ti, idx / ti)] else r.tunes
  let samples := r.samples ++ [point o]
  { r with obj := o, stream := res.2.2, acc := r.acc ++ [res.2.1], samples := samples, tunes := tunes,
           events := r.events ++ [(point o, samples.length - 1)] }

def warmLoop {D A : Type} (sp : Spec D A) (ti : Nat) : Nat → Nat → Run D A → Run D A
  | 0, _, r => r
  | k + 1, idx, r => warmLoop sp ti k (idx + 1) (warmStep sp ti idx r)

/-! ### `int(tune_freq * Nb)` in IEEE double arithmetic -/

def pow2 (e : Int) : Rat := if e ≥ 0 then ((2 ^ e.toNat : Nat) : Rat) else 1 / ((2 ^ (-e).toNat : Nat) : Rat)

def roundHalfEven (q : Rat) : Int :=
  let f := q.floor
  let d := q - (f : Rat)
  if d < 1 / 2 then f else if d > 1 / 2 then f + 1 else if f % 2 = 0 then f else f + 1

/-- exponent `e` with `2^e ≤ q < 2^(e+1)` for `q > 0` -/
def ilog2 (q : Rat) : Int :=
  let e0 : Int := (Nat.log2 q.num.toNat : Int) - (Nat.log2 q.den : Int)
  if pow2 e0 ≤ q then (if pow2 (e0 + 1) ≤ q then e0 + 1 else e0) else e0 - 1

/-- nearest double (round-half-even, 53-bit significand; normal range) of a non-negative rational -/
def round53 (q : Rat) : Rat :=
  if q ≤ 0 then 0 else
    let e := ilog2 q
    ((roundHalfEven (q / pow2 (e - 52)) : Int) : Rat) * pow2 (e - 52)

/-- `max(int(tune_freq * Nb), 1)` with the product rounded as the float multiplication does -/
def tuneInterval (tf : Rat) (nb : Nat) : Nat :=
  max (round53 (tf * (nb : Rat))).floor.toNat 1

/-- `Sampler.warmup(Nb, tune_freq)` -/
def warmup {D A : Type} (sp : Spec D A) (nb : Nat) (tf : Rat) (r : Run D A) : Run D A :=
  let r := ensureInit sp r
  warmLoop sp (tuneInterval tf nb) nb 0 { r with obj := sp.preWarmup r.obj }

/-- `save_checkpoint`: `_ensure_initialized(); state = get_state()` -/
def saveCheckpoint {D A : Type} (sp : Spec D A) (r : Run D A) : Run D A × List (String × Val) :=
  let r := ensureInit sp r
  (r, getState sp.stateKeys r.obj)

/-- `load_checkpoint`: `_ensure_initialized(); set_state(state)` -/
def loadCheckpoint {D A : Type} (sp : Spec D A) (st : List (String × Val)) (r : Run D A) : Option (Run D A) :=
  let r := ensureInit sp r
  (setState sp.stateKeys st r.obj).map (fun o => { r with obj := o })

/-- `reinitialize`: state and history keys to `None`, `_is_initialized = False`, `initialize()` -/
def reinitialize {D A : Type} (sp : Spec D A) (r : Run D A) : Run D A :=
  initializeRun sp { r with obj := r.obj.clear sp.stateKeys, samples := [], acc := [], initialized := false }

/-- the chain of transitions (point, acceptance) a sampler object makes from a stream -/
def transitions {D A : Type} (step : Obj → List D → Obj × A × List D) : Nat → Obj → List D → List (Val × A)
  | 0, _, _ => []
  | n + 1, o, ds =>
    let res := step o ds
    (point res.1, res.2.1) :: transitions step n res.1 res.2.2

/-! ### executable instances run by the driver -/

def getInt : Val → Int
  | .int i => i
  | _ => 0

def getInts : Val → List Int
  | .ints v => v
  | .int i => [i]
  | _ => []

def sumLast (acc : List Int) (k : Nat) : Int := (acc.drop (acc.length - k)).foldl (· + ·) 0

/-- The harness' test subclass `Toy(Sampler)`: integer-valued, data-dependent stream consumption,
    tuned `scale`, NUTS-like `eps_bar` that is `"unset"` until the first `_pre_sample`/`_pre_warmup`. -/
def toySpec : Spec Int Int where
  stateKeys := ["current_point", "scale", "eps_bar"]
  init := fun o => ((o.set "current_point" (o.get "initial_point")).set "scale" (o.get "initial_scale")).set "eps_bar" .unset
  initAcc := fun _ => [1]
  step := fun o ds =>
    match ds with
    | [] => (o, 0, [])
    | d :: rest =>
      let x := getInts (o.get "current_point")
      let s := getInt (o.get "scale")
      let prop := x.map (fun xi => xi + s * d)
      if d % 2 = 0 then (o.set "current_point" (.ints prop), 1, rest)
      else match rest with
        | [] => (o, 0, [])
        | u :: rest' =>
          if u ≤ getInt (o.get "eps_bar") then (o.set "current_point" (.ints prop), 1, rest') else (o, 0, rest')
  tune := fun o acc skip cnt =>
    (o.set "scale" (.int (getInt (o.get "scale") + sumLast acc skip + (cnt : Int)))).set "eps_bar" (.int (getInt (o.get "eps_bar") + 1))
  preSample := fun o => if o.get "eps_bar" = .unset then o.set "eps_bar" (o.get "scale") else o
  preWarmup := fun o => if o.get "eps_bar" = .unset then o.set "eps_bar" (.int 1) else o

/-- Replay instance used for the library's own samplers: a transition's outcome (identifier of
    the new point, acceptance flag) is data recorded from the implementation and read off the
    stream; everything around it (storage, indices, callbacks, tuning calls, checkpoints) is the
    model's. -/
def replaySpec : Spec Int Int where
  stateKeys := ["current_point"]
  init := fun o => o.set "current_point" (o.get "initial_point")
  initAcc := fun _ => [1]
  step := fun o ds =>
    match ds with
    | p :: a :: rest => (o.set "current_point" (.int p), a, rest)
    | _ => (o, 0, [])
  tune := fun o _ _ _ => o
  preSample := id
  preWarmup := id

/-! ## stateless interface -/

structure LegacyFlags where
  /-- `single_update` stores through the view `samples[:, s]` it is handed -/
  viewMutation : Bool
  /-- the transition loop calls `self._call_callback(samples[:, s+1], s+1)` -/
  callback : Bool

/-- the loop `for s in range(Ns-1)`: `samples[:, s+1] = single_update(samples[:, s], …)`;
    `outs` are the states produced by the transitions, in order. -/
def legacyLoop {P : Type} (fl : LegacyFlags) : Nat → List P → List P × List (P × Nat) → List P × List (P × Nat)
  | _, [], st => st
  | s, o :: rest, (cols, ev) =>
    let cols := if fl.viewMutation then cols.set s o else cols
    let cols := cols.set (s + 1) o
    let ev := if fl.callback then ev ++ [(o, s + 1)] else ev
    legacyLoop fl (s + 1) rest (cols, ev)

/-- `np.empty((dim, Ns))` with `samples[:, 0] = x0` -/
def legacyAlloc {P : Type} (junk x0 : P) (ns : Nat) : List P := x0 :: List.replicate (ns - 1) junk

/-- `Sampler.sample(N, Nb)` of the stateless interface: stored chain after burn-in removal and the
    callback log; `none` when the code raises (`Ns = 0`: `samples[:, 0]` out of bounds). -/
def legacySample {P : Type} (fl : LegacyFlags) (junk x0 : P) (outs : List P) (n nb : Nat) :
    Option (List P × List (P × Nat)) :=
  if n + nb = 0 then Option.none
  else if outs.length ≠ n + nb - 1 then Option.none
  else
    let res := legacyLoop fl 0 outs (legacyAlloc junk x0 (n + nb), [])
    some (res.1.drop nb, res.2)

/-! ## Gibbs samplers -/

/-- iterate a sweep `n` times, storing the state produced by each sweep
    (`HybridGibbs.sample`: `self.step(); self._store_samples()`) -/
def iterStore {S P D : Type} (sweep : S → List D → S × P × List D) : Nat → S × List P × List D → S × List P × List D
  | 0, st => st
  | n + 1, (s, rec, ds) =>
    let res := sweep s ds
    iterStore sweep n (res.1, rec ++ [res.2.1], res.2.2)

/-- warm-up of `HybridGibbs`: sweep, tune at tuning intervals, store -/
def gibbsWarmLoop {S P D : Type} (sweep : S → List D → S × P × List D) (tune : S → Nat → Nat → S) (ti : Nat) :
    Nat → Nat → S × List P × List D × List (Nat × Nat × Nat) → S × List P × List D × List (Nat × Nat × Nat)
  | 0, _, st => st
  | k + 1, idx, (s, rec, ds, tl) =>
    let res := sweep s ds
    let tuned := (idx + 1) % ti = 0
    let s' := if tuned then tune res.1 ti (idx / ti) else res.1
    let tl' := if tuned then tl ++ [(rec.length, ti, idx / ti)] else tl
    gibbsWarmLoop sweep tune ti k (idx + 1) (s', rec ++ [res.2.1], res.2.2, tl')

/-- legacy `Gibbs.sample(Ns)` (no warm-up): start from the last stored column if the sample array
    exists (`none` = `IndexError` when it exists but is empty), else from the initial points;
    store each sweep's result; return the whole array. `alloc` = `hasattr(self, 'samples')`. -/
def gibbsLegacyLoop {P D : Type} (sweep : P → List D → P × List D) : Nat → P → List P × List D → List P × List D
  | 0, _, st => st
  | n + 1, cur, (rec, ds) =>
    let res := sweep cur ds
    gibbsLegacyLoop sweep n res.1 (rec ++ [res.1], res.2)

def gibbsLegacySample {P D : Type} (sweep : P → List D → P × List D) (init : P) (n : Nat)
    (st : Bool × List P × List D) : Option (Bool × List P × List D) :=
  let cur : Option P := if st.1 then st.2.1.getLast? else some init
  match cur with
  | Option.none => Option.none
  | some c =>
    let res := gibbsLegacyLoop sweep n c (st.2.1, st.2.2)
    some (true, res.1, res.2)

end CuqiVerif.C14
