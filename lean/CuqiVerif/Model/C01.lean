/-
  C01 model — conditioning of joint distributions (`cuqi/distribution/_joint_distribution.py`,
  `_distribution.py`, `_posterior.py`, `cuqi/likelihood/_likelihood.py`, `cuqi/density/_density.py`).
  Import-free and executable.

  What is transcribed is the *bookkeeping*: which density object becomes what when keyword /
  positional arguments are passed (`Distribution._condition`, `Likelihood._condition`,
  `EvaluatedDensity._condition`, `JointDistribution._condition`), how arguments are parsed
  (`_parse_args_add_to_kwargs` of both classes, `Density.logd`'s keyword front end), how a joint
  is reduced (`_reduce_to_single_density`, `_add_constants_to_density`, `Posterior.__init__`,
  `MultipleLikelihoodPosterior.__init__`), and how each object evaluates `logd`
  (`Density.logd`, `Distribution.logd`, `Likelihood._logd`, `Posterior.logpdf`,
  `JointDistribution.logd`, `_StackedJointDistribution.logd`).

  The numerical log-density of an *original* factor is an uninterpreted function
  `f : (Name → Option V) → K` of the values of its own variable and of its conditioning
  variables (a leaf oracle in the driver).  `V` is the type of variable values, `K` the type of
  log-density values (`Rat`-like in the driver, any additive commutative monoid in the theorems).

  Assumptions (stated in docs/C01.md): every distribution has an explicit name (no stack-based
  name inference, except for the `Posterior` created by the reduction, whose name is `none`
  until set); no variable is called like a mutable attribute of a distribution (`mean`, `cov`,
  `likelihood`, `prior`, …) or `_main_parameter`.
-/
namespace CuqiVerif.C01

abbrev Name := String

/-- Python exception classes raised by the transcribed code. -/
inductive Err | value | index | type | attr
  deriving DecidableEq, Repr

def Err.toString : Err → String
  | .value => "ValueError" | .index => "IndexError" | .type => "TypeError" | .attr => "AttributeError"

/-- keyword arguments: a Python dict (insertion ordered; the caller guarantees unique keys) -/
abbrev Kw (V : Type) := List (Name × V)

def kwGet {V : Type} : Kw V → Name → Option V
  | [], _ => none
  | (k, v) :: r, n => if k = n then some v else kwGet r n

def kwKeys {V : Type} (kw : Kw V) : List Name := kw.map (·.1)

/-- `set(a) == set(b)` -/
def setEq (a b : List Name) : Bool := a.all (fun x => b.contains x) && b.all (fun x => a.contains x)

/-- `{k: v for k, v in kwargs.items() if k in names}` -/
def restrict {V : Type} (kw : Kw V) (names : List Name) : Kw V := kw.filter (fun kv => names.contains kv.1)

/-- An original distribution of the model graph: `x ~ Family(callables of params)`. -/
structure Factor (V K : Type) where
  name : Name
  /-- `get_conditioning_variables()` of the unconditioned distribution, in its order -/
  params : List Name
  dim : Nat
  /-- its log-density as a function of the values of `name :: params` (leaf oracle) -/
  f : (Name → Option V) → K

/-- A density object held by a joint distribution. `env` holds the values already given to
    conditioning variables (attributes evaluated / partially applied callables), `c` is `_constant`. -/
inductive Dens (V K : Type) where
  | dist (F : Factor V K) (env : Name → Option V) (c : K)
  | lik (F : Factor V K) (env : Name → Option V) (data : V) (c : K)
  | eval (name : Option Name) (v : K) (c : K)

variable {V K : Type}

/-- `get_conditioning_variables()` after some of them have been given values -/
def free (F : Factor V K) (env : Name → Option V) : List Name :=
  F.params.filter (fun p => (env p).isNone)

def Dens.name : Dens V K → Option Name
  | .dist F _ _ => some F.name
  | .lik F _ _ _ => some F.name
  | .eval n _ _ => n

/-- `get_parameter_names()` -/
def Dens.paramNames : Dens V K → List Name
  | .dist F env _ => free F env ++ [F.name]
  | .lik F env _ _ => free F env
  | .eval _ _ _ => []

def Dens.isDist : Dens V K → Bool | .dist .. => true | _ => false
def Dens.isLik : Dens V K → Bool | .lik .. => true | _ => false
def Dens.isEval : Dens V K → Bool | .eval .. => true | _ => false

def mainKey : Name := "_main_parameter"

/-- `Distribution._parse_args_add_to_kwargs(cond_vars, *args, **kwargs)` -/
def parseDist (cv : List Name) (args : List V) (kw : Kw V) : Except Err (Kw V) :=
  if args.length > cv.length + 1 then .error .value
  else
    let pos := (cv ++ [mainKey]).zip args
    if pos.any (fun kv => (kwKeys kw).contains kv.1) then .error .value
    else .ok (kw ++ pos)

/-- give the conditioning variables `cv` the values found in `kw` -/
def bindEnv (env : Name → Option V) (cv : List Name) (kw : Kw V) : Name → Option V :=
  fun n => if cv.contains n then kwGet kw n else env n

def envWith (env : Name → Option V) (n : Name) (x : V) : Name → Option V :=
  fun m => if m = n then some x else env m

section
variable [Add K] [Zero K]

/-- `Distribution.to_likelihood(data)` -/
def toLik (F : Factor V K) (env : Name → Option V) (c : K) (data : V) : Dens V K :=
  if (free F env).isEmpty then .eval (some F.name) (F.f (envWith env F.name data) + c) 0
  else .lik F env data c

/-- `Distribution._condition(*args, **kwargs)` -/
def condDist (F : Factor V K) (env : Name → Option V) (c : K) (args : List V) (kw : Kw V) :
    Except Err (Dens V K) :=
  let cv := free F env
  match parseDist cv args kw with
  | .error e => .error e
  | .ok kw' =>
    let env' := bindEnv env cv kw'
    match kwGet kw' mainKey with
    | some d => .ok (toLik F env' c d)
    | none =>
      if (kw'.filter (fun kv => !cv.contains kv.1)).isEmpty then .ok (.dist F env' c)
      else match kwGet kw' F.name with
        | some d => .ok (toLik F env' c d)
        | none => .error .value

/-- `Likelihood._condition(*args, **kwargs)` -/
def condLik (F : Factor V K) (env : Name → Option V) (data : V) (c : K) (args : List V) (kw : Kw V) :
    Except Err (Dens V K) :=
  match condDist F env c args kw with
  | .error e => .error e
  | .ok (.dist F' env' c') => .ok (toLik F' env' c' data)
  | .ok _ => .error .attr   -- `.is_cond` of a Likelihood / EvaluatedDensity

/-- `density(*args, **kwargs)` -/
def condDens : Dens V K → List V → Kw V → Except Err (Dens V K)
  | .dist F env c, args, kw => condDist F env c args kw
  | .lik F env data c, args, kw => condLik F env data c args kw
  | .eval n v c, _, _ => .ok (.eval n v c)

/-- front end of `Density.logd`: keyword arguments are checked against the parameter names
    (as sets) and turned into positional arguments in the order of the parameter names -/
def front (parNames : List Name) (args : List V) (kw : Kw V) : Except Err (List V) :=
  if kw.isEmpty then .ok args
  else if !args.isEmpty then .error .value
  else if !setEq parNames (kwKeys kw) then .error .value
  else .ok (parNames.filterMap (kwGet kw))

/-- `EvaluatedDensity.logd` -/
def logdEval (v c : K) (args : List V) (kw : Kw V) : Except Err K :=
  match front [] args kw with
  | .error e => .error e
  | .ok [] => .ok (v + c)
  | .ok _ => .error .type

/-- `Density.logd` of a distribution without conditioning variables: `logpdf(*args) + _constant` -/
def logdPlain (F : Factor V K) (env : Name → Option V) (c : K) (args : List V) (kw : Kw V) :
    Except Err K :=
  match front [F.name] args kw with
  | .error e => .error e
  | .ok [x] => .ok (F.f (envWith env F.name x) + c)
  | .ok _ => .error .type

/-- `Distribution.logd(*args, **kwargs)` -/
def logdDist (F : Factor V K) (env : Name → Option V) (c : K) (args : List V) (kw : Kw V) :
    Except Err K :=
  let cv := free F env
  if cv.isEmpty then logdPlain F env c args kw
  else
    match parseDist cv args kw with
    | .error e => .error e
    | .ok kw' =>
      if kw'.length < cv.length + 1 then .error .value
      else if !(cv.all (fun p => (kwKeys kw').contains p)) then .error .value
      else
        let env' := bindEnv env cv kw'
        match kwGet kw' mainKey with
        | some x => logdPlain F env' c [x] []
        | none => logdPlain F env' c [] (kw'.filter (fun kv => !cv.contains kv.1))

/-- `density.logd(*args, **kwargs)`; for a likelihood: `Density.logd` with
    `_logd(*a) = self.distribution(*a).logd(self.data)` and `_constant = distribution._constant`
    (so a non-zero constant of the underlying distribution is counted twice, as in the code). -/
def logdDens : Dens V K → List V → Kw V → Except Err K
  | .dist F env c, args, kw => logdDist F env c args kw
  | .eval _ v c, args, kw => logdEval v c args kw
  | .lik F env data c, args, kw =>
    match front (free F env) args kw with
    | .error e => .error e
    | .ok a =>
      match condDist F env c a [] with
      | .error e => .error e
      | .ok (.dist F' env' c') =>
        (match logdDist F' env' c' [data] [] with | .ok r => .ok (r + c) | .error e => .error e)
      | .ok (.eval _ v' c') =>
        (match logdEval v' c' [data] [] with | .ok r => .ok (r + c) | .error e => .error e)
      | .ok (.lik ..) => .error .type  -- unreachable: positional arguments bind all of `cv` first

/-- names of the distributions of a joint = `JointDistribution.get_parameter_names()` -/
def jointNames (ds : List (Dens V K)) : List Name :=
  ds.filterMap (fun d => match d with | .dist F _ _ => some F.name | _ => none)

/-- dimensions of the distributions of a joint = `JointDistribution.dim` -/
def jointDims (ds : List (Dens V K)) : List Nat :=
  ds.filterMap (fun d => match d with | .dist F _ _ => some F.dim | _ => none)

/-- `JointDistribution._parse_args_add_to_kwargs(*args, **kwargs)` -/
def parseJoint : List Name → List V → Kw V → Except Err (Kw V)
  | _, [], kw => .ok kw
  | [], _ :: _, _ => .error .index
  | n :: ns, a :: as, kw =>
    if (kwKeys kw).contains n then .error .value else parseJoint ns as (kw ++ [(n, a)])

/-- the loop of `JointDistribution.logd`: `logd += density.logd(**restricted kwargs)` -/
def sumLogd (kw : Kw V) : K → List (Dens V K) → Except Err K
  | acc, [] => .ok acc
  | acc, d :: ds =>
    match logdDens d [] (restrict kw d.paramNames) with
    | .ok v => sumLogd kw (acc + v) ds
    | .error e => .error e

/-- `JointDistribution.logd(*args, **kwargs)` -/
def logdJoint (ds : List (Dens V K)) (args : List V) (kw : Kw V) : Except Err K :=
  match parseJoint (jointNames ds) args kw with
  | .error e => .error e
  | .ok kw' =>
    if !setEq (jointNames ds) (kwKeys kw') then .error .value
    else sumLogd kw' 0 ds

/-- `np.split(v, np.cumsum(dims)[:-1])` -/
def splitAtDims {α : Type} : List Nat → List α → List (List α)
  | [], v => [v]
  | [_], v => [v]
  | d :: ds, v => v.take d :: splitAtDims ds (v.drop d)

/-- values that can be stacked into one vector and split again -/
class Stackable (V : Type) where
  split : List Nat → V → List V

instance {α : Type} : Stackable (List α) := ⟨splitAtDims⟩

/-- `_StackedJointDistribution.logd(stacked_input)` -/
def logdStacked [Stackable V] (ds : List (Dens V K)) (args : List V) (kw : Kw V) : Except Err K :=
  match args, kw with
  | [v], [] => logdJoint ds [] ((jointNames ds).zip (Stackable.split (jointDims ds) v))
  | _, _ => .error .type

def nodupB : List (Option Name) → Bool
  | [] => true
  | a :: r => !r.contains a && nodupB r

/-- `JointDistribution.__init__`: unique names, every parameter has a prior -/
def jointCheck (ds : List (Dens V K)) : Except Err Unit :=
  if !nodupB (ds.map Dens.name) then .error .value
  else if ds.any (fun d => d.paramNames.any (fun p => !(jointNames ds).contains p)) then .error .value
  else .ok ()

inductive Flavor | plain | stacked | mlp
  deriving DecidableEq, Repr

/-- what a conditioning call can return -/
inductive Obj (V K : Type) where
  | joint (fl : Flavor) (ds : List (Dens V K))
  | post (L P : Dens V K) (c : K) (name : Option Name)
  | single (d : Dens V K)
  | none   -- Python `None`: `_reduce_to_single_density` falls through

/-- `sum([density.logd() for density in self._evaluated_densities])` -/
def sumEvals : K → List (Dens V K) → K
  | acc, [] => acc
  | acc, .eval _ v c :: ds => sumEvals (acc + (v + c)) ds
  | acc, _ :: ds => sumEvals acc ds

/-- `MultipleLikelihoodPosterior(*densities)` -/
def mkMLP (ds : List (Dens V K)) : Except Err (Obj V K) :=
  match jointCheck ds with
  | .error e => .error e
  | .ok () =>
    if ds.length < 3 then .error .value
    else if (ds.filter Dens.isLik).isEmpty then .error .value
    else if (jointNames ds).eraseDups.length > 1 then .error .value
    else .ok (.joint .mlp ds)

/-- `Posterior(likelihood, prior)` followed by `_constant += constants` -/
def mkPost (L P : Dens V K) (consts : K) : Except Err (Obj V K) :=
  if L.paramNames.length > 1 then .error .value
  else match P with
    | .dist F env _ => if !(free F env).isEmpty then .error .value else .ok (.post L P (0 + consts) none)
    | _ => .error .attr

/-- `JointDistribution._reduce_to_single_density` (with `_add_constants_to_density`) -/
def reduce (fl : Flavor) (ds : List (Dens V K)) : Except Err (Obj V K) :=
  let dists := ds.filter Dens.isDist
  let liks := ds.filter Dens.isLik
  if dists.length > 1 then .ok (.joint fl ds)
  else match dists, liks with
    | [_], _ :: _ :: _ => mkMLP ds
    | [P], [L] =>
      if !setEq L.paramNames P.paramNames then .ok (.joint fl ds)
      else mkPost L P (sumEvals 0 ds)
    | [.dist F env c], [] => .ok (.single (.dist F env (c + sumEvals 0 ds)))
    | [], [L] => .ok (.single L)
    | [], [] => .ok (.joint fl ds)
    | _, _ => .ok .none

def mapMCond (kw : Kw V) : List (Dens V K) → Except Err (List (Dens V K))
  | [] => .ok []
  | d :: ds =>
    match condDens d [] (restrict kw d.paramNames) with
    | .error e => .error e
    | .ok d' => match mapMCond kw ds with
      | .error e => .error e
      | .ok ds' => .ok (d' :: ds')

/-- `JointDistribution._condition(*args, **kwargs)` -/
def condJoint (fl : Flavor) (ds : List (Dens V K)) (args : List V) (kw : Kw V) : Except Err (Obj V K) :=
  match parseJoint (jointNames ds) args kw with
  | .error e => .error e
  | .ok kw' =>
    match mapMCond kw' ds with
    | .error e => .error e
    | .ok ds' => reduce fl ds'

/-- `Posterior.logd`: `Distribution.logd` (the prior has no conditioning variables) →
    `Density.logd` → `likelihood.logd(*a) + prior.logd(*a) + _constant` -/
def logdPost (L P : Dens V K) (c : K) (args : List V) (kw : Kw V) : Except Err K :=
  match front P.paramNames args kw with
  | .error e => .error e
  | .ok a =>
    match logdDens L a [], logdDens P a [] with
    | .ok l, .ok p => .ok (l + p + c)
    | .error e, _ => .error e
    | _, .error e => .error e

/-- `Posterior.__call__` = `Distribution._condition` on an object without conditioning variables
    whose name is unknown unless it was set -/
def condPost (L P : Dens V K) (c : K) (name : Option Name) (args : List V) (kw : Kw V) :
    Except Err (Obj V K) :=
  match parseDist [] args kw with
  | .error e => .error e
  | .ok kw' =>
    let toEval (d : V) : Except Err (Obj V K) :=
      match logdPost L P c [d] [] with
      | .ok v => .ok (.single (.eval name v 0))
      | .error e => .error e
    match kwGet kw' mainKey with
    | some d => toEval d
    | none =>
      if kw'.isEmpty then .ok (.post L P c name)
      else match name.bind (kwGet kw') with
        | some d => toEval d
        | none => .error .value

def Obj.cond : Obj V K → List V → Kw V → Except Err (Obj V K)
  | .joint fl ds, args, kw => condJoint fl ds args kw
  | .post L P c n, args, kw => condPost L P c n args kw
  | .single d, args, kw => (match condDens d args kw with | .ok d' => .ok (.single d') | .error e => .error e)
  | .none, _, _ => .error .type

def Obj.logd [Stackable V] : Obj V K → List V → Kw V → Except Err K
  | .joint .stacked ds, args, kw => logdStacked ds args kw
  | .joint _ ds, args, kw => logdJoint ds args kw
  | .post L P c _, args, kw => logdPost L P c args kw
  | .single d, args, kw => logdDens d args kw
  | .none, _, _ => .error .attr

/-- `_as_stacked()` -/
def Obj.asStacked : Obj V K → Except Err (Obj V K)
  | .joint _ ds => (match jointCheck ds with | .ok () => .ok (.joint .stacked ds) | .error e => .error e)
  | _ => .error .attr

/-- `posterior.name = n` -/
def Obj.setName : Obj V K → Name → Except Err (Obj V K)
  | .post L P c _, n => .ok (.post L P c (some n))
  | _, _ => .error .attr

def Obj.paramNames : Obj V K → List Name
  | .joint _ ds => jointNames ds
  | .post _ P _ _ => P.paramNames
  | .single d => d.paramNames
  | .none => []

def Obj.kind : Obj V K → String
  | .joint .plain _ => "JointDistribution"
  | .joint .stacked _ => "_StackedJointDistribution"
  | .joint .mlp _ => "MultipleLikelihoodPosterior"
  | .post .. => "Posterior"
  | .single (.dist ..) => "Distribution"
  | .single (.lik ..) => "Likelihood"
  | .single (.eval ..) => "EvaluatedDensity"
  | .none => "None"

/-- a fresh (unconditioned, `_constant = 0`) distribution -/
def fresh (F : Factor V K) : Dens V K := .dist F (fun _ => none) 0

/-- `JointDistribution(*densities)` -/
def mkJoint (ds : List (Dens V K)) : Except Err (Obj V K) :=
  match jointCheck ds with
  | .ok () => .ok (.joint .plain ds)
  | .error e => .error e

/-! `BayesianProblem` (`cuqi/problem/_problem.py`): the problem holds a *target*, initially
    `JointDistribution(*densities)(**data)`; the accessors hand out parts of a `Posterior` target. -/

/-- `BayesianProblem(*densities, **data)._target` -/
def mkProblem (ds : List (Dens V K)) (data : Kw V) : Except Err (Obj V K) :=
  match mkJoint ds with
  | .ok o => o.cond [] data
  | .error e => .error e

/-- `BayesianProblem.set_data(**kw)`: only while the target is a `JointDistribution` (sub)class -/
def Obj.setData : Obj V K → Kw V → Except Err (Obj V K)
  | .joint fl ds, kw => condJoint fl ds [] kw
  | _, _ => .error .value

/-- `BayesianProblem.posterior` (the target itself when it is a `Posterior`) -/
def Obj.posterior : Obj V K → Except Err (Obj V K)
  | .post L P c n => .ok (.post L P c n)
  | _ => .error .value

/-- `BayesianProblem.likelihood` -/
def Obj.likelihood : Obj V K → Except Err (Obj V K)
  | .post L _ _ _ => .ok (.single L)
  | _ => .error .value

/-- `BayesianProblem.prior` -/
def Obj.prior : Obj V K → Except Err (Obj V K)
  | .post _ P _ _ => .ok (.single P)
  | _ => .error .value

end

/-! accessors of a joint distribution (`get_density`, `_get_fixed_variables`, `dim`) -/

/-- `JointDistribution._get_fixed_variables()`: names of the likelihoods and evaluated densities, in density order -/
def jointFixed {V K : Type} (ds : List (Dens V K)) : List (Option Name) :=
  ds.filterMap (fun d => match d with | .dist .. => none | .lik F _ _ _ => some (some F.name) | .eval n _ _ => some n)

/-- `JointDistribution.get_density(name)`: the first density carrying the name, ValueError if none -/
def getDensity {V K : Type} (ds : List (Dens V K)) (n : Name) : Except Err (Dens V K) :=
  match ds.find? (fun d => d.name == some n) with
  | some d => .ok d
  | none => .error .value

/-- `.dim`: list of the distributions' dimensions (joint), their sum (stacked view), the prior's
    (`MultipleLikelihoodPosterior.dim = self.prior.dim = self._distributions[0].dim`: IndexError once everything is fixed) -/
def flavorDim {V K : Type} (fl : Flavor) (ds : List (Dens V K)) : Except Err (List Nat) :=
  match fl with
  | .plain => .ok (jointDims ds)
  | .stacked => .ok [(jointDims ds).foldl (· + ·) 0]
  | .mlp => match jointDims ds with
    | [] => .error .index
    | d :: _ => .ok [d]

end CuqiVerif.C01
