/-
  C06 model, part 5 — what a `GMRF` prior (1-D geometry) stands for: `cuqi/distribution/_gmrf.py`
  `GMRF.__init__` (`_prec_op = PrecisionFiniteDifference(dim, bc_type, order)`, i.e. `DᵀD` with `D` the
  finite-difference operator), `logpdf` (`−½·prec·(x−μ)ᵀ(DᵀD)(x−μ)` + const) and `sqrtprec = sqrt(prec)·chol.T`.
  The difference operators are NOT leaf data any more: they are C20's exact transcription of
  `cuqi/operator/_operator.py` (`CuqiVerif.C20.diffOp`, proved about in `Props/C20*.lean`), cast into the carrier.
-/
import CuqiVerif.Model.C06
import CuqiVerif.Model.C20
namespace CuqiVerif.C06

section
variable {R : Type} [Zero R] [One R] [Add R] [Sub R] [Mul R] [IntCast R]

/-- `GMRF._diff_op` as a matrix over `R` -/
def gmrfD (order : Nat) (bc : C20.BC) (n : Nat) : Mat R := fun i j => ((C20.diffOp order bc n).e i j : R)

/-- number of rows of `_diff_op` -/
def gmrfRows (order : Nat) (bc : C20.BC) (n : Nat) : Nat := (C20.diffOp order bc n).rows

/-- the precision matrix the GMRF stands for: `prec · DᵀD` -/
def gmrfPrec (order : Nat) (bc : C20.BC) (n : Nat) (prec : R) : Mat R :=
  fun i j => prec * gram (gmrfRows order bc n) (gmrfD order bc n) i j

/-- `−2·(logpdf(x) − logpdf(mean))` of the GMRF: `prec · ‖D (x − μ)‖²` -/
def gmrfNeg2log (order : Nat) (bc : C20.BC) (n : Nat) (prec : R) (mu x : Vec R) : R :=
  prec * sumTo (gmrfRows order bc n) fun i =>
    mulVec n (gmrfD order bc n) (fun j => x j - mu j) i * mulVec n (gmrfD order bc n) (fun j => x j - mu j) i

/-- `GMRF.__init__` / `PrecisionFiniteDifference`: the boundary conditions a GMRF accepts
    (`ValueError('bc_type must be "zero", "periodic" or "neumann"')`) and the orders (1, 2; order 0 is the identity) -/
def gmrfAccepts (order : Nat) (bc : C20.BC) : Bool :=
  (bc == .zero || bc == .periodic || bc == .neumann) && order ≤ 2

end
end CuqiVerif.C06
