import CuqiVerif.Model.QMat
import CuqiVerif.Model.C04
/-
  C04 model, session-3 second pass — the eigen-decomposition branches of `get_sqrtprec_from_*`
  (`sparse_flag = True`, dense full matrix, i.e. dim > MIN_DIM_SPARSE) INCLUDING the rank-deficient part, and
  `eigvalsh_to_eps` (`cuqi/distribution/_gaussian.py`).  Import-free, executable.

  The eigenpairs are certificate-checked leaf data: the caller supplies the spectrum `lam` and the eigenvectors
  (rows of `Q`); `eigCertificate` checks `Q Qᵀ = I` and `M = Qᵀ diag(lam) Q` exactly (so `M qᵢ = lamᵢ qᵢ`).
-/
namespace CuqiVerif.C04

/-- `cond = factor['d'] * np.finfo('d').eps = 1e6 * 2^-52` -/
def eigCond : Rat := 1000000 / 4503599627370496
def absQ (q : Rat) : Rat := if q < 0 then -q else q
/-- `np.max(abs(spectrum))` -/
def maxAbs (s : List Rat) : Rat := s.foldl (fun m x => max m (absQ x)) 0
/-- `eigvalsh_to_eps(spectrum)`: `eps = cond * np.max(abs(spectrum))` — purely relative -/
def eigEps (s : List Rat) : Rat := eigCond * maxAbs s
/-- `if np.min(s) < -eps: raise ValueError("The input matrix must be symmetric positive semidefinite.")` -/
def eigRefuses (s : List Rat) : Bool := s.any (· < -(eigEps s))
/-- `d = s[s > eps]` -/
def eigKept (s : List Rat) : List Rat := s.filter (· > eigEps s)
/-- `rank = len(d)` -/
def eigRank (s : List Rat) : Nat := (eigKept s).length
/-- `exp(np.sum(np.log(d)))` -/
def eigPdet (s : List Rat) : Rat := prodList (eigKept s)

/-- `Σ_i w_i (q_i · z)²` -/
def spectralQuad (w : List Rat) (Q : QMat.Mat) (z : List Rat) : Rat :=
  (List.zipWith (fun wi qi => wi * (QMat.dot qi z * QMat.dot qi z)) w Q).foldl (· + ·) 0

/-- cov / sqrtcov branch: `s_pinv = [0 if abs(x) <= eps else 1/x for x in s]`, `sqrtprec = (u * sqrt(s_pinv)).T`,
    so `‖sqrtprec z‖² = Σ_i s_pinv_i (q_i·z)²` -/
def eigPinvWeights (s : List Rat) : List Rat := s.map fun x => if absQ x ≤ eigEps s then 0 else 1 / x

def isIdent (A : QMat.Mat) (n : Nat) : Bool := A == QMat.ident n

/-- `Q Qᵀ = I` and `M = Qᵀ diag(lam) Q` (rows of `Q` are the eigenvectors) -/
def eigCertificate (n : Nat) (lam : List Rat) (Q M : QMat.Mat) : Bool :=
  lam.length = n && Q.length = n && Q.all (·.length = n) && M.length = n && M.all (·.length = n) &&
  isIdent (QMat.mul Q (QMat.transpose Q)) n &&
  QMat.mul (QMat.transpose Q) (QMat.mul (QMat.diag lam) Q) == M

inductive EigRes
  | ok (rank : Nat) (detCov : Rat) (quad : Rat)
  | raises          -- negative eigenvalue below `-eps`
  | nan             -- prec branch: `np.sqrt` of a negative eigenvalue inside the tolerance
  | badCertificate

/-- the four eigen branches at deviation `z`.  `S` = the symmetric matrix that is decomposed: `cov`, `prec`,
    `sqrtcov@sqrtcov.T`, `sqrtprec@sqrtprec.T`; `(lam, Q)` its certified eigenpairs; `R` the user's matrix (the
    square root itself for the two square-root forms).
    cov, sqrtcov: rank / log-determinant over the kept eigenvalues, precision = pseudo-inverse;
    prec: rank / log-determinant over the kept eigenvalues, but `sqrtprec = (u*sqrt(s)).T` uses ALL eigenvalues:
          the quadratic form is `zᵀ prec z`;
    sqrtprec: the matrix itself is kept, quadratic form `‖R z‖²`. -/
def eigBranch (form : Form) (n : Nat) (lam : List Rat) (Q S R : QMat.Mat) (z : List Rat) : EigRes :=
  if !eigCertificate n lam Q S then .badCertificate else
  if eigRefuses lam then .raises else
  match form with
  | .cov | .sqrtcov => .ok (eigRank lam) (eigPdet lam) (spectralQuad (eigPinvWeights lam) Q z)
  | .prec =>
      if lam.any (· < 0) then .nan else
      .ok (eigRank lam) (1 / eigPdet lam) (spectralQuad lam Q z)
  | .sqrtprec =>
      let v := QMat.mulVec R z
      .ok (eigRank lam) (1 / eigPdet lam) (QMat.dot v v)

end CuqiVerif.C04
