/-
  C20 model — finite-difference operators (`cuqi/operator/_operator.py`) and what GMRF declares
  about its precision (`cuqi/distribution/_gmrf.py`).  Import-free and executable.

  The construction is transcribed from the code: `spdiags` with constant diagonals, followed by
  the boundary patches (`Dmat[-1,0] = 1` …) applied *in the code's order*; the 2-D operator is
  `vstack([kron(I, D), kron(D, I)])`; the precision is `Dᵀ D`.
-/
namespace CuqiVerif.C20

inductive BC | zero | periodic | neumann | backward | none
  deriving DecidableEq, Repr

def BC.ofString : String → Option BC
  | "zero" => some .zero | "periodic" => some .periodic | "neumann" => some .neumann
  | "backward" => some .backward | "none" => some .none | _ => Option.none

/-- A matrix as a shape and an entry function (entries outside the shape are never read). -/
structure FMat where
  rows : Nat
  cols : Nat
  e : Nat → Nat → Int

/-- `scipy.sparse.spdiags(data, locs, m, n)` for constant diagonals: value `v` on offset `l`
    occupies the positions `(i, j)` with `j - i = l`. -/
def spdiags (diagsAndLocs : List (Int × Int)) (m n : Nat) : FMat where
  rows := m
  cols := n
  e := fun i j => diagsAndLocs.foldl (fun acc vl => if (j : Int) - (i : Int) = vl.2 then acc + vl.1 else acc) 0

/-- `M[i, j] = v` -/
def FMat.set (M : FMat) (i j : Nat) (v : Int) : FMat :=
  { M with e := fun a b => if a = i ∧ b = j then v else M.e a b }

def eye (n : Nat) : FMat where
  rows := n
  cols := n
  e := fun i j => if i = j then 1 else 0

/-- `FirstOrderFiniteDifference._create_diff_matrix`, 1-D stencil before division by `dx`. -/
def firstOrder (bc : BC) (n : Nat) : FMat :=
  match bc with
  | .zero => spdiags [(-1, -1), (1, 0)] (n + 1) n
  | .periodic => ((spdiags [(-1, -1), (1, 0)] (n + 1) n).set n 0 1).set 0 (n - 1) (-1)
  | .neumann => spdiags [(-1, 0), (1, 1)] (n - 1) n
  | .backward => (spdiags [(-1, 0), (1, -1)] n n).set 0 0 1
  | .none => eye n

/-- Boundary conditions accepted by `SecondOrderFiniteDifference` (others raise `ValueError`). -/
def secondOrderAccepts : BC → Bool
  | .zero | .periodic | .neumann => true
  | _ => false

/-- `SecondOrderFiniteDifference._create_diff_matrix`, 1-D stencil before division by `dx²`.
    (Periodic needs `n ≥ 2`: the patch `Dmat[0,-2]` indexes column `n-2`.) -/
def secondOrder (bc : BC) (n : Nat) : FMat :=
  match bc with
  | .zero => spdiags [(-1, -2), (2, -1), (-1, 0)] (n + 2) n
  | .periodic =>
      ((((((spdiags [(-1, -2), (2, -1), (-1, 0)] (n + 2) n).set 0 (n - 2) (-1)).set 0 (n - 1) 2).set 1 (n - 1) (-1)).set n 0 (-1)).set (n + 1) 0 2).set (n + 1) 1 (-1)
  | .neumann => spdiags [(-1, 0), (2, 1), (-1, 2)] (n - 2) n
  | _ => eye 0

/-- The 1-D difference operator chosen by `PrecisionFiniteDifference(order=…)`:
    order 0 ignores `bc` and uses the identity (`FirstOrderFiniteDifference(n, "none")`). -/
def diffOp (order : Nat) (bc : BC) (n : Nat) : FMat :=
  match order with
  | 0 => firstOrder .none n
  | 1 => firstOrder bc n
  | _ => secondOrder bc n

/-- `kron(A, B)` (numpy/scipy convention). -/
def kron (A B : FMat) : FMat where
  rows := A.rows * B.rows
  cols := A.cols * B.cols
  e := fun i j => A.e (i / B.rows) (j / B.cols) * B.e (i % B.rows) (j % B.cols)

def vstack (A B : FMat) : FMat where
  rows := A.rows + B.rows
  cols := A.cols
  e := fun i j => if i < A.rows then A.e i j else B.e (i - A.rows) j

/-- 2-D operator: `vstack([kron(I, D), kron(D, I)])` with `I = eye(n)`. -/
def lift2D (D : FMat) (n : Nat) : FMat := vstack (kron (eye n) D) (kron D (eye n))

def diffOp2D (order : Nat) (bc : BC) (n : Nat) : FMat := lift2D (diffOp order bc n) n

/-- `Dᵀ D` -/
def gram (D : FMat) : FMat where
  rows := D.cols
  cols := D.cols
  e := fun i j => (List.range D.rows).foldl (fun acc k => acc + D.e k i * D.e k j) 0

def FMat.toList (M : FMat) : List (List Int) :=
  (List.range M.rows).map (fun i => (List.range M.cols).map (fun j => M.e i j))

/-- Rank GMRF *declares* for its precision (`self._rank`): `dim` for zero, `dim - 1` otherwise. -/
def declaredRank (bc : BC) (dim : Nat) : Nat :=
  match bc with
  | .zero => dim
  | _ => dim - 1

/-- Dimension of the null space of the 1-D operator `diffOp order bc n` (proved in `Props/C20`). -/
def nullity1D (order : Nat) (bc : BC) : Nat :=
  match order, bc with
  | 0, _ => 0
  | 1, .periodic => 1
  | 1, .neumann => 1
  | 1, _ => 0
  | _, .periodic => 1
  | _, .neumann => 2
  | _, _ => 0

end CuqiVerif.C20
