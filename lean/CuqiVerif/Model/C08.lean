/-
  C08 model — the No-U-Turn sampler of `cuqi/experimental/mcmc/_hmc.py` and `cuqi/sampler/_hmc.py`
  (`_Leapfrog`, `_BuildTree`, the doubling loop of `step` / `_sample`).  Import-free, executable.

  The tree recursion is written once, generically in the phase-space type `Z`, parametrised by
  a context `Ctx Z` (one leapfrog step in direction `v`, the Hamiltonian of a state, the
  no-U-turn test of an interval).  The theorems in `Props/C08.lean` are about this generic
  recursion; the driver instantiates it with exact rational phase-space points and a quadratic
  target (optionally with a NaN wall).  Random draws are an explicit input list, consumed in the
  order in which the code calls `np.random.rand()`.
-/
namespace CuqiVerif.C08

/-! ## vectors over an arbitrary scalar type (lists) -/
section Vec
variable {K : Type} [Add K] [Mul K]

def vadd (a b : List K) : List K := List.zipWith (· + ·) a b
def vsmul (c : K) (a : List K) : List K := a.map (c * ·)

/-- One leapfrog step of size `e` (the code passes `v*epsilon`), threading the cached gradient
    exactly like `_Leapfrog`: half momentum step with the *old* gradient, full position step,
    gradient at the new point, half momentum step.  `half` is the constant `1/2`. -/
def leapfrog (half : K) (g : List K → List K) (e : K) (x r grad : List K) :
    List K × List K × List K :=
  let r1 := vadd r (vsmul (half * e) grad)
  let x1 := vadd x (vsmul e r1)
  let g1 := g x1
  let r2 := vadd r1 (vsmul (half * e) g1)
  (x1, r2, g1)
end Vec

/-! ## the generic tree recursion -/

/-- IEEE value of a log-density / Hamiltonian: finite, NaN, +inf or -inf. -/
inductive XR where
  | fin (q : Rat) | nan | pinf | ninf
  deriving Repr, BEq, DecidableEq

/-- `a <= x` for a finite `a` (IEEE: false for NaN, true for +inf, false for -inf) -/
def XR.geRat (x : XR) (a : Rat) : Bool :=
  match x with
  | .fin q => decide (a ≤ q)
  | .pinf => true
  | _ => false

/-- `a < d + x` for finite `a`, `d` -/
def XR.gtRatShift (x : XR) (d a : Rat) : Bool :=
  match x with
  | .fin q => decide (a < d + q)
  | .pinf => true
  | _ => false

def XR.isFinite : XR → Bool
  | .fin _ => true
  | _ => false

/-- `x - k` for finite `k` -/
def XR.subRat (x : XR) (k : Rat) : XR :=
  match x with
  | .fin q => .fin (q - k)
  | y => y

/-- What `_BuildTree` needs to know about phase space; `ham z` is the IEEE value of the Hamiltonian. -/
structure Ctx (Z : Type) where
  step : Int → Z → Z
  ham : Z → XR
  noUturn : Z → Z → Bool        -- arguments: (minus end, plus end)
  logu : Rat
  ham0 : Rat
  deltaMax : Rat := 1000

/-- `n_prime = int(log_u <= Ham_prime)` -/
def inSlice {Z} (c : Ctx Z) (z : Z) : Bool := (c.ham z).geRat c.logu

/-- `s_prime = int(log_u < Delta_max + Ham_prime)` -/
def notDiverged {Z} (c : Ctx Z) (z : Z) : Bool := (c.ham z).gtRatShift c.deltaMax c.logu

structure Tree (Z : Type) where
  zminus : Z
  zplus : Z
  cand : Z
  n : Nat
  s : Bool
  leaves : List Z      -- leaves visited, in visiting order
  nodes : Nat          -- increments of `_num_tree_node`
  wts : List Rat       -- law of `cand` over the visited leaves under uniform draws (aligned with `leaves`)

/-- `rand() < n2 / max(1, n1 + n2)`, decided exactly. -/
def takeSecond (u : Rat) (n1 n2 : Nat) : Bool :=
  decide (u * ((max 1 (n1 + n2) : Nat) : Rat) < (n2 : Rat))

/-- `alpha2 = n2 / max(1, n1 + n2)` -/
def secondProb (n1 n2 : Nat) : Rat := (n2 : Rat) / ((max 1 (n1 + n2) : Nat) : Rat)

/-- next uniform draw; an exhausted script yields `1/2` (the harness always supplies enough draws and
    compares the number consumed with the implementation's). -/
def popU : List Rat → Rat × List Rat
  | [] => (1/2, [])
  | u :: rest => (u, rest)

/-- `_BuildTree(…, v, j, …)`; consumes uniforms from `us`, returns the tree and the remaining draws. -/
def buildTree {Z} (c : Ctx Z) (v : Int) : Nat → Z → List Rat → Tree Z × List Rat
  | 0, z, us =>
    let z' := c.step v z
    ({ zminus := z', zplus := z', cand := z', n := if inSlice c z' then 1 else 0,
       s := notDiverged c z', leaves := [z'], nodes := 1, wts := [1] }, us)
  | j + 1, z, us =>
    let (t1, us1) := buildTree c v j z us
    if t1.s then
      let start := if v = -1 then t1.zminus else t1.zplus
      let (t2, us2) := buildTree c v j start us1
      let (u, us3) := popU us2
      let zminus := if v = -1 then t2.zminus else t1.zminus
      let zplus := if v = -1 then t1.zplus else t2.zplus
      ({ zminus := zminus, zplus := zplus,
         cand := if takeSecond u t1.n t2.n then t2.cand else t1.cand,
         n := t1.n + t2.n,
         s := t2.s && c.noUturn zminus zplus,
         leaves := t1.leaves ++ t2.leaves,
         nodes := 1 + t1.nodes + t2.nodes,
         wts := t1.wts.map ((1 - secondProb t1.n t2.n) * ·) ++ t2.wts.map (secondProb t1.n t2.n * ·) }, us3)
    else
      ({ t1 with nodes := 1 + t1.nodes }, us1)

/-- State of the doubling loop in `step`. -/
structure Loop (Z : Type) where
  cur : Z               -- current_point (with its caches)
  zminus : Z
  zplus : Z
  j : Nat
  s : Bool
  n : Nat
  acc : Bool
  last : List Z         -- leaves of the last doubling (for the acceptance statistic)
  nodes : Nat
  us : List Rat

/-- `guard z` = the experimental interface's `not isnan(logd') and not isinf(logd')`;
    the legacy interface has no such guard (`fun _ => true`). -/
def loopBody {Z} (c : Ctx Z) (guard : Z → Bool) (st : Loop Z) : Loop Z :=
  let (ud, us0) := popU st.us
  let v : Int := if ud < 1/2 then 1 else -1
  let (t, us1) := buildTree c v st.j (if v = -1 then st.zminus else st.zplus) us0
  let zminus := if v = -1 then t.zminus else st.zminus
  let zplus := if v = -1 then st.zplus else t.zplus
  -- `(s_prime == 1) and (rand() < min(1, n'/n)) and guards` : rand() only drawn if s_prime == 1
  let (accept, us2) :=
    if t.s then
      let (u, rest) := popU us1
      (decide (u * (st.n : Rat) < (t.n : Rat)) && decide (u < 1) && guard t.cand, rest)
    else (false, us1)
  { cur := if accept then t.cand else st.cur,
    zminus := zminus, zplus := zplus,
    j := st.j + 1,
    s := t.s && c.noUturn zminus zplus,
    n := st.n + t.n,
    acc := st.acc || accept,
    last := t.leaves,
    nodes := st.nodes + t.nodes,
    us := us2 }

/-- `while (s == 1) and (j <= max_depth)` with `fuel = max_depth + 1` iterations at most. -/
def loop {Z} (c : Ctx Z) (guard : Z → Bool) (maxDepth : Nat) : Nat → Loop Z → Loop Z
  | 0, st => st
  | fuel + 1, st =>
    if st.s && decide (st.j ≤ maxDepth) then loop c guard maxDepth fuel (loopBody c guard st) else st

def nutsStep {Z} (c : Ctx Z) (guard : Z → Bool) (maxDepth : Nat) (z0 : Z) (us : List Rat) : Loop Z :=
  loop c guard maxDepth (maxDepth + 1)
    { cur := z0, zminus := z0, zplus := z0, j := 0, s := true, n := 1, acc := false,
      last := [], nodes := 0, us := us }

/-! ## the executable instance: exact rational phase space, quadratic target with optional wall -/

structure PS where
  x : List Rat
  r : List Rat
  logd : XR
  grad : List Rat
  deriving Repr, BEq

def dotQ (a b : List Rat) : Rat := (List.zipWith (· * ·) a b).foldl (· + ·) 0

/-- target `logd x = -½ xᵀ P x + bᵀ x` (finite) unless `x₀ > wall` where it is `wallVal`
    (NaN, +inf or -inf); gradient `-P x + b` everywhere. -/
structure Target where
  P : List (List Rat)
  b : List Rat
  wall : Option Rat
  wallVal : XR := .nan

def Target.grad (t : Target) (x : List Rat) : List Rat :=
  List.zipWith (fun row bi => bi - dotQ row x) t.P t.b

def Target.logd (t : Target) (x : List Rat) : XR :=
  let val := dotQ t.b x - (1/2) * dotQ x (t.P.map (fun row => dotQ row x))
  match t.wall with
  | some w => if x.headD 0 > w then t.wallVal else .fin val
  | none => .fin val

def psStep (t : Target) (eps : Rat) (v : Int) (z : PS) : PS :=
  let (x1, r2, g1) := leapfrog (1/2 : Rat) t.grad ((v : Rat) * eps) z.x z.r z.grad
  { x := x1, r := r2, logd := t.logd x1, grad := g1 }

def psHam (z : PS) : XR := z.logd.subRat ((1/2) * dotQ z.r z.r)

def psNoUturn (zm zp : PS) : Bool :=
  let d := List.zipWith (· - ·) zp.x zm.x
  decide (dotQ d zm.r ≥ 0) && decide (dotQ d zp.r ≥ 0)

def psCtx (t : Target) (eps logu ham0 : Rat) : Ctx PS :=
  { step := psStep t eps, ham := psHam, noUturn := psNoUturn, logu := logu, ham0 := ham0 }

/-- smallest distance of a decision quantity from its threshold along the visited leaves (used by
    the harness to discard cases where float rounding could flip a comparison). -/
def margin (c : Ctx PS) (leaves : List PS) : Rat :=
  leaves.foldl (fun m z => match c.ham z with
    | .fin h => min m (min (if h - c.logu < 0 then c.logu - h else h - c.logu)
                           (if c.deltaMax + h - c.logu < 0 then c.logu - c.deltaMax - h else c.deltaMax + h - c.logu))
    | _ => m) 1000000

end CuqiVerif.C08
