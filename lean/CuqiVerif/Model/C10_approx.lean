/-
  C10 model, part 5 — the rate of `ConjugateApprox` as a rational enclosure (session-3 extension).
  Import-free apart from `Model/C10.lean`; executable.

  Transcribed code: `cuqi/experimental/mcmc/_conjugate_approx.py` `_LMRFGammaPair.sample` and
  `cuqi/sampler/_conjugate_approx.py` `ConjugateApprox.step` (identical):
      beta = 1e-5
      dd = 1/np.sqrt((D @ x_k)**2 + beta*np.ones(n));  W = sp.sparse.diags(dd);  Lk = W.sqrt() @ D
      Lx = Lk_fun(x) @ x
      dist = Gamma(shape=d+alpha, rate=np.linalg.norm(Lx)**2 + beta)       # this `beta` is the prior's rate
  i.e.  rate = Σ_k (Dx)_k² / sqrt((Dx)_k² + 1e-5) + β.   The square roots are irrational: the model brackets each
  of them between consecutive multiples of `2^-p` (integer square root of the scaled radicand), so that the rate is
  enclosed in an interval of relative width ≤ `2^-p · 320` (theorem `approxRate_enclosure`, for the real value).
-/
import CuqiVerif.Model.C10
namespace CuqiVerif.C10
open CuqiVerif.C20 (BC)

/-- the Python float `1e-5`, exactly (`Fraction(1e-5)`) -/
def approxEps : Rat := 5902958103587057 / 590295810358705651712

/-- `⌊√(x · 4^p)⌋` for a rational `x ≥ 0` -/
def sqrtFloorScaled (x : Rat) (p : Nat) : Nat := Nat.sqrt (x.num.toNat * 4 ^ p / x.den)

/-- `sqrtLo x p ≤ √x < sqrtHi x p`, both multiples of `2^-p`, `sqrtHi - sqrtLo = 2^-p` -/
def sqrtLo (x : Rat) (p : Nat) : Rat := (sqrtFloorScaled x p : Rat) / 2 ^ p
def sqrtHi (x : Rat) (p : Nat) : Rat := ((sqrtFloorScaled x p + 1 : Nat) : Rat) / 2 ^ p

/-- bounds of one term `d² / sqrt(d² + 1e-5)` -/
def approxTermLo (d : Rat) (p : Nat) : Rat := d * d / sqrtHi (d * d + approxEps) p
def approxTermHi (d : Rat) (p : Nat) : Rat := d * d / sqrtLo (d * d + approxEps) p

def approxRateLo (dx : List Rat) (β : Rat) (p : Nat) : Rat := (dx.map (fun d => approxTermLo d p)).sum + β
def approxRateHi (dx : List Rat) (β : Rat) (p : Nat) : Rat := (dx.map (fun d => approxTermHi d p)).sum + β

/-- precision used by the driver -/
def approxBits : Nat := 80

end CuqiVerif.C10
