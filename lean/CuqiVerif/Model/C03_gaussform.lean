import CuqiVerif.Model.QMat
import CuqiVerif.Model.C03
/-
  C03 model, part "Gaussian forms" — which precision each parameterisation of `cuqi.distribution.Gaussian` stores
  (`cuqi/distribution/_gaussian.py`: the setters `cov / prec / sqrtcov / sqrtprec` and the helpers
  `get_sqrtprec_from_cov / _prec / _sqrtcov / _sqrtprec`, dense branch `dim <= config.MIN_DIM_SPARSE`), i.e.
    * the precision the **log-density** uses: `_logupdf` computes `sum((sqrtprec @ dev)**2)`, so it is `sqrtprecᵀ sqrtprec`;
    * what the attribute **`self.prec`** is, which `_gradient` multiplies with: an `n × n` matrix (forms `cov`, `sqrtcov`
      and matrix-valued `prec`), the raw `(1,1)` array (scalar `prec`), the raw 1-D array (vector `prec`), or not
      available (`sqrtprec`: the getter raises NotImplementedError).
  Each helper distinguishes scalar (`shape[0] == 1`) / vector (`shape[0] == size`) / diagonal matrix
  (`count_nonzero(M - diag(M.diagonal())) == 0`) / full matrix.  Inverses are computed exactly (`QMat.inverse`) and their
  certificate `QMat.isInverse` is checked.  (Moved here from `Driver/C03.lean` in session 3, second pass; the driver op
  `gauss` runs exactly these definitions.)
-/
namespace CuqiVerif.C03
open CuqiVerif

/-- a list as a model vector / a list of rows as a model matrix (0 beyond the data) -/
def fn (l : List Rat) : Nat → Rat := fun i => l.getD i 0
def fn2 (m : List (List Rat)) : Nat → Nat → Rat := fun i j => (m.getD i []).getD j 0

def isDiagonal (M : QMat.Mat) : Bool :=
  (List.range M.length).all fun i => (List.range M.length).all fun j => i = j || QMat.entry M i j = 0

/-- positive definite by Sylvester's criterion (leading principal minors) -/
def isPD (M : QMat.Mat) : Bool :=
  (List.range M.length).all fun k =>
    QMat.det ((M.take (k + 1)).map (·.take (k + 1))) > 0

inductive Shape | scalar (v : Rat) | vector (v : List Rat) | matrix (M : QMat.Mat) | bad

/-- `force_ndarray` + the `shape[0] == 1` / `shape[0] == size` / 2-D tests of the helpers -/
def shapeOf (n : Nat) (M : QMat.Mat) : Shape :=
  match M with
  | [[v]] => .scalar v
  | [r] => if r.length = n then .vector r else .bad
  | _ => if M.length = n && M.all (·.length = n) then .matrix M else .bad

/-- what `self.prec` is -/
inductive PrecAttr | mat (P : QMat.Mat) | scalar11 (p : Rat) | vec (p : List Rat) | unavailable
  deriving DecidableEq

inductive GForm | cov | prec | sqrtcov | sqrtprec
  deriving DecidableEq, Repr

def GForm.ofString : String → Option GForm
  | "cov" => some .cov | "prec" => some .prec | "sqrtcov" => some .sqrtcov | "sqrtprec" => some .sqrtprec | _ => none

/-- diagonal matrix `diag (f v_i)` -/
def dgMap (f : Rat → Rat) (v : List Rat) : QMat.Mat := QMat.diag (v.map f)

/-- the diagonal of a square matrix given as a list of rows -/
def diagOf (n : Nat) (C : QMat.Mat) : List Rat := (List.range n).map fun i => QMat.entry C i i

/-- exact inverse with certificate -/
def invCert (C : QMat.Mat) : Option QMat.Mat :=
  match QMat.inverse C with
  | some P => if QMat.isInverse C P then some P else none
  | none => none

/-- (precision used by `logpdf` = `sqrtprecᵀ sqrtprec`, what `self.prec` is) for each form and shape;
    `none` = the constructor raises (or produces NaN/inf factors the driver reports as `raise`) -/
def gaussFormF (form : GForm) (n : Nat) (M : QMat.Mat) : Option (QMat.Mat × PrecAttr) :=
  match form, shapeOf n M with
  | _, .bad => none
  | .cov, .scalar v => if v ≤ 0 then none else let P := dgMap (fun _ => 1 / v) (List.replicate n 0); some (P, .mat P)
  | .cov, .vector v => if v.any (· ≤ 0) then none else let P := dgMap (1 / ·) v; some (P, .mat P)
  | .cov, .matrix C =>
      if isDiagonal C then
        let v := diagOf n C
        if v.any (· ≤ 0) then none else let P := dgMap (1 / ·) v; some (P, .mat P)
      else if !QMat.isSymmetric C || !isPD C then none
      else match invCert C with
        | some P => some (P, .mat P)
        | none => none
  | .prec, .scalar p => if p ≤ 0 then none else some (dgMap (fun _ => p) (List.replicate n 0), .scalar11 p)
  | .prec, .vector p => if p.any (· ≤ 0) then none else some (dgMap id p, .vec p)
  | .prec, .matrix P =>
      if isDiagonal P then
        let v := diagOf n P
        if v.any (· ≤ 0) then none else some (dgMap id v, .mat P)
      else if !QMat.isSymmetric P || !isPD P then none else some (P, .mat P)
  | .sqrtcov, .scalar s => if s = 0 then none else let P := dgMap (fun _ => 1 / (s * s)) (List.replicate n 0); some (P, .mat P)
  | .sqrtcov, .vector s => if s.any (· = 0) then none else let P := dgMap (fun t => 1 / (t * t)) s; some (P, .mat P)
  | .sqrtcov, .matrix R =>
      if isDiagonal R then
        let v := diagOf n R
        if v.any (· = 0) then none else let P := dgMap (fun t => 1 / (t * t)) v; some (P, .mat P)
      else
        match invCert (QMat.mul R (QMat.transpose R)) with       -- the code forms `sqrtcov @ sqrtcov.T`
        | some P => some (P, .mat P)
        | none => none
  | .sqrtprec, .scalar r => if r = 0 then none else some (dgMap (fun _ => r * r) (List.replicate n 0), .unavailable)
  | .sqrtprec, .vector r => if r.any (· = 0) then none else some (dgMap (fun t => t * t) r, .unavailable)
  | .sqrtprec, .matrix R => some (QMat.mul (QMat.transpose R) R, .unavailable)   -- `_logupdf` uses `sqrtprec @ dev`

def gaussForm (form : String) (n : Nat) (M : QMat.Mat) : Option (QMat.Mat × PrecAttr) :=
  (GForm.ofString form).bind fun f => gaussFormF f n M

/-- what `Gaussian._gradient` (prior branch) returns for a given `self.prec` -/
inductive GaussOut
  | value (g : List Rat)        -- `-(prec @ (val - mean))`, a vector of length `n`
  | notVector (s : Rat)         -- 1-D `prec`: the dot product (a scalar)
  | raises                      -- `self.prec` unavailable, or `(1,1) @ (n,)` shape error
  deriving Repr, DecidableEq

def gaussGradOut (n : Nat) (attr : PrecAttr) (x : List Rat) (μ : Nat → Rat) : GaussOut :=
  match attr with
  | .unavailable => .raises
  | .scalar11 p => if n = 1 then .value [-(p * (x.getD 0 0 - μ 0))] else .raises
  | .vec p => .notVector (gaussGradPrecVectorCode n (fn p) (fn x) μ)
  | .mat P => .value ((List.range n).map fun i => gaussGrad n (fn2 P) (fn x) μ i)

end CuqiVerif.C03
