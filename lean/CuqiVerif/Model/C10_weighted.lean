/-
  C10 model, part 2 — the unit square-root precision of a Gaussian likelihood whose `cov` / `prec`
  callable returns a *vector* or a *matrix* (session-3 extension).  Core `Rat`, executable.

  Transcribed code (called by the anchored `L = likelihood.distribution(np.array([1])).sqrtprec`):
    cuqi/distribution/_gaussian.py   Gaussian.prec / Gaussian.cov setters  →
        get_sqrtprec_from_prec(dim, prec, sparse_flag), get_sqrtprec_from_cov(dim, cov, sparse_flag):
          branch 1  `value.shape[0] == 1`                       scalar        sqrtprec = sqrt(p) I         rank = dim
          branch 2  1-D, `shape[0] == size`                     vector        sqrtprec = diag(sqrt(w))     rank = dim
          branch 3  2-D with `count_nonzero(off-diagonal) == 0` diagonal      sqrtprec = diag(sqrt(diag))  rank = dim
          branch 4  2-D full, dense (dim <= MIN_DIM_SPARSE):    `np.allclose(M, M.T)` else ValueError,
                    prec:  rank = matrix_rank(P),  sqrtprec = cholesky(P).T          (LinAlgError unless P > 0)
                    cov :  rank = matrix_rank(C),  P = inv(C) (LinAlgError if singular), sqrtprec = cholesky(P).T
    `Gaussian._logupdf` uses the same `sqrtprec`, `Gaussian.logpdf` multiplies `log s / 2` by `rank`.

  `‖L v‖² = vᵀ (LᵀL) v` is rational although `L` is not (`sqrt_factor_quadratic`): the model evaluates the
  quadratic form of the unit precision.  LAPACK's `potrf` reads the lower triangle only: a matrix that passes
  the `allclose` symmetry test with a (slightly) different upper triangle is factorised as `lowerSym`.
-/
import CuqiVerif.Model.C10
import CuqiVerif.Model.QMat
namespace CuqiVerif.C10
open CuqiVerif.QMat (Mat)

/-- the value of the callable at hyper-parameter 1 as `force_ndarray` stores it -/
inductive PVal
  | scalar (c : Rat)
  | vector (w : List Rat)
  | matrix (M : List (List Rat))
  deriving Repr

/-- how the real code fails (exception class) -/
inductive PErr
  /-- operands of `L @ (Ax - b)` do not fit / geometry inconsistent -/
  | shape
  /-- `ValueError: … matrix has to be symmetric` -/
  | asym
  /-- `LinAlgError: Singular matrix` (`inv(cov)`) -/
  | singular
  /-- `LinAlgError: Matrix is not positive definite` (`cholesky`) -/
  | notPD
  /-- `1/0` in the scalar covariance branch (ZeroDivision → inf/nan): as in the `gauss` op -/
  | zeroDiv
  deriving DecidableEq, Repr

/-! ## quadratic forms (function style, like `normSq`) -/

/-- `Σ_i w_i v_i²` — `‖diag(sqrt w) v‖²` -/
def quadDiag (n : Nat) (w : Nat → Rat) (v : Nat → Rat) : Rat := sumTo n (fun i => w i * sq (v i))

/-- `vᵀ P v` -/
def quadForm (n : Nat) (P : Nat → Nat → Rat) (v : Nat → Rat) : Rat :=
  sumTo n (fun i => v i * sumTo n (fun j => P i j * v j))

def vecFn (w : List Rat) : Nat → Rat := fun i => w.getD i 0
def matFn (M : Mat) : Nat → Nat → Rat := fun i j => QMat.entry M i j

/-- what `potrf` (lower) factorises: the lower triangle mirrored -/
def lowerSym (P : Nat → Nat → Rat) : Nat → Nat → Rat := fun i j => if j ≤ i then P i j else P j i

/-! ## the tests of branch 3 / 4 -/

def allTo (n : Nat) (p : Nat → Bool) : Bool := (List.range n).all p

/-- `np.count_nonzero(M - np.diag(M.diagonal())) == 0` -/
def isDiagonal (n : Nat) (P : Nat → Nat → Rat) : Bool :=
  allTo n (fun i => allTo n (fun j => i = j || P i j == 0))

/-- `np.allclose(M, M.T)` (entry-wise `|M_ij - M_ji| <= 1e-8 + 1e-5 |M_ji|`) -/
def symClose (n : Nat) (P : Nat → Nat → Rat) : Bool :=
  allTo n (fun i => allTo n (fun j => allcloseTol (P i j) (P j i)))

/-- positive definiteness by symmetric elimination (Schur complements): all pivots `> 0`.
    `fuel` = number of rows.  This is when `np.linalg.cholesky` succeeds (exact arithmetic). -/
def posDefAux : Nat → Mat → Bool
  | 0, _ => true
  | _ + 1, [] => true
  | _ + 1, [] :: _ => true
  | k + 1, (p :: rt) :: rest =>
    if p ≤ 0 then false
    else posDefAux k (rest.map (fun row =>
      match row with
      | [] => []
      | a :: rowt => List.zipWith (fun x y => x - a / p * y) rowt rt))

def posDef (M : Mat) : Bool := posDefAux M.length M

def matOfFn (n : Nat) (P : Nat → Nat → Rat) : Mat := QMat.ofFn n n P

/-! ### certificates (second pass): the leaf algorithms `QMat.inverse`, `QMat.rank`, `posDef` are not trusted —
    their answers are accepted only together with an exactly checked certificate, and the theorems of
    `Props/C10_cert.lean` are about the certificates. -/

/-- certificate check `A · B = I` on the leading `n × n` block -/
def mulIsIdent (n : Nat) (A B : Nat → Nat → Rat) : Bool :=
  allTo n (fun i => allTo n (fun j => sumTo n (fun k => A i k * B k j) == (if i = j then 1 else 0)))

/-- full-rank certificate: an exact two-sided inverse is exhibited and checked -/
def fullRankCert (n : Nat) (M : Mat) : Bool :=
  match QMat.inverse M with
  | some X => mulIsIdent n (matFn M) (matFn X) && mulIsIdent n (matFn X) (matFn M)
  | none => false

/-- `matrix_rank` as the model reports it: `n` when the full-rank certificate checks, the row-reduction count otherwise -/
def reportedRank (n : Nat) (M : Mat) : Nat := if fullRankCert n M then n else QMat.rank M

/-- `L D Lᵀ` factorisation (no pivoting) of the lower triangle; `L` unit lower triangular.  Stops producing sensible
    numbers at a zero pivot — the result is only used through `ldlCheck`. -/
def ldl (n : Nat) (P : Nat → Nat → Rat) : Array (Array Rat) × Array Rat :=
  (List.range n).foldl (fun (acc : Array (Array Rat) × Array Rat) j =>
    let L := acc.1
    let d := acc.2
    let Lj := L.getD j #[]
    let dj := (List.range j).foldl (fun s k => s - Lj.getD k 0 * Lj.getD k 0 * d.getD k 0) (P j j)
    let L1 := L.setIfInBounds j (Lj.setIfInBounds j 1)
    let L2 := (List.range (n - (j + 1))).foldl (fun (Lacc : Array (Array Rat)) t =>
        let i := j + 1 + t
        let Li := Lacc.getD i #[]
        let lij := (List.range j).foldl (fun s k => s - Li.getD k 0 * Lj.getD k 0 * d.getD k 0) (P i j)
        Lacc.setIfInBounds i (Li.setIfInBounds j (lij / dj))) L1
    (L2, d.setIfInBounds j dj)) (Array.replicate n (Array.replicate n 0), Array.replicate n 0)

/-- certificate check: `P = L · diag(d) · Lᵀ` entry-wise on `n × n` and every `d_k > 0` -/
def ldlCheck (n : Nat) (P L : Nat → Nat → Rat) (d : Nat → Rat) : Bool :=
  allTo n (fun i => allTo n (fun j => P i j == sumTo n (fun k => L i k * d k * L j k))) && allTo n (fun k => decide (0 < d k))

/-- positive definiteness with certificate: the `L D Lᵀ` factors are computed and checked exactly -/
def posDefCert (n : Nat) (P : Nat → Nat → Rat) : Bool :=
  ldlCheck n P (fun i k => ((ldl n P).1.getD i #[]).getD k 0) (fun k => (ldl n P).2.getD k 0)

/-! ## the unit precision, branch by branch -/

/-- the unit precision in the form the sampler and the density use it -/
inductive UnitPrec
  | scalar (c1 : Rat)
  | diag (w : List Rat)
  | full (P : Mat) (rank : Nat)
  deriving DecidableEq, Repr

def squareOf (n : Nat) (M : Mat) : Bool := M.length = n && M.all (fun r => r.length = n)

/-- branch 4 (full dense matrix that passed the symmetry test): Cholesky of the precision, resp. of `inv(cov)`;
    every leaf answer is accepted only with its certificate (`posDefCert`, `mulIsIdent`). -/
def fullPrecOf (w : Wiring) (n : Nat) (M : Mat) : Except PErr UnitPrec :=
  match w with
  | .prec =>
    let S := matOfFn n (lowerSym (matFn M))
    if posDef S && posDefCert n (lowerSym (matFn M)) then .ok (.full S (reportedRank n M)) else .error .notPD
  | .cov =>
    match QMat.inverse M with
    | none => .error .singular
    | some Pinv =>
      if !mulIsIdent n (matFn M) (matFn Pinv) then .error .singular    -- certificate of `inv(cov)`
      else
        let S := matOfFn n (lowerSym (matFn Pinv))
        if posDef S && posDefCert n (lowerSym (matFn Pinv)) then .ok (.full S (reportedRank n M)) else .error .notPD

/-- `get_sqrtprec_from_prec` / `get_sqrtprec_from_cov` at hyper-parameter 1, for a distribution of
    dimension `n` (dense storage of full matrices: `n ≤ 75`). -/
def unitPrecOf (w : Wiring) (n : Nat) : PVal → Except PErr UnitPrec
  | .scalar c =>
    if w = .cov ∧ c = 0 then .error .zeroDiv else .ok (.scalar (unitPrec w c))
  | .vector v =>
    if v.length = 1 then
      (if w = .cov ∧ v.getD 0 0 = 0 then .error .zeroDiv else .ok (.scalar (unitPrec w (v.getD 0 0))))
    else if v.length ≠ n then .error .shape
    else .ok (.diag (v.map (unitPrec w)))
  | .matrix M =>
    if M.length = 1 then
      -- `shape[0] == 1`: `ravel()[0]`
      (let c := (M.getD 0 []).getD 0 0
       if w = .cov ∧ c = 0 then .error .zeroDiv else .ok (.scalar (unitPrec w c)))
    else if !squareOf n M then .error .shape
    else
      let P := matFn M
      if isDiagonal n P then .ok (.diag ((List.range n).map (fun i => unitPrec w (P i i))))
      else if !symClose n P then .error .asym
      else fullPrecOf w n M

/-! ### branch 4 above `MIN_DIM_SPARSE`, and sparse-matrix valued callables (third pass)

  dense full matrix, `dim > 75` (`sparse_flag`):  `np.allclose(M, M.T)` else ValueError; `s, u = eigh(M)` (reads the lower
      triangle); `min(s) < -eps` → ValueError; prec: `sqrtprec = (u sqrt(s)).T`; cov: `sqrtprec = (u sqrt(pinv s)).T`;
      `rank = #{s > eps}`.  For a positive definite matrix `LᵀL = M` resp. `M⁻¹` and `rank = dim`.
  scipy sparse matrix (any dim, no cholmod): no symmetry test; prec: `sqrtprec = sparse_cholesky(prec)`; cov:
      `prec = spa.linalg.inv(cov); sqrtprec = sparse_cholesky(prec)`; `rank = structural_rank`, `logdet = None`
      (`Gaussian.logpdf` then raises NotImplementedError: there is no density to compare with — tie only).
  Leaf factorisations are replaced by certificates: `posDefCert` (exact `L D Lᵀ`, `d > 0`) decides definiteness, and for the
  covariance wiring `u = C⁻¹ v` is obtained from the `L D Lᵀ` factors by substitution and accepted only if `C u = v`
  checks exactly; then `‖L v‖² = vᵀ C⁻¹ v = vᵀ u`.  Rank-deficient PSD input (accepted by `eigh` with `rank < dim`) is
  outside the modelled range (`none`). -/

/-- `u` with `L D Lᵀ u = v` by forward / diagonal / backward substitution (`L` unit lower triangular) -/
def ldlSolve (n : Nat) (L : Nat → Nat → Rat) (d : Nat → Rat) (v : Nat → Rat) : Array Rat :=
  let y := (List.range n).foldl (fun (y : Array Rat) i =>
    y.push (v i - (List.range i).foldl (fun s k => s + L i k * y.getD k 0) 0)) (#[] : Array Rat)
  let z := fun k => y.getD k 0 / d k
  (List.range n).foldl (fun (u : Array Rat) t =>
    let i := n - 1 - t
    u.setIfInBounds i (z i - (List.range (n - 1 - i)).foldl (fun s m => let k := i + 1 + m; s + L k i * u.getD k 0) 0))
    (Array.replicate n 0)

/-- certificate check `C u = v` on the first `n` components -/
def solvesCert (n : Nat) (C : Nat → Nat → Rat) (u v : Nat → Rat) : Bool :=
  allTo n (fun i => sumTo n (fun j => C i j * u j) == v i)

/-- the quadratic form `‖L (Ax-b)‖²` for a positive definite full matrix in the large-dense / sparse branches
    (`none`: outside the modelled range) -/
def bigQuad (w : Wiring) (n : Nat) (sparse : Bool) (M : Mat) (v : Nat → Rat) : Except PErr (Option Rat) :=
  let P := if sparse then matFn M else lowerSym (matFn M)
  if !squareOf n M then .error .shape
  else if !sparse && !symClose n (matFn M) then .error .asym
  else if !posDefCert n P then (if sparse || !(allTo n (fun i => decide (0 < P i i))) then .error .notPD else .ok none)
  else match w with
    | .prec => .ok (some (quadForm n P v))
    | .cov =>
      let F := ldl n P
      let u := ldlSolve n (fun i k => (F.1.getD i #[]).getD k 0) (fun k => F.2.getD k 0) v
      let uf := fun i => u.getD i 0
      if solvesCert n P uf v then .ok (some (sumTo n (fun i => v i * uf i))) else .ok none

/-- the `Quad` of a Gaussian likelihood with unit precision `U` on `n` components: the sampler
    (`‖L(Ax-b)‖²`) and the density (`Gaussian._logupdf`) use the same `sqrtprec`. -/
def gaussQuadU (n : Nat) (U : UnitPrec) (ax b : List Rat) : Quad :=
  let v := dev ax b
  match U with
  | .scalar c1 => gaussQuad n c1 ax b
  | .diag w => let q := quadDiag n (vecFn w) v; ⟨q, q, n⟩
  | .full P r => let q := quadForm n (matFn P) v; ⟨q, q, r⟩

end CuqiVerif.C10
