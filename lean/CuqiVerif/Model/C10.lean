/-
  C10 model — conjugate and direct samplers.  Import-free (core `Rat`) and executable.

  Transcribed code:
    cuqi/experimental/mcmc/_conjugate.py   Conjugate.target setter / _set_conjugatepair / validate_target,
                                           _GaussianGammaPair.{validate_target, sample},
                                           _RegularizedGaussianGammaPair.{validate_target, sample},
                                           _get_conjugate_parameter, _check_conjugate_parameter_is_scalar_{identity,reciprocal}
    cuqi/sampler/_conjugate.py             Conjugate.__init__ / step / _calc_m_for_Gaussians   (legacy)
    cuqi/experimental/mcmc/_conjugate_approx.py, cuqi/sampler/_conjugate_approx.py   (validation, Gamma parameters)
    cuqi/experimental/mcmc/_direct.py      Direct.validate_target / step, driven by Sampler.sample
    cuqi/distribution/_gmrf.py             sqrtprec / logpdf as functions of `prec` (rank reported, regularised Cholesky)
    cuqi/distribution/_gaussian.py         scalar cov / prec: sqrtprec = sqrt(prec) I, rank = dim

  The Gamma built by `sample()` / `step()` is  Gamma(shape = m/2 + alpha, rate = .5*||L (Ax-b)||^2 + beta)
  with `L = likelihood.distribution(np.array([1])).sqrtprec`.  `||L v||^2 = v^T (L^T L) v` is rational:
    Gaussian (scalar cov/prec)  L^T L = c1 I,                 c1 = prec-callable at 1 (or 1 / cov-callable at 1)
    GMRF zero bc                L^T L = c1 D^T D
    GMRF periodic / neumann     L^T L = c1 (D^T D + sqrt(eps) I)     (`sparse_cholesky(P + sqrt(eps) I)`), sqrt(eps) = 2^-26
  The *target's own* log-density along the hyper-parameter (prec = c1 s) is, up to a constant,
    (r/2 + alpha - 1) log s - s (c1 v^T P v / 2 + beta),   r = the rank the Gaussian / GMRF reports
  (GMRF.logpdf uses `_prec_op` = D^T D without the regularisation and `_rank` = `declaredRank`).
-/
import CuqiVerif.Model.C20
namespace CuqiVerif.C10
open CuqiVerif.C20 (BC FMat)

/-! ## sums and vectors -/

/-- `Σ_{i<n} f i` -/
def sumTo : Nat → (Nat → Rat) → Rat
  | 0, _ => 0
  | n + 1, f => sumTo n f + f n

/-- numpy 1-D broadcasting read: a length-1 array is read at index 0 everywhere -/
def bget (v : List Rat) (i : Nat) : Rat := if v.length = 1 then v.getD 0 0 else v.getD i 0

/-- length of `a - b` for 1-D arrays under numpy broadcasting (`none`: shapes do not broadcast) -/
def blen (la lb : Nat) : Option Nat :=
  if la = lb then some la else if la = 1 then some lb else if lb = 1 then some la else none

/-- `Ax - b` -/
def dev (ax b : List Rat) : Nat → Rat := fun i => bget ax i - bget b i

def sq (x : Rat) : Rat := x * x

/-- `‖v‖²` over the first `n` entries -/
def normSq (n : Nat) (v : Nat → Rat) : Rat := sumTo n (fun i => sq (v i))

/-- action of an integer matrix of the C20 model on a rational vector -/
def applyQ (M : FMat) (x : Nat → Rat) (i : Nat) : Rat := sumTo M.cols (fun j => (M.e i j : Rat) * x j)

/-- `‖D v‖²` -/
def normSqD (D : FMat) (v : Nat → Rat) : Rat := sumTo D.rows (fun k => sq (applyQ D v k))

/-! ## the Gamma the samplers draw from -/

structure GammaPar where
  shape : Rat
  rate : Rat
  deriving DecidableEq, Repr

/-- `Gamma(shape=m/2 + alpha, rate=.5 * np.linalg.norm(L @ (Ax - b))**2 + beta)` — the same
    expression in `_GaussianGammaPair.sample`, `_RegularizedGaussianGammaPair.sample` and legacy
    `Conjugate.step`. -/
def conjGamma (m : Nat) (α β q : Rat) : GammaPar := ⟨(m : Rat) / 2 + α, q / 2 + β⟩

def countNonzero (b : List Rat) : Nat := (b.filter (fun x => x ≠ 0)).length

/-- `m`: `len(b)` for Gaussian / GMRF, `np.count_nonzero(b)` for the regularised variants -/
def mOf (regularized : Bool) (b : List Rat) : Nat := if regularized then countNonzero b else b.length

inductive Wiring | cov | prec
  deriving DecidableEq, Repr

/-- precision of the likelihood at hyper-parameter value 1: the callable's value there (`prec`) or its
    reciprocal (`cov`) -/
def unitPrec (w : Wiring) (f1 : Rat) : Rat :=
  match w with
  | .prec => f1
  | .cov => 1 / f1

/-- `sqrt(eps)` of `GMRF.__init__`: `np.sqrt(np.finfo(float).eps)` = 2⁻²⁶ exactly -/
def sqrtEps : Rat := 1 / 67108864

/-- the GMRF's difference operator (C20 model): 1-D, or 2-D on an `n × n` image -/
def gmrfOp (order : Nat) (bc : BC) (pd n : Nat) : FMat :=
  if pd = 2 then C20.diffOp2D order bc n else C20.diffOp order bc n

def gmrfDim (pd n : Nat) : Nat := if pd = 2 then n * n else n

/-- regularisation `GMRF.__init__` adds before the Cholesky factorisation that `sqrtprec` returns -/
def gmrfReg (bc : BC) : Rat := match bc with | .zero => 0 | _ => sqrtEps

/-- what the two kinds of likelihood contribute -/
structure Quad where
  /-- `‖L(Ax-b)‖²` with `L` the square-root precision at hyper-parameter 1 — what the sampler uses -/
  used : Rat
  /-- `(Ax-b)ᵀ P₁ (Ax-b)` with `P₁` the precision the target's own `logpdf` uses at hyper-parameter 1 -/
  target : Rat
  /-- rank the likelihood distribution reports (multiplies `log s / 2` in its log-density) -/
  rank : Nat

/-- Gaussian with scalar covariance / precision on `n` components -/
def gaussQuad (n : Nat) (c1 : Rat) (ax b : List Rat) : Quad :=
  let q := c1 * normSq n (dev ax b)
  ⟨q, q, n⟩

/-- GMRF of the given order / boundary condition -/
def gmrfQuad (order : Nat) (bc : BC) (pd n : Nat) (c1 : Rat) (mean b : List Rat) : Quad :=
  let D := gmrfOp order bc pd n
  let v := dev mean b
  let qD := normSqD D v
  ⟨c1 * (qD + gmrfReg bc * normSq (gmrfDim pd n) v), c1 * qD, C20.declaredRank bc (gmrfDim pd n)⟩

/-- result of one model evaluation of `sample()` / `step()` together with the target's own kernel -/
structure Outcome where
  gamma : GammaPar
  /-- coefficient of `log s` in the target's log-density: `r/2 + α - 1` -/
  tLog : Rat
  /-- coefficient of `-s`: `qₜ/2 + β` -/
  tLin : Rat
  deriving Repr

def outcome (regularized : Bool) (Q : Quad) (b : List Rat) (α β : Rat) : Outcome :=
  ⟨conjGamma (mOf regularized b) α β Q.used, (Q.rank : Rat) / 2 + α - 1, Q.target / 2 + β⟩

/-- the Gamma drawn from has (up to normalisation) the target's density along the hyper-parameter:
    `x^(shape-1) e^(-rate x)` against `x^tLog e^(-tLin x)` -/
def Outcome.exact (o : Outcome) : Bool := o.gamma.shape - 1 == o.tLog && o.gamma.rate == o.tLin

/-! ## validation decision procedures -/

inductive Lik | gaussian | gmrf | regGaussian | regGMRF | lmrf | other
  deriving DecidableEq, Repr

/-- one entry of `likelihood.distribution.get_mutable_variables()` -/
structure MutVar where
  key : String
  /-- `callable(attr)` -/
  callable : Bool
  /-- `par_name in get_non_default_args(attr)` -/
  hasPar : Bool
  /-- the callable's values at the probe points 1, 10, 100, each flattened (a scalar is one entry) -/
  probes : List (List Rat)

structure Target where
  isPosterior : Bool
  lik : Lik
  priorGamma : Bool
  priorDim : Nat
  /-- `preset == "nonnegativity"` (regularised likelihoods) -/
  presetNonneg : Bool
  /-- `np.sum(location) == 0` (LMRF likelihood) -/
  locSumZero : Bool
  vars : List MutVar

inductive Verdict
  | ok | notPosterior | attrError | noPair | likType | priorType | gammaDim | preset | locNonzero
  | notFound | multiple | badKey | notReciprocal | notIdentity | probeType
  deriving DecidableEq, Repr

def rabs (x : Rat) : Rat := if x < 0 then -x else x
def rmax (x y : Rat) : Rat := if x < y then y else x

/-- `np.allclose(a, b)` on scalars: `|a - b| <= atol + rtol*|b|`, `atol = 1e-8`, `rtol = 1e-5` -/
def allcloseTol (a b : Rat) : Bool := rabs (a - b) ≤ 1 / 100000000 + 1 / 100000 * rabs b

/-- `math.isclose(a, b)`: `|a-b| <= max(rel_tol*max(|a|,|b|), abs_tol)`, `rel_tol = 1e-9`, `abs_tol = 0` -/
def iscloseTol (a b : Rat) : Bool := rabs (a - b) ≤ 1 / 1000000000 * rmax (rabs a) (rabs b)

def probePoints : List Rat := [1, 10, 100]

/-- `_check_conjugate_parameter_is_scalar_identity`: `all(np.allclose(f(x), x) for x in [1, 10, 100])`
    (`np.allclose` accepts arrays and compares every entry). -/
def identityCheck (probes : List (List Rat)) : Bool :=
  (probePoints.zip probes).all (fun xp => xp.2.all (fun v => allcloseTol v xp.1))

/-- `_check_conjugate_parameter_is_scalar_reciprocal`: `all(math.isclose(f(x), 1.0/x) for x in …)`;
    `math.isclose` raises `TypeError` for an array with more (or fewer) than one entry; `all` stops at
    the first `False`. -/
def reciprocalCheck : List (Rat × List Rat) → Verdict
  | [] => .ok
  | (x, [v]) :: rest => if iscloseTol v (1 / x) then reciprocalCheck rest else .notReciprocal
  | (_, _) :: _ => .probeType

/-- `_get_conjugate_parameter` followed by the key dispatch of `validate_target` -/
def checkParameter (vars : List MutVar) (okKeys : List String) : Verdict :=
  match vars.filter (fun v => v.callable && v.hasPar) with
  | [] => .notFound
  | [v] =>
    if v.key = "prec" ∧ "prec" ∈ okKeys then
      (if identityCheck v.probes then .ok else .notIdentity)
    else if v.key ∈ okKeys then reciprocalCheck (probePoints.zip v.probes)
    else .badKey
  | _ => .multiple

/-- experimental `Conjugate`: target setter → `_set_conjugatepair` → `validate_target` -/
def validateExp (t : Target) : Verdict :=
  if !t.isPosterior then .notPosterior
  else if !t.priorGamma then .noPair
  else match t.lik with
    | .gaussian | .gmrf =>
      if t.priorDim ≠ 1 then .gammaDim else checkParameter t.vars ["cov", "prec"]
    | .regGaussian | .regGMRF =>
      if t.priorDim ≠ 1 then .gammaDim
      else if !t.presetNonneg then .preset
      else checkParameter t.vars ["cov", "prec"]
    | _ => .noPair

/-- legacy `Conjugate.__init__` — no structural validation of the hyper-parameter dependence -/
def validateLegacy (t : Target) : Verdict :=
  if !t.isPosterior then .attrError
  else match t.lik with
    | .gaussian | .gmrf | .regGaussian | .regGMRF =>
      if !t.priorGamma then .priorType
      else if t.priorDim ≠ 1 then .gammaDim
      else if (t.lik = .regGaussian ∨ t.lik = .regGMRF) ∧ !t.presetNonneg then .preset
      else .ok
    | _ => .likType

/-- experimental `ConjugateApprox` -/
def validateApprox (t : Target) : Verdict :=
  if !t.isPosterior then .attrError
  else if t.lik = .lmrf ∧ t.priorGamma then
    if t.priorDim ≠ 1 then .gammaDim
    else if !t.locSumZero then .locNonzero
    else checkParameter t.vars ["scale"]
  else .noPair

/-- legacy `ConjugateApprox.__init__` -/
def validateApproxLegacy (t : Target) : Verdict :=
  if !t.isPosterior then .attrError
  else if t.lik ≠ .lmrf then .likType
  else if !t.priorGamma then .priorType
  else .ok

/-! ## ConjugateApprox: what is exact about its Gamma

`Gamma(shape = d + alpha, rate = ||sqrt(W) D x||^2 + beta)`, `W = diag(1/sqrt((Dx)^2 + 1e-5))`,
`d = len(x)`.  The weights are irrational; the model supplies `d`, and `(D x)_k` exactly. -/

def approxShape (x : List Rat) (α : Rat) : Rat := (x.length : Rat) + α

def approxDx (bc : BC) (pd n : Nat) (x : List Rat) : List Rat :=
  let D := gmrfOp 1 bc pd n
  (List.range D.rows).map (fun k => applyQ D (fun i => x.getD i 0) k)

/-! ## Direct sampler (and the conjugate chain) as a function of the target's draw stream -/

/-- the part of `Sampler` state `Direct` / `Conjugate` touch -/
structure Chain (α : Type) where
  /-- number of draws the target's `sample` has served so far -/
  pos : Nat
  current : α
  samples : List α
  acc : List Nat

/-- `Direct.validate_target`: one trial call of `target.sample()` (result discarded) -/
def directValidate {α : Type} (st : Chain α) : Chain α := { st with pos := st.pos + 1 }

/-- the target assigned `k` times (constructor, then re-assignments): `k` trial draws -/
def directValidateN {α : Type} : Nat → Chain α → Chain α
  | 0, st => st
  | k + 1, st => directValidateN k (directValidate st)

/-- `Direct.step` followed by the bookkeeping of `Sampler.sample`'s loop body:
    `current_point = target.sample(); _acc.append(1); _samples.append(current_point)` -/
def directStep {α : Type} (draws : Nat → α) (st : Chain α) : Chain α :=
  { pos := st.pos + 1, current := draws st.pos, samples := st.samples ++ [draws st.pos], acc := st.acc ++ [1] }

def directRun {α : Type} (draws : Nat → α) : Nat → Chain α → Chain α
  | 0, st => st
  | n + 1, st => directRun draws n (directStep draws st)

/-- `Sampler.initialize` : `current_point = initial_point; _samples = []; _acc = [1]` -/
def chainInit {α : Type} (pos : Nat) (x0 : α) : Chain α := ⟨pos, x0, [], [1]⟩

/-! ### one `Direct` sampler, several targets: histories of assignments, steps and re-initialisations

Target `t` serves its draws in order (`pos t` = how many it has served).  Every assignment of a target
(constructor or `sampler.target = …`, also of the same object again) runs `validate_target`, which spends
one draw of *that* target; `step` takes the next draw of the *currently assigned* target
(`self.target.sample()` is looked up at every step); `reinitialize()` clears the history and draws nothing. -/

inductive DOp
  | assign (t : Nat)
  | step
  | reinit
  deriving Repr, DecidableEq

structure MChain where
  cur : Nat
  pos : Nat → Nat
  /-- stored states as (target, index of the draw of that target) -/
  samples : List (Nat × Nat)
  acc : List Nat

def bump (pos : Nat → Nat) (t : Nat) : Nat → Nat := fun u => if u = t then pos u + 1 else pos u

def mStep (st : MChain) : DOp → MChain
  | .assign t => { st with cur := t, pos := bump st.pos t }
  | .step => { st with pos := bump st.pos st.cur, samples := st.samples ++ [(st.cur, st.pos st.cur)],
                       acc := st.acc ++ [1] }
  | .reinit => { st with samples := [], acc := [1] }

def mRun (st : MChain) (ops : List DOp) : MChain := ops.foldl mStep st

/-- `Direct(t)`: assignment in the constructor, then `initialize` -/
def mInit (t : Nat) : MChain := ⟨t, bump (fun _ => 0) t, [], [1]⟩

end CuqiVerif.C10
