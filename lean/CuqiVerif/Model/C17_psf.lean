import CuqiVerif.Model.C07
import CuqiVerif.Model.C17
/-
  C17 model, part 2 — the named point-spread functions of `cuqi/testproblem/_testproblem.py`
  (`_createPSF_1D`, `_GaussPSF_1D`, `_MoffatPSF_1D`, `_DefocusPSF_1D`, `_GaussPSF`, `_MoffatPSF`,
  `_DefocusPSF`), the option glue around them (`PSF_size is None -> dim`, `PSF_param is None -> 10`,
  name dispatch after `.lower()`) and the documented PSFs they are compared with.
  Executable, no Mathlib.  Carrier `R` (driver: `Rat`; theorems: every (ordered) field).

  Leaf: `exp` (the Gaussian profile is a function parameter `g`; the driver receives its values),
  `π` (a parameter `piV`; `Props/C17_psf.defocus1_indep_pi`: the result does not depend on it).
-/
namespace CuqiVerif.C17
open CuqiVerif.C07

/-- `np.arange(-np.fix(size/2), np.ceil(size/2))[k]`: the offset of array entry `k` from the entry
    `size/2` (integer division) — for odd and even `size`. -/
def psfOffset (size k : Nat) : Int := (k : Int) - ((size / 2 : Nat) : Int)

/-- what a PSF builder returns: the array and the `center` it reports, `nan` (0/0: empty support),
    or the error class it raises -/
inductive Psf1 (R : Type)
  | ok (P : Nat → R) (center : Nat)
  | nan (center : Nat)
  | raises (cls : String)

inductive Psf2 (R : Type)
  | ok (P : Nat → Nat → R) (c0 c1 : Nat)
  | nan (c0 c1 : Nat)
  | raises (cls : String)

section field
variable {R : Type} [Zero R] [One R] [Add R] [Mul R] [Div R]

/-- `PSF = PSF_func(x); PSF /= PSF.sum()` of `_createPSF_1D` (`f` = the profile on integer offsets) -/
def createPSF1 (size : Nat) (f : Int → R) : Nat → R :=
  fun k => f (psfOffset size k) / sumTo size (fun j => f (psfOffset size j))

/-- the 2-D builders: `X, Y = np.meshgrid(x, y)` (`X[i,j] = x[j]`, `Y[i,j] = y[i]`), profile `f X Y`,
    `PSF /= PSF.sum()`; square `size × size` (how `Deconvolution2D` calls them) -/
def createPSF2 (size : Nat) (f : Int → Int → R) : Nat → Nat → R :=
  fun i j => f (psfOffset size j) (psfOffset size i) /
    sumTo size (fun a => sumTo size (fun b => f (psfOffset size b) (psfOffset size a)))

/-- `if PSF_param is None: PSF_param = 10` (all three 1-D builders) -/
def psfParam1 (p : Option R) (ten : R) : R := match p with | some v => v | none => ten

end field

section intcast
variable {R : Type} [Zero R] [One R] [Add R] [Mul R] [Div R] [IntCast R]

/-- `( 1 + (x**2)/(PSF_param**2) )**(-beta)`, `beta = 1` -/
def moffatProfile (p : R) (x : Int) : R := 1 / (1 + ((x * x : Int) : R) / (p * p))

/-- `( 1 + (X**2)/(s1**2) + (Y**2)/(s2**2) )**(-beta)`, `s1 = s2 = s`, `beta = 1` -/
def moffatProfile2 (p : R) (x y : Int) : R := 1 / (1 + ((x * x : Int) : R) / (p * p) + ((y * y : Int) : R) / (p * p))

/-- `np.exp(-0.5*((x**2)/(PSF_param**2)))`; `g t = exp(-0.5 t)` is the leaf -/
def gaussProfile (g : R → R) (p : R) (x : Int) : R := g (((x * x : Int) : R) / (p * p))

/-- `np.exp(-0.5*((X**2)/(s1**2) + (Y**2)/(s2**2)))` -/
def gaussProfile2 (g : R → R) (p : R) (x y : Int) : R := g (((x * x : Int) : R) / (p * p) + ((y * y : Int) : R) / (p * p))

end intcast

section ordered
variable {R : Type} [Zero R] [One R] [Add R] [Mul R] [Div R] [IntCast R] [LT R] [DecidableLT R]

/-- `np.where(v == v.max())[0][0]`: the FIRST index of a maximal entry among the first `n` -/
def argmaxFirst (n : Nat) (v : Nat → R) : Nat :=
  (List.range n).foldl (fun b k => if v b < v k then k else b) 0

/-- first maximal entry in row-major order of an `n × n` array (`mm, nn = np.where(P == P.max())`; `[mm[0], nn[0]]`) -/
def argmaxFirst2 (n : Nat) (v : Nat → Nat → R) : Nat × Nat :=
  let k := argmaxFirst (n * n) (fun t => v (t / n) (t % n))
  (k / n, k % n)

/-- `idx = (k-center)**2 > PSF_param**2` with the 1-BASED `k = np.arange(1, PSF_size+1)` against the
    0-based `center = int(PSF_size/2)`: entry `k` (0-based) is ZEROED iff this holds -/
def defocusOut1 (size : Nat) (p : R) (k : Nat) : Bool :=
  decide (p * p < ((((k : Int) + 1 - ((size / 2 : Nat) : Int)) * ((k : Int) + 1 - ((size / 2 : Nat) : Int)) : Int) : R))

/-- `PSF = np.ones(PSF_size) / (np.pi * PSF_param**2); PSF[idx] = 0` -/
def defocusRaw1 (piV : R) (size : Nat) (p : R) (k : Nat) : R :=
  if defocusOut1 size p k then 0 else 1 / (piV * (p * p))

/-- `_DefocusPSF_1D(PSF_size, PSF_param)` (after the `None -> 10` default).  `PSF_param == 0`: the
    delta branch indexes with the float `center` and raises `IndexError`.  Empty support: `0/0`. -/
def defocusPSF1 [DecidableEq R] (piV : R) (size : Nat) (p : R) : Psf1 R :=
  if p = 0 then .raises "IndexError" else
  let s := sumTo size (defocusRaw1 piV size p)
  if s = 0 then .nan (size / 2) else
  .ok (fun k => defocusRaw1 piV size p k / s) (size / 2)

/-- 2-D: `aa, bb = (k-center[0])**2, (k-center[1])**2`; `idx[i,j] = aa[i] + bb[j] > R**2` (square array) -/
def defocusOut2 (size : Nat) (p : R) (i j : Nat) : Bool :=
  decide (p * p < (((((i : Int) + 1 - ((size / 2 : Nat) : Int)) * ((i : Int) + 1 - ((size / 2 : Nat) : Int))
    + ((j : Int) + 1 - ((size / 2 : Nat) : Int)) * ((j : Int) + 1 - ((size / 2 : Nat) : Int))) : Int) : R))

def defocusRaw2 (piV : R) (size : Nat) (p : R) (i j : Nat) : R :=
  if defocusOut2 size p i j then 0 else 1 / (piV * (p * p))

/-- `_DefocusPSF(np.array([s, s]), R)` -/
def defocusPSF2 [DecidableEq R] (piV : R) (size : Nat) (p : R) : Psf2 R :=
  if p = 0 then .raises "IndexError" else
  let s := sumTo size (fun i => sumTo size (fun j => defocusRaw2 piV size p i j))
  if s = 0 then .nan (size / 2) (size / 2) else
  .ok (fun i j => defocusRaw2 piV size p i j / s) (size / 2) (size / 2)

/-- `_createPSF_1D` with its reported centre; a vanishing sum gives `x/0` (NaN or ±inf) everywhere -/
def namedPSF1 [DecidableEq R] (size : Nat) (f : Int → R) : Psf1 R :=
  let s := sumTo size (fun j => f (psfOffset size j))
  if s = 0 then .nan 0 else .ok (createPSF1 size f) (argmaxFirst size (createPSF1 size f))

def namedPSF2 [DecidableEq R] (size : Nat) (f : Int → Int → R) : Psf2 R :=
  let s := sumTo size (fun a => sumTo size (fun b => f (psfOffset size b) (psfOffset size a)))
  if s = 0 then .nan 0 0 else
  let c := argmaxFirst2 size (createPSF2 size f)
  .ok (createPSF2 size f) c.1 c.2

/-! ### documented PSFs (written from the docstrings, independently of the builders) -/

/-- **Documented out-of-focus blur**: the uniform CLOSED disc of radius `p` about the entry `c`
    (normalised): membership of entry `k` -/
def docDiscIn1 (c : Nat) (p : R) (k : Int) : Bool :=
  !decide (p * p < (((k - (c : Int)) * (k - (c : Int)) : Int) : R))

def docDiscIn2 (c : Nat) (p : R) (i j : Int) : Bool :=
  !decide (p * p < ((((i - (c : Int)) * (i - (c : Int)) + (j - (c : Int)) * (j - (c : Int))) : Int) : R))

/-- documented 1-D defocus PSF centred on the kernel centre `size/2` of the convolution -/
def docDefocus1 (size : Nat) (p : R) (k : Nat) : R :=
  (if docDiscIn1 (size / 2) p (k : Int) then 1 else 0) /
    sumTo size (fun j => if docDiscIn1 (size / 2) p (j : Int) then (1 : R) else 0)

def docDefocus2 (size : Nat) (p : R) (i j : Nat) : R :=
  (if docDiscIn2 (size / 2) p (i : Int) (j : Int) then 1 else 0) /
    sumTo size (fun a => sumTo size (fun b => if docDiscIn2 (size / 2) p (a : Int) (b : Int) then (1 : R) else 0))

end ordered

/-! ### option glue of `_getConvolutionOperator` / `Deconvolution2D.__init__` -/

/-- PSF names accepted after `.lower()` -/
inductive PsfName | gauss | moffat | defocus
  deriving DecidableEq, Repr

def psfName : String → Option PsfName
  | "gauss" => some .gauss | "moffat" => some .moffat | "defocus" => some .defocus | _ => none

/-- `if PSF_size is None: PSF_size = dim` -/
def psfSize1 (dim : Nat) (size : Option Nat) : Nat := match size with | some s => s | none => dim

/-- `_getConvolutionOperator(dim, PSF: str, PSF_param, PSF_size, BC)`: the PSF array used for a NAMED
    PSF.  `g`: the leaf `t ↦ exp(-t/2)`.  Unknown names raise `ValueError`. -/
def namedPSF1D (g : Rat → Rat) (piV : Rat) (dim : Nat) (name : String) (param : Option Rat) (size : Option Nat) : Psf1 Rat :=
  let s := psfSize1 dim size
  let p := psfParam1 param 10
  match psfName name.toLower with
  | none => .raises "ValueError"
  | some .gauss => namedPSF1 s (gaussProfile g p)
  | some .moffat => namedPSF1 s (moffatProfile p)
  | some .defocus => defocusPSF1 piV s p

/-- `Deconvolution2D.__init__` for a named PSF (`PSF_param`, `PSF_size` are plain defaults of the
    signature there: 2.56, 21 — no `None` handling).  An unknown name leaves `P` unbound: the
    `NameError` surfaces at the first use of the model. -/
def namedPSF2D (g : Rat → Rat) (piV : Rat) (name : String) (param : Rat) (size : Nat) : Psf2 Rat :=
  match psfName name.toLower with
  | none => .raises "NameError"
  | some .gauss => namedPSF2 size (gaussProfile2 g param)
  | some .moffat => namedPSF2 size (moffatProfile2 param)
  | some .defocus => defocusPSF2 piV size param

/-- stored `Deconvolution1D` matrix for a named PSF: the glue composed with C07's assembly -/
def deconv1dNamed (g : Rat → Rat) (piV : Rat) (m : Ext) (dim : Nat) (name : String) (param : Option Rat) (size : Option Nat) :
    Option (LMat Rat) :=
  match namedPSF1D g piV dim name param size with
  | .ok P _ => some (deconv1dMatrix m (psfSize1 dim size) P dim)
  | _ => none

end CuqiVerif.C17
