/-
  C07 model, part 4 — the representation decisions of `Model._apply_func` (`cuqi/model/_model.py` l. 163–290) and of
  `CUQIarray.funvals` / `CUQIarray.parameters` (`cuqi/array/_array.py`): an input is a plain array or a `CUQIarray`
  carrying a geometry and the flag `is_par`; `_2fun` takes `x.funvals` when `x.geometry == geometry`, else applies
  `geometry.par2fun` if `is_par`; the operator is applied; `_2par` takes `out.parameters` when the output is a
  `CUQIarray` whose geometry `==` the output geometry, else applies `fun2par`; the result is wrapped as a `CUQIarray`
  iff the input was one.  Import-free, executable (driver op `repr`).

  Leaf data (measured on the implementation per case): the relation `geq a b` = `geometry_a == geometry_b`
  (`Geometry.__eq__`, asymmetric for sub/super-classes), `tagThrough g` = "`g.par2fun` of a `CUQIarray` returns an
  array that still is that `CUQIarray` subclass (identity / reshape / arithmetic maps) rather than a fresh ndarray",
  and whether the user's callable keeps the ndarray subclass (`A @ x`) or strips it (`np.asarray(x)`).
-/
import CuqiVerif.Model.C07

namespace CuqiVerif.C07

/-- what an array is: a plain ndarray, or a `CUQIarray` with a geometry (by number) and its `is_par` flag -/
inductive Tag where
  | plain : Tag
  | cu : Nat → Bool → Tag
  deriving DecidableEq, Repr

/-- an array value: data (C-order flattened), its length, and what it is -/
structure RVal (R : Type) where
  data : Nat → R
  len : Nat
  tag : Tag

/-- the geometries in play, the measured equality relation and tag propagation -/
structure ReprEnv (R : Type) where
  geomOf : Nat → Geom R
  geq : Nat → Nat → Bool
  tagThrough : Nat → Bool

section repr
variable {R : Type} [Zero R] [One R] [Add R] [Mul R]

/-- `CUQIarray.funvals`: `geometry.par2fun(self)` if `is_par`, re-wrapped with `is_par=False` -/
def funvals (env : ReprEnv R) (x : RVal R) (g : Nat) (isPar : Bool) : RVal R :=
  if isPar then { data := (env.geomOf g).E.apply x.data, len := (env.geomOf g).funDim, tag := .cu g false }
  else { x with tag := .cu g false }

/-- `Model._2fun(x, geometry, is_par)` -/
def to2fun (env : ReprEnv R) (x : RVal R) (g : Nat) (isPar : Bool) : RVal R :=
  match x.tag with
  | .cu h ip =>
    if env.geq h g then funvals env x h ip
    else if isPar then
      { data := (env.geomOf g).E.apply x.data, len := (env.geomOf g).funDim,
        tag := if env.tagThrough g then .cu h ip else .plain }
    else x
  | .plain =>
    if isPar then { data := (env.geomOf g).E.apply x.data, len := (env.geomOf g).funDim, tag := .plain } else x

/-- the user's callable: a matrix on function values; `keeps`: the result is still the input's ndarray subclass -/
def callFn (C : LMat R) (keeps : Bool) (v : RVal R) : RVal R :=
  { data := C.apply v.data, len := C.rows, tag := if keeps then v.tag else .plain }

/-- `Model._2par(val, geometry)` (default `is_par=False`): data and length of the parameter-valued result -/
def to2par (env : ReprEnv R) (out : RVal R) (g : Nat) : RVal R :=
  match out.tag with
  | .cu h ip =>
    if env.geq h g then
      -- `val.parameters`: `val.geometry.fun2par(val)` unless the array is flagged as parameters already
      (if ip then out else { data := (env.geomOf h).F.apply out.data, len := (env.geomOf h).parDim, tag := .cu h true })
    else { data := (env.geomOf g).F.apply out.data, len := (env.geomOf g).parDim, tag := .plain }
  | .plain => { data := (env.geomOf g).F.apply out.data, len := (env.geomOf g).parDim, tag := .plain }

/-- `Model._apply_func(func, func_range_geometry = gr, func_domain_geometry = gd, x, is_par)` for a non-`Samples` input:
    the result is wrapped as `CUQIarray(·, is_par=True, geometry=gr)` iff `type(x) is CUQIarray` -/
def applyFunc (env : ReprEnv R) (C : LMat R) (keeps : Bool) (gd gr : Nat) (x : RVal R) (isPar : Bool) : RVal R :=
  let r := to2par env (callFn C keeps (to2fun env x gd isPar)) gr
  { r with tag := match x.tag with | .cu _ _ => .cu gr true | .plain => .plain }

end repr

end CuqiVerif.C07
