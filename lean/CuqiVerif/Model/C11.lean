/-
  C11 model — a small heap semantics of the CUQIpy operations that must not alter the objects
  they start from.  Import-free and executable.

  Transcribed (allocation and write behaviour — which receiver, which field, fresh or shared):
    `Density._make_copy`                               (`makeCopy`)
    `Distribution._condition`, `to_likelihood`          (`condDist`, `condSlot`, `toLikelihood`)
    `Distribution.logd` (conditional branch conditions a copy), `sample`, `gradient`
    `Lognormal._normal` (re-synchronisation of the shared `_Gaussian`)       (`resync`)
    `RegularizedGaussian.gaussian` / `_condition`        (`syncInner`, `condReg`)
    `Likelihood._condition / _logd / _gradient`          (`condLik`, `logdLik`)
    `EvaluatedDensity._condition` (returns `self`)
    `JointDistribution._condition / _reduce_to_single_density / _add_constants_to_density / logd`
                                                         (`condJoint`, `reduce`, `logdJoint`)
    `Posterior.logpdf`, conditioning a `Posterior` with no arguments         (`condPost`)
    `Model.forward` (distribution branch)                (`applyModel`)
    the re-conditioning stream of `Gibbs.step` / `HybridGibbs._set_target`   (`gibbsOps`)

  A heap is an array of objects; an object is a class tag and a total map field → value; values
  are immutable data or addresses.  `copy` allocates a fresh object with the *same field values*
  (shallow).  Every mutation goes through `St.write`, which also appends to a write log; every
  allocation through `St.alloc`.  Numerical values are abstracted to integer signatures
  (`logdSig`, `applyFn`): what is modelled is *which object is read and written*, not arithmetic.

  Benign caches (`Fld.benign`): fields whose value is a function of immutable fields of the owner
  and which the code re-derives on access — `_mutable_vars`, a geometry's `_variable_name`,
  `Lognormal._Gaussian` and the `mean`/`cov` of that shared Gaussian, the `_name` of the Gaussian
  inside a `RegularizedGaussian`.
-/
namespace CuqiVerif.C11

inductive Cls | dist | lognormal | reggauss | lik | eval | joint | post | mlp | model | geom | cache | arr
  deriving DecidableEq, Repr, Inhabited

def Cls.letter : Cls → String
  | .dist => "d" | .lognormal => "n" | .reggauss => "r" | .lik => "L" | .eval => "E" | .joint => "J"
  | .post => "P" | .mlp => "M" | .model => "A" | .geom => "g" | .cache => "d"   -- the shared Gaussian *is* a Gaussian
  | .arr => "a"                                                                 -- a numpy array (value of a `_constant`)

/-- Is the class a `cuqi.distribution.Distribution` (what `JointDistribution._distributions` keeps)? -/
def Cls.isDist : Cls → Bool
  | .dist | .lognormal | .reggauss | .post | .mlp => true
  | _ => false

inductive Fld
  | fam | name | const | orig | geom | slot (i : Nat) | distr | data | value | dens | lik | prior | gauss | args
  | mvars | vname | cacheG | cmean | ccov | syncName
  /-- content of a numpy array object (class `arr`): the one piece of data the code mutates in place -/
  | cval
  /-- flag on a distribution / evaluated density: its log-density value is an `ndarray` (not a scalar) -/
  | arrv
  deriving DecidableEq, Repr

/-- Benign caches: never part of the observable behaviour (see header). -/
def Fld.benign : Fld → Bool
  | .mvars | .vname | .cacheG | .cmean | .ccov | .syncName => true
  | _ => false

/-- Fields exempt from the frame theorems: the benign caches and the *content* of array-typed
    constants (`ndarray += x` is in place; see `reduce`, `reduce_inplace_counterexample`). -/
def Fld.exempt : Fld → Bool
  | .cval => true
  | f => f.benign

def Fld.toString : Fld → String
  | .fam => "fam" | .name => "_name" | .const => "_constant" | .orig => "_original_density" | .geom => "_geometry"
  | .slot i => s!"slot{i}" | .distr => "distribution" | .data => "data" | .value => "value" | .dens => "_densities"
  | .lik => "likelihood" | .prior => "prior" | .gauss => "_gaussian" | .args => "_non_default_args"
  | .mvars => "_mutable_vars" | .vname => "_variable_name" | .cacheG => "_Gaussian" | .cmean => "_Gaussian.mean"
  | .ccov => "_Gaussian.cov" | .syncName => "_gaussian._name" | .cval => "_constant[...]" | .arrv => "arrv"

inductive Val
  | none
  | num (v : Int)
  | ref (a : Nat)
  | refs (as : List Nat)
  /-- a mutable variable that is `None`: a conditioning variable named like the attribute -/
  | unset (key : Nat)
  /-- a callable with free (non-default) argument names and already bound keyword arguments (`partial`) -/
  | fn (id : Nat) (free : List Nat) (bound : List (Nat × Int))
  | ids (ns : List Nat)
  deriving DecidableEq, Repr, Inhabited

structure Obj where
  cls : Cls
  fld : Fld → Val

def Obj.empty (c : Cls) : Obj := ⟨c, fun _ => .none⟩

def Obj.set (o : Obj) (f : Fld) (v : Val) : Obj :=
  { o with fld := fun g => if g = f then v else o.fld g }

def Obj.ofList (c : Cls) (l : List (Fld × Val)) : Obj :=
  l.foldl (fun o p => o.set p.1 p.2) (Obj.empty c)

/-- heap + write log (newest first) -/
structure St where
  heap : Array Obj
  log : List (Nat × Fld)

def St.size (s : St) : Nat := s.heap.size
def St.obj (s : St) (a : Nat) : Obj := s.heap.getD a (Obj.empty .geom)
def St.get (s : St) (a : Nat) (f : Fld) : Val := (s.obj a).fld f
def St.cls (s : St) (a : Nat) : Cls := (s.obj a).cls

/-- allocation: the new object gets the next address -/
def St.alloc (s : St) (o : Obj) : St × Nat := ({ s with heap := s.heap.push o }, s.heap.size)

/-- `obj.f = v` (logged) -/
def St.write (s : St) (a : Nat) (f : Fld) (v : Val) : St :=
  { heap := s.heap.setIfInBounds a ((s.obj a).set f v), log := (a, f) :: s.log }

abbrev Kw := List (Nat × Int)

def kwGet : Kw → Nat → Option Int
  | [], _ => none
  | (k, v) :: r, n => if k = n then some v else kwGet r n

def kwHas (kw : Kw) (n : Nat) : Bool := (kwGet kw n).isSome

/-- result of an operation -/
inductive Res | obj (a : Nat) | val (v : Int) | unit | err
  deriving DecidableEq, Repr, Inhabited

def maxSlots : Nat := 4

def slotsOf (o : Obj) : List Val := (List.range maxSlots).map (fun i => o.fld (.slot i))

def addNew (acc : List Nat) (k : Nat) : List Nat := if acc.contains k then acc else acc ++ [k]

/-- `get_conditioning_variables`: `None` attributes first, then the arguments of callables
    (`get_indirect_variables`), both in mutable-variable order, without repetition. -/
def condVarsOfSlots (sl : List Val) : List Nat :=
  sl.filterMap (fun v => match v with | .unset k => some k | _ => none)
  ++ sl.foldl (fun acc v => match v with | .fn _ free _ => free.foldl addNew acc | _ => acc) []

/-- order-insensitive signature of `f(**bound)` (uninterpreted arithmetic) -/
def applyFn (id : Nat) (bound : List (Nat × Int)) : Int :=
  bound.foldl (fun acc p => acc + ((p.1 : Int) + 1) * (2 * p.2 + 1) * 7919) ((id : Int) * 1000003)

/-- the object holding the mutable variables: a `RegularizedGaussian` defers to its `_gaussian` -/
def St.slotHolder (s : St) (a : Nat) : Nat :=
  match s.cls a, s.get a .gauss with
  | .reggauss, .ref g => g
  | _, _ => a

def St.condVars (s : St) (a : Nat) : List Nat := condVarsOfSlots (slotsOf (s.obj (s.slotHolder a)))

/-- `Density.name`: a conditioned copy reports the name of its original (originals are older
    than their copies, so the walk is on strictly decreasing addresses). -/
def St.nameOf (s : St) (a : Nat) : Val :=
  match s.get a .orig with
  | .ref o => if _h : o < a then St.nameOf s o else s.get a .name
  | _ => s.get a .name
termination_by a
decreasing_by exact _h

/-- name of any density: a likelihood reports the name of its distribution -/
def St.nameAny (s : St) (a : Nat) : Val :=
  match s.cls a, s.get a .distr with
  | .lik, .ref d => s.nameOf d
  | _, _ => s.nameOf a

def valNat : Val → Option Nat
  | .num v => if 0 ≤ v then some v.toNat else none
  | _ => none

/-- `get_parameter_names` of a density held by a joint -/
def St.parNamesDens (s : St) (a : Nat) : List Nat :=
  match s.cls a with
  | .lik => (match s.get a .distr with | .ref d => s.condVars d | _ => [])
  | .eval => []
  | _ => s.condVars a ++ (match valNat (s.nameOf a) with | some k => [k] | none => [])

/-- value of `_constant`: a scalar, or the content of the array object it refers to -/
def St.constOf (s : St) (a : Nat) : Int :=
  match s.get a .const with
  | .num c => c
  | .ref cell => (match s.get cell .cval with | .num v => v | _ => 0)
  | _ => 0

/-- is the value of `logd` of (fully specified) `a` an ndarray?  (family returns arrays, or `_constant` is one) -/
def St.arrTyped (s : St) (a : Nat) : Bool :=
  (s.get a .arrv == .num 1) || (match s.get a .const with | .ref _ => true | _ => false)

/-- signature of the log-density of a fully specified distribution at `x` (+ `_constant`) -/
def St.logdSig (s : St) (a : Nat) (x : Int) : Int :=
  let h := s.slotHolder a
  let base := (slotsOf (s.obj h)).foldl (fun acc v => match v with | .num c => acc * 31 + c | _ => acc * 31 + 7) x
  let fam := match s.get a .fam with | .num f => f | _ => 0
  base * 101 + fam + s.constOf a

/-! ### Lognormal: the shared `_Gaussian` is re-synchronised on every access of `_normal` -/

def St.resync (s : St) (a : Nat) : St :=
  match s.cls a, s.get a .cacheG with
  | .lognormal, .ref g =>
    let s1 := if s.get g .cmean = s.get a (.slot 0) then s else s.write g .cmean (s.get a (.slot 0))
    if s1.get g .ccov = s1.get a (.slot 1) then s1 else s1.write g .ccov (s1.get a (.slot 1))
  | _, _ => s

/-- what `Lognormal.pdf` reads: the shared Gaussian *after* re-synchronisation -/
def St.lognormalParams (s : St) (a : Nat) : Val × Val :=
  let s1 := s.resync a
  match s1.get a .cacheG with
  | .ref g => (s1.get g .cmean, s1.get g .ccov)
  | _ => (.none, .none)

/-! ### RegularizedGaussian: `gaussian` getter pushes the outer `_name` onto the inner Gaussian -/

def St.syncInner (s : St) (a : Nat) : St :=
  match s.cls a, s.get a .gauss, s.get a .name with
  | .reggauss, .ref g, .num k => s.write g .syncName (.num k)
  | _, _, _ => s

/-! ### `_make_copy`, `Distribution._condition`, `to_likelihood` -/

def St.makeCopy (s : St) (a : Nat) : St × Nat :=
  let (s1, b) := s.alloc (s.obj a)
  (s1.write b .orig (.ref a), b)

/-- one iteration of the loop over mutable variables: reads `self` (= `o`), writes the copy `b` -/
def condSlot (o : Obj) (kw : Kw) (s : St) (b : Nat) (i : Nat) : St :=
  match o.fld (.slot i) with
  | .unset k =>
    (match kwGet kw k with
     | some v => s.write b (.slot i) (.num v)
     | none => s)
  | .fn id free bound =>
    let matched := free.filter (kwHas kw)
    let args := matched.filterMap (fun k => (kwGet kw k).map (fun v => (k, v)))
    if matched.length = free.length then s.write b (.slot i) (.num (applyFn id (bound ++ args)))
    else if matched.length > 0 then s.write b (.slot i) (.fn id (free.filter (fun k => !kwHas kw k)) (bound ++ args))
    else s
  | _ => s

def condSlots (o : Obj) (kw : Kw) (s : St) (b : Nat) : St :=
  (List.range maxSlots).foldl (fun st i => condSlot o kw st b i) s

/-- `Distribution.to_likelihood(data)` on object `b` -/
def St.toLikelihood (s : St) (b : Nat) (data : Int) : St × Res :=
  if (s.condVars b).isEmpty then
    let (s1, e) := s.alloc (Obj.ofList .eval [(.name, s.nameOf b), (.const, .num 0), (.value, .num (s.logdSig b data)),
                                             (.arrv, .num (if s.arrTyped b then 1 else 0))])
    (s1, .obj e)
  else
    let (s1, l) := s.alloc (Obj.ofList .lik [(.distr, .ref b), (.data, .num data)])
    (s1, .obj l)

/-- The third mutable variable of a `Lognormal` is the property `_normal` (a property with a setter):
    its value is a Gaussian, which is *callable* with no non-default arguments, so the loop of
    `Distribution._condition` replaces it on the copy by `self._normal()` — the getter re-synchronises
    the receiver's shared Gaussian, calling it makes a conditioned copy of that Gaussian. -/
def St.condNormalSlot (s : St) (a b : Nat) : St :=
  match s.cls a, s.get a .cacheG with
  | .lognormal, .ref g =>
    let s1 := s.resync a
    let (s2, g') := s1.makeCopy g
    s2.write b .cacheG (.ref g')
  | _, _ => s

/-- `Distribution._condition(**kw)` for a plain distribution / Lognormal -/
def St.condDist (s : St) (a : Nat) (kw : Kw) : St × Res :=
  let o := s.obj a
  let cv := s.condVars a
  let (s1, b) := s.makeCopy a
  let s2 := (condSlots o kw s1 b).condNormalSlot a b
  let unused := kw.filter (fun p => !(cv.contains p.1))
  if unused.isEmpty then (s2, .obj b)
  else
    match valNat (s.nameOf a) with
    | some nm =>
      (match kwGet kw nm with
       | some data => s2.toLikelihood b data
       | none => (s2, .err))
    | none => (s2, .err)

/-- `RegularizedGaussian._condition(**kw)` -/
def St.condReg (s : St) (a : Nat) (kw : Kw) : St × Res :=
  match s.get a .gauss with
  | .ref g =>
    let nm := valNat (s.nameOf a)
    let (s1, b) := s.makeCopy a
    let value := match nm with | some k => kwGet kw k | none => none
    let kw' := match nm with | some k => kw.filter (fun p => p.1 ≠ k) | none => kw
    let s2 := s1.syncInner a
    match s2.condDist g kw' with
    | (s3, .obj g') =>
      let s4 := s3.write b .gauss (.ref g')
      (match value with
       | some data => s4.toLikelihood b data
       | none => (s4, .obj b))
    | (s3, _) => (s3, .err)
  | _ => (s, .err)

/-- `Likelihood._condition(**kw)` -/
def St.condLik (s : St) (a : Nat) (kw : Kw) : St × Res :=
  match s.get a .distr, s.get a .data with
  | .ref d, .num data =>
    let (s1, b) := s.alloc (s.obj a)
    (match (if s1.cls d = .reggauss then s1.condReg d kw else s1.condDist d kw) with
     | (s2, .obj d') =>
       if s2.cls d' = .lik ∨ s2.cls d' = .eval then (s2, .err)
       else
         let s3 := s2.write b .distr (.ref d')
         if (s3.condVars d').isEmpty then s3.toLikelihood d' data else (s3, .obj b)
     | (s2, _) => (s2, .err))
  | _, _ => (s, .err)

/-- conditioning of a density held by a joint (`density(**cond_kwargs)`) -/
def St.condDens (s : St) (a : Nat) (kw : Kw) : St × Res :=
  match s.cls a with
  | .dist | .lognormal => s.condDist a kw
  | .reggauss => s.condReg a kw
  | .lik => s.condLik a kw
  | .eval => (s, .obj a)
  | _ => (s, .err)

def restrictKw (kw : Kw) (names : List Nat) : Kw := kw.filter (fun p => names.contains p.1)

/-- the loop `new_joint._densities[i] = density(**cond_kwargs)`; `pre` are the entries already
    replaced, the head of the third list is the entry being replaced -/
def condList (kw : Kw) (j : Nat) : St → List Nat → List Nat → St × Option (List Nat)
  | s, pre, [] => (s, some pre)
  | s, pre, d :: rest =>
    match s.condDens d (restrictKw kw (s.parNamesDens d)) with
    | (s1, .obj d') => condList kw j (s1.write j .dens (.refs (pre ++ d' :: rest))) (pre ++ [d']) rest
    | (s1, _) => (s1, none)

def sameSet (a b : List Nat) : Bool := a.all (fun x => b.contains x) && b.all (fun x => a.contains x)

def St.sumEvals (s : St) (ds : List Nat) : Int :=
  ds.foldl (fun acc d => if s.cls d = .eval then
      acc + (match s.get d .value with | .num v => v | _ => 0) + (match s.get d .const with | .num c => c | _ => 0)
    else acc) 0

/-- `sum([density.logd() for density in evaluated])` is an ndarray iff one of the terms is -/
def St.sumEvalsArr (s : St) (ds : List Nat) : Bool := ds.any (fun d => s.cls d = .eval && s.get d .arrv == .num 1)

def St.hasEvals (s : St) (ds : List Nat) : Bool := ds.any (fun d => s.cls d = .eval)

/-- `density._constant += x` (Python semantics of `+=`).
    * `_constant` is a Python / NumPy *scalar*: a new object is bound on `d` — a new ndarray when
      `x` is one, a scalar otherwise;
    * `_constant` is an *ndarray*: `ndarray.__iadd__` adds IN PLACE into the array object — which a
      shallow copy shares with the density it was copied from — and re-binds the same object.
      (`x = sum([]) = 0` when there is no evaluated density: the bytes do not change; no write.) -/
def St.addConst (s : St) (d : Nat) (ds : List Nat) : St :=
  match s.get d .const with
  | .ref cell =>
    let s1 := if s.hasEvals ds then s.write cell .cval (.num (s.constOf d + s.sumEvals ds)) else s
    s1.write d .const (.ref cell)
  | _ =>
    if s.sumEvalsArr ds then
      let (s1, cell) := s.alloc (Obj.ofList .arr [(.cval, .num (s.constOf d + s.sumEvals ds))])
      s1.write d .const (.ref cell)
    else s.write d .const (.num (s.constOf d + s.sumEvals ds))

/-- `_reduce_to_single_density` (with `_add_constants_to_density`) of the new joint `j` whose
    densities are `ds` -/
def St.reduce (s : St) (j : Nat) (ds : List Nat) : St × Res :=
  let dists := ds.filter (fun d => (s.cls d).isDist)
  let liks := ds.filter (fun d => s.cls d = .lik)
  match dists, liks with
  | _ :: _ :: _, _ => (s, .obj j)
  | [_], _ :: _ :: _ =>
    let (s1, m) := s.alloc (Obj.ofList .mlp [(.dens, .refs ds)])
    (s1, .obj m)
  | [d], [l] =>
    if sameSet (s.parNamesDens l) (s.parNamesDens d) then
      let (s1, p) := s.alloc (Obj.ofList .post [(.lik, .ref l), (.prior, .ref d), (.const, .num 0)])
      (s1.addConst p ds, .obj p)
    else (s, .obj j)
  | [d], [] => (s.addConst d ds, .obj d)
  | [], [l] => (s, .obj l)
  | [], _ => (s, .obj j)

/-- `JointDistribution._condition(**kw)` -/
def St.condJoint (s : St) (a : Nat) (kw : Kw) : St × Res :=
  match s.get a .dens with
  | .refs ds =>
    let (s1, j) := s.alloc (s.obj a)
    let s2 := s1.write j .dens (.refs ds)
    (match condList kw j s2 [] ds with
     | (s3, some ds') => s3.reduce j ds'
     | (s3, none) => (s3, .err))
  | _ => (s, .err)

/-- `Posterior()` — `Distribution._condition` finds the callables `likelihood` and `prior`
    (no non-default arguments) and replaces them on the copy by `likelihood()` / `prior()` -/
def St.condPost (s : St) (a : Nat) (kw : Kw) : St × Res :=
  match kw, s.get a .lik, s.get a .prior with
  | [], .ref l, .ref p =>
    let (s1, b) := s.makeCopy a
    (match s1.condLik l [] with
     | (s2, .obj l') =>
       let s3 := s2.write b .lik (.ref l')
       (match s3.condDens p [] with
        | (s4, .obj p') => (s4.write b .prior (.ref p'), .obj b)
        | (s4, _) => (s4, .err))
     | (s2, _) => (s2, .err))
  | _, _, _ => (s, .err)

/-- `obj(**kw)` for any density / joint -/
def St.condAny (s : St) (a : Nat) (kw : Kw) : St × Res :=
  match s.cls a with
  | .joint | .mlp => s.condJoint a kw
  | .post => s.condPost a kw
  | .dist | .lognormal | .reggauss | .lik | .eval => s.condDens a kw
  | _ => (s, .err)

/-! ### evaluation -/

/-- `Distribution.logd(**kw)` -/
def St.logdDist (s : St) (a : Nat) (kw : Kw) : St × Res :=
  let cv := s.condVars a
  match valNat (s.nameOf a) with
  | none => (s, .err)
  | some nm =>
    if ¬ sameSet (cv ++ [nm]) (kw.map (·.1)) then (s, .err)
    else match kwGet kw nm with
      | none => (s, .err)
      | some x =>
        if cv.isEmpty then
          let s1 := s.resync a
          (s1, .val (s1.logdSig a x))
        else
          match (if s.cls a = .reggauss then s.condReg a (restrictKw kw cv) else s.condDist a (restrictKw kw cv)) with
          | (s1, .obj b) =>
            let s2 := s1.resync b
            (s2, .val (s2.logdSig b x))
          | (s1, _) => (s1, .err)

/-- `Likelihood.logd(**kw)` = `self.distribution(*args).logd(self.data)` -/
def St.logdLik (s : St) (a : Nat) (kw : Kw) : St × Res :=
  match s.get a .distr, s.get a .data with
  | .ref d, .num data =>
    if ¬ sameSet (s.condVars d) (kw.map (·.1)) then (s, .err)
    else match (if s.cls d = .reggauss then s.condReg d kw else s.condDist d kw) with
      | (s1, .obj b) =>
        let s2 := s1.resync b
        (s2, .val (s2.logdSig b data))
      | (s1, _) => (s1, .err)
  | _, _ => (s, .err)

def St.logdDens (s : St) (a : Nat) (kw : Kw) : St × Res :=
  match s.cls a with
  | .dist | .lognormal | .reggauss => s.logdDist a kw
  | .lik => s.logdLik a kw
  | .eval => (match kw, s.get a .value with
              | [], .num v => (s, .val (v + s.constOf a))
              | _, _ => (s, .err))
  | _ => (s, .err)

/-- the loop of `JointDistribution.logd` -/
def logdList (kw : Kw) : St → Int → List Nat → St × Res
  | s, acc, [] => (s, .val acc)
  | s, acc, d :: rest =>
    match s.logdDens d (restrictKw kw (s.parNamesDens d)) with
    | (s1, .val v) => logdList kw s1 (acc + v) rest
    | (s1, _) => (s1, .err)

def St.jointParNames (s : St) (ds : List Nat) : List Nat :=
  (ds.filter (fun d => (s.cls d).isDist)).filterMap (fun d => valNat (s.nameOf d))

def St.logdJoint (s : St) (a : Nat) (kw : Kw) : St × Res :=
  match s.get a .dens with
  | .refs ds =>
    if ¬ sameSet (s.jointParNames ds) (kw.map (·.1)) then (s, .err) else logdList kw s 0 ds
  | _ => (s, .err)

/-- `Posterior.logd(x)` = likelihood.logd(x) + prior.logd(x) + `_constant` -/
def St.logdPost (s : St) (a : Nat) (kw : Kw) : St × Res :=
  match s.get a .lik, s.get a .prior with
  | .ref l, .ref p =>
    (match s.logdLik l kw with
     | (s1, .val v1) =>
       (match s1.logdDist p kw with
        | (s2, .val v2) => (s2, .val (v1 + v2 + s2.constOf a))
        | (s2, _) => (s2, .err))
     | (s1, _) => (s1, .err))
  | _, _ => (s, .err)

def St.logdAny (s : St) (a : Nat) (kw : Kw) : St × Res :=
  match s.cls a with
  | .joint | .mlp => s.logdJoint a kw
  | .post => s.logdPost a kw
  | .dist | .lognormal | .reggauss | .lik | .eval => s.logdDens a kw
  | _ => (s, .err)

/-- `gradient` / `sample`: no allocation; a Lognormal re-synchronises its shared Gaussian, a
    likelihood / posterior reaches the Lognormal it holds. -/
def St.touch (s : St) (a : Nat) : St :=
  match s.cls a with
  | .lognormal => s.resync a
  | .reggauss => s.syncInner a
  | .lik => (match s.get a .distr with | .ref d => (s.resync d).syncInner d | _ => s)
  | .post => (match s.get a .lik, s.get a .prior with
              | .ref l, .ref p =>
                let s1 := (match s.get l .distr with | .ref d => (s.resync d).syncInner d | _ => s)
                (s1.resync p).syncInner p
              | _, _ => s)
  | _ => s

def St.gradAny (s : St) (a : Nat) : St × Res :=
  match s.cls a with
  | .dist | .lognormal | .reggauss => if (s.condVars a).isEmpty then (s.touch a, .unit) else (s, .err)
  | .lik | .post => (s.touch a, .unit)
  | _ => (s, .err)

def St.sampleAny (s : St) (a : Nat) : St × Res :=
  match s.cls a with
  | .dist | .lognormal => if (s.condVars a).isEmpty then (s.touch a, .unit) else (s, .err)
  | _ => (s, .err)

/-- user-level `dist.to_likelihood(data)`: the likelihood *shares* the distribution -/
def St.toLikAny (s : St) (a : Nat) (data : Int) : St × Res :=
  match s.cls a with
  | .dist | .lognormal | .reggauss => s.toLikelihood a data
  | _ => (s, .err)

/-- `model(dist)`: a copy of the model whose argument is renamed to the distribution's name -/
def St.applyModel (s : St) (m : Nat) (d : Nat) : St × Res :=
  match s.cls m, (s.cls d).isDist, valNat (s.nameOf d) with
  | .model, true, some nm =>
    let (s1, b) := s.alloc (s.obj m)
    (s1.write b .args (.ids [nm]), .obj b)
  | _, _, _ => (s, .err)

/-- `JointDistribution(*densities)`: unique names, every parameter has a distribution -/
def St.mkJoint (s : St) (ds : List Nat) : St × Res :=
  let okCls := ds.all (fun d => match s.cls d with | .dist | .lognormal | .reggauss | .lik | .eval => true | _ => false)
  let names := ds.filterMap (fun d => valNat (s.nameAny d))
  let distNames := s.jointParNames ds
  let unique := names.length = ds.length ∧ names.eraseDups.length = names.length
  let closed := ds.all (fun d => (s.parNamesDens d).all (fun k => distNames.contains k))
  if okCls ∧ unique ∧ closed then
    let (s1, j) := s.alloc (Obj.ofList .joint [(.dens, .refs ds)])
    (s1, .obj j)
  else (s, .err)

/-! ### programs -/

inductive Op
  | cond (a : Nat) (kw : Kw)
  | logd (a : Nat) (kw : Kw)
  | grad (a : Nat)
  | sample (a : Nat)
  | tolik (a : Nat) (data : Int)
  | apply (m : Nat) (d : Nat)
  | mkjoint (ds : List Nat)
  deriving Repr

def St.run (s : St) : Op → St × Res
  | .cond a kw => s.condAny a kw
  | .logd a kw => s.logdAny a kw
  | .grad a => s.gradAny a
  | .sample a => s.sampleAny a
  | .tolik a data => s.toLikAny a data
  | .apply m d => s.applyModel m d
  | .mkjoint ds => s.mkJoint ds

def St.runAll (s : St) : List Op → St
  | [] => s
  | op :: ops => (s.run op).1.runAll ops

/-- The conditioning stream of Gibbs sampling on target `t` with parameters `pars`: in every
    sweep, for every parameter, `t(**others)`; `vals k i` is the current value of parameter `i`
    in sweep `k` (arbitrary). -/
def gibbsOps (t : Nat) (pars : List Nat) (vals : Nat → Nat → Int) : Nat → List Op
  | 0 => []
  | k + 1 => gibbsOps t pars vals k ++ pars.map (fun p => Op.cond t ((pars.filter (· ≠ p)).map (fun q => (q, vals k q))))

/-! ### fingerprint: the observable part of the object graph reachable from an address -/

inductive Tree
  | leaf (v : Val)
  | opaque (a : Nat)
  | node (c : Cls) (kids : List Tree)
  | list (kids : List Tree)
  deriving Repr

def Tree.kids : Tree → List Tree
  | .node _ k => k
  | .list k => k
  | _ => []

def Tree.leafVal : Tree → Option Val
  | .leaf v => some v
  | _ => none

def fpFields : List Fld :=
  [.fam, .name, .const, .orig, .geom, .slot 0, .slot 1, .slot 2, .slot 3, .distr, .data, .value, .dens, .lik, .prior,
   .gauss, .args, .arrv]

/-- Fingerprint of object `a` as of watermark `n` (objects allocated at or after `n` are opaque —
    none is reachable through non-benign fields from an object older than `n` unless an old
    object was written to, which is what the frame theorems exclude). -/
def fp (n : Nat) : Nat → St → Nat → Tree
  | 0, _, a => .opaque a
  | fuel + 1, s, a =>
    if a < n then
      .node (s.cls a) (fpFields.map (fun f =>
        match s.get a f with
        | .ref b => fp n fuel s b
        | .refs bs => .list (bs.map (fun b => fp n fuel s b))
        | v => .leaf v))
    else .opaque a

partial def Tree.toString : Tree → String
  | .leaf v => reprStr v
  | .opaque a => s!"@{a}"
  | .node c kids => c.letter ++ "(" ++ ",".intercalate (kids.map Tree.toString) ++ ")"
  | .list kids => "[" ++ ",".intercalate (kids.map Tree.toString) ++ "]"

/-- escaping non-benign writes of the log segment added since `log0`, relative to watermark `n` -/
def escapes (n : Nat) (s : St) (len0 : Nat) : List (Nat × Fld) :=
  ((s.log.take (s.log.length - len0)).filter (fun w => w.1 < n && !w.2.benign)).reverse

/-- the full fingerprint additionally reads the content of array-typed constants -/
def constContent (s : St) (a : Nat) : Val :=
  match s.get a .const with
  | .ref cell => s.get cell .cval
  | v => v

def benignEscapes (n : Nat) (s : St) (len0 : Nat) : List (Nat × Fld) :=
  ((s.log.take (s.log.length - len0)).filter (fun w => w.1 < n && w.2.benign)).reverse

end CuqiVerif.C11
