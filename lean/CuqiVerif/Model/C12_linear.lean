/-
  C12 model, session-3 extension — the `LinearModel` object (`cuqi/model/_model.py` l. 539–631):
  `adjoint`, `__matmul__`, `get_matrix` (with its cache `_matrix`) and the property `T`.

  `Model/C12.lean` already has the two constructors as `ModelObj` values (`linearFromMatrix`,
  `linearFromFuncs`) — enough for `forward` and `gradient`.  What a `LinearModel` has in addition is
  state (`_matrix`, filled by `get_matrix`) and two more ways to apply it (`adjoint`, `@`), and `T`,
  which builds a *new* `LinearModel` whose two callables are the BOUND METHODS `self.adjoint` and
  `self.forward` — i.e. callables that convert representations themselves.  All of that is
  transcribed here on top of the definitions of `Model/C12.lean` (`applyFunc`, `forward`,
  `gradientOne`), so the geometry conversions of the transposed model are *computed*, not assumed.

  Import-free apart from `Model/C12.lean`; executable (`Driver/C12.lean`, op `lin`).
-/
import CuqiVerif.Model.C12

namespace CuqiVerif.C12

/-- `vars(model)` of a `LinearModel` on lists of numbers: `_forward_func`, `_adjoint_func`, the two
    geometries, `_non_default_args`, and `_matrix` (`none` = `None`; dense rows otherwise — a matrix
    passed to the constructor, or the sparse matrix assembled by `get_matrix`). -/
structure LinObj (K : Type) where
  fwd : Val (List K) → Except Err (Val (List K))
  adj : Val (List K) → Except Err (Val (List K))
  R : Geom (List K)
  D : Geom (List K)
  args : List String
  matrix : Option (List (List K))

section linobj
variable {K : Type} [Add K] [Mul K] [OfNat K 0] [OfNat K 1]

/-- The `Model` part of the object (what `forward` / `gradient` of the base class see):
    `_gradient_func = lambda direction, wrt: self._adjoint_func(direction)`. -/
def LinObj.toModel (m : LinObj K) : ModelObj (List K) (List K) :=
  { forwardFunc := m.fwd
    gradientFunc := some (fun d _ => m.adj d)
    rangeGeom := m.R, domainGeom := m.D, nonDefaultArgs := m.args
    extra := [("_adjoint_func", 1), ("_matrix", if m.matrix.isSome then 2 else 0)] }

/-- `LinearModel(A, range_geometry=R, domain_geometry=D)` for a dense matrix (`At` = `A.T`):
    `forward_func = lambda x: self._matrix@x`, `adjoint_func = lambda y: self._matrix.T@y`
    (numpy hands the subclass of the vector down through `@`). -/
def LinObj.ofMatrix (A At : List (List K)) (R D : Geom (List K)) : LinObj K :=
  { fwd := fun v => pure (lift1 true (mulVec A) v)
    adj := fun v => pure (lift1 true (mulVec At) v)
    R := R, D := D, args := ["x"], matrix := some A }

/-- `LinearModel(forward, adjoint, R, D)` from callables. -/
def LinObj.ofFuncs (fwd adj : Val (List K) → Except Err (Val (List K))) (R D : Geom (List K))
    (argName : String) : LinObj K :=
  { fwd := fwd, adj := adj, R := R, D := D, args := [argName], matrix := none }

/-- `LinearModel.forward` (inherited): argument parsing + `_apply_func`. -/
def LinObj.forward (m : LinObj K) (nPos : Nat) (kw : List String) (x : Input (List K)) (isPar : Bool) :
    Except Err (Output (List K)) :=
  C12.forward m.toModel nPos kw (.data x) isPar >>= fun r =>
  match r with
  | .data y => pure y
  | .model _ => throw Err.typeError        -- unreachable: the argument is data

/-- `LinearModel.adjoint(y, is_par)` = `_apply_func(_adjoint_func, domain_geometry, range_geometry, y, is_par)`:
    the roles of the two geometries are swapped. -/
def LinObj.adjoint (m : LinObj K) (y : Input (List K)) (isPar : Bool) : Except Err (Output (List K)) :=
  applyFunc m.adj m.D m.R y isPar

/-- `LinearModel.__matmul__`: `self.forward(x)` — one positional argument, `is_par` left at `True`. -/
def LinObj.matmul (m : LinObj K) (x : Input (List K)) : Except Err (Output (List K)) :=
  m.forward 1 [] x true

/-- `LinearModel.gradient` (inherited). -/
def LinObj.gradient (m : LinObj K) (dir wrt : GArg (List K)) (isDirPar isWrtPar : Bool) :
    Option (Except Err (Val (List K))) :=
  C12.gradient m.toModel dir wrt isDirPar isWrtPar

/-- the unit vector `e` of `get_matrix` with `e[i] = 1` -/
def unitVec (n i : Nat) : List K := (List.range n).map (fun j => if j = i then 1 else 0)

/-- transposition of a list of `n`-vectors given as rows into `n` rows (`hstack` of columns) -/
def colsToRows (n : Nat) (cols : List (List K)) : List (List K) :=
  (List.range n).map (fun i => cols.map (fun c => c.getD i 0))

/-- one column of `get_matrix`: `col_vec = self.forward(e)`; `hstack((mat, col_vec[:,None]))` refuses
    (`ValueError`) a column whose length is not `range_dim` -/
def LinObj.matrixColumn (m : LinObj K) (i : Nat) : Except Err (List K) :=
  m.forward 1 [] (.one (Val.plain (unitVec m.D.parDim i))) true >>= fun out =>
  match out with
  | .one v => if v.data.length = m.R.parDim then pure v.data else throw Err.valueError
  | .samples _ _ => throw Err.typeError    -- unreachable: the argument is an array

/-- `LinearModel.get_matrix()`: the stored matrix if there is one; otherwise the columns
    `forward(e_i)`, `i < domain_dim` — parameter vectors in, parameter vectors out, i.e. *through both
    geometries* — stacked, stored in `_matrix` and returned.  Returns the matrix and the object
    afterwards. -/
def LinObj.getMatrix (m : LinObj K) : Except Err (List (List K) × LinObj K) :=
  match m.matrix with
  | some M => pure (M, m)
  | none =>
    (List.range m.D.parDim).mapM m.matrixColumn >>= fun cols =>
    let M := colsToRows m.R.parDim cols
    pure (M, { m with matrix := some M })

/-- what `self.adjoint` is as a callable handed to another `LinearModel` (called with one array and
    `is_par` left at its default `True`) -/
def LinObj.adjointBound (m : LinObj K) (v : Val (List K)) : Except Err (Val (List K)) :=
  applyOne m.adj m.D m.R v true

/-- what `self.forward` is as a callable (one positional array, `is_par=True`) -/
def LinObj.forwardBound (m : LinObj K) (v : Val (List K)) : Except Err (Val (List K)) :=
  m.forward 1 [] (.one v) true >>= fun out =>
  match out with
  | .one p => pure p
  | .samples _ _ => throw Err.typeError    -- unreachable

/-- matrix transpose of `_matrix` (number of columns read off the first row) -/
def transposeRows (M : List (List K)) : List (List K) := colsToRows (M.headD []).length M

/-- `LinearModel.T`:
    `transpose = LinearModel(self.adjoint, self.forward, self.domain_geometry, self.range_geometry)`
    and, if a matrix is stored, `transpose._matrix = self._matrix.T`.  The new object's callables are
    bound methods of the old one (they convert on their own), its argument name is that of
    `adjoint`'s signature (`y`), the geometries change roles. -/
def LinObj.T (m : LinObj K) : LinObj K :=
  { fwd := m.adjointBound
    adj := m.forwardBound
    R := m.D, D := m.R, args := ["y"]
    matrix := m.matrix.map transposeRows }

/-- One step of a call history on one object: the only call of the class that changes the object
    is `get_matrix` (it fills the cache); a failing `get_matrix` leaves it unchanged. -/
def LinObj.afterGetMatrix (m : LinObj K) : LinObj K :=
  match m.getMatrix with
  | .ok (_, m') => m'
  | .error _ => m

end linobj

end CuqiVerif.C12
