/-
  C19 model, part 2 — the code of `cuqi/samples/_samples.py` *around* the core of `Model/C19.lean`:

  * `Samples.__init__` and the `is_vec` setter (l. 40-44, 89-93): the only validation the class has;
    `is_par`, `samples`, `geometry` are plain attributes (re-assignment is not validated).
  * `Samples._sub_samples(indices)` (l. 46-55): numpy integer / integer-list indexing of the sample
    axis (negative indices wrap, out of range ⇒ `IndexError`), `np.newaxis` for a single number, a
    *new* object through the constructor (so the `is_vec` validation runs again).
  * `Samples.__iter__` (l. 57-64), `Samples.shape` (l. 66-69).
  * `Samples._select_random_indices(number, total)` (l. 720-728): all indices if `total <= number`,
    else the sorted random draw (the draw `np.random.choice(total, number, replace=False)` is leaf data).
  * `_process_is_par_kwarg` (l. 200-207), `_convert_to_funvals_if_needed` (l. 209-215) and what
    `plot`, `plot_mean/median/variance/ci_width` hand to `geometry.plot` (l. 275-345, 393-413).
  * `to_arviz_inferencedata(variable_indices)` with *python integers* as indices (negative wrap; the
    names are indexed against `len(geometry.variables)`, the rows against `samples.shape[0]`).
  * `compute_rhat(chains)` (l. 790-826) with the argument normalisation (`Samples` ⇒ `[chains]`,
    anything but a list ⇒ `TypeError`) and numpy's assignment broadcasting in
    `samples[:, i+1, :] = chain.samples` (a chain of shape `(d,1)`, `(1,N)`, `(1,1)`, `(N,)`, `(1,)`,
    or with extra leading unit axes, is silently broadcast; anything else ⇒ `ValueError`).

  Import-free (core Lean + `Model/C19.lean`), total, executable.
-/
import CuqiVerif.Model.C19
namespace CuqiVerif.C19

/-! ## numpy integer indexing of one axis -/

/-- position selected by the python integer `k` on an axis of length `n`:
    `0 ≤ k < n` ↦ `k`, `-n ≤ k < 0` ↦ `k + n`, else `IndexError` (`none`) -/
def normIndex (n : Nat) (k : Int) : Option Nat :=
  if 0 ≤ k ∧ k < (n : Int) then some k.toNat
  else if -(n : Int) ≤ k ∧ k < 0 then some (k + (n : Int)).toNat
  else none

/-- the `indices` argument of `_sub_samples`: one python/numpy integer (a `numbers.Number`), or a
    list / 1-D integer array / range of them -/
inductive SubIdx
  | num (k : Int)
  | list (ks : List Int)

namespace Samples

/-- `Samples(samples, geometry, is_par, is_vec)`: the attributes are assigned in the order geometry,
    is_par, samples, is_vec and the `is_vec` setter raises `ValueError("Cannot set is_vec to False
    when is_par is True")`. -/
def init (cols : List (List Rat)) (shape : List Nat) (geom : Geometry) (isPar isVec : Bool) :
    Except String Samples :=
  if isPar && !isVec then .error "ValueError"
  else .ok { cols := cols, shape := shape, geom := geom, isPar := isPar, isVec := isVec }

/-- `S.is_vec = v` (property setter, validated) -/
def setIsVec (s : Samples) (v : Bool) : Except String Samples :=
  if s.isPar && !v then .error "ValueError" else .ok { s with isVec := v }

/-- `S.is_par = v` (plain attribute: nothing is validated) -/
def setIsPar (s : Samples) (v : Bool) : Samples := { s with isPar := v }

/-- `S.samples = array` (plain attribute) -/
def setSamples (s : Samples) (cols : List (List Rat)) (shape : List Nat) : Samples :=
  { s with cols := cols, shape := shape }

/-- the representation invariant the constructor establishes: parameters are in vector form -/
def flagsOk (s : Samples) : Bool := !s.isPar || s.isVec

/-- `Samples._sub_samples(indices)`: `self.samples[..., indices]` (`[..., np.newaxis]` for a number),
    then `Samples(sub, geometry=self.geometry, is_par=self.is_par, is_vec=self.is_vec)`. -/
def subSamples (s : Samples) : SubIdx → Except String Samples
  | .num k =>
    match normIndex s.Ns k with
    | none => .error "IndexError"
    | some i => init [s.cols.getD i []] s.shape s.geom s.isPar s.isVec
  | .list ks =>
    match ks.mapM (normIndex s.Ns) with
    | none => .error "IndexError"
    | some is => init (is.map (fun i => s.cols.getD i [])) s.shape s.geom s.isPar s.isVec

/-- `for x in S` (array-valued samples): `samples[..., i]` for `i = 0 … Ns-1` -/
def iter (s : Samples) : List (List Rat) := (List.range s.Ns).map (fun i => s.cols.getD i [])

/-- `S.shape` = `samples.shape` -/
def fullShape (s : Samples) : List Nat := s.shape ++ [s.Ns]

end Samples

/-- `_select_random_indices(number, total)`: `np.arange(total)` if `total <= number`, else the random
    draw of `number` distinct indices below `total` (leaf data), sorted. -/
def selectIndices (number total : Nat) (draw : List Nat) : List Nat :=
  if total ≤ number then List.range total else draw.mergeSort (fun a b => decide (a ≤ b))

/-- what `np.random.choice(total, number, replace=False)` may return -/
def validDraw (number total : Nat) (draw : List Nat) : Bool :=
  decide (draw.length = number) && draw.all (fun i => decide (i < total)) &&
    draw.all (fun i => decide (draw.count i = 1))

/-! ## the plotting glue: what reaches `geometry.plot` -/

namespace Samples

/-- `_process_is_par_kwarg`: a user-supplied `is_par` keyword is refused -/
def processIsParKwarg (userKw : List String) : Except String Unit :=
  if userKw.contains "is_par" then .error "ValueError" else .ok ()

/-- `_convert_to_funvals_if_needed(value)`: `vec2fun(value)` for vector-form function values -/
def convertToFunvalsIfNeeded (s : Samples) (v : List Rat) : Except String (List Rat) :=
  if !s.isPar && s.isVec then s.geom.vec2fun v else .ok v

/-- `plot_mean / plot_median / plot_variance / plot_ci_width`: the value and the `is_par` keyword
    handed to `geometry.plot` (`f` is the per-chain statistic). -/
def plotStat (s : Samples) (f : List Rat → Rat) (userKw : List String) :
    Except String (List Rat × Bool) := do
  processIsParKwarg userKw
  let v ← s.convertToFunvalsIfNeeded (s.stat f)
  pure (v, s.isPar)

/-- `plot_ci_width(percent)`: the same with `ci_width(percent)` (which may refuse the level) -/
def plotCiWidth (s : Samples) (p : Rat) (userKw : List String) :
    Except String (List Rat × Bool) := do
  processIsParKwarg userKw
  let w ← s.ciWidth p
  let v ← s.convertToFunvalsIfNeeded w
  pure (v, s.isPar)

/-- `plot(sample_indices)`: the samples (sample-major) and the `is_par` keyword handed to
    `geometry.plot`.  `idx = none`: `_select_random_indices(5, Ns)` with the given random draw. -/
def plotArg (s : Samples) (idx : Option SubIdx) (draw : List Nat) (userKw : List String) :
    Except String (List (List Rat) × Bool) := do
  processIsParKwarg userKw
  let ix : SubIdx := match idx with
    | some i => i
    | none => .list ((selectIndices 5 s.Ns draw).map (fun (i : Nat) => Int.ofNat i))
  let sub ← s.subSamples ix
  if !s.isPar && s.isVec then do
    let fv ← sub.funvals
    pure (fv.cols, s.isPar)
  else pure (sub.cols, s.isPar)

/-! ## `to_arviz_inferencedata` with python integers as indices -/

/-- `variables[variable_indices]` wraps against the number of names, `samples[variable_indices, :]`
    against the number of rows; either may raise `IndexError`. -/
def toArvizI (s : Samples) (idx : Option (List Int)) : Except String (List (String × List Rat)) :=
  if !s.isVec then .error "ValueError"
  else match idx with
    | none => s.toArviz none
    | some ks =>
      match ks.mapM (normIndex s.geom.varNames.length), ks.mapM (normIndex s.dim) with
      | some ni, some ri =>
        .ok (dictOfZip (ni.map (fun i => s.geom.varNames.getD i "")) (ri.map s.chain))
      | _, _ => .error "IndexError"

/-! ## `compute_rhat`: argument normalisation and numpy assignment broadcasting -/

end Samples

/-- the `chains` argument of `compute_rhat` -/
inductive ChainsArg
  | single (c : Samples)        -- a Samples object: put into a list
  | list (cs : List Samples)
  | other                       -- tuple, generator, dict, … : `TypeError("Chains needs to be a list")`

/-- strip leading unit axes while more than two axes remain -/
def stripLeadingOnes : List Nat → List Nat
  | 1 :: rest => if rest.length ≥ 2 then stripLeadingOnes rest else 1 :: rest
  | l => l

/-- can an array of shape `src` be assigned to a slot of shape `(d, N)`?  (numpy assignment
    broadcasting: leading unit axes are dropped, the remaining ≤ 2 axes are right-aligned and must
    equal the target extent or be 1) -/
def broadcastsTo (src : List Nat) (d N : Nat) : Bool :=
  match stripLeadingOnes src with
  | [] => true
  | [n] => n == N || n == 1
  | [r, n] => (r == d || r == 1) && (n == N || n == 1)
  | _ => false

namespace Samples

/-- row `k` of `chain.samples` after broadcasting to `(d, N)` -/
def bchain (c : Samples) (d N k : Nat) : List Rat :=
  (List.range N).map (fun i =>
    (c.cols.getD (if c.Ns = N then i else 0) []).getD (if c.dim = d then k else 0) 0)

/-- `compute_rhat(chains)` with a list of chains: as `rhatInput`, but the stacking
    `samples[:, i+1, :] = chain.samples` follows numpy (broadcast or `ValueError`). -/
def rhatInputB (s : Samples) (chains : List Samples) :
    Except String (List (String × List (List Rat)) × List (Option Nat)) :=
  if chains.any (fun c => c.geom.tag != s.geom.tag) then .error "TypeError"
  else if s.shape.length != 1 then .error "TypeError"
  else if chains.any (fun c => !broadcastsTo c.fullShape s.dim s.Ns) then .error "ValueError"
  else
    let rows := (List.range s.dim).map (fun k => s.chain k :: chains.map (fun c => c.bchain s.dim s.Ns k))
    let dict := dictOfZip s.geom.varNames rows
    let outLen := s.geometryDim
    if dict.length > outLen then .error "IndexError"
    else .ok (dict, (List.range outLen).map (fun i => if i < dict.length then some i else none))

/-- `compute_rhat(chains)` for every kind of argument -/
def rhatInputA (s : Samples) : ChainsArg → Except String (List (String × List (List Rat)) × List (Option Nat))
  | .single c => s.rhatInputB [c]
  | .list cs => s.rhatInputB cs
  | .other => .error "TypeError"

end Samples

end CuqiVerif.C19
