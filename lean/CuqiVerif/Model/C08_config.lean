/-
  C08 model, part 6 — argument validation of the experimental NUTS (`max_depth`, `step_size`, `opt_acc_rate`
  setters of `cuqi/experimental/mcmc/_hmc.py`) and the `adapt_step_size` dispatch of the legacy `_sample`
  (`cuqi/sampler/_hmc.py`), over a classification of the Python values a caller can pass.

  Python facts used: `bool` is a subclass of `int`; `numbers.Number` contains bool, int, float (NaN and ±inf
  included), numpy integers/floats, complex; numpy integers are NOT `int`; `nan <= 0`, `nan >= 1` are False;
  comparing a complex number with `<=` raises TypeError; `1 == True`, `1.0 == True`, `0 == False`, `0.0 == False`,
  `True is True` only for the bool object.
  Import-free, executable.
-/
namespace CuqiVerif.C08

inductive PyVal where
  | none
  | bool (b : Bool)
  | int (n : Int)          -- Python int
  | npint (n : Int)        -- numpy integer (a Number, not an `int`)
  | float (q : Rat)        -- finite float / numpy float
  | nan | pinf | ninf
  | complex                -- a complex number
  | str                    -- anything that is not a Number (str, list, …)
  deriving Repr, BEq, DecidableEq

inductive Verdict (α : Type) where
  | ok (v : α)
  | typeError
  | valueError
  deriving Repr, BEq, DecidableEq

/-- numeric value as an extended rational for the comparisons `<= 0`, `>= 1`, `< 0` (bool: True = 1, False = 0) -/
inductive Num where
  | fin (q : Rat) | nan | pinf | ninf
  deriving Repr, BEq, DecidableEq

def PyVal.num : PyVal → Option Num
  | .bool b => some (.fin (if b then 1 else 0))
  | .int n => some (.fin n)
  | .npint n => some (.fin n)
  | .float q => some (.fin q)
  | .nan => some .nan
  | .pinf => some .pinf
  | .ninf => some .ninf
  | _ => Option.none

def Num.le0 : Num → Bool
  | .fin q => decide (q ≤ 0) | .nan => false | .pinf => false | .ninf => true
def Num.ge1 : Num → Bool
  | .fin q => decide (q ≥ 1) | .nan => false | .pinf => true | .ninf => false

/-- `max_depth` setter: `None → 15`; `not isinstance(value, int) → TypeError`; `value < 0 → ValueError` -/
def setMaxDepth : PyVal → Verdict Int
  | .none => .ok 15
  | .bool b => .ok (if b then 1 else 0)
  | .int n => if n < 0 then .valueError else .ok n
  | _ => .typeError

/-- `step_size` setter: `None` passes; `isinstance(value, bool) or not isinstance(value, Number) or value <= 0 → TypeError`
    (for a complex value the comparison itself raises TypeError) -/
def setStepSize : PyVal → Verdict PyVal
  | .none => .ok .none
  | .bool _ => .typeError
  | .str => .typeError
  | .complex => .typeError
  | v => match v.num with
    | some n => if n.le0 then .typeError else .ok v
    | Option.none => .typeError

/-- `opt_acc_rate` setter: `not isinstance(value, Number) or value <= 0 or value >= 1 → ValueError`
    (complex: the comparison raises TypeError) -/
def setOptAcc : PyVal → Verdict PyVal
  | .none => .valueError
  | .str => .valueError
  | .complex => .typeError
  | v => match v.num with
    | some n => if n.le0 || n.ge1 then .valueError else .ok v
    | Option.none => .valueError

/-- how the legacy `_sample(N, Nb)` treats `adapt_step_size` -/
inductive LegacyMode where
  | valueError                -- `adapt_step_size is True and Nb == 0`
  | adaptive                  -- `== True`: `_FindGoodEpsilon` + dual averaging during burn-in
  | findOnly                  -- `== False`: `_FindGoodEpsilon`, no adaptation
  | fixed (v : PyVal)         -- anything else is taken as the step size, unvalidated
  deriving Repr, BEq, DecidableEq

def eqTrue : PyVal → Bool
  | .bool b => b
  | .int n => n == 1 | .npint n => n == 1 | .float q => q == 1
  | _ => false
def eqFalse : PyVal → Bool
  | .bool b => !b
  | .int n => n == 0 | .npint n => n == 0 | .float q => q == 0
  | _ => false

def legacyMode (a : PyVal) (nb : Nat) : LegacyMode :=
  if a = .bool true ∧ nb = 0 then .valueError
  else if eqTrue a then .adaptive
  else if eqFalse a then .findOnly
  else .fixed a

end CuqiVerif.C08
