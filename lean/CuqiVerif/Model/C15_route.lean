import CuqiVerif.Model.C15
/-
  C15 model, part 5 — the decision table of `BayesianProblem.MAP` / `ML` / `_solve_max_point`
  (cuqi/problem/_problem.py l.201-294, l.747-790) in full: which route, which solver class, whether a gradient
  function is handed over, which start point, what is printed (`disp`), which exceptions of the two gradient
  *probes* propagate, and the `info["solver"]` label.  Refines `mapRoute` / `mlRoute` of part 1 (there the two
  probes were one flag and exceptions other than NotImplementedError/AttributeError were not represented).
-/
namespace CuqiVerif.C15

/-- outcome of a probe call `density.gradient(point)` inside `try … except (NotImplementedError, AttributeError)` -/
inductive Probe | ok | notImplemented | attributeError
  /-- any other exception: not caught, propagates out of `MAP`/`ML` -/
  | other
  deriving DecidableEq, Repr

def Probe.caught : Probe → Bool
  | .notImplemented => true | .attributeError => true | _ => false

inductive Estimate | map | ml deriving DecidableEq, Repr

structure CallInputs where
  which : Estimate
  disp : Bool
  /-- the caller passed `x0` -/
  userX0 : Bool
  /-- `density.gradient(x0)` (l.768) at the *start point* (user's `x0` or ones); density = posterior (MAP) / likelihood (ML) -/
  probeStart : Probe
  /-- `posterior.posterior.gradient(np.zeros(dim))` inside `_check_posterior(self, CMRF, must_have_gradient=True)` (l.776, l.836-841):
      evaluated whatever the prior is (no short-circuit), always on the *posterior* -/
  probeZeros : Probe
  deriving Repr

inductive SolverClass | lbfgsb | minimize deriving DecidableEq, Repr

structure CallOutcome where
  /-- `none`: closed form -/
  solver : Option SolverClass
  /-- `gradfunc is not None` -/
  hasGrad : Bool
  /-- the start point handed to the solver is the caller's `x0` (else `np.ones(domain_dim)`) -/
  startIsUser : Bool
  /-- `info["solver"]` of the returned array -/
  label : String
  /-- the geometry of the returned CUQIarray: `posterior.geometry` (MAP) / `likelihood.geometry` (ML) -/
  geomOfPosterior : Bool
  /-- lines printed (empty lines dropped) -/
  printed : List String
  deriving Repr

def banner : List String :=
  ["!!!!!!!!!!!!!!!!!!!!!!!!!!!!!!!!!!!!!!!!!!!!!!!!!!!!!!!!",
   "!!! Automatic solver selection is a work-in-progress !!!",
   "!!!      Always validate the computed results.       !!!",
   "!!!!!!!!!!!!!!!!!!!!!!!!!!!!!!!!!!!!!!!!!!!!!!!!!!!!!!!!"]

def densityName : Estimate → String
  | .map => "Posterior" | .ml => "Likelihood"

/-- `_solve_max_point(density, disp, x0)` (l.747-790); `none` = an exception of a probe propagates -/
def solveMaxPoint (p : Problem) (c : CallInputs) : Option CallOutcome :=
  if c.probeStart = .other then none          -- l.768 raises something not caught
  else
    let hasGrad := c.probeStart = .ok
    let l1 := if hasGrad then "Optimizing with exact gradients" else "Optimizing with approximate gradients."
    if c.probeZeros = .other then none         -- l.776 → l.838 raises something not caught
    else
      let useLB := p.prior == .cmrf && c.probeZeros = .ok
      let nm := if useLB then "L_BFGS_B" else "minimize"
      let l2 := s!"Using scipy.optimize.{nm} on negative log of {densityName c.which}"
      some { solver := some (if useLB then .lbfgsb else .minimize), hasGrad := hasGrad, startIsUser := c.userX0,
             label := "L-BFGS-B",                -- l.788: set whichever solver ran
             geomOfPosterior := c.which = .map,
             printed := if c.disp then [l1, l2, "x0: ones vector"] else [] }   -- "x0: ones vector" also for a user x0

/-- `MAP(disp, x0)` / `ML(disp, x0)` -/
def estimateCall (p : Problem) (c : CallInputs) : Option CallOutcome :=
  let head := if c.disp then banner else []
  match c.which with
  | .ml => (solveMaxPoint p c).map fun o => { o with printed := head ++ o.printed }
  | .map =>
    if p.directOk then
      some { solver := none, hasGrad := false, startIsUser := false, label := "direct", geomOfPosterior := true,
             printed := head ++ (if c.disp then
               [s!"Using direct MAP of Gaussian posterior. Only works for small-scale problems with dim<={p.maxDimInv}."] else []) }
    else (solveMaxPoint p c).map fun o => { o with printed := head ++ o.printed }

end CuqiVerif.C15
