/-
  C07 model — `cuqi.model.LinearModel` (forward / adjoint / get_matrix / T and the geometry
  wrapping of `Model._apply_func`), the linear geometries of `cuqi/geometry/_geometry.py`, and the
  forward operators of the linear test problems of `cuqi/testproblem/_testproblem.py`
  (`Deconvolution1D`, `Deconvolution2D`, `Abel1D`).  Import-free and executable.

  Numbers live in an arbitrary carrier `R` (the driver runs `R = Rat`; the theorems of
  `Props/C07.lean` are stated for every commutative ring / field and therefore cover the very
  definitions that are executed).  A matrix is a shape and an entry function; `apply` reads only
  the entries inside the shape.

  Conventions.  A "function value" of a geometry is represented by its C-order flattening
  (`numpy.ravel()`), so `par2fun` of a geometry is a `funDim × parDim` matrix `E` and `fun2par` a
  `parDim × funDim` matrix `F`.  The model transcribes the code *including its defects*:
  `adjoint` is `F_D ∘ B ∘ E_R` (not the transpose of `F_R ∘ A ∘ E_D`), `get_matrix` of a
  matrix-backed model is the stored matrix whatever the geometries are, `T` wraps the *bound*
  methods `adjoint`/`forward` and therefore applies every geometry map twice, `Deconvolution1D`
  stores `A[i,:] = conv(e_i)`, `_proj_backward_2D` only flips the PSF.
-/
namespace CuqiVerif.C07

/-! ## sums, matrices, vectors -/

/-- `Σ_{k<n} f k` -/
def sumTo {R : Type} [Zero R] [Add R] : Nat → (Nat → R) → R
  | 0, _ => 0
  | n + 1, f => sumTo n f + f n

/-- A matrix: shape and entry function (entries outside the shape are never read by `apply`). -/
structure LMat (R : Type) where
  rows : Nat
  cols : Nat
  e : Nat → Nat → R

section core
variable {R : Type} [Zero R] [One R] [Add R] [Mul R]

/-- matrix–vector product; a vector is a function `Nat → R` of which the first `cols` entries are read -/
def LMat.apply (M : LMat R) (x : Nat → R) : Nat → R :=
  fun i => sumTo M.cols (fun j => M.e i j * x j)

def LMat.mul (A B : LMat R) : LMat R where
  rows := A.rows
  cols := B.cols
  e := fun i j => sumTo A.cols (fun k => A.e i k * B.e k j)

def LMat.transpose (A : LMat R) : LMat R where
  rows := A.cols
  cols := A.rows
  e := fun i j => A.e j i

def LMat.identity (n : Nat) : LMat R where
  rows := n
  cols := n
  e := fun i j => if i = j then 1 else 0

/-- inner product of the first `n` entries -/
def ip (n : Nat) (x y : Nat → R) : R := sumTo n (fun i => x i * y i)

/-- unit vector `e_j` -/
def unit (j : Nat) : Nat → R := fun i => if i = j then 1 else 0

/-- Tabulate a matrix once (the entry function of the result is an array lookup, zero outside the
    shape).  `Props/C07.force_e`: entries inside the shape are unchanged. -/
def LMat.force (M : LMat R) : LMat R :=
  let t : Array (Array R) := Array.ofFn (n := M.rows) fun i => Array.ofFn (n := M.cols) fun j => M.e i.val j.val
  { rows := M.rows
    cols := M.cols
    e := fun i j => match t[i]? with
      | some r => (match r[j]? with | some v => v | none => 0)
      | none => 0 }

/-- `X · (Y · Z)` with both products tabulated — how the driver evaluates `F · A · E`
    (`Props/C07.mul3Forced_e`: same entries as `X.mul (Y.mul Z)` inside the shape). -/
def LMat.mul3Forced (X Y Z : LMat R) : LMat R := (X.mul (Y.mul Z).force).force

/-- Leaf data: a matrix given by its rows (zero outside the data). -/
def LMat.ofRows (rows cols : Nat) (a : Array (Array R)) : LMat R where
  rows := rows
  cols := cols
  e := fun i j => match a[i]? with
    | some r => (match r[j]? with | some v => v | none => 0)
    | none => 0

def LMat.toList (M : LMat R) : List (List R) :=
  (List.range M.rows).map (fun i => (List.range M.cols).map (fun j => M.e i j))

/-- matrix whose columns are the images of the unit vectors under `f` (what `get_matrix` assembles) -/
def columnsOf (rows cols : Nat) (f : (Nat → R) → Nat → R) : LMat R where
  rows := rows
  cols := cols
  e := fun i j => f (unit j) i

end core

/-! ## geometries (`cuqi/geometry/_geometry.py`) -/

/-- A linear geometry: `E` = `par2fun`, `F` = `fun2par` on C-order flattened function values.
    `reshapeLike`: the two maps only change the *shape* of the array (`Continuous1D`, `Discrete`,
    `_DefaultGeometry1D`: identity; `Image2D`, `Continuous2D`: `reshape`/`ravel`), so applying
    `par2fun` to something that already is a function value (or `fun2par` to a parameter vector) is
    a no-op; for the expansion geometries a second application applies the map again and raises
    when the sizes differ (`_reshape_par2fun_input`). -/
structure Geom (R : Type) where
  parDim : Nat
  funDim : Nat
  E : LMat R
  F : LMat R
  reshapeLike : Bool
  /-- `fun2par` ends in `.squeeze()` (`Continuous2D`, `StepExpansion`, `KLExpansion`): a single
      parameter comes back as a 0-d array, on which `get_matrix` (`col_vec[:,None]`) raises -/
  squeezes : Bool

section geoms
variable {R : Type} [Zero R] [One R] [Add R] [Mul R]

/-- `Continuous1D(n)`, `Discrete(n)`, `_DefaultGeometry1D(n)`, `Image2D(visual_only=True)`:
    `par2fun` is `Geometry.par2fun` (returns its argument), `fun2par` returns its argument. -/
def Geom.ident (n : Nat) : Geom R where
  parDim := n
  funDim := n
  E := LMat.identity n
  F := LMat.identity n
  reshapeLike := true
  squeezes := false

/-- position in the C-order flattening of the `r × c` image of parameter number `p`:
    order `C`: `reshape(im_shape, order='C')` — the same position;
    order `F`: `image[i, j] = par[i + j*r]`, i.e. `i = p % r`, `j = p / r`, position `i*c + j`. -/
def imagePos (r c : Nat) (orderF : Bool) (p : Nat) : Nat :=
  if orderF then (p % r) * c + p / r else p

/-- `Image2D((r, c), order)` (and `Continuous2D`, `_DefaultGeometry2D` with order `C`):
    `par2fun = vectors.reshape(im_shape, order)`, `fun2par = funvals.ravel(order)`. -/
def Geom.image (r c : Nat) (orderF : Bool) (squeezes : Bool := false) : Geom R where
  parDim := r * c
  funDim := r * c
  E := { rows := r * c, cols := r * c, e := fun q p => if q = imagePos r c orderF p then 1 else 0 }
  F := { rows := r * c, cols := r * c, e := fun p q => if q = imagePos r c orderF p then 1 else 0 }
  reshapeLike := true
  squeezes := squeezes

/-- `StepExpansion.__init__` on a regular grid of `n` nodes `x0 + k·h`: node `k` belongs to step `i`
    iff `x0 + i·L/s < x_k ≤ x0 + (i+1)·L/s` (`≥` at the left end of step 0), `L = (n-1)·h`; in exact
    arithmetic this is `i·(n-1) < k·s ≤ (i+1)·(n-1)`, independent of `x0`, `h`. -/
def inStep (n s i k : Nat) : Bool :=
  if i = 0 then k * s ≤ n - 1 else i * (n - 1) < k * s && k * s ≤ (i + 1) * (n - 1)

/-- number of grid nodes of step `i` -/
def stepCount (n s i : Nat) : Nat := sumTo n (fun k => if inStep n s i k then 1 else 0)

/-- `StepExpansion(grid, n_steps=s)` with the default `fun2par_projection='mean'`:
    `par2fun`: `fun[indices[i]] = p[i]`; `fun2par`: `par[i] = mean(f[indices[i]])`. -/
def Geom.step [Div R] [NatCast R] (n s : Nat) : Geom R where
  parDim := s
  funDim := n
  E := { rows := n, cols := s, e := fun k i => if inStep n s i k then 1 else 0 }
  F := { rows := s, cols := n, e := fun i k => if inStep n s i k then 1 / (stepCount n s i : R) else 0 }
  reshapeLike := false
  squeezes := true

/-- a linear expansion given by leaf matrices (KL expansion: DST matrices measured on the implementation) -/
def Geom.leaf (parDim funDim : Nat) (E F : LMat R) (squeezes : Bool) : Geom R where
  parDim := parDim
  funDim := funDim
  E := E
  F := F
  reshapeLike := false
  squeezes := squeezes

/-- Can `par2fun`/`fun2par` be applied a second time without numpy raising on the shape? -/
def Geom.reOk (g : Geom R) : Bool := g.reshapeLike || g.parDim == g.funDim

/-- `par2fun` applied to an array that already is a function value (what `T` does; needs `reOk`). -/
def Geom.reE (g : Geom R) (v : Nat → R) : Nat → R := if g.reshapeLike then v else g.E.apply v

/-- `fun2par` applied to an array that already is a parameter vector (what `T` does; needs `reOk`). -/
def Geom.reF (g : Geom R) (v : Nat → R) : Nat → R := if g.reshapeLike then v else g.F.apply v

end geoms

/-! ## `LinearModel` (`cuqi/model/_model.py`) -/

/-- `A` = `_forward_func`, `B` = `_adjoint_func` as matrices on function values.  For a
    matrix-backed model the constructor sets `B = Aᵀ` (`lambda y: self._matrix.T@y`). -/
structure LinModel (R : Type) where
  A : LMat R
  B : LMat R
  dom : Geom R
  rng : Geom R
  matrixBacked : Bool

section linmodel
variable {R : Type} [Zero R] [One R] [Add R] [Mul R]

def LinModel.ofMatrix (A : LMat R) (dom rng : Geom R) : LinModel R :=
  { A := A, B := A.transpose, dom := dom, rng := rng, matrixBacked := true }

/-- `LinearModel.forward(x)` on parameters: `_2par(func(_2fun(x, domain)), range)`. -/
def LinModel.fwdPar (M : LinModel R) (x : Nat → R) : Nat → R :=
  M.rng.F.apply (M.A.apply (M.dom.E.apply x))

/-- `LinearModel.adjoint(y)` on parameters: `_apply_func(_adjoint_func, domain_geometry, range_geometry, y)`. -/
def LinModel.adjPar (M : LinModel R) (y : Nat → R) : Nat → R :=
  M.dom.F.apply (M.B.apply (M.rng.E.apply y))

/-- the parameter-to-parameter forward map as one matrix `F_R · A · E_D` -/
def LinModel.fwdMat (M : LinModel R) : LMat R := M.rng.F.mul (M.A.mul M.dom.E)

/-- the parameter-to-parameter adjoint map as one matrix `F_D · B · E_R` -/
def LinModel.adjMat (M : LinModel R) : LMat R := M.dom.F.mul (M.B.mul M.rng.E)

/-- `get_matrix()`: the stored matrix if there is one, else `hstack` of `forward(e_i)`. -/
def LinModel.getMatrix (M : LinModel R) : LMat R :=
  if M.matrixBacked then M.A else columnsOf M.rng.parDim M.dom.parDim M.fwdPar

/-- `get_matrix()` of a function-backed model raises (`IndexError`) when `forward` returns a 0-d array -/
def LinModel.getMatrixOk (M : LinModel R) : Bool :=
  M.matrixBacked || !(M.rng.squeezes && M.rng.parDim == 1)

/-- the same for `M.T.get_matrix()` (whose range geometry is `M`'s domain geometry) -/
def LinModel.tGetMatrixOk (M : LinModel R) : Bool :=
  M.matrixBacked || !(M.dom.squeezes && M.dom.parDim == 1)

/-- numpy raises in `self._matrix@x` / the functions when the sizes do not fit -/
def LinModel.shapesOk (M : LinModel R) : Bool :=
  M.A.cols == M.dom.funDim && M.A.rows == M.rng.funDim &&
  M.B.cols == M.rng.funDim && M.B.rows == M.dom.funDim &&
  M.dom.E.rows == M.dom.funDim && M.dom.E.cols == M.dom.parDim &&
  M.rng.E.rows == M.rng.funDim && M.rng.E.cols == M.rng.parDim

/-- `M.T` can be evaluated without a shape error iff both geometries tolerate the double application -/
def LinModel.tOk (M : LinModel R) : Bool := M.rng.reOk && M.dom.reOk

/-- `M.T.forward(y)`: `T = LinearModel(self.adjoint, self.forward, domain_geometry, range_geometry)`,
    so `T.forward(y) = D.fun2par( self.adjoint( R.par2fun(y) ) )` where the bound method
    `self.adjoint` itself applies `R.par2fun` and `D.fun2par` again. -/
def LinModel.tFwdPar (M : LinModel R) (y : Nat → R) : Nat → R :=
  M.dom.reF (M.dom.F.apply (M.B.apply (M.rng.reE (M.rng.E.apply y))))

/-- `M.T.adjoint(x)` likewise through the bound `self.forward`. -/
def LinModel.tAdjPar (M : LinModel R) (x : Nat → R) : Nat → R :=
  M.rng.reF (M.rng.F.apply (M.A.apply (M.dom.reE (M.dom.E.apply x))))

/-- `M.T.get_matrix()`: `transpose._matrix = self._matrix.T` when the matrix exists, else columns of `T.forward` -/
def LinModel.tGetMatrix (M : LinModel R) : LMat R :=
  if M.matrixBacked then M.A.transpose else columnsOf M.dom.parDim M.rng.parDim M.tFwdPar

/-- Input representations.  `forward`/`adjoint` accept a plain array, a `CUQIarray` in parameter
    representation, a `CUQIarray` flagged as function values, or `Samples` (iterated column by
    column); `_2fun` uses `x.funvals` when the array carries the geometry it is expected on, and `_2par`
    converts the operator output with the model's RANGE geometry unless that output is a `CUQIarray`
    whose geometry *equals* it (full equality) — so `fwdPar` / `adjPar` are the maps for every
    representation.  For `M.T` a geometry-tagged `CUQIarray` is recognised by the inner bound method as
    "already a function value" / "already parameters", i.e. the second application of the geometry
    maps is skipped and `T` is the plain swap; `Samples` are iterated as plain vectors (`tFwdPar`). -/
def LinModel.tFwdParTagged (M : LinModel R) (y : Nat → R) : Nat → R := M.adjPar y

/-- `M.T.adjoint` on a geometry-tagged `CUQIarray` -/
def LinModel.tAdjParTagged (M : LinModel R) (x : Nat → R) : Nat → R := M.fwdPar x

/-- matrix of the second application of `par2fun` -/
def Geom.reEMat (g : Geom R) : LMat R := if g.reshapeLike then LMat.identity g.funDim else g.E

/-- matrix of the second application of `fun2par` -/
def Geom.reFMat (g : Geom R) : LMat R := if g.reshapeLike then LMat.identity g.parDim else g.F

/-- `M.T.forward` as one matrix -/
def LinModel.tFwdMat (M : LinModel R) : LMat R :=
  M.dom.reFMat.mul (M.dom.F.mul (M.B.mul (M.rng.reEMat.mul M.rng.E)))

/-- `M.T.adjoint` as one matrix -/
def LinModel.tAdjMat (M : LinModel R) : LMat R :=
  M.rng.reFMat.mul (M.rng.F.mul (M.A.mul (M.dom.reEMat.mul M.dom.E)))

end linmodel

/-! ## convolution operators (`cuqi/testproblem/_testproblem.py`) -/

/-- boundary extension rules, `scipy.ndimage` names -/
inductive Ext | constant | wrap | nearest | reflect | mirror
  deriving DecidableEq, Repr

/-- the index of the signal (length `n`) read at extended position `t` (`none`: the value 0):
    `constant`: outside = 0; `wrap`: periodic; `nearest`: clamp; `reflect`: `d c b a | a b c d | d c b a`
    (numpy `symmetric`); `mirror`: `d c b | a b c d | c b a` (numpy `reflect`). -/
def extPos (m : Ext) (n : Nat) (t : Int) : Option Int :=
  match m with
  | .constant => if 0 ≤ t ∧ t < n then some t else none
  | .wrap => some (t % (n : Int))
  | .nearest => some (if t < 0 then 0 else if t ≥ n then (n : Int) - 1 else t)
  | .reflect => let p := t % (2 * (n : Int)); some (if p < n then p else 2 * (n : Int) - 1 - p)
  | .mirror =>
      if n = 1 then some 0 else
      let p := t % (2 * (n : Int) - 2); some (if p < n then p else 2 * (n : Int) - 2 - p)

section conv
variable {R : Type} [Zero R] [One R] [Add R] [Mul R]

/-- 1 if extended position `t` reads entry `w`, else 0 -/
def hit (m : Ext) (n : Nat) (t : Int) (w : Nat) : R :=
  if extPos m n t = some (w : Int) then 1 else 0

/-- `scipy.ndimage.convolve1d(x, P, mode)` as a matrix (`s = len(P)`; scipy shifts the origin by one
    for even `s`): `out[u] = Σ_a P[a] · ext[u + s/2 − a]`. -/
def conv1 (m : Ext) (s : Nat) (P : Nat → R) (n : Nat) : LMat R where
  rows := n
  cols := n
  e := fun u w => sumTo s (fun a => P a * hit m n ((u : Int) + (s / 2 : Nat) - (a : Int)) w)

/-- `Deconvolution1D`: `A = np.array([Afun(Id[:, i]) for i in range(dim)])` — ROW `i` is `conv(e_i)`. -/
def deconv1dMatrix (m : Ext) (s : Nat) (P : Nat → R) (n : Nat) : LMat R where
  rows := n
  cols := n
  e := fun i j => (conv1 m s P n).apply (unit i) j

/-- `_proj_forward_2D(X, P, BC)` for a square `s × s` PSF on an `n × n` image, as a matrix on C-order
    flattened images: `np.pad(X, s//2, mode)`, `fftconvolve(·, P, 'valid')`, and for even `s` the first
    row and column are dropped: `out[u,v] = Σ_{a,b} P[a,b] · ext[u + s/2 − a, v + s/2 − b]`
    (numpy pads the two axes independently). -/
def conv2 (m : Ext) (s : Nat) (P : Nat → Nat → R) (n : Nat) : LMat R where
  rows := n * n
  cols := n * n
  e := fun i j => sumTo s (fun a => sumTo s (fun b =>
    P a b * (hit m n (((i / n : Nat) : Int) + (s / 2 : Nat) - (a : Int)) (j / n)
           * hit m n (((i % n : Nat) : Int) + (s / 2 : Nat) - (b : Int)) (j % n))))

/-- `np.flipud(np.fliplr(P))` -/
def flip2 (s : Nat) (P : Nat → Nat → R) : Nat → Nat → R := fun a b => P (s - 1 - a) (s - 1 - b)

/-- `Deconvolution2D`'s model: `LinearModel(λx. _proj_forward_2D(x,P,BC), λx. _proj_backward_2D(x,P,BC),
    Image2D((n,n)), Image2D((n,n)))`. -/
def deconv2dModel (m : Ext) (s : Nat) (P : Nat → Nat → R) (n : Nat) : LinModel R where
  A := conv2 m s P n
  B := conv2 m s (flip2 s P) n
  dom := Geom.image n n false
  rng := Geom.image n n false
  matrixBacked := false

end conv

/-- boundary-condition names accepted by `_getConvolutionOperator` (after `.lower()`); others raise -/
def bc1d : String → Option Ext
  | "zero" => some .constant | "periodic" => some .wrap | "mirror" => some .mirror
  | "reflect" => some .reflect | "nearest" => some .nearest | _ => none

/-- boundary-condition names accepted by `Deconvolution2D.__init__` (after `.lower()`) and the
    `np.pad` mode they select (`symmetric`→reflect, `constant`, `edge`→nearest, `reflect`→mirror, `wrap`). -/
def bc2d : String → Option Ext
  | "neumann" => some .reflect | "zero" => some .constant | "nearest" => some .nearest
  | "mirror" => some .mirror | "periodic" => some .wrap | _ => none

/-- `Abel1D`: `A[i,j] = h / sqrt(|s_i − t_j|)` where `t_j < s_i`, `t_j = h/2 + j·h`, `s_i = t_i + h/2`,
    `h = endpoint/N`; i.e. `j ≤ i` and `A[i,j]² = h / (i − j + 1/2)`.  The model carries the exact
    *square* of every entry (the entries are positive). -/
def abelSq (n : Nat) (endpoint : Rat) : LMat Rat where
  rows := n
  cols := n
  e := fun i j => if j ≤ i then (endpoint / (n : Rat)) / (((i - j : Nat) : Rat) + 1 / 2) else 0

end CuqiVerif.C07
