/-
  C19 model, part 3 — further index arguments of `Samples._sub_samples`, the `plot_ci` glue and
  per-member statistics of a JointSamples object (`cuqi/samples/_samples.py`).

  * `samples[..., indices]` for a `slice(start, stop, step)` (CPython `PySlice_AdjustIndices` with all
    three fields optional), a boolean mask (list / array of `Ns` booleans), a boolean *scalar*
    (`bool` is a `numbers.Number`: the code adds a second new axis), and a rectangular 2-D integer
    index list/array.  The result always goes through the constructor (`Samples.init`).
  * `plot_ci(percent, exact, plot_envelope_kwargs, **kwargs)` (l. 446-564): order of the checks and
    the sequence of `geometry.plot` / `geometry.plot_envelope` calls with what they are handed.
  * `JointSamples`: number of samples and statistics member by member (members may have different
    lengths).

  Import-free (core Lean + `Model/C19.lean`, `Model/C19_access.lean`), total, executable.
-/
import CuqiVerif.Model.C19_access
namespace CuqiVerif.C19

/-! ## `seq[start:stop:step]` with optional fields -/

/-- clamp of one slice field (`PySlice_AdjustIndices`): negative values count from the end, then
    clip to `[0, n]` (step > 0) or `[-1, n-1]` (step < 0) -/
def adjustField (n : Nat) (v : Int) (neg : Bool) : Int :=
  let v := if v < 0 then v + n else v
  if v < 0 then (if neg then -1 else 0)
  else if v ≥ n then (if neg then (n : Int) - 1 else n)
  else v

/-- indices selected by `[start:stop:step]` on a sequence of length `n`; `none` = `ValueError`
    (slice step cannot be zero) -/
def sliceIdx3 (n : Nat) (start stop step : Option Int) : Option (List Nat) :=
  let t := step.getD 1
  if t = 0 then none
  else if t > 0 then
    let a := match start with | none => 0 | some v => adjustField n v false
    let b := match stop with | none => (n : Int) | some v => adjustField n v false
    let cnt := if a < b then ((b - a - 1) / t + 1).toNat else 0
    some ((List.range cnt).map (fun (i : Nat) => (a + (i : Int) * t).toNat))
  else
    let a := match start with | none => (n : Int) - 1 | some v => adjustField n v true
    let b := match stop with | none => -1 | some v => adjustField n v true
    let cnt := if b < a then ((a - b - 1) / (-t) + 1).toNat else 0
    some ((List.range cnt).map (fun (i : Nat) => (a + (i : Int) * t).toNat))

/-- further kinds of the `indices` argument of `_sub_samples` -/
inductive SubIdx2
  | slice (start stop step : Option Int)
  | mask (m : List Bool)                 -- boolean list / 1-D boolean array
  | boolScalar (b : Bool)                -- `True` / `False` / `np.True_`
  | grid (rows : List (List Int))        -- rectangular 2-D integer list / array (≥ 1 row, ≥ 1 column)

namespace Samples

/-- transpose of the stored array read as coordinate-major: entry `k * Ns + i` = `samples[k, i]` -/
def flatCoordMajor (s : Samples) : List Rat :=
  (List.range s.dim).flatMap (fun k => s.chain k)

/-- `Samples._sub_samples(indices)` for the further index kinds -/
def subSamples2 (s : Samples) : SubIdx2 → Except String Samples
  | .slice a b t =>
    match sliceIdx3 s.Ns a b t with
    | none => .error "ValueError"
    | some is => init (is.map (fun i => s.cols.getD i [])) s.shape s.geom s.isPar s.isVec
  | .mask m =>
    -- (numpy accepts a boolean array of size 0 on an axis of any length: nothing is selected)
    if m.length ≠ s.Ns ∧ m ≠ [] then .error "IndexError"
    else init ((s.cols.zip m).filterMap (fun cb => if cb.2 then some cb.1 else none)) s.shape s.geom s.isPar s.isVec
  | .boolScalar b =>
    -- `a[..., True]` has shape `(..., Ns, 1)`, `a[..., False]` `(..., Ns, 0)`; a `bool` is a Number, so
    -- `[..., np.newaxis]` follows: ONE "sample" whose coordinates are the whole array (or nothing)
    init [if b then s.flatCoordMajor else []] (s.shape ++ [s.Ns, if b then 1 else 0]) s.geom s.isPar s.isVec
  | .grid rows =>
    match rows with
    | [] => .error "unsupported"
    | r0 :: _ =>
      if r0.isEmpty then .error "unsupported"
      else if rows.any (fun r => r.length ≠ r0.length) then .error "ValueError"   -- ragged: inhomogeneous array
      else
        match rows.mapM (fun r => r.mapM (normIndex s.Ns)) with
        | none => .error "IndexError"
        | some g =>
          -- result[k, r, c] = samples[k, g[r][c]]: sample axis = the columns of the index grid
          let newCols := (List.range r0.length).map (fun c =>
            (List.range s.dim).flatMap (fun k => g.map (fun row => (s.cols.getD (row.getD c 0) []).getD k 0)))
          init newCols (s.shape ++ [rows.length]) s.geom s.isPar s.isVec

end Samples

/-! ## `plot_ci` -/

/-- one call made by `plot_ci` on the geometry -/
inductive PlotCall
  | plot (v : List Rat) (isPar : Option Bool)            -- `geometry.plot(v, is_par=…)`; `none`: keyword absent
  | envelope (lo up : List Rat) (isPar plotPar : Bool)   -- `geometry.plot_envelope(lo, up, is_par=…, plot_par=…)`
  | exact (isPar plotPar : Bool)                         -- `geometry.plot(exact, is_par=…, plot_par=…)`
  deriving DecidableEq

namespace Samples

/-- `plot_ci(percent, exact, plot_envelope_kwargs=pe, **kwargs)`.
    `kwIsPar` / `peIsPar`: the user put `is_par` into kwargs / pe; `kwPlotPar` / `pePlotPar`: the
    user's `plot_par` there (if any); `geom2D`: `type(geometry) is Continuous2D or Image2D`. -/
def plotCi (s : Samples) (p : Rat) (hasExact kwIsPar peIsPar : Bool) (kwPlotPar pePlotPar : Option Bool)
    (geom2D : Bool) : Except String (List PlotCall) := do
  let (lo, up) ← s.computeCi p
  if kwIsPar || peIsPar then throw "ValueError"
  if !s.isPar && (kwPlotPar == some true || pePlotPar == some true) then throw "ValueError"
  let plotPar := kwPlotPar.getD false
  let (m, ip) ← s.plotStat mean []
  let ex := if hasExact then [PlotCall.exact s.isPar plotPar] else []
  if geom2D && !plotPar then
    pure ([.plot m (some ip)] ++ ex ++ [.plot (List.zipWith (· - ·) up lo) none, .plot up none, .plot lo none])
  else
    pure ([.envelope lo up s.isPar plotPar, .plot m (some ip)] ++ ex)

end Samples

/-! ## JointSamples member by member -/

/-- `{key: samples.Ns}` -/
def jointNs (js : List (String × Samples)) : List (String × Nat) := js.map (fun kv => (kv.1, kv.2.Ns))

/-- `{key: f(samples)}` for a per-coordinate statistic of each member's own chain -/
def jointStat (f : List Rat → Rat) (js : List (String × Samples)) : List (String × List Rat) :=
  js.map (fun kv => (kv.1, kv.2.stat f))

end CuqiVerif.C19
