/-
  C01 model, attribute level — what `Distribution._condition`, `get_conditioning_variables`,
  `get_indirect_variables`, `get_non_default_args`, `_parse_args_add_to_kwargs`, `to_likelihood`,
  `Distribution.logd`, `Likelihood._condition/_logd` (`cuqi/distribution/_distribution.py`,
  `cuqi/utilities/_utilities.py`, `cuqi/likelihood/_likelihood.py`) do with the *mutable variables*
  of ONE distribution.  Import-free (core Lean + `Model/C01`), executable.

  `Model/C01.lean` abstracts a distribution to `Factor` (ordered conditioning variables, an
  uninterpreted log-density of the values by name) and conditioning to `bindEnv`.  Here the state
  the code really keeps is modelled: the ordered list of mutable variables, each one

    * `val a`      a number / array (given at construction `const`, assigned through a keyword
                   `given v`, or the result `app f vals` of calling callable `f`),
    * `none`       Python `None`: the attribute's own name is a conditioning variable,
    * `fn f sig bound`  a callable with non-default arguments `sig`, some of them already bound by
                   `functools.partial` (`bound` = `partial.keywords`).

  The only normalisation: `partial.keywords` (a dict, passed on by keyword) is kept in signature
  order and a call `f(**kwargs)` is recorded as `app f (values in signature order)` — Python binds
  keyword arguments by name, the dict order is not observable by the callable.

  `Props/C01_attrs.lean` proves that on distributions without name collisions this refines
  `condDist` of `Model/C01.lean`, and gives the collision counterexample.
-/
import CuqiVerif.Model.C01

namespace CuqiVerif.C01

/-- value of a mutable variable that is a number / an array -/
inductive AVal (V : Type) where
  | const (tag : Nat)
  | given (v : V)
  | app (fn : Nat) (vals : List V)
  deriving DecidableEq, Repr

/-- state of one mutable variable -/
inductive Attr (V : Type) where
  | val (a : AVal V)
  | none
  | fn (id : Nat) (sig : List Name) (bound : Kw V)
  deriving DecidableEq, Repr

abbrev Attrs (V : Type) := List (Name × Attr V)

variable {V K : Type}

/-- `get_non_default_args(partial(f, **bound))`: the signature minus the bound keywords, in signature order -/
def remArgs (sig : List Name) (bound : Kw V) : List Name :=
  sig.filter (fun n => !(kwKeys bound).contains n)

/-- `get_non_default_args(value)` if `value` is callable, else nothing -/
def Attr.args : Attr V → List Name
  | .fn _ sig bound => remArgs sig bound
  | _ => []

def Attr.isNone : Attr V → Bool
  | .none => true
  | _ => false

/-- the loop `for key in keys: if key not in attributes: attributes.append(key)` -/
def dedupInto (acc : List Name) : List Name → List Name
  | [] => acc
  | k :: ks => if acc.contains k then dedupInto acc ks else dedupInto (acc ++ [k]) ks

/-- `[key for key in mutable_vars if getattr(self, key) is None]` -/
def noneVars (as : Attrs V) : List Name := (as.filter (fun ka => ka.2.isNone)).map (·.1)

/-- `get_indirect_variables(dist)` -/
def indirectVars (as : Attrs V) : List Name := dedupInto [] (as.flatMap (fun ka => ka.2.args))

/-- `Distribution.get_conditioning_variables()` (no de-duplication between the two parts, as in the code) -/
def acondVars (as : Attrs V) : List Name := noneVars as ++ indirectVars as

/-- a mapping name → value restricted to `sig`, listed in signature order -/
def canon (sig : List Name) (g : Name → Option V) : Kw V :=
  sig.filterMap (fun n => (g n).map (fun v => (n, v)))

/-- the loop of `Distribution._parse_args_add_to_kwargs` (keys are added one by one, each checked
    against the keywords collected so far) -/
def aparse : List Name → List V → Kw V → Except Err (Kw V)
  | _, [], kw => .ok kw
  | [], _ :: _, kw => .ok kw      -- `if index < len(ordered_keys)`: surplus positionals are dropped
  | k :: ks, a :: as, kw =>
    if (kwKeys kw).contains k then .error .value else aparse ks as (kw ++ [(k, a)])

/-- `Distribution._parse_args_add_to_kwargs(cond_vars, *args, **kwargs)` -/
def aparseDist (cv : List Name) (args : List V) (kw : Kw V) : Except Err (Kw V) :=
  if args.length > cv.length + 1 then .error .value else aparse (cv ++ [mainKey]) args kw

/-- one round of the loop `for var_key in mutable_vars` of `Distribution._condition`:
    new value of the attribute and the keywords it processed -/
def condAttr (kw : Kw V) (key : Name) (a : Attr V) : Attr V × List Name :=
  -- `if var_key in kwargs: setattr(new_dist, var_key, kwargs.get(var_key))`
  let direct : Attr V × List Name :=
    match kwGet kw key with
    | some v => (.val (.given v), [key])
    | none => (a, [])
  -- `var_val = getattr(self, var_key); if callable(var_val): ...`
  match a with
  | .fn id sig bound =>
    let accepted := remArgs sig bound
    let va := kw.filter (fun kv => accepted.contains kv.1)
    if va.length == accepted.length then
      (.val (.app id (sig.filterMap (kwGet (bound ++ va)))), direct.2 ++ kwKeys va)
    else if va.length > 0 then
      (.fn id sig (canon sig (kwGet (bound ++ va))), direct.2 ++ kwKeys va)
    else (direct.1, direct.2 ++ kwKeys va)
  | _ => direct

/-- a distribution: name, mutable variables in `get_mutable_variables()` order, the family's
    `logpdf` as an uninterpreted function of the evaluated attributes, `_constant` -/
structure ADist (V K : Type) where
  name : Name
  attrs : Attrs V
  pdf : List (Name × AVal V) → V → K
  c : K

/-- the attribute values when every mutable variable is a number / array -/
def avals : Attrs V → Option (List (Name × AVal V))
  | [] => some []
  | (k, .val a) :: r => (avals r).map (fun l => (k, a) :: l)
  | _ :: _ => none

/-- what a conditioning call on a distribution / likelihood returns -/
inductive ARes (V K : Type) where
  | dist (d : ADist V K)
  | lik (d : ADist V K) (data : V)
  | eval (name : Name) (v : K)

section
variable [Add K] [Zero K]

/-- `logpdf(x)`: the family formula needs numbers in every attribute (a callable or `None` left
    in an attribute makes the arithmetic raise) -/
def alogpdf (d : ADist V K) (x : V) : Except Err K :=
  match avals d.attrs with
  | some vs => .ok (d.pdf vs x)
  | none => .error .type

/-- `Distribution.to_likelihood(data)` -/
def atoLik (d : ADist V K) (data : V) : Except Err (ARes V K) :=
  if (acondVars d.attrs).isEmpty then
    match alogpdf d data with            -- `EvaluatedDensity(self.logd(data), name=self.name)`
    | .ok v => .ok (.eval d.name (v + d.c))
    | .error e => .error e
  else .ok (.lik d data)

/-- `Distribution._condition(*args, **kwargs)` -/
def acond (d : ADist V K) (args : List V) (kw : Kw V) : Except Err (ARes V K) :=
  let cv := acondVars d.attrs
  let mv := d.attrs.map (·.1)
  match aparseDist cv args kw with
  | .error e => .error e
  | .ok kw' =>
    -- "The mutable variable ... is not a conditioning variable of this distribution."
    if (kwKeys kw').any (fun k => mv.contains k && !cv.contains k) then .error .value
    else
      let res := d.attrs.map (fun ka => (ka.1, condAttr kw' ka.1 ka.2))
      let new : ADist V K := { d with attrs := res.map (fun kr => (kr.1, kr.2.1)) }
      let processed := res.flatMap (fun kr => kr.2.2)
      match kwGet kw' mainKey with
      | some x => atoLik new x
      | none =>
        let unused := (kwKeys kw').filter (fun k => !processed.contains k)
        if unused.isEmpty then .ok (.dist new)
        else match kwGet kw' d.name with
          | some x => atoLik new x
          | none =>
            -- KEYWORD ERROR CHECK
            if (kwKeys kw').any (fun k => !(mv ++ cv ++ [d.name]).contains k) then .error .value
            else .ok (.dist new)

/-- `Likelihood._condition(*args, **kwargs)` -/
def alikCond (d : ADist V K) (data : V) (args : List V) (kw : Kw V) : Except Err (ARes V K) :=
  match acond d args kw with
  | .error e => .error e
  | .ok (.dist d') => if (acondVars d'.attrs).isEmpty then atoLik d' data else .ok (.lik d' data)
  | .ok _ => .error .attr      -- `.is_cond` of a Likelihood / EvaluatedDensity

/-- `Density.logd` of a distribution without conditioning variables -/
def alogdPlain (d : ADist V K) (args : List V) (kw : Kw V) : Except Err K :=
  match front [d.name] args kw with
  | .error e => .error e
  | .ok [x] => (match alogpdf d x with | .ok v => .ok (v + d.c) | .error e => .error e)
  | .ok _ => .error .type

/-- `Distribution.logd(*args, **kwargs)`; `fuel` bounds the recursion `new_dist.logd(...)`, which
    the code enters once (the conditioned distribution has no conditioning variables left unless
    names collide) -/
def alogdN : Nat → ADist V K → List V → Kw V → Except Err K
  | 0, _, _, _ => .error .type
  | fuel + 1, d, args, kw =>
    let cv := acondVars d.attrs
    if cv.isEmpty then alogdPlain d args kw
    else
      match aparseDist cv args kw with
      | .error e => .error e
      | .ok kw' =>
        if kw'.length < cv.length + 1 then .error .value
        else if !(cv.all (fun p => (kwKeys kw').contains p)) then .error .value
        else
          -- `new_dist = self(**{key: kwargs[key] for key in cond_vars})`
          match acond d [] (canon cv (kwGet kw')) with
          | .error e => .error e
          | .ok (.dist nd) =>
            (match kwGet kw' mainKey with
             | some x => alogdN fuel nd [x] []
             | none => alogdN fuel nd [] (kw'.filter (fun kv => !cv.contains kv.1)))
          | .ok (.eval _ v) =>      -- `EvaluatedDensity.logd(...)` (a conditioning variable called like the distribution)
            (match kwGet kw' mainKey with
             | some _ => .error .type
             | none => if (kw'.filter (fun kv => !cv.contains kv.1)).isEmpty then .ok v else .error .value)
          | .ok (.lik ..) => .error .type

def alogd (d : ADist V K) (args : List V) (kw : Kw V) : Except Err K :=
  alogdN ((acondVars d.attrs).length + 2) d args kw

/-- `obj(*args, **kwargs)` -/
def ARes.cond : ARes V K → List V → Kw V → Except Err (ARes V K)
  | .dist d, args, kw => acond d args kw
  | .lik d data, args, kw => alikCond d data args kw
  | .eval n v, _, _ => .ok (.eval n v)

/-- `obj.logd(*args, **kwargs)`; likelihood: `Density.logd` with
    `_logd(*a) = self.distribution(*a).logd(self.data)`, `_constant = distribution._constant` -/
def ARes.logd : ARes V K → List V → Kw V → Except Err K
  | .dist d, args, kw => alogd d args kw
  | .eval _ v, args, kw => logdEval v 0 args kw
  | .lik d data, args, kw =>
    match front (acondVars d.attrs) args kw with
    | .error e => .error e
    | .ok a =>
      match acond d a [] with
      | .error e => .error e
      | .ok (.dist d') => (match alogd d' [data] [] with | .ok r => .ok (r + d.c) | .error e => .error e)
      | .ok (.eval _ v) => (match logdEval v 0 [data] [] with | .ok r => .ok (r + d.c) | .error e => .error e)
      | .ok (.lik ..) => .error .type

def ARes.kind : ARes V K → String
  | .dist _ => "Distribution"
  | .lik .. => "Likelihood"
  | .eval .. => "EvaluatedDensity"

/-- `get_parameter_names()` -/
def ARes.paramNames : ARes V K → List Name
  | .dist d => acondVars d.attrs ++ [d.name]
  | .lik d _ => acondVars d.attrs
  | .eval .. => []

end

end CuqiVerif.C01
