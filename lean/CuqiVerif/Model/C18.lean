/-
  C18 model — `cuqi/pde/_pde.py` (`PDE` grid setters, `LinearPDE._solve_linear_system`,
  `SteadyStateLinearPDE`, `TimeDependentLinearPDE`) and `cuqi.model.PDEModel`
  (`_forward_func`, `_gradient_func`).  Import-free and executable.

  Numbers live in an arbitrary carrier `R` (the driver runs `R = Rat`; the theorems of
  `Props/C18.lean` are stated for every commutative ring and therefore cover the very definitions
  that are executed).  A vector is a function `Nat → R` of which the first `n` entries are read, a
  square matrix a function `Nat → Nat → R`; every computed time level is stored as an array of
  length `n` (`tab`, read back with `rd`; `Proofs/C18.rd_tab`: the entries below `n` are unchanged).

  The model transcribes the code *including its oddities*:
  * `method` is validated with `.lower()` but stored and compared verbatim, so `'Forward_Euler'`
    passes the setter and `solve` then runs neither loop and dies on the unbound `info`;
  * backward Euler on a time grid with a single level dies on the unbound `info` too;
  * `observe` of the time-dependent class takes the no-interpolation branch iff the grids are
    flagged equal and *every* entry of `time_obs` equals the final time (`np.all(ts[-1:] == time_obs)`),
    which is also the case for `[T, T]` and for `[]`;
  * `_compare_grid` declares the grids equal when either is `None`;
  * the observation map is applied before the `squeeze()` that removes the time axis.
-/
namespace CuqiVerif.C18

/-! ## sums, vectors, matrices -/

/-- `Σ_{k<n} f k` -/
def sumTo {R : Type} [Zero R] [Add R] : Nat → (Nat → R) → R
  | 0, _ => 0
  | n + 1, f => sumTo n f + f n

abbrev Vec (R : Type) := Nat → R
abbrev Mat (R : Type) := Nat → Nat → R

/-- Python exception classes the modelled code raises. -/
inductive Err
  | notAssembled      -- `Exception("PDE is not assembled.")`
  | indexError        -- `returned_values[0]` of an empty tuple, `time_steps[0]` of an empty grid, `u[i]` out of range
  | unboundLocal      -- `return u, info` with `info` never assigned
  | valueError        -- setter / constructor refusals, interpolation of 2D/3D solutions, shape mismatch in `@`
  | notImplemented    -- `PDEModel._gradient_func` without gradient/Jacobian on the PDE
  | solverError       -- the user's `linalg_solve` raised (e.g. `LinAlgError` on a singular matrix)
  | interpError       -- scipy's interpolation routine refused its input
  deriving DecidableEq, Repr

def Err.toString : Err → String
  | .notAssembled => "Exception" | .indexError => "IndexError" | .unboundLocal => "UnboundLocalError"
  | .valueError => "ValueError" | .notImplemented => "NotImplementedError" | .solverError => "SolverError"
  | .interpError => "InterpError"

section alg
variable {R : Type} [Zero R] [One R] [Add R] [Sub R] [Mul R]

/-- `A @ x` for an `n × n` (or `· × n`) matrix -/
def mulVec (n : Nat) (A : Mat R) (x : Vec R) : Vec R := fun i => sumTo n fun j => A i j * x j

/-- `d @ J` for a direction of length `m` (vector–Jacobian product) -/
def vecMul (m : Nat) (d : Vec R) (J : Mat R) : Vec R := fun j => sumTo m fun i => d i * J i j

/-- `np.eye` -/
def eye : Mat R := fun i j => if i = j then 1 else 0

/-- tabulate the first `n` entries of a vector (a stored time level is an array, as in the code) -/
def tab (n : Nat) (v : Vec R) : Array R := Array.ofFn (n := n) fun k => v k.val

/-- read an array as a vector (zero outside) -/
def rd (a : Array R) : Vec R := fun i => match a[i]? with
  | some x => x
  | none => 0

end alg

/-! ## `LinearPDE._solve_linear_system` -/

/-- What a user-supplied `linalg_solve(A, b, **kwargs)` hands back. -/
inductive SolverRet (S I : Type)
  | plain (x : S)                       -- anything that is not a tuple: taken as the solution
  | tuple0                              -- the empty tuple
  | tuple (x : S) (extras : List I)     -- `(x, val1, val2, …)`
  | raised                              -- the solver raised

/-- `_solve_linear_system`: `solution, info` with `info = returned_values[1:]` for a tuple, `None` otherwise. -/
def unpack {S I : Type} : SolverRet S I → Except Err (S × Option (List I))
  | .plain x => .ok (x, none)
  | .tuple0 => .error .indexError
  | .tuple x ex => .ok (x, some ex)
  | .raised => .error .solverError

/-! ## `SteadyStateLinearPDE` -/

/-- what `PDE_form(parameter)` returns -/
structure SteadyForm (R : Type) where
  op : Mat R
  rhs : Vec R

/-- the object: its form, its solver, and the attributes `diff_op`, `rhs` (absent before `assemble`) -/
structure Steady (P R I : Type) where
  form : P → SteadyForm R
  solver : Mat R → Vec R → SolverRet (Vec R) I
  assembled : Option (SteadyForm R) := none

def Steady.assemble {P R I : Type} (s : Steady P R I) (p : P) : Steady P R I :=
  { s with assembled := some (s.form p) }

def Steady.solve {P R I : Type} (s : Steady P R I) : Except Err (Vec R × Option (List I)) :=
  match s.assembled with
  | none => .error .notAssembled
  | some f => unpack (s.solver f.op f.rhs)

/-! ## `TimeDependentLinearPDE` -/

/-- what `PDE_form(parameter, t)` returns -/
structure Form (R : Type) where
  op : Mat R
  src : Vec R
  ic : Vec R

/-- the stored `method` string as `solve` sees it -/
inductive Method
  | forward            -- exactly `'forward_euler'`
  | backward           -- exactly `'backward_euler'`
  | otherCase          -- accepted by the setter (`value.lower()` matches) but equal to neither literal
  deriving DecidableEq, Repr

/-- the `method` setter: `None` = `ValueError` -/
def Method.ofString (s : String) : Option Method :=
  if s = "forward_euler" then some .forward
  else if s = "backward_euler" then some .backward
  else if s.toLower = "forward_euler" ∨ s.toLower = "backward_euler" then some .otherCase
  else none

section time
variable {R : Type} [Zero R] [One R] [Add R] [Sub R] [Mul R]

/-- one forward-Euler step as coded: `(dt*diff_op + np.eye(n)) @ u_pre + dt*rhs` -/
def fwdStep (n : Nat) (dt : R) (f : Form R) (u : Array R) : Array R :=
  tab n fun i => (sumTo n fun j => (dt * f.op i j + eye i j) * rd u j) + dt * f.src i

/-- the forward loop: `t` is the time of the level `u`; the form is assembled at `t`, `dt = t' - t` -/
def fwdLevels (n : Nat) (form : R → Form R) : R → Array R → List R → List (Array R)
  | _, _, [] => []
  | t, u, t' :: rest =>
    let u' := fwdStep n (t' - t) (form t) u
    u' :: fwdLevels n form t' u' rest

/-- backward-Euler system matrix as coded: `np.eye(n) - dt*diff_op` -/
def bwdMat (dt : R) (f : Form R) : Mat R := fun i j => eye i j - dt * f.op i j

/-- backward-Euler right-hand side as coded: `u_pre + dt*rhs` -/
def bwdRhs (dt : R) (f : Form R) (u : Vec R) : Vec R := fun i => u i + dt * f.src i

/-- the backward loop: the form is assembled at the *new* time `t'`, `dt = t' - t`; every step goes
    through `_solve_linear_system`; returns the new levels with the `info` of each step -/
def bwdLevels {I : Type} (n : Nat) (form : R → Form R) (solver : Mat R → Vec R → SolverRet (Vec R) I) :
    R → Array R → List R → Except Err (List (Array R × Option (List I)))
  | _, _, [] => .ok []
  | t, u, t' :: rest =>
    let f := form t'
    match unpack (solver (bwdMat (t' - t) f) (bwdRhs (t' - t) f (rd u))) with
    | .error e => .error e
    | .ok (x, info) =>
      let u' := tab n x
      match bwdLevels n form solver t' u' rest with
      | .error e => .error e
      | .ok tail => .ok ((u', info) :: tail)

/-- `TimeDependentLinearPDE.solve()` for the assembled parameter: the stored levels (column `k` of
    `u`) in order, and `info`.  `form t = PDE_form(self._parameter, t)`; the initial condition is the
    third component of the form at `time_steps[0]`. -/
def solveTime {I : Type} (n : Nat) (m : Method) (form : R → Form R)
    (solver : Mat R → Vec R → SolverRet (Vec R) I) (ts : List R) :
    Except Err (List (Array R) × Option (List I)) :=
  match ts with
  | [] => .error .indexError
  | t0 :: rest =>
    let u0 := tab n (form t0).ic
    match m with
    | .forward => .ok (u0 :: fwdLevels n form t0 u0 rest, none)
    | .backward =>
      match bwdLevels n form solver t0 u0 rest with
      | .error e => .error e
      | .ok steps =>
        match steps.getLast? with
        | none => .error .unboundLocal
        | some (_, info) => .ok (u0 :: steps.map (·.1), info)
    | .otherCase => .error .unboundLocal

/-- the times at which `PDE_form` is evaluated by `solve`, in order -/
def formCalls (m : Method) (ts : List R) : List R :=
  match ts with
  | [] => []
  | t0 :: rest =>
    match m with
    | .forward => t0 :: (t0 :: rest).dropLast
    | .backward => t0 :: rest
    | .otherCase => [t0]

end time

/-! ## grids (`PDE.grid_sol`, `PDE.grid_obs`, `PDE._grids_equal`) -/

structure Grids (R : Type) where
  sol : Option (List R)
  obs : Option (List R)
  equal : Bool

section grids
variable {R : Type} [DecidableEq R]

/-- `PDE._compare_grid` -/
def compareGrid : Option (List R) → Option (List R) → Bool
  | none, _ => true
  | _, none => true
  | some a, some b => if a.length = b.length then decide (a = b) else false

/-- `grid_sol.setter` -/
def Grids.setSol (g : Grids R) (v : Option (List R)) : Grids R :=
  { g with equal := compareGrid v g.obs, sol := v }

/-- `grid_obs.setter` (`None` means: the solution grid) -/
def Grids.setObs (g : Grids R) (v : Option (List R)) : Grids R :=
  let v' := match v with
    | none => g.sol
    | some x => some x
  { g with equal := compareGrid v' g.sol, obs := v' }

/-- `PDE.__init__`: `self.grid_sol = grid_sol; self.grid_obs = grid_obs` on an object without attributes -/
def Grids.init (sol obs : Option (List R)) : Grids R :=
  (({ sol := none, obs := none, equal := true } : Grids R).setSol sol).setObs obs

inductive GridOp (R : Type)
  | setSol (v : Option (List R))
  | setObs (v : Option (List R))

def Grids.run (g : Grids R) : List (GridOp R) → Grids R
  | [] => g
  | .setSol v :: rest => (g.setSol v).run rest
  | .setObs v :: rest => (g.setObs v).run rest

end grids

/-! ## arrays, observation maps, `squeeze` -/

/-- numpy arrays of dimension 0, 1, 2 (C order) -/
inductive Arr (R : Type)
  | scalar (x : R)
  | vec (v : List R)
  | mat (m : List (List R))
  deriving DecidableEq, Repr

/-- `ndarray.shape` (a matrix is assumed rectangular; its column count is read off the first row) -/
def Arr.shape {R : Type} : Arr R → List Nat
  | .scalar _ => []
  | .vec v => [v.length]
  | .mat m => [m.length, (m.headD []).length]

/-- observation maps used by the check (a user callable applied to the restricted solution) -/
inductive ObsMap (R : Type)
  | ident                        -- `observation_map=None`
  | square                       -- `lambda u: u**2`
  | scale (c : R)                -- `lambda u: c*u`
  | left (M : List (List R))     -- `lambda u: M @ u`
  | row (i : Nat)                -- `lambda u: u[i]`
  | take (k : Nat)               -- `lambda u: u[:k]`

section arr
variable {R : Type} [Zero R] [Add R] [Mul R]

def ldot (a b : List R) : R := (List.zipWith (· * ·) a b).foldl (· + ·) 0

def columns (m : List (List R)) : List (List R) :=
  match m with
  | [] => []
  | r :: _ => (List.range r.length).map fun j => m.map fun row => row.getD j 0

def ObsMap.apply : ObsMap R → Arr R → Except Err (Arr R)
  | .ident, a => .ok a
  | .square, .scalar x => .ok (.scalar (x * x))
  | .square, .vec v => .ok (.vec (v.map fun x => x * x))
  | .square, .mat m => .ok (.mat (m.map fun r => r.map fun x => x * x))
  | .scale c, .scalar x => .ok (.scalar (c * x))
  | .scale c, .vec v => .ok (.vec (v.map fun x => c * x))
  | .scale c, .mat m => .ok (.mat (m.map fun r => r.map fun x => c * x))
  | .left _, .scalar _ => .error .valueError
  | .left M, .vec v =>
    if M.all (fun r => r.length == v.length) then .ok (.vec (M.map fun r => ldot r v)) else .error .valueError
  | .left M, .mat m =>
    if M.all (fun r => r.length == m.length) then
      .ok (.mat (M.map fun r => (columns m).map fun c => ldot r c))
    else .error .valueError
  | .row _, .scalar _ => .error .indexError
  | .row i, .vec v => match v[i]? with
    | some x => .ok (.scalar x)
    | none => .error .indexError
  | .row i, .mat m => match m[i]? with
    | some r => .ok (.vec r)
    | none => .error .indexError
  | .take _, .scalar _ => .error .indexError
  | .take k, .vec v => .ok (.vec (v.take k))
  | .take k, .mat m => .ok (.mat (m.take k))

/-- `ndarray.squeeze()` on arrays with at least one row -/
def squeeze : Arr R → Arr R
  | .scalar x => .scalar x
  | .vec [x] => .scalar x
  | .vec v => .vec v
  | .mat [[x]] => .scalar x
  | .mat [r] => .vec r
  | .mat m => if m.all (fun r => r.length == 1) then .vec (m.map fun r => r.headD 0) else .mat m

end arr

/-! ## observation -/

/-- the constructor's handling of `time_obs` -/
inductive TimeObsArg (R : Type)
  | noneVal
  | str (lowered : String)        -- a string argument, given by its `.lower()`
  | explicit (ts : List R)

/-- `self._time_obs` (`ValueError` for `None` and for strings other than final/all, any case) -/
def resolveTimeObs {R : Type} (steps : List R) : TimeObsArg R → Except Err (List R)
  | .noneVal => .error .valueError
  | .str s =>
    if s = "final" then .ok (steps.drop (steps.length - 1))   -- `time_steps[-1:]`
    else if s = "all" then .ok steps
    else .error .valueError
  | .explicit l => .ok l

inductive Branch | direct | interp | refuse
  deriving DecidableEq, Repr

section observe
variable {R : Type} [DecidableEq R]

/-- `np.all(self.time_steps[-1:] == self._time_obs)` for a non-empty time grid -/
def allFinal (steps tobs : List R) : Bool :=
  match steps.getLast? with
  | none => false
  | some T => tobs.all fun t => decide (T = t)

/-- which branch `TimeDependentLinearPDE.observe` takes for a solution array of dimension `ndim` -/
def branchTime (g : Grids R) (steps tobs : List R) (ndim : Nat) : Branch :=
  if g.equal && allFinal steps tobs then .direct
  else if ndim > 2 then .refuse
  else .interp

/-- `solution[..., -1]` of a 2-D array given by rows (space) × columns (time) -/
def lastCol (U : List (List R)) : Except Err (List R) :=
  U.mapM fun r => match r.getLast? with
    | some x => .ok x
    | none => .error .indexError

variable [Zero R] [Add R] [Mul R]

/-- the first half of `TimeDependentLinearPDE.observe(solution)` for a 2-D solution `U` (rows: space
    nodes, columns: time levels): the restricted / interpolated solution before the observation map.
    `interp gs steps U go tobs` stands for
    `RectBivariateSpline(grid_sol, time_steps, U)(grid_obs, time_obs)`. -/
def preObserveTime (g : Grids R) (steps tobs : List R) (U : List (List R))
    (interp : List R → List R → List (List R) → List R → List R → Except Err (List (List R))) :
    Except Err (Arr R) :=
  match branchTime g steps tobs 2 with
  | .direct => (lastCol U).map Arr.vec
  | .refuse => .error .valueError
  | .interp =>
    match g.sol, g.obs with
    | some gs, some go => (interp gs steps U go tobs).map Arr.mat
    | _, _ => .error .valueError     -- unreachable: `equal` is set when a grid is `None`

/-- `TimeDependentLinearPDE.observe(solution)`: restriction/interpolation, then the observation
    map, then `squeeze()` iff there is exactly one observation time. -/
def observeTime (g : Grids R) (steps tobs : List R) (U : List (List R))
    (interp : List R → List R → List (List R) → List R → List R → Except Err (List (List R)))
    (om : ObsMap R) : Except Err (Arr R) :=
  match preObserveTime g steps tobs U interp with
  | .error e => .error e
  | .ok a =>
    match om.apply a with
    | .error e => .error e
    | .ok b => .ok (if tobs.length = 1 then squeeze b else b)

/-- `SteadyStateLinearPDE.observe(solution)`; `interp gs u go` stands for
    `interp1d(grid_sol, u, kind='quadratic')(grid_obs)`. -/
def observeSteady (g : Grids R) (u : List R)
    (interp : List R → List R → List R → Except Err (List R)) (om : ObsMap R) : Except Err (Arr R) :=
  let pre : Except Err (List R) :=
    if g.equal then .ok u
    else match g.sol, g.obs with
      | some gs, some go => interp gs u go
      | _, _ => .error .valueError
  match pre with
  | .error e => .error e
  | .ok v => om.apply (.vec v)

/-! ### leaf-data interpolants used by the driver

  The values of scipy's spline at the requested points are *data* (`W`, computed by the harness
  by calling scipy directly).  Where an observation node/time coincides with a solution node/time
  the instance returns the stored solution value itself, so that it satisfies the defining
  property of an interpolant (`Props/C18.tableInterp_reproduces`) by construction. -/

def indexOf? (l : List R) (x : R) : Option Nat :=
  let i := l.findIdx (fun y => decide (y = x))
  if i < l.length then some i else none

def tableInterp2 (W : List (List R)) (gs steps : List R) (U : List (List R)) (go tobs : List R) :
    Except Err (List (List R)) :=
  .ok <| (List.range go.length).map fun a => (List.range tobs.length).map fun b =>
    match indexOf? gs (go.getD a 0), indexOf? steps (tobs.getD b 0) with
    | some i, some j => (U.getD i []).getD j 0
    | _, _ => (W.getD a []).getD b 0

def tableInterp1 (W : List R) (gs : List R) (u : List R) (go : List R) : Except Err (List R) :=
  .ok <| (List.range go.length).map fun a =>
    match indexOf? gs (go.getD a 0) with
    | some i => u.getD i 0
    | none => W.getD a 0

end observe

/-! ## `PDEModel` -/

/-- any `cuqi.pde.PDE`: `solveFor p` = `assemble(p)` followed by `solve()`; `observe` -/
structure PDEObj (P S O I : Type) where
  solveFor : P → Except Err (S × Option (List I))
  observe : S → Except Err O

/-- `PDEModel._forward_func`: assemble, solve, drop `info`, observe -/
def pdeModelForward {P S O I : Type} (pde : PDEObj P S O I) (x : P) : Except Err O :=
  match pde.solveFor x with
  | .error e => .error e
  | .ok (sol, _) => pde.observe sol

/-- which of the optional methods the PDE object has -/
structure GradCaps (R : Type) where
  gradWrt : Option (Vec R → Vec R → Vec R)    -- `gradient_wrt_parameter(direction, wrt)`
  jacWrt : Option (Vec R → Mat R)             -- `jacobian_wrt_parameter(wrt)`

/-- `PDEModel._gradient_func(direction, wrt)`; `m` = length of `direction` -/
def gradientFunc {R : Type} [Zero R] [Add R] [Mul R] (m : Nat) (c : GradCaps R) (dir wrt : Vec R) :
    Except Err (Vec R) :=
  match c.gradWrt, c.jacWrt with
  | some g, _ => .ok (g dir wrt)
  | none, some J => .ok (vecMul m dir (J wrt))
  | none, none => .error .notImplemented

end CuqiVerif.C18
