/-
  C06 model, part 3 — the sampling loops around the RTO step:
  legacy `cuqi/sampler/_rto.py LinearRTO._sample(N, Nb)` (`samples[:, 0] = x0`, `N+Nb−1` steps each
  started at the previous column, burn-in columns dropped) and the experimental
  `Sampler.initialize / warmup(Nb) / sample(Ns) / get_samples` of `cuqi/experimental/mcmc/_sampler.py`
  as used by `LinearRTO` (`tune` is a no-op; every step of either phase appends `current_point`).
  The step is `rtoStep` of `Model/C06.lean` (CGLS on the stacked operator, started at the current
  state).  Import-free apart from `Model/C06.lean`.
-/
import CuqiVerif.Model.C06
namespace CuqiVerif.C06

section loop
variable {R : Type} [Zero R] [One R] [Add R] [Sub R] [Mul R] [Div R] [LT R] [LE R]
  [DecidableEq R] [DecidableLT R] [DecidableLE R]

/-- the states after successive steps with the normal draws `e₁, e₂, …`, each step started at the
    result of the previous one (the first at `cur`) -/
def rtoChain (P : Problem R) (maxit : Nat) (tol2 eps : R) : Vec R → List (Vec R) → List (Vec R)
  | _, [] => []
  | cur, e :: es =>
    let xa := tabArr P.n (rtoStep P e cur maxit tol2 eps).x
    let x := ofArr xa
    x :: rtoChain P maxit tol2 eps x es

/-- legacy `LinearRTO._sample(N, Nb)` / `sample(N, Nb)`: column 0 is `x0` itself, then `N+Nb−1`
    steps; `samples[:, Nb:]` is returned.  With `N + Nb = 0` the assignment `samples[:, 0] = x0`
    into an array without columns raises `IndexError` (`none`).  `draws` are the successive
    `np.random.randn` results (the first `N+Nb−1` are consumed). -/
def legacySample (P : Problem R) (maxit : Nat) (tol2 eps : R) (x0 : Vec R) (N Nb : Nat)
    (draws : List (Vec R)) : Option (List (Vec R)) :=
  if N + Nb = 0 then none
  else some ((x0 :: rtoChain P maxit tol2 eps x0 (draws.take (N + Nb - 1))).drop Nb)

/-- the state of an experimental sampler object that matters here -/
structure ExpState (R : Type) where
  cur : Vec R
  samples : List (Vec R)

/-- `initialize()`: `current_point = initial_point`, `_samples = []` -/
def expInit (x0 : Vec R) : ExpState R := { cur := x0, samples := [] }

/-- `warmup(k)` and `sample(k)` alike (for `LinearRTO`, whose `tune` does nothing): `k` steps, each
    appended to `_samples` -/
def expRun (P : Problem R) (maxit : Nat) (tol2 eps : R) (s : ExpState R) (draws : List (Vec R)) : ExpState R :=
  let xs := rtoChain P maxit tol2 eps s.cur draws
  { cur := xs.getLastD s.cur, samples := s.samples ++ xs }

/-- `LinearRTO(target, initial_point=x0).warmup(Nb).sample(Ns).get_samples()` -/
def expSample (P : Problem R) (maxit : Nat) (tol2 eps : R) (x0 : Vec R) (Nb Ns : Nat) (draws : List (Vec R)) :
    List (Vec R) :=
  let s1 := expRun P maxit tol2 eps (expInit x0) (draws.take Nb)
  (expRun P maxit tol2 eps s1 ((draws.drop Nb).take Ns)).samples

end loop
end CuqiVerif.C06
