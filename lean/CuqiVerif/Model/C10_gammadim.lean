/-
  C10 model, part 4 — the dimension of the Gamma prior and the number of variates one step draws
  (session-3 extension).  Import-free apart from `Model/C10.lean`; executable.

  Transcribed code:
    cuqi/distribution/_distribution.py   Distribution.dim → Distribution.geometry (getter):
        inferred_dim = _infer_dim_of_mutable_variables()  = max(infer_len(var)) or None if that is 0 / no variables
        geometry_dim = self._geometry.par_dim             (None when no geometry was given)
        is_inferred_multivariate = inferred_dim > 1 if inferred_dim is not None else False
        matches = (geometry_dim == inferred_dim) if (geometry_dim and inferred_dim) else True
        if is_inferred_multivariate and not matches: raise TypeError("Inconsistent distribution geometry …")
        if inferred_dim and geometry_dim is None: self.geometry = inferred_dim
        if par_shape is None: raise ValueError("Unable to automatically determine geometry …")
    cuqi/distribution/_gamma.py          shape / rate setters: `force_ndarray(value, flatten=True)` (a scalar becomes a
        length-1 array, a callable stays a callable: `infer_len` 0);
        `_sample`: `np.random.gamma(shape, scale=1/rate, size=(N, self.dim)).T`
    the anchored validators test `target.prior.dim != 1`; `sample()` / `step()` build
        `Gamma(shape=m/2+alpha, rate=…+beta)` with `alpha = prior.shape`, `beta = prior.rate` and *no geometry*.
-/
import CuqiVerif.Model.C10
namespace CuqiVerif.C10

inductive DimRes
  | dim (k : Nat)
  /-- `TypeError: Inconsistent distribution geometry attribute … and inferred dimension …` -/
  | typeError
  /-- `ValueError: Unable to automatically determine geometry of distribution` -/
  | valueError
  deriving DecidableEq, Repr

/-- `Distribution.dim`: `lens` = `infer_len` of every mutable variable (0 for a callable), `geom` = `par_dim` of
    the geometry given to the constructor (`none`: no geometry). -/
def inferDim (lens : List Nat) (geom : Option Nat) : DimRes :=
  let maxLen := lens.foldl max 0
  match (if maxLen = 0 then none else some maxLen), geom with
  | some k, some g => if 1 < k ∧ g ≠ 0 ∧ g ≠ k then .typeError else .dim g
  | some k, none => .dim k
  | none, some g => .dim g
  | none, none => .valueError

/-- `prior.dim` of `Gamma(shape, rate, geometry=geom)` with `len(shape) = a`, `len(rate) = r` -/
def gammaPriorDim (a r : Nat) (geom : Option Nat) : DimRes := inferDim [a, r] geom

/-- number of variates one `step()` draws: the Gamma built inside `sample()` / `step()` has shape of length `a`,
    rate of length `r` (scalar + array), no geometry, so `dim = max a r`; `np.random.gamma(shape, scale,
    size=(1, dim))` needs both parameter arrays to broadcast to `dim` (`none`: numpy raises). -/
def drawnDim (a r : Nat) : Option Nat :=
  let d := max a r
  if (a = 1 ∨ a = d) ∧ (r = 1 ∨ r = d) ∧ 0 < a ∧ 0 < r then some d else none

/-- a validator applied to a target whose prior is `Gamma(shape, rate, geometry=geom)`: the prior's dimension is
    computed, not supplied (`none`: `prior.dim` raises — such a `Posterior` cannot even be built). -/
def withGammaPrior (t : Target) (a r : Nat) (geom : Option Nat) : Option Target :=
  match gammaPriorDim a r geom with
  | .dim k => some { t with priorGamma := true, priorDim := k }
  | _ => none

/-! ## `Direct.validate_target`: which targets are accepted (second pass)

`validate_target` calls `self.target.sample()` inside a bare `try/except` and turns *any* exception into `TypeError`.
`Distribution.sample` raises `ValueError` for a conditional distribution; `UserDefinedDistribution._sample` calls
`sample_func()` once per draw (`N = 1`) and raises when no `sample_func` was given; an object without a `sample`
attribute raises `AttributeError`. -/

inductive DTarget
  /-- an unconditional distribution with its own `_sample` -/
  | hasSample
  /-- `UserDefinedDistribution(sample_func=f)`: one call of `f` per draw -/
  | userSampleFunc
  /-- `UserDefinedDistribution` without `sample_func` -/
  | userNoSampleFunc
  /-- a conditional distribution (a parameter is still a callable) -/
  | conditional
  /-- an object without a `sample` method -/
  | noSampleMethod
  deriving DecidableEq, Repr

/-- `Direct.validate_target` succeeds iff the trial `target.sample()` returns -/
def directValidates : DTarget → Bool
  | .hasSample | .userSampleFunc => true
  | _ => false

/-- calls of the target's sampling routine (`_sample` resp. `sample_func`) after `k` assignments and `N` steps: one
    per assignment (validation) and one per step, for every accepted kind of target -/
def directCalls (t : DTarget) (k N : Nat) : Option Nat := if directValidates t then some (k + N) else none

end CuqiVerif.C10
