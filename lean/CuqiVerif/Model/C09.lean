/-
  C09 model — the scheduling of the two Gibbs samplers.

  * `HybridGibbs` (`cuqi/experimental/mcmc/_gibbs.py`): `__init__/_initialize`, `_get_initial_points`,
    `_initialize_num_sampling_steps`, `_set_target(s)`, `step` (the save-state / `reinitialize` /
    restore-state dance around every block update, NUTS special case), `_store_samples`,
    `sample`/`warmup` (the tuning calls of `warmup` touch only step sizes and are not modelled);
    of the block samplers (`_sampler.py`): `initialize`, `reinitialize`, `get_state`/`set_state`,
    `get_history`/`set_history` as far as the current point, the cached target evaluation
    (`current_target_logd`, `current_target_grad`, `current_likelihood_logd`) and `len(_acc)` go.
  * legacy `Gibbs` (`cuqi/sampler/_gibbs.py`): `sample`, `step`, `_get_initial_points`,
    `_allocate_samples(_warmup)`, `_store_samples`, `_Ns/_Nb`, and the `x0`-then-`sample(2)` hack
    of `cuqi/sampler/_sampler.py: Sampler.step`.

  What a block sampler does with the target it is handed is NOT modelled: one transition is a
  `Draw` (the point it proposes to move to and whether it moved), supplied from outside in call
  order.  The conditioned joint `target(**others)` is represented by the keyword dictionary
  `others` it was built from (the conditioning itself is the subject of C01).

  Import-free and executable; generic in the type of names `N` and of block values `V`
  (driver: `String` and `List Rat`).
-/
namespace CuqiVerif.C09

variable {N V : Type}

/-- `d[n] = a` on a total dictionary -/
def upd [DecidableEq N] {α : Type} (f : N → α) (n : N) (a : α) : N → α :=
  fun m => if m = n then a else f m

/-- `{m: cur[m] for m in names if m != n}` — the keyword dictionary both samplers condition the
    joint on (`_set_target` / legacy `step`). -/
def others [DecidableEq N] (names : List N) (cur : N → V) (n : N) : List (N × V) :=
  (names.filter (fun m => m != n)).map (fun m => (m, cur m))

/-- the tuple of current block values in `par_names` order -/
def tuple (names : List N) (cur : N → V) : List (N × V) := names.map (fun m => (m, cur m))

/-- One transition of a block sampler, as seen from outside: where it would move and whether it
    did (`acc`).  Exact samplers (Conjugate, Direct, LinearRTO …) always move. -/
structure Draw (V : Type) where
  value : V
  acc : Bool

/-- What a cached target evaluation belongs to: the target (by its conditioning dictionary) and the
    point it was evaluated at. -/
structure Tag (N V : Type) where
  tgt : List (N × V)
  point : V
  deriving DecidableEq

/-! ## experimental: the block sampler object -/

/-- The part of an experimental `Sampler` object that the Gibbs scheduling reads or writes.
    `hasCache`: `initialize` evaluates the target at the current point and keeps the result
    (MH, CWMH, ULA, MALA: `current_target_logd` [+ `current_target_grad`]; PCN:
    `current_likelihood_logd`; NUTS: both).  `cacheInState`: that attribute is listed in
    `_STATE_KEYS`, i.e. it is saved by `get_state` and written back by `set_state`. -/
structure Smp (N V : Type) where
  isNuts : Bool
  hasCache : Bool
  cacheInState : Bool
  initialPoint : V
  currentPoint : V
  target : List (N × V)
  cache : Option (Tag N V)
  accLen : Nat

/-- `Sampler.initialize` / `ProposalBasedSampler.initialize` (+ the subclasses' `_initialize`):
    `current_point = initial_point`, target evaluated there, `_acc = [1]`. -/
def Smp.initialize (s : Smp N V) : Smp N V :=
  { s with currentPoint := s.initialPoint
           cache := if s.hasCache then some ⟨s.target, s.initialPoint⟩ else none
           accLen := 1 }

/-- `HybridGibbs.step`, from `self._set_target(par_name)` up to (not including) the stepping loop:
    new target; NUTS: `initial_point = current_point; reinitialize()`; all others:
    `get_state(); get_history(); reinitialize(); set_state(); set_history()`. -/
def Smp.prologue (s : Smp N V) (tgt : List (N × V)) : Smp N V :=
  let s1 := { s with target := tgt }
  if s1.isNuts then
    ({ s1 with initialPoint := s1.currentPoint }).initialize
  else
    let s2 := s1.initialize
    { s2 with currentPoint := s1.currentPoint
              cache := if s2.cacheInState then s1.cache else s2.cache
              accLen := s1.accLen }

/-- `acc = sampler.step(); sampler._acc.append(acc)`: an accepted transition moves the point and
    (for caching samplers) stores the evaluation of the *current* target at the new point. -/
def Smp.step (s : Smp N V) (d : Draw V) : Smp N V :=
  if d.acc then
    { s with currentPoint := d.value
             cache := if s.hasCache then some ⟨s.target, d.value⟩ else none
             accLen := s.accLen + 1 }
  else { s with accLen := s.accLen + 1 }

/-- the cached evaluation is that of the sampler's current target at its current point -/
def Smp.CacheFresh [DecidableEq N] [DecidableEq V] (s : Smp N V) : Bool :=
  match s.cache with
  | none => true
  | some t => t == ⟨s.target, s.currentPoint⟩

/-! ## experimental: HybridGibbs -/

/-- observable events, in program order -/
inductive Ev (N V : Type) where
  /-- a block update begins: name, conditioning dictionary of the handed target, the point the
      sampler starts from, what its cached evaluation belongs to, `len(_acc)` -/
  | visit (n : N) (tgt : List (N × V)) (start : V) (cache : Option (Tag N V)) (accLen : Nat)
  /-- one `sampler.step()` of block `n`: point before, point after -/
  | step (n : N) (before after : V)
  /-- `_store_samples`: the tuple appended -/
  | store (t : List (N × V))

structure HG (N V : Type) where
  names : List N
  nsteps : N → Nat
  cur : N → V
  smp : N → Smp N V
  stored : List (List (N × V))
  pos : Nat
  log : List (Ev N V)

/-- the stepping loop: `k` transitions fed by the draws `pos, pos+1, …` -/
def stepLoop (ds : Nat → Draw V) (n : N) : Nat → Nat → Smp N V → List (Ev N V) → Smp N V × List (Ev N V)
  | 0, _, s, log => (s, log)
  | k + 1, pos, s, log =>
    let s' := s.step (ds pos)
    stepLoop ds n k (pos + 1) s' (log ++ [Ev.step n s.currentPoint s'.currentPoint])

/-- one iteration of the `for par_name in self.par_names` loop of `HybridGibbs.step` -/
def blockUpdate [DecidableEq N] (ds : Nat → Draw V) (g : HG N V) (n : N) : HG N V :=
  let tgt := others g.names g.cur n
  let s0 := (g.smp n).prologue tgt
  let k := g.nsteps n
  let r := stepLoop ds n k g.pos s0 (g.log ++ [Ev.visit n tgt s0.currentPoint s0.cache s0.accLen])
  { g with cur := upd g.cur n r.1.currentPoint
           smp := upd g.smp n r.1
           pos := g.pos + k
           log := r.2 }

/-- `HybridGibbs.step` -/
def sweep [DecidableEq N] (ds : Nat → Draw V) (g : HG N V) : HG N V :=
  g.names.foldl (blockUpdate ds) g

/-- `_store_samples` -/
def store (g : HG N V) : HG N V :=
  let t := tuple g.names g.cur
  { g with stored := g.stored ++ [t], log := g.log ++ [Ev.store t] }

/-- `sample(Ns)` (and, as far as points, targets and storage go, `warmup(Ns)`) -/
def sampleN [DecidableEq N] (ds : Nat → Draw V) : Nat → HG N V → HG N V
  | 0, g => g
  | k + 1, g => sampleN ds k (store (sweep ds g))

/-- `_get_initial_points`: the sampler's own `initial_point` if the user gave one, else the
    sampler's `_get_default_initial_point(dim)` (ones; zeros for LinearRTO/UGLA) -/
def initialPoints (user : N → Option V) (dflt : N → V) : N → V := fun n => (user n).getD (dflt n)

inductive HErr | keyError | valueError
  deriving DecidableEq, Repr

/-- What `HybridGibbs.__init__` refuses.  `assigned n` = identity of the sampler object under key
    `n` of `sampling_strategy` (`none`: no such key → `self.samplers[par_name]` raises `KeyError`
    in `_get_initial_points`); a key that is not a parameter (`extra`) gives a sampler without
    target and one object under two names is initialised twice — both make
    `sampler.initialize()` raise `ValueError`. -/
def validateStrategy (names : List N) (assigned : N → Option Nat) (extra : Bool)
    (used : N → Bool := fun _ => false) : Option HErr :=
  if names.any (fun n => (assigned n).isNone) then some .keyError
  else if extra then some .valueError
  -- a sampler object that is already initialized (it served another Gibbs sampler, or was run on
  -- its own): `sampler.initialize()` raises "Sampler is already initialized."
  else if names.any used then some .valueError
  else if (names.map assigned).eraseDups.length != names.length then some .valueError
  else none

/-- assignment to / in-place update of `num_sampling_steps` between calls: the next sweeps read the
    current dictionary (`range` of a negative number is empty) -/
def reconfigure (g : HG N V) (ns : N → Int) : HG N V := { g with nsteps := fun n => (ns n).toNat }

/-- `HybridGibbs.__init__`/`_initialize`: initial points (`_get_initial_points`: the sampler's own
    `initial_point` or its default, which becomes its `initial_point`), number of steps (default 1;
    `range` of a negative number is empty), `_set_targets`, `sampler.initialize()`. -/
def construct [DecidableEq N] (names : List N) (nsteps : N → Option Int) (init : N → V)
    (flags : N → Bool × Bool × Bool) : HG N V :=
  { names := names
    nsteps := fun n => match nsteps n with | none => 1 | some k => k.toNat
    cur := init
    smp := fun n =>
      let f := flags n
      ({ isNuts := f.1, hasCache := f.2.1, cacheInState := f.2.2, initialPoint := init n,
         currentPoint := init n, target := others names init n, cache := none, accLen := 0 } : Smp N V).initialize
    stored := []
    pos := 0
    log := [] }

/-! ## legacy Gibbs -/

inductive LErr | indexError | valueError
  deriving DecidableEq, Repr

inductive LEv (N V : Type) where
  /-- a fresh sampler is built on `target(**others)` and advanced once from `start` -/
  | step (n : N) (tgt : List (N × V)) (start result : V)
  /-- `_store_samples(samples, current_samples, i)`; `warm` tells which array -/
  | store (warm : Bool) (i : Nat) (t : List (N × V))

/-- `Sampler.step(x)`: `self.x0 = x; return self.sample(2).samples[:, -1]` — the two-column run
    is `[x0, one transition from x0]`, of which the last column is returned. -/
def sample2 (x0 : V) (d : V) : List V := [x0, d]

def legacyKernel (x0 : V) (d : V) : V := (sample2 x0 d).getLast?.getD x0

structure LG (N V : Type) where
  names : List N
  /-- `init_point` attribute of the block's density, if it has one -/
  initPoint : N → Option V
  ones : N → V
  zeros : N → V
  /-- `self.samples` / `self.samples_warmup`: `none` = attribute absent; otherwise the columns -/
  samples : Option (List (N → V))
  warm : Option (List (N → V))
  pos : Nat
  log : List (LEv N V)

/-- one iteration of the loop in legacy `Gibbs.step` -/
def lblock [DecidableEq N] (ds : Nat → V) (names : List N) (st : (N → V) × Nat × List (LEv N V)) (n : N) :
    (N → V) × Nat × List (LEv N V) :=
  let cur := st.1
  let tgt := others names cur n
  let r := legacyKernel (cur n) (ds st.2.1)
  (upd cur n r, st.2.1 + 1, st.2.2 ++ [LEv.step n tgt (cur n) r])

/-- legacy `Gibbs.step` (= `step_tune`) -/
def lsweep [DecidableEq N] (ds : Nat → V) (names : List N) (st : (N → V) × Nat × List (LEv N V)) :
    (N → V) × Nat × List (LEv N V) :=
  names.foldl (lblock ds names) st

/-- `samples[par][:, i] = current[par]` for every `par` -/
def setCol {α : Type} (cols : List α) (i : Nat) (c : α) : List α := cols.set i c

/-- the loops `for i in range(at, at+k): current = step(current); store(arr, current, i)` -/
def lloop [DecidableEq N] (ds : Nat → V) (names : List N) (warm : Bool) :
    Nat → Nat → List (N → V) → (N → V) × Nat × List (LEv N V) → List (N → V) × ((N → V) × Nat × List (LEv N V))
  | 0, _, cols, st => (cols, st)
  | k + 1, i, cols, st =>
    let st' := lsweep ds names st
    let st'' := (st'.1, st'.2.1, st'.2.2 ++ [LEv.store warm i (tuple names st'.1)])
    lloop ds names warm k (i + 1) (setCol cols i st'.1) st''

/-- `_get_initial_points` -/
def linit (g : LG N V) : Except LErr (N → V) :=
  match g.samples with
  | some cols => match cols.getLast? with
    | some c => .ok c
    | none => .error .indexError            -- `samples[par][:, -1]` on a (dim, 0) array
  | none => match g.warm with
    | some cols => match cols.getLast? with
      | some c => .ok c
      | none => .error .indexError
    | none => .ok (fun n => (g.initPoint n).getD (g.ones n))

/-- legacy `Gibbs.sample(Ns, Nb)` -/
def lsample [DecidableEq N] (ds : Nat → V) (g : LG N V) (Ns Nb : Nat) : Except LErr (LG N V) :=
  match linit g with
  | .error e => .error e
  | .ok cur0 =>
    let atNb := match g.warm with | some c => c.length | none => 0
    let atNs := match g.samples with | some c => c.length | none => 0
    if g.warm.isSome && Nb != 0 then .error .valueError
    else
      let warm0 : List (N → V) := List.replicate Nb g.zeros
      let samp0 : List (N → V) := (g.samples.getD []) ++ List.replicate Ns g.zeros
      let w := lloop ds g.names true Nb atNb warm0 (cur0, g.pos, g.log)
      let s := lloop ds g.names false Ns atNs samp0 w.2
      .ok { g with samples := some s.1, warm := some w.1, pos := s.2.2.1, log := s.2.2.2 }

def lconstruct (names : List N) (initPoint : N → Option V) (ones zeros : N → V) : LG N V :=
  { names := names, initPoint := initPoint, ones := ones, zeros := zeros,
    samples := none, warm := none, pos := 0, log := [] }

end CuqiVerif.C09
