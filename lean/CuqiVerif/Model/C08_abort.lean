/-
  C08 model, part 4 — an interrupted transition (history: the target raises in the middle of `step`, the caller
  catches the exception and keeps using the sampler object).

  `NUTS.step` of `cuqi/experimental/mcmc/_hmc.py` writes the sampler state in exactly one place inside the doubling
  loop: the three consecutive assignments `self.current_point = point_prime; self.current_target_logd = logd_prime;
  self.current_target_grad = np.copy(grad_prime)` of the top-level Metropolis step, i.e. between two iterations of the
  `while` loop the state triple is the `cur` component of the model's loop state (`Model/C08.lean`, `Loop.cur`, a
  phase-space point *with* its caches).  The only statements of an iteration that can raise are the target
  evaluations of `_Leapfrog` inside `_BuildTree`; all of them precede the assignments of that iteration.  Hence, when
  the `k`-th target evaluation of a transition raises, the sampler is left in the state at the head of the iteration
  that contains that evaluation: everything accepted by the completed doublings, nothing of the interrupted one.
  (The legacy `_sample` keeps its chain in locals; an exception discards the whole call and the sampler object is
  unchanged.)

  Import-free, executable.
-/
import CuqiVerif.Model.C08
namespace CuqiVerif.C08

/-- the loop state at the head of the iteration in which the `k`-th leaf (`k ≥ 1`, counted from the start of the
    transition) is evaluated; `none` when the transition evaluates fewer than `k` leaves (it completes). -/
def abortLoop {Z} (c : Ctx Z) (guard : Z → Bool) (maxDepth : Nat) : Nat → Nat → Loop Z → Option (Loop Z)
  | 0, _, _ => none
  | fuel + 1, k, st =>
    if st.s && decide (st.j ≤ maxDepth) then
      let st' := loopBody c guard st
      if k ≤ st'.last.length then some st
      else abortLoop c guard maxDepth fuel (k - st'.last.length) st'
    else none

/-- sampler state after the target raised at its `k`-th evaluation during the transition from `z0` -/
def nutsAbort {Z} (c : Ctx Z) (guard : Z → Bool) (maxDepth : Nat) (z0 : Z) (us : List Rat) (k : Nat) :
    Option (Loop Z) :=
  abortLoop c guard maxDepth (maxDepth + 1) k
    { cur := z0, zminus := z0, zplus := z0, j := 0, s := true, n := 1, acc := false,
      last := [], nodes := 0, us := us }

/-- per executed doubling: (number of leaves it evaluated, `acc` after it) — lets the harness aim the fault at a
    doubling that follows an acceptance -/
def loopProfile {Z} (c : Ctx Z) (guard : Z → Bool) (maxDepth : Nat) : Nat → Loop Z → List (Nat × Bool)
  | 0, _ => []
  | fuel + 1, st =>
    if st.s && decide (st.j ≤ maxDepth) then
      let st' := loopBody c guard st
      (st'.last.length, st'.acc) :: loopProfile c guard maxDepth fuel st'
    else []

end CuqiVerif.C08
