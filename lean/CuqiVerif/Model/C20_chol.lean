/-
  C20 model, part 4 — `cuqi.utilities.sparse_cholesky` and what `GMRF.__init__` derives from it
  (`_chol`, `_logdet` of the zero-boundary branch, the `sqrt(eps)`-regularised factor of the
  periodic / Neumann branch, `sqrtprec`).

  `sparse_cholesky(A)` asks SuperLU for `A = L·U` with `diag_pivot_thresh=0`, `permc_spec='natural'`
  (elimination in the natural order, taking the diagonal entry as pivot whenever it is non-zero),
  accepts iff no row was exchanged and every `U_ii > 0`, and returns `(L · diag(√U_ii))ᵀ`.
  `luNoPivot` is that elimination over exact rationals (outer-product form); a zero pivot — where
  SuperLU would exchange rows or give up — and a non-positive pivot are refusals.  Square roots are
  not rational: the factor is returned as `(L, d)` and stands for `R = diag(√d)·Lᵀ`, i.e.
  `R_ij = √d_i · L_ji`; `2·Σ log R_ii = Σ log d_i`.

  `cholCheck` re-multiplies exactly: `L·diag(d)·Lᵀ = A`, `L` unit lower triangular, `d > 0` — the
  hypotheses of theorem `ldl_cert` (`Props/C20_chol.lean`); the driver reports it with every factor.
  `tridiagL` / `tridiagD` are the closed forms for the 1-D first-order zero-boundary precision
  `tridiag(-1, 2, -1)`; the driver compares the elimination with them on every run, and theorem
  `tridiagD_prod` telescopes the pivots: `Π d_j = n + 1` for every `n`.

  Imports only the shared rational list matrices; executable.
-/
import CuqiVerif.Model.QMat
namespace CuqiVerif.C20
open CuqiVerif.QMat

/-- LU without row exchanges, outer-product (right-looking) form.  Returns the rows of the unit lower
    triangular `L` and the pivots `d = diag U`; `none` at a zero pivot. -/
def luNoPivot : (n : Nat) → Mat → Option (Mat × Vec)
  | 0, _ => some ([], [])
  | _ + 1, [] => some ([], [])
  | _ + 1, [] :: _ => none
  | n + 1, (a :: r) :: rest =>
    if a = 0 then none else
    let l : Vec := rest.map (fun row => row.headD 0 / a)
    let S : Mat := List.zipWith (fun li row => List.zipWith (fun rj x => x - li * rj) r row.tail) l rest
    match luNoPivot n S with
    | none => none
    | some (L', d') =>
      some ((1 :: List.replicate rest.length 0) :: List.zipWith (fun li row => li :: row) l L', a :: d')

/-- `sparse_cholesky(A)`: `(L, d)` standing for `R = diag(√d)·Lᵀ`, or a refusal (`TypeError` /
    SuperLU's `RuntimeError`) when a pivot is not positive. -/
def sparseCholesky (A : Mat) : Option (Mat × Vec) :=
  match luNoPivot A.length A with
  | none => none
  | some (L, d) => if d.all (fun x => decide (0 < x)) then some (L, d) else none

/-- exact certificate: `L` unit lower triangular, `d > 0`, `L·diag(d)·Lᵀ = A` -/
def cholCheck (A L : Mat) (d : Vec) : Bool :=
  let n := A.length
  L.length == n && d.length == n && d.all (fun x => decide (0 < x))
    && (List.range n).all (fun i => (List.range n).all (fun j =>
          (if i = j then entry L i j == 1 else if i < j then entry L i j == 0 else true)
          && (List.range n).foldl (fun acc k => acc + entry L i k * d.getD k 0 * entry L j k) 0 == entry A i j))

/-- `GMRF.__init__`, periodic / Neumann branch: the matrix handed to `sparse_cholesky` is
    `P + sqrt(eps)·I`, `eps = 2⁻⁵²` (so `sqrt(eps) = 2⁻²⁶` exactly). -/
def regularised (P : Mat) : Mat := madd P (mscale (1 / 67108864) (ident P.length))

/-- closed form for `tridiag(-1, 2, -1)`: `L_ij = [i = j] − [i = j + 1]·(j+1)/(j+2)` -/
def tridiagL (i j : Nat) : Rat :=
  if i = j then 1 else if i = j + 1 then -((j + 1 : Nat) : Rat) / ((j + 2 : Nat) : Rat) else 0

/-- closed form for `tridiag(-1, 2, -1)`: pivots `d_j = (j+2)/(j+1)` -/
def tridiagD (j : Nat) : Rat := ((j + 2 : Nat) : Rat) / ((j + 1 : Nat) : Rat)

/-! ### `GMRF._sample`, zero-boundary branch

`s = mean + (1/sqrt(prec)) * spsolve(self._chol.T, xi)` with `self._chol.T = R = diag(√d)·Lᵀ` upper
triangular: `R y = xi  ⟺  Lᵀ y = xi ./ √d`.  `backSubst L w` is the back substitution with the unit
upper triangular `Lᵀ` (exact rationals; `w = xi ./ √d` is handed over by the harness, which scripts
the generator so that `w` is rational); `backCheck` re-multiplies `Lᵀ y = w` exactly. -/

/-- solve `Lᵀ y = w` for unit lower triangular `L`: `y_i = w_i − Σ_{k>i} L_{k i} y_k`, last row first -/
def backSubst (L : Mat) (w : Vec) : Vec :=
  let n := w.length
  (List.range n).foldr (fun i ys =>
    (w.getD i 0 - (List.range (n - i - 1)).foldl (fun acc t => acc + entry L (i + 1 + t) i * ys.getD t 0) 0) :: ys) []

/-- exact certificate `Lᵀ y = w` -/
def backCheck (L : Mat) (y w : Vec) : Bool :=
  y.length == w.length &&
  (List.range w.length).all (fun i =>
    (List.range w.length).foldl (fun acc k => acc + entry L k i * y.getD k 0) 0 == w.getD i 0)

/-- `(s − mean)·sqrt(prec)` of one zero-boundary draw, from `w = xi ./ √d` -/
def sampleZero (A : Mat) (w : Vec) : Option (Vec × Bool) :=
  match sparseCholesky A with
  | none => none
  | some (L, _) => let y := backSubst L w; some (y, backCheck L y w)

end CuqiVerif.C20
