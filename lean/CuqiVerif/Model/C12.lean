/-
  C12 model — `cuqi.model.Model` (`_2fun`, `_2par`, `_apply_func`, `_parse_args_add_to_kwargs`,
  `forward`, `gradient`, `_check_gradient_can_be_computed`), the constructors of `Model`
  (`jacobian=` wrapper), `LinearModel` and `PDEModel`, and `CUQIarray.funvals/parameters`
  (`cuqi/model/_model.py`, `cuqi/array/_array.py`).  Import-free and executable.

  The carrier of numbers is an arbitrary type: `α` for everything that lives on the domain side
  (parameters *and* function values of the domain geometry — to Python both are just arrays, and
  the code decides from flags how to read them), `β` for the range side.  The driver runs
  `α = β = List Rat` (function values are identified with their C-order flattening); the theorems
  of `Props/C12.lean` quantify over every carrier, every geometry map and every forward
  function, i.e. they are about the very definitions executed here.

  What the code can see of a value besides its numbers is whether it is a plain `ndarray` or a
  `CUQIarray`, and for the latter its own `is_par` flag and its geometry.  That is `Tag`.  numpy
  propagates the subclass and its attributes through arithmetic (`__array_finalize__`), so user
  callables are functions on tagged values.

  Geometry objects are named by an identifier `gid`; the relation `g == G` (`Geometry.__eq__`,
  which is neither symmetric nor total) is carried explicitly by `Geom.eqTrue` / `Geom.eqRaises`.
  Geometries that compare equal are assumed to have the same maps (docs/C12.md).

  The model is faithful to the code including two behaviours that the property does not allow:
  * `_apply_func` on a `Samples` object always passes `is_par=True` (both the `is_par` argument and
    the `is_par` flag of the collection are ignored);
  * `gradient` hands the result of `domain_geometry.gradient` to `_2par(..., is_par=True)`, which
    prefers the value's own (possibly inherited, stale) `is_par=False` flag when it is a CUQIarray
    of the domain geometry and then applies `fun2par` to a parameter-space gradient.
-/
namespace CuqiVerif.C12

/-- Exception classes that the modelled code raises. -/
inductive Err | notImplemented | valueError | typeError | indexError | keyError
  deriving DecidableEq, Repr

def Err.toString : Err → String
  | .notImplemented => "NotImplementedError"
  | .valueError => "ValueError"
  | .typeError => "TypeError"
  | .indexError => "IndexError"
  | .keyError => "KeyError"

/-- What a `CUQIarray` carries besides its numbers. -/
structure Tag where
  isPar : Bool
  geom : Nat
  deriving DecidableEq, Repr

/-- A numpy value as the code sees it: `tag = none` is a plain `ndarray`. -/
structure Val (α : Type) where
  data : α
  tag : Option Tag

def Val.plain {α : Type} (a : α) : Val α := ⟨a, none⟩

/-- The two maps of a geometry as an array carries them (`self.geometry.par2fun / fun2par`). -/
structure Maps (α : Type) where
  p2f : α → α
  f2p : α → Except Err α

/-- A geometry: an identifier of the object, `par2fun`, `fun2par` (may raise: `NotImplementedError` of the
    base class, `ValueError` of a `MappedGeometry` without `imap`), whether its *type* is in
    `_get_identity_geometries()`, the optional user attribute `gradient(direction, wrt_par)`,
    and whether numpy keeps the CUQIarray subclass through `par2fun` / `fun2par`. -/
structure Geom (α : Type) where
  gid : Nat
  p2f : α → α
  f2p : α → Except Err α
  identityType : Bool
  grad : Option (Val α → Val α → Val α)
  parDim : Nat
  p2fKeeps : Bool := true
  f2pKeeps : Bool := true
  /-- the *other* geometry objects `g` for which `g == self` is `True`, with `g`'s own maps
      (`Geometry.__eq__` is neither symmetric nor total nor does it imply equal maps — e.g.
      `_DefaultGeometry1D(6) == KLExpansion(grid of 6 nodes)` — so the relation is carried
      explicitly; the left operand is the array's geometry, whose maps `CUQIarray.funvals` /
      `.parameters` use) -/
  eqTrue : List (Nat × Maps α) := []
  /-- identifiers of the geometries `g` for which evaluating `g == self` raises, with the class
      (`IndexError` in `Geometry._all_values_equal` when two list-valued attributes have different
      lengths, e.g. `Discrete(3) == Discrete(4)`; `KeyError` when `g` has an instance attribute that
      `self` lacks, e.g. a user-assigned `gradient`) -/
  eqRaises : List (Nat × Err) := []

def Geom.maps {α : Type} (G : Geom α) : Maps α := ⟨G.p2f, G.f2p⟩

section core
variable {α β : Type}

/-- `CUQIarray.funvals` of an array whose own geometry has the maps `G`. -/
def arrFunvals (G : Maps α) (d : α) (t : Tag) : Val α :=
  ⟨if t.isPar then G.p2f d else d, some ⟨false, t.geom⟩⟩

/-- `CUQIarray.parameters` of an array whose own geometry has the maps `G`. -/
def arrParameters (G : Maps α) (d : α) (t : Tag) : Except Err (Val α) :=
  (if t.isPar then pure d else G.f2p d) >>= fun p => pure ⟨p, some ⟨true, t.geom⟩⟩

/-- `val.geometry == geometry` for a CUQIarray `val` -/
def geomEq (t : Tag) (G : Geom α) : Except Err (Option (Maps α)) :=
  match G.eqRaises.lookup t.geom with
  | some e => throw e
  | none => pure (if t.geom = G.gid then some G.maps else G.eqTrue.lookup t.geom)

/-- `Model._2fun(x, geometry, is_par)` -/
def toFun (G : Geom α) (x : Val α) (isPar : Bool) : Except Err (Val α) :=
  match x.tag with
  | some t =>
      geomEq t G >>= fun eq =>
      match eq with
      | some own => pure (arrFunvals own x.data t)
      | none =>
        if isPar then pure ⟨G.p2f x.data, if G.p2fKeeps then x.tag else none⟩
        else pure x
  | none => if isPar then pure ⟨G.p2f x.data, none⟩ else pure x

/-- `Model._2par(val, geometry, to_CUQIarray, is_par)` -/
def toPar (G : Geom α) (v : Val α) (toArr : Bool) (isPar : Bool) : Except Err (Val α) :=
  (match v.tag with
   | some t =>
       geomEq t G >>= fun eq =>
       match eq with
       | some own => arrParameters own v.data t
       | none =>
         if !isPar then G.f2p v.data >>= fun p => pure ⟨p, if G.f2pKeeps then v.tag else none⟩
         else pure v
   | none => if !isPar then G.f2p v.data >>= fun p => pure ⟨p, none⟩ else pure v) >>= fun r =>
  pure (if toArr then ⟨r.data, some ⟨true, G.gid⟩⟩ else r)

/-- Model inputs: one array, or a `Samples` object (columns, its own `is_par` flag, geometry). -/
inductive Input (α : Type)
  | one (x : Val α)
  | samples (cols : List α) (isPar : Bool) (geom : Nat)

/-- Model outputs: one array, or `Samples(out, geometry=func_range_geometry)`. -/
inductive Output (β : Type)
  | one (y : Val β)
  | samples (cols : List β) (geom : Nat)

/-- The non-`Samples` part of `Model._apply_func`. -/
def applyOne (func : Val α → Except Err (Val β)) (R : Geom β) (D : Geom α)
    (x : Val α) (isPar : Bool) : Except Err (Val β) :=
  let isArr := x.tag.isSome          -- `type(x) is CUQIarray`
  toFun D x isPar >>= fun xf => func xf >>= fun out => toPar R out isArr false

/-- `Model._apply_func`: a `Samples` object is iterated column by column, each column a plain
    array, **always** with `is_par=True`. -/
def applyFunc (func : Val α → Except Err (Val β)) (R : Geom β) (D : Geom α)
    (x : Input α) (isPar : Bool) : Except Err (Output β) :=
  match x with
  | .samples cols _ _ =>
      cols.mapM (fun c => applyOne func R D (Val.plain c) true >>= fun p => pure p.data)
        >>= fun outs => pure (.samples outs R.gid)
  | .one x => applyOne func R D x isPar >>= fun p => pure (.one p)

/-- The attributes of a model object (`vars(model)`): the functions, the geometries, the names of
    the non-default arguments, and the attributes the subclasses add (`_matrix`, `_adjoint_func`,
    `pde`) as opaque identities. -/
structure ModelObj (α β : Type) where
  forwardFunc : Val α → Except Err (Val β)
  gradientFunc : Option (Val β → Val α → Except Err (Val α))
  rangeGeom : Geom β
  domainGeom : Geom α
  nonDefaultArgs : List String
  extra : List (String × Nat) := []

/-- What is passed to `forward`: data, or a distribution (its `dim` and `name`). -/
inductive FwdArg (α : Type)
  | data (x : Input α)
  | dist (dim : Nat) (name : String)

inductive FwdOut (α β : Type)
  | data (y : Output β)
  | model (m : ModelObj α β)

/-- `set(kwargs.keys()) == set(non_default_args)` -/
def sameNameSet (a b : List String) : Bool := a.all (b.contains ·) && b.all (a.contains ·)

/-- `_parse_args_add_to_kwargs` followed by the two checks of `forward`; returns the keyword
    names after parsing.  `nPos` positional arguments, keyword names `kw` (distinct). -/
def parseArgs (nonDefault : List String) (nPos : Nat) (kw : List String) : Except Err (List String) :=
  (if nPos > 0 then
      if kw.length > 0 then throw Err.valueError
      else if nPos ≠ nonDefault.length then throw Err.valueError
      else pure (nonDefault.take nPos)
    else pure kw) >>= fun kws =>
  if !sameNameSet kws nonDefault then throw Err.valueError
  else if kws.length > 1 then throw Err.valueError
  else pure kws

/-- `Model.forward` -/
def forward (m : ModelObj α β) (nPos : Nat) (kw : List String) (arg : FwdArg α) (isPar : Bool) :
    Except Err (FwdOut α β) :=
  parseArgs m.nonDefaultArgs nPos kw >>= fun _ =>
  match arg with
  | .dist dim name =>
      if dim ≠ m.domainGeom.parDim then throw Err.valueError
      else pure (.model { m with nonDefaultArgs := [name] })      -- `copy(self)` + one assignment
  | .data x => applyFunc m.forwardFunc m.rangeGeom m.domainGeom x isPar >>= fun y => pure (.data y)

/-- `_check_gradient_can_be_computed` (order of the checks as in the code). -/
def checkGradient (m : ModelObj α β) (dirIsSamples wrtIsSamples : Bool) : Except Err Unit :=
  if m.gradientFunc.isNone then throw Err.notImplemented
  else if dirIsSamples || wrtIsSamples then throw Err.valueError
  else if !m.rangeGeom.identityType then throw Err.notImplemented
  else if m.domainGeom.grad.isNone && !m.domainGeom.identityType then throw Err.notImplemented
  else pure ()

/-- `Model.gradient` for array arguments. -/
def gradientOne (m : ModelObj α β) (dir : Val β) (wrt : Val α) (isDirPar isWrtPar : Bool) :
    Except Err (Val α) :=
  -- wrt_par = self._2par(wrt, geometry=self.domain_geometry, is_par=is_wrt_par, to_CUQIarray=False)
  -- (ValueError / NotImplementedError are re-raised as the same class)
  toPar m.domainGeom wrt false isWrtPar >>= fun wrtPar =>
  checkGradient m false false >>= fun _ =>
  match m.gradientFunc with
  | none => throw Err.notImplemented
  | some gf =>
    toFun m.domainGeom wrt isWrtPar >>= fun wrtF =>
    let dirIsArr := dir.tag.isSome
    toFun m.rangeGeom dir isDirPar >>= fun dirF =>
    gf dirF wrtF >>= fun g =>
    match m.domainGeom.grad with
    | some gg => toPar m.domainGeom (gg g wrtPar) dirIsArr true
    | none => toPar m.domainGeom g dirIsArr false

/-- Arguments of `gradient`: an array or a `Samples` object. -/
inductive GArg (α : Type)
  | one (x : Val α)
  | samples

/-- `Model.gradient`.  A `Samples` object as `wrt` with `is_wrt_par=True` passes `_2par`
    untouched and is refused by the check; with `is_wrt_par=False` the code calls `fun2par` on the
    `Samples` object, which is outside the model (`none`). -/
def gradient (m : ModelObj α β) (dir : GArg β) (wrt : GArg α) (isDirPar isWrtPar : Bool) :
    Option (Except Err (Val α)) :=
  match dir, wrt with
  | .one d, .one w => some (gradientOne m d w isDirPar isWrtPar)
  | .samples, .one w =>
      some (toPar m.domainGeom w false isWrtPar >>= fun _ => checkGradient m true false >>= fun _ =>
            throw Err.valueError)
  | d, .samples =>
      if isWrtPar then
        some (checkGradient m (match d with | .samples => true | _ => false) true >>= fun _ =>
              throw Err.valueError)
      else none

end core

/-! ## How numpy callables treat the subclass -/

/-- Which argument's tag the result of a user callable inherits. -/
inductive TagRule | strip | arg1 | arg2
  deriving DecidableEq, Repr

/-- a unary numpy function: the result is a CUQIarray with the argument's attributes, or plain -/
def lift1 {α β : Type} (keep : Bool) (f : α → β) : Val α → Val β :=
  fun v => ⟨f v.data, if keep then v.tag else none⟩

def lift2 {α β γ : Type} (r : TagRule) (f : α → β → γ) : Val α → Val β → Val γ :=
  fun a b => ⟨f a.data b.data, match r with | .strip => none | .arg1 => a.tag | .arg2 => b.tag⟩

/-! ## Vectors and matrices over an arbitrary carrier (lists; the driver runs `Rat`) -/

section linalg
variable {K : Type} [Add K] [Mul K] [OfNat K 0]

def dot : List K → List K → K
  | a :: as, b :: bs => a * b + dot as bs
  | _, _ => 0

/-- `A @ x` -/
def mulVec (A : List (List K)) (x : List K) : List K := A.map (fun r => dot r x)

def vadd : List K → List K → List K
  | a :: as, b :: bs => (a + b) :: vadd as bs
  | _, _ => []

def vscale (c : K) (v : List K) : List K := v.map (c * ·)

def vzero (n : Nat) : List K := List.replicate n 0

/-- `d @ J` (vector–matrix product): `Σ_i d_i · row_i`, length `n` -/
def vecMat (n : Nat) : List K → List (List K) → List K
  | d :: ds, r :: rs => vadd (vscale d r) (vecMat n ds rs)
  | _, _ => vzero n

/-- elementwise product -/
def hmul : List K → List K → List K
  | a :: as, b :: bs => (a * b) :: hmul as bs
  | _, _ => []

end linalg

/-! ## Constructors of the three model classes -/

section ctors
variable {K : Type} [Add K] [Mul K] [OfNat K 0]

/-- `Model(forward, R, D, jacobian=jac)`: `gradient = lambda direction, wrt: direction@jacobian(wrt)`.
    `n` is the domain function dimension (columns of the Jacobian).  The Jacobian callable returns a
    plain matrix, so the product inherits the subclass of `direction`. -/
def jacobianWrapper (n : Nat) (jac : List K → List (List K)) : Val (List K) → Val (List K) → Val (List K) :=
  lift2 .arg1 (fun d w => vecMat n d (jac w))

/-- generic `Model.__init__` (the refusals of the constructor are in the driver) -/
def mkModel (fwd : Val (List K) → Except Err (Val (List K)))
    (grad : Option (Val (List K) → Val (List K) → Except Err (Val (List K))))
    (R D : Geom (List K)) (argName : String) : ModelObj (List K) (List K) :=
  { forwardFunc := fwd, gradientFunc := grad, rangeGeom := R, domainGeom := D, nonDefaultArgs := [argName] }

/-- `LinearModel(A)` for a dense matrix `A` (`m × n`, `At` its transpose as numpy computes it):
    `forward_func = lambda x: self._matrix@x`, `adjoint_func = lambda y: self._matrix.T@y`,
    `_gradient_func = lambda direction, wrt: self._adjoint_func(direction)`. -/
def linearFromMatrix (A At : List (List K)) (R D : Geom (List K)) : ModelObj (List K) (List K) :=
  { forwardFunc := fun v => pure (lift1 true (mulVec A) v)
    gradientFunc := some (fun d _ => pure (lift1 true (mulVec At) d))
    rangeGeom := R, domainGeom := D, nonDefaultArgs := ["x"]
    extra := [("_adjoint_func", 1), ("_matrix", 2)] }

/-- `LinearModel(forward, adjoint, R, D)` from callables. -/
def linearFromFuncs (fwd adj : Val (List K) → Except Err (Val (List K))) (R D : Geom (List K))
    (argName : String) : ModelObj (List K) (List K) :=
  { forwardFunc := fwd
    gradientFunc := some (fun d _ => adj d)
    rangeGeom := R, domainGeom := D, nonDefaultArgs := [argName]
    extra := [("_adjoint_func", 1), ("_matrix", 0)] }

/-- What a PDE object offers to `PDEModel._gradient_func`. -/
inductive PdeGrad (K : Type)
  | gradientWrtParameter (g : Val (List K) → Val (List K) → Val (List K))
  | jacobianWrtParameter (n : Nat) (jac : List K → List (List K))
  | nothing

/-- `PDEModel(PDE, R, D)`: `_forward_func` = assemble, solve, observe (`solveObserve`);
    `_gradient_func` is never `None` — without PDE support it raises only when called, i.e. *after*
    the geometry checks. -/
def pdeModel (solveObserve : Val (List K) → Except Err (Val (List K))) (pg : PdeGrad K)
    (R D : Geom (List K)) : ModelObj (List K) (List K) :=
  { forwardFunc := solveObserve
    gradientFunc := some (fun d w =>
      match pg with
      | .gradientWrtParameter g => pure (g d w)
      | .jacobianWrtParameter n jac => pure (jacobianWrapper n jac d w)
      | .nothing => throw Err.notImplemented)
    rangeGeom := R, domainGeom := D, nonDefaultArgs := ["x"]
    extra := [("pde", 3)] }

end ctors

end CuqiVerif.C12
