/-
  C09 model, part 4 — which sampler a block of legacy `Gibbs` is drawn by
  (`cuqi/sampler/_gibbs.py`):

      self.samplers = {}                                         # __init__ 77-84
      for par_name in sampling_strategy.keys():
          if isinstance(par_name, tuple):
              for par_name_ in par_name: self.samplers[par_name_] = sampling_strategy[par_name]
          else:
              self.samplers[par_name] = sampling_strategy[par_name]
      …
      sampler = self.samplers[par_name](self.target(**other_params))   # step 132: KeyError if no key names the block

  Tuple keys are split, a later key overwrites an earlier one, keys that name no parameter are never
  looked at (legacy `Gibbs` does not refuse them — `HybridGibbs` does, see `validateStrategy`), and a block
  without sampler makes the FIRST SWEEP raise `KeyError` when it is reached — after the blocks before it
  have been advanced — not the constructor.

  Import-free apart from `Model/C09.lean`; executable (driver op `ls`).
-/
import CuqiVerif.Model.C09

namespace CuqiVerif.C09

variable {N V S : Type}

/-- a key of the legacy `sampling_strategy`: a parameter name or a tuple of names -/
inductive SKey (N : Type) where
  | one (n : N)
  | many (ns : List N)

def SKey.names : SKey N → List N
  | .one n => [n]
  | .many ns => ns

/-- `d[n] = s` on an insertion-ordered dictionary: an existing key keeps its place and gets the new value -/
def dictSet [DecidableEq N] : List (N × S) → N → S → List (N × S)
  | [], n, s => [(n, s)]
  | (k, v) :: r, n, s => if k = n then (k, s) :: r else (k, v) :: dictSet r n s

/-- `d[n]` (`none` = `KeyError`) -/
def dictGet [DecidableEq N] : List (N × S) → N → Option S
  | [], _ => none
  | (k, v) :: r, n => if k = n then some v else dictGet r n

/-- the loop of `Gibbs.__init__` building `self.samplers` -/
def lparse [DecidableEq N] (strategy : List (SKey N × S)) : List (N × S) :=
  strategy.foldl (fun acc kv => kv.1.names.foldl (fun a n => dictSet a n kv.2) acc) []

/-- `self.samplers[par_name]` -/
def lassigned [DecidableEq N] (strategy : List (SKey N × S)) (n : N) : Option S :=
  dictGet (lparse strategy) n

/-- one iteration of the loop of legacy `Gibbs.step` with the dictionary look-up `self.samplers[par_name]` -/
def lstepChecked [DecidableEq N] (has : N → Bool) (ds : Nat → V) (names : List N)
    (acc : Except ((N → V) × Nat × List (LEv N V)) ((N → V) × Nat × List (LEv N V))) (n : N) :
    Except ((N → V) × Nat × List (LEv N V)) ((N → V) × Nat × List (LEv N V)) :=
  match acc with
  | .error e => .error e
  | .ok s => if has n then .ok (lblock ds names s n) else .error s

/-- legacy `Gibbs.step` with the dictionary look-up: the sweep stops with `KeyError` at the first block
    that has no sampler; `.error st` carries the state reached (the blocks before it were advanced) -/
def lsweepChecked [DecidableEq N] (has : N → Bool) (ds : Nat → V) (names : List N)
    (st : (N → V) × Nat × List (LEv N V)) :
    Except ((N → V) × Nat × List (LEv N V)) ((N → V) × Nat × List (LEv N V)) :=
  names.foldl (lstepChecked has ds names) (.ok st)

end CuqiVerif.C09
