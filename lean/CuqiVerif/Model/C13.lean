/-
  C13 model — geometry maps (`cuqi/geometry/_geometry.py`), the conversion automaton of
  `Samples` (`cuqi/samples/_samples.py`) and of `CUQIarray` (`cuqi/array/_array.py`).
  Import-free and executable.

  A numpy array is a shape and its C-order flat data (`Arr`).  `reshape(order='C')` keeps the flat
  data; `reshape/ravel(order='F')` are index permutations.  Every map below is transcribed from
  the Python, including the `squeeze` rules and the shape checks that raise (`none`).
-/
namespace CuqiVerif.C13

/-! ## arrays -/

def prod : List Nat → Nat
  | [] => 1
  | d :: ds => d * prod ds

/-- numpy array: shape and C-order flat data (entries at flat index ≥ size are never read) -/
structure Arr where
  shape : List Nat
  get : Nat → Rat

def Arr.size (x : Arr) : Nat := prod x.shape
def Arr.toList (x : Arr) : List Rat := (List.range x.size).map x.get
def Arr.ofList (shape : List Nat) (l : List Rat) : Arr := ⟨shape, fun i => l.getD i 0⟩

/-- `out[t] = x[σ t]` with a new shape -/
def Arr.gather (x : Arr) (shape : List Nat) (σ : Nat → Nat) : Arr := ⟨shape, fun t => x.get (σ t)⟩

/-- `x.squeeze()` : all unit axes removed (C-order data unchanged) -/
def squeezeShape (s : List Nat) : List Nat := s.filter (· ≠ 1)
def Arr.squeeze (x : Arr) : Arr := ⟨squeezeShape x.shape, x.get⟩

/-- C-order multi-index of a flat index -/
def unravelC : List Nat → Nat → List Nat
  | [], _ => []
  | _ :: ds, t => t / prod ds :: unravelC ds (t % prod ds)

def ravelC : List Nat → List Nat → Nat
  | _ :: ds, i :: is => i * prod ds + ravelC ds is
  | _, _ => 0

/-- F-order (first axis fastest) multi-index of an F-flat index -/
def unravelF : List Nat → Nat → List Nat
  | [], _ => []
  | d :: ds, f => f % d :: unravelF ds (f / d)

def ravelF : List Nat → List Nat → Nat
  | d :: ds, i :: is => i + d * ravelF ds is
  | _, _ => 0

/-- general `x.reshape(out, order='F')` (sizes assumed equal): read and write in F order -/
def reshapeFgen (x : Arr) (out : List Nat) : Arr :=
  ⟨out, fun t => x.get (ravelC x.shape (unravelF x.shape (ravelF out (unravelC out t))))⟩

/-- `target[...] = x` for a target of shape `ts`: numpy broadcasting (right-aligned; an axis of `x`
    must equal the target axis or be 1; extra leading axes of `x` must be 1). -/
def broadcastTo (x : Arr) (ts : List Nat) : Option Arr :=
  let extra := x.shape.length - ts.length
  if (x.shape.take extra).any (· ≠ 1) then none else
  let vs0 := x.shape.drop extra
  let vs := List.replicate (ts.length - vs0.length) 1 ++ vs0
  if (List.zipWith (fun v t => decide (v = t ∨ v = 1)) vs ts).all id then
    some ⟨ts, fun t => x.get (ravelC vs (List.zipWith (fun v i => if v = 1 then 0 else i) vs (unravelC ts t)))⟩
  else none

/-- `samples[..., i]` for an array whose last axis has length `ns` -/
def Arr.col (x : Arr) (ns i : Nat) : Arr := ⟨x.shape.dropLast, fun r => x.get (r * ns + i)⟩

/-- array with sample axis last whose `i`-th slice is `cols i` (each of shape `shape`) -/
def assemble (shape : List Nat) (ns : Nat) (cols : Nat → Arr) : Arr :=
  ⟨shape ++ [ns], fun t => (cols (t % ns)).get (t / ns)⟩

/-- batch version of a single-vector index map: column `k` of the output is the gather of column `k` -/
def liftBatch (σ : Nat → Nat) (ns : Nat) (t : Nat) : Nat := σ (t / ns) * ns + t % ns

/-! ## Image2D / Continuous2D -/

/-- C-flat image position `r = i*b + j`  ↦  F-flat vector position `i + a*j` -/
def imgFtoVec (a b : Nat) (r : Nat) : Nat := r / b + a * (r % b)
/-- F-flat vector position `m = i + a*j`  ↦  C-flat image position `i*b + j` -/
def vecToImgF (a b : Nat) (m : Nat) : Nat := (m % a) * b + m / a

/-- `Image2D._vector_to_image`: `vectors.reshape(im_shape+(-1,), order)` then
    `squeeze(axis=2)` iff the last axis has length 1. -/
def imageVectorToImage (a b : Nat) (orderF : Bool) (x : Arr) : Option Arr :=
  let d := a * b
  if d = 0 ∨ x.size % d ≠ 0 then none else
  let ns := x.size / d
  let full : Arr :=
    if !orderF then ⟨[a, b, ns], x.get⟩
    else if x.shape = [d] ∨ x.shape = [d, ns] then x.gather [a, b, ns] (liftBatch (imgFtoVec a b) ns)
    else reshapeFgen x [a, b, ns]
  some (if ns = 1 then ⟨[a, b], full.get⟩ else full)

/-- `funvals.ravel(order)` : always 1-D (also for a batch of images — the code does not keep the
    sample axis). -/
def imageRavel (orderF : Bool) (x : Arr) : Arr :=
  if !orderF then ⟨[x.size], x.get⟩
  else match x.shape with
    | [a, b] => x.gather [x.size] (vecToImgF a b)
    | [a, b, ns] => x.gather [x.size] (fun f => vecToImgF a b (f % (a * b)) * ns + f / (a * b))
    | sh => ⟨[x.size], fun f => x.get (ravelC sh (unravelF sh f))⟩

/-- `Continuous2D.par2fun`: `pars.reshape(fun_shape+(-1,)).squeeze()` -/
def cont2DPar2fun (a b : Nat) (x : Arr) : Option Arr :=
  let d := a * b
  if d = 0 ∨ x.size % d ≠ 0 then none else
  some (Arr.squeeze ⟨[a, b, x.size / d], x.get⟩)

/-- `Continuous2D.fun2par`: `funvals.reshape((par_dim,)+(-1,)).squeeze()` -/
def cont2DFun2par (a b : Nat) (x : Arr) : Option Arr :=
  let d := a * b
  if d = 0 ∨ x.size % d ≠ 0 then none else
  some (Arr.squeeze ⟨[d, x.size / d], x.get⟩)

/-! ## StepExpansion -/

inductive Proj | mean | max | min
  deriving DecidableEq, Repr

/-- interval ends as the code writes them, in exact arithmetic: `x0 + i*L/n_steps`, `L = grid[-1]-grid[0]` -/
def stepBound (g : Nat → Rat) (n s : Nat) (i : Nat) : Rat :=
  g 0 + (i : Rat) * (g (n - 1) - g 0) / (s : Rat)

/-- node value `x` lies in the `i`-th interval of the bounds `b` (first interval closed, others half-open) -/
def inStep (b : Nat → Rat) (x : Rat) (i : Nat) : Bool :=
  if i = 0 then decide (b 0 ≤ x) && decide (x ≤ b 1) else decide (b i < x) && decide (x ≤ b (i + 1))

/-- `StepExpansion._indices` -/
def stepIndices (b : Nat → Rat) (g : Nat → Rat) (n s : Nat) : List (List Nat) :=
  (List.range s).map fun i => (List.range n).filter fun k => inStep b (g k) i

/-- the documented rule on a regular grid, in integers: node `k` of `n` belongs to step `i` of `s` -/
def inStepIdeal (n s k i : Nat) : Bool :=
  if i = 0 then decide (k * s ≤ n - 1) else decide (i * (n - 1) < k * s) && decide (k * s ≤ (i + 1) * (n - 1))

def stepIndicesIdeal (n s : Nat) : List (List Nat) :=
  (List.range s).map fun i => (List.range n).filter fun k => inStepIdeal n s k i

/-- one entry of `par2fun`: `fun = zeros; for i in range(n_steps): fun[indices[i]] = p[i]` -/
def stepFill (b : Nat → Rat) (s : Nat) (p : Nat → Rat) (x : Rat) : Rat :=
  (List.range s).foldl (fun acc i => if inStep b x i then p i else acc) 0

def listSum (l : List Rat) : Rat := l.foldl (· + ·) 0
def ratMax (x y : Rat) : Rat := if x ≤ y then y else x
def ratMin (x y : Rat) : Rat := if x ≤ y then x else y

/-- `np.mean / np.max / np.min` over a list; `none` for the empty list (`nan`, resp. `ValueError`) -/
def project : Proj → List Rat → Option Rat
  | _, [] => none
  | .mean, x :: xs => some (listSum (x :: xs) / ((x :: xs).length : Rat))
  | .max, x :: xs => some (xs.foldl ratMax x)
  | .min, x :: xs => some (xs.foldl ratMin x)

/-- function values of the nodes of step `i` -/
def stepVals (b : Nat → Rat) (g : Nat → Rat) (n : Nat) (f : Nat → Rat) (i : Nat) : List Rat :=
  ((List.range n).filter fun k => inStep b (g k) i).map f

/-- `np.allclose(np.diff(grid), grid[1]-grid[0])` with numpy's defaults (rtol 1e-5, atol 1e-8) -/
def gridRegular (g : Nat → Rat) (n : Nat) : Bool :=
  let d := g 1 - g 0
  let ad := if d < 0 then -d else d
  (List.range (n - 1)).all fun k =>
    let e := (g (k + 1) - g k) - d
    let ae := if e < 0 then -e else e
    decide (ae ≤ mkRat 1 100000000 + mkRat 1 100000 * ad)

/-- what `StepExpansion.__init__` accepts (`_check_grid_setup`; `grid[1]` raises for one node) -/
def stepAccepts (g : Nat → Rat) (n s : Nat) : Bool := decide (s ≤ n) && decide (2 ≤ n) && gridRegular g n

/-- `Continuous._reshape_par2fun_input` for a 1-D space of dimension `m`: shape `(m,)` or `(m, N)` -/
def batchOf (m : Nat) (x : Arr) : Option Nat :=
  match x.shape with
  | [d] => if d = m then some 1 else none
  | [d, ns] => if d = m then some ns else none
  | _ => none

/-- `StepExpansion.par2fun` -/
def stepPar2fun (b : Nat → Rat) (g : Nat → Rat) (n s : Nat) (x : Arr) : Option Arr :=
  match batchOf s x with
  | none => none
  | some ns =>
    if s = 0 then none else   -- `reshape((0,-1))` raises
    some (Arr.squeeze ⟨[n, ns], fun t => stepFill b s (fun i => x.get (i * ns + t % ns)) (g (t / ns))⟩)

/-- `StepExpansion.fun2par`; `Except.error "nan"` when a step without nodes is averaged and
    `"raise"` when the code raises -/
def stepFun2par (b : Nat → Rat) (g : Nat → Rat) (n s : Nat) (proj : Proj) (x : Arr) : Except String Arr :=
  match batchOf n x with
  | none => .error "raise"
  | some ns =>
    if s = 0 then .error "raise" else
    let empty := (List.range s).any fun i => (stepVals b g n (fun _ => 0) i).isEmpty
    if empty then (if proj = .mean then .error "nan" else .error "raise") else
    .ok (Arr.squeeze ⟨[s, ns], fun t =>
      (project proj (stepVals b g n (fun k => x.get (k * ns + t % ns)) (t / ns))).getD 0⟩)

/-! ## KLExpansion (the transforms `idst`/`dst` stay outside: leaf data) -/

/-- `np.diag(coefs)` for an integer decay rate: `1/(i+1)^γ` -/
def klCoef (γ : Nat) (i : Nat) : Rat := 1 / ((i + 1 : Nat) : Rat) ^ γ

/-- `KLExpansion.num_modes` -/
def klNumModes (numModes : Option Nat) (n : Nat) : Nat :=
  match numModes with
  | none => n
  | some m => if m > n then n else m

/-- first half of `par2fun`: `pad(coefs @ p / normalizer)` to `N` rows (before `idst(.)/2`) -/
def klPre (c : Nat → Rat) (τ : Rat) (n m : Nat) (x : Arr) : Option Arr :=
  match batchOf m x with
  | none => none
  | some ns =>
    if m = 0 then none else
    some ⟨[n, ns], fun t => if t / ns < m then c (t / ns) * x.get (t / ns * ns + t % ns) / τ else 0⟩

/-- second half of `fun2par`: from `d = dst(2 f)` (shape `(N, ns)`):
    `coefs_inverse @ d[:m] * normalizer / (2 N)`, squeezed -/
def klPost (c : Nat → Rat) (τ : Rat) (n m : Nat) (d : Arr) : Option Arr :=
  match d.shape with
  | [n', ns] =>
    if n' ≠ n ∨ m = 0 then none else
    some (Arr.squeeze ⟨[m, ns], fun t => (c (t / ns))⁻¹ * d.get (t / ns * ns + t % ns) * τ / (2 * (n : Rat))⟩)
  | _ => none

/-! ## geometries with their reported shapes -/

inductive Geom
  | cont1D (n : Nat)                                  -- also `_DefaultGeometry1D`
  | cont2D (a b : Nat)
  | image (a b : Nat) (orderF visual : Bool)          -- also `_DefaultGeometry2D` (order C)
  | discrete (n : Nat)
  | step (grid : List Rat) (bounds : Option (List Rat)) (s : Nat) (proj : Proj)
  | mapped (inner : Geom) (scale shift : Rat) (hasInv : Bool)   -- `map = scale*f + shift` elementwise

def lget (l : List Rat) (i : Nat) : Rat := l.getD i 0

/-- bounds used by a step geometry: exact ones, or the given leaf data (the float values the
    implementation computed) -/
def stepB (grid : List Rat) (bounds : Option (List Rat)) (s : Nat) : Nat → Rat :=
  match bounds with
  | some bs => lget bs
  | none => stepBound (lget grid) grid.length s

def Geom.parShape : Geom → List Nat
  | .cont1D n => [n]
  | .cont2D a b => [a * b]
  | .image a b _ _ => [a * b]
  | .discrete n => [n]
  | .step _ _ s _ => [s]
  | .mapped g _ _ _ => g.parShape

def Geom.par2fun : Geom → Arr → Option Arr
  | .cont1D _, x => some x
  | .cont2D a b, x => cont2DPar2fun a b x
  | .image a b o v, x => if v then some x else imageVectorToImage a b o x
  | .discrete _, x => some x
  | .step grid bs s _, x => stepPar2fun (stepB grid bs s) (lget grid) grid.length s x
  | .mapped g sc sh _, x => (g.par2fun x).map fun y => ⟨y.shape, fun t => sc * y.get t + sh⟩

def Geom.fun2par : Geom → Arr → Except String Arr
  | .cont1D _, x => .ok x
  | .cont2D a b, x => match cont2DFun2par a b x with | some y => .ok y | none => .error "raise"
  | .image _ _ o v, x => if v then .ok x else .ok (imageRavel o x)
  | .discrete _, x => .ok x
  | .step grid bs s pr, x => stepFun2par (stepB grid bs s) (lget grid) grid.length s pr x
  | .mapped g sc sh inv, x =>
      if !inv then .error "raise" else g.fun2par ⟨x.shape, fun t => (x.get t - sh) / sc⟩

def ones (n : Nat) : Arr := ⟨[n], fun _ => 1⟩

/-- `fun_shape` (for `mapped` the generic inference `par2fun(ones(par_dim)).shape`) -/
def Geom.funShape : Geom → Option (List Nat)
  | .cont1D n => some [n]
  | .cont2D a b => some [a, b]
  | .image a b _ v => some (if v then [a * b] else [a, b])
  | .discrete n => some [n]
  | .step grid _ _ _ => some [grid.length]
  | .mapped g sc sh inv => ((Geom.mapped g sc sh inv).par2fun (ones (prod g.parShape))).map (·.shape)

/-- the base-class rule `fun_is_array and len(fun_shape) == 1` -/
def Geom.baseVec (g : Geom) : Bool :=
  match g.funShape with
  | some [_] => true
  | _ => false

def Geom.fun2vec : Geom → Arr → Except String Arr
  | .image a b o v, x => (Geom.image a b o v).fun2par x
  | .mapped g _ _ _, x => g.fun2vec x
  | g, x => if g.baseVec then .ok x else .error "raise"

def Geom.vec2fun : Geom → Arr → Option Arr
  | .image a b o v, x => (Geom.image a b o v).par2fun x
  | .mapped g _ _ _, x => g.vec2fun x
  | g, x => if g.baseVec then some x else none

def optOfExcept (e : Except String Arr) : Option Arr :=
  match e with | .ok y => some y | .error _ => none

/-- `funvec_shape` (`Image2D`: `par_shape`; otherwise inferred from `fun2vec(par2fun(ones))`,
    which must be 1-D) -/
def Geom.funvecShape (g : Geom) : Option (List Nat) :=
  match g with
  | .image a b _ _ => some [a * b]
  | _ =>
    match g.par2fun (ones (prod g.parShape)) with
    | none => none
    | some f =>
      match g.fun2vec f with
      | .ok v => if v.shape.length = 1 then some v.shape else none
      | .error _ => none

/-! ## Samples: the conversion automaton -/

structure Samples where
  arr : Arr          -- sample index = last axis
  isPar : Bool
  isVec : Bool

def Samples.ns (s : Samples) : Nat := s.arr.shape.getLastD 0

/-- fill `np.empty(shape+(Ns,))` slice by slice with `conv(samples[..., i])` (numpy broadcasting
    on assignment); `none` when a conversion or an assignment raises -/
def convertAll (shape : List Nat) (s : Samples) (conv : Arr → Option Arr) : Option Arr :=
  let ns := s.ns
  let cols := fun i => (conv (s.arr.col ns i)).bind (fun y => broadcastTo y shape)
  if (List.range ns).all (fun i => (cols i).isSome) then
    some (assemble shape ns (fun i => (cols i).getD ⟨[], fun _ => 0⟩))
  else none

/-- `Samples.funvals` -/
def Samples.funvals (g : Geom) (s : Samples) : Option Samples :=
  if !s.isPar && !s.isVec then some s else
  match g.funShape with
  | none => none
  | some fs =>
    let conv := if s.isPar then g.par2fun else g.vec2fun
    (convertAll fs s conv).map fun out => ⟨out, false, decide (out.shape.length ≤ 2)⟩

/-- `Samples.vector` -/
def Samples.vector (g : Geom) (s : Samples) : Option Samples :=
  if s.isVec || s.isPar then some s else
  match g.funvecShape with
  | none => none
  | some vs =>
    (convertAll [prod vs] s (fun x => optOfExcept (g.fun2vec x))).map fun out => ⟨out, s.isPar, true⟩

/-- `Samples.parameters` -/
def Samples.parameters (g : Geom) (s : Samples) : Option Samples :=
  if s.isPar then some s else
  let conv : Arr → Option Arr :=
    if !s.isVec then fun x => optOfExcept (g.fun2par x)
    else fun x => (g.vec2fun x).bind (fun f => optOfExcept (g.fun2par f))
  (convertAll [prod g.parShape] s conv).map fun out => ⟨out, true, true⟩

/-! ## CUQIarray -/

structure CArr where
  arr : Arr
  isPar : Bool

/-- `CUQIarray.__new__` refuses multi-dimensional parameter arrays -/
def CArr.mk? (x : Arr) (isPar : Bool) : Option CArr :=
  if isPar && decide (x.shape.length > 1) then none else some ⟨x, isPar⟩

def CArr.funvals (g : Geom) (c : CArr) : Option CArr :=
  (if c.isPar then g.par2fun c.arr else some c.arr).bind fun v => CArr.mk? v false

def CArr.parameters (g : Geom) (c : CArr) : Option CArr :=
  (if !c.isPar then optOfExcept (g.fun2par c.arr) else some c.arr).bind fun v => CArr.mk? v true

end CuqiVerif.C13
