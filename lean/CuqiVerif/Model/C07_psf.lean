/-
  C07 model, part 2 — the NAMED point-spread functions of the linear test problems
  (`cuqi/testproblem/_testproblem.py`): `_createPSF_1D`, `_GaussPSF_1D`, `_MoffatPSF_1D`,
  `_DefocusPSF_1D`, `_GaussPSF`, `_MoffatPSF`, `_DefocusPSF`, and the option handling around them in
  `_getConvolutionOperator` (1-D) and `Deconvolution2D.__init__` (2-D): PSF name (after `.lower()`),
  `PSF_size` / `PSF_param` defaults, the refusals.  Import-free (core Lean) and executable; the driver
  runs `R = Rat`.

  What stays leaf data: the scalar function `exp` of the Gauss PSF.  A Gauss PSF is
  `g(x² [+ y²]) / Σ g` with `g(t) = exp(−t/(2·PSF_param²))`; the model takes the profile `g : Nat → R`
  as a parameter (the harness supplies the floats `exp(−t/(2p²))`, `t = 0,1,2,…`), and transcribes the
  grid `np.arange(-np.fix(s/2), np.ceil(s/2))`, the `meshgrid`, and the normalisation.  Moffat
  (`beta = 1` in both the 1-D default and the 2-D call) and Defocus are rational and modelled exactly.
-/
import CuqiVerif.Model.C07

namespace CuqiVerif.C07

/-- entry `a` of `x = np.arange(-np.fix(s/2), np.ceil(s/2))` (`s` entries): `a − ⌊s/2⌋` -/
def psfOffset (s a : Nat) : Int := (a : Int) - ((s / 2 : Nat) : Int)

/-- `x[a]**2` as a natural number -/
def psfSq (s a : Nat) : Nat := (psfOffset s a).natAbs * (psfOffset s a).natAbs

/-- Defocus: `k − center` with the 1-BASED pixel index `k = a + 1` and the 0-based `center = ⌊s/2⌋`
    (`k = np.arange(1, PSF_size+1)`, `center = np.fix(int(PSF_size/2))`) -/
def defocusOff (s a : Nat) : Int := (a : Int) + 1 - ((s / 2 : Nat) : Int)

/-- `not ((k-center)**2 > PSF_param**2)` — pixel `a` keeps its value (`p2 = PSF_param²`, exact) -/
def defocusIn1 (s : Nat) (p2 : Rat) (a : Nat) : Bool :=
  decide ((((defocusOff s a) * (defocusOff s a) : Int) : Rat) ≤ p2)

/-- `not ((A[0].T + B[0])[a,b] > R**2)`, `A[0].T[a,b] = (k_a − c)²`, `B[0][a,b] = (k_b − c)²` -/
def defocusIn2 (s : Nat) (p2 : Rat) (a b : Nat) : Bool :=
  decide ((((defocusOff s a) * (defocusOff s a) + (defocusOff s b) * (defocusOff s b) : Int) : Rat) ≤ p2)

section psf
variable {R : Type} [Zero R] [One R] [Add R] [Mul R] [Div R]

/-- `Σ_{a,b<s} w a b` (`PSF.sum()` of an `s × s` array) -/
def sum2 (s : Nat) (w : Nat → Nat → R) : R := sumTo s (fun a => sumTo s (fun b => w a b))

/-- `PSF /= PSF.sum()` (1-D) -/
def normalize1 (s : Nat) (w : Nat → R) : Nat → R := fun a => w a / sumTo s w

/-- `PSF /= PSF.sum()` (2-D) -/
def normalize2 (s : Nat) (w : Nat → Nat → R) : Nat → Nat → R := fun a b => w a b / sum2 s w

/-- `_createPSF_1D(s, PSF_func)` for `PSF_func(x) = g(x**2)` (Gauss: `g t = exp(−t/(2p²))`;
    Moffat: `g t = (1 + t/p²)**(-1)`) -/
def radialPSF1 (s : Nat) (g : Nat → R) : Nat → R := normalize1 s (fun a => g (psfSq s a))

/-- `_GaussPSF([s,s], p)` / `_MoffatPSF([s,s], p, 1)`: `X, Y = np.meshgrid(x, y)` (`X[a,b] = x[b]`,
    `Y[a,b] = y[a]`), `PSF = g(X² + Y²)`, normalised -/
def radialPSF2 (s : Nat) (g : Nat → R) : Nat → Nat → R := normalize2 s (fun a b => g (psfSq s b + psfSq s a))

/-- Moffat profile with `beta = 1`: `(1 + t/p²)**(-1)`, `p2 = PSF_param²` -/
def moffatG [NatCast R] (p2 : R) (t : Nat) : R := 1 / (1 + (t : R) / p2)

/-- `_DefocusPSF_1D(s, p)`, `p ≠ 0`: `ones(s)/(π p²)`, zeroed where `(k − center)² > p²`, divided by its
    sum (the constant `1/(π p²)` cancels in exact arithmetic) -/
def defocusPSF1 (s : Nat) (p2 : Rat) : Nat → R := normalize1 s (fun a => if defocusIn1 s p2 a then 1 else 0)

/-- `_DefocusPSF([s,s], R)`, `R ≠ 0` -/
def defocusPSF2 (s : Nat) (p2 : Rat) : Nat → Nat → R := normalize2 s (fun a b => if defocusIn2 s p2 a b then 1 else 0)

end psf

/-! ## option handling -/

inductive PsfKind | gauss | moffat | defocus
  deriving DecidableEq, Repr

/-- the PSF names accepted (after `.lower()`); anything else raises (`ValueError` in 1-D, `NameError` on the
    first use of the unbound `P` in 2-D) -/
def psfKind : String → Option PsfKind
  | "gauss" => some .gauss | "moffat" => some .moffat | "defocus" => some .defocus | _ => none

/-- outcome of building a named PSF: the code raises; returns an array of NaN; returns the array -/
inductive PsfOut (α : Type) where
  | raises : PsfOut α
  | nan : PsfOut α
  | ok : α → PsfOut α

/-- number of pixels the Defocus PSF keeps (`PSF.sum()` up to the constant) -/
def defocusCount1 (s : Nat) (p2 : Rat) : Nat := sumTo s (fun a => if defocusIn1 s p2 a then 1 else 0)
def defocusCount2 (s : Nat) (p2 : Rat) : Nat := sum2 s (fun a b => if defocusIn2 s p2 a b then 1 else 0)

/-- `_GaussPSF_1D / _MoffatPSF_1D / _DefocusPSF_1D (s, param)`.
    * `PSF_param is None` → 10.
    * Gauss / Moffat: `s = 0` → `PSF.max()` of an empty array raises; `param = 0` → `x²/0`: every entry NaN,
      `np.where(PSF == PSF.max())[0][0]` raises `IndexError`.
    * Defocus: `param = 0` → the delta branch indexes with the float `center`: `IndexError` (known finding);
      no pixel kept → `0/0`: NaN array (no exception); `s = 0` → the empty array.
    `g` is the Gauss profile (leaf), used only by `.gauss`. -/
def namedPSF1 (k : PsfKind) (s : Nat) (param : Option Rat) (g : Nat → Rat) : PsfOut (Nat → Rat) :=
  let p : Rat := param.getD 10
  match k with
  | .gauss => if s = 0 ∨ p = 0 then .raises else .ok (radialPSF1 s g)
  | .moffat => if s = 0 ∨ p = 0 then .raises else .ok (radialPSF1 s (moffatG (p * p)))
  | .defocus =>
      if p = 0 then .raises
      else if s = 0 then .ok (defocusPSF1 s (p * p))        -- the empty array (nothing to normalise)
      else if defocusCount1 s (p * p) = 0 then .nan
      else .ok (defocusPSF1 s (p * p))

/-- `_GaussPSF / _MoffatPSF / _DefocusPSF ([s,s], param)` as called by `Deconvolution2D.__init__`;
    `param = none` is an explicit `PSF_param=None` (`None**2` raises `TypeError`). -/
def namedPSF2 (k : PsfKind) (s : Nat) (param : Option Rat) (g : Nat → Rat) : PsfOut (Nat → Nat → Rat) :=
  match param with
  | none => .raises
  | some p =>
    match k with
    | .gauss => if s = 0 ∨ p = 0 then .raises else .ok (radialPSF2 s g)
    | .moffat => if s = 0 ∨ p = 0 then .raises else .ok (radialPSF2 s (moffatG (p * p)))
    | .defocus =>
        if p = 0 then .raises
        else if s = 0 then .ok (defocusPSF2 s (p * p))      -- the empty array
        else if defocusCount2 s (p * p) = 0 then .nan
        else .ok (defocusPSF2 s (p * p))

/-- `Deconvolution2D.__init__` defaults: `PSF_param=2.56`, `PSF_size=21` -/
def deconv2dDefaultParam : Rat := 64 / 25
def deconv2dDefaultSize : Nat := 21

/-- `_getConvolutionOperator(dim, PSF=<name>, PSF_param, PSF_size, BC)` + the matrix assembly of
    `Deconvolution1D.__init__`, on the LOWER-CASED names: BC name, `PSF_size is None → dim`, the named PSF,
    `A[i,:] = conv(e_i)`.  Returns the PSF (size, entries) and the stored matrix. -/
def deconv1dNamedL (bcL nameL : String) (dim : Nat) (size : Option Nat) (param : Option Rat) (g : Nat → Rat) :
    PsfOut (Nat × (Nat → Rat) × LMat Rat) :=
  match bc1d bcL, psfKind nameL with
  | some m, some k =>
    let s := size.getD dim
    if s = 0 then .raises else                            -- `convolve1d`: "no filter weights given"
    match namedPSF1 k s param g with
    | .raises => .raises
    | .nan => .nan
    | .ok P => .ok (s, P, deconv1dMatrix m s P dim)
  | _, _ => .raises

/-- with the `.lower()` of `BC.lower()` / `PSF.lower()` -/
def deconv1dNamed (bc name : String) (dim : Nat) (size : Option Nat) (param : Option Rat) (g : Nat → Rat) :
    PsfOut (Nat × (Nat → Rat) × LMat Rat) :=
  deconv1dNamedL bc.toLower name.toLower dim size param g

/-- `Deconvolution2D(dim, PSF=<name>, PSF_param, PSF_size, BC)` on the LOWER-CASED names: the PSF and the
    function-backed model on `Image2D((dim,dim))` geometries. -/
def deconv2dNamedL (bcL nameL : String) (dim : Nat) (s : Nat) (param : Option Rat) (g : Nat → Rat) :
    PsfOut ((Nat → Nat → Rat) × LinModel Rat) :=
  match bc2d bcL, psfKind nameL with
  | some m, some k =>
    if s = 0 then .raises else                            -- `max(P.shape)` / padding of an empty PSF raises
    match namedPSF2 k s param g with
    | .raises => .raises
    | .nan => .nan
    | .ok P => .ok (P, deconv2dModel m s P dim)
  | _, _ => .raises

/-- with the `.lower()` of `BC.lower()` / `PSF.lower()` -/
def deconv2dNamed (bc name : String) (dim : Nat) (s : Nat) (param : Option Rat) (g : Nat → Rat) :
    PsfOut ((Nat → Nat → Rat) × LinModel Rat) :=
  deconv2dNamedL bc.toLower name.toLower dim s param g

end CuqiVerif.C07
