/-
  C17 model, part 3 — the piecewise phantoms of `_getExactSolution` in
  `cuqi/testproblem/_testproblem.py` that are computable exactly: `'square'`, `'hat'`, `'pc'`,
  `'skyscraper'` (the others — `gauss`, `sinc`, `vonMises`, `bumps`, `derivGauss` — involve
  `exp`/`sin`/`cos` and are written independently in the harness).  Import-free, executable.

  Transcribed statement by statement: `np.round` (round half to even), Python slice normalisation
  (negative start counts from the end, both ends are clipped), numpy's assignment rule (the right-hand
  side must have the length of the slice or length 1, otherwise `ValueError`), `np.piecewise`.
  Exact arithmetic: `np.linspace(0,1,dim)[i] = i/(dim-1)`; where a node coincides with a threshold
  the floating-point code may put it on either side (the harness accepts both there).
-/
namespace CuqiVerif.C17

/-- what `_getExactSolution` gives: an array, an array containing NaN (`0/0`), or an exception -/
inductive Phantom
  | ok (x : List Rat)
  | nan
  | raises (cls : String)
  deriving Repr, DecidableEq

/-- `np.round`: round half to even -/
def roundHalfEven (q : Rat) : Int :=
  let f := q.floor
  let r := q - (f : Rat)
  if r < 1 / 2 then f else if 1 / 2 < r then f + 1 else (if f % 2 = 0 then f else f + 1)

/-- Python slice bound normalisation for a sequence of length `n`: negative counts from the end, clipped to `[0, n]` -/
def pyBound (n : Nat) (i : Int) : Nat :=
  if i < 0 then (if (n : Int) + i < 0 then 0 else ((n : Int) + i).toNat) else (if (n : Int) < i then n else i.toNat)

/-- `x[a:b] = v` for a scalar `v` -/
def setSlice (x : List Rat) (a b : Int) (v : Rat) : List Rat :=
  let lo := pyBound x.length a
  let hi := pyBound x.length b
  (List.range x.length).zipWith (fun k xk => if lo ≤ k ∧ k < hi then v else xk) x

/-- `x[a:b] = vals`: `none` when numpy cannot broadcast (`len(vals)` is neither the slice length nor 1) -/
def setSliceVec (x : List Rat) (a b : Int) (vals : List Rat) : Option (List Rat) :=
  let lo := pyBound x.length a
  let hi := pyBound x.length b
  let len := hi - lo
  if vals.length = len then
    some ((List.range x.length).zipWith (fun k xk => if lo ≤ k ∧ k < hi then vals.getD (k - lo) 0 else xk) x)
  else if vals.length = 1 then
    some ((List.range x.length).zipWith (fun k xk => if lo ≤ k ∧ k < hi then vals.getD 0 0 else xk) x)
  else none

/-- `'square'`: `if phantom_param is None: 15`, `< 3` raises; `dimh = int(np.round(dim/2))`,
    `w = int(np.round(dim/phantom_param))`, `x[(dimh-w):(dimh+w)] = 1` -/
def phantomSquare (dim : Nat) (param : Option Rat) : Phantom :=
  let p := param.getD 15
  if p < 3 then .raises "ValueError" else
  let dimh := roundHalfEven ((dim : Rat) / 2)
  let w := roundHalfEven ((dim : Rat) / p)
  .ok (setSlice (List.replicate dim 0) (dimh - w) (dimh + w) 1)

/-- `'hat'`: `x[(dimh-w-1):(dimh)] = np.arange(w+1)/w`, `x[(dimh-1):(dimh+w)] = np.flipud(np.arange(w+1))/w`
    (`w = 0`: `0/0`) -/
def phantomHat (dim : Nat) (param : Option Rat) : Phantom :=
  let p := param.getD 15
  if p < 3 then .raises "ValueError" else
  let dimh := roundHalfEven ((dim : Rat) / 2)
  let w := roundHalfEven ((dim : Rat) / p)
  if w = 0 then
    -- `[0]/0 = [nan]` is broadcast into both slices; it lands in the array iff a slice is non-empty
    (if pyBound dim (dimh - 1) < pyBound dim dimh then .nan else .ok (List.replicate dim 0))
  else
  let up : List Rat := (List.range (w.toNat + 1)).map (fun (t : Nat) => ((t : Nat) : Rat) / ((w : Int) : Rat))
  match setSliceVec (List.replicate dim 0) (dimh - w - 1) dimh up with
  | none => .raises "ValueError"
  | some x1 =>
    match setSliceVec x1 (dimh - 1) (dimh + w) up.reverse with
    | none => .raises "ValueError"
    | some x2 => .ok x2

/-- `np.piecewise(x, conds, vals)` for half-open intervals `[t_k, t_{k+1})` (the last one closed at
    `xmax`): value of the interval containing `x`, `0` if none -/
def piecewise (thr : List Rat) (vals : List Rat) (xmax : Rat) (x : Rat) : Rat :=
  let n := vals.length
  -- np.piecewise assigns condition by condition: a later true condition overwrites
  (List.range n).foldl (fun acc k =>
    let lo := thr.getD k 0
    let inside :=
      if k + 1 = n then decide (lo ≤ x) && decide (x ≤ xmax)
      else decide (lo ≤ x) && decide (x < thr.getD (k + 1) 0)
    if inside then vals.getD k 0 else acc) 0

/-- `np.linspace(0, 1, dim)[i]` in exact arithmetic (`dim = 1`: the single node 0) -/
def unitMesh (dim i : Nat) : Rat := if dim ≤ 1 then 0 else (i : Rat) / ((dim : Rat) - 1)

def pcThr : List Rat := [0, 1 / 10, 3 / 20, 1 / 5, 1 / 4, 3 / 10, 3 / 5]
def pcVals : List Rat := [0, 2, 3, 2, 0, 1, 0]

/-- `'pc'`: `x_min, x_max = mesh[0], mesh[-1]` -/
def phantomPc (dim : Nat) : Phantom :=
  .ok ((List.range dim).map (fun i => piecewise pcThr pcVals (unitMesh dim (dim - 1)) (unitMesh dim i)))

def skyThr : List Rat := [0, 1 / 10, 3 / 20, 1 / 5, 1 / 4, 7 / 20, 19 / 50, 9 / 20, 11 / 20, 3 / 4, 4 / 5]
def skyVals : List Rat := [0, 3 / 2, 0, 13 / 10, 0, 3 / 4, 0, 1 / 4, 0, 1, 0]

/-- `'skyscraper'`: `x_min = 0`, `x_max = 1` -/
def phantomSky (dim : Nat) : Phantom :=
  .ok ((List.range dim).map (fun i => piecewise skyThr skyVals 1 (unitMesh dim i)))

/-- name dispatch of `_getExactSolution` (after `.lower()`) for the exactly computable phantoms;
    `none`: not one of them -/
def phantomExact (dim : Nat) (name : String) (param : Option Rat) : Option Phantom :=
  match name.toLower with
  | "square" => some (phantomSquare dim param)
  | "hat" => some (phantomHat dim param)
  | "pc" => some (phantomPc dim)
  | "skyscraper" => some (phantomSky dim)
  | _ => none

end CuqiVerif.C17
