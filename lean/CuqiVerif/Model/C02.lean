/-
  C02 model — the accept/reject transitions of the eight Metropolis-type kernels
  (import-free, executable).

  Transcribed functions
    cuqi/experimental/mcmc/_mh.py        MH.step, MH.validate_proposal
    cuqi/experimental/mcmc/_cwmh.py      CWMH.step
    cuqi/experimental/mcmc/_pcn.py       PCN.step
    cuqi/experimental/mcmc/_langevin_algorithm.py   MALA.step/_accept_or_reject/_log_proposal
    cuqi/sampler/_mh.py                  MH.single_update, MH.proposal (setter)
    cuqi/sampler/_cwmh.py                CWMH.single_update
    cuqi/sampler/_pcn.py                 pCN.single_update
    cuqi/sampler/_langevin_algorithm.py  MALA.single_update/log_proposal

  Numbers.  Points, scales, draws are exact rationals (`Rat`).  A target value is an `XVal`
  (IEEE special values kept apart from the finite ones) because the code branches on NaN/inf and
  because Python's builtin `min(0, r)` returns its FIRST argument when `r` is NaN.  `ℓ` is the
  float `np.log(u)` of the uniform draw (`-inf` for `u = 0`, which `rand()`∈[0,1) can return).

  Targets enter as functions `Vec → XVal` / `Vec → Vec` (theorems: arbitrary functions of the
  point; driver: the values the implementation recorded).  For the component-wise sampler the
  function also receives the query index, so that the same definition is run with the recorded
  stream `fun k _ => recs[k]` and reasoned about with `fun _ p => π p`.
-/
namespace CuqiVerif.C02

abbrev Vec := List Rat

/-- IEEE double as seen by the accept/reject logic. -/
inductive XVal
  | nan | neginf | posinf | fin (q : Rat)
  deriving DecidableEq, Repr

namespace XVal

def isNan : XVal → Bool
  | nan => true | _ => false

def isInf : XVal → Bool            -- `np.isinf`: both signs
  | neginf => true | posinf => true | _ => false

def isFinite : XVal → Bool
  | fin _ => true | _ => false

def neg : XVal → XVal
  | nan => nan | neginf => posinf | posinf => neginf | fin q => fin (-q)

/-- IEEE addition (`inf + -inf = nan`; overflow of finite values is not modelled). -/
def add : XVal → XVal → XVal
  | nan, _ => nan
  | _, nan => nan
  | fin a, fin b => fin (a + b)
  | posinf, neginf => nan
  | neginf, posinf => nan
  | posinf, _ => posinf
  | _, posinf => posinf
  | neginf, _ => neginf
  | _, neginf => neginf

def sub (a b : XVal) : XVal := add a (neg b)

/-- IEEE `<` (false as soon as a NaN is involved). -/
def lt : XVal → XVal → Bool
  | nan, _ => false
  | _, nan => false
  | fin a, fin b => decide (a < b)
  | neginf, neginf => false
  | neginf, _ => true
  | _, neginf => false
  | posinf, _ => false
  | fin _, posinf => true

/-- IEEE `<=`. -/
def le : XVal → XVal → Bool
  | nan, _ => false
  | _, nan => false
  | fin a, fin b => decide (a ≤ b)
  | neginf, _ => true
  | _, neginf => false
  | _, posinf => true
  | posinf, fin _ => false

/-- Python's builtin `min(0, r)`: `r if r < 0 else 0` — hence `min(0, nan) = 0`. -/
def pyMin0 (r : XVal) : XVal := if lt r (fin 0) then r else fin 0

end XVal

open XVal

/-- The eight kernels. -/
inductive Kernel
  | expMH | expCWMH | expPCN | expMALA | legMH | legCWMH | legPCN | legMALA
  deriving DecidableEq, Repr

/-- Does the kernel's `if` contain `not np.isnan(target_eval_star)`?  (All eight do since /repo
    commit d1cc7b3; legacy MALA spells it `np.isnan(logpi_eval_star) == False`.) -/
def Kernel.guardNan : Kernel → Bool
  | .expMH | .expCWMH | .expMALA | .expPCN | .legMH | .legCWMH | .legPCN => true
  | .legMALA => true                       -- `np.isnan(logpi_eval_star) == False`

/-- Does the kernel's `if` contain `not np.isinf(target_eval_star)`?  (All but legacy MALA.) -/
def Kernel.guardInf : Kernel → Bool
  | .expMH | .expCWMH | .expMALA | .expPCN | .legMH | .legCWMH | .legPCN => true
  | .legMALA => false

/-- The accept test with explicit guard flags:
    `(log_u <= min(0, ratio)) [and not isnan(star)] [and not isinf(star)]`. -/
def acceptsG (gn gi : Bool) (ell ratio tstar : XVal) : Bool :=
  le ell (pyMin0 ratio) && (!gn || !tstar.isNan) && (!gi || !tstar.isInf)

/-- The accept condition of kernel `k`. -/
def accepts (k : Kernel) (ell ratio tstar : XVal) : Bool :=
  acceptsG k.guardNan k.guardInf ell ratio tstar

/-- Sampler state touched by a transition: point, cached log-density (for pCN: cached
    log-LIKELIHOOD), cached gradient (MALA only, `[]` otherwise), scale(s). -/
structure St where
  x : Vec
  logd : XVal
  grad : Vec
  scale : Vec          -- one entry (scalar scale) or one per component (CWMH)
  deriving DecidableEq, Repr

/-- Common tail of every kernel: replace point and caches on acceptance, else keep everything. -/
def metropolis (k : Kernel) (st : St) (xs : Vec) (t : XVal) (gs : Vec) (ratio ell : XVal) : St × Bool :=
  if accepts k ell ratio t then ({ st with x := xs, logd := t, grad := gs }, true) else (st, false)

/-- `a*x + b*y` componentwise. -/
def lin (a : Rat) (x : Vec) (b : Rat) (y : Vec) : Vec := List.zipWith (fun u v => a * u + b * v) x y

def scalar (st : St) : Rat := st.scale.headD 0

/-- random-walk proposal `x + scale*xi` (MH.step / MH.single_update) -/
def mhPropose (st : St) (xi : Vec) : Vec := lin 1 st.x (scalar st) xi

/-- MH.step (experimental) / MH.single_update (legacy): symmetric proposal, ratio = difference of
    target values. -/
def mhStep (k : Kernel) (logd : Vec → XVal) (st : St) (xi : Vec) (ell : XVal) : St × Bool :=
  let xs := mhPropose st xi
  let t := logd xs
  metropolis k st xs t st.grad (t.sub st.logd) ell

/-- pCN proposal `sqrt(1-s²)*x + s*xi`; `c` stands for the float `np.sqrt(1 - s**2)`. -/
def pcnPropose (st : St) (c : Rat) (xi : Vec) : Vec := lin c st.x (scalar st) xi

/-- PCN.step / pCN.single_update: ratio = difference of LIKELIHOOD values; cache = likelihood. -/
def pcnStep (k : Kernel) (loglik : Vec → XVal) (c : Rat) (st : St) (xi : Vec) (ell : XVal) : St × Bool :=
  let xs := pcnPropose st c xi
  let t := loglik xs
  metropolis k st xs t st.grad (t.sub st.logd) ell

def sqNorm (v : Vec) : Rat := (v.map (fun a => a * a)).sum

/-- `_log_proposal(theta_star, theta_k, g_logpi_k)`:
    `mu = theta_k + (scale/2)*g; misfit = theta_star - mu; -0.5*((1/scale)*(misfit @ misfit))`. -/
def logProposal (eps : Rat) (thetaStar thetaK g : Vec) : Rat :=
  let mu := lin 1 thetaK (eps / 2) g
  let misfit := lin 1 thetaStar (-1) mu
  let quad := (1 / eps) * sqNorm misfit
  (-(1/2 : Rat)) * quad

/-- MALA proposal `x + (scale/2)*grad + xi`, `xi = sigma*z` with `sigma = np.sqrt(scale)`. -/
def malaPropose (st : St) (sigma : Rat) (z : Vec) : Vec :=
  lin 1 (lin 1 st.x (scalar st / 2) st.grad) sigma z

/-- MALA.step + _accept_or_reject (experimental) / MALA.single_update (legacy). -/
def malaStep (k : Kernel) (logd : Vec → XVal) (gradf : Vec → Vec) (sigma : Rat) (st : St) (z : Vec)
    (ell : XVal) : St × Bool :=
  let eps := scalar st
  let xs := malaPropose st sigma z
  let t := logd xs
  let gs := gradf xs
  let logTargetRatio := t.sub st.logd
  let logPropRatio := logProposal eps st.x xs gs - logProposal eps xs st.x st.grad
  metropolis k st xs t gs (logTargetRatio.add (fin logPropRatio)) ell

/-! ### component-wise MH -/

/-- Loop state of `CWMH.step`/`single_update`: `x_t`, `x_star`, `target_eval_t`, `acc`
    (reversed), the list of query points (reversed). -/
structure CWLoop where
  xt : Vec
  xstar : Vec
  evalT : XVal
  acc : List Bool
  queries : List Vec
  deriving Repr

/-- numpy's C cast on `int_array[j] = float_value`: truncation toward zero. -/
def truncZero (q : Rat) : Rat := ((Int.tdiv q.num (q.den : Int) : Int) : Rat)

/-- What `work_vector[j] = value` stores: the value itself for a float64 work vector, its
    truncation when the work vectors inherited an integer dtype from `initial_point`
    (`x_t = self.current_point.copy()` in experimental `CWMH.step`). -/
def coerce (intDtype : Bool) (q : Rat) : Rat := if intDtype then truncZero q else q

/-- body of `for j in range(dim)`; `j` is also the index of the target query. -/
def cwBody (k : Kernel) (logd : Nat → Vec → XVal) (xall : Vec) (ells : List XVal)
    (L : CWLoop) (j : Nat) : CWLoop :=
  let xstar := L.xstar.set j (xall.getD j 0)               -- x_star[j] = x_all_components[j]
  let t := logd j xstar                                     -- target.logd(x_star)
  let ell := ells.getD j nan
  if accepts k ell (t.sub L.evalT) t then
    let xt := L.xt.set j (xall.getD j 0)                    -- x_t[j] = x_all_components[j]
    { xt := xt, xstar := xt, evalT := t, acc := true :: L.acc, queries := xstar :: L.queries }
  else
    { L with xstar := L.xt, acc := false :: L.acc, queries := xstar :: L.queries }   -- x_star = x_t.copy()

/-- all-components proposal: `Normal(mean=x, std=scale).sample()` = `x + scale∘z` -/
def cwPropose (st : St) (z : Vec) : Vec :=
  let s := if st.scale.length = 1 then List.replicate st.x.length (scalar st) else st.scale
  List.zipWith (fun p q => p.1 + p.2 * q) (List.zip st.x s) z

/-- CWMH.step / CWMH.single_update. Returns new state, acc vector, query points. -/
def cwStep (k : Kernel) (logd : Nat → Vec → XVal) (st : St) (z : Vec) (ells : List XVal)
    (intDtype : Bool := false) : St × List Bool × List Vec :=
  let xall := (cwPropose st z).map (coerce intDtype)     -- every use of x_all[j] is an assignment into a work vector
  let L0 : CWLoop := { xt := st.x, xstar := st.x, evalT := st.logd, acc := [], queries := [] }
  let L := (List.range st.x.length).foldl (cwBody k logd xall ells) L0
  ({ st with x := L.xt, logd := L.evalT }, L.acc.reverse, L.queries.reverse)

/-! ### what the constructors refuse -/

/-- `validate_proposal` (experimental MH/CWMH) and the legacy `MH.proposal` setter: a proposal
    object is accepted only if it is a `Distribution` flagged symmetric. (`none` = default.) -/
def proposalAccepted (isDistribution isSymmetric : Bool) : Bool := isDistribution && isSymmetric

/-- relative closeness certificate for the float square roots handed to the model
    (`c = sqrt(1-s²)`, `sigma = sqrt(eps)`): `|c² - v| ≤ 2⁻⁴⁰·max(|v|, 2⁻⁴⁰)` and `c ≥ 0`. -/
def sqrtCert (c v : Rat) : Bool :=
  let tol : Rat := 1 / 1099511627776
  let d := c * c - v
  let ad := if d < 0 then -d else d
  let av := if v < 0 then -v else v
  decide (0 ≤ c) && decide (ad ≤ tol * (if av < tol then tol else av))

end CuqiVerif.C02
