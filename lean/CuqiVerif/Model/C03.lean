import CuqiVerif.Model.RExpr
import CuqiVerif.Model.QMat
import CuqiVerif.Model.C20
/-
  C03 model — gradients of log-densities (import-free, executable).

  Three layers, each transcribed from the Python:

  1. **Scalar closed forms** as `RExpr` builders (`cauchyLogpdf`/`cauchyGrad`, `betaLogpdf`/`betaGrad`, …):
     the component formula of `logpdf` and the component formula of `_gradient`, exactly as the
     code writes them.  The driver evaluates the gradient formula, and *also* the symbolic
     derivative `RExpr.deriv 0` of the log-density formula (what the property demands).
  2. **Vector-level assembly**, generic over the scalar type `α` (instantiated at `Rat` by the
     driver and at `ℝ` by the theorems — same definitions): `sumTo`, `gaussGrad`/`gaussQuad`
     (`-(prec @ (x-mean))`, `-½ (x-mean)ᵀ P (x-mean)`), `cmrfGrad` (`(-2u/(u²+s²)) @ D`, `u = D @ (val - location)`), `likGrad` (`model.gradient(prec @ (d - F x), x)` with the
     geometry chain rule of `Model.gradient`), `fdGrad` (`approx_gradient`).
  3. **Decision table** `gradStatus`: which of value / FD-value / raise / NaN / `None` / not-a-vector
     a call to `.gradient(x)` produces, transcribed from the guards of each family.
-/
namespace CuqiVerif.C03
open CuqiVerif RExpr

/-! ## 1. scalar closed forms (component of logpdf, component of gradient) -/

/-- `Cauchy.logpdf`: `-log(pi*scale*(1+((x-location)/scale)**2))` -/
def cauchyLogpdf (x l s : RExpr) : RExpr := -(log (pi * s * (1 + ((x - l) / s) ^ 2)))
/-- `Cauchy.gradient`: `-2*xt/(scale**2*(1+(xt/scale)**2))`, `xt = x - location` -/
def cauchyGrad (x l s : RExpr) : RExpr := (-(2 : RExpr) * (x - l)) / (s ^ 2 * (1 + ((x - l) / s) ^ 2))

/-- `scipy.stats.beta.logpdf(x, a, b)` -/
def betaLogpdf (x a b : RExpr) : RExpr :=
  (a - 1) * log x + (b - 1) * log (1 - x) - (lgamma a + lgamma b - lgamma (a + b))
/-- `Beta._gradient`: `(alpha-1)/x + (beta-1)/(x-1)` -/
def betaGrad (x a b : RExpr) : RExpr := (a - 1) / x + (b - 1) / (x - 1)

/-- `scipy.stats.invgamma.logpdf(x, a, loc, scale)` -/
def invGammaLogpdf (x a loc sc : RExpr) : RExpr :=
  -(a + 1) * log ((x - loc) / sc) - lgamma a - 1 / ((x - loc) / sc) - log sc
/-- `InverseGamma._gradient`: `(-shape-1)/(val-location) + scale/(val-location)**2` -/
def invGammaGrad (x a loc sc : RExpr) : RExpr := (-a - 1) / (x - loc) + sc / (x - loc) ^ 2

/-- `SmoothedLaplace.logpdf`, per component: `log(0.5/scale) - sqrt((x-location)**2+beta)/scale` -/
def slLogpdf (x l s β : RExpr) : RExpr := log ((1 / 2 : RExpr) / s) - sqrt ((x - l) ^ 2 + β) / s
/-- `SmoothedLaplace.gradient`: `-((x-location)/scale/sqrt((x-location)**2+beta))` -/
def slGrad (x l s β : RExpr) : RExpr := -((x - l) / s / sqrt ((x - l) ^ 2 + β))

/-- `ModifiedHalfNormal.logpdf` (un-normalised): `(alpha-1)*log(x) - beta*x*x + gamma*x` -/
def mhnLogpdf (x a b c : RExpr) : RExpr := (a - 1) * log x - b * x * x + c * x
/-- `ModifiedHalfNormal._gradient_scalar`: `(alpha-1)/val - 2*beta*val + gamma` -/
def mhnGrad (x a b c : RExpr) : RExpr := (a - 1) / x - 2 * b * x + c

/-- `Lognormal` with diagonal covariance, per component:
    `log N(log x; mean, var) - log x` -/
def lognLogpdf (x m v : RExpr) : RExpr :=
  -((1 / 2 : RExpr) * log (2 * pi * v)) - (1 / 2 : RExpr) * ((log x - m) ^ 2 / v) - log x
/-- `Lognormal._gradient` (diagonal case): `(1/val)*(-1 + (-(1/var)*(log(val)-mean)))` -/
def lognGrad (x m v : RExpr) : RExpr := (1 / x) * (-(1 : RExpr) + (-((1 / v) * (log x - m))))

/-- `CMRF.logpdf`, per difference `u = (D(x-location))_k`: `log(scale) - log(u**2+scale**2)` -/
def cmrfComp (u s : RExpr) : RExpr := log s - log (u ^ 2 + s ^ 2)
/-- `CMRF._gradient`, per difference: `-2*u/(u**2+scale**2)` -/
def cmrfCompGrad (u s : RExpr) : RExpr := (-(2 : RExpr) * u) / (u ^ 2 + s ^ 2)

/-- Gaussian negative half-square `-(u^2)/2` (component of `_logupdf` after `sqrtprec @ dev`) -/
def halfSqComp (u : RExpr) : RExpr := -(u ^ 2) / 2
def halfSqCompGrad (u : RExpr) : RExpr := -u

/-! ## 2. vector-level assembly, generic in the scalar type -/
section Generic
variable {α : Type} [Add α] [Sub α] [Mul α] [Neg α] [OfNat α 0]

/-- `Σ_{j<n} f j`, left fold as numpy's `sum`/`@` would accumulate -/
def sumTo (n : Nat) (f : Nat → α) : α := (List.range n).foldl (fun acc j => acc + f j) 0

/-- `(M z)_k = Σ_j M k j * z j` -/
def matVec (n : Nat) (M : Nat → Nat → α) (z : Nat → α) (k : Nat) : α := sumTo n fun j => M k j * z j

/-- `Gaussian._gradient` (prior branch) / `GMRF._gradient`: `-(prec @ (val - mean))`, component `i` -/
def gaussGrad (n : Nat) (P : Nat → Nat → α) (x μ : Nat → α) (i : Nat) : α :=
  -(matVec n P (fun j => x j - μ j) i)

/-- `(x-mean)ᵀ P (x-mean)`; the log-density is `const - quad/2` -/
def gaussQuad (n : Nat) (P : Nat → Nat → α) (x μ : Nat → α) : α :=
  sumTo n fun i => (x i - μ i) * matVec n P (fun j => x j - μ j) i

/-- `RᵀR` entries for an `m × n` matrix `R` -/
def gramOf (m : Nat) (R : Nat → Nat → α) (i j : Nat) : α := sumTo m fun k => R k i * R k j

/-- `‖R z‖²`, the Mahalanobis distance as `_logupdf` computes it through `sqrtprec` -/
def normSqR (m n : Nat) (R : Nat → Nat → α) (z : Nat → α) : α :=
  sumTo m fun k => matVec n R z k * matVec n R z k

/-- `Gaussian._gradient` when `prec` was passed as a 1-D array: `prec @ (val-mean)` is a *dot
    product*, the call returns this scalar (negated) instead of a vector. -/
def gaussGradPrecVectorCode (n : Nat) (p : Nat → α) (x μ : Nat → α) : α :=
  -(sumTo n fun j => p j * (x j - μ j))

/-- vector–Jacobian product `(Jᵀ dir)_l = Σ_j dir j * J j l` (what `direction @ jacobian(wrt)`,
    `adjoint(direction)` and `matrix.T @ direction` all compute) -/
def vjp (m : Nat) (J : Nat → Nat → α) (dir : Nat → α) (l : Nat) : α := sumTo m fun j => dir j * J j l

/-- `Gaussian._gradient` / `Lognormal._gradient` (likelihood branch) followed by `Model.gradient`:
    `direction = prec @ dev`, `grad = gradient_func(direction, par2fun(x))`, then — if the domain
    geometry supplies `gradient` — `grad = geometry.gradient(grad, x)`, i.e. `Gᵀ grad` where
    `G (p × n)` is the Jacobian of `par2fun`.  `dev = data - F(x)`.  -/
def likGrad (m p _n : Nat) (P : Nat → Nat → α) (dev : Nat → α) (J : Nat → Nat → α)
    (G : Option (Nat → Nat → α)) (i : Nat) : α :=
  let dir := matVec m P dev
  match G with
  | none => vjp m J dir i
  | some G => vjp p G (vjp m J dir) i

/-- `Lognormal._gradient` (prior branch): `diag(1/val) @ (-1 + normal.gradient(log(val)))`;
    `logx j` is `log (x j)` (a leaf value for the executable instance) -/
def lognDenseGrad [Div α] [OfNat α 1] (n : Nat) (P : Nat → Nat → α) (x logx μ : Nat → α) (i : Nat) : α :=
  (1 / x i) * (-(1 : α) + gaussGrad n P logx μ i)

/-- `Image2D(im_shape=(h, w), order)`: parameter index of the pixel `(r, c)` —
    `r*w + c` for `order='C'` (row-major), `c*h + r` for `order='F'` (column-major). -/
def image2dParIndex (orderF : Bool) (h w r c : Nat) : Nat := if orderF then c * h + r else r * w + c

/-- Jacobian of `Image2D.par2fun` with the function values listed row-major (`l = r*w + c`):
    the permutation matrix `G l i = [i is the parameter index of pixel l]`.  `Image2D.fun2par`
    (`funvals.ravel(order)`) applied to an image-shaped function-space gradient is `Gᵀ`. -/
def image2dJac [OfNat α 1] (orderF : Bool) (h w : Nat) (l i : Nat) : α :=
  if image2dParIndex orderF h w (l / w) (l % w) = i then 1 else 0

/-- `Posterior._gradient` / `MultipleLikelihoodPosterior.gradient`: sum of the parts -/
def sumGrad (parts : List (Nat → α)) (i : Nat) : α := parts.foldl (fun acc g => acc + g i) 0

variable [Div α]

/-- `CMRF._gradient`: `diff = D @ (val - location)`, `(-2*diff/(diff**2+scale**2)) @ D`
    (the pinned snapshot evaluated `D @ val`; repaired in /repo by commit 019a74f) -/
def cmrfGrad (m n : Nat) (D : Nat → Nat → α) (s : α) (x l : Nat → α) (i : Nat) : α :=
  sumTo m fun k =>
    let u := matVec n D (fun j => x j - l j) k
    ((-(u + u)) / (u * u + s * s)) * D k i

/-- the former code (`diff = D @ val`, location ignored); kept only as the regression witness of
    `Props/C03.cmrf_unshifted_not_deriv` -/
def cmrfGradUnshifted (m n : Nat) (D : Nat → Nat → α) (s : α) (x : Nat → α) (i : Nat) : α :=
  sumTo m fun k =>
    let u := matVec n D x k
    ((-(u + u)) / (u * u + s * s)) * D k i

/-- `x` with component `i` replaced -/
def upd (x : Nat → α) (i : Nat) (v : α) : Nat → α := fun j => if j = i then v else x j

/-- `cuqi.utilities.approx_gradient`: forward difference, component `i` -/
def fdGrad (f : (Nat → α) → α) (x : Nat → α) (ε : α) (i : Nat) : α :=
  (f (upd x i (x i + ε)) - f x) / ε

end Generic

/-! ## 3. decision table: what does `.gradient(x)` do -/

inductive Family
  | gaussian | gmrf | cmrf | cauchy | beta | invgamma | lognormal | smoothedLaplace | mhn | uniform
  | userWithGrad | userNoGrad
  | other            -- Normal, Gamma, Laplace, LMRF, …: no `_gradient`, `Distribution._gradient` raises
  deriving DecidableEq, Repr

def Family.ofString : String → Option Family
  | "gaussian" => some .gaussian | "gmrf" => some .gmrf | "cmrf" => some .cmrf
  | "cauchy" => some .cauchy | "beta" => some .beta | "invgamma" => some .invgamma
  | "lognormal" => some .lognormal | "smoothedlaplace" => some .smoothedLaplace
  | "mhn" => some .mhn | "uniform" => some .uniform | "userwithgrad" => some .userWithGrad
  | "usernograd" => some .userNoGrad | "other" => some .other | _ => none

/-- geometry of the distribution: in `_get_identity_geometries()`, or not but carrying a
    `gradient` attribute, or neither -/
inductive Geom | identity | nonIdWithGrad | nonIdNoGrad
  deriving DecidableEq, Repr

def Geom.ofString : String → Option Geom
  | "id" => some .identity | "nonid-grad" => some .nonIdWithGrad | "nonid" => some .nonIdNoGrad
  | _ => none

/-- how the distribution depends on further variables:
    `no` — all parameters are values; `callable` — some parameter is a plain callable (conditional
    distribution); `model` — the mean is a `cuqi.model.Model` *with* a gradient (likelihood use) -/
inductive Cond | no | callable | model
  deriving DecidableEq, Repr

def Cond.ofString : String → Option Cond
  | "no" => some .no | "callable" => some .callable | "model" => some .model | _ => none

/-- Form in which the Gaussian precision reaches `_gradient` (`self.prec`):
    `matrix` (any form that stores an `n × n` precision: `cov`, `sqrtcov`, matrix-valued `prec`),
    `precScalarDim1` (`prec` scalar and dim 1), `precScalarDimN` (matmul shape error),
    `precVector` (1-D `prec`: dot product), `sqrtprec` (`prec` not available).  Other families: `na`. -/
inductive PrecForm | na | matrix | precScalarDim1 | precScalarDimN | precVector | sqrtprec
  deriving DecidableEq, Repr

def PrecForm.ofString : String → Option PrecForm
  | "na" => some .na | "matrix" => some .matrix | "prec-scalar-dim1" => some .precScalarDim1
  | "prec-scalar-dimN" => some .precScalarDimN | "prec-vector" => some .precVector
  | "sqrtprec" => some .sqrtprec | _ => none

inductive Status
  | value        -- the closed-form `_gradient` vector
  | valueFD      -- `approx_gradient(self.logd, x, eps)`
  | raises       -- an exception
  | nan          -- all-NaN vector (outside the support)
  | none         -- returns `None` (warning only, or nothing at all)
  | notVector    -- returns something that is not a vector of length dim
  deriving DecidableEq, Repr

def Status.toString : Status → String
  | .value => "value" | .valueFD => "value-fd" | .raises => "raise" | .nan => "nan"
  | .none => "none" | .notVector => "not-vector"

/-- families whose class overrides `gradient` itself (not `_gradient`): `enable_FD` has no effect -/
def overridesGradient : Family → Bool
  | .cauchy | .smoothedLaplace | .uniform => true
  | _ => false

/-- the closed-form branch (`_gradient`, or the overriding `gradient`) -/
def closedStatus (fam : Family) (g : Geom) (c : Cond) (inSupport : Bool) (pf : PrecForm)
    (dimGt1 : Bool) : Status :=
  match fam with
  | .gaussian =>
      if g = .nonIdNoGrad then .raises else
      match c with
      | .callable => .none                      -- `warnings.warn(...)`, returns None
      | _ =>                                    -- prior branch, or likelihood branch (`model`)
        match pf with
        | .sqrtprec => .raises                  -- `self.prec` raises NotImplementedError
        | .precScalarDimN => .raises            -- (1,1) @ (n,) : ValueError
        | .precVector => if c = .model then .raises else .notVector
        | _ => .value
  | .gmrf =>
      if g ≠ .identity then .raises else
      if c = .no then .value else .raises       -- callable mean: raises (the missing `raise` was added by /repo commit eb9cc4c)
  | .cmrf =>
      if g ≠ .identity then .raises else
      if c = .no then .value else .none         -- `warnings.warn`
  | .cauchy =>
      if g ≠ .identity then .raises else
      if c ≠ .no then .raises else
      if inSupport then .value else .nan
  | .beta =>
      if g ≠ .identity then .raises else
      if c ≠ .no then .raises else
      if inSupport then .value else .nan
  | .invgamma =>
      if g ≠ .identity then .raises else
      if c ≠ .no then .raises else
      if inSupport then .value else .nan
  | .lognormal =>
      if g ≠ .identity then .raises else
      match c with
      | .callable => .none
      | _ => if inSupport then .value else .nan
  | .smoothedLaplace => if c ≠ .no then .raises else .value      -- arithmetic on a callable: TypeError
  | .mhn =>
      if c ≠ .no then .raises else
      if dimGt1 then .notVector else            -- list-of-lists: a `(len(val), dim)` array
      if inSupport then .value else .nan
  | .uniform => if c ≠ .no then .raises else if inSupport then .value else .nan
  | .userWithGrad => .value
  | .userNoGrad => .raises
  | .other => .raises

/-- `Density.gradient`: FD first (if enabled and the class does not override `gradient`), else the
    closed form.  FD on a conditional distribution fails inside `logd` (missing arguments). -/
def gradStatus (fam : Family) (g : Geom) (c : Cond) (fd : Bool) (inSupport : Bool) (pf : PrecForm)
    (dimGt1 : Bool) : Status :=
  if fd && !overridesGradient fam then
    (if c = .callable then .raises else .valueFD)
  else closedStatus fam g c inSupport pf dimGt1

/-- `Likelihood.gradient(x)` for a Gaussian/Lognormal data distribution whose mean is a model:
    FD if enabled; otherwise `Gaussian._gradient` → `self.prec @ dev` → `Model.gradient`, which
    refuses (`_check_gradient_can_be_computed`) unless the model has a gradient, the range geometry
    is an identity geometry and the domain geometry is an identity geometry or supplies `gradient`. -/
def likStatus (hasGrad : Bool) (dom : Geom) (rangeId precOk fd : Bool) : Status :=
  if fd then .valueFD else
  if hasGrad && dom != .nonIdNoGrad && rangeId && precOk then .value else .raises

/-- status of `a + b` for two gradient calls (an exception propagates; `None + array` is a TypeError) -/
def combine (a b : Status) : Status :=
  match a, b with
  | .raises, _ | _, .raises => .raises
  | .none, _ | _, .none => .raises
  | .notVector, _ | _, .notVector => .notVector
  | .nan, _ | _, .nan => .nan
  | .valueFD, _ | _, .valueFD => .valueFD
  | .value, .value => .value

/-- `Posterior._gradient`: geometry guard, then `likelihood.gradient(x) + prior.gradient(x)` -/
def postStatus (lik prior : Status) (dom : Geom) : Status :=
  if dom = .nonIdNoGrad then .raises else combine lik prior

/-- `MultipleLikelihoodPosterior.gradient`: `sum(density.gradient(x) for density in densities)` -/
def multiStatus (parts : List Status) : Status := parts.foldl combine .value

/-! ### the finite-difference configuration of a density as a state machine
`Density.__init__` calls `disable_FD()`; `enable_FD(epsilon=1e-8)` sets `(_FD_enabled, _FD_epsilon) = (True, epsilon)`;
`disable_FD()` sets `(False, None)`; `gradient` uses FD iff `FD_enabled`. -/

inductive FDOp
  | enable (eps : Option Rat)     -- `enable_FD(eps)`; `none` = called without argument (default 1e-8)
  | disable                       -- `disable_FD()`
  deriving Repr

structure FDCfg where
  enabled : Bool
  eps : Option Rat
  deriving Repr, DecidableEq

def FDCfg.init : FDCfg := ⟨false, none⟩

def fdDefaultEps : Rat := 1 / 100000000

def fdApply (_c : FDCfg) : FDOp → FDCfg
  | .enable (some e) => ⟨true, some e⟩
  | .enable none => ⟨true, some fdDefaultEps⟩
  | .disable => ⟨false, none⟩

def fdRun (c : FDCfg) (ops : List FDOp) : FDCfg := ops.foldl fdApply c

/-- what `gradient` does in a configuration: `none` = the closed form (or its refusal),
    `some ε` = the forward difference with spacing `ε` -/
def fdMode (c : FDCfg) : Option Rat := if c.enabled then c.eps else none

/-- rows of the table in which the returned vector is claimed (and proved, see Props/C03) to be the
    derivative of the log-density for *all* parameter values -/
def closedFormProved : Family → Bool
  | .gaussian | .gmrf | .cmrf | .cauchy | .beta | .invgamma | .lognormal | .smoothedLaplace | .mhn | .uniform => true
  | .userWithGrad => false    -- user-supplied
  | _ => false

/-- the list `cuqi.geometry._get_identity_geometries()` is assumed to be (class names) -/
def identityGeometries : List String :=
  ["_DefaultGeometry1D", "_DefaultGeometry2D", "Continuous1D", "Continuous2D", "Discrete", "Image2D"]

/-! ## support predicates (the NaN guards of the code), on exact data -/

def bcast (v : List Rat) (j : Nat) : Rat := if v.length = 1 then v.getD 0 0 else v.getD j 0
def bcastOk (v : List Rat) (n : Nat) : Bool := v.length = 1 || v.length = n

def cauchyInSupport (scale : List Rat) : Bool := !(scale.any (· ≤ 0))
def betaInSupport (x a b : List Rat) : Bool :=
  !(x.any (· ≤ 0) || x.any (· ≥ 1) || a.any (· ≤ 0) || b.any (· ≤ 0))
def invGammaInSupport (x loc : List Rat) : Bool :=
  !((List.range x.length).any fun j => x.getD j 0 ≤ bcast loc j)
def positiveSupport (x : List Rat) : Bool := !(x.any (· ≤ 0))
def uniformInSupport (x lo hi : List Rat) : Bool :=
  !((List.range x.length).any fun j => x.getD j 0 < bcast lo j || x.getD j 0 > bcast hi j)

end CuqiVerif.C03
