import CuqiVerif.Model.C18
/-
  C18 model, part 3 — `scipy.interpolate.interp1d(grid_sol, solution, kind='quadratic')(grid_obs)`
  as `SteadyStateLinearPDE.observe` calls it (`cuqi/pde/_pde.py` l. 175), computed exactly over the
  rationals instead of being taken as leaf data:

  * `interp1d.__init__`: the nodes are sorted (stable `argsort`, values permuted along); fewer than
    3 nodes or repeated nodes are refused;
  * `make_interp_spline(x, y, k=2)`: knots `x_0 ×3, midpoints of the interior cells but the first and
    the last, x_{n-1} ×3`; the B-spline coefficients solve the collocation system `B c = y`
    (the linear solver is a parameter carrying its certificate, as for `linalg_solve`);
  * evaluation: a point outside `[x_0, x_{n-1}]` is refused (`bounds_error`), otherwise de Boor's
    recurrence (degree 2, unrolled) on the knot interval containing the point.

  Import-free, executable; numbers are `Rat` (an order is needed to sort and to locate intervals).
-/
namespace CuqiVerif.C18

/-- stable insertion of a (node, value) pair into a list sorted by node -/
def insertByFst (p : Rat × Rat) : List (Rat × Rat) → List (Rat × Rat)
  | [] => [p]
  | q :: rest => if p.1 < q.1 then p :: q :: rest else q :: insertByFst p rest

/-- `ind = argsort(x, kind='mergesort'); x = x[ind]; y = y[ind]` (stable) -/
def sortByFst (l : List (Rat × Rat)) : List (Rat × Rat) := l.foldl (fun acc p => insertByFst p acc) []

/-- consecutive nodes strictly increasing (after sorting: no repeated node) -/
def strictlyIncreasing : List Rat → Bool
  | a :: b :: rest => decide (a < b) && strictlyIncreasing (b :: rest)
  | _ => true

/-- the knot vector `make_interp_spline` chooses for `k = 2` -/
def quadKnots (x : List Rat) : List Rat :=
  let mids := List.zipWith (fun a b => (a + b) / 2) x (x.drop 1)      -- `(x[1:] + x[:-1])/2`
  let x0 := x.headD 0
  let xn := x.getLastD 0
  [x0, x0, x0] ++ (mids.drop 1).dropLast ++ [xn, xn, xn]

/-- index `l` of the knot interval used for `x`: `t_l ≤ x < t_{l+1}`, clamped to `2 ≤ l ≤ n-1`
    (so that the right end point belongs to the last interval) -/
def findInterval (t : List Rat) (n : Nat) (x : Rat) : Nat :=
  let cand := (List.range n).filter fun l => 2 ≤ l ∧ t.getD l 0 ≤ x
  cand.getLastD 2

/-- de Boor's recurrence for degree 2 on the interval `l`, unrolled:
    the value at `x` of the spline with knots `t` and coefficients `c` -/
def deBoor2 (t : Nat → Rat) (c : Nat → Rat) (l : Nat) (x : Rat) : Rat :=
  let a21 := (x - t l) / (t (l + 2) - t l)
  let a11 := (x - t (l - 1)) / (t (l + 1) - t (l - 1))
  let d2 := (1 - a21) * c (l - 1) + a21 * c l
  let d1 := (1 - a11) * c (l - 2) + a11 * c (l - 1)
  let a22 := (x - t l) / (t (l + 1) - t l)
  (1 - a22) * d1 + a22 * d2

/-- value at `x` of the quadratic spline with knots `t` (a list) and coefficients `c` (a list of `n`) -/
def quadSplineAt (t c : List Rat) (x : Rat) : Rat :=
  deBoor2 (fun i => t.getD i 0) (fun i => c.getD i 0) (findInterval t c.length x) x

/-- collocation matrix `B[i][j] = B_j(x_i)` (the spline with the `j`-th unit coefficient vector at node `i`) -/
def quadColloc (t x : List Rat) : List (List Rat) :=
  let n := x.length
  x.map fun xi => (List.range n).map fun j =>
    quadSplineAt t ((List.range n).map fun m => if m = j then 1 else 0) xi

/-- `Σ_j row_j c_j` -/
def rowDot (row c : List Rat) : Rat := (List.zipWith (· * ·) row c).foldl (· + ·) 0

/-- `interp1d(gs, u, kind='quadratic')(go)`; `solveLin` is the banded solver of `make_interp_spline`,
    its answer is used only if it satisfies `B c = y` exactly (certificate). -/
def interp1dQuadratic (solveLin : List (List Rat) → List Rat → Option (List Rat))
    (gs u go : List Rat) : Except Err (List Rat) :=
  if gs.length ≠ u.length then .error .valueError
  else
    let pairs := sortByFst (gs.zip u)
    let x := pairs.map (·.1)
    let y := pairs.map (·.2)
    if x.length < 3 then .error .valueError                  -- not enough nodes for a quadratic spline
    else if !(strictlyIncreasing x) then .error .valueError  -- "Expect x to not have duplicates"
    else
      let t := quadKnots x
      let B := quadColloc t x
      match solveLin B y with
      | none => .error .interpError
      | some c =>
        if c.length ≠ x.length ∨ B.map (fun row => rowDot row c) ≠ y then .error .interpError
        else
          let x0 := x.headD 0
          let xn := x.getLastD 0
          if go.any (fun p => p < x0 ∨ xn < p) then .error .valueError      -- `bounds_error`
          else .ok (go.map fun p => quadSplineAt t c p)

end CuqiVerif.C18
