import CuqiVerif.Model.C11
/-
  C11 model, part 3 — the conditioning call stream the Gibbs samplers actually issue.

  Transcribed:
    `cuqi.sampler.Gibbs.__init__`  (`self.target = target()`, `par_names = self.target.get_parameter_names()`),
    `Gibbs.sample` / `step` / `step_tune`: `Nb + Ns` sweeps; in each sweep, for every parameter in
        `par_names` order, `self.target(**other_params)` with the CURRENT samples of the others
    `cuqi.experimental.mcmc.HybridGibbs.__init__` / `_initialize` (`self.target = target()`, then
        `_set_targets()`: one conditioning per parameter with the INITIAL points, nothing sampled in between),
    `HybridGibbs.warmup` / `sample` / `step` / `_set_target`: `Nb + Ns` sweeps of `self.target(**conditional_params)`.

  `gibbsOps` of `Model/C11.lean` passes one value per (sweep, variable); the real stream passes, for the
  update of block `p`, the newest value of every other variable: the one drawn in THIS sweep for the
  variables that precede `p`, the one of the previous sweep for the others (`versionLegacy`,
  `versionHybrid`: index into the stored chain, 0 = initial point).  `streamOps` takes the values per
  (sweep, block, variable).
-/
namespace CuqiVerif.C11

/-- the conditioning calls of one sweep: for every block `p`, `target(**{q: value of q seen by p})` -/
def sweepOps (t : Nat) (pars : List Nat) (val : Nat → Nat → Nat → Int) (k : Nat) : List Op :=
  pars.map (fun p => Op.cond t ((pars.filter (· ≠ p)).map (fun q => (q, val k p q))))

/-- `n` sweeps -/
def streamOps (t : Nat) (pars : List Nat) (val : Nat → Nat → Nat → Int) : Nat → List Op
  | 0 => []
  | k + 1 => streamOps t pars val k ++ sweepOps t pars val k

/-- `get_parameter_names()` of the stored target -/
def St.targetParNames (s : St) (t : Nat) : List Nat :=
  match s.cls t, s.get t .dens with
  | .joint, .refs ds => s.jointParNames ds
  | .mlp, .refs ds => s.jointParNames ds
  | _, _ => []

/-- everything a Gibbs sampler does to densities: the constructor stores `target()` (address returned),
    `init` sweeps of conditioning at construction (0: legacy, 1: `HybridGibbs._set_targets`), then `sweeps` sweeps -/
def St.samplerRun (s : St) (orig : Nat) (init sweeps : Nat) (val : Nat → Nat → Nat → Int) : St × Option Nat :=
  match s.run (.cond orig []) with
  | (s1, .obj t) => (s1.runAll (streamOps t (s1.targetParNames t) val (init + sweeps)), some t)
  | (s1, _) => (s1, none)

def St.legacyGibbs (s : St) (orig Nb Ns : Nat) (val : Nat → Nat → Nat → Int) : St × Option Nat :=
  s.samplerRun orig 0 (Nb + Ns) val

def St.hybridGibbs (s : St) (orig Nb Ns : Nat) (val : Nat → Nat → Nat → Int) : St × Option Nat :=
  s.samplerRun orig 1 (Nb + Ns) val

/-- legacy Gibbs, sweep `k` (0-based), update of block `p`: chain index of the value of `q` that is passed
    (0 = initial point, `j + 1` = the draw of sweep `j`) -/
def versionLegacy (pars : List Nat) (k p q : Nat) : Nat :=
  if pars.idxOf q < pars.idxOf p then k + 1 else k

/-- HybridGibbs: sweep 0 is `_set_targets` at construction (initial points only, nothing drawn);
    sweep `k ≥ 1` is the `k`-th `step` -/
def versionHybrid (pars : List Nat) (k p q : Nat) : Nat :=
  if k = 0 then 0 else if pars.idxOf q < pars.idxOf p then k else k - 1

end CuqiVerif.C11
