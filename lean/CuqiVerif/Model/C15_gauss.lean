import CuqiVerif.Model.C15
/-
  C15 model, part 2 — how a `cuqi.distribution.Gaussian` turns its specification into the covariance
  the closed-form MAP / the direct sampler read (cuqi/distribution/_gaussian.py):

    * the four setters `cov` / `prec` / `sqrtcov` / `sqrtprec` (l.139-225) with their validation
      helpers `get_sqrtprec_from_cov / _prec / _sqrtcov / _sqrtprec` (l.345-712, dense branch):
      the shape classification shared by all four (`shape[0]==1` → scalar, `shape[0]==size` →
      vector, exactly diagonal 2-D, full), the exceptions they raise (0-d array → `IndexError`,
      non-square → `ValueError`, non-symmetric full `cov`/`prec` → `ValueError`, singular /
      not positive definite → `LinAlgError`), and what they store;
    * `compute_cov()` (l.243-281): `dim > MAX_DIM_INV` → `NotImplementedError`; a `cov`-specified
      Gaussian expands its raw value (`shape[0]==1` → `c·eye(dim)`, 1-D → `np.diag`), every other
      one returns `np.linalg.inv(sqrtprec.T @ sqrtprec)`; the result is stored in `_cov`;
    * the object's state over a history of setter assignments and `compute_cov()` calls
      (`GState`), refining `CovState` of part 1 (there `compute_cov`'s value was leaf data).

  The stored `sqrtprec` involves `np.sqrt` / `np.linalg.cholesky`, which have no exact rational
  counterpart; everything downstream (`compute_cov`, `logd`) uses it only through its **Gram matrix**
  `sqrtprec.T @ sqrtprec`, and that is what the model carries (`gram`):
  `(√p)² = p`, `cholesky(P).T` has Gram `L Lᵀ = P`.  `np.linalg.inv` is an untrusted oracle whose
  answer is accepted only with its certificate `M·X = I` (as `linalg.solve` in part 1);
  "`np.linalg.cholesky` succeeds" is an oracle `PDTest` (the driver decides it exactly by Sylvester's
  criterion); no theorem depends on what it answers.
  Where the code silently continues with NaN/inf (square root or reciprocal of a non-positive
  number) the model reports the pseudo-error `nan`.
-/
namespace CuqiVerif.C15

inductive GParam | cov | prec | sqrtcov | sqrtprec
  deriving DecidableEq, Repr, Inhabited

inductive GErr
  | valueError | linAlgError | indexError | notImplemented
  /-- `Distribution.geometry`: "Inconsistent distribution geometry attribute … and inferred dimension" -/
  | typeError
  /-- not an exception: the code goes on with NaN / inf entries -/
  | nan
  /-- column matrices `r×1` (classified as "vector" by `shape[0]==size`, then fed to `np.diag`): not modelled -/
  | unmodelled
  deriving DecidableEq, Repr, Inhabited

def GErr.toString : GErr → String
  | .valueError => "ValueError" | .linAlgError => "LinAlgError" | .indexError => "IndexError"
  | .notImplemented => "NotImplementedError" | .typeError => "TypeError" | .nan => "nan" | .unmodelled => "unmodelled"

/-- untrusted `np.linalg.inv`: `inv n M` proposes `X` with `M·X = I` (`none`: singular) -/
abbrev Inverter (R : Type) := Nat → (Nat → Nat → R) → Option (Nat → Nat → R)
/-- "`np.linalg.cholesky(P)` does not raise" for a symmetric `P` -/
abbrev PDTest (R : Type) := Nat → (Nat → Nat → R) → Bool

/-- a square matrix with its size -/
abbrev SqMat (R : Type) := Nat × (Nat → Nat → R)

section gauss
variable {R : Type} [Zero R] [One R] [Add R] [Sub R] [Mul R] [Div R] [DecidableEq R] [LT R] [DecidableLT R]

/-- the shape classes of `get_sqrtprec_from_*` (the same `if/elif` chain in all four helpers) -/
inductive ShapeClass (R : Type)
  /-- 0-d array: `value.shape[0]` raises `IndexError` -/
  | zeroD
  /-- `shape[0] == 1`: `c = ravel()[0]`, `row = flatten()` of length `len` -/
  | scalar (c : R) (len : Nat) (row : Nat → R)
  /-- 1-D, `shape[0] == size` -/
  | vector (l : Nat) (f : Nat → R)
  | column
  | nonsquare
  /-- 2-D square with `np.count_nonzero(v - np.diag(v.diagonal())) == 0` -/
  | diag (d : Nat) (f : Nat → R)
  | full (d : Nat) (F : Nat → Nat → R)

def allLt (n : Nat) (p : Nat → Bool) : Bool := (List.range n).all p

/-- `np.count_nonzero(v - np.diag(v.diagonal())) == 0` -/
def isDiagonal (d : Nat) (F : Nat → Nat → R) : Bool :=
  allLt d fun i => allLt d fun j => decide (i = j) || decide (F i j = 0)

/-- `np.allclose(v, v.T)` on exactly representable inputs (the tolerance is not modelled) -/
def isSymm (d : Nat) (F : Nat → Nat → R) : Bool :=
  allLt d fun i => allLt d fun j => decide (F i j = F j i)

def classify : NArr R → ShapeClass R
  | .s _ => .zeroD
  | .v l f => if l = 1 then .scalar (f 0) 1 f else .vector l f
  | .m r c F =>
    if r = 1 then .scalar (F 0 0) c (fun j => F 0 j)
    else if c = 1 then .column
    else if r ≠ c then .nonsquare
    else if isDiagonal r F then .diag r (fun i => F i i) else .full r F

def diagMat (f : Nat → R) : Nat → Nat → R := fun i j => if i = j then f i else 0

/-- certificate `M·X = I` on `n×n` -/
def isRightInverse (n : Nat) (M X : Nat → Nat → R) : Bool :=
  allLt n fun i => allLt n fun j => decide (sumTo n (fun k => M i k * X k j) = if i = j then 1 else 0)

/-- `np.linalg.inv(M)` for a square `n×n` array, certified -/
def certInv (inv : Inverter R) (n : Nat) (M : Nat → Nat → R) : Except GErr (Nat → Nat → R) :=
  match inv n M with
  | none => .error .linAlgError
  | some X => if isRightInverse n M X then .ok X else .error .linAlgError

/-- Gram matrix `sqrtprec.T @ sqrtprec` of what the diagonal branches (scalar / vector / diagonal
    matrix) store, from the diagonal `f` of the raw value:
    `cov`: `np.sqrt(1/f)` — NaN/inf unless `f > 0`; `prec`: `np.sqrt(f)` — NaN if `f < 0`;
    `sqrtcov`: `1/f` — inf if `f = 0`; `sqrtprec`: `f`. -/
def gramDiag (p : GParam) (n : Nat) (f : Nat → R) : Except GErr (SqMat R) :=
  match p with
  | .cov => if allLt n (fun i => decide (0 < f i)) then .ok (n, diagMat fun i => 1 / f i) else .error .nan
  | .prec => if allLt n (fun i => !decide (f i < 0)) then .ok (n, diagMat f) else .error .nan
  | .sqrtcov => if allLt n (fun i => !decide (f i = 0)) then .ok (n, diagMat fun i => 1 / (f i * f i)) else .error .nan
  | .sqrtprec => .ok (n, diagMat fun i => f i * f i)

/-- Gram matrix of the stored `sqrtprec` for a full (square, not diagonal) raw value.
    `cov`: `prec = inv(cov); sqrtprec = cholesky(prec).T`;  `prec`: `sqrtprec = cholesky(prec).T`;
    `sqrtcov`: `cov = S@S.T; prec = inv(cov); sqrtprec = cholesky(prec).T`;  `sqrtprec`: stored as is. -/
def gramFull (inv : Inverter R) (pd : PDTest R) (p : GParam) (d : Nat) (F : Nat → Nat → R) : Except GErr (SqMat R) :=
  match p with
  | .cov =>
    if !isSymm d F then .error .valueError else do
      let W ← certInv inv d F
      if pd d W then .ok (d, W) else .error .linAlgError
  | .prec =>
    if !isSymm d F then .error .valueError
    else if pd d F then .ok (d, F) else .error .linAlgError
  | .sqrtcov => do
    let W ← certInv inv d (fun i j => sumTo d (fun k => F i k * F j k))
    if pd d W then .ok (d, W) else .error .linAlgError
  | .sqrtprec => .ok (d, fun j k => sumTo d (fun i => F i j * F i k))

/-- `get_sqrtprec_from_<p>(dim, value, sparse_flag=False)`: the exception it raises, or the Gram
    matrix of the `sqrtprec` it returns. -/
def gramOf (inv : Inverter R) (pd : PDTest R) (p : GParam) (dim : Nat) (v : NArr R) : Except GErr (SqMat R) :=
  match classify v with
  | .zeroD => .error .indexError
  | .scalar c len row =>
    match p with
    | .sqrtprec =>           -- `dia = np.ones(dim)*sqrtprec.flatten()` (broadcast), `np.diag(dia)`
      match bdim dim len with
      | some n => .ok (n, diagMat fun i => row (bidx len i) * row (bidx len i))
      | none => .error .valueError
    | _ => gramDiag p dim (fun _ => c)       -- `c*np.identity(dim)`: only `ravel()[0]` is read
  | .vector l f => gramDiag p l f
  | .column => .error .unmodelled
  | .nonsquare => .error .valueError
  | .diag d f => gramDiag p d f
  | .full d F => gramFull inv pd p d F

/-- Gram matrix of the raw value when the `sqrtprec` setter raised *after* `self._sqrtprec = value`
    (l.215): the raw array stays stored; `raw.T @ raw` — or the exception met when the Gram matrix is formed / inverted. -/
def gramRaw : NArr R → Except GErr (SqMat R)
  | .m r c F => .ok (c, fun j k => sumTo r (fun i => F i j * F i k))
  | .v _ _ => .error .linAlgError     -- 1-D raw value: `raw.T @ raw` is a 0-d number, `np.linalg.inv` of it raises `LinAlgError`
  | .s _ => .error .valueError        -- 0-d raw value: `@` refuses scalars

/-- `cuqi.utilities.infer_len`: `len(value)` (rows of a matrix); a 0-d array has no `len` and no `shape[0]` -/
def inferLen : NArr R → Except GErr Nat
  | .s _ => .error .indexError
  | .v l _ => .ok l
  | .m r _ _ => .ok r

/-- The part of a `Gaussian` object the direct routes depend on. -/
structure GState (R : Type) where
  param : GParam
  /-- `len(self.mean)` -/
  meanLen : Nat
  /-- `par_dim` of the geometry: given by the user or fixed at the first access to the dimension
      inferred then (`Distribution.geometry`, _distribution.py l.85-121) -/
  dim : Nat
  /-- raw value of the main matrix attribute (`_cov` / `_prec` / `_sqrtcov` / raw `sqrtprec` argument) -/
  main : NArr R
  /-- the attribute `_cov` -/
  cov : Option (NArr R)
  /-- `sqrtprec.T @ sqrtprec` of the stored `_sqrtprec` (what `logd` and `compute_cov` see) -/
  gram : Except GErr (SqMat R)

/-- `self.dim` (→ `self.geometry`, l.85-121): the dimension inferred from the mutable variables
    (`max(len(mean), len(main))`) must equal the geometry's unless it is 1, else `TypeError`. -/
def GState.dimNow (st : GState R) : Except GErr Nat := do
  let l ← inferLen st.main
  let inferred := max st.meanLen l
  if inferred > 1 ∧ inferred ≠ st.dim then .error .typeError else .ok st.dim

/-- is the error a Python exception (as opposed to the NaN pseudo-error)? -/
def GErr.raises : GErr → Bool
  | .nan => false
  | _ => true

/-- Assignment `g.<param> = v` through the setter (l.139-225).  Returns the state afterwards and the
    exception raised, if any.  The setters store the raw value (and, except for `cov`, reset `_cov`)
    *before* reading `self.dim` and validating, so an exception leaves the new raw value next to the
    old `sqrtprec` (`sqrtprec` setter: next to the raw value itself). -/
def GState.setMain (inv : Inverter R) (pd : PDTest R) (st : GState R) (v : NArr R) : GState R × Option GErr :=
  let cov' := if st.param = .cov then some v else none
  let st1 : GState R := { st with main := v, cov := cov', gram := if st.param = .sqrtprec then gramRaw v else st.gram }
  match st1.dimNow with
  | .error e => (st1, some e)
  | .ok dim =>
    match gramOf inv pd st.param dim v with
    | .ok g => ({ st1 with gram := .ok g }, none)
    | .error e => if e.raises then (st1, some e) else ({ st1 with gram := .error e }, none)

/-- `Gaussian(mean, <param>=v[, geometry=g])`: the constructor runs the setter on a fresh object; the
    geometry's dimension is the user's or the one inferred at the first access
    (`max(len(mean), len(v))`); an exception aborts the construction. -/
def construct (inv : Inverter R) (pd : PDTest R) (p : GParam) (meanLen : Nat) (geom : Option Nat) (v : NArr R) :
    Except GErr (GState R) := do
  let l ← inferLen v
  let dim := geom.getD (max meanLen l)
  let st0 : GState R := { param := p, meanLen := meanLen, dim := dim, main := v, cov := none, gram := .error .valueError }
  match GState.setMain inv pd st0 v with
  | (st, none) => .ok st
  | (_, some e) => .error e

/-- the `'cov' in mutable_vars` branch of `compute_cov` (l.262-270) on the value the `cov` getter returns -/
def expandOwnCov (dim : Nat) : NArr R → Except GErr (NArr R)
  | .s _ => .error .indexError                              -- `cov.shape[0]` of a 0-d array
  | .v l f => if l = 1 then .ok (NArr.scale (f 0) (eye dim)) else .ok (diagIfVec (.v l f))
  | .m r c F => if r = 1 then .ok (NArr.scale (F 0 0) (eye dim)) else .ok (.m r c F)

/-- `compute_cov()` (l.243-281): returns the state afterwards and the returned array / exception.
    In the NaN domain (pseudo-error `nan`) the code stores a non-finite array; the model leaves `_cov`
    as it was and stops describing it. -/
def GState.computeCov (inv : Inverter R) (maxDimInv : Nat) (st : GState R) : GState R × Except GErr (NArr R) :=
  match st.dimNow with
  | .error e => (st, .error e)
  | .ok dim =>
  if dim > maxDimInv then (st, .error .notImplemented)
  else if st.param = .cov then
    match st.cov with
    | none => (st, .error .valueError)             -- "Mutable variable cov is not set"
    | some c =>
      match expandOwnCov dim c with
      | .ok full => ({ st with cov := some full }, .ok full)
      | .error e => (st, .error e)
  else
    match st.gram with
    | .error e => (st, .error e)
    | .ok (d, G) =>
      match certInv inv d G with
      | .ok C => ({ st with cov := some (.m d d C) }, .ok (.m d d C))
      | .error e => (st, .error e)

/-- operations of a history on one Gaussian object -/
inductive GOp (R : Type)
  | setMain (v : NArr R)
  | computeCov

/-- one operation; `none` when it raised (the history of the theorems stops there) -/
def GState.step (inv : Inverter R) (pd : PDTest R) (maxDimInv : Nat) (st : GState R) : GOp R → Option (GState R)
  | .setMain v => match st.setMain inv pd v with
    | (st', none) => some st'
    | (_, some _) => none
  | .computeCov => match st.computeCov inv maxDimInv with
    | (st', .ok _) => some st'
    | (_, .error _) => none

def GState.run (inv : Inverter R) (pd : PDTest R) (maxDimInv : Nat) (st : GState R) : List (GOp R) → Option (GState R)
  | [] => some st
  | op :: ops => match st.step inv pd maxDimInv op with
    | some st' => GState.run inv pd maxDimInv st' ops
    | none => none

/-- the same history with exceptions swallowed by the caller (`try: … except: pass`): every operation
    leaves the state the code leaves behind -/
def GState.runSwallow (inv : Inverter R) (pd : PDTest R) (maxDimInv : Nat) (st : GState R) : List (GOp R) → GState R
  | [] => st
  | .setMain v :: ops => GState.runSwallow inv pd maxDimInv (st.setMain inv pd v).1 ops
  | .computeCov :: ops => GState.runSwallow inv pd maxDimInv (st.computeCov inv maxDimInv).1 ops

/-- what the `cov` getter (l.132-137) returns in a state -/
def GState.getCov (st : GState R) : Except Err (NArr R) :=
  match st.cov with
  | some a => .ok a
  | none => .error .notImplemented

/-- the part-1 view of the state (`CovState`) -/
def GState.toCovState (st : GState R) : CovState R := { covMutable := st.param = .cov, cov := st.cov }

end gauss

end CuqiVerif.C15
