import CuqiVerif.Props.C01
import Mathlib.Tactic.Abel
import Mathlib.Data.List.Nodup

/-!
# C01 — helper definitions and lemmas for the composed theorems of `Props/C01_full.lean`

* `Step`, `Obj.step`, `stepAssign`, `StepOK`, `runSteps`, `RunOK`, `runAssign`: a *program* of
  conditioning calls (positional and/or keyword) and `posterior.name = …` assignments applied to
  an object, the assignment it accumulates, and the admissibility condition of every call.
* `Rep Fs σ o`: the object `o` is one of the objects the code can hold after the variables of
  `σ` have been fixed in the model graph `Fs` (joint / multiple-likelihood posterior /
  Posterior with constants / Distribution with constants / evaluated density).
* `rep_logd` (evaluation of every such object), `rep_step` (every admissible call moves from one
  such object to the next), `reduce_rep` (the six-branch reduction always lands in one of them).
-/
namespace CuqiVerif.C01

variable {V K : Type} [AddCommMonoid K]

/-! ### the three kinds of canonical state -/

lemma st_cases (σ : Kw V) (F : Factor V K) :
    (kwGet σ F.name = none ∧ st σ F = .dist F (penv F σ) 0) ∨
    (∃ d, kwGet σ F.name = some d ∧ free F (penv F σ) ≠ [] ∧ st σ F = .lik F (penv F σ) d 0) ∨
    (∃ d, kwGet σ F.name = some d ∧ free F (penv F σ) = [] ∧
        st σ F = .eval (some F.name) (F.f (envWith (penv F σ) F.name d) + 0) 0) := by
  cases h1 : kwGet σ F.name with
  | none => left; simp [st, h1]
  | some d =>
    right
    by_cases hfree : free F (penv F σ) = []
    · right; exact ⟨d, rfl, hfree, by simp [st, h1, toLik, hfree]⟩
    · left; exact ⟨d, rfl, hfree, by simp [st, h1, toLik, hfree]⟩

lemma isDist_st (σ : Kw V) (F : Factor V K) : (st σ F).isDist = decide (F.name ∉ kwKeys σ) := by
  rcases st_cases σ F with ⟨h, hs⟩ | ⟨d, h, _, hs⟩ | ⟨d, h, _, hs⟩
  · have := (kwGet_eq_none_iff σ F.name).1 h
    simp [hs, Dens.isDist, this]
  · have := (kwGet_isSome_iff σ F.name).1 (by simp [h])
    simp [hs, Dens.isDist, this]
  · have := (kwGet_isSome_iff σ F.name).1 (by simp [h])
    simp [hs, Dens.isDist, this]

lemma name_st (σ : Kw V) (F : Factor V K) : (st σ F).name = some F.name := by
  rcases st_cases σ F with ⟨_, hs⟩ | ⟨d, _, _, hs⟩ | ⟨d, _, _, hs⟩ <;> simp [hs, Dens.name]

/-- the value an evaluated density carries is the factor's log-density at the assignment -/
lemma evalPart_st (σ τ : Kw V) (F : Factor V K) (hF : FOK F) (h : (st σ F).isEval = true) :
    evalPart (st σ F) = F.f (kwGet (σ ++ τ)) := by
  rcases st_cases σ F with ⟨_, hs⟩ | ⟨d, _, _, hs⟩ | ⟨d, h1, hfree, hs⟩
  · simp [hs, Dens.isEval] at h
  · simp [hs, Dens.isEval] at h
  · have hxx : kwGet (σ ++ τ) F.name = some d := by rw [kwGet_append, h1]
    rw [hs, evalPart, ← penv_append_of_free_empty F σ τ hfree, f_env F hF (σ ++ τ) d hxx]
    simp

lemma evalPart_of_not_eval (d : Dens V K) (h : d.isEval = false) : evalPart d = 0 := by
  cases d <;> simp_all [evalPart, Dens.isEval]

/-- the joint log-density splits into the free variables, the likelihoods and the constants -/
lemma total_split (Fs : List (Factor V K)) (hf : ∀ F ∈ Fs, FOK F) (σ τ : Kw V) :
    total Fs (σ ++ τ)
      = ((Fs.filter (fun F => (st σ F).isDist)).map (fun F => F.f (kwGet (σ ++ τ)))).sum
        + ((Fs.filter (fun F => (st σ F).isLik)).map (fun F => F.f (kwGet (σ ++ τ)))).sum
        + ((Fs.map (st σ)).map evalPart).sum := by
  induction Fs with
  | nil => simp [total]
  | cons F r ih =>
    have ih' := ih (fun G hG => hf G (List.mem_cons_of_mem _ hG))
    have hF := hf F List.mem_cons_self
    have ht : total (F :: r) (σ ++ τ) = F.f (kwGet (σ ++ τ)) + total r (σ ++ τ) := by simp [total]
    rw [ht, ih']
    rcases st_cases σ F with ⟨_, hs⟩ | ⟨d, _, _, hs⟩ | ⟨d, _, _, hs⟩
    · have e1 : (st σ F).isDist = true := by simp [hs, Dens.isDist]
      have e2 : (st σ F).isLik = false := by simp [hs, Dens.isLik]
      have e3 : evalPart (st σ F) = 0 := by simp [hs, evalPart]
      simp only [List.filter_cons, e1, e2, e3, if_true, List.map_cons, List.sum_cons]
      simp only [Bool.false_eq_true, if_false]
      abel
    · have e1 : (st σ F).isDist = false := by simp [hs, Dens.isDist]
      have e2 : (st σ F).isLik = true := by simp [hs, Dens.isLik]
      have e3 : evalPart (st σ F) = 0 := by simp [hs, evalPart]
      simp only [List.filter_cons, e1, e2, e3, if_true, List.map_cons, List.sum_cons]
      simp only [Bool.false_eq_true, if_false]
      abel
    · have e1 : (st σ F).isDist = false := by simp [hs, Dens.isDist]
      have e2 : (st σ F).isLik = false := by simp [hs, Dens.isLik]
      have e3 : evalPart (st σ F) = F.f (kwGet (σ ++ τ)) :=
        evalPart_st σ τ F hF (by simp [hs, Dens.isEval])
      simp only [List.filter_cons, e1, e2, e3, List.map_cons, List.sum_cons]
      simp only [Bool.false_eq_true, if_false]
      abel

/-! ### well-formed graphs: which densities can be left -/

lemma total_congr (Fs : List (Factor V K)) (hw : WF Fs) (ρ ρ' : Kw V)
    (h : ∀ n ∈ Fs.map (·.name), kwGet ρ n = kwGet ρ' n) : total Fs ρ = total Fs ρ' := by
  unfold total
  congr 1
  apply List.map_congr_left
  intro F hF
  apply (hw.fok F hF).loc
  intro n hn
  rcases List.mem_cons.1 hn with rfl | hn
  · exact h _ (List.mem_map.2 ⟨F, hF, rfl⟩)
  · exact h _ (hw.closed F hF n hn)

lemma filter_isDist_map (Fs : List (Factor V K)) (σ : Kw V) :
    (Fs.map (st σ)).filter Dens.isDist = (Fs.filter (fun F => (st σ F).isDist)).map (st σ) := by
  rw [List.filter_map]; rfl

lemma filter_isLik_map (Fs : List (Factor V K)) (σ : Kw V) :
    (Fs.map (st σ)).filter Dens.isLik = (Fs.filter (fun F => (st σ F).isLik)).map (st σ) := by
  rw [List.filter_map]; rfl

lemma jointNames_eq (Fs : List (Factor V K)) (σ : Kw V) :
    jointNames (Fs.map (st σ)) = (Fs.filter (fun F => (st σ F).isDist)).map (·.name) := by
  rw [jointNames_st]
  congr 1
  apply List.filter_congr
  intro F _; rw [isDist_st]

lemma mem_jointNames (Fs : List (Factor V K)) (σ : Kw V) (n : Name) :
    n ∈ jointNames (Fs.map (st σ)) ↔ n ∈ Fs.map (·.name) ∧ n ∉ kwKeys σ := by
  rw [jointNames_st]
  simp only [List.mem_map, List.mem_filter, decide_eq_true_eq]
  constructor
  · rintro ⟨F, ⟨hF, hn⟩, rfl⟩; exact ⟨⟨F, hF, rfl⟩, hn⟩
  · rintro ⟨⟨F, hF, rfl⟩, hn⟩; exact ⟨F, ⟨hF, hn⟩, rfl⟩

lemma jointNames_nodup (Fs : List (Factor V K)) (hw : WF Fs) (σ : Kw V) :
    (jointNames (Fs.map (st σ))).Nodup := by
  rw [jointNames_st]
  exact (List.filter_sublist.map _).nodup hw.nodup

lemma eq_singleton_of (l : List Name) (a : Name) (hne : l ≠ []) (hnd : l.Nodup) (h : ∀ x ∈ l, x = a) :
    l = [a] := by
  match l, hne, hnd, h with
  | [x], _, _, h => rw [h x (by simp)]
  | x :: y :: r, _, hnd, h =>
    have hx := h x (by simp); have hy := h y (by simp)
    subst hx; subst hy; simp at hnd

/-- exactly one variable `G` is left free: its distribution has no conditioning variables -/
lemma one_free (Fs : List (Factor V K)) (hw : WF Fs) (σ : Kw V) (G : Factor V K)
    (hD : Fs.filter (fun F => (st σ F).isDist) = [G]) :
    G ∈ Fs ∧ kwGet σ G.name = none ∧ st σ G = .dist G (penv G σ) 0 ∧ free G (penv G σ) = [] ∧
      jointNames (Fs.map (st σ)) = [G.name] := by
  have hmem : G ∈ Fs.filter (fun F => (st σ F).isDist) := by rw [hD]; simp
  obtain ⟨hG, hGd⟩ := List.mem_filter.1 hmem
  have hjn : jointNames (Fs.map (st σ)) = [G.name] := by rw [jointNames_eq, hD]; rfl
  rw [isDist_st] at hGd
  have hnone := (kwGet_eq_none_iff σ G.name).2 (by simpa using hGd)
  have hst : st σ G = .dist G (penv G σ) 0 := by simp [st, hnone]
  refine ⟨hG, hnone, hst, ?_, hjn⟩
  rw [List.eq_nil_iff_forall_not_mem]
  intro p hp
  have := params_closed Fs hw σ G hG p (by rw [hst]; simp [Dens.paramNames, hp])
  rw [hjn, List.mem_singleton] at this
  exact (hw.fok G hG).noself (this ▸ ((mem_free_penv G σ p).1 hp).1)

/-- a likelihood left next to the single free variable `G` depends on `G` only -/
lemma lik_one (Fs : List (Factor V K)) (hw : WF Fs) (σ : Kw V) (g : Name)
    (hjn : jointNames (Fs.map (st σ)) = [g]) (H : Factor V K) (hH : H ∈ Fs)
    (hl : (st σ H).isLik = true) :
    ∃ d, kwGet σ H.name = some d ∧ st σ H = .lik H (penv H σ) d 0 ∧ free H (penv H σ) = [g] := by
  rcases st_cases σ H with ⟨_, hs⟩ | ⟨d, h1, hne, hs⟩ | ⟨d, _, _, hs⟩
  · simp [hs, Dens.isLik] at hl
  · refine ⟨d, h1, hs, eq_singleton_of _ g hne ?_ ?_⟩
    · rw [free]; exact (hw.pnodup H hH).filter _
    · intro p hp
      have := params_closed Fs hw σ H hH p (by rw [hs]; simpa [Dens.paramNames] using hp)
      simpa [hjn] using this
  · simp [hs, Dens.isLik] at hl

/-- no variable is left free: no likelihood is left either (every parameter has a prior) -/
lemma no_lik (Fs : List (Factor V K)) (hw : WF Fs) (σ : Kw V)
    (hjn : jointNames (Fs.map (st σ)) = []) : Fs.filter (fun F => (st σ F).isLik) = [] := by
  rw [List.filter_eq_nil_iff]
  intro H hH hl
  rcases st_cases σ H with ⟨_, hs⟩ | ⟨d, h1, hne, hs⟩ | ⟨d, _, _, hs⟩
  · simp [hs, Dens.isLik] at hl
  · obtain ⟨p, hp⟩ := List.exists_mem_of_ne_nil _ hne
    have := params_closed Fs hw σ H hH p (by rw [hs]; simpa [Dens.paramNames] using hp)
    simp [hjn] at this
  · simp [hs, Dens.isLik] at hl

omit [AddCommMonoid K] in
lemma nodupB_of_nodup (l : List (Option Name)) (h : l.Nodup) : nodupB l = true := by
  induction l with
  | nil => rfl
  | cons a r ih =>
    obtain ⟨h1, h2⟩ := List.nodup_cons.1 h
    simp [nodupB, h1, ih h2]

/-- `JointDistribution.__init__`'s checks pass on every conditioned well-formed joint -/
lemma jointCheck_st (Fs : List (Factor V K)) (hw : WF Fs) (σ : Kw V) :
    jointCheck (Fs.map (st σ)) = .ok () := by
  have h1 : nodupB ((Fs.map (st σ)).map Dens.name) = true := by
    apply nodupB_of_nodup
    have : (Fs.map (st σ)).map Dens.name = (Fs.map (·.name)).map some := by
      simp only [List.map_map]; apply List.map_congr_left; intro F _; simp [name_st]
    rw [this]
    exact List.Nodup.map (Option.some_injective _) hw.nodup
  have h2 : (Fs.map (st σ)).any (fun d => d.paramNames.any
      (fun p => !(jointNames (Fs.map (st σ))).contains p)) = false := by
    rw [List.any_eq_false]
    intro d hd
    obtain ⟨F, hF, rfl⟩ := List.mem_map.1 hd
    rw [Bool.not_eq_true, List.any_eq_false]
    intro p hp
    simpa using params_closed Fs hw σ F hF p hp
  unfold jointCheck; rw [h1, h2]; rfl

omit [AddCommMonoid K] in
lemma len_dist_lik (ds : List (Dens V K)) :
    (ds.filter Dens.isDist).length + (ds.filter Dens.isLik).length ≤ ds.length := by
  induction ds with
  | nil => simp
  | cons d r ih => cases d <;> simp [List.filter_cons, Dens.isDist, Dens.isLik] <;> omega

/-! ### evaluation of the densities of the reduced objects at one value -/

omit [AddCommMonoid K] in
lemma front_pos (names : List Name) (a : List V) : front names a ([] : Kw V) = .ok a := by
  simp [front]

omit [AddCommMonoid K] in
/-- the keyword front end for a single parameter: exactly that key (possibly repeated) -/
lemma front_one (g : Name) (τ : Kw V) (x : V) (hset : setEq [g] (kwKeys τ) = true)
    (hx : kwGet τ g = some x) : front [g] ([] : List V) τ = .ok [x] := by
  apply front_single g τ x
  · intro h; rw [h] at hx; simp [kwGet] at hx
  · simp only [setEq, Bool.and_eq_true, List.all_eq_true, List.contains_iff_mem, List.mem_singleton] at hset
    exact hset.2
  · exact hx

omit [AddCommMonoid K] in
lemma kwGet_of_setEq_one (g : Name) (τ : Kw V) (hset : setEq [g] (kwKeys τ) = true) :
    ∃ x, kwGet τ g = some x := by
  simp only [setEq, Bool.and_eq_true, List.all_eq_true, List.contains_iff_mem, List.mem_singleton] at hset
  exact Option.isSome_iff_exists.1 ((kwGet_isSome_iff τ g).2 (hset.1 g rfl))

/-- a likelihood over the single free variable, evaluated positionally -/
lemma lik_eval_pos (F : Factor V K) (hF : FOK F) (hpn : F.params.Nodup) (σ τ : Kw V) (g : Name)
    (x d : V) (hs : st σ F = .lik F (penv F σ) d 0) (hfree : free F (penv F σ) = [g])
    (hx : kwGet τ g = some x) :
    logdDens (.lik F (penv F σ) d 0) [x] [] = .ok (F.f (kwGet (σ ++ τ))) := by
  have hg : g ∈ kwKeys τ := (kwGet_isSome_iff τ g).1 (by simp [hx])
  have key := logdDens_st F hF hpn σ τ (by rw [hs]; simpa [Dens.paramNames, hfree] using hg)
  rw [hs] at key
  simp only [Dens.paramNames, hfree] at key
  have hf : front [g] ([] : List V) (restrict τ [g]) = .ok [x] := by
    apply front_single g _ x
    · intro h
      have : kwGet (restrict τ [g]) g = some x := by rw [kwGet_restrict]; simp [hx]
      rw [h] at this; simp [kwGet] at this
    · intro k hk; simpa using kwKeys_restrict_subset τ [g] k hk
    · rw [kwGet_restrict]; simp [hx]
  rw [← key]
  simp only [logdDens, hfree, hf, front_pos]

/-- the distribution of the single free variable (with a constant), evaluated positionally -/
lemma dist_eval_pos (G : Factor V K) (hG : FOK G) (σ τ : Kw V) (c : K) (x : V)
    (hnone : kwGet σ G.name = none) (hfree : free G (penv G σ) = [])
    (hx : kwGet τ G.name = some x) :
    logdDens (.dist G (penv G σ) c) [x] [] = .ok (G.f (kwGet (σ ++ τ)) + c) := by
  have hxx : kwGet (σ ++ τ) G.name = some x := by rw [kwGet_append, hnone]; exact hx
  simp only [logdDens, logdDist_plain G _ c x hfree]
  rw [← penv_append_of_free_empty G σ τ hfree, f_env G hG (σ ++ τ) x hxx]

omit [AddCommMonoid K] in
lemma logdPost_kw (L P : Dens V K) [AddCommMonoid K] (c : K) (τ : Kw V) (a : List V)
    (h : front P.paramNames ([] : List V) τ = .ok a) : logdPost L P c [] τ = logdPost L P c a [] := by
  simp only [logdPost, h, front_pos]

/-- **Posterior branch.**  With exactly one free variable `G` and one likelihood `H` left, the
    Posterior built by the reduction, evaluated at `x`, gives the joint log-density at any
    complete assignment `σ ++ τ` in which `τ` gives `x` to the free variable. -/
lemma post_logd_pos (Fs : List (Factor V K)) (hw : WF Fs) (σ τ : Kw V) (G H : Factor V K) (x : V)
    (hD : Fs.filter (fun F => (st σ F).isDist) = [G])
    (hL : Fs.filter (fun F => (st σ F).isLik) = [H])
    (hx : kwGet τ G.name = some x) :
    logdPost (st σ H) (st σ G) (0 + sumEvals 0 (Fs.map (st σ))) [x] [] = .ok (total Fs (σ ++ τ)) := by
  obtain ⟨hG, hnone, hsG, hfG, hjn⟩ := one_free Fs hw σ G hD
  have hmem : H ∈ Fs.filter (fun F => (st σ F).isLik) := by rw [hL]; simp
  obtain ⟨hH, hHl⟩ := List.mem_filter.1 hmem
  obtain ⟨d, hd, hsH, hfH⟩ := lik_one Fs hw σ G.name hjn H hH hHl
  have e1 := lik_eval_pos H (hw.fok H hH) (hw.pnodup H hH) σ τ G.name x d hsH hfH hx
  have e2 := dist_eval_pos G (hw.fok G hG) σ τ 0 x hnone hfG hx
  rw [total_split Fs hw.fok σ τ, hD, hL, hsH, hsG]
  simp only [logdPost, Dens.paramNames, hfG, List.nil_append, front_pos, e1, e2, sumEvals_eq]
  simp only [List.map_cons, List.map_nil, List.sum_cons, List.sum_nil, add_zero, zero_add]
  congr 1; abel

/-- **Distribution branch.**  With exactly one free variable and no likelihood left, the single
    distribution carrying the constants gives the joint log-density. -/
lemma dist_logd_pos (Fs : List (Factor V K)) (hw : WF Fs) (σ τ : Kw V) (G : Factor V K) (x : V)
    (hD : Fs.filter (fun F => (st σ F).isDist) = [G])
    (hL : Fs.filter (fun F => (st σ F).isLik) = [])
    (hx : kwGet τ G.name = some x) :
    logdDens (.dist G (penv G σ) (0 + sumEvals 0 (Fs.map (st σ)))) [x] [] = .ok (total Fs (σ ++ τ)) := by
  obtain ⟨hG, hnone, hsG, hfG, hjn⟩ := one_free Fs hw σ G hD
  rw [dist_eval_pos G (hw.fok G hG) σ τ _ x hnone hfG hx, total_split Fs hw.fok σ τ, hD, hL]
  simp only [sumEvals_eq, List.map_cons, List.map_nil, List.sum_cons, List.sum_nil, add_zero, zero_add]

/-! ### the objects a conditioned well-formed joint can be -/

/-- `Rep Fs σ o`: `o` is one of the objects the code holds after the variables of `σ` have been
    fixed in the model graph `Fs` -/
inductive Rep (Fs : List (Factor V K)) (σ : Kw V) : Obj V K → Prop
  /-- a joint distribution / multiple-likelihood posterior over the conditioned densities -/
  | joint (fl : Flavor) (hfl : fl ≠ .stacked) : Rep Fs σ (.joint fl (Fs.map (st σ)))
  /-- `Posterior(likelihood, prior)` with the constants, unnamed or named -/
  | post (G H : Factor V K) (nm : Option Name)
      (hD : Fs.filter (fun F => (st σ F).isDist) = [G])
      (hL : Fs.filter (fun F => (st σ F).isLik) = [H]) :
      Rep Fs σ (.post (st σ H) (st σ G) (0 + sumEvals 0 (Fs.map (st σ))) nm)
  /-- a single distribution with the constants -/
  | dist (G : Factor V K)
      (hD : Fs.filter (fun F => (st σ F).isDist) = [G])
      (hL : Fs.filter (fun F => (st σ F).isLik) = []) :
      Rep Fs σ (.single (.dist G (penv G σ) (0 + sumEvals 0 (Fs.map (st σ)))))
  /-- everything fixed through a reduced object: an evaluated density holding the total -/
  | eval (nm : Option Name) (v c : K) (hv : v + c = total Fs σ)
      (hall : ∀ F ∈ Fs, F.name ∈ kwKeys σ) : Rep Fs σ (.single (.eval nm v c))

/-- the class `_reduce_to_single_density` returns, from the number of distributions and of
    likelihoods left -/
def branchKind (nd nl : Nat) : String :=
  if nd = 1 then
    (if nl = 0 then "Distribution" else if nl = 1 then "Posterior" else "MultipleLikelihoodPosterior")
  else "JointDistribution"

/-- **`_reduce_to_single_density` on a conditioned well-formed joint** never fails, never falls
    through to `None`, never returns a lone likelihood, and lands in one of the `Rep` objects;
    the class of the result is determined by the numbers of distributions and likelihoods. -/
lemma reduce_rep (Fs : List (Factor V K)) (hw : WF Fs) (σ : Kw V) (fl : Flavor) (hfl : fl ≠ .stacked) :
    ∃ o, reduce fl (Fs.map (st σ)) = .ok o ∧ Rep Fs σ o ∧
      (fl = .plain → o.kind = branchKind (Fs.filter (fun F => (st σ F).isDist)).length
        (Fs.filter (fun F => (st σ F).isLik)).length) ∧
      (∀ L P c nm, o = .post L P c nm → nm = none) := by
  cases hD : Fs.filter (fun F => (st σ F).isDist) with
  | nil =>
    have hjn : jointNames (Fs.map (st σ)) = [] := by rw [jointNames_eq, hD]; rfl
    have hL := no_lik Fs hw σ hjn
    exact ⟨_, by simp [reduce, filter_isDist_map, filter_isLik_map, hD, hL], Rep.joint fl hfl,
      by rintro rfl; simp [Obj.kind, branchKind], by intro _ _ _ _ h; cases h⟩
  | cons G r =>
    cases r with
    | cons G' r' =>
      exact ⟨_, by simp [reduce, filter_isDist_map, hD], Rep.joint fl hfl,
        by rintro rfl; simp [Obj.kind, branchKind], by intro _ _ _ _ h; cases h⟩
    | nil =>
      obtain ⟨hG, hnone, hsG, hfG, hjn⟩ := one_free Fs hw σ G hD
      cases hL : Fs.filter (fun F => (st σ F).isLik) with
      | nil =>
        refine ⟨_, ?_, Rep.dist G hD hL, by intro _; simp [Obj.kind, branchKind],
          by intro _ _ _ _ h; cases h⟩
        simp [reduce, filter_isDist_map, filter_isLik_map, hD, hL, hsG]
      | cons H r =>
        cases r with
        | nil =>
          have hmem : H ∈ Fs.filter (fun F => (st σ F).isLik) := by rw [hL]; simp
          obtain ⟨hH, hHl⟩ := List.mem_filter.1 hmem
          obtain ⟨d, hd, hsH, hfH⟩ := lik_one Fs hw σ G.name hjn H hH hHl
          refine ⟨_, ?_, Rep.post G H none hD hL, by intro _; simp [Obj.kind, branchKind],
            by intro _ _ _ _ h; cases h; rfl⟩
          simp [reduce, filter_isDist_map, filter_isLik_map, hD, hL, hsG, hsH, Dens.paramNames, hfG, hfH,
            setEq, mkPost]
        | cons H' r' =>
          refine ⟨.joint .mlp (Fs.map (st σ)), ?_, Rep.joint .mlp (by decide),
            by intro _; simp [Obj.kind, branchKind], by intro _ _ _ _ h; cases h⟩
          have hlen := len_dist_lik (Fs.map (st σ))
          rw [filter_isDist_map, filter_isLik_map, hD, hL] at hlen
          simp only [List.map_cons, List.length_cons, List.length_map] at hlen
          have h3 : 3 ≤ Fs.length := by simp only [List.length_nil] at hlen; omega
          have hne : ((Fs.map (st σ)).filter Dens.isLik).isEmpty = false := by
            rw [filter_isLik_map, hL]; rfl
          have hed : ¬ (jointNames (Fs.map (st σ))).eraseDups.length > 1 := by
            rw [hjn]; simp [List.eraseDups_cons]
          simp only [reduce, filter_isDist_map, filter_isLik_map, hD, hL, List.map_cons, List.map_nil,
            List.length_cons, List.length_nil]
          simp [mkMLP, jointCheck_st Fs hw σ, h3, hne, hed]

/-! ### which evaluations are refused -/

/-- an evaluation call `logd(*args, **kw)` of an object with parameter names `names` is
    *malformed*: too many positional arguments ∨ a variable given by position and by keyword ∨
    a variable given neither way ∨ a keyword that is not a parameter -/
def Refused (names : List Name) (args : List V) (kw : Kw V) : Prop :=
  names.length < args.length ∨
  (∃ n ∈ names.take args.length, n ∈ kwKeys kw) ∨
  (∃ n ∈ names, n ∉ kwKeys kw ∧ n ∉ names.take args.length) ∨
  (∃ n ∈ kwKeys kw, n ∉ names)

omit [AddCommMonoid K] in
lemma kwKeys_zip (names : List Name) (args : List V) (h : args.length ≤ names.length) :
    kwKeys (names.zip args) = names.take args.length := by
  induction names generalizing args with
  | nil => cases args <;> simp_all [kwKeys]
  | cons n ns ih =>
    cases args with
    | nil => simp [kwKeys]
    | cons a as =>
      have := ih as (by simpa using h)
      simp only [kwKeys] at this
      simp [kwKeys, this]

omit [AddCommMonoid K] in
lemma setEq_iff (a b : List Name) : setEq a b = true ↔ (∀ x ∈ a, x ∈ b) ∧ (∀ x ∈ b, x ∈ a) := by
  simp [setEq, List.all_eq_true]

lemma logdJoint_parse (ds : List (Dens V K)) (args : List V) (kw kw' : Kw V)
    (h : parseJoint (jointNames ds) args kw = .ok kw') : logdJoint ds args kw = logdJoint ds [] kw' := by
  simp [logdJoint, h, parseJoint]

omit [AddCommMonoid K] in
/-- a joint call that is not malformed parses to `kw ++ names.zip args`, whose keys are exactly
    the parameter names -/
lemma parse_of_not_refused (names : List Name) (hnd : names.Nodup) (args : List V) (kw : Kw V)
    (h : ¬ Refused names args kw) :
    parseJoint names args kw = .ok (kw ++ names.zip args) ∧
      setEq names (kwKeys (kw ++ names.zip args)) = true := by
  simp only [Refused, not_or, not_lt, not_exists, not_and] at h
  obtain ⟨h1, h2, h3, h4⟩ := h
  refine ⟨positional_eq_keyword names args kw h1 (fun n hn hk => h2 n hn hk) hnd, ?_⟩
  rw [setEq_iff, kwKeys_append, kwKeys_zip names args h1]
  constructor
  · intro n hn
    by_cases hk : n ∈ kwKeys kw
    · exact List.mem_append_left _ hk
    · exact List.mem_append_right _ (by_contra fun hc => h3 n hn hk hc)
  · intro n hn
    rcases List.mem_append.1 hn with hn | hn
    · exact by_contra fun hc => h4 n hn hc
    · exact List.mem_of_mem_take hn

/-- a malformed joint call raises -/
lemma joint_refused (ds : List (Dens V K)) (hnd : (jointNames ds).Nodup) (args : List V) (kw : Kw V)
    (h : Refused (jointNames ds) args kw) : ∃ e, logdJoint ds args kw = .error e := by
  by_cases h1 : (jointNames ds).length < args.length
  · obtain ⟨e, he⟩ := logd_refuses_toomany (jointNames ds) args kw h1
    exact ⟨e, by simp [logdJoint, he]⟩
  by_cases h2 : ∃ n ∈ (jointNames ds).take args.length, n ∈ kwKeys kw
  · obtain ⟨n, hn, hk⟩ := h2
    exact ⟨.value, by simp [logdJoint, logd_refuses_double (jointNames ds) args kw hnd n hn hk]⟩
  have hlen : args.length ≤ (jointNames ds).length := by omega
  have hparse := positional_eq_keyword (jointNames ds) args kw hlen
    (fun n hn hk => h2 ⟨n, hn, hk⟩) hnd
  refine ⟨_, logd_refuses_keys ds args kw _ hparse ?_⟩
  rw [← Bool.not_eq_true, setEq_iff, kwKeys_append, kwKeys_zip _ _ hlen]
  rintro ⟨ha, hb⟩
  rcases h with h | h | ⟨n, hn, hk, ht⟩ | ⟨n, hn, hk⟩
  · exact h1 h
  · exact h2 h
  · rcases List.mem_append.1 (ha n hn) with h | h
    · exact hk h
    · exact ht h
  · exact hk (hb n (List.mem_append_left _ hn))

omit [AddCommMonoid K] in
/-- well-formed calls of an object with the single parameter `g` -/
lemma not_refused_one (g : Name) (args : List V) (kw : Kw V) :
    ¬ Refused [g] args kw ↔ (∃ x, args = [x] ∧ kw = []) ∨ (args = [] ∧ setEq [g] (kwKeys kw) = true) := by
  simp only [Refused, not_or, not_lt, not_exists, not_and, setEq_iff]
  constructor
  · rintro ⟨h1, h2, h3, h4⟩
    match args, h1, h2, h3 with
    | [], _, _, h3 =>
      right
      refine ⟨rfl, ?_, fun n hn => by_contra fun hc => h4 n hn hc⟩
      intro n hn
      exact by_contra fun hc => h3 n hn hc (by simp)
    | [x], _, h2, _ =>
      left
      refine ⟨x, rfl, ?_⟩
      cases kw with
      | nil => rfl
      | cons kv r =>
        exfalso
        have hk : kv.1 ∈ kwKeys (kv :: r) := by simp [kwKeys]
        have : kv.1 ∈ [g] := by_contra fun hc => h4 _ hk hc
        simp only [List.mem_singleton] at this
        exact h2 g (by simp) (this ▸ hk)
    | _ :: _ :: _, h1, _, _ => simp at h1
  · rintro (⟨x, rfl, rfl⟩ | ⟨rfl, ha, hb⟩)
    · refine ⟨by simp, by simp [kwKeys], by simp, by simp [kwKeys]⟩
    · refine ⟨by simp, by simp, ?_, ?_⟩
      · intro n hn hk; exact absurd (ha n hn) hk
      · intro n hn hc; exact hc (hb n hn)

omit [AddCommMonoid K] in
/-- a malformed call of a one-parameter object never gets exactly one value through the front end -/
lemma front_one_bad (g : Name) (args : List V) (kw : Kw V) (h : Refused [g] args kw) (a : List V)
    (hf : front [g] args kw = .ok a) : a.length ≠ 1 := by
  intro hlen
  apply (not_refused_one g args kw).2 _ h
  unfold front at hf
  by_cases hk : kw.isEmpty
  · simp only [hk, if_true, Except.ok.injEq] at hf
    subst hf
    left
    match args, hlen with
    | [x], _ => exact ⟨x, rfl, List.isEmpty_iff.1 hk⟩
  · simp only [hk, Bool.false_eq_true, if_false] at hf
    by_cases ha : args.isEmpty
    · right
      refine ⟨List.isEmpty_iff.1 ha, ?_⟩
      by_contra hs
      have hs' : setEq [g] (kwKeys kw) = false := by simpa using hs
      simp [ha, hs'] at hf
    · simp [ha] at hf

omit [AddCommMonoid K] in
lemma not_refused_nil (args : List V) (kw : Kw V) : ¬ Refused [] args kw ↔ args = [] ∧ kw = [] := by
  simp only [Refused, not_or, not_lt, not_exists, not_and]
  constructor
  · rintro ⟨h1, _, _, h4⟩
    refine ⟨by simpa using h1, ?_⟩
    cases kw with
    | nil => rfl
    | cons kv r => exact absurd (List.not_mem_nil) (h4 kv.1 (by simp [kwKeys]))
  · rintro ⟨rfl, rfl⟩; simp [kwKeys]

/-! ### evaluation of every object of `Rep` -/

lemma logd_joint_flavor [Stackable V] (fl : Flavor) (hfl : fl ≠ .stacked) (ds : List (Dens V K))
    (args : List V) (kw : Kw V) : (Obj.joint fl ds).logd args kw = logdJoint ds args kw := by
  cases fl <;> simp_all [Obj.logd]

lemma paramNames_rep_post (Fs : List (Factor V K)) (hw : WF Fs) (σ : Kw V) (G : Factor V K)
    (hD : Fs.filter (fun F => (st σ F).isDist) = [G]) : (st σ G).paramNames = [G.name] := by
  obtain ⟨_, _, hsG, hfG, _⟩ := one_free Fs hw σ G hD
  simp [hsG, Dens.paramNames, hfG]

lemma all_fixed_of_eval (Fs : List (Factor V K)) (σ : Kw V) (hall : ∀ F ∈ Fs, F.name ∈ kwKeys σ) :
    jointNames (Fs.map (st σ)) = [] := by
  rw [List.eq_nil_iff_forall_not_mem]
  intro n hn
  obtain ⟨hm, hk⟩ := (mem_jointNames Fs σ n).1 hn
  obtain ⟨F, hF, rfl⟩ := List.mem_map.1 hm
  exact hk (hall F hF)

/-- **Every object a conditioned well-formed joint can be evaluates a well-formed call
    (positional, keyword or — for joints — mixed) to the joint log-density.** -/
lemma rep_logd_ok [Stackable V] (Fs : List (Factor V K)) (hw : WF Fs) (σ : Kw V) (o : Obj V K)
    (hr : Rep Fs σ o) (args : List V) (kw : Kw V) (h : ¬ Refused o.paramNames args kw) :
    o.logd args kw = .ok (total Fs (σ ++ (kw ++ o.paramNames.zip args))) := by
  cases hr with
  | joint fl hfl =>
    rw [logd_joint_flavor fl hfl]
    obtain ⟨hp, hs⟩ := parse_of_not_refused _ (jointNames_nodup Fs hw σ) args kw h
    rw [logdJoint_parse _ _ _ _ hp]
    exact condition_logd_unreduced Fs hw σ _ hs
  | post G H nm hD hL =>
    have hpn := paramNames_rep_post Fs hw σ G hD
    simp only [Obj.paramNames, hpn] at h ⊢
    simp only [Obj.logd]
    rcases (not_refused_one _ args kw).1 h with ⟨x, rfl, rfl⟩ | ⟨rfl, hs⟩
    · exact post_logd_pos Fs hw σ _ G H x hD hL (by simp [kwGet])
    · obtain ⟨x, hx⟩ := kwGet_of_setEq_one _ kw hs
      rw [logdPost_kw _ _ _ kw [x] (by rw [hpn]; exact front_one _ kw x hs hx)]
      simpa using post_logd_pos Fs hw σ kw G H x hD hL hx
  | dist G hD hL =>
    obtain ⟨_, _, _, hfG, _⟩ := one_free Fs hw σ G hD
    simp only [Obj.paramNames, Dens.paramNames, hfG, List.nil_append] at h ⊢
    simp only [Obj.logd]
    rcases (not_refused_one _ args kw).1 h with ⟨x, rfl, rfl⟩ | ⟨rfl, hs⟩
    · exact dist_logd_pos Fs hw σ _ G x hD hL (by simp [kwGet])
    · obtain ⟨x, hx⟩ := kwGet_of_setEq_one _ kw hs
      have := dist_logd_pos Fs hw σ kw G x hD hL hx
      simp only [logdDens, logdDist, hfG, List.isEmpty_nil, if_true, logdPlain, front_pos,
        front_one _ kw x hs hx] at this ⊢
      simpa using this
  | eval nm v c hv hall =>
    simp only [Obj.paramNames, Dens.paramNames] at h ⊢
    obtain ⟨rfl, rfl⟩ := (not_refused_nil args kw).1 h
    simp [Obj.logd, logdDens, logdEval, front, hv]

/-- **Every malformed evaluation call is refused** by every object of `Rep`. -/
lemma rep_logd_err [Stackable V] (Fs : List (Factor V K)) (hw : WF Fs) (σ : Kw V) (o : Obj V K)
    (hr : Rep Fs σ o) (args : List V) (kw : Kw V) (h : Refused o.paramNames args kw) :
    ∃ e, o.logd args kw = .error e := by
  cases hr with
  | joint fl hfl =>
    rw [logd_joint_flavor fl hfl]
    exact joint_refused _ (jointNames_nodup Fs hw σ) args kw h
  | post G H nm hD hL =>
    obtain ⟨_, _, hsG, hfG, _⟩ := one_free Fs hw σ G hD
    have hpn := paramNames_rep_post Fs hw σ G hD
    simp only [Obj.paramNames, hpn] at h
    simp only [Obj.logd, logdPost, hpn]
    cases hf : front [G.name] args kw with
    | error e => exact ⟨e, rfl⟩
    | ok a =>
      have hlen := front_one_bad _ args kw h a hf
      have hP : ∃ e, logdDens (st σ G) a [] = .error e := by
        rw [hsG]
        simp only [logdDens, logdDist, hfG, List.isEmpty_nil, if_true, logdPlain, front_pos]
        match a, hlen with
        | [], _ => exact ⟨_, rfl⟩
        | [x], hlen => simp at hlen
        | _ :: _ :: _, _ => exact ⟨_, rfl⟩
      obtain ⟨e, he⟩ := hP
      simp only [he]
      cases logdDens (st σ H) a [] with
      | error e' => exact ⟨e', rfl⟩
      | ok l => exact ⟨e, rfl⟩
  | dist G hD hL =>
    obtain ⟨_, _, _, hfG, _⟩ := one_free Fs hw σ G hD
    simp only [Obj.paramNames, Dens.paramNames, hfG, List.nil_append] at h
    simp only [Obj.logd, logdDens, logdDist, hfG, List.isEmpty_nil, if_true, logdPlain]
    cases hf : front [G.name] args kw with
    | error e => exact ⟨e, rfl⟩
    | ok a =>
      have hlen := front_one_bad _ args kw h a hf
      match a, hlen with
      | [], _ => exact ⟨_, rfl⟩
      | [x], hlen => simp at hlen
      | _ :: _ :: _, _ => exact ⟨_, rfl⟩
  | eval nm v c hv hall =>
    simp only [Obj.paramNames, Dens.paramNames] at h
    simp only [Obj.logd, logdDens, logdEval]
    cases hf : front [] args kw with
    | error e => exact ⟨e, rfl⟩
    | ok a =>
      cases a with
      | cons _ _ => exact ⟨_, rfl⟩
      | nil =>
        exfalso
        apply (not_refused_nil args kw).2 _ h
        unfold front at hf
        by_cases hk : kw.isEmpty
        · simp only [hk, if_true, Except.ok.injEq] at hf
          exact ⟨hf, List.isEmpty_iff.1 hk⟩
        · exfalso
          simp only [hk, Bool.false_eq_true, if_false] at hf
          by_cases ha : args.isEmpty
          · have : setEq [] (kwKeys kw) = false := by
              cases kw with
              | nil => simp at hk
              | cons kv r => simp [setEq, kwKeys]
            simp [ha, this] at hf
          · simp [ha] at hf

/-! ### programs of conditioning calls -/

/-- one statement of a conditioning program -/
inductive Step (V : Type) where
  /-- `obj = obj(*args, **kw)` -/
  | call (args : List V) (kw : Kw V)
  /-- `obj.name = n` -/
  | setName (n : Name)

/-- run one statement -/
def Obj.step (o : Obj V K) : Step V → Except Err (Obj V K)
  | .call a kw => o.cond a kw
  | .setName n => o.setName n

/-- the keyword assignment a statement amounts to: its keywords, then its positional arguments
    paired with the object's parameter names in order -/
def stepAssign (o : Obj V K) : Step V → Kw V
  | .call a kw => kw ++ o.paramNames.zip a
  | .setName _ => []

/-- **Admissible statements.**  Every call: not more positional arguments than parameters, no
    variable given by position and by keyword.  Calls of a reduced object (`Posterior`, single
    `Distribution`) are `Distribution._condition` calls, which in addition (i) treat the reserved
    keyword `_main_parameter` specially and (ii) refuse a call with keywords none of which they
    can use: for a single distribution that means one keyword must be its parameter; for a
    `Posterior` the usable keyword is its *own name*, which the reduction leaves unset — so
    **keyword conditioning of the Posterior is admissible only after `posterior.name = <its
    parameter>`** (the known finding; see `posterior_keyword_refused`). -/
def StepOK : Obj V K → Step V → Prop
  | .joint _ ds, .call args kw =>
    args.length ≤ (jointNames ds).length ∧ (∀ n ∈ (jointNames ds).take args.length, n ∉ kwKeys kw)
  | .post _ P _ nm, .call args kw =>
    args.length ≤ P.paramNames.length ∧ (∀ n ∈ P.paramNames.take args.length, n ∉ kwKeys kw) ∧
    mainKey ∉ kwKeys kw ∧
    (args = [] → kw = [] ∨ ∃ n, nm = some n ∧ n ∈ P.paramNames ∧ n ∈ kwKeys kw)
  | .single (.eval ..), .call _ _ => True
  | .single d, .call args kw =>
    args.length ≤ d.paramNames.length ∧ (∀ n ∈ d.paramNames.take args.length, n ∉ kwKeys kw) ∧
    mainKey ∉ kwKeys kw ∧
    (args = [] → kw = [] ∨ ∃ n ∈ d.paramNames, n ∈ kwKeys kw)
  | .post _ P _ _, .setName n => n ∈ P.paramNames
  | _, _ => False

/-- run a program -/
def runSteps (o : Obj V K) : List (Step V) → Except Err (Obj V K)
  | [] => .ok o
  | s :: r => match o.step s with
    | .ok o' => runSteps o' r
    | .error e => .error e

/-- every statement is admissible for the object it is applied to -/
def RunOK (o : Obj V K) : List (Step V) → Prop
  | [] => True
  | s :: r => StepOK o s ∧ (match o.step s with
    | .ok o' => RunOK o' r
    | .error _ => True)

/-- the assignment accumulated by a program -/
def runAssign (o : Obj V K) : List (Step V) → Kw V
  | [] => []
  | s :: r => stepAssign o s ++ (match o.step s with
    | .ok o' => runAssign o' r
    | .error _ => [])

lemma all_fixed_after (Fs : List (Factor V K)) (σ ρ : Kw V) (g : Name)
    (hjn : jointNames (Fs.map (st σ)) = [g]) (hg : g ∈ kwKeys ρ) :
    ∀ F ∈ Fs, F.name ∈ kwKeys (σ ++ ρ) := by
  intro F hF
  rw [kwKeys_append, List.mem_append]
  by_cases hk : F.name ∈ kwKeys σ
  · exact Or.inl hk
  · right
    have := (mem_jointNames Fs σ F.name).2 ⟨List.mem_map.2 ⟨F, hF, rfl⟩, hk⟩
    rw [hjn, List.mem_singleton] at this
    exact this ▸ hg

omit [AddCommMonoid K] in
lemma bindEnv_nil (env : Name → Option V) (kw : Kw V) : bindEnv env [] kw = env := by
  funext n; simp [bindEnv]

omit [AddCommMonoid K] in
lemma kwGet_main_none (kw : Kw V) (h : mainKey ∉ kwKeys kw) : kwGet kw mainKey = none :=
  (kwGet_eq_none_iff kw mainKey).2 h

/-- **Every admissible statement moves from one object of `Rep` to the next.** -/
lemma rep_step (Fs : List (Factor V K)) (hw : WF Fs) (σ : Kw V) (o : Obj V K) (hr : Rep Fs σ o)
    (s : Step V) (hs : StepOK o s) :
    ∃ o', o.step s = .ok o' ∧ Rep Fs (σ ++ stepAssign o s) o' := by
  cases hr with
  | joint fl hfl =>
    cases s with
    | setName n => exact absurd hs (by simp [StepOK])
    | call args kw =>
      obtain ⟨h1, h2⟩ := hs
      have hparse := positional_eq_keyword _ args kw h1 h2 (jointNames_nodup Fs hw σ)
      obtain ⟨o', ho', hr', _, _⟩ := reduce_rep Fs hw (σ ++ (kw ++ (jointNames (Fs.map (st σ))).zip args)) fl hfl
      refine ⟨o', ?_, hr'⟩
      simp only [Obj.step, Obj.cond, condJoint, hparse, condition_condition Fs hw.fok, ho']
  | post G H nm hD hL =>
    obtain ⟨hG, hnone, hsG, hfG, hjn⟩ := one_free Fs hw σ G hD
    have hpn := paramNames_rep_post Fs hw σ G hD
    cases s with
    | setName n =>
      refine ⟨_, rfl, ?_⟩
      simp only [stepAssign, List.append_nil]
      exact Rep.post G H (some n) hD hL
    | call args kw =>
      simp only [StepOK, hpn] at hs
      obtain ⟨h1, h2, h3, h4⟩ := hs
      have hm := kwGet_main_none kw h3
      simp only [Obj.step, Obj.cond, stepAssign, Obj.paramNames, hpn]
      match args, h1, h2, h4 with
      | [], _, _, h4 =>
        rcases h4 rfl with rfl | ⟨n, rfl, hn, hk⟩
        · refine ⟨.post (st σ H) (st σ G) (0 + sumEvals 0 (Fs.map (st σ))) nm,
            by simp [condPost, parseDist, kwGet], ?_⟩
          simp only [List.zip_nil_right, List.append_nil]
          exact Rep.post G H nm hD hL
        · simp only [List.mem_singleton] at hn; subst hn
          obtain ⟨x, hx⟩ := Option.isSome_iff_exists.1 ((kwGet_isSome_iff kw G.name).2 hk)
          have hne : kw.isEmpty = false := by cases kw <;> simp_all [kwGet]
          have hv := post_logd_pos Fs hw σ kw G H x hD hL hx
          rw [zero_add] at hv
          refine ⟨.single (.eval (some G.name) (total Fs (σ ++ kw)) 0),
            by simp [condPost, parseDist_nil, hm, hne, hx, hv], ?_⟩
          simp only [List.zip_nil_right, List.append_nil]
          exact Rep.eval _ _ 0 (by simp) (all_fixed_after Fs σ kw _ hjn hk)
      | [x], _, h2, _ =>
        have hg : G.name ∉ kwKeys kw := h2 G.name (by simp)
        have hx : kwGet (kw ++ [(G.name, x)]) G.name = some x := by
          rw [kwGet_append, (kwGet_eq_none_iff kw G.name).2 hg]; simp [kwGet]
        have hv := post_logd_pos Fs hw σ (kw ++ [(G.name, x)]) G H x hD hL hx
        have hp : parseDist [] [x] kw = .ok (kw ++ [(mainKey, x)]) := by
          simp [parseDist, h3]
        have hmx : kwGet (kw ++ [(mainKey, x)]) mainKey = some x := by
          rw [kwGet_append, hm]; simp [kwGet]
        rw [zero_add] at hv
        refine ⟨.single (.eval nm (total Fs (σ ++ (kw ++ [(G.name, x)]))) 0),
          by simp [condPost, hp, hmx, hv], ?_⟩
        simp only [List.zip_cons_cons, List.zip_nil_right]
        exact Rep.eval _ _ 0 (by simp) (all_fixed_after Fs σ _ _ hjn (by simp [kwKeys]))
      | _ :: _ :: _, h1, _, _ => simp at h1
  | dist G hD hL =>
    obtain ⟨hG, hnone, hsG, hfG, hjn⟩ := one_free Fs hw σ G hD
    cases s with
    | setName n => exact absurd hs (by simp [StepOK])
    | call args kw =>
      simp only [StepOK, Dens.paramNames, hfG, List.nil_append] at hs
      obtain ⟨h1, h2, h3, h4⟩ := hs
      have hm := kwGet_main_none kw h3
      simp only [Obj.step, Obj.cond, stepAssign, Obj.paramNames, Dens.paramNames, hfG, List.nil_append,
        condDens]
      match args, h1, h2, h4 with
      | [], _, _, h4 =>
        rcases h4 rfl with rfl | ⟨n, hn, hk⟩
        · refine ⟨.single (.dist G (penv G σ) (0 + sumEvals 0 (Fs.map (st σ)))),
            by simp [condDist, hfG, parseDist, kwGet, bindEnv_nil], ?_⟩
          simp only [List.zip_nil_right, List.append_nil]
          exact Rep.dist G hD hL
        · simp only [List.mem_singleton] at hn; subst hn
          obtain ⟨x, hx⟩ := Option.isSome_iff_exists.1 ((kwGet_isSome_iff kw G.name).2 hk)
          have hne : kw ≠ [] := by intro h; rw [h] at hx; simp [kwGet] at hx
          have hv := dist_logd_pos Fs hw σ kw G x hD hL hx
          simp only [logdDens, logdDist_plain G _ _ x hfG, Except.ok.injEq] at hv
          refine ⟨.single (.eval (some G.name)
              (G.f (envWith (penv G σ) G.name x) + (0 + sumEvals 0 (Fs.map (st σ)))) 0),
            by simp [condDist, hfG, parseDist_nil, hm, hne, hx, bindEnv_nil, toLik], ?_⟩
          simp only [List.zip_nil_right, List.append_nil]
          exact Rep.eval _ _ 0 (by rw [add_zero]; exact hv) (all_fixed_after Fs σ kw _ hjn hk)
      | [x], _, h2, _ =>
        have hg : G.name ∉ kwKeys kw := h2 G.name (by simp)
        have hx : kwGet (kw ++ [(G.name, x)]) G.name = some x := by
          rw [kwGet_append, (kwGet_eq_none_iff kw G.name).2 hg]; simp [kwGet]
        have hv := dist_logd_pos Fs hw σ (kw ++ [(G.name, x)]) G x hD hL hx
        simp only [logdDens, logdDist_plain G _ _ x hfG, Except.ok.injEq] at hv
        have hp : parseDist [] [x] kw = .ok (kw ++ [(mainKey, x)]) := by
          simp [parseDist, h3]
        have hmx : kwGet (kw ++ [(mainKey, x)]) mainKey = some x := by
          rw [kwGet_append, hm]; simp [kwGet]
        refine ⟨.single (.eval (some G.name)
            (G.f (envWith (penv G σ) G.name x) + (0 + sumEvals 0 (Fs.map (st σ)))) 0),
          by simp [condDist, hfG, hp, hmx, bindEnv_nil, toLik], ?_⟩
        simp only [List.zip_cons_cons, List.zip_nil_right]
        exact Rep.eval _ _ 0 (by rw [add_zero]; exact hv) (all_fixed_after Fs σ _ _ hjn (by simp [kwKeys]))
      | _ :: _ :: _, h1, _, _ => simp at h1
  | eval nm v c hv hall =>
    cases s with
    | setName n => exact absurd hs (by simp [StepOK])
    | call args kw =>
      refine ⟨_, rfl, ?_⟩
      refine Rep.eval nm v c ?_ ?_
      · rw [hv]
        apply total_congr Fs hw
        intro n hn
        obtain ⟨F, hF, rfl⟩ := List.mem_map.1 hn
        obtain ⟨d, hd⟩ := Option.isSome_iff_exists.1 ((kwGet_isSome_iff σ F.name).2 (hall F hF))
        rw [kwGet_append, hd]
      · intro F hF; rw [kwKeys_append]; exact List.mem_append_left _ (hall F hF)

/-- **Every admissible program runs through, and ends in an object of `Rep` for the assignment
    it accumulated.** -/
lemma rep_run (Fs : List (Factor V K)) (hw : WF Fs) (steps : List (Step V)) :
    ∀ (σ : Kw V) (o : Obj V K), Rep Fs σ o → RunOK o steps →
      ∃ o', runSteps o steps = .ok o' ∧ Rep Fs (σ ++ runAssign o steps) o' := by
  induction steps with
  | nil => intro σ o hr _; exact ⟨o, rfl, by simpa [runAssign] using hr⟩
  | cons s r ih =>
    intro σ o hr hok
    obtain ⟨o₁, h₁, hr₁⟩ := rep_step Fs hw σ o hr s hok.1
    have hok₂ := hok.2
    simp only [h₁] at hok₂
    obtain ⟨o', h', hr'⟩ := ih _ o₁ hr₁ hok₂
    refine ⟨o', by simp [runSteps, h₁, h'], ?_⟩
    simpa [runAssign, h₁, List.append_assoc] using hr'

/-- the freshly constructed `JointDistribution(*Fs)` -/
def freshJoint (Fs : List (Factor V K)) : Obj V K := .joint .plain (Fs.map fresh)

lemma rep_fresh (Fs : List (Factor V K)) : Rep Fs [] (freshJoint Fs) := by
  unfold freshJoint
  have hfresh : Fs.map fresh = Fs.map (st ([] : Kw V)) := by
    apply List.map_congr_left; intro F _; exact (st_fresh F).symm
  rw [hfresh]; exact Rep.joint .plain (by decide)

/-- the parameter names of every object of `Rep` are the variables left free, in density order -/
lemma rep_paramNames (Fs : List (Factor V K)) (hw : WF Fs) (σ : Kw V) (o : Obj V K) (hr : Rep Fs σ o) :
    o.paramNames = jointNames (Fs.map (st σ)) := by
  cases hr with
  | joint fl hfl => rfl
  | post G H nm hD hL =>
    obtain ⟨_, _, _, _, hjn⟩ := one_free Fs hw σ G hD
    rw [hjn]; exact paramNames_rep_post Fs hw σ G hD
  | dist G hD hL =>
    obtain ⟨_, _, _, hfG, hjn⟩ := one_free Fs hw σ G hD
    rw [hjn]; simp [Obj.paramNames, Dens.paramNames, hfG]
  | eval nm v c hv hall => rw [all_fixed_of_eval Fs σ hall]; rfl

omit [AddCommMonoid K] in
/-- a keyword call naming exactly the parameters is not malformed -/
lemma not_refused_kw (names : List Name) (τ : Kw V) (h : ∀ n, n ∈ kwKeys τ ↔ n ∈ names) :
    ¬ Refused names ([] : List V) τ := by
  simp only [Refused, not_or, not_lt, not_exists, not_and]
  refine ⟨by simp, by simp, ?_, ?_⟩
  · intro n hn hk; exact absurd ((h n).2 hn) hk
  · intro n hn hc; exact hc ((h n).1 hn)

end CuqiVerif.C01
