import CuqiVerif.Model.C04
import CuqiVerif.Proofs.RExpr
import Mathlib.Algebra.BigOperators.Group.Finset.Basic
import Mathlib.Algebra.BigOperators.Ring.Finset
import Mathlib.Analysis.SpecialFunctions.Exp
import Mathlib.Tactic.Ring
import Mathlib.Tactic.FieldSimp
import Mathlib.Tactic.Positivity
import Mathlib.Tactic.Linarith

/-!
# C04 — helper lemmas

The executable folds of `Model/C04.lean` (`sumTo`, `prodTo`, `matVec`, `quadForm`, `normSqR`,
`gramOf`) as `Finset` sums/products, and `exp` of a `sumTo`.
-/
open Finset
namespace CuqiVerif.C04
open CuqiVerif RExpr

section sums
variable {R : Type} [CommRing R]

lemma sumTo_eq_sum (n : ℕ) (f : ℕ → R) : sumTo n f = ∑ j ∈ range n, f j := by
  unfold sumTo
  induction n with
  | zero => simp
  | succ k ih => rw [List.range_succ, List.foldl_append, ih, Finset.sum_range_succ]; rfl

lemma prodTo_eq_prod (n : ℕ) (f : ℕ → R) : prodTo n f = ∏ j ∈ range n, f j := by
  unfold prodTo
  induction n with
  | zero => simp
  | succ k ih => rw [List.range_succ, List.foldl_append, ih, Finset.prod_range_succ]; rfl

lemma matVec_eq (n : ℕ) (M : ℕ → ℕ → R) (z : ℕ → R) (k : ℕ) :
    matVec n M z k = ∑ j ∈ range n, M k j * z j := by
  simp [matVec, sumTo_eq_sum]

lemma quadForm_eq (n : ℕ) (P : ℕ → ℕ → R) (z : ℕ → R) :
    quadForm n P z = ∑ i ∈ range n, z i * ∑ j ∈ range n, P i j * z j := by
  simp [quadForm, sumTo_eq_sum, matVec_eq]

lemma normSqR_eq (m n : ℕ) (Rm : ℕ → ℕ → R) (z : ℕ → R) :
    normSqR m n Rm z = ∑ k ∈ range m, (∑ j ∈ range n, Rm k j * z j) * (∑ j ∈ range n, Rm k j * z j) := by
  simp [normSqR, sumTo_eq_sum, matVec_eq]

lemma gramOf_eq (m : ℕ) (Rm : ℕ → ℕ → R) (i j : ℕ) :
    gramOf m Rm i j = ∑ k ∈ range m, Rm k i * Rm k j := by
  simp [gramOf, sumTo_eq_sum]

end sums

/-- `exp` of a sum is the product of the `exp`s -/
lemma exp_sumTo (n : ℕ) (f : ℕ → ℝ) : Real.exp (sumTo n f) = ∏ j ∈ range n, Real.exp (f j) := by
  rw [sumTo_eq_sum, Real.exp_sum]

/-- environment `x, p1, p2, p3` of a scalar component -/
def env4 (x a b c : ℝ) : ℕ → ℝ := fun k => match k with | 0 => x | 1 => a | 2 => b | _ => c
@[simp] lemma env4_0 (x a b c : ℝ) : env4 x a b c 0 = x := rfl
@[simp] lemma env4_1 (x a b c : ℝ) : env4 x a b c 1 = a := rfl
@[simp] lemma env4_2 (x a b c : ℝ) : env4 x a b c 2 = b := rfl
@[simp] lemma env4_3 (x a b c : ℝ) : env4 x a b c 3 = c := rfl

lemma bc_ofFn {n : ℕ} (f : Fin n → ℝ) (j : Fin n) : bc (0:ℝ) (List.ofFn f) j = f j := by
  unfold bc
  have hj : (j : ℕ) < (List.ofFn f).length := by simp
  split_ifs with h
  · have hn : n = 1 := by simpa using h
    subst hn
    have : j = 0 := Subsingleton.elim _ _
    subst this
    simp
  · simp [List.getD_eq_getElem?_getD]

lemma bcLen_ofFn3 {n : ℕ} (x a b : Fin n → ℝ) : bcLen (List.ofFn x) [List.ofFn a, List.ofFn b] = n := by
  simp [bcLen]

/-- component environments of an i.i.d. family with per-component parameters `a`, `b` -/
lemma iid_ofFn_eq_sum {n : ℕ} (comp : RExpr) (x a b : Fin n → ℝ) :
    iid eval 0 comp (List.ofFn x) [List.ofFn a, List.ofFn b]
      = ∑ i : Fin n, eval (env 0 (List.ofFn x) [List.ofFn a, List.ofFn b] i) comp := by
  unfold iid
  rw [sumTo_eq_sum, bcLen_ofFn3, Finset.sum_range]

lemma bc_short (v : List ℚ) (hv : v.length ≤ 1) (j : ℕ) : bc (0:ℚ) v j = bc 0 v 0 := by
  unfold bc
  split_ifs with h
  · rfl
  · have : v = [] := List.eq_nil_of_length_eq_zero (by omega)
    subst this; simp

end CuqiVerif.C04
