import CuqiVerif.Model.C20
import Mathlib.Algebra.BigOperators.Group.Finset.Basic
import Mathlib.Algebra.BigOperators.Ring.Finset
import Mathlib.Algebra.Order.BigOperators.Ring.Finset
import Mathlib.Algebra.Order.Field.Basic
import Mathlib.Tactic.Ring
import Mathlib.Tactic.Linarith
import Mathlib.Tactic.Positivity

/-!
# C20 — helper lemmas

`apply M x i = Σ_{j < cols} M.e i j · x j` is the action of a model matrix on a vector
`x : ℕ → R` (only indices `< cols` are read).  This file holds the entry-by-entry descriptions of
the model matrices (`*_entry`) and the summation lemmas the property theorems in
`Props/C20.lean` are assembled from.
-/
open Finset

namespace CuqiVerif.C20

variable {R : Type*} [CommRing R]

/-- action of a model matrix on a vector -/
def apply (M : FMat) (x : ℕ → R) (i : ℕ) : R := ∑ j ∈ range M.cols, (M.e i j : R) * x j

lemma sum_delta (n k : ℕ) (x : ℕ → R) :
    ∑ j ∈ range n, (if j = k then (1:R) else 0) * x j = if k < n then x k else 0 := by
  simp [ite_mul, Finset.sum_ite_eq']

lemma sum_delta_shift (n k d : ℕ) (x : ℕ → R) :
    ∑ j ∈ range n, (if j + d = k then (1:R) else 0) * x j
      = if d ≤ k ∧ k - d < n then x (k - d) else 0 := by
  by_cases h : d ≤ k
  · have : ∀ j, (j + d = k) ↔ (j = k - d) := fun j => by omega
    simp only [this, h, true_and]
    exact sum_delta n (k - d) x
  · have : ∀ j, ¬ (j + d = k) := fun j => by omega
    simp [this, h]

/-- `Σ_j [j = k]·x_j = x_k` when `k` is a column. -/
lemma sum_delta_lt {n k : ℕ} (hk : k < n) (x : ℕ → R) :
    ∑ j ∈ range n, (if j = k then (1:R) else 0) * x j = x k := by
  rw [sum_delta, if_pos hk]

/-! ## entries of the 1-D operators -/

/-- entries of the zero-boundary first-order operator -/
lemma firstOrder_zero_entry (n i j : ℕ) :
    (firstOrder .zero n).e i j = (if j = i then 1 else 0) - (if j + 1 = i then 1 else 0) := by
  simp only [firstOrder, spdiags, List.foldl]
  split_ifs <;> omega

/-- entries of the periodic first-order operator (`n ≥ 2`, rows `0..n`, columns `< n`):
    row `i` has `+1` in column `i mod n` and `-1` in column `(i-1) mod n`. -/
lemma firstOrder_periodic_entry (n i j : ℕ) (hn : 2 ≤ n) (hi : i ≤ n) (hj : j < n) :
    (firstOrder .periodic n).e i j
      = (if j = (if i = n then 0 else i) then 1 else 0)
        - (if j = (if i = 0 ∨ i = n then n - 1 else i - 1) then 1 else 0) := by
  simp only [firstOrder, FMat.set, spdiags, List.foldl]
  split_ifs <;> omega

lemma firstOrder_neumann_entry (n i j : ℕ) :
    (firstOrder .neumann n).e i j = (if j = i + 1 then 1 else 0) - (if j = i then 1 else 0) := by
  simp only [firstOrder, spdiags, List.foldl]
  split_ifs <;> omega

lemma firstOrder_backward_entry_zero (n j : ℕ) :
    (firstOrder .backward n).e 0 j = (if j = 0 then 1 else 0) := by
  simp only [firstOrder, FMat.set, spdiags, List.foldl, true_and, Nat.cast_zero]
  split_ifs <;> omega

lemma firstOrder_backward_entry_succ (n i j : ℕ) :
    (firstOrder .backward n).e (i + 1) j
      = (if j = i then 1 else 0) - (if j = i + 1 then 1 else 0) := by
  simp only [firstOrder, FMat.set, spdiags, List.foldl, Nat.add_eq_zero_iff, one_ne_zero,
    and_false, false_and, if_false]
  split_ifs <;> omega

lemma firstOrder_none_entry (n i j : ℕ) :
    (firstOrder .none n).e i j = (if j = i then 1 else 0) := by
  simp only [firstOrder, eye]
  split_ifs <;> omega

lemma secondOrder_zero_entry (n i j : ℕ) :
    (secondOrder .zero n).e i j
      = -(if j + 2 = i then 1 else 0) + 2 * (if j + 1 = i then 1 else 0)
        - (if j = i then 1 else 0) := by
  simp only [secondOrder, spdiags, List.foldl]
  split_ifs <;> omega

lemma secondOrder_neumann_entry (n i j : ℕ) :
    (secondOrder .neumann n).e i j
      = -(if j = i then 1 else 0) + 2 * (if j = i + 1 then 1 else 0)
        - (if j = i + 2 then 1 else 0) := by
  simp only [secondOrder, spdiags, List.foldl]
  split_ifs <;> omega

lemma secondOrder_periodic_entry_row0 (n j : ℕ) (hn : 3 ≤ n) :
    (secondOrder .periodic n).e 0 j
      = -(if j = n - 2 then 1 else 0) + 2 * (if j = n - 1 then 1 else 0)
        - (if j = 0 then 1 else 0) := by
  have e1 : ¬ (0 = n + 1) := by omega
  have e2 : ¬ (0 = n) := by omega
  simp only [secondOrder, FMat.set, spdiags, List.foldl, e1, e2, false_and, if_false, true_and,
    zero_ne_one, Nat.cast_zero]
  split_ifs <;> omega

lemma secondOrder_periodic_entry_row1 (n j : ℕ) (hn : 3 ≤ n) :
    (secondOrder .periodic n).e 1 j
      = -(if j = n - 1 then 1 else 0) + 2 * (if j = 0 then 1 else 0)
        - (if j = 1 then 1 else 0) := by
  have e1 : ¬ (1 = n + 1) := by omega
  have e2 : ¬ (1 = n) := by omega
  simp only [secondOrder, FMat.set, spdiags, List.foldl, e1, e2, false_and, if_false, true_and,
    one_ne_zero, Nat.cast_one]
  split_ifs <;> omega

lemma secondOrder_periodic_entry_mid (n i j : ℕ) (h2 : 2 ≤ i) (hi : i < n) :
    (secondOrder .periodic n).e i j
      = -(if j = i - 2 then 1 else 0) + 2 * (if j = i - 1 then 1 else 0)
        - (if j = i then 1 else 0) := by
  have e1 : ¬ (i = n + 1) := by omega
  have e2 : ¬ (i = n) := by omega
  have e3 : ¬ (i = 0) := by omega
  have e4 : ¬ (i = 1) := by omega
  simp only [secondOrder, FMat.set, spdiags, List.foldl, e1, e2, e3, e4, false_and, if_false]
  split_ifs <;> omega

lemma secondOrder_periodic_entry_rown (n i j : ℕ) (hn : 3 ≤ n) (hi : i = n) (hj : j < n) :
    (secondOrder .periodic n).e i j
      = -(if j = n - 2 then 1 else 0) + 2 * (if j = n - 1 then 1 else 0)
        - (if j = 0 then 1 else 0) := by
  have e1 : ¬ (i = n + 1) := by omega
  have e3 : ¬ (i = 0) := by omega
  have e4 : ¬ (i = 1) := by omega
  simp only [secondOrder, FMat.set, spdiags, List.foldl, e1, e3, e4, false_and, if_false]
  split_ifs <;> omega

lemma secondOrder_periodic_entry_rown1 (n i j : ℕ) (hn : 3 ≤ n) (hi : i = n + 1) (hj : j < n) :
    (secondOrder .periodic n).e i j
      = -(if j = n - 1 then 1 else 0) + 2 * (if j = 0 then 1 else 0)
        - (if j = 1 then 1 else 0) := by
  have e2 : ¬ (i = n) := by omega
  have e3 : ¬ (i = 0) := by omega
  have e4 : ¬ (i = 1) := by omega
  simp only [secondOrder, FMat.set, spdiags, List.foldl, e2, e3, e4, false_and, if_false]
  split_ifs <;> omega

/-! ## summation helpers -/

/-- the `List.range … foldl` accumulation used by `gram` is a finite sum -/
lemma foldl_range_eq_sum (f : ℕ → ℤ) (n : ℕ) :
    (List.range n).foldl (fun acc k => acc + f k) 0 = ∑ k ∈ range n, f k := by
  induction n with
  | zero => rfl
  | succ n ih => rw [List.range_succ, List.foldl_append, ih, Finset.sum_range_succ]; rfl

/-- a sum over `range (n*m)` split into `n` blocks of length `m` -/
lemma sum_range_mul_block {M : Type*} [AddCommMonoid M] (f : ℕ → M) (n m : ℕ) :
    ∑ j ∈ range (n * m), f j = ∑ a ∈ range n, ∑ c ∈ range m, f (a * m + c) := by
  induction n with
  | zero => simp
  | succ n ih => rw [Nat.succ_mul, Finset.sum_range_add, ih, Finset.sum_range_succ]

end CuqiVerif.C20
