import CuqiVerif.Model.C16
import Mathlib.Algebra.Order.Field.Basic
import Mathlib.Algebra.Order.AbsoluteValue.Basic
import Mathlib.Algebra.Module.LinearMap.Defs
import Mathlib.Algebra.BigOperators.Group.Finset.Basic
import Mathlib.Algebra.BigOperators.Ring.Finset
import Mathlib.Algebra.Order.BigOperators.Ring.Finset
import Mathlib.Tactic.Ring
import Mathlib.Tactic.Linarith
import Mathlib.Tactic.Abel
import Mathlib.Tactic.Module
import Mathlib.Tactic.FieldSimp
import Mathlib.Tactic.Positivity

/-!
# C16 — helper lemmas

The model (`Model/C16.lean`) is generic in the scalar type; here it is instantiated at an
arbitrary linearly ordered field `K` (the driver runs `K = ℚ`; `K = ℝ` is covered as well).
Vector operations come in a record `VOps`; `VOps.Lawful` says that the record's operations are
those of a `K`-module.
-/

set_option linter.unusedSectionVars false
set_option linter.unusedVariables false

namespace CuqiVerif.C16

section Scalar
variable {K : Type} [Field K] [LinearOrder K] [IsStrictOrderedRing K]

lemma absK_eq (x : K) : absK x = |x| := by
  unfold absK; split_ifs with h
  · rw [abs_of_neg h]
  · rw [abs_of_nonneg (not_lt.1 h)]

lemma maxK_eq (a b : K) : maxK a b = max a b := by
  unfold maxK; split_ifs with h
  · exact (max_eq_right h.le).symm
  · exact (max_eq_left (not_lt.1 h)).symm

lemma minK_eq (a b : K) : minK a b = min a b := by
  unfold minK; split_ifs with h
  · exact (min_eq_right h.le).symm
  · exact (min_eq_left (not_lt.1 h)).symm

/-- the three branches of soft-thresholding -/
lemma softThr_eq (g x : K) (hg : 0 ≤ g) :
    softThr g x = if g < x then x - g else if x < -g then x + g else 0 := by
  unfold softThr sgn maxK absK
  split_ifs <;> first | (exfalso; linarith) | ring1 | linarith

/-- strong optimality of soft-thresholding (one coordinate) -/
lemma softThr_strong (g x z : K) (hg : 0 ≤ g) :
    (softThr g x - x) ^ 2 / 2 + g * |softThr g x| + (z - softThr g x) ^ 2 / 2
      ≤ (z - x) ^ 2 / 2 + g * |z| := by
  rw [softThr_eq g x hg]
  split_ifs with h1 h2
  · rw [abs_of_pos (by linarith : 0 < x - g)]
    nlinarith [mul_nonneg hg (sub_nonneg.2 (le_abs_self z))]
  · rw [abs_of_neg (by linarith : x + g < 0)]
    nlinarith [mul_nonneg hg (sub_nonneg.2 (neg_abs_le z))]
  · rw [abs_zero]
    rcases le_total 0 z with hz | hz
    · rw [abs_of_nonneg hz]
      nlinarith [mul_nonneg hz (sub_nonneg.2 (not_lt.1 h1))]
    · rw [abs_of_nonpos hz]
      nlinarith [mul_nonneg (neg_nonneg.2 hz) (sub_nonneg.2 (not_lt.1 h2))]

lemma projBox1_mem (x l u : K) (h : l ≤ u) : l ≤ projBox1 x l u ∧ projBox1 x l u ≤ u := by
  unfold projBox1; rw [minK_eq, maxK_eq]
  exact ⟨le_min (le_max_right _ _) h, min_le_right _ _⟩

/-- strong optimality of clipping (one coordinate) -/
lemma projBox1_strong (x l u z : K) (h : l ≤ u) (hz1 : l ≤ z) (hz2 : z ≤ u) :
    (projBox1 x l u - x) ^ 2 + (z - projBox1 x l u) ^ 2 ≤ (z - x) ^ 2 := by
  rcases lt_or_ge x l with h1 | h1
  · have e : projBox1 x l u = l := by
      unfold projBox1 minK maxK; rw [if_pos h1, if_neg (not_lt.2 h)]
    rw [e]; nlinarith [mul_nonneg (sub_nonneg.2 hz1) (sub_nonneg.2 h1.le)]
  · rcases lt_or_ge u x with h2 | h2
    · have e : projBox1 x l u = u := by
        unfold projBox1 minK maxK; rw [if_neg (not_lt.2 h1), if_pos h2]
      rw [e]; nlinarith [mul_nonneg (sub_nonneg.2 hz2) (sub_nonneg.2 h2.le)]
    · have e : projBox1 x l u = x := by
        unfold projBox1 minK maxK; rw [if_neg (not_lt.2 h1), if_neg (not_lt.2 h2)]
      rw [e]; nlinarith

lemma projNonneg1_strong (x z : K) (hz : 0 ≤ z) :
    0 ≤ projNonneg1 x ∧ (projNonneg1 x - x) ^ 2 + (z - projNonneg1 x) ^ 2 ≤ (z - x) ^ 2 := by
  unfold projNonneg1 maxK
  split_ifs with h
  · exact ⟨le_refl _, by nlinarith [mul_nonneg hz (neg_nonneg.2 h.le)]⟩
  · exact ⟨not_lt.1 h, by nlinarith⟩

lemma cgFlag_true_iff (gamma gamma0 nx2 tol : K) (htol : 0 ≤ tol) :
    cgFlag gamma gamma0 nx2 tol = true ↔ gamma ≤ gamma0 * tol ^ 2 ∨ 1 ≤ nx2 * tol ^ 2 := by
  unfold cgFlag
  rw [if_neg (not_lt.2 htol)]
  simp [pow_two]

lemma lmCont_false (ng2 ng02 gradtol : K) (h0 : ng02 ≠ 0) (hg : 0 ≤ gradtol)
    (h : lmCont ng2 ng02 gradtol = false) : ng2 ≤ gradtol ^ 2 * ng02 := by
  unfold lmCont at h
  rw [if_neg h0, if_neg (not_lt.2 hg)] at h
  simpa [pow_two] using h

lemma fistaSmall_true_iff (d2 abstol : K) :
    fistaSmall d2 abstol = true ↔ 0 ≤ abstol ∧ d2 ≤ abstol ^ 2 := by
  unfold fistaSmall
  split_ifs with h
  · simp [h]
  · simp [not_lt.1 h, pow_two]

end Scalar

/-! ## Lawful operation records -/

/-- the record's `add/sub/smul` are the module operations -/
structure VOps.Lawful {K V : Type} [Field K] [AddCommGroup V] [Module K V] (o : VOps K V) : Prop where
  add : ∀ a b, o.add a b = a + b
  sub : ∀ a b, o.sub a b = a - b
  smul : ∀ (c : K) a, o.smul c a = c • a

/-- the module operations as a record, with any bilinear-or-not `dot` -/
def VOps.ofModule (K V : Type) [Field K] [AddCommGroup V] [Module K V] (dot : V → V → K) : VOps K V :=
  { add := (· + ·), sub := (· - ·), smul := (· • ·), dot := dot }

lemma VOps.ofModule_lawful (K V : Type) [Field K] [AddCommGroup V] [Module K V] (dot : V → V → K) :
    (VOps.ofModule K V dot).Lawful := ⟨fun _ _ => rfl, fun _ _ => rfl, fun _ _ => rfl⟩

section CG
variable {K V W : Type} [Field K] [LinearOrder K] [IsStrictOrderedRing K]
  [AddCommGroup V] [Module K V] [AddCommGroup W] [Module K W]
variable (oV : VOps K V) (oW : VOps K W) (A : V →ₗ[K] W) (At : W →ₗ[K] V) (b : W) (shift tol eps : K)

/-- the CGLS loop invariant -/
def CGInv (gamma0 : K) (st : CGState K V W) : Prop :=
  st.r = b - A st.x ∧ st.s = At st.r - shift • st.x ∧ st.gamma = oV.nrm2 st.s ∧
    (st.flag = true → cgFlag st.gamma gamma0 (oV.nrm2 st.x) tol = true)

variable {oV oW}

lemma cglsInit_inv (hV : oV.Lawful) (hW : oW.Lawful) (gamma0 : K) (x0 : V) :
    CGInv oV A At b shift tol gamma0 (cglsInit oV oW A At b shift x0) := by
  unfold cglsInit CGInv
  simp [hV.sub, hV.smul, hW.sub]

lemma cglsStep_inv (hV : oV.Lawful) (hW : oW.Lawful) (gamma0 : K) (st : CGState K V W)
    (h : CGInv oV A At b shift tol gamma0 st) :
    CGInv oV A At b shift tol gamma0 (cglsStep oV oW A At shift tol eps gamma0 st) := by
  obtain ⟨hr, hs, hg, _⟩ := h
  unfold cglsStep CGInv
  simp only [hV.sub, hV.smul, hV.add, hW.sub, hW.smul]
  refine ⟨?_, trivial, trivial, id⟩
  rw [hr, map_add, map_smul]; abel

lemma cglsLoop_inv (hV : oV.Lawful) (hW : oW.Lawful) (gamma0 : K) (fuel : ℕ) (st : CGState K V W)
    (h : CGInv oV A At b shift tol gamma0 st) :
    CGInv oV A At b shift tol gamma0 (cglsLoop oV oW A At shift tol eps gamma0 fuel st) := by
  induction fuel generalizing st with
  | zero => exact h
  | succ n ih =>
    unfold cglsLoop
    split_ifs
    · exact h
    · exact ih _ (cglsStep_inv A At b shift tol eps hV hW gamma0 st h)

lemma cgls_inv (hV : oV.Lawful) (hW : oW.Lawful) (x0 : V) (maxit : ℕ) :
    CGInv oV A At b shift tol (oV.nrm2 (At (b - A x0) - shift • x0)) (cgls oV oW A At b shift tol eps x0 maxit) := by
  have h0 : (cglsInit oV oW A At b shift x0).gamma = oV.nrm2 (At (b - A x0) - shift • x0) := by
    simp [cglsInit, hV.sub, hV.smul, hW.sub]
  rw [← h0]
  exact cglsLoop_inv A At b shift tol eps hV hW _ maxit _ (cglsInit_inv A At b shift tol hV hW _ x0)

end CG

section CGCount
variable {K V W : Type} [Field K] [LinearOrder K] [IsStrictOrderedRing K]
variable {oV : VOps K V} {oW : VOps K W} (fwd : V → W) (adj : W → V) (shift tol eps : K)

lemma cglsLoop_count (gamma0 : K) (fuel : ℕ) (st : CGState K V W) :
    let fin := cglsLoop oV oW fwd adj shift tol eps gamma0 fuel st
    fin.k ≤ st.k + fuel ∧ (fin.flag = false → fin.k = st.k + fuel) := by
  induction fuel generalizing st with
  | zero => simp [cglsLoop]
  | succ n ih =>
    unfold cglsLoop
    split_ifs with hf
    · simp [hf]
    · have := ih (cglsStep oV oW fwd adj shift tol eps gamma0 st)
      have hk : (cglsStep oV oW fwd adj shift tol eps gamma0 st).k = st.k + 1 := rfl
      simp only [hk] at this
      refine ⟨by omega, fun h => ?_⟩
      have := this.2 h
      omega

end CGCount

section PCG
variable {K V W : Type} [Field K] [LinearOrder K] [IsStrictOrderedRing K]
  [AddCommGroup V] [Module K V] [AddCommGroup W] [Module K W]
variable (oV : VOps K V) (oW : VOps K W) (A : V →ₗ[K] W) (At : W →ₗ[K] V) (b : W) (tol eps : K)
  (Pi PiT : V →ₗ[K] V)

/-- the PCGLS loop invariant: the search gradient is `P⁻ᵀ Aᵀ (b − A x)` — no shift anywhere -/
def PCGInv (gamma0 : K) (st : CGState K V W) : Prop :=
  st.r = b - A st.x ∧ st.s = PiT (At st.r) ∧ st.gamma = oV.nrm2 st.s ∧
    (st.flag = true → cgFlag st.gamma gamma0 (oV.nrm2 st.x) tol = true)

variable {oV oW}

lemma pcglsInit_inv (hV : oV.Lawful) (hW : oW.Lawful) (gamma0 : K) (x0 : V) :
    PCGInv oV A At b tol PiT gamma0 (pcglsInit oV oW A At b PiT x0) := by
  unfold pcglsInit PCGInv
  simp [hW.sub]

lemma pcglsStep_inv (hV : oV.Lawful) (hW : oW.Lawful) (gamma0 : K) (st : CGState K V W)
    (h : PCGInv oV A At b tol PiT gamma0 st) :
    PCGInv oV A At b tol PiT gamma0 (pcglsStep oV oW A At tol eps Pi PiT gamma0 st) := by
  obtain ⟨hr, hs, hg, _⟩ := h
  unfold pcglsStep PCGInv
  simp only [hV.smul, hV.add, hW.sub, hW.smul]
  refine ⟨?_, trivial, trivial, id⟩
  rw [hr, map_add, map_smul]; abel

lemma pcglsLoop_inv (hV : oV.Lawful) (hW : oW.Lawful) (gamma0 : K) (fuel : ℕ) (st : CGState K V W)
    (h : PCGInv oV A At b tol PiT gamma0 st) :
    PCGInv oV A At b tol PiT gamma0 (pcglsLoop oV oW A At tol eps Pi PiT gamma0 fuel st) := by
  induction fuel generalizing st with
  | zero => exact h
  | succ n ih =>
    unfold pcglsLoop
    split_ifs
    · exact h
    · exact ih _ (pcglsStep_inv A At b tol eps Pi PiT hV hW gamma0 st h)

lemma pcgls_inv (hV : oV.Lawful) (hW : oW.Lawful) (shift : K) (x0 : V) (maxit : ℕ) :
    PCGInv oV A At b tol PiT (oV.nrm2 (PiT (At (b - A x0)))) (pcgls oV oW A At b tol eps Pi PiT shift x0 maxit) := by
  have h0 : (pcglsInit oV oW A At b PiT x0).gamma = oV.nrm2 (PiT (At (b - A x0))) := by
    simp [pcglsInit, hW.sub]
  rw [← h0]
  exact pcglsLoop_inv A At b tol eps Pi PiT hV hW _ maxit _ (pcglsInit_inv A At b tol PiT hV hW _ x0)

end PCG

/-! ## Proximal-gradient fixed points and minimisers -/
section ProxMin
variable {K : Type} [Field K] [LinearOrder K] [IsStrictOrderedRing K]

/-- the "small step" argument: a quadratic `θ·a + θ²·c` (`c ≥ 0`) that is non-negative on `(0,1]` has `a ≥ 0` -/
lemma theta_trick (a c : K) (hc : 0 ≤ c) (h : ∀ θ : K, 0 < θ → θ ≤ 1 → 0 ≤ θ * a + θ ^ 2 * c) : 0 ≤ a := by
  by_contra ha
  rw [not_le] at ha
  rcases hc.eq_or_lt with hc0 | hcpos
  · have := h 1 one_pos le_rfl
    rw [← hc0] at this; linarith
  · set θ := min 1 (-a / (2 * c)) with hθ
    have hpos : 0 < -a / (2 * c) := div_pos (by linarith) (by linarith)
    have h1 : 0 < θ := lt_min one_pos hpos
    have h2 : θ ≤ 1 := min_le_left _ _
    have h3 : θ ≤ -a / (2 * c) := min_le_right _ _
    have h4 : θ * c ≤ -a / 2 := by
      have := mul_le_mul_of_nonneg_right h3 hcpos.le
      have e : -a / (2 * c) * c = -a / 2 := by field_simp
      linarith
    have := h θ h1 h2
    have : 0 ≤ θ * (a + θ * c) := by nlinarith
    have : 0 ≤ a + θ * c := nonneg_of_mul_nonneg_right this h1
    linarith

section VI
variable {E : Type} [AddCommGroup E] [Module K E]

/-- `C` is convex and `g` is convex on `C` (segment form) -/
structure ConvexData (C : Set E) (g : E → K) : Prop where
  seg : ∀ x ∈ C, ∀ z ∈ C, ∀ θ : K, 0 ≤ θ → θ ≤ 1 → x + θ • (z - x) ∈ C
  conv : ∀ x ∈ C, ∀ z ∈ C, ∀ θ : K, 0 ≤ θ → θ ≤ 1 → g (x + θ • (z - x)) ≤ g x + θ * (g z - g x)

/-- minimising `Φ + g` over a convex set, `Φ` quadratic around `x`, is a variational inequality at `x` -/
lemma min_iff_vi (C : Set E) (g : E → K) (hCg : ConvexData C g) (Φ : E → K) (x : E) (hx : x ∈ C)
    (L Q : E → K) (hQ : ∀ d, 0 ≤ Q d)
    (hΦ : ∀ (d : E) (θ : K), Φ (x + θ • d) = Φ x + θ * L d + θ ^ 2 * Q d) :
    (∀ z ∈ C, Φ x + g x ≤ Φ z + g z) ↔ (∀ z ∈ C, 0 ≤ L (z - x) + (g z - g x)) := by
  constructor
  · intro h z hz
    apply theta_trick _ (Q (z - x)) (hQ _)
    intro θ h0 h1
    have hm := h _ (hCg.seg x hx z hz θ h0.le h1)
    have hc := hCg.conv x hx z hz θ h0.le h1
    rw [hΦ] at hm
    nlinarith
  · intro h z hz
    have e : z = x + (1 : K) • (z - x) := by rw [one_smul]; abel
    have := hΦ (z - x) 1
    rw [← e] at this
    have h2 := h z hz
    have h3 := hQ (z - x)
    rw [this]; nlinarith

end VI

section IP
variable {E F : Type} [AddCommGroup E] [Module K E] [AddCommGroup F] [Module K F]

/-- a symmetric bilinear form with non-negative squares (e.g. the Euclidean dot product) -/
structure IsIP (ip : E → E → K) : Prop where
  add_left : ∀ a b c, ip (a + b) c = ip a c + ip b c
  smul_left : ∀ (t : K) a c, ip (t • a) c = t * ip a c
  comm : ∀ a b, ip a b = ip b a
  nonneg : ∀ a, 0 ≤ ip a a

lemma IsIP.expand {ip : E → E → K} (h : IsIP ip) (u w : E) (θ : K) :
    ip (u + θ • w) (u + θ • w) = ip u u + θ * (2 * ip u w) + θ ^ 2 * ip w w := by
  rw [h.add_left, h.smul_left, h.comm u, h.comm w, h.add_left, h.smul_left, h.add_left, h.smul_left, h.comm w u]
  ring

variable (ipE : E → E → K) (ipF : F → F → K) (A : E →ₗ[K] F) (At : F →ₗ[K] E) (b : F)

/-- `½‖A x − b‖²` -/
def lsq (x : E) : K := ipF (A x - b) (A x - b) / 2
/-- `Aᵀ(A x − b)` -/
def lsqGrad (x : E) : E := At (A x - b)

/-- `p` minimises `½‖z − v‖² + t·g(z)` over `C`: `p = prox_{t g + ι_C}(v)` -/
def IsProxPoint (C : Set E) (g : E → K) (t : K) (v p : E) : Prop :=
  p ∈ C ∧ ∀ z ∈ C, ipE (p - v) (p - v) / 2 + t * g p ≤ ipE (z - v) (z - v) / 2 + t * g z

lemma lsq_expand (hF : IsIP ipF) (hadj : ∀ d w, ipF (A d) w = ipE d (At w)) (hE : IsIP ipE) (x d : E) (θ : K) :
    lsq ipF A b (x + θ • d) = lsq ipF A b x + θ * ipE (lsqGrad A At b x) d + θ ^ 2 * (ipF (A d) (A d) / 2) := by
  unfold lsq lsqGrad
  have e : A (x + θ • d) - b = (A x - b) + θ • A d := by rw [map_add, map_smul]; abel
  rw [e, hF.expand, hF.comm (A x - b) (A d), hadj, hE.comm d]
  ring

lemma sq_expand (hE : IsIP ipE) (v x d : E) (θ : K) :
    ipE (x + θ • d - v) (x + θ • d - v) / 2
      = ipE (x - v) (x - v) / 2 + θ * ipE (x - v) d + θ ^ 2 * (ipE d d / 2) := by
  have e : x + θ • d - v = (x - v) + θ • d := by abel
  rw [e, hE.expand]; ring

end IP
end ProxMin

end CuqiVerif.C16
