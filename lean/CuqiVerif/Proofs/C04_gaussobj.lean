import CuqiVerif.Model.C04_gaussobj
import Mathlib.Algebra.BigOperators.Group.Finset.Basic
import Mathlib.Algebra.BigOperators.Ring.Finset
import Mathlib.Algebra.Order.Field.Rat
import Mathlib.Tactic.Ring
import Mathlib.Tactic.FieldSimp
import Mathlib.Tactic.NormNum

/-! helper lemmas for `Props/C04_gaussobj.lean` -/
namespace CuqiVerif.C04
open CuqiVerif

/-- the cache invariant: `_cov` is empty, or the user's current `cov` argument, or the covariance of the current
    main matrix -/
def Coherent (denote : Form → Stored → Nat → Option QMat.Mat) (o : GObj) : Prop :=
  match o.cov with
  | .unset => True
  | .raw s => o.form = .cov ∧ o.main = some s
  | .full C => ∃ s, o.main = some s ∧
      (if o.form = .cov then C = expandCov o.dim s else denote o.form s o.dim = some C)

variable (denote : Form → Stored → Nat → Option QMat.Mat)

lemma coherent_construct_aux (dim : ℕ) (mean : List ℚ) (args : List (Form × Stored)) (o : GObj)
    (h : construct dim mean args = .ok o) : Coherent denote o := by
  match args, h with
  | [], h =>
    simp only [construct, Except.ok.injEq] at h
    subst h
    simp [Coherent]
  | [(f, s)], h =>
    simp only [construct, Except.ok.injEq] at h
    subst h
    by_cases hf : f = .cov
    · simp [Coherent, hf]
    · simp [Coherent, hf]
  | _ :: _ :: _, h => simp [construct] at h

lemma coherent_setMain (o : GObj) (f : Form) (s : Stored) (h : Coherent denote o) :
    Coherent denote (match setMain o f s with | .ok o' => o' | .error _ => o) := by
  unfold setMain
  by_cases hf : f = o.form
  · simp only [ne_eq, hf, not_true_eq_false, if_false]
    by_cases hc : o.form = .cov
    · simp [Coherent, hc]
    · simp [Coherent, hc]
  · simp only [ne_eq, hf, not_false_eq_true, if_true]
    exact h

lemma coherent_computeCov (o : GObj) (h : Coherent denote o) :
    Coherent denote (match computeCov denote o with | .ok (_, o') => o' | .error _ => o) := by
  unfold computeCov
  cases hm : o.main with
  | none => simpa using h
  | some s =>
    cases s with
    | linop R dc => simpa using h
    | plain k M =>
      simp only
      by_cases hd : o.dim > MAX_DIM_INV
      · simpa [hd] using h
      · simp only [hd, if_false]
        by_cases hc : o.form = .cov
        · simp only [hc, if_true]
          cases hcov : o.cov with
          | full C =>
            have h' := h
            simp only [Coherent, hcov, hc, if_true] at h'
            obtain ⟨s', hs', hC⟩ := h'
            simp only [Coherent, hc, if_true]
            exact ⟨s', by rw [← hm, hs'], hC⟩
          | unset => simp only [Coherent, hc, if_true]; exact ⟨_, rfl, rfl⟩
          | raw s' => simp only [Coherent, hc, if_true]; exact ⟨_, rfl, rfl⟩
        · simp only [hc, if_false]
          cases hden : denote o.form (.plain k M) o.dim with
          | none => simpa using h
          | some C =>
            simp only [Coherent, hc, if_false]
            exact ⟨_, rfl, hden⟩
    | dia d =>
      simp only
      by_cases hd : o.dim > MAX_DIM_INV
      · simpa [hd] using h
      · simp only [hd, if_false]
        by_cases hc : o.form = .cov
        · simp only [hc, if_true]
          cases hcov : o.cov with
          | full C =>
            have h' := h
            simp only [Coherent, hcov, hc, if_true] at h'
            obtain ⟨s', hs', hC⟩ := h'
            simp only [Coherent, hc, if_true]
            exact ⟨s', by rw [← hm, hs'], hC⟩
          | unset => simp only [Coherent, hc, if_true]; exact ⟨_, rfl, rfl⟩
          | raw s' => simp only [Coherent, hc, if_true]; exact ⟨_, rfl, rfl⟩
        · simp only [hc, if_false]
          cases hden : denote o.form (.dia d) o.dim with
          | none => simpa using h
          | some C =>
            simp only [Coherent, hc, if_false]
            exact ⟨_, rfl, hden⟩

lemma coherent_step_aux (o : GObj) (op : Op) (h : Coherent denote o) : Coherent denote (stepState denote o op) := by
  cases op with
  | setMain f s => exact coherent_setMain denote o f s h
  | setMean m => exact h
  | computeCov => exact coherent_computeCov denote o h
  | readCov => exact h

lemma form_step_aux (o : GObj) (op : Op) :
    (stepState denote o op).form = o.form ∧ (stepState denote o op).dim = o.dim := by
  cases op with
  | setMain f s =>
    simp only [stepState, setMain]
    by_cases hf : f = o.form <;> simp [hf]
  | setMean m => simp [stepState, setMean]
  | computeCov =>
    simp only [stepState, computeCov]
    cases hm : o.main with
    | none => simp
    | some s =>
      cases s with
      | linop R dc => simp
      | plain k M =>
        simp only
        by_cases hd : o.dim > MAX_DIM_INV
        · simp [hd]
        · by_cases hc : o.form = .cov
          · simp [hd, hc]
          · cases hden : denote o.form (.plain k M) o.dim <;> simp [hd, hc, hden]
      | dia d =>
        simp only
        by_cases hd : o.dim > MAX_DIM_INV
        · simp [hd]
        · by_cases hc : o.form = .cov
          · simp [hd, hc]
          · cases hden : denote o.form (.dia d) o.dim <;> simp [hd, hc, hden]
  | readCov => simp [stepState]

lemma readCov_of_coherent (o : GObj) (C : QMat.Mat) (h : Coherent denote o) (hr : getCov o = .ok (.full C)) :
    ∃ s, o.main = some s ∧ (if o.form = .cov then C = expandCov o.dim s else denote o.form s o.dim = some C) := by
  unfold getCov at hr
  cases hcov : o.cov with
  | unset =>
    rw [hcov] at hr
    by_cases hc : o.form = .cov <;> simp [hc] at hr
  | raw s => rw [hcov] at hr; simp at hr
  | full C' =>
    rw [hcov] at hr
    simp only [Except.ok.injEq, CovRead.full.injEq] at hr
    subst hr
    simpa [Coherent, hcov] using h

lemma computeCov_of_coherent (o : GObj) (C : QMat.Mat) (o' : GObj) (h : Coherent denote o)
    (hc : computeCov denote o = .ok (some C, o')) :
    ∃ s, o.main = some s ∧ (if o.form = .cov then C = expandCov o.dim s else denote o.form s o.dim = some C) := by
  have hstep := coherent_computeCov denote o h
  rw [hc] at hstep
  simp only at hstep
  -- the new state carries `.full C` and the same main / form / dim
  unfold computeCov at hc
  cases hm : o.main with
  | none => rw [hm] at hc; simp at hc
  | some s =>
    rw [hm] at hc
    cases s with
    | linop R dc => simp at hc
    | plain k M =>
      simp only at hc
      by_cases hd : o.dim > MAX_DIM_INV
      · simp [hd] at hc
      · simp only [hd, if_false] at hc
        by_cases hf : o.form = .cov
        · simp only [hf, if_true, Except.ok.injEq, Prod.mk.injEq, Option.some.injEq] at hc
          obtain ⟨hC, ho'⟩ := hc
          subst ho'
          simp only [Coherent, hf, if_true] at hstep
          obtain ⟨s', hs', hC'⟩ := hstep
          refine ⟨s', ?_, ?_⟩
          · simpa [hm] using hs'
          · simp only [hf, if_true]; rw [← hC]; exact hC'
        · simp only [hf, if_false] at hc
          cases hden : denote o.form (.plain k M) o.dim with
          | none => rw [hden] at hc; simp at hc
          | some C' =>
            rw [hden] at hc
            simp only [Except.ok.injEq, Prod.mk.injEq, Option.some.injEq] at hc
            refine ⟨_, rfl, ?_⟩
            simp only [hf, if_false]
            rw [← hc.1]; exact hden
    | dia d =>
      simp only at hc
      by_cases hd : o.dim > MAX_DIM_INV
      · simp [hd] at hc
      · simp only [hd, if_false] at hc
        by_cases hf : o.form = .cov
        · simp only [hf, if_true, Except.ok.injEq, Prod.mk.injEq, Option.some.injEq] at hc
          obtain ⟨hC, ho'⟩ := hc
          subst ho'
          simp only [Coherent, hf, if_true] at hstep
          obtain ⟨s', hs', hC'⟩ := hstep
          refine ⟨s', ?_, ?_⟩
          · simpa [hm] using hs'
          · simp only [hf, if_true]; rw [← hC]; exact hC'
        · simp only [hf, if_false] at hc
          cases hden : denote o.form (.dia d) o.dim with
          | none => rw [hden] at hc; simp at hc
          | some C' =>
            rw [hden] at hc
            simp only [Except.ok.injEq, Prod.mk.injEq, Option.some.injEq] at hc
            refine ⟨_, rfl, ?_⟩
            simp only [hf, if_false]
            rw [← hc.1]; exact hden

/-! ### matrices -/

lemma entry_diag' (pl : List ℚ) (i j : ℕ) (hi : i < pl.length) (hj : j < pl.length) :
    QMat.entry (QMat.diag pl) i j = if i = j then pl.getD i 0 else 0 := by
  simp [QMat.entry, QMat.diag, List.getD_eq_getElem?_getD, hi, hj]

lemma expandCov_scalar_entry_aux (dim : ℕ) (v : ℚ) (i j : ℕ) (hi : i < dim) (hj : j < dim) :
    QMat.entry (expandCov dim (.plain .scalar [[v]])) i j = if i = j then v else 0 := by
  simp only [expandCov, QMat.entry, QMat.mscale, QMat.vscale, QMat.ident]
  simp [QMat.vscale, List.getD_eq_getElem?_getD, hi, hj]

lemma expandCov_vector_mul_prec_aux (v : List ℚ) (hv : ∀ x ∈ v, x ≠ 0) (i j : ℕ) (hi : i < v.length) (hj : j < v.length) :
    ∑ k ∈ Finset.range v.length,
      QMat.entry (expandCov v.length (.plain .vector [v])) i k * QMat.entry (QMat.diag (v.map (1 / ·))) k j
      = if i = j then 1 else 0 := by
  have hlen : (v.map (1 / ·)).length = v.length := by simp
  have hterm : ∀ k ∈ Finset.range v.length,
      QMat.entry (expandCov v.length (.plain .vector [v])) i k * QMat.entry (QMat.diag (v.map (1 / ·))) k j
        = if k = i then (if i = j then v.getD i 0 * (1 / v.getD i 0) else 0) else 0 := by
    intro k hk
    have hk' : k < v.length := Finset.mem_range.mp hk
    simp only [expandCov]
    rw [entry_diag' v i k hi hk', entry_diag' (v.map (1 / ·)) k j (hlen ▸ hk') (hlen ▸ hj)]
    by_cases hik : i = k
    · subst hik
      by_cases hij : i = j
      · subst hij
        simp [List.getD_eq_getElem?_getD, hi]
      · simp [hij]
    · have : ¬ k = i := fun h => hik h.symm
      simp [hik, this]
  rw [Finset.sum_congr rfl hterm, Finset.sum_ite_eq' (Finset.range v.length) i]
  simp only [Finset.mem_range, hi, if_true]
  by_cases hij : i = j
  · simp only [hij, if_true]
    have hne : v.getD j 0 ≠ 0 := by
      have hjmem : v.getD j 0 ∈ v := by
        rw [List.getD_eq_getElem?_getD, List.getElem?_eq_getElem hj]
        exact List.getElem_mem hj
      exact hv _ hjmem
    field_simp
  · simp [hij]

lemma dia_main_entry_aux (v : List ℚ) (i j : ℕ) :
    (Dia.mk v.length [0] [v]).entry i j = if i = j then v.getD j 0 else 0 := by
  simp only [Dia.entry, List.zip_cons_cons, List.zip_nil_right, List.foldl_cons, List.foldl_nil, zero_add]
  by_cases hij : i = j
  · subst hij; simp
  · have : ¬ ((j : ℤ) - (i : ℤ) = 0) := by omega
    simp [hij, this]

lemma stored_single (v : List ℚ) : (Dia.mk v.length [0] [v]).stored = v := by
  simp [Dia.stored]

lemma sqrtprecDia_main_aux (v : List ℚ) (hn : 2 ≤ v.length) (hv : ∀ x ∈ v, x ≠ 0) :
    ∃ P, sqrtprecDia v.length (Dia.mk v.length [0] [v])
        = .base (.ok { P := some P, detCov := prodList (v.map fun r => 1 / (r * r)), rank := v.length })
      ∧ ∃ P', canonDiag .sqrtprec v
        = .ok { P := some P', detCov := prodList (v.map fun r => 1 / (r * r)), rank := v.length } := by
  have h1 : ¬ v.length = 1 := by omega
  have hz : (v.any fun x => decide (x = 0)) = false := by
    rw [List.any_eq_false]
    intro x hx
    simpa using hv x hx
  refine ⟨QMat.mul (QMat.transpose (Dia.mk v.length [0] [v]).toMat) (Dia.mk v.length [0] [v]).toMat, ?_,
    QMat.diag (v.map fun r => r * r), ?_⟩
  · simp only [sqrtprecDia, h1, if_false, ne_eq, not_true_eq_false, stored_single, hz, Bool.false_eq_true]
  · simp only [canonDiag, hz, Bool.false_eq_true, if_false]

lemma sqrtprecDia_negInf_aux (d : Dia) (hn : d.n ≠ 1) (hz : (0 : ℚ) ∈ d.stored) :
    ∃ P, sqrtprecDia d.n d = .negInf P := by
  have hany : (d.stored.any fun x => decide (x = 0)) = true := by
    rw [List.any_eq_true]
    exact ⟨0, hz, by simp⟩
  exact ⟨QMat.mul (QMat.transpose d.toMat) d.toMat,
    by simp only [sqrtprecDia, hn, if_false, ne_eq, not_true_eq_false, hany, if_true]⟩

lemma sqrtprecDia_padding_aux :
    ∃ P, sqrtprecDia 3 (Dia.mk 3 [0, 1] [[2, 2, 2], [7, -3, -3]])
        = .base (.ok { P := some P, detCov := 1 / 254016, rank := 3 })
      ∧ (1 / 254016 : ℚ) ≠ 1 / ((2 * 2 * 2) * (2 * 2 * 2)) := by
  refine ⟨QMat.mul (QMat.transpose (Dia.mk 3 [0, 1] [[2, 2, 2], [7, -3, -3]]).toMat) (Dia.mk 3 [0, 1] [[2, 2, 2], [7, -3, -3]]).toMat,
    ?_, by norm_num⟩
  have hany : ((Dia.mk 3 [0, 1] [[2, 2, 2], [7, -3, -3]]).stored.any fun x : ℚ => decide (x = 0)) = false := by
    simp [Dia.stored]
  have hdet : prodList ((Dia.mk 3 [0, 1] [[2, 2, 2], [7, -3, -3]]).stored.map fun r : ℚ => 1 / (r * r)) = 1 / 254016 := by
    simp [Dia.stored, prodList]
    norm_num
  simp only [sqrtprecDia, hany, hdet]
  simp

end CuqiVerif.C04
