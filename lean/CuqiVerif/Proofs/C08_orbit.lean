import CuqiVerif.Props.C08
import Mathlib.Algebra.BigOperators.Intervals
import Mathlib.Data.Int.Interval
import Mathlib.Data.Nat.Bitwise

/-!
# C08 — orbit-level analysis of NUTS on the integer line: definitions and helper lemmas

Positions of a trajectory are indexed by `ℤ` (`z_k = Φ^k z_0`).  This file contains the
definitions used by `Props/C08_orbit.lean` (doubling process on index intervals, in-slice
counts, one-doubling kernel, orbit-level transition) and the helper lemmas.
-/

namespace CuqiVerif.C08
open Finset

/-! ## (1) the doubling process on index intervals -/

/-- `Σ_{k < J, d k} 2^k`: how far the lower end has moved after `J` doublings with direction
    bits `d` (`d k = true` means direction `−1`, i.e. the `k`-th doubling was backwards). -/
def bsum (d : ℕ → Bool) : ℕ → ℕ
  | 0 => 0
  | J + 1 => bsum d J + (if d J then 2 ^ J else 0)

/-- One doubling at level `j` of the visited index interval `(lo, hi)` (both ends inclusive, the
    indices of the code's `zminus`/`zplus`): a block of `2^j` points is appended on the chosen side,
    exactly as `loopBody` replaces `zminus` (direction `−1`) or `zplus` (direction `+1`). -/
def extend (b : Bool) (j : ℕ) (I : ℤ × ℤ) : ℤ × ℤ :=
  if b then (I.1 - 2 ^ j, I.2) else (I.1, I.2 + 2 ^ j)

/-- The visited index interval after `J` doublings from start index `i`. -/
def visited (d : ℕ → Bool) (i : ℤ) : ℕ → ℤ × ℤ
  | 0 => (i, i)
  | J + 1 => extend (d J) J (visited d i J)

/-- a finite bit vector read as an infinite direction sequence (unused entries `false`) -/
def extBits {J : ℕ} (d : Fin J → Bool) (k : ℕ) : Bool := if h : k < J then d ⟨k, h⟩ else false

lemma bsum_eq_sum (d : ℕ → Bool) (J : ℕ) :
    bsum d J = ∑ k ∈ range J, (if d k then 2 ^ k else 0) := by
  induction J with
  | zero => rfl
  | succ J ih => rw [Finset.sum_range_succ, ← ih]; rfl

lemma bsum_lt (d : ℕ → Bool) (J : ℕ) : bsum d J < 2 ^ J := by
  induction J with
  | zero => simp [bsum]
  | succ J ih => simp only [bsum, pow_succ]; split <;> omega

lemma bsum_congr (d e : ℕ → Bool) (J : ℕ) (h : ∀ k < J, d k = e k) : bsum d J = bsum e J := by
  induction J with
  | zero => rfl
  | succ J ih =>
    simp only [bsum]
    rw [ih (fun k hk => h k (by omega)), h J (by omega)]

lemma bsum_testBit (d : ℕ → Bool) (J k : ℕ) (hk : k < J) : (bsum d J).testBit k = d k := by
  induction J with
  | zero => omega
  | succ J ih =>
    simp only [bsum]
    have hlt := bsum_lt d J
    rcases Nat.lt_succ_iff_lt_or_eq.mp hk with h | h
    · by_cases hd : d J = true
      · simp only [hd, if_true]
        rw [Nat.add_comm, Nat.testBit_two_pow_add_gt h]; exact ih h
      · simp only [hd]; simpa using ih h
    · subst h
      by_cases hd : d k = true
      · simp only [hd, if_true]
        rw [Nat.add_comm, Nat.testBit_two_pow_add_eq, Nat.testBit_lt_two_pow hlt]; rfl
      · simp only [hd]
        simp only [Bool.false_eq_true, if_false, Nat.add_zero]
        rw [Nat.testBit_lt_two_pow hlt]

/-- the bits of a number reproduce it -/
lemma bsum_of_testBit (m J : ℕ) : bsum (fun k => m.testBit k) J = m % 2 ^ J := by
  apply Nat.eq_of_testBit_eq
  intro k
  by_cases hk : k < J
  · rw [bsum_testBit _ _ _ hk, Nat.testBit_mod_two_pow]; simp [hk]
  · have hk' : J ≤ k := by omega
    rw [Nat.testBit_lt_two_pow (lt_of_lt_of_le (bsum_lt _ J) (Nat.pow_le_pow_right (by omega) hk')),
      Nat.testBit_mod_two_pow]
    simp [hk]

lemma bsum_eq_iff (d : ℕ → Bool) (J m : ℕ) (hm : m < 2 ^ J) :
    bsum d J = m ↔ ∀ k < J, d k = m.testBit k := by
  constructor
  · rintro rfl k hk; exact (bsum_testBit d J k hk).symm
  · intro h
    rw [bsum_congr d (fun k => m.testBit k) J h, bsum_of_testBit, Nat.mod_eq_of_lt hm]

lemma visited_eq (d : ℕ → Bool) (i : ℤ) (J : ℕ) :
    visited d i J = (i - (bsum d J : ℤ), i - (bsum d J : ℤ) + 2 ^ J - 1) := by
  induction J with
  | zero => simp [visited, bsum]
  | succ J ih =>
    simp only [visited, ih, extend, bsum]
    by_cases hd : d J = true
    · simp only [hd, if_true]; push_cast; ext <;> simp <;> ring
    · simp only [hd]; simp; ring

/-! ## (3) the selection kernel of one doubling -/

/-- number of in-slice indices of a finite index set -/
def nS (S : ℤ → Bool) (A : Finset ℤ) : ℕ := (A.filter (fun x => S x = true)).card

/-- **Selection kernel of one doubling**, start `i` in the old half `A`, new half `N`: the new
    half's candidate is uniform over the in-slice points of `N` (`progressive_uniform`) and replaces
    the current state with probability `min(1, n_new/n_old)` (top-level rule of `loopBody`);
    otherwise the state stays at `i`. -/
def stepKernel (S : ℤ → Bool) (A N : Finset ℤ) (i k : ℤ) : ℚ :=
  (if k ∈ N ∧ S k = true then min 1 ((nS S N : ℚ) / nS S A) * (1 / nS S N) else 0)
    + (if k = i then 1 - min 1 ((nS S N : ℚ) / nS S A) else 0)

/-- the kernel on the union of the two halves: the *old* half is the one containing the start -/
def doublingKernel (S : ℤ → Bool) (A N : Finset ℤ) (i k : ℤ) : ℚ :=
  if i ∈ A then stepKernel S A N i k else stepKernel S N A i k

lemma nS_pos (S : ℤ → Bool) (A : Finset ℤ) (i : ℤ) (hi : i ∈ A) (hS : S i = true) : 0 < nS S A :=
  Finset.card_pos.mpr ⟨i, by simp [hi, hS]⟩

lemma min_one_div_mul (a b : ℚ) (ha : 0 < a) (hb : 0 < b) :
    min 1 (b / a) * (1 / b) = min (1 / a) (1 / b) := by
  rw [min_mul_of_nonneg _ _ (by positivity), min_comm]
  congr 1
  · field_simp
  · ring

/-! ## in-slice counts of index intervals -/

/-- number of in-slice indices in `[a, a + n)` -/
def cnt (S : ℤ → Bool) (a : ℤ) (n : ℕ) : ℕ := ∑ t ∈ range n, if S (a + t) = true then 1 else 0

lemma cnt_succ (S : ℤ → Bool) (a : ℤ) (n : ℕ) :
    cnt S a (n + 1) = cnt S a n + (if S (a + n) = true then 1 else 0) := by
  unfold cnt; rw [Finset.sum_range_succ]

lemma cnt_succ' (S : ℤ → Bool) (a : ℤ) (n : ℕ) :
    cnt S a (n + 1) = (if S a = true then 1 else 0) + cnt S (a + 1) n := by
  unfold cnt; rw [Finset.sum_range_succ', Nat.add_comm]
  congr 1
  · simp
  · apply Finset.sum_congr rfl; intro t _; push_cast
    rw [show a + 1 + (t : ℤ) = a + ((t : ℤ) + 1) by ring]

lemma cnt_add (S : ℤ → Bool) (a : ℤ) (m n : ℕ) :
    cnt S a (m + n) = cnt S a m + cnt S (a + m) n := by
  unfold cnt; rw [Finset.sum_range_add]
  congr 1
  apply Finset.sum_congr rfl; intro t _; push_cast; rw [add_assoc]

lemma cnt_pos (S : ℤ → Bool) (a : ℤ) (n : ℕ) (i : ℤ) (h1 : a ≤ i) (h2 : i < a + n) (hS : S i = true) :
    0 < cnt S a n := by
  unfold cnt
  apply Finset.sum_pos'
  · intro _ _; positivity
  · refine ⟨(i - a).toNat, ?_, ?_⟩
    · rw [Finset.mem_range]; omega
    · rw [Int.toNat_of_nonneg (by omega)]
      rw [show a + (i - a) = i by ring, hS]; simp

/-- `cnt` is the cardinality of the set of in-slice indices of the interval -/
lemma cnt_eq_card (S : ℤ → Bool) (a : ℤ) (n : ℕ) :
    cnt S a n = ((Finset.Ico a (a + n)).filter (fun x => S x = true)).card := by
  induction n with
  | zero => simp [cnt]
  | succ n ih =>
    rw [cnt_succ, ih]
    have : Finset.Ico a (a + ((n + 1 : ℕ) : ℤ)) = insert (a + n) (Finset.Ico a (a + n)) := by
      ext x; simp only [Finset.mem_Ico, Finset.mem_insert]; push_cast; omega
    rw [this, Finset.filter_insert]
    by_cases h : S (a + n) = true
    · rw [if_pos h, if_pos h, Finset.card_insert_of_notMem]
      simp
    · rw [if_neg h, if_neg h]; simp

/-! ## (2) link to the model: orbit points indexed by `ℤ` -/
section Link
variable {Z : Type}

/-- the orbit point with index `k`: `z_k = Φ^k z_0` (`Φ = c.step 1`, `Φ⁻¹ = c.step (-1)`) -/
def pt (c : Ctx Z) (z0 : Z) : ℤ → Z
  | Int.ofNat n => (c.step 1)^[n] z0
  | Int.negSucc n => (c.step (-1))^[n + 1] z0

/-- the two directions of the integrator are mutually inverse (`leapfrog_reversible`) -/
def StepInverse (c : Ctx Z) : Prop :=
  (∀ z, c.step (-1) (c.step 1 z) = z) ∧ (∀ z, c.step 1 (c.step (-1) z) = z)

lemma pt_succ (c : Ctx Z) (h : StepInverse c) (z0 : Z) (k : ℤ) : c.step 1 (pt c z0 k) = pt c z0 (k + 1) := by
  cases k with
  | ofNat n =>
    show c.step 1 ((c.step 1)^[n] z0) = pt c z0 (Int.ofNat (n + 1))
    simp only [pt]; rw [Function.iterate_succ_apply']
  | negSucc n =>
    cases n with
    | zero => simp only [pt, Function.iterate_succ_apply', Function.iterate_zero, id]; rw [h.2]; rfl
    | succ n =>
      have : Int.negSucc (n + 1) + 1 = Int.negSucc n := by omega
      rw [this]; simp only [pt]
      rw [Function.iterate_succ_apply' (f := c.step (-1)) (n := n + 1), h.2]

lemma pt_pred (c : Ctx Z) (h : StepInverse c) (z0 : Z) (k : ℤ) : c.step (-1) (pt c z0 k) = pt c z0 (k - 1) := by
  have := pt_succ c h z0 (k - 1)
  rw [sub_add_cancel] at this
  rw [← this, h.1]

/-- signed step: `c.step v` moves the index by `v` for `v = ±1` -/
lemma pt_step (c : Ctx Z) (h : StepInverse c) (z0 : Z) (v : ℤ) (hv : v = 1 ∨ v = -1) (k : ℤ) :
    c.step v (pt c z0 k) = pt c z0 (k + v) := by
  rcases hv with rfl | rfl
  · exact pt_succ c h z0 k
  · exact pt_pred c h z0 k

lemma orbit_succ_last (c : Ctx Z) (v : ℤ) (z : Z) (n : ℕ) :
    orbit c v z (n + 1) = orbit c v z n ++ [(c.step v)^[n + 1] z] := by
  induction n generalizing z with
  | zero => simp [orbit]
  | succ n ih =>
    rw [orbit, ih (c.step v z)]
    simp only [orbit, List.cons_append, Function.iterate_succ_apply]

lemma iterate_pt (c : Ctx Z) (h : StepInverse c) (z0 : Z) (v : ℤ) (hv : v = 1 ∨ v = -1) (k : ℤ) (n : ℕ) :
    (c.step v)^[n] (pt c z0 k) = pt c z0 (k + v * n) := by
  induction n with
  | zero => simp
  | succ n ih =>
    rw [Function.iterate_succ_apply', ih, pt_step c h z0 v hv]
    congr 1; push_cast; ring

lemma orbit_getLast (c : Ctx Z) (h : StepInverse c) (z0 : Z) (v : ℤ) (hv : v = 1 ∨ v = -1) (k : ℤ) (n : ℕ)
    (hn : 0 < n) : (orbit c v (pt c z0 k) n).getLast? = some (pt c z0 (k + v * n)) := by
  obtain ⟨n, rfl⟩ : ∃ m, n = m + 1 := ⟨n - 1, by omega⟩
  rw [orbit_succ_last, List.getLast?_concat, iterate_pt c h z0 v hv]

/-- in-slice indicator along the orbit -/
def sliceAt (c : Ctx Z) (z0 : Z) (k : ℤ) : Bool := inSlice c (pt c z0 k)

lemma filter_single_len (c : Ctx Z) (z0 : Z) (x : ℤ) :
    ([pt c z0 x].filter (inSlice c)).length = if sliceAt c z0 x = true then 1 else 0 := by
  by_cases hs : sliceAt c z0 x = true
  · have hs' : inSlice c (pt c z0 x) = true := hs
    simp [hs, hs']
  · have hs' : ¬ inSlice c (pt c z0 x) = true := hs
    simp [hs, hs']

lemma orbit_count_fwd (c : Ctx Z) (h : StepInverse c) (z0 : Z) (k : ℤ) (n : ℕ) :
    ((orbit c 1 (pt c z0 k) n).filter (inSlice c)).length = cnt (sliceAt c z0) (k + 1) n := by
  induction n with
  | zero => simp [orbit, cnt]
  | succ n ih =>
    rw [orbit_succ_last, List.filter_append, List.length_append, ih, cnt_succ,
      iterate_pt c h z0 1 (Or.inl rfl)]
    congr 1
    have : k + 1 * ((n + 1 : ℕ) : ℤ) = k + 1 + n := by push_cast; ring
    rw [this]
    exact filter_single_len c z0 _

lemma orbit_count_bwd (c : Ctx Z) (h : StepInverse c) (z0 : Z) (k : ℤ) (n : ℕ) :
    ((orbit c (-1) (pt c z0 k) n).filter (inSlice c)).length = cnt (sliceAt c z0) (k - n) n := by
  induction n with
  | zero => simp [orbit, cnt]
  | succ n ih =>
    rw [orbit_succ_last, List.filter_append, List.length_append, ih,
      iterate_pt c h z0 (-1) (Or.inr rfl)]
    have e1 : k + -1 * ((n + 1 : ℕ) : ℤ) = k - ((n + 1 : ℕ) : ℤ) := by ring
    have e2 : k - ((n + 1 : ℕ) : ℤ) + 1 = k - n := by push_cast; ring
    rw [cnt_succ' (sliceAt c z0) (k - ((n + 1 : ℕ) : ℤ)) n, e1, e2, Nat.add_comm]
    congr 1
    exact filter_single_len c z0 _

/-- Invariant of the doubling loop: the visited indices are exactly `[lo, hi] ∋ 0`, the two ends
    of the trajectory are the orbit points with these indices, and `Loop.n` counts the in-slice
    indices of the interval. -/
structure LoopInv (c : Ctx Z) (z0 : Z) (st : Loop Z) (lo hi : ℤ) : Prop where
  lo_le : lo ≤ 0
  hi_ge : 0 ≤ hi
  zminus : st.zminus = pt c z0 lo
  zplus : st.zplus = pt c z0 hi
  count : st.n = cnt (sliceAt c z0) lo (hi - lo + 1).toNat
  full : st.s = true → hi - lo + 1 = 2 ^ st.j

/-- direction bit drawn by `loopBody` in state `st` (`true` = direction `−1`) -/
def dirBit (st : Loop Z) : Bool := !decide ((popU st.us).1 < 1 / 2)

lemma loopBody_j (c : Ctx Z) (guard : Z → Bool) (st : Loop Z) : (loopBody c guard st).j = st.j + 1 := by
  simp only [loopBody]

lemma loopBody_inv (c : Ctx Z) (hinv : StepInverse c) (guard : Z → Bool) (z0 : Z) (st : Loop Z)
    (lo hi : ℤ) (I : LoopInv c z0 st lo hi) (hs : st.s = true) :
    ∃ len : ℕ, 0 < len ∧ len ≤ 2 ^ st.j ∧ ((loopBody c guard st).s = true → len = 2 ^ st.j) ∧
      LoopInv c z0 (loopBody c guard st) (if dirBit st then lo - len else lo)
        (if dirBit st then hi else hi + len) := by
  have hfull := I.full hs
  have hlohi : 0 ≤ hi - lo + 1 := by have := I.lo_le; have := I.hi_ge; omega
  by_cases hud : (popU st.us).1 < 1 / 2
  · -- direction +1
    have hb : dirBit st = false := by simp only [dirBit, hud, decide_true, Bool.not_true]
    have T := buildTree_inv c 1 st.j st.zplus (popU st.us).2
    simp only [loopBody, hud, if_true, hb, Bool.false_eq_true, if_false,
      show ((1 : Int) = -1) = False by decide]
    generalize buildTree c 1 st.j st.zplus (popU st.us).2 = b at T ⊢
    obtain ⟨t, us1⟩ := b
    simp only at T ⊢
    refine ⟨t.leaves.length, T.len_pos, T.len_le, ?_, ?_⟩
    · intro h
      have : t.s = true := by
        by_cases hts : t.s = true
        · exact hts
        · simp [hts] at h
      exact T.len_full this
    · have hlast := T.far_last
      rw [T.leaves_orbit, I.zplus, orbit_getLast c hinv z0 1 (Or.inl rfl) hi _ T.len_pos] at hlast
      have hfar : t.zplus = pt c z0 (hi + t.leaves.length) := by
        simp only [Tree.far, show ((1 : Int) = -1) = False by decide, if_false, Option.some.injEq] at hlast
        rw [← hlast]; congr 1; ring
      have hcount : t.n = cnt (sliceAt c z0) (hi + 1) t.leaves.length := by
        rw [T.count, T.leaves_orbit, I.zplus, orbit_count_fwd c hinv, orbit_length]
      constructor
      · exact I.lo_le
      · have := I.hi_ge; omega
      · split <;> exact I.zminus
      · split <;> exact hfar
      · split <;>
        · show st.n + t.n = _
          rw [I.count, hcount]
          have e : (hi + (t.leaves.length : ℤ) - lo + 1).toNat = (hi - lo + 1).toNat + t.leaves.length := by omega
          rw [e, cnt_add]
          congr 2
          rw [Int.toNat_of_nonneg hlohi]; ring
      · intro h
        have hts : t.s = true := by
          by_cases hts : t.s = true
          · exact hts
          · split at h <;> simp [hts] at h
        have hl := T.len_full hts
        split <;>
        · simp only
          rw [pow_succ, hl]; push_cast; linarith
  · -- direction −1
    have hb : dirBit st = true := by simp only [dirBit, hud, decide_false, Bool.not_false]
    have T := buildTree_inv c (-1) st.j st.zminus (popU st.us).2
    simp only [loopBody, hud, if_false, hb, if_true]
    generalize buildTree c (-1) st.j st.zminus (popU st.us).2 = b at T ⊢
    obtain ⟨t, us1⟩ := b
    simp only at T ⊢
    refine ⟨t.leaves.length, T.len_pos, T.len_le, ?_, ?_⟩
    · intro h
      have : t.s = true := by
        by_cases hts : t.s = true
        · exact hts
        · simp [hts] at h
      exact T.len_full this
    · have hlast := T.far_last
      rw [T.leaves_orbit, I.zminus, orbit_getLast c hinv z0 (-1) (Or.inr rfl) lo _ T.len_pos] at hlast
      have hfar : t.zminus = pt c z0 (lo - t.leaves.length) := by
        simp only [Tree.far, if_true, Option.some.injEq] at hlast
        rw [← hlast]; congr 1; ring
      have hcount : t.n = cnt (sliceAt c z0) (lo - t.leaves.length) t.leaves.length := by
        rw [T.count, T.leaves_orbit, I.zminus, orbit_count_bwd c hinv, orbit_length]
      constructor
      · have := I.lo_le; omega
      · exact I.hi_ge
      · split <;> exact hfar
      · split <;> exact I.zplus
      · split <;>
        · show st.n + t.n = _
          rw [I.count, hcount]
          have e : (hi - (lo - (t.leaves.length : ℤ)) + 1).toNat = t.leaves.length + (hi - lo + 1).toNat := by omega
          rw [e, cnt_add, Nat.add_comm]
          congr 2
          ring
      · intro h
        have hts : t.s = true := by
          by_cases hts : t.s = true
          · exact hts
          · split at h <;> simp [hts] at h
        have hl := T.len_full hts
        split <;>
        · simp only
          rw [pow_succ, hl]; push_cast; linarith

/-- the state in which `nutsStep` enters the doubling loop -/
def loopInit (z0 : Z) (us : List Rat) : Loop Z :=
  { cur := z0, zminus := z0, zplus := z0, j := 0, s := true, n := 1, acc := false,
    last := [], nodes := 0, us := us }

lemma nutsStep_eq (c : Ctx Z) (guard : Z → Bool) (md : ℕ) (z0 : Z) (us : List Rat) :
    nutsStep c guard md z0 us = loop c guard md (md + 1) (loopInit z0 us) := rfl

lemma loopInit_inv (c : Ctx Z) (z0 : Z) (us : List Rat) (h0 : inSlice c z0 = true) :
    LoopInv c z0 (loopInit z0 us) 0 0 := by
  have hs : sliceAt c z0 0 = true := h0
  refine ⟨le_refl _, le_refl _, rfl, rfl, ?_, fun _ => by simp [loopInit]⟩
  show 1 = cnt (sliceAt c z0) 0 (0 - 0 + 1 : ℤ).toNat
  have : (0 - 0 + 1 : ℤ).toNat = 1 := by decide
  rw [this, cnt, Finset.sum_range_one]
  simp [hs]

lemma loop_inv (c : Ctx Z) (hinv : StepInverse c) (guard : Z → Bool) (z0 : Z) (md fuel : ℕ) (st : Loop Z)
    (lo hi : ℤ) (I : LoopInv c z0 st lo hi) :
    ∃ lo' hi', LoopInv c z0 (loop c guard md fuel st) lo' hi' := by
  induction fuel generalizing st lo hi with
  | zero => exact ⟨lo, hi, I⟩
  | succ fuel ih =>
    simp only [loop]
    split
    · rename_i h
      simp only [Bool.and_eq_true] at h
      obtain ⟨len, _, _, _, I'⟩ := loopBody_inv c hinv guard z0 st lo hi I h.1
      exact ih _ _ _ I'
    · exact ⟨lo, hi, I⟩

lemma loop_eq_iterate (c : Ctx Z) (guard : Z → Bool) (md fuel : ℕ) (st : Loop Z) :
    ∃ m ≤ fuel, loop c guard md fuel st = (loopBody c guard)^[m] st ∧
      ∀ t < m, ((loopBody c guard)^[t] st).s = true := by
  induction fuel generalizing st with
  | zero => exact ⟨0, le_refl _, rfl, fun t ht => by omega⟩
  | succ fuel ih =>
    simp only [loop]
    split
    · rename_i h
      simp only [Bool.and_eq_true] at h
      obtain ⟨m, hm, e, hall⟩ := ih (loopBody c guard st)
      refine ⟨m + 1, by omega, by rw [e, Function.iterate_succ_apply], ?_⟩
      intro t ht
      cases t with
      | zero => exact h.1
      | succ t => rw [Function.iterate_succ_apply]; exact hall t (by omega)
    · exact ⟨0, by omega, rfl, fun t ht => by omega⟩

end Link

/-! ## (4) the orbit-level transition -/

/-- What the orbit-level transition needs to know about one trajectory, indexed by `ℤ`:
    `S k` — the point `z_k` is in the slice; `nd k` — it is not diverged (`s' = 1` at the leaf);
    `ut j a` — the no-U-turn test of the index block `[a, a + 2^j)` passes (any function of the
    block); `g k` — the finiteness guard of the top-level acceptance (`fun _ => true` for none). -/
structure Orb where
  S : ℤ → Bool
  nd : ℤ → Bool
  ut : ℕ → ℤ → Bool
  g : ℤ → Bool

/-- the flag `s'` returned by `buildTree` for the block `[a, a + 2^j)`: all leaves not diverged and
    the no-U-turn test passes on every aligned sub-block (`s := t1.s && t2.s && noUturn`) -/
def Orb.good (o : Orb) : ℕ → ℤ → Bool
  | 0, a => o.nd a
  | j + 1, a => o.good j a && o.good j (a + 2 ^ j) && o.ut (j + 1) a

/-- law of the accepted candidate of the block `[a, a + 2^j)`: uniform over its in-slice points
    (`progressive_uniform`), the mass of points failing the guard removed (they are rejected) -/
def Orb.unif (o : Orb) (a : ℤ) (j : ℕ) (k : ℤ) : ℚ :=
  if a ≤ k ∧ k < a + 2 ^ j ∧ o.S k = true ∧ o.g k = true then 1 / (cnt o.S a (2 ^ j) : ℚ) else 0

/-- `min(1, n_new/n_old)` if the new half `[aN, aN + 2^j)` reports `s' = 1`, else `0` -/
def Orb.acc (o : Orb) (j : ℕ) (aO aN : ℤ) : ℚ :=
  if o.good j aN = true then min 1 ((cnt o.S aN (2 ^ j) : ℚ) / (cnt o.S aO (2 ^ j) : ℚ)) else 0

/-- probability that the state is *not* replaced in the doubling (old half `aO`, new half `aN`) -/
def Orb.stay (o : Orb) (j : ℕ) (aO aN : ℤ) : ℚ :=
  1 - o.acc j aO aN * ∑ t ∈ range (2 ^ j), o.unif aN j (aN + t)

/-- orbit-level loop state: visited block `[lo, lo + 2^j)`, continuation flag, law of the current state -/
structure OSt where
  lo : ℤ
  j : ℕ
  s : Bool
  dist : ℤ → ℚ

/-- one doubling in direction `b` (`true` = `−1`), the orbit-level image of `loopBody` -/
def Orb.body (o : Orb) (b : Bool) (st : OSt) : OSt :=
  let nlo : ℤ := if b then st.lo - 2 ^ st.j else st.lo + 2 ^ st.j
  let lo' : ℤ := if b then st.lo - 2 ^ st.j else st.lo
  { lo := lo', j := st.j + 1,
    s := o.good st.j nlo && o.ut (st.j + 1) lo',
    dist := fun x => o.stay st.j st.lo nlo * st.dist x + o.acc st.j st.lo nlo * o.unif nlo st.j x }

/-- the doubling loop with a fair coin for every direction: law of the final state -/
def Orb.walk (o : Orb) : ℕ → OSt → ℤ → ℚ
  | 0, st => st.dist
  | r + 1, st =>
    if st.s = true then
      fun k => 1 / 2 * o.walk r (o.body true st) k + 1 / 2 * o.walk r (o.body false st) k
    else st.dist

/-- start of a transition at index `i` -/
def oinit (i : ℤ) : OSt := { lo := i, j := 0, s := true, dist := fun x => if x = i then 1 else 0 }

/-- **orbit-level NUTS transition**: probability of moving from index `i` to index `k` with at
    most `M = max_depth + 1` doublings -/
def Orb.P (o : Orb) (M : ℕ) (i k : ℤ) : ℚ := o.walk M (oinit i) k

/-- state after `J` doublings with the direction bits of `m` (`bit t = m.testBit t`) -/
def Orb.fwd (o : Orb) (m : ℕ) : ℕ → OSt → OSt
  | 0, st => st
  | J + 1, st => o.body (m.testBit J) (o.fwd m J st)

/-- all of `s_0 … s_{J-1}` are `1`: the loop really performs `J` doublings along the bits of `m` -/
def Orb.al (o : Orb) (m : ℕ) : ℕ → OSt → Bool
  | 0, _ => true
  | J + 1, st => o.al m J st && (o.fwd m J st).s

/-- contribution of "exactly `J` doublings with bits `m`" to the law of the final state when `r`
    doublings are allowed -/
def Orb.term (o : Orb) (r J m : ℕ) (st : OSt) (k : ℤ) : ℚ :=
  if o.al m J st = true ∧ ((o.fwd m J st).s = false ∨ J = r) then (o.fwd m J st).dist k else 0

lemma Orb.fwd_shift (o : Orb) (m J : ℕ) (st : OSt) :
    o.fwd m (J + 1) st = o.fwd (m / 2) J (o.body (m.testBit 0) st) := by
  induction J with
  | zero => rfl
  | succ J ih =>
    rw [Orb.fwd, ih, Nat.testBit_succ]; rfl

lemma Orb.al_shift (o : Orb) (m J : ℕ) (st : OSt) :
    o.al m (J + 1) st = (st.s && o.al (m / 2) J (o.body (m.testBit 0) st)) := by
  induction J with
  | zero => simp [Orb.al, Orb.fwd]
  | succ J ih =>
    rw [Orb.al, ih, o.fwd_shift, Bool.and_assoc]; rfl

lemma Orb.term_succ (o : Orb) (r J m : ℕ) (st : OSt) (k : ℤ) :
    o.term (r + 1) (J + 1) m st k =
      if st.s = true then o.term r J (m / 2) (o.body (m.testBit 0) st) k else 0 := by
  unfold Orb.term
  rw [o.al_shift, o.fwd_shift]
  by_cases hs : st.s = true
  · simp only [hs, Bool.true_and, if_true, Nat.add_right_cancel_iff]
  · simp [hs]

lemma Orb.term_zero (o : Orb) (r m : ℕ) (st : OSt) (k : ℤ) :
    o.term (r + 1) 0 m st k = if st.s = true then 0 else st.dist k := by
  unfold Orb.term
  by_cases hs : st.s = true <;> simp [Orb.al, Orb.fwd, hs]

lemma sum_range_double (f : ℕ → ℚ) (n : ℕ) :
    ∑ x ∈ range (2 * n), f x = ∑ m ∈ range n, (f (2 * m) + f (2 * m + 1)) := by
  induction n with
  | zero => simp
  | succ n ih =>
    rw [show 2 * (n + 1) = 2 * n + 1 + 1 by ring, Finset.sum_range_succ, Finset.sum_range_succ, ih,
      Finset.sum_range_succ]; ring

/-- **closed form of the loop**: sum over the number `J` of doublings performed and over the
    `2^J` direction sequences, each with weight `2^{-J}` -/
lemma Orb.walk_eq_sum (o : Orb) (r : ℕ) (st : OSt) (k : ℤ) :
    o.walk r st k = ∑ J ∈ range (r + 1), (1 / 2 : ℚ) ^ J * ∑ m ∈ range (2 ^ J), o.term r J m st k := by
  induction r generalizing st with
  | zero =>
    simp [Orb.walk, Orb.term, Orb.al, Orb.fwd]
  | succ r ih =>
    rw [Finset.sum_range_succ']
    have hstep : ∀ J, ∑ m ∈ range (2 ^ (J + 1)), o.term (r + 1) (J + 1) m st k =
        if st.s = true then ∑ m ∈ range (2 ^ J), (o.term r J m (o.body false st) k + o.term r J m (o.body true st) k)
        else 0 := by
      intro J
      rw [pow_succ, Nat.mul_comm, sum_range_double]
      by_cases hs : st.s = true
      · simp only [hs, if_true]
        apply Finset.sum_congr rfl
        intro m _
        rw [o.term_succ, o.term_succ]
        simp only [hs, if_true]
        have e1 : 2 * m / 2 = m := by omega
        have e2 : (2 * m + 1) / 2 = m := by omega
        have b1 : (2 * m).testBit 0 = false := by simp [Nat.testBit_zero]
        have b2 : (2 * m + 1).testBit 0 = true := by simp [Nat.testBit_zero]
        rw [e1, e2, b1, b2]
      · simp only [hs]
        apply Finset.sum_eq_zero
        intro m _
        rw [o.term_succ, o.term_succ]; simp [hs]
    simp only [hstep, pow_zero, one_mul, Finset.range_one, Finset.sum_singleton, o.term_zero]
    by_cases hs : st.s = true
    · simp only [Orb.walk, hs, if_true, add_zero]
      rw [ih, ih, Finset.mul_sum, Finset.mul_sum, ← Finset.sum_add_distrib]
      apply Finset.sum_congr rfl
      intro J _
      rw [Finset.sum_add_distrib, pow_succ]; ring
    · simp [Orb.walk, hs]

/-! ### the state reached from a start index along given bits -/

lemma Orb.fwd_j (o : Orb) (m J : ℕ) (st : OSt) : (o.fwd m J st).j = st.j + J := by
  induction J with
  | zero => rfl
  | succ J ih => simp only [Orb.fwd, Orb.body, ih]; ring

lemma Orb.fwd_lo (o : Orb) (m J : ℕ) (i : ℤ) :
    (o.fwd m J (oinit i)).lo = i - ((m % 2 ^ J : ℕ) : ℤ) := by
  rw [← bsum_of_testBit]
  induction J with
  | zero => simp [Orb.fwd, oinit, bsum]
  | succ J ih =>
    have hj : (o.fwd m J (oinit i)).j = J := by rw [o.fwd_j]; simp [oinit]
    simp only [Orb.fwd, Orb.body, bsum, ih, hj]
    by_cases hb : m.testBit J = true
    · simp only [hb, if_true]; push_cast; ring
    · simp only [hb]; simp

lemma Orb.fwd_congr (o : Orb) (m m' J : ℕ) (st : OSt) (h : ∀ t < J, m.testBit t = m'.testBit t) :
    o.fwd m J st = o.fwd m' J st := by
  induction J with
  | zero => rfl
  | succ J ih => rw [Orb.fwd, Orb.fwd, ih (fun t ht => h t (by omega)), h J (by omega)]

lemma Orb.al_congr (o : Orb) (m m' J : ℕ) (st : OSt) (h : ∀ t < J, m.testBit t = m'.testBit t) :
    o.al m J st = o.al m' J st := by
  induction J with
  | zero => rfl
  | succ J ih =>
    rw [Orb.al, Orb.al, ih (fun t ht => h t (by omega)),
      o.fwd_congr m m' J st (fun t ht => h t (by omega))]

/-- **the loop is still running after `J` doublings iff the visited block is `good`** -/
lemma Orb.alive_good (o : Orb) (m J : ℕ) (i : ℤ) (hnd : o.nd i = true) :
    (o.al m J (oinit i) && (o.fwd m J (oinit i)).s) = o.good J (i - ((m % 2 ^ J : ℕ) : ℤ)) := by
  induction J with
  | zero => simp [Orb.al, Orb.fwd, oinit, Orb.good, hnd]
  | succ J ih =>
    have hj : (o.fwd m J (oinit i)).j = J := by rw [o.fwd_j]; simp [oinit]
    have hlo := o.fwd_lo m J i
    have hlo' := o.fwd_lo m (J + 1) i
    rw [Orb.al, Bool.and_assoc, ← Bool.and_assoc (o.al m J (oinit i)), ih]
    simp only [Orb.fwd, Orb.body, hj, hlo] at hlo' ⊢
    simp only [Orb.good]
    by_cases hb : m.testBit J = true
    · simp only [hb, if_true] at hlo' ⊢
      rw [← hlo', sub_add_cancel]
      cases o.good J (i - ((m % 2 ^ J : ℕ) : ℤ)) <;> cases o.good J (i - ((m % 2 ^ J : ℕ) : ℤ) - 2 ^ J) <;> simp
    · simp only [hb] at hlo' ⊢
      simp only [Bool.false_eq_true, if_false] at hlo' ⊢
      rw [← hlo']
      cases o.good J (i - ((m % 2 ^ J : ℕ) : ℤ)) <;> cases o.good J (i - ((m % 2 ^ J : ℕ) : ℤ) + 2 ^ J) <;> simp

/-- the law of the current state is supported in the visited block -/
lemma Orb.fwd_support (o : Orb) (m J : ℕ) (i k : ℤ)
    (hk : ¬ ((o.fwd m J (oinit i)).lo ≤ k ∧ k < (o.fwd m J (oinit i)).lo + 2 ^ J)) :
    (o.fwd m J (oinit i)).dist k = 0 := by
  induction J with
  | zero =>
    simp only [Orb.fwd, oinit, pow_zero] at hk ⊢
    rw [if_neg]; intro h; apply hk; omega
  | succ J ih =>
    have hj : (o.fwd m J (oinit i)).j = J := by rw [o.fwd_j]; simp [oinit]
    simp only [Orb.fwd, Orb.body, hj] at hk ⊢
    have hp : (2 : ℤ) ^ (J + 1) = 2 * 2 ^ J := by rw [pow_succ]; ring
    have hpos : (0 : ℤ) < 2 ^ J := by positivity
    rw [hp] at hk
    by_cases hb : m.testBit J = true
    · simp only [hb, if_true] at hk ⊢
      rw [ih (by intro h; apply hk; omega)]
      unfold Orb.unif
      rw [if_neg (by intro h; apply hk; omega)]; simp
    · simp only [hb, Bool.false_eq_true, if_false] at hk ⊢
      rw [ih (by intro h; apply hk; omega)]
      unfold Orb.unif
      rw [if_neg (by intro h; apply hk; omega)]; simp

/-! ### block-indexed quantities: start `i` in the block `[a, a + 2^J)` reached after `J` doublings -/

/-- law of the current state after the `J` doublings that lead from `i` to the block `[a, a+2^J)` -/
def Orb.D (o : Orb) (J : ℕ) (a i k : ℤ) : ℚ := (o.fwd (i - a).toNat J (oinit i)).dist k
/-- the loop really performs these `J` doublings -/
def Orb.A (o : Orb) (J : ℕ) (a i : ℤ) : Bool := o.al (i - a).toNat J (oinit i)
/-- probability weight of "performs the `J` doublings leading to `[a, a+2^J)` and is then at `k`" -/
def Orb.G (o : Orb) (J : ℕ) (a i k : ℤ) : ℚ := if o.A J a i = true then o.D J a i k else 0

lemma offset_lt (a i : ℤ) (J : ℕ) (h1 : a ≤ i) (h2 : i < a + 2 ^ J) :
    (i - a).toNat < 2 ^ J ∧ ((i - a).toNat : ℤ) = i - a := by
  have hc : ((i - a).toNat : ℤ) = i - a := Int.toNat_of_nonneg (by linarith)
  refine ⟨?_, hc⟩
  have : ((i - a).toNat : ℤ) < ((2 ^ J : ℕ) : ℤ) := by rw [hc]; push_cast; linarith
  exact_mod_cast this

lemma Orb.inner_left (o : Orb) (J : ℕ) (a i : ℤ) (h1 : a ≤ i) (h2 : i < a + 2 ^ J) :
    (o.fwd (i - a).toNat J (oinit i)).lo = a ∧ (o.fwd (i - a).toNat J (oinit i)).j = J := by
  obtain ⟨hlt, hc⟩ := offset_lt a i J h1 h2
  refine ⟨?_, by rw [o.fwd_j]; simp [oinit]⟩
  rw [o.fwd_lo, Nat.mod_eq_of_lt hlt, hc]; ring

lemma Orb.D_left (o : Orb) (J : ℕ) (a i k : ℤ) (h1 : a ≤ i) (h2 : i < a + 2 ^ J) :
    o.D (J + 1) a i k = o.stay J a (a + 2 ^ J) * o.D J a i k + o.acc J a (a + 2 ^ J) * o.unif (a + 2 ^ J) J k := by
  obtain ⟨hlt, _⟩ := offset_lt a i J h1 h2
  obtain ⟨hlo, hj⟩ := o.inner_left J a i h1 h2
  unfold Orb.D
  simp only [Orb.fwd, Nat.testBit_lt_two_pow hlt, Orb.body, hlo, hj, Bool.false_eq_true, if_false]

lemma right_offset (a i : ℤ) (J : ℕ) (h1 : a + 2 ^ J ≤ i) (h2 : i < a + 2 ^ (J + 1)) :
    (i - a).toNat = 2 ^ J + (i - (a + 2 ^ J)).toNat ∧ i < a + 2 ^ J + 2 ^ J := by
  have hp : (2 : ℤ) ^ (J + 1) = 2 ^ J + 2 ^ J := by rw [pow_succ]; ring
  have hpos : (0 : ℤ) < 2 ^ J := by positivity
  refine ⟨?_, by linarith⟩
  have : ((i - a).toNat : ℤ) = ((2 ^ J + (i - (a + 2 ^ J)).toNat : ℕ) : ℤ) := by
    push_cast
    rw [Int.toNat_of_nonneg (by linarith), Int.toNat_of_nonneg (by linarith)]; ring
  exact_mod_cast this

lemma Orb.fwd_right (o : Orb) (J : ℕ) (a i : ℤ) (h1 : a + 2 ^ J ≤ i) (h2 : i < a + 2 ^ (J + 1)) :
    o.fwd (i - a).toNat (J + 1) (oinit i) = o.body true (o.fwd (i - (a + 2 ^ J)).toNat J (oinit i)) ∧
    o.al (i - a).toNat J (oinit i) = o.al (i - (a + 2 ^ J)).toNat J (oinit i) := by
  obtain ⟨he, h2'⟩ := right_offset a i J h1 h2
  obtain ⟨hlt, _⟩ := offset_lt (a + 2 ^ J) i J h1 h2'
  have hbits : ∀ t < J, (i - a).toNat.testBit t = (i - (a + 2 ^ J)).toNat.testBit t := by
    intro t ht; rw [he, Nat.testBit_two_pow_add_gt ht]
  have htop : (i - a).toNat.testBit J = true := by
    rw [he, Nat.testBit_two_pow_add_eq, Nat.testBit_lt_two_pow hlt]; rfl
  exact ⟨by rw [Orb.fwd, htop, o.fwd_congr _ _ J _ hbits], o.al_congr _ _ J _ hbits⟩

lemma Orb.D_right (o : Orb) (J : ℕ) (a i k : ℤ) (h1 : a + 2 ^ J ≤ i) (h2 : i < a + 2 ^ (J + 1)) :
    o.D (J + 1) a i k = o.stay J (a + 2 ^ J) a * o.D J (a + 2 ^ J) i k + o.acc J (a + 2 ^ J) a * o.unif a J k := by
  obtain ⟨_, h2'⟩ := right_offset a i J h1 h2
  obtain ⟨hlo, hj⟩ := o.inner_left J (a + 2 ^ J) i h1 h2'
  unfold Orb.D
  rw [(o.fwd_right J a i h1 h2).1]
  simp only [Orb.body, hlo, hj, if_true, add_sub_cancel_right]

lemma Orb.A_left (o : Orb) (J : ℕ) (a i : ℤ) (h1 : a ≤ i) (h2 : i < a + 2 ^ J) (hnd : o.nd i = true) :
    o.A (J + 1) a i = o.good J a := by
  obtain ⟨hlt, hc⟩ := offset_lt a i J h1 h2
  unfold Orb.A
  rw [Orb.al, o.alive_good _ J i hnd, Nat.mod_eq_of_lt hlt, hc]; congr 1; ring

lemma Orb.A_right (o : Orb) (J : ℕ) (a i : ℤ) (h1 : a + 2 ^ J ≤ i) (h2 : i < a + 2 ^ (J + 1))
    (hnd : o.nd i = true) : o.A (J + 1) a i = o.good J (a + 2 ^ J) := by
  obtain ⟨he, h2'⟩ := right_offset a i J h1 h2
  obtain ⟨hlt, hc⟩ := offset_lt (a + 2 ^ J) i J h1 h2'
  unfold Orb.A
  rw [Orb.al, o.alive_good _ J i hnd, he, Nat.add_mod_left, Nat.mod_eq_of_lt hlt, hc]; congr 1; ring

lemma Orb.A_of_good (o : Orb) (J : ℕ) (a i : ℤ) (h1 : a ≤ i) (h2 : i < a + 2 ^ J) (hnd : o.nd i = true)
    (hg : o.good J a = true) : o.A J a i = true := by
  obtain ⟨hlt, hc⟩ := offset_lt a i J h1 h2
  have := o.alive_good (i - a).toNat J i hnd
  rw [Nat.mod_eq_of_lt hlt, hc, show i - (i - a) = a by ring, hg] at this
  simp only [Bool.and_eq_true] at this
  exact this.1

lemma Orb.D_support (o : Orb) (J : ℕ) (a i k : ℤ) (h1 : a ≤ i) (h2 : i < a + 2 ^ J)
    (hk : ¬ (a ≤ k ∧ k < a + 2 ^ J)) : o.D J a i k = 0 := by
  unfold Orb.D
  apply o.fwd_support
  rw [(o.inner_left J a i h1 h2).1]; exact hk

lemma Orb.unif_in (o : Orb) (a : ℤ) (j : ℕ) (k : ℤ) (h1 : a ≤ k) (h2 : k < a + 2 ^ j)
    (hS : o.S k = true) (hg : o.g k = true) : o.unif a j k = 1 / (cnt o.S a (2 ^ j) : ℚ) := by
  unfold Orb.unif; rw [if_pos ⟨h1, h2, hS, hg⟩]

lemma Orb.unif_out (o : Orb) (a : ℤ) (j : ℕ) (k : ℤ) (h : ¬ (a ≤ k ∧ k < a + 2 ^ j)) :
    o.unif a j k = 0 := by
  unfold Orb.unif; rw [if_neg]; intro h'; exact h ⟨h'.1, h'.2.1⟩

/-- the cross case: `i` in the left half, `k` in the right half of `[a, a + 2^(J+1))` -/
lemma Orb.G_cross (o : Orb) (hS : ∀ x, o.S x = true → o.nd x = true) (J : ℕ) (a i k : ℤ)
    (hi1 : a ≤ i) (hi2 : i < a + 2 ^ J) (hk1 : a + 2 ^ J ≤ k) (hk2 : k < a + 2 ^ (J + 1))
    (hSi : o.S i = true) (hgi : o.g i = true) (hSk : o.S k = true) (hgk : o.g k = true) :
    o.G (J + 1) a i k = o.G (J + 1) a k i := by
  have hp : (2 : ℤ) ^ (J + 1) = 2 ^ J + 2 ^ J := by rw [pow_succ]; ring
  have hk2' : k < a + 2 ^ J + 2 ^ J := by linarith
  unfold Orb.G
  rw [o.A_left J a i hi1 hi2 (hS i hSi), o.A_right J a k hk1 hk2 (hS k hSk),
    o.D_left J a i k hi1 hi2, o.D_right J a k i hk1 hk2,
    o.D_support J a i k hi1 hi2 (by intro h; linarith [h.2]),
    o.D_support J (a + 2 ^ J) k i hk1 hk2' (by intro h; linarith [h.1]),
    o.unif_in (a + 2 ^ J) J k hk1 hk2' hSk hgk, o.unif_in a J i hi1 hi2 hSi hgi]
  unfold Orb.acc
  have hL : (0 : ℚ) < (cnt o.S a (2 ^ J) : ℚ) := by
    have := cnt_pos o.S a (2 ^ J) i hi1 (by push_cast; exact hi2) hSi
    exact_mod_cast this
  have hR : (0 : ℚ) < (cnt o.S (a + 2 ^ J) (2 ^ J) : ℚ) := by
    have := cnt_pos o.S (a + 2 ^ J) (2 ^ J) k hk1 (by push_cast; exact hk2') hSk
    exact_mod_cast this
  by_cases gL : o.good J a = true <;> by_cases gR : o.good J (a + 2 ^ J) = true
  · simp only [gL, gR, if_true, mul_zero, zero_add]
    exact swap_symmetric _ _ hL hR
  · simp [gL, gR]
  · simp [gL, gR]
  · simp [gL, gR]

/-- **symmetry of the block-indexed weights** -/
lemma Orb.G_sym (o : Orb) (hS : ∀ x, o.S x = true → o.nd x = true) (J : ℕ) :
    ∀ a i k : ℤ, a ≤ i → i < a + 2 ^ J → a ≤ k → k < a + 2 ^ J →
      o.S i = true → o.g i = true → o.S k = true → o.g k = true → o.G J a i k = o.G J a k i := by
  induction J with
  | zero =>
    intro a i k hi1 hi2 hk1 hk2 _ _ _ _
    have : i = k := by simp only [pow_zero] at hi2 hk2; omega
    subst this; rfl
  | succ J ih =>
    intro a i k hi1 hi2 hk1 hk2 hSi hgi hSk hgk
    have hp : (2 : ℤ) ^ (J + 1) = 2 ^ J + 2 ^ J := by rw [pow_succ]; ring
    by_cases hi : i < a + 2 ^ J <;> by_cases hk : k < a + 2 ^ J
    · -- both in the left half
      have := ih a i k hi1 hi hk1 hk hSi hgi hSk hgk
      unfold Orb.G at this ⊢
      rw [o.A_left J a i hi1 hi (hS i hSi), o.A_left J a k hk1 hk (hS k hSk),
        o.D_left J a i k hi1 hi, o.D_left J a k i hk1 hk,
        o.unif_out (a + 2 ^ J) J k (by intro h; linarith [h.1]),
        o.unif_out (a + 2 ^ J) J i (by intro h; linarith [h.1])]
      by_cases gL : o.good J a = true
      · rw [o.A_of_good J a i hi1 hi (hS i hSi) gL, o.A_of_good J a k hk1 hk (hS k hSk) gL] at this
        simp only [if_true] at this
        simp only [gL, if_true, this]
      · simp [gL]
    · exact o.G_cross hS J a i k hi1 hi (by linarith) hk2 hSi hgi hSk hgk
    · exact (o.G_cross hS J a k i hk1 hk (by linarith) hi2 hSk hgk hSi hgi).symm
    · -- both in the right half
      have hi' : a + 2 ^ J ≤ i := by linarith
      have hk' : a + 2 ^ J ≤ k := by linarith
      have hi2' : i < a + 2 ^ J + 2 ^ J := by linarith
      have hk2' : k < a + 2 ^ J + 2 ^ J := by linarith
      have := ih (a + 2 ^ J) i k hi' hi2' hk' hk2' hSi hgi hSk hgk
      unfold Orb.G at this ⊢
      rw [o.A_right J a i hi' hi2 (hS i hSi), o.A_right J a k hk' hk2 (hS k hSk),
        o.D_right J a i k hi' hi2, o.D_right J a k i hk' hk2,
        o.unif_out a J k (by intro h; linarith [h.2]),
        o.unif_out a J i (by intro h; linarith [h.2])]
      by_cases gR : o.good J (a + 2 ^ J) = true
      · rw [o.A_of_good J _ i hi' hi2' (hS i hSi) gR, o.A_of_good J _ k hk' hk2' (hS k hSk) gR] at this
        simp only [if_true] at this
        simp only [gR, if_true, this]
      · simp [gR]

/-! ### assembling the transition probability from blocks -/

/-- weight of "the final interval is the block `[a, a + 2^J)` and the final state is `k`" from the
    start `i` (without the factor `2^{-J}` of the direction bits): the loop stops after these `J`
    doublings iff the block is not `good` or the depth bound `r` is reached -/
def Orb.H (o : Orb) (r J : ℕ) (a i k : ℤ) : ℚ :=
  if o.good J a = false ∨ J = r then o.G J a i k else 0

lemma Orb.term_eq_H (o : Orb) (r J m : ℕ) (i k : ℤ) (hm : m < 2 ^ J) (hnd : o.nd i = true) :
    o.term r J m (oinit i) k = o.H r J (i - m) i k := by
  have hoff : (i - (i - (m : ℤ))).toNat = m := by simp
  unfold Orb.term Orb.H Orb.G Orb.A Orb.D
  rw [hoff]
  have hag := o.alive_good m J i hnd
  rw [Nat.mod_eq_of_lt hm] at hag
  by_cases hal : o.al m J (oinit i) = true
  · rw [hal, Bool.true_and] at hag
    simp only [hal, true_and, if_true, hag]
  · simp [hal]

lemma Orb.P_eq (o : Orb) (M : ℕ) (i k : ℤ) (hnd : o.nd i = true) :
    o.P M i k = ∑ J ∈ range (M + 1), (1 / 2 : ℚ) ^ J * ∑ m ∈ range (2 ^ J), o.H M J (i - m) i k := by
  unfold Orb.P
  rw [o.walk_eq_sum]
  apply Finset.sum_congr rfl; intro J _
  congr 1
  apply Finset.sum_congr rfl; intro m hm
  exact o.term_eq_H M J m i k (Finset.mem_range.mp hm) hnd

lemma sum_range_eq_Ioc (f : ℤ → ℚ) (x : ℤ) (J : ℕ) :
    ∑ m ∈ range (2 ^ J), f (x - m) = ∑ a ∈ Finset.Ioc (x - 2 ^ J) x, f a := by
  apply Finset.sum_nbij' (fun m : ℕ => x - (m : ℤ)) (fun a : ℤ => (x - a).toNat)
  · intro m hm
    have : (m : ℤ) < 2 ^ J := by exact_mod_cast Finset.mem_range.mp hm
    simp only [Finset.mem_Ioc]; omega
  · intro a ha
    simp only [Finset.mem_Ioc] at ha
    rw [Finset.mem_range]
    have : ((x - a).toNat : ℤ) < ((2 ^ J : ℕ) : ℤ) := by
      rw [Int.toNat_of_nonneg (by omega)]; push_cast; omega
    exact_mod_cast this
  · intro m _; simp
  · intro a ha
    simp only [Finset.mem_Ioc] at ha
    rw [Int.toNat_of_nonneg (by omega)]; ring
  · intro m _; rfl

lemma sum_blocks_sym (F : ℤ → ℤ → ℤ → ℚ) (J : ℕ) (i k : ℤ)
    (hsym : ∀ a, a ≤ i → i < a + 2 ^ J → a ≤ k → k < a + 2 ^ J → F a i k = F a k i)
    (h0 : ∀ a x y, a ≤ x → x < a + 2 ^ J → ¬ (a ≤ y ∧ y < a + 2 ^ J) → F a x y = 0) :
    ∑ m ∈ range (2 ^ J), F (i - m) i k = ∑ m ∈ range (2 ^ J), F (k - m) k i := by
  rw [sum_range_eq_Ioc (fun a => F a i k), sum_range_eq_Ioc (fun a => F a k i)]
  have e1 : ∑ a ∈ Finset.Ioc (i - 2 ^ J) i ∩ Finset.Ioc (k - 2 ^ J) k, F a i k
      = ∑ a ∈ Finset.Ioc (i - 2 ^ J) i, F a i k := by
    apply Finset.sum_subset Finset.inter_subset_left
    intro a ha hna
    simp only [Finset.mem_inter, Finset.mem_Ioc] at ha hna
    exact h0 a i k (by omega) (by omega) (by intro h; apply hna; omega)
  have e2 : ∑ a ∈ Finset.Ioc (i - 2 ^ J) i ∩ Finset.Ioc (k - 2 ^ J) k, F a k i
      = ∑ a ∈ Finset.Ioc (k - 2 ^ J) k, F a k i := by
    apply Finset.sum_subset Finset.inter_subset_right
    intro a ha hna
    simp only [Finset.mem_inter, Finset.mem_Ioc] at ha hna
    exact h0 a k i (by omega) (by omega) (by intro h; apply hna; omega)
  rw [← e1, ← e2]
  apply Finset.sum_congr rfl
  intro a ha
  simp only [Finset.mem_inter, Finset.mem_Ioc] at ha
  exact hsym a (by omega) (by omega) (by omega) (by omega)

lemma Orb.H_zero (o : Orb) (r J : ℕ) (a x y : ℤ) (h1 : a ≤ x) (h2 : x < a + 2 ^ J)
    (hy : ¬ (a ≤ y ∧ y < a + 2 ^ J)) : o.H r J a x y = 0 := by
  unfold Orb.H Orb.G
  rw [o.D_support J a x y h1 h2 hy]; simp

/-- **detailed balance of the orbit-level transition** -/
lemma Orb.P_sym (o : Orb) (hS : ∀ x, o.S x = true → o.nd x = true) (M : ℕ) (i k : ℤ)
    (hSi : o.S i = true) (hgi : o.g i = true) (hSk : o.S k = true) (hgk : o.g k = true) :
    o.P M i k = o.P M k i := by
  rw [o.P_eq M i k (hS i hSi), o.P_eq M k i (hS k hSk)]
  apply Finset.sum_congr rfl; intro J _
  congr 1
  apply sum_blocks_sym (fun a x y => o.H M J a x y) J i k
  · intro a h1 h2 h3 h4
    simp only [Orb.H]
    rw [o.G_sym hS J a i k h1 h2 h3 h4 hSi hgi hSk hgk]
  · intro a x y h1 h2 hy
    exact o.H_zero M J a x y h1 h2 hy

/-! ### total mass and support of the transition -/

lemma Orb.walk_zero_of (o : Orb) (r : ℕ) (st : OSt) (k : ℤ) (h0 : st.dist k = 0)
    (hk : ¬ (o.S k = true ∧ o.g k = true)) : o.walk r st k = 0 := by
  induction r generalizing st with
  | zero => exact h0
  | succ r ih =>
    have hb : ∀ b, (o.body b st).dist k = 0 := by
      intro b
      have hu : ∀ a j, o.unif a j k = 0 := by
        intro a j; unfold Orb.unif; rw [if_neg]; intro h; exact hk ⟨h.2.2.1, h.2.2.2⟩
      simp only [Orb.body, h0, mul_zero, zero_add, hu]
    simp only [Orb.walk]
    split
    · simp only [ih _ (hb true), ih _ (hb false)]; norm_num
    · exact h0

lemma sum_Ico_eq_range (f : ℤ → ℚ) (a : ℤ) (n : ℕ) :
    ∑ k ∈ Finset.Ico a (a + n), f k = ∑ t ∈ range n, f (a + t) := by
  symm
  apply Finset.sum_nbij' (fun t : ℕ => a + (t : ℤ)) (fun k : ℤ => (k - a).toNat)
  · intro t ht
    have := Finset.mem_range.mp ht
    simp only [Finset.mem_Ico]; omega
  · intro k hk
    simp only [Finset.mem_Ico] at hk
    rw [Finset.mem_range]; omega
  · intro t _; simp
  · intro k hk
    simp only [Finset.mem_Ico] at hk
    rw [Int.toNat_of_nonneg (by omega)]; ring
  · intro t _; rfl

lemma Orb.sum_unif_window (o : Orb) (a : ℤ) (j : ℕ) (W : Finset ℤ)
    (hW : Finset.Ico a (a + 2 ^ j) ⊆ W) :
    ∑ k ∈ W, o.unif a j k = ∑ t ∈ range (2 ^ j), o.unif a j (a + t) := by
  have h1 : ∑ k ∈ Finset.Ico a (a + 2 ^ j), o.unif a j k = ∑ k ∈ W, o.unif a j k := by
    apply Finset.sum_subset hW
    intro k _ hk
    apply o.unif_out
    intro h; apply hk; simp only [Finset.mem_Ico]; exact h
  rw [← h1]
  have := sum_Ico_eq_range (fun k => o.unif a j k) a (2 ^ j)
  push_cast at this
  exact this

lemma Orb.body_mass (o : Orb) (b : Bool) (st : OSt) (W : Finset ℤ)
    (hW : Finset.Ico (if b then st.lo - 2 ^ st.j else st.lo + 2 ^ st.j)
      ((if b then st.lo - 2 ^ st.j else st.lo + 2 ^ st.j) + 2 ^ st.j) ⊆ W)
    (hm : ∑ k ∈ W, st.dist k = 1) : ∑ k ∈ W, (o.body b st).dist k = 1 := by
  simp only [Orb.body]
  rw [Finset.sum_add_distrib, ← Finset.mul_sum, ← Finset.mul_sum, hm, o.sum_unif_window _ _ W hW]
  unfold Orb.stay; ring

lemma Orb.walk_mass (o : Orb) (r : ℕ) (st : OSt) (W : Finset ℤ)
    (hW : Finset.Ico (st.lo + 2 ^ st.j - 2 ^ (st.j + r)) (st.lo + 2 ^ (st.j + r)) ⊆ W)
    (hm : ∑ k ∈ W, st.dist k = 1) : ∑ k ∈ W, o.walk r st k = 1 := by
  induction r generalizing st with
  | zero => exact hm
  | succ r ih =>
    simp only [Orb.walk]
    split
    · have hT : (2 : ℤ) ^ (st.j + 1 + r) = 2 ^ (st.j + (r + 1)) := by congr 1; omega
      have hX : (2 : ℤ) ^ (st.j + 1) = 2 * 2 ^ st.j := by rw [pow_succ]; ring
      have hXpos : (0 : ℤ) < 2 ^ st.j := by positivity
      have hTX : (2 : ℤ) * 2 ^ st.j ≤ 2 ^ (st.j + (r + 1)) := by
        rw [← hX]; exact pow_le_pow_right₀ (by norm_num) (by omega)
      have hbody : ∀ b, ∑ k ∈ W, o.walk r (o.body b st) k = 1 := by
        intro b
        apply ih
        · refine subset_trans ?_ hW
          apply Finset.Ico_subset_Ico
          · cases b <;> simp only [Orb.body, hT, hX, if_true, Bool.false_eq_true, if_false] <;> linarith
          · cases b <;> simp only [Orb.body, hT, if_true, Bool.false_eq_true, if_false] <;> linarith
        · apply o.body_mass b st W _ hm
          refine subset_trans ?_ hW
          apply Finset.Ico_subset_Ico
          · cases b <;> simp only [if_true, Bool.false_eq_true, if_false] <;> linarith
          · cases b <;> simp only [if_true, Bool.false_eq_true, if_false] <;> linarith
      rw [Finset.sum_add_distrib, ← Finset.mul_sum, ← Finset.mul_sum, hbody true, hbody false]
      norm_num
    · exact hm

lemma Orb.P_zero_of (o : Orb) (M : ℕ) (i k : ℤ) (hne : k ≠ i) (hk : ¬ (o.S k = true ∧ o.g k = true)) :
    o.P M i k = 0 :=
  o.walk_zero_of M (oinit i) k (by simp [oinit, hne]) hk

lemma Orb.P_mass (o : Orb) (M : ℕ) (i : ℤ) (W : Finset ℤ)
    (hW : Finset.Ico (i + 1 - 2 ^ M) (i + 2 ^ M) ⊆ W) : ∑ k ∈ W, o.P M i k = 1 := by
  unfold Orb.P
  apply o.walk_mass
  · simpa [oinit] using hW
  · have hi : i ∈ W := by
      apply hW
      have : (0 : ℤ) < 2 ^ M := by positivity
      simp only [Finset.mem_Ico]; omega
    simp only [oinit]
    rw [Finset.sum_ite_eq' W i]; simp [hi]

/-- invariance of the counting measure on the admissible indices -/
lemma Orb.P_invariant (o : Orb) (hS : ∀ x, o.S x = true → o.nd x = true) (M : ℕ) (k : ℤ)
    (hSk : o.S k = true) (hgk : o.g k = true) (W : Finset ℤ)
    (hW : Finset.Ico (k + 1 - 2 ^ M) (k + 2 ^ M) ⊆ W) :
    ∑ i ∈ W.filter (fun i => o.S i = true ∧ o.g i = true), o.P M i k = 1 := by
  have h1 : ∑ i ∈ W.filter (fun i => o.S i = true ∧ o.g i = true), o.P M i k
      = ∑ i ∈ W.filter (fun i => o.S i = true ∧ o.g i = true), o.P M k i := by
    apply Finset.sum_congr rfl
    intro i hi
    rw [Finset.mem_filter] at hi
    exact o.P_sym hS M i k hi.2.1 hi.2.2 hSk hgk
  rw [h1, Finset.sum_filter, ← o.P_mass M k W hW]
  apply Finset.sum_congr rfl
  intro i _
  by_cases h : o.S i = true ∧ o.g i = true
  · rw [if_pos h]
  · rw [if_neg h]
    have hne : i ≠ k := by rintro rfl; exact h ⟨hSk, hgk⟩
    exact (o.P_zero_of M k i hne h).symm

/-! ## link of the orbit-level data to the model -/
section Link2
variable {Z : Type}

/-- the orbit-level data of the trajectory through `z0` in the context `c` -/
def orbOf (c : Ctx Z) (guard : Z → Bool) (z0 : Z) : Orb where
  S := sliceAt c z0
  nd := fun k => notDiverged c (pt c z0 k)
  ut := fun j a => c.noUturn (pt c z0 a) (pt c z0 (a + 2 ^ j - 1))
  g := fun k => guard (pt c z0 k)

/-- lower end of the block of `2^j` indices built by `buildTree` in direction `v` from index `k` -/
def blockLo (v : ℤ) (k : ℤ) (j : ℕ) : ℤ := if v = -1 then k - 2 ^ j else k + 1

lemma buildTree_good (c : Ctx Z) (hinv : StepInverse c) (guard : Z → Bool) (z0 : Z) (v : ℤ)
    (hv : v = 1 ∨ v = -1) (j : ℕ) : ∀ (k : ℤ) (us : List Rat),
    (buildTree c v j (pt c z0 k) us).1.s = (orbOf c guard z0).good j (blockLo v k j) ∧
    ((buildTree c v j (pt c z0 k) us).1.s = true →
      (buildTree c v j (pt c z0 k) us).1.zminus = pt c z0 (blockLo v k j) ∧
      (buildTree c v j (pt c z0 k) us).1.zplus = pt c z0 (blockLo v k j + 2 ^ j - 1)) := by
  induction j with
  | zero =>
    intro k us
    simp only [buildTree, Orb.good, orbOf, pt_step c hinv z0 v hv, blockLo, pow_zero]
    rcases hv with rfl | rfl
    · simp
    · simp only [if_true]
      refine ⟨by rw [show k + -1 = k - 1 by ring], fun _ => ?_⟩
      constructor <;> congr 1 <;> ring
  | succ j ih =>
    intro k us
    simp only [buildTree]
    have I1 := ih k us
    generalize buildTree c v j (pt c z0 k) us = b1 at I1 ⊢
    obtain ⟨t1, us1⟩ := b1
    simp only at I1 ⊢
    have hp : (2 : ℤ) ^ (j + 1) = 2 ^ j + 2 ^ j := by rw [pow_succ]; ring
    by_cases hs1 : t1.s = true
    · simp only [hs1, if_true]
      obtain ⟨hz1m, hz1p⟩ := I1.2 hs1
      have hg1 := I1.1; rw [hs1] at hg1
      rcases hv with rfl | rfl
      · -- direction +1
        simp only [show ((1 : ℤ) = -1) = False by decide, if_false, blockLo] at *
        have hstart : t1.zplus = pt c z0 (k + 2 ^ j) := by rw [hz1p]; congr 1; ring
        rw [hstart]
        have I2 := ih (k + 2 ^ j) us1
        generalize buildTree c 1 j (pt c z0 (k + 2 ^ j)) us1 = b2 at I2 ⊢
        obtain ⟨t2, us2⟩ := b2
        simp only at I2 ⊢
        simp only [Orb.good, ← hg1, Bool.true_and]
        rw [show k + 1 + 2 ^ j = k + 2 ^ j + 1 by ring, ← I2.1]
        by_cases hs2 : t2.s = true
        · obtain ⟨_, hz2p⟩ := I2.2 hs2
          have e : k + 2 ^ j + 1 + 2 ^ j - 1 = k + 1 + 2 ^ (j + 1) - 1 := by rw [hp]; ring
          rw [e] at hz2p
          simp only [hs2, Bool.true_and, hz1m, hz2p, orbOf]
          exact ⟨trivial, fun _ => ⟨trivial, trivial⟩⟩
        · simp [hs2]
      · -- direction −1
        simp only [if_true, blockLo] at *
        rw [hz1m]
        have I2 := ih (k - 2 ^ j) us1
        generalize buildTree c (-1) j (pt c z0 (k - 2 ^ j)) us1 = b2 at I2 ⊢
        obtain ⟨t2, us2⟩ := b2
        simp only at I2 ⊢
        have e0 : k - 2 ^ (j + 1) = k - 2 ^ j - 2 ^ j := by rw [hp]; ring
        simp only [Orb.good, e0, sub_add_cancel, ← hg1, Bool.and_true]
        rw [← I2.1]
        by_cases hs2 : t2.s = true
        · obtain ⟨hz2m, _⟩ := I2.2 hs2
          have e : k - 2 ^ j + 2 ^ j - 1 = k - 2 ^ j - 2 ^ j + 2 ^ (j + 1) - 1 := by rw [hp]; ring
          rw [e] at hz1p
          simp only [hs2, Bool.true_and, hz1p, hz2m, orbOf]
          exact ⟨trivial, fun _ => ⟨trivial, trivial⟩⟩
        · simp [hs2]
    · have hf : t1.s = false := by simpa using hs1
      simp only [hs1]
      have hg1 := I1.1; rw [hf] at hg1
      refine ⟨?_, fun h => by simp at h⟩
      simp only [Orb.good]
      rcases hv with rfl | rfl
      · simp only [show ((1 : ℤ) = -1) = False by decide, if_false, blockLo] at *
        rw [← hg1]; simp
      · simp only [if_true, blockLo] at *
        have e0 : k - 2 ^ (j + 1) + 2 ^ j = k - 2 ^ j := by rw [hp]; ring
        rw [e0, ← hg1]; simp

/-- the continuation flag computed by `loopBody` is the one of the orbit-level `Orb.body` -/
lemma loopBody_s (c : Ctx Z) (hinv : StepInverse c) (guard : Z → Bool) (z0 : Z) (st : Loop Z)
    (lo hi : ℤ) (I : LoopInv c z0 st lo hi) (hs : st.s = true) (dist : ℤ → ℚ) :
    (loopBody c guard st).s =
      ((orbOf c guard z0).body (dirBit st) { lo := lo, j := st.j, s := true, dist := dist }).s := by
  have hfull := I.full hs
  have hp : (2 : ℤ) ^ (st.j + 1) = 2 ^ st.j + 2 ^ st.j := by rw [pow_succ]; ring
  by_cases hud : (popU st.us).1 < 1 / 2
  · have hb : dirBit st = false := by simp only [dirBit, hud, decide_true, Bool.not_true]
    have G := buildTree_good c hinv guard z0 1 (Or.inl rfl) st.j hi (popU st.us).2
    simp only [loopBody, hud, if_true, hb, Bool.false_eq_true, if_false,
      show ((1 : Int) = -1) = False by decide, Orb.body, I.zplus]
    simp only [blockLo, show ((1 : ℤ) = -1) = False by decide, if_false] at G
    generalize buildTree c 1 st.j (pt c z0 hi) (popU st.us).2 = b at G ⊢
    obtain ⟨t, us1⟩ := b
    simp only at G ⊢
    have e1 : hi + 1 = lo + 2 ^ st.j := by linarith
    rw [e1] at G
    by_cases hts : t.s = true
    · have hz := (G.2 hts).2
      have e2 : lo + 2 ^ st.j + 2 ^ st.j - 1 = lo + 2 ^ (st.j + 1) - 1 := by rw [hp]; ring
      rw [e2] at hz
      have hg := G.1; rw [hts] at hg
      simp only [hts, Bool.true_and, ← hg, hz, I.zminus]
      rfl
    · have hf : t.s = false := by simpa using hts
      have hg := G.1; rw [hf] at hg
      simp only [hf, Bool.false_and, ← hg]
  · have hb : dirBit st = true := by simp only [dirBit, hud, decide_false, Bool.not_false]
    have G := buildTree_good c hinv guard z0 (-1) (Or.inr rfl) st.j lo (popU st.us).2
    simp only [loopBody, hud, if_false, hb, if_true, Orb.body, I.zminus]
    simp only [blockLo, if_true] at G
    generalize buildTree c (-1) st.j (pt c z0 lo) (popU st.us).2 = b at G ⊢
    obtain ⟨t, us1⟩ := b
    simp only at G ⊢
    by_cases hts : t.s = true
    · have hz := (G.2 hts).1
      have e2 : hi = lo - 2 ^ st.j + 2 ^ (st.j + 1) - 1 := by rw [hp]; linarith
      have hg := G.1; rw [hts] at hg
      simp only [hts, Bool.true_and, ← hg, hz, I.zplus]
      rw [e2]; rfl
    · have hf : t.s = false := by simpa using hts
      have hg := G.1; rw [hf] at hg
      simp only [hf, Bool.false_and, ← hg]

/-- the top-level acceptance event `rand() * n < n' and rand() < 1` is `rand() < min(1, n'/n)` -/
lemma top_accept (u : ℚ) (n n' : ℕ) (hn : 0 < n) :
    (decide (u * (n : ℚ) < (n' : ℚ)) && decide (u < 1)) = true ↔ u < min 1 ((n' : ℚ) / n) := by
  have hpos : (0 : ℚ) < n := by exact_mod_cast hn
  rw [Bool.and_eq_true, decide_eq_true_iff, decide_eq_true_iff, lt_min_iff, lt_div_iff₀ hpos]
  tauto

end Link2
lemma Orb.body_s_congr (o : Orb) (b : Bool) (st st' : OSt) (h1 : st.lo = st'.lo) (h2 : st.j = st'.j) :
    (o.body b st).s = (o.body b st').s := by
  simp only [Orb.body, h1, h2]

end CuqiVerif.C08
