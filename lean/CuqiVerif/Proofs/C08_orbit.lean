import CuqiVerif.Props.C08
import Mathlib.Algebra.BigOperators.Intervals
import Mathlib.Data.Int.Interval
import Mathlib.Data.Nat.Bitwise

/-!
# C08 — orbit-level analysis of NUTS on the integer line: definitions and helper lemmas

Positions of a trajectory are indexed by `ℤ` (`z_k = Φ^k z_0`).  This file contains the
definitions used by `Props/C08_orbit.lean` (doubling process on index intervals, in-slice
counts, one-doubling kernel, orbit-level transition) and the helper lemmas.
-/

namespace CuqiVerif.C08
open Finset

/-! ## (1) the doubling process on index intervals -/

/-- `Σ_{k < J, d k} 2^k`: how far the lower end has moved after `J` doublings with direction
    bits `d` (`d k = true` means direction `−1`, i.e. the `k`-th doubling was backwards). -/
def bsum (d : ℕ → Bool) : ℕ → ℕ
  | 0 => 0
  | J + 1 => bsum d J + (if d J then 2 ^ J else 0)

/-- One doubling at level `j` of the visited index interval `(lo, hi)` (both ends inclusive, the
    indices of the code's `zminus`/`zplus`): a block of `2^j` points is appended on the chosen side,
    exactly as `loopBody` replaces `zminus` (direction `−1`) or `zplus` (direction `+1`). -/
def extend (b : Bool) (j : ℕ) (I : ℤ × ℤ) : ℤ × ℤ :=
  if b then (I.1 - 2 ^ j, I.2) else (I.1, I.2 + 2 ^ j)

/-- The visited index interval after `J` doublings from start index `i`. -/
def visited (d : ℕ → Bool) (i : ℤ) : ℕ → ℤ × ℤ
  | 0 => (i, i)
  | J + 1 => extend (d J) J (visited d i J)

/-- a finite bit vector read as an infinite direction sequence (unused entries `false`) -/
def extBits {J : ℕ} (d : Fin J → Bool) (k : ℕ) : Bool := if h : k < J then d ⟨k, h⟩ else false

lemma bsum_eq_sum (d : ℕ → Bool) (J : ℕ) :
    bsum d J = ∑ k ∈ range J, (if d k then 2 ^ k else 0) := by
  induction J with
  | zero => rfl
  | succ J ih => rw [Finset.sum_range_succ, ← ih]; rfl

lemma bsum_lt (d : ℕ → Bool) (J : ℕ) : bsum d J < 2 ^ J := by
  induction J with
  | zero => simp [bsum]
  | succ J ih => simp only [bsum, pow_succ]; split <;> omega

lemma bsum_congr (d e : ℕ → Bool) (J : ℕ) (h : ∀ k < J, d k = e k) : bsum d J = bsum e J := by
  induction J with
  | zero => rfl
  | succ J ih =>
    simp only [bsum]
    rw [ih (fun k hk => h k (by omega)), h J (by omega)]

lemma bsum_testBit (d : ℕ → Bool) (J k : ℕ) (hk : k < J) : (bsum d J).testBit k = d k := by
  induction J with
  | zero => omega
  | succ J ih =>
    simp only [bsum]
    have hlt := bsum_lt d J
    rcases Nat.lt_succ_iff_lt_or_eq.mp hk with h | h
    · by_cases hd : d J = true
      · simp only [hd, if_true]
        rw [Nat.add_comm, Nat.testBit_two_pow_add_gt h]; exact ih h
      · simp only [hd]; simpa using ih h
    · subst h
      by_cases hd : d k = true
      · simp only [hd, if_true]
        rw [Nat.add_comm, Nat.testBit_two_pow_add_eq, Nat.testBit_lt_two_pow hlt]; rfl
      · simp only [hd]
        simp only [Bool.false_eq_true, if_false, Nat.add_zero]
        rw [Nat.testBit_lt_two_pow hlt]

/-- the bits of a number reproduce it -/
lemma bsum_of_testBit (m J : ℕ) : bsum (fun k => m.testBit k) J = m % 2 ^ J := by
  apply Nat.eq_of_testBit_eq
  intro k
  by_cases hk : k < J
  · rw [bsum_testBit _ _ _ hk, Nat.testBit_mod_two_pow]; simp [hk]
  · have hk' : J ≤ k := by omega
    rw [Nat.testBit_lt_two_pow (lt_of_lt_of_le (bsum_lt _ J) (Nat.pow_le_pow_right (by omega) hk')),
      Nat.testBit_mod_two_pow]
    simp [hk]

lemma bsum_eq_iff (d : ℕ → Bool) (J m : ℕ) (hm : m < 2 ^ J) :
    bsum d J = m ↔ ∀ k < J, d k = m.testBit k := by
  constructor
  · rintro rfl k hk; exact (bsum_testBit d J k hk).symm
  · intro h
    rw [bsum_congr d (fun k => m.testBit k) J h, bsum_of_testBit, Nat.mod_eq_of_lt hm]

lemma visited_eq (d : ℕ → Bool) (i : ℤ) (J : ℕ) :
    visited d i J = (i - (bsum d J : ℤ), i - (bsum d J : ℤ) + 2 ^ J - 1) := by
  induction J with
  | zero => simp [visited, bsum]
  | succ J ih =>
    simp only [visited, ih, extend, bsum]
    by_cases hd : d J = true
    · simp only [hd, if_true]; push_cast; ext <;> simp <;> ring
    · simp only [hd]; simp; ring

end CuqiVerif.C08
