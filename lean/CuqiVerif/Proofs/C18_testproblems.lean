import CuqiVerif.Model.C18_testproblems
import CuqiVerif.Proofs.C18
import Mathlib.Algebra.BigOperators.Group.Finset.Basic
import Mathlib.Algebra.BigOperators.Ring.Finset
import Mathlib.Algebra.BigOperators.Field
import Mathlib.Algebra.Order.BigOperators.Ring.Finset
import Mathlib.Algebra.Order.Field.Basic
import Mathlib.Algebra.Order.AbsoluteValue.Basic
import Mathlib.Tactic.Ring
import Mathlib.Tactic.Linarith
import Mathlib.Tactic.NormNum
import Mathlib.Tactic.LinearCombination
import Mathlib.Tactic.FieldSimp
import Mathlib.Tactic.Positivity

/-!
# C18 — helper lemmas for the test-problem model (`Model/C18_testproblems.lean`)
All statements are about the executable definitions, instantiated at a field `K`.
-/
open Finset

set_option linter.unusedSectionVars false
set_option linter.unusedVariables false

namespace CuqiVerif.C18

section field
variable {K : Type} [Field K]

/-! ## indicator sums -/

lemma sum_ind_left (n a : ℕ) (f : ℕ → K) :
    ∑ k ∈ range n, (if k = a then f k else 0) = if a < n then f a else 0 := by
  simp [Finset.sum_ite_eq']

/-- integer coefficient of `Dx`: `+1` on the diagonal, `-1` below it -/
def dcoef (k i : ℕ) : K := (if k = i then 1 else 0) - (if k = i + 1 then 1 else 0)

/-- the matrix `Dx` as built by `Poisson1D` is the forward-difference stencil: column `i` has `+1/dx`
    in row `i` and `-1/dx` in row `i+1` -/
lemma poissonDx_eq (dx : K) (k i : ℕ) : poissonDx dx k i = dcoef k i / dx := by
  unfold poissonDx dcoef
  cases k with
  | zero =>
    by_cases h : i = 0
    · subst h; simp
    · have : ¬ (0 = i) := fun h' => h h'.symm
      simp [h, this]
  | succ k =>
    by_cases h1 : k = i
    · subst h1; simp
    · by_cases h2 : i = k + 1
      · subst h2; simp
      · have h3 : ¬ (k + 1 = i) := fun h' => h2 h'.symm
        simp [h1, h2, h3]

lemma dcoef_sum (n k : ℕ) (v : ℕ → K) :
    ∑ i ∈ range n, dcoef k i * v i = (if k < n then v k else 0) - (if 1 ≤ k ∧ k - 1 < n then v (k - 1) else 0) := by
  unfold dcoef
  simp only [sub_mul, Finset.sum_sub_distrib, ite_mul, one_mul, zero_mul]
  congr 1
  · simp [Finset.sum_ite_eq]
  · cases k with
    | zero => simp
    | succ k =>
      have : ∀ i ∈ range n, (if k + 1 = i + 1 then v i else (0 : K)) = if k = i then v i else 0 := by
        intro i _
        by_cases h : k = i <;> simp [h]
      rw [Finset.sum_congr rfl this]
      simp [Finset.sum_ite_eq]

/-- `Dx.T @ diag(x) @ Dx` with the division pulled out -/
lemma poissonOp_eq (N : ℕ) (dx : K) (x : Vec K) (i j : ℕ) :
    poissonOp N dx x i j = (∑ k ∈ range (N + 1), dcoef k i * x k * dcoef k j) / (dx * dx) := by
  unfold poissonOp
  rw [sumTo_eq_sum, Finset.sum_div]
  refine Finset.sum_congr rfl fun k _ => ?_
  rw [poissonDx_eq, poissonDx_eq, div_mul_eq_mul_div, div_mul_div_comm]

/-- `Σ_i v_i (A v)_i = Σ_k x_k ((Dx v)_k)²` for `A = Dxᵀ diag(x) Dx` -/
lemma poisson_quadratic (N : ℕ) (dx : K) (x v : Vec K) :
    ∑ i ∈ range N, v i * ∑ j ∈ range N, poissonOp N dx x i j * v j
      = ∑ k ∈ range (N + 1), x k * (∑ i ∈ range N, poissonDx dx k i * v i) ^ 2 := by
  have h1 : ∀ i ∈ range N, v i * ∑ j ∈ range N, poissonOp N dx x i j * v j
      = ∑ k ∈ range (N + 1), ∑ j ∈ range N, x k * (poissonDx dx k i * v i) * (poissonDx dx k j * v j) := by
    intro i _
    rw [Finset.sum_comm, Finset.mul_sum]
    refine Finset.sum_congr rfl fun j _ => ?_
    unfold poissonOp
    rw [sumTo_eq_sum, Finset.sum_mul, Finset.mul_sum]
    exact Finset.sum_congr rfl fun k _ => by ring
  rw [Finset.sum_congr rfl h1, Finset.sum_comm]
  refine Finset.sum_congr rfl fun k _ => ?_
  rw [sq, Finset.sum_mul_sum, Finset.mul_sum]
  refine Finset.sum_congr rfl fun i _ => ?_
  rw [Finset.mul_sum]
  exact Finset.sum_congr rfl fun j _ => by ring

/-! ## `linspace` -/

lemma linspace_length' (a b : K) (num : ℕ) (e : Bool) : (linspace a b num e).length = num := by
  simp [linspace]

lemma linspace_getD' (a b : K) (num : ℕ) (e : Bool) (k : ℕ) (hk : k < num) :
    (linspace a b num e).getD k 0 = a + (k : K) * ((b - a) / ((if e then num - 1 else num : ℕ) : K)) := by
  simp [linspace, List.getD_eq_getElem?_getD, hk]

/-! ## `Heat1D` -/

/-- row `i` of `Dxx` applied to a vector: the three-point second difference, with the neighbours
    outside `0 … n-1` missing (homogeneous Dirichlet) -/
lemma heatDxx_mulVec (n : ℕ) (dx : K) (u : ℕ → K) (i : ℕ) (hi : i < n) :
    ∑ j ∈ range n, heatDxx dx i j * u j
      = (-(2 : K) * u i + (if 1 ≤ i then u (i - 1) else 0) + (if i + 1 < n then u (i + 1) else 0)) / (dx * dx) := by
  unfold heatDxx
  rw [Finset.sum_congr rfl (fun j _ => div_mul_eq_mul_div _ _ _), ← Finset.sum_div]
  congr 1
  simp only [add_mul, Finset.sum_add_distrib, ite_mul, one_mul, zero_mul]
  congr 1
  · congr 1
    · rw [Finset.sum_ite_eq]
      simp [hi]
      ring
    · cases i with
      | zero => simp
      | succ i =>
        have : ∀ j ∈ range n, (if i + 1 = j + 1 then u j else (0 : K)) = if i = j then u j else 0 := by
          intro j _
          by_cases h : i = j <;> simp [h]
        rw [Finset.sum_congr rfl this, Finset.sum_ite_eq]
        have : i < n := by omega
        simp [this]
  · have : ∀ j ∈ range n, (if j = i + 1 then u j else (0 : K)) = if i + 1 = j then u j else 0 := by
      intro j _
      by_cases h : j = i + 1
      · simp [h]
      · have : ¬ (i + 1 = j) := fun h' => h h'.symm
        simp [h, this]
    rw [Finset.sum_congr rfl this, Finset.sum_ite_eq]
    simp

end field

end CuqiVerif.C18
