import CuqiVerif.Model.C10
import CuqiVerif.Props.C20
import Mathlib.Algebra.BigOperators.Group.Finset.Basic
import Mathlib.Algebra.BigOperators.Ring.Finset
import Mathlib.Algebra.Order.Field.Basic
import Mathlib.Algebra.Order.AbsoluteValue.Basic
import Mathlib.Data.Rat.Defs
import Mathlib.Tactic.Ring
import Mathlib.Tactic.Linarith
import Mathlib.Tactic.NormNum

/-!
# C10 — helper lemmas

Bridges from the executable definitions of `Model/C10.lean` (core `Rat`, structural recursion) to
`Finset` sums, `|·|`, `max`, and the `apply` / `gram` vocabulary of the C20 development.
-/
open Finset

namespace CuqiVerif.C10
open CuqiVerif.C20 (BC FMat)

lemma sumTo_eq_sum (n : ℕ) (f : ℕ → ℚ) : sumTo n f = ∑ i ∈ range n, f i := by
  induction n with
  | zero => rfl
  | succ n ih => rw [sumTo, ih, Finset.sum_range_succ]

lemma sq_eq (x : ℚ) : sq x = x ^ 2 := by unfold sq; ring

lemma normSq_eq (n : ℕ) (v : ℕ → ℚ) : normSq n v = ∑ i ∈ range n, v i ^ 2 := by
  unfold normSq; rw [sumTo_eq_sum]; exact Finset.sum_congr rfl fun i _ => sq_eq _

lemma applyQ_eq_apply (M : FMat) (x : ℕ → ℚ) (i : ℕ) : applyQ M x i = C20.apply M x i := by
  unfold applyQ C20.apply; rw [sumTo_eq_sum]

lemma normSqD_eq (D : FMat) (v : ℕ → ℚ) :
    normSqD D v = ∑ k ∈ range D.rows, (C20.apply D v k) ^ 2 := by
  unfold normSqD; rw [sumTo_eq_sum]
  exact Finset.sum_congr rfl fun k _ => by rw [sq_eq, applyQ_eq_apply]

lemma normSq_nonneg (n : ℕ) (v : ℕ → ℚ) : 0 ≤ normSq n v := by
  rw [normSq_eq]; exact Finset.sum_nonneg fun i _ => sq_nonneg _

lemma normSqD_nonneg (D : FMat) (v : ℕ → ℚ) : 0 ≤ normSqD D v := by
  rw [normSqD_eq]; exact Finset.sum_nonneg fun i _ => sq_nonneg _

lemma rabs_eq_abs (x : ℚ) : rabs x = |x| := by
  unfold rabs
  split_ifs with h
  · exact (abs_of_neg h).symm
  · exact (abs_of_nonneg (not_lt.1 h)).symm

lemma rmax_eq_max (x y : ℚ) : rmax x y = max x y := by
  unfold rmax
  split_ifs with h
  · exact (max_eq_right h.le).symm
  · exact (max_eq_left (not_lt.1 h)).symm

lemma allcloseTol_iff (a b : ℚ) :
    allcloseTol a b = true ↔ |a - b| ≤ 1 / 100000000 + 1 / 100000 * |b| := by
  unfold allcloseTol; rw [decide_eq_true_iff, rabs_eq_abs, rabs_eq_abs]

lemma iscloseTol_iff (a b : ℚ) :
    iscloseTol a b = true ↔ |a - b| ≤ 1 / 1000000000 * max |a| |b| := by
  unfold iscloseTol; rw [decide_eq_true_iff, rabs_eq_abs, rabs_eq_abs, rabs_eq_abs, rmax_eq_max]

end CuqiVerif.C10
