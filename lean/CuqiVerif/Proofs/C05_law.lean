import CuqiVerif.Proofs.C05
import Mathlib.Probability.Distributions.Gaussian.Multivariate
import Mathlib.MeasureTheory.Measure.Lebesgue.Basic
import Mathlib.MeasureTheory.Integral.Pi
import Mathlib.MeasureTheory.Function.JacobianOneDim
import Mathlib.MeasureTheory.Function.Jacobian
import Mathlib.Analysis.Calculus.Deriv.MeanValue
import Mathlib.Analysis.SpecialFunctions.ExpDeriv

/-!
# C05 — helper definitions and lemmas for the *law* theorems (`Props/C05_law.lean`)

`stdNormalVec ι` is the law of what `rng.randn(n)` returns (`n` independent standard normals);
`gaussDrawLaw m B` is the law of the draw `m + B ξ`; `gaussLogpdf` is `Gaussian.logpdf` as coded.
The lemmas are the measure-theoretic plumbing: affine change of variables for a measure with a density,
the product of one-dimensional densities, and the transfer between `ι → ℝ` and Mathlib's
`EuclideanSpace ℝ ι` (where `multivariateGaussian`, `charFun`, `covarianceBilin` live).
-/
namespace CuqiVerif.C05
open MeasureTheory ProbabilityTheory Matrix WithLp Real
open scoped ENNReal RealInnerProductSpace MatrixOrder

/-- the law of `rng.randn(n)`: `n` independent `N(0,1)` components -/
noncomputable def stdNormalVec (ι : Type*) [Fintype ι] : Measure (ι → ℝ) :=
  Measure.pi (fun _ => gaussianReal 0 1)

instance (ι : Type*) [Fintype ι] : IsProbabilityMeasure (stdNormalVec ι) := by
  unfold stdNormalVec; infer_instance

section
variable {ι : Type*} [Fintype ι]

/-- `Gaussian.logpdf` as coded: `-0.5*(rank*log(2π) + logdet) - 0.5*‖sqrtprec (x - mean)‖²`
(`rank = dim`; `logdet` is the number the constructor stored). -/
noncomputable def gaussLogpdf (logdet : ℝ) (m : ι → ℝ) (R : Matrix ι ι ℝ) (x : ι → ℝ) : ℝ :=
  -(1 / 2) * (Fintype.card ι * Real.log (2 * π) + logdet) + -(1 / 2) * ∑ i, (R *ᵥ (x - m)) i ^ 2

/-- `GMRF.logpdf` as coded:
`0.5*(rank*(log(prec) - log(2π)) + logdet) - 0.5*prec*((x-mean)ᵀ P (x-mean))` (`rank = dim` for zero BC) -/
noncomputable def gmrfLogpdf (logdetP δ : ℝ) (m : ι → ℝ) (P : Matrix ι ι ℝ) (x : ι → ℝ) : ℝ :=
  1 / 2 * (Fintype.card ι * (Real.log δ - Real.log (2 * π)) + logdetP)
    - 1 / 2 * (δ * ((x - m) ⬝ᵥ P *ᵥ (x - m)))

/-- the law of the draw `m + B ξ`, `ξ = rng.randn(n)` -/
noncomputable def gaussDrawLaw (m : ι → ℝ) (B : Matrix ι ι ℝ) : Measure (ι → ℝ) :=
  (stdNormalVec ι).map (fun ξ => m + B *ᵥ ξ)

lemma measurable_affine (m : ι → ℝ) (B : Matrix ι ι ℝ) : Measurable (fun ξ : ι → ℝ => m + B *ᵥ ξ) :=
  (continuous_const.add (Continuous.matrix_mulVec continuous_const continuous_id)).measurable

lemma measurable_affine_inv (m : ι → ℝ) (R : Matrix ι ι ℝ) : Measurable (fun y : ι → ℝ => R *ᵥ (y - m)) :=
  (Continuous.matrix_mulVec continuous_const (continuous_id.sub continuous_const)).measurable

instance (m : ι → ℝ) (B : Matrix ι ι ℝ) : IsProbabilityMeasure (gaussDrawLaw m B) :=
  Measure.isProbabilityMeasure_map (measurable_affine m B).aemeasurable

lemma continuous_gaussLogpdf (logdet : ℝ) (m : ι → ℝ) (R : Matrix ι ι ℝ) :
    Continuous (gaussLogpdf logdet m R) := by
  unfold gaussLogpdf
  exact continuous_const.add (continuous_const.mul (continuous_finsetSum _ fun i _ =>
    ((continuous_apply i).comp (Continuous.matrix_mulVec continuous_const
      (continuous_id.sub continuous_const))).pow 2))

/-- a non-negative continuous function whose `withDensity` measure is a probability measure is integrable -/
lemma integrable_of_withDensity_prob {α : Type*} [MeasurableSpace α] [TopologicalSpace α]
    [OpensMeasurableSpace α] (ν : Measure α) (f : α → ℝ) (hc : Continuous f) (h0 : ∀ x, 0 ≤ f x)
    (hp : IsProbabilityMeasure (ν.withDensity (fun x => ENNReal.ofReal (f x)))) : Integrable f ν := by
  refine ⟨hc.aestronglyMeasurable, ?_⟩
  rw [hasFiniteIntegral_iff_ofReal (ae_of_all _ h0)]
  have h1 := hp.measure_univ
  rw [withDensity_apply _ MeasurableSet.univ, Measure.restrict_univ] at h1
  rw [h1]; exact ENNReal.one_lt_top

/-! ### change of variables for a measure with a density -/

/-- If `g` has a measurable left inverse `g'` and scales `ν` to `c • ν'`, then the image under `g` of the
measure with density `f` w.r.t. `ν` has density `c · f ∘ g'` w.r.t. `ν'`. -/
lemma map_withDensity_of_map_eq_smul {α β : Type*} [MeasurableSpace α] [MeasurableSpace β]
    (ν : Measure α) (ν' : Measure β) (g : α → β) (g' : β → α) (hg : Measurable g)
    (hg' : Measurable g') (hgg' : ∀ x, g' (g x) = x) (c : ℝ≥0∞) (hmap : ν.map g = c • ν')
    (f : α → ℝ≥0∞) (hf : Measurable f) :
    (ν.withDensity f).map g = ν'.withDensity (fun y => c * f (g' y)) := by
  ext s hs
  rw [Measure.map_apply hg hs, withDensity_apply _ (hg hs), withDensity_apply _ hs,
    lintegral_const_mul (μ := ν'.restrict s) c (f := fun y => f (g' y)) (hf.comp hg'),
    ← smul_eq_mul, ← lintegral_smul_measure, ← Measure.restrict_smul, ← hmap,
    setLIntegral_map (f := fun y => f (g' y)) hs (hf.comp hg') hg]
  simp only [hgg']

/-- a product of one-dimensional densities is the density of the product measure -/
lemma pi_withDensity_ofReal (f : ι → ℝ → ℝ) (hf0 : ∀ i x, 0 ≤ f i x)
    (hint : ∀ i, Integrable (f i)) :
    Measure.pi (fun i => (volume : Measure ℝ).withDensity (fun x => ENNReal.ofReal (f i x)))
      = (volume : Measure (ι → ℝ)).withDensity (fun x => ENNReal.ofReal (∏ i, f i (x i))) := by
  have : ∀ i, IsFiniteMeasure ((volume : Measure ℝ).withDensity (fun x => ENNReal.ofReal (f i x))) :=
    fun i => isFiniteMeasure_withDensity_ofReal (hint i).2
  refine Measure.pi_eq fun s hs => ?_
  have h2s : MeasurableSet (Set.univ.pi s) := .pi Set.countable_univ fun i _ => hs i
  have hind : ∀ x : ι → ℝ, (Set.univ.pi s).indicator (fun x => ENNReal.ofReal (∏ i, f i (x i))) x
      = ENNReal.ofReal (∏ i, (s i).indicator (f i) (x i)) := by
    intro x
    by_cases hx : x ∈ Set.univ.pi s
    · rw [Set.indicator_of_mem hx]
      congr 1
      refine Finset.prod_congr rfl fun i _ => ?_
      rw [Set.indicator_of_mem (hx i (Set.mem_univ i))]
    · rw [Set.indicator_of_notMem hx]
      simp only [Set.mem_pi, Set.mem_univ, forall_true_left, not_forall] at hx
      obtain ⟨i, hi⟩ := hx
      rw [Finset.prod_eq_zero (Finset.mem_univ i) (Set.indicator_of_notMem hi _)]
      simp
  have hI : ∀ i, Integrable ((s i).indicator (f i)) := fun i => (hint i).indicator (hs i)
  have hnn : ∀ i x, 0 ≤ (s i).indicator (f i) x := fun i x => Set.indicator_nonneg (fun y _ => hf0 i y) x
  have hIp : Integrable (fun x : ι → ℝ => ∏ i, (s i).indicator (f i) (x i)) volume := by
    rw [volume_pi]; exact Integrable.fintype_prod hI
  rw [withDensity_apply _ h2s, ← lintegral_indicator h2s]
  simp_rw [hind]
  rw [← ofReal_integral_eq_lintegral_ofReal hIp
      (ae_of_all _ fun x => Finset.prod_nonneg fun i _ => hnn i (x i)),
    integral_fintype_prod_volume_eq_prod, ENNReal.ofReal_prod_of_nonneg (fun i _ => integral_nonneg (hnn i))]
  refine Finset.prod_congr rfl fun i _ => ?_
  rw [withDensity_apply _ (hs i), ← lintegral_indicator (hs i),
    ofReal_integral_eq_lintegral_ofReal (hI i) (ae_of_all _ (hnn i))]
  congr 1
  ext x
  by_cases hx : x ∈ s i <;> simp [hx]

/-- `rng.randn(n)` has the density `∏ᵢ φ(zᵢ)` w.r.t. Lebesgue measure on `ℝⁿ` -/
lemma stdNormalVec_eq_withDensity :
    stdNormalVec ι = (volume : Measure (ι → ℝ)).withDensity
      (fun z => ENNReal.ofReal (∏ i, gaussianPDFReal 0 1 (z i))) := by
  unfold stdNormalVec
  simp_rw [gaussianReal_of_var_ne_zero 0 one_ne_zero, gaussianPDF_def]
  exact pi_withDensity_ofReal (fun _ => gaussianPDFReal 0 1) (fun _ x => gaussianPDFReal_nonneg 0 1 x)
    (fun _ => integrable_gaussianPDFReal 0 1)

lemma prod_stdPdf (z : ι → ℝ) :
    ∏ i, gaussianPDFReal 0 1 (z i)
      = Real.exp (-(1 / 2) * (Fintype.card ι * Real.log (2 * π)) + -(1 / 2) * ∑ i, z i ^ 2) := by
  have h2 : (0:ℝ) < 2 * π := by positivity
  have hs : (√(2 * π))⁻¹ = Real.exp (-(1 / 2) * Real.log (2 * π)) := by
    rw [← Real.exp_log (inv_pos.mpr (Real.sqrt_pos.mpr h2)), Real.log_inv, Real.log_sqrt h2.le]
    congr 1; ring
  simp only [gaussianPDFReal, NNReal.coe_one, mul_one, sub_zero]
  rw [Finset.prod_mul_distrib, Finset.prod_const, hs, ← Real.exp_nat_mul, ← Real.exp_sum,
    ← Real.exp_add, Finset.card_univ]
  congr 1
  rw [Finset.mul_sum]
  congr 1
  · ring
  · refine Finset.sum_congr rfl fun i _ => ?_
    ring

end

section
variable {ι : Type*} [Fintype ι] [DecidableEq ι]

/-- `exp(Gaussian.logpdf)` = `|det R| · ∏ᵢ φ((R(x-m))ᵢ)` when `logdet` is the log-determinant of the covariance -/
lemma exp_gaussLogpdf (logdet : ℝ) (m : ι → ℝ) (R : Matrix ι ι ℝ) (x : ι → ℝ)
    (hdet : R.det ≠ 0) (hlog : logdet = -Real.log ((Rᵀ * R).det)) :
    Real.exp (gaussLogpdf logdet m R x)
      = |R.det| * ∏ i, gaussianPDFReal 0 1 ((R *ᵥ (x - m)) i) := by
  have h1 : (Rᵀ * R).det = |R.det| ^ 2 := by
    rw [det_mul, det_transpose, sq_abs]; ring
  have hpos : 0 < |R.det| := abs_pos.mpr hdet
  rw [prod_stdPdf, hlog, h1, Real.log_pow]
  conv_rhs => rw [← Real.exp_log hpos, ← Real.exp_add]
  congr 1
  unfold gaussLogpdf
  push_cast
  ring

/-- Lebesgue measure under `ξ ↦ m + B ξ` (with `R B = 1`) is `|det R|` times Lebesgue measure -/
lemma volume_map_affine (m : ι → ℝ) (R B : Matrix ι ι ℝ) (h : R * B = 1) :
    (volume : Measure (ι → ℝ)).map (fun ξ => m + B *ᵥ ξ) = ENNReal.ofReal |R.det| • volume := by
  have hdet : R.det * B.det = 1 := by rw [← det_mul, h, det_one]
  have hB : B.det ≠ 0 := right_ne_zero_of_mul_eq_one hdet
  have hinv : |B.det|⁻¹ = |R.det| := by
    rw [← abs_inv]; congr 1; exact (eq_inv_of_mul_eq_one_left hdet).symm
  have hcomp : (fun ξ : ι → ℝ => m + B *ᵥ ξ) = (fun x => m + x) ∘ (toLin' B) := by
    ext ξ; simp
  have hmeas : Measurable (toLin' B) := (LinearMap.continuous_on_pi _).measurable
  rw [hcomp, ← Measure.map_map (measurable_const_add m) hmeas,
    Real.map_matrix_volume_pi_eq_smul_volume_pi hB, Measure.map_smul, map_add_left_eq_self,
    abs_inv, hinv]

/-! ### transfer to `EuclideanSpace` -/

/-- the affine image of Mathlib's standard Gaussian is Mathlib's multivariate Gaussian with covariance `B Bᵀ`
(for every square `B`, no symmetry or invertibility needed) -/
lemma affine_stdGaussian_eq (c : EuclideanSpace ℝ ι) (B : Matrix ι ι ℝ) :
    (stdGaussian (EuclideanSpace ℝ ι)).map (fun x ↦ c + toEuclideanCLM (𝕜 := ℝ) B x)
      = multivariateGaussian c (B * Bᵀ) := by
  have hpsd : (B * Bᵀ).PosSemidef := by
    simpa using Matrix.posSemidef_self_mul_conjTranspose B
  have h : (fun x ↦ c + (toEuclideanCLM (𝕜 := ℝ) B) x) =
    (fun x ↦ c + x) ∘ ((toEuclideanCLM (𝕜 := ℝ) B)) := rfl
  have hG : IsGaussian ((stdGaussian (EuclideanSpace ℝ ι)).map
      (fun x ↦ c + toEuclideanCLM (𝕜 := ℝ) B x)) := by
    rw [h, ← Measure.map_map (measurable_const_add c) (by fun_prop)]
    infer_instance
  apply IsGaussian.ext
  · rw [integral_id_multivariateGaussian', integral_map (by fun_prop) (by fun_prop)]
    simp only [id]
    rw [integral_add (integrable_const _), integral_const]
    · simp [ContinuousLinearMap.integral_comp_comm _ IsGaussian.integrable_fun_id]
    · exact IsGaussian.integrable_id.comp_measurable (by fun_prop)
  · ext x y
    rw [covarianceBilin_multivariateGaussian hpsd, h,
      ← Measure.map_map (measurable_const_add c) (by fun_prop), covarianceBilin_map_const_add,
      covarianceBilin_map, covarianceBilin_stdGaussian, innerSL_apply_apply,
      ContinuousLinearMap.adjoint_inner_left, ← ContinuousLinearMap.comp_apply]
    · rw [← ContinuousLinearMap.star_eq_adjoint, ← map_star, ← ContinuousLinearMap.mul_def, ← map_mul,
        inner_toEuclideanCLM, Matrix.star_eq_conjTranspose, conjTranspose_eq_transpose_of_trivial]
    · exact IsGaussian.memLp_two_id

omit [DecidableEq ι] in
lemma posSemidef_mul_transpose (B : Matrix ι ι ℝ) : (B * Bᵀ).PosSemidef := by
  simpa using Matrix.posSemidef_self_mul_conjTranspose B

/-- the draw law, read in `EuclideanSpace`, is `multivariateGaussian m (B Bᵀ)` -/
lemma gaussDrawLaw_map_toLp (m : ι → ℝ) (B : Matrix ι ι ℝ) :
    (gaussDrawLaw m B).map (toLp 2) = multivariateGaussian (toLp 2 m) (B * Bᵀ) := by
  rw [← affine_stdGaussian_eq, ← map_pi_eq_stdGaussian, gaussDrawLaw, stdNormalVec,
    Measure.map_map (by fun_prop) (measurable_affine m B), Measure.map_map (by fun_prop) (by fun_prop)]
  congr 1

/-- … and back: the draw law is the image of `multivariateGaussian m (B Bᵀ)` under `ofLp` -/
lemma gaussDrawLaw_eq_map_ofLp (m : ι → ℝ) (B : Matrix ι ι ℝ) :
    gaussDrawLaw m B = (multivariateGaussian (toLp 2 m) (B * Bᵀ)).map ofLp := by
  rw [← gaussDrawLaw_map_toLp, Measure.map_map (by fun_prop) (by fun_prop),
    show (ofLp ∘ toLp 2 : (ι → ℝ) → ι → ℝ) = id from rfl, Measure.map_id]

/-- law of a linear functional of a multivariate Gaussian -/
lemma mvg_map_inner (c : EuclideanSpace ℝ ι) {S : Matrix ι ι ℝ} (hS : S.PosSemidef)
    (t : EuclideanSpace ℝ ι) :
    (multivariateGaussian c S).map (fun x => ⟪t, x⟫)
      = gaussianReal ⟪t, c⟫ (t.ofLp ⬝ᵥ S *ᵥ t.ofLp).toNNReal := by
  have h := IsGaussian.map_eq_gaussianReal (μ := multivariateGaussian c S) (innerSL ℝ t)
  have hm : (multivariateGaussian c S)[innerSL ℝ t] = ⟪t, c⟫ := by
    rw [(innerSL ℝ t).integral_comp_id_comm IsGaussian.integrable_id,
      integral_id_multivariateGaussian, innerSL_apply_apply]
  have hv : Var[innerSL ℝ t; multivariateGaussian c S] = t.ofLp ⬝ᵥ S *ᵥ t.ofLp := by
    rw [← covarianceBilin_multivariateGaussian (μ := c) hS t t,
      covarianceBilin_self IsGaussian.memLp_two_id]
    rfl
  rw [hm, hv] at h
  exact h

end

lemma dot_eq_inner {ι : Type*} [Fintype ι] (t x : ι → ℝ) : t ⬝ᵥ x = ⟪toLp 2 t, toLp 2 x⟫ := by
  rw [EuclideanSpace.inner_toLp_toLp]; simp [dotProduct_comm]

/-! ### one dimension: scale–location push-forward of a density -/

/-- the standard Laplace law: density `exp(-|z|)/2` (numpy's documented law of `laplace(0, 1)`) -/
noncomputable def laplaceStd : Measure ℝ :=
  (volume : Measure ℝ).withDensity (fun z => ENNReal.ofReal (1 / 2 * Real.exp (-|z|)))

/-- Lebesgue measure on `ℝ` under `z ↦ l + s z` -/
lemma volume_map_scale_loc (l s : ℝ) (hs : s ≠ 0) :
    (volume : Measure ℝ).map (fun z => l + s * z) = ENNReal.ofReal |s|⁻¹ • volume := by
  have hcomp : (fun z : ℝ => l + s * z) = (fun x => l + x) ∘ (fun z => s * z) := rfl
  rw [hcomp, ← Measure.map_map (measurable_const_add l) (measurable_const_mul s),
    Real.map_volume_mul_left hs, Measure.map_smul, map_add_left_eq_self, abs_inv]

/-- **scale–location rule**: if `Z` has density `f`, then `l + s Z` has density `x ↦ f((x-l)/s)/|s|` -/
lemma map_scale_loc_withDensity (l s : ℝ) (hs : s ≠ 0) (f : ℝ → ℝ≥0∞) (hf : Measurable f) :
    ((volume : Measure ℝ).withDensity f).map (fun z => l + s * z)
      = (volume : Measure ℝ).withDensity (fun x => ENNReal.ofReal |s|⁻¹ * f ((x - l) / s)) := by
  refine map_withDensity_of_map_eq_smul volume volume _ (fun x => (x - l) / s)
    ((measurable_const_mul s).const_add l) ((measurable_id.sub_const l).div_const s) ?_ _
    (volume_map_scale_loc l s hs) f hf
  intro x
  field_simp
  ring

/-! ### exponential change of variables (Lognormal) -/

section Vexp
open Set
variable {ι : Type*}

/-- componentwise exponential (`np.exp` of a vector) -/
noncomputable def vexp (y : ι → ℝ) : ι → ℝ := fun i => Real.exp (y i)
/-- componentwise logarithm (`np.log` of a vector) -/
noncomputable def vlog (x : ι → ℝ) : ι → ℝ := fun i => Real.log (x i)

lemma vexp_injective : Function.Injective (vexp (ι := ι)) := by
  intro a b h
  ext i
  exact Real.exp_injective (congrFun h i)

lemma vlog_vexp (y : ι → ℝ) : vlog (vexp y) = y := by
  ext i; simp [vlog, vexp]

lemma measurable_vexp : Measurable (vexp (ι := ι)) := by
  unfold vexp; fun_prop

lemma vexp_image (A : Set (ι → ℝ)) : vexp '' (vexp ⁻¹' A) = A ∩ {x | ∀ i, 0 < x i} := by
  ext x
  constructor
  · rintro ⟨y, hy, rfl⟩
    exact ⟨hy, fun i => Real.exp_pos _⟩
  · rintro ⟨hx, hpos⟩
    refine ⟨vlog x, ?_, ?_⟩
    · have : vexp (vlog x) = x := by ext i; simp [vexp, vlog, Real.exp_log (hpos i)]
      simpa [this] using hx
    · ext i; simp [vexp, vlog, Real.exp_log (hpos i)]

variable [Fintype ι]

/-- derivative of the componentwise exponential: the diagonal map `diag(exp yᵢ)` -/
noncomputable def vexpDeriv (y : ι → ℝ) : (ι → ℝ) →L[ℝ] (ι → ℝ) :=
  ContinuousLinearMap.pi fun i => Real.exp (y i) • ContinuousLinearMap.proj i

lemma vexp_hasFDerivAt (y : ι → ℝ) : HasFDerivAt (vexp (ι := ι)) (vexpDeriv y) y := by
  refine hasFDerivAt_pi.mpr fun i => ?_
  exact (hasFDerivAt_apply i y).exp

lemma vexpDeriv_det [DecidableEq ι] (y : ι → ℝ) : (vexpDeriv y).det = ∏ i, Real.exp (y i) := by
  have : ((vexpDeriv y : (ι → ℝ) →L[ℝ] (ι → ℝ)) : (ι → ℝ) →ₗ[ℝ] (ι → ℝ))
      = Matrix.toLin' (Matrix.diagonal fun i => Real.exp (y i)) := by
    ext v i
    simp [vexpDeriv, mulVec_diagonal]
  rw [ContinuousLinearMap.det, this, LinearMap.det_toLin', det_diagonal]

/-- **exponential change of variables**: if `Y` has density `g` on `ℝⁿ`, then `exp(Y)` (componentwise) has
density `g(log x)·∏ᵢ 1/xᵢ` on the positive orthant and `0` elsewhere. -/
lemma map_vexp_withDensity [DecidableEq ι] (g : (ι → ℝ) → ℝ≥0∞) :
    ((volume : Measure (ι → ℝ)).withDensity g).map vexp
      = (volume : Measure (ι → ℝ)).withDensity
          (fun x => {x : ι → ℝ | ∀ i, 0 < x i}.indicator
            (fun x => g (vlog x) * ENNReal.ofReal (∏ i, (x i)⁻¹)) x) := by
  have hO : MeasurableSet {x : ι → ℝ | ∀ i, 0 < x i} := by
    have : {x : ι → ℝ | ∀ i, 0 < x i} = ⋂ i, (fun x : ι → ℝ => x i) ⁻¹' Ioi 0 := by
      ext x; simp
    rw [this]
    exact MeasurableSet.iInter fun i => (measurable_pi_apply i) measurableSet_Ioi
  ext A hA
  have hs : MeasurableSet (vexp ⁻¹' A) := measurable_vexp hA
  rw [Measure.map_apply measurable_vexp hA, withDensity_apply _ hs, withDensity_apply _ hA,
    setLIntegral_indicator hO, Set.inter_comm, ← vexp_image A,
    lintegral_image_eq_lintegral_abs_det_fderiv_mul volume hs
      (fun y _ => (vexp_hasFDerivAt y).hasFDerivWithinAt) vexp_injective.injOn]
  refine lintegral_congr fun y => ?_
  have hpos : 0 < ∏ i, Real.exp (y i) := Finset.prod_pos fun i _ => Real.exp_pos _
  rw [vexpDeriv_det, vlog_vexp, abs_of_pos hpos, mul_comm (g y), ← mul_assoc,
    ← ENNReal.ofReal_mul hpos.le]
  have : (∏ i, Real.exp (y i)) * ∏ i, (vexp y i)⁻¹ = 1 := by
    rw [← Finset.prod_mul_distrib]
    exact Finset.prod_eq_one fun i _ => mul_inv_cancel₀ (Real.exp_pos _).ne'
  rw [this, ENNReal.ofReal_one, one_mul]

/-- `Lognormal.pdf` as coded: `0` if `np.any(x <= 0)`, else `normal.pdf(log x) * prod(1/x)` with
`normal.pdf = exp(Gaussian.logpdf)` -/
noncomputable def lognormalPdf (logdet : ℝ) (m : ι → ℝ) (R : Matrix ι ι ℝ) (x : ι → ℝ) : ℝ :=
  if ∀ i, 0 < x i then Real.exp (gaussLogpdf logdet m R (vlog x)) * ∏ i, 1 / x i else 0

end Vexp

/-- the non-vacuity instance used by the examples: a lower-triangular, non-symmetric `R` and its inverse -/
lemma rb2_inst : (!![1, 0; 1, 1] : Matrix (Fin 2) (Fin 2) ℝ) * !![1, 0; -1, 1] = 1 := by
  ext i j; fin_cases i <;> fin_cases j <;> simp [Matrix.mul_apply, Fin.sum_univ_two]

/-! ### inverse-cdf sampling -/

section InverseCdf
open Set

/-- **inverse-cdf sampling**: if `F` is differentiable with derivative `p ≥ 0`, takes values in `(0,1)`, and
`G` inverts it (`G (F x) = x`, `F (G u) = u` on `(0,1)`), then `G U` for `U` uniform on `[0,1)` has density `p`. -/
lemma inverse_cdf_law (F p G : ℝ → ℝ) (hF' : ∀ x, HasDerivAt F (p x) x) (hp : ∀ x, 0 ≤ p x)
    (hG : Measurable G) (hGF : ∀ x, G (F x) = x) (hF01 : ∀ x, F x ∈ Ioo (0:ℝ) 1)
    (hFG : ∀ u ∈ Ioo (0:ℝ) 1, F (G u) = u) :
    ((volume : Measure ℝ).restrict (Ico 0 1)).map G
      = (volume : Measure ℝ).withDensity (fun x => ENNReal.ofReal (p x)) := by
  have hmono : Monotone F := monotone_of_hasDerivAt_nonneg hF' hp
  rw [← Measure.restrict_congr_set (Ioo_ae_eq_Ico (μ := (volume : Measure ℝ)) (a := 0) (b := 1))]
  ext A hA
  have himg : G ⁻¹' A ∩ Ioo (0:ℝ) 1 = F '' A := by
    ext u
    constructor
    · rintro ⟨hu1, hu2⟩
      exact ⟨G u, hu1, hFG u hu2⟩
    · rintro ⟨x, hx, rfl⟩
      exact ⟨by simpa [hGF x] using hx, hF01 x⟩
  rw [Measure.map_apply hG hA, Measure.restrict_apply (hG hA), himg, withDensity_apply _ hA,
    lintegral_deriv_eq_volume_image_of_monotoneOn hA (fun x _ => (hF' x).hasDerivWithinAt)
      (hmono.monotoneOn _)]

/-- cdf of the standard Laplace law -/
noncomputable def laplaceCdf (x : ℝ) : ℝ := if x < 0 then Real.exp x / 2 else 1 - Real.exp (-x) / 2

/-- numpy's `random_laplace` for `loc = 0`, `scale = 1`, as a function of the uniform variate `U`:
`U >= 0.5 ? -log(2 - U - U) : log(U + U)` -/
noncomputable def laplaceQuantile (u : ℝ) : ℝ :=
  if 1 / 2 ≤ u then -Real.log (2 - u - u) else Real.log (u + u)

lemma laplaceCdf_hasDerivAt (x : ℝ) : HasDerivAt laplaceCdf (1 / 2 * Real.exp (-|x|)) x := by
  have hL : ∀ y : ℝ, HasDerivAt (fun y => Real.exp y / 2) (Real.exp y / 2) y :=
    fun y => (Real.hasDerivAt_exp y).div_const 2
  have hR : ∀ y : ℝ, HasDerivAt (fun y => 1 - Real.exp (-y) / 2) (Real.exp (-y) / 2) y := by
    intro y
    have h := ((Real.hasDerivAt_exp (-y)).comp y (hasDerivAt_neg y)).div_const 2 |>.const_sub 1
    exact h.congr_deriv (by ring)
  rcases lt_trichotomy x 0 with hx | hx | hx
  · have : laplaceCdf =ᶠ[nhds x] fun y => Real.exp y / 2 := by
      filter_upwards [Iio_mem_nhds hx] with y hy
      simp [laplaceCdf, mem_Iio.mp hy]
    rw [abs_of_neg hx, neg_neg]
    exact ((hL x).congr_of_eventuallyEq this).congr_deriv (by ring)
  · subst hx
    rw [abs_zero, neg_zero, Real.exp_zero]
    have h1 : HasDerivWithinAt laplaceCdf (1 / 2 * 1) (Iic 0) 0 := by
      have := (hL 0).hasDerivWithinAt (s := Iic 0)
      rw [Real.exp_zero] at this
      refine (this.congr (fun y hy => ?_) ?_).congr_deriv (by ring)
      · rcases (mem_Iic.mp hy).lt_or_eq with h | h
        · simp [laplaceCdf, h]
        · subst h; simp [laplaceCdf]; norm_num
      · simp [laplaceCdf]; norm_num
    have h2 : HasDerivWithinAt laplaceCdf (1 / 2 * 1) (Ici 0) 0 := by
      have := (hR 0).hasDerivWithinAt (s := Ici 0)
      rw [neg_zero, Real.exp_zero] at this
      refine (this.congr (fun y hy => ?_) ?_).congr_deriv (by ring)
      · simp [laplaceCdf, not_lt.mpr (mem_Ici.mp hy)]
      · simp [laplaceCdf]
    have := h1.union h2
    rwa [Iic_union_Ici, hasDerivWithinAt_univ] at this
  · have : laplaceCdf =ᶠ[nhds x] fun y => 1 - Real.exp (-y) / 2 := by
      filter_upwards [Ioi_mem_nhds hx] with y hy
      simp [laplaceCdf, not_lt.mpr (le_of_lt (mem_Ioi.mp hy))]
    rw [abs_of_pos hx]
    exact ((hR x).congr_of_eventuallyEq this).congr_deriv (by ring)

lemma laplaceCdf_mem (x : ℝ) : laplaceCdf x ∈ Ioo (0:ℝ) 1 := by
  unfold laplaceCdf
  split_ifs with h
  · have : Real.exp x < 1 := by rw [← Real.exp_zero]; exact Real.exp_lt_exp.mpr h
    exact ⟨by positivity, by linarith [Real.exp_pos x]⟩
  · have : Real.exp (-x) ≤ 1 := by rw [← Real.exp_zero]; exact Real.exp_le_exp.mpr (by linarith)
    exact ⟨by linarith, by linarith [Real.exp_pos (-x)]⟩

lemma laplaceQuantile_cdf (x : ℝ) : laplaceQuantile (laplaceCdf x) = x := by
  unfold laplaceCdf
  split_ifs with h
  · have h1 : Real.exp x < 1 := by rw [← Real.exp_zero]; exact Real.exp_lt_exp.mpr h
    have : ¬ (1 / 2 ≤ Real.exp x / 2) := by linarith
    rw [laplaceQuantile, if_neg this, ← two_mul, mul_div_cancel₀ _ two_ne_zero, Real.log_exp]
  · have h1 : Real.exp (-x) ≤ 1 := by rw [← Real.exp_zero]; exact Real.exp_le_exp.mpr (by linarith)
    have : (1 / 2 : ℝ) ≤ 1 - Real.exp (-x) / 2 := by linarith
    rw [laplaceQuantile, if_pos this]
    have : 2 - (1 - Real.exp (-x) / 2) - (1 - Real.exp (-x) / 2) = Real.exp (-x) := by ring
    rw [this, Real.log_exp, neg_neg]

lemma laplaceCdf_quantile (u : ℝ) (hu : u ∈ Ioo (0:ℝ) 1) : laplaceCdf (laplaceQuantile u) = u := by
  obtain ⟨h0, h1⟩ := hu
  unfold laplaceQuantile
  split_ifs with h
  · have hpos : 0 < 2 - u - u := by linarith
    have hle : Real.log (2 - u - u) ≤ 0 := Real.log_nonpos hpos.le (by linarith)
    have : ¬ (-Real.log (2 - u - u) < 0) := by linarith
    rw [laplaceCdf, if_neg this, neg_neg, Real.exp_log hpos]; ring
  · have hpos : 0 < u + u := by linarith
    have : Real.log (u + u) < 0 := Real.log_neg hpos (by linarith)
    rw [laplaceCdf, if_pos this, Real.exp_log hpos]; ring

lemma measurable_laplaceQuantile : Measurable laplaceQuantile := by
  unfold laplaceQuantile
  exact Measurable.ite (measurableSet_le measurable_const measurable_id) (by fun_prop) (by fun_prop)

end InverseCdf

end CuqiVerif.C05
