import CuqiVerif.Model.C07_psf
import CuqiVerif.Proofs.C07
import Mathlib.Algebra.BigOperators.Group.Finset.Basic
import Mathlib.Algebra.BigOperators.Ring.Finset
import Mathlib.Algebra.BigOperators.Field
import Mathlib.Algebra.Field.Basic
import Mathlib.Algebra.Field.Rat
import Mathlib.Algebra.Order.Field.Rat
import Mathlib.Algebra.Order.BigOperators.Group.Finset
import Mathlib.Tactic.Ring
import Mathlib.Tactic.Linarith
import Mathlib.Tactic.NormNum
import Mathlib.Tactic.Positivity

/-!
# C07 — helper lemmas for the named PSFs (`Model/C07_psf.lean`)
-/
open Finset

set_option linter.unusedSectionVars false
set_option linter.unusedVariables false

namespace CuqiVerif.C07

lemma half_odd (k : ℕ) : (2 * k + 1) / 2 = k := by omega

/-- the grid `arange(-fix(s/2), ceil(s/2))` of an odd size is antisymmetric under index reversal -/
lemma psfOffset_reverse (k a : ℕ) (ha : a < 2 * k + 1) :
    psfOffset (2 * k + 1) (2 * k + 1 - 1 - a) = - psfOffset (2 * k + 1) a := by
  unfold psfOffset
  rw [half_odd]
  omega

lemma psfSq_reverse (k a : ℕ) (ha : a < 2 * k + 1) :
    psfSq (2 * k + 1) (2 * k + 1 - 1 - a) = psfSq (2 * k + 1) a := by
  unfold psfSq
  rw [psfOffset_reverse k a ha, Int.natAbs_neg]

/-- the centre pixel `⌊s/2⌋` has offset 0 -/
lemma psfSq_centre (s : ℕ) : psfSq s (s / 2) = 0 := by
  unfold psfSq psfOffset
  simp

section field
variable {K : Type} [Field K]

lemma sum2_eq_sum (s : ℕ) (w : ℕ → ℕ → K) : sum2 s w = ∑ a ∈ range s, ∑ b ∈ range s, w a b := by
  unfold sum2
  rw [sumTo_eq_sum]
  exact Finset.sum_congr rfl fun a _ => sumTo_eq_sum _ _

lemma normalize1_sum (s : ℕ) (w : ℕ → K) (h : sumTo s w ≠ 0) : ∑ a ∈ range s, normalize1 s w a = 1 := by
  unfold normalize1
  rw [← Finset.sum_div, ← sumTo_eq_sum, div_self h]

lemma normalize2_sum (s : ℕ) (w : ℕ → ℕ → K) (h : sum2 s w ≠ 0) :
    ∑ a ∈ range s, ∑ b ∈ range s, normalize2 s w a b = 1 := by
  unfold normalize2
  simp_rw [← Finset.sum_div]
  rw [← sum2_eq_sum, div_self h]

end field

/-! ### Defocus: the support is centred one pixel off -/

lemma defocusOff_mid (k d : ℕ) : defocusOff (2 * k + 1) (k + d) = (d : ℤ) + 1 := by
  unfold defocusOff; rw [half_odd]; omega

lemma defocusOff_mid_rev (k d : ℕ) (hd : d ≤ k) : defocusOff (2 * k + 1) (k - d) = 1 - (d : ℤ) := by
  unfold defocusOff; rw [half_odd]; omega

lemma defocusIn1_iff (s : ℕ) (p2 : ℚ) (a : ℕ) :
    defocusIn1 s p2 a = true ↔ (((defocusOff s a) * (defocusOff s a) : ℤ) : ℚ) ≤ p2 := by
  unfold defocusIn1; simp

/-- symmetric support forces `(d+1)² ≤ p²` for every `1 ≤ d ≤ k` -/
lemma defocus_chain (k : ℕ) (p2 : ℚ) (h0 : 0 ≤ p2)
    (hs : ∀ a, a < 2 * k + 1 → defocusIn1 (2 * k + 1) p2 (2 * k + 1 - 1 - a) = defocusIn1 (2 * k + 1) p2 a) :
    ∀ d : ℕ, 1 ≤ d → d ≤ k → (((d : ℚ) + 1) * ((d : ℚ) + 1)) ≤ p2 := by
  intro d
  induction d with
  | zero => intro h; omega
  | succ d ih =>
    intro _ hdk
    -- `(d)² ≤ p²`
    have hprev : ((d : ℚ) * (d : ℚ)) ≤ p2 := by
      rcases Nat.eq_zero_or_pos d with rfl | hpos
      · simpa using h0
      · have := ih hpos (by omega)
        have hd0 : (0 : ℚ) ≤ d := by positivity
        nlinarith
    -- symmetry at `a = k + (d+1)`, whose mirror image is `k − (d+1)`
    have hsym := hs (k + (d + 1)) (by omega)
    have hidx : 2 * k + 1 - 1 - (k + (d + 1)) = k - (d + 1) := by omega
    rw [hidx] at hsym
    have hrev : defocusIn1 (2 * k + 1) p2 (k - (d + 1)) = true := by
      rw [defocusIn1_iff, defocusOff_mid_rev k (d + 1) hdk]
      push_cast
      have : (1 - ((d : ℚ) + 1)) * (1 - ((d : ℚ) + 1)) = (d : ℚ) * d := by ring
      rw [this]; exact hprev
    rw [hrev] at hsym
    have := (defocusIn1_iff _ _ _).mp hsym.symm
    rw [defocusOff_mid] at this
    push_cast at this ⊢
    exact this

end CuqiVerif.C07
