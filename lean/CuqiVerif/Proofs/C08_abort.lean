import CuqiVerif.Model.C08_abort
import CuqiVerif.Props.C08

/-!
# C08 — helper lemmas for `Props/C08_abort.lean` (interrupted transitions)
-/
namespace CuqiVerif.C08
variable {Z : Type}

/-- one iteration of the doubling loop keeps "the current point is a start/leapfrog output that passed the guard" -/
lemma loopBody_cur_inv (c : Ctx Z) (guard : Z → Bool) (P : Z → Prop) (hstep : ∀ v z, P (c.step v z))
    (st : Loop Z) (h0 : P st.cur ∧ guard st.cur = true) :
    P (loopBody c guard st).cur ∧ guard (loopBody c guard st).cur = true := by
  simp only [loopBody]
  generalize hb : buildTree c (if (popU st.us).1 < 1 / 2 then 1 else -1) st.j
    (if (if (popU st.us).1 < 1 / 2 then (1:Int) else -1) = -1 then st.zminus else st.zplus) (popU st.us).2 = b
  obtain ⟨t, us1⟩ := b
  have hc : P t.cand := by
    have hm := cand_mem_leaves c (if (popU st.us).1 < 1 / 2 then 1 else -1) st.j
      (if (if (popU st.us).1 < 1 / 2 then (1:Int) else -1) = -1 then st.zminus else st.zplus) (popU st.us).2
    have := leaves_forall c P hstep _ _ _ _ _ hm
    rw [hb] at this; exact this
  simp only
  by_cases hts : t.s = true
  · simp only [hts, if_true]
    by_cases hacc : (decide ((popU us1).1 * (st.n : Rat) < (t.n : Rat)) && decide ((popU us1).1 < 1) && guard t.cand) = true
    · simp only [hacc, if_true]
      simp only [Bool.and_eq_true] at hacc
      exact ⟨hc, hacc.2⟩
    · simp only [hacc]; exact h0
  · simp only [hts]; exact h0

lemma loopBody_last_ne_nil' (c : Ctx Z) (guard : Z → Bool) (st : Loop Z) : (loopBody c guard st).last ≠ [] := by
  simp only [loopBody]
  generalize popU st.us = p
  obtain ⟨ud, us0⟩ := p
  simp only
  intro h
  have := (buildTree_inv c (if ud < 1/2 then 1 else -1) st.j
    (if (if ud < 1/2 then (1:Int) else -1) = -1 then st.zminus else st.zplus) us0).len_pos
  rw [h] at this
  simp at this

lemma abortLoop_cur_inv (c : Ctx Z) (guard : Z → Bool) (P : Z → Prop) (hstep : ∀ v z, P (c.step v z))
    (md fuel k : Nat) (st r : Loop Z) (h0 : P st.cur ∧ guard st.cur = true)
    (h : abortLoop c guard md fuel k st = some r) : P r.cur ∧ guard r.cur = true := by
  induction fuel generalizing st k with
  | zero => simp [abortLoop] at h
  | succ fuel ih =>
    simp only [abortLoop] at h
    split at h
    · split at h
      · cases h; exact h0
      · exact ih _ _ (loopBody_cur_inv c guard P hstep st h0) h
    · cases h

/-- the abort state is reached from `st` by `m` complete iterations, each entered with `s = 1`, `j ≤ max_depth`; the
    `k`-th evaluation falls into iteration `m` (more than `k - 1` ... at most `k` leaves before its end) -/
lemma abortLoop_iterate (c : Ctx Z) (guard : Z → Bool) (md fuel k : Nat) (st r : Loop Z) (hk : 0 < k)
    (h : abortLoop c guard md fuel k st = some r) :
    ∃ m, m < fuel ∧ r = (loopBody c guard)^[m] st ∧ (r.s && decide (r.j ≤ md)) = true ∧
      ((List.range m).map (fun i => (loopBody c guard ((loopBody c guard)^[i] st)).last.length)).sum < k ∧
      k ≤ ((List.range m).map (fun i => (loopBody c guard ((loopBody c guard)^[i] st)).last.length)).sum
            + (loopBody c guard r).last.length := by
  induction fuel generalizing st k with
  | zero => simp [abortLoop] at h
  | succ fuel ih =>
    simp only [abortLoop] at h
    by_cases hc : (st.s && decide (st.j ≤ md)) = true
    · simp only [hc, if_true] at h
      by_cases hle : k ≤ (loopBody c guard st).last.length
      · simp only [hle, if_true] at h
        cases h
        exact ⟨0, by omega, rfl, hc, by simpa using hk, by simpa using hle⟩
      · simp only [hle, if_false] at h
        obtain ⟨m, hm, hr, hcond, h1, h2⟩ := ih _ _ (by omega) h
        have hsum : ((List.range (m + 1)).map (fun i => (loopBody c guard ((loopBody c guard)^[i] st)).last.length)).sum
            = (loopBody c guard st).last.length + ((List.range m).map
              (fun i => (loopBody c guard ((loopBody c guard)^[i] (loopBody c guard st))).last.length)).sum := by
          rw [List.range_succ_eq_map, List.map_cons, List.sum_cons, List.map_map]
          rfl
        refine ⟨m + 1, by omega, ?_, hcond, ?_, ?_⟩
        · rw [hr]; rfl
        · rw [hsum]; omega
        · rw [hsum]; omega
    · simp [hc] at h

end CuqiVerif.C08
