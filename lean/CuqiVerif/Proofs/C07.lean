import CuqiVerif.Model.C07
import Mathlib.Algebra.BigOperators.Group.Finset.Basic
import Mathlib.Algebra.BigOperators.Ring.Finset
import Mathlib.Algebra.BigOperators.Intervals
import Mathlib.Tactic.Ring
import Mathlib.Tactic.Linarith
import Mathlib.Tactic.NormNum

/-!
# C07 — helper lemmas (sums, matrix products, the adjoint criterion)
All statements are about the executable definitions of `CuqiVerif/Model/C07.lean`, instantiated
at an arbitrary commutative ring `R` (the driver runs `R = Rat`).
-/
open Finset

set_option linter.unusedSectionVars false
set_option linter.unusedVariables false

namespace CuqiVerif.C07

variable {R : Type} [CommRing R]

lemma sumTo_eq_sum (n : ℕ) (f : ℕ → R) : sumTo n f = ∑ k ∈ range n, f k := by
  induction n with
  | zero => simp [sumTo]
  | succ n ih => simp [sumTo, ih, Finset.sum_range_succ]

lemma apply_eq (M : LMat R) (x : ℕ → R) (i : ℕ) :
    M.apply x i = ∑ j ∈ range M.cols, M.e i j * x j := by
  simp [LMat.apply, sumTo_eq_sum]

lemma ip_eq (n : ℕ) (x y : ℕ → R) : ip n x y = ∑ i ∈ range n, x i * y i := by
  simp [ip, sumTo_eq_sum]

lemma mul_e (A B : LMat R) (i j : ℕ) :
    (A.mul B).e i j = ∑ k ∈ range A.cols, A.e i k * B.e k j := by
  simp [LMat.mul, sumTo_eq_sum]

@[simp] lemma mul_rows (A B : LMat R) : (A.mul B).rows = A.rows := rfl
@[simp] lemma mul_cols (A B : LMat R) : (A.mul B).cols = B.cols := rfl
@[simp] lemma transpose_rows (A : LMat R) : A.transpose.rows = A.cols := rfl
@[simp] lemma transpose_cols (A : LMat R) : A.transpose.cols = A.rows := rfl
@[simp] lemma transpose_e (A : LMat R) (i j : ℕ) : A.transpose.e i j = A.e j i := rfl

lemma sum_mul_unit (n i : ℕ) (f : ℕ → R) (hi : i < n) :
    ∑ k ∈ range n, f k * unit i k = f i := by
  simp [unit, hi]

lemma sum_unit_mul (n i : ℕ) (f : ℕ → R) (hi : i < n) :
    ∑ k ∈ range n, unit i k * f k = f i := by
  simp [unit, hi]

/-- the product matrix acts as the composition -/
lemma apply_mul (A B : LMat R) (x : ℕ → R) (i : ℕ) :
    (A.mul B).apply x i = A.apply (B.apply x) i := by
  simp only [apply_eq, mul_e, mul_cols]
  simp_rw [Finset.sum_mul, Finset.mul_sum]
  rw [Finset.sum_comm]
  refine Finset.sum_congr rfl fun k _ => Finset.sum_congr rfl fun j _ => ?_
  ring

/-- `apply` only reads the entries inside the shape -/
lemma apply_congr (A B : LMat R) (x : ℕ → R) (i : ℕ) (hc : A.cols = B.cols)
    (h : ∀ j, j < A.cols → A.e i j = B.e i j) : A.apply x i = B.apply x i := by
  simp only [apply_eq, ← hc]
  exact Finset.sum_congr rfl fun j hj => by rw [h j (mem_range.mp hj)]

/-- `apply` only reads the first `cols` entries of the vector -/
lemma apply_congr_vec (A : LMat R) (x x' : ℕ → R) (i : ℕ)
    (h : ∀ j, j < A.cols → x j = x' j) : A.apply x i = A.apply x' i := by
  simp only [apply_eq]
  exact Finset.sum_congr rfl fun j hj => by rw [h j (mem_range.mp hj)]

/-- **The adjoint criterion.**  `N` satisfies `⟨M x, y⟩ = ⟨x, N y⟩` for all `x, y` iff `N` is the
    transposed matrix of `M` (entrywise inside the shape). -/
lemma adjoint_iff_aux (M N : LMat R) (hc : N.cols = M.rows) :
    (∀ x y : ℕ → R, ip M.rows (M.apply x) y = ip M.cols x (N.apply y))
      ↔ ∀ i, i < M.rows → ∀ j, j < M.cols → N.e j i = M.e i j := by
  constructor
  · intro h i hi j hj
    have := h (unit j) (unit i)
    simp only [ip_eq] at this
    rw [sum_mul_unit _ _ _ hi, sum_unit_mul _ _ _ hj] at this
    simp only [apply_eq, hc] at this
    rw [sum_mul_unit _ _ _ hj, sum_mul_unit _ _ _ hi] at this
    exact this.symm
  · intro h x y
    simp only [ip_eq, apply_eq, hc]
    simp_rw [Finset.sum_mul, Finset.mul_sum]
    rw [Finset.sum_comm]
    refine Finset.sum_congr rfl fun j hj => Finset.sum_congr rfl fun i hi => ?_
    rw [h i (mem_range.mp hi) j (mem_range.mp hj)]
    ring


/-! ## the model's maps as matrices -/

lemma fwdPar_eq (M : LinModel R) (x : ℕ → R) (i : ℕ) : M.fwdPar x i = M.fwdMat.apply x i := by
  unfold LinModel.fwdPar LinModel.fwdMat
  rw [apply_mul]
  exact apply_congr_vec _ _ _ _ fun k _ => (apply_mul _ _ _ _).symm

lemma adjPar_eq (M : LinModel R) (y : ℕ → R) (i : ℕ) : M.adjPar y i = M.adjMat.apply y i := by
  unfold LinModel.adjPar LinModel.adjMat
  rw [apply_mul]
  exact apply_congr_vec _ _ _ _ fun k _ => (apply_mul _ _ _ _).symm

lemma ip_congr (n : ℕ) (x x' y y' : ℕ → R) (hx : ∀ i, i < n → x i = x' i) (hy : ∀ i, i < n → y i = y' i) :
    ip n x y = ip n x' y' := by
  simp only [ip_eq]
  exact Finset.sum_congr rfl fun i hi => by rw [hx i (mem_range.mp hi), hy i (mem_range.mp hi)]

lemma fwdMat_e (M : LinModel R) (i j : ℕ) :
    M.fwdMat.e i j = ∑ b ∈ range M.rng.F.cols, ∑ a ∈ range M.A.cols, M.rng.F.e i b * M.A.e b a * M.dom.E.e a j := by
  simp only [LinModel.fwdMat, mul_e, Finset.mul_sum, mul_assoc]

lemma adjMat_e (M : LinModel R) (j i : ℕ) :
    M.adjMat.e j i = ∑ a ∈ range M.dom.F.cols, ∑ b ∈ range M.B.cols, M.dom.F.e j a * M.B.e a b * M.rng.E.e b i := by
  simp only [LinModel.adjMat, mul_e, Finset.mul_sum, mul_assoc]

/-- the shapes of the four geometry maps and of the two functions fit (this is what the driver's
    `shapesOk` tests before it evaluates anything, plus the shapes of the `fun2par` matrices) -/
structure LinModel.WellShaped (M : LinModel R) : Prop where
  domE_rows : M.dom.E.rows = M.dom.funDim
  domE_cols : M.dom.E.cols = M.dom.parDim
  domF_rows : M.dom.F.rows = M.dom.parDim
  domF_cols : M.dom.F.cols = M.dom.funDim
  rngE_rows : M.rng.E.rows = M.rng.funDim
  rngE_cols : M.rng.E.cols = M.rng.parDim
  rngF_rows : M.rng.F.rows = M.rng.parDim
  rngF_cols : M.rng.F.cols = M.rng.funDim
  A_rows : M.A.rows = M.rng.funDim
  A_cols : M.A.cols = M.dom.funDim
  B_rows : M.B.rows = M.dom.funDim
  B_cols : M.B.cols = M.rng.funDim

/-- `fun2par` is the transpose of `par2fun` -/
def Geom.Orthogonal (g : Geom R) : Prop :=
  ∀ p q, p < g.parDim → q < g.funDim → g.F.e p q = g.E.e q p

lemma adjMat_eq_fwdMat_transpose (M : LinModel R) (hs : M.WellShaped) (hD : M.dom.Orthogonal) (hR : M.rng.Orthogonal)
    (hB : ∀ a b, a < M.dom.funDim → b < M.rng.funDim → M.B.e a b = M.A.e b a)
    (i j : ℕ) (hi : i < M.rng.parDim) (hj : j < M.dom.parDim) : M.adjMat.e j i = M.fwdMat.e i j := by
  rw [fwdMat_e, adjMat_e, hs.rngF_cols, hs.A_cols, hs.domF_cols, hs.B_cols, Finset.sum_comm]
  refine Finset.sum_congr rfl fun b hb => Finset.sum_congr rfl fun a ha => ?_
  rw [hD j a hj (mem_range.mp ha), hR i b hi (mem_range.mp hb), hB a b (mem_range.mp ha) (mem_range.mp hb)]
  ring

/-- entry lookup of a tabulated matrix -/
lemma force_e_aux (M : LMat R) (i j : ℕ) (hi : i < M.rows) (hj : j < M.cols) : M.force.e i j = M.e i j := by
  simp [LMat.force, Array.getElem?_ofFn, hi, hj]

/-! ## boundary extensions: shift symmetry -/

lemma emod_eq_iff_dvd (n : ℕ) (t : ℤ) (u : ℕ) (hu : u < n) : t % (n : ℤ) = (u : ℤ) ↔ (n : ℤ) ∣ t - u := by
  constructor
  · intro h
    have := Int.dvd_sub_self_of_emod_eq h
    rw [← dvd_neg]
    have e : -(t - (u : ℤ)) = (u : ℤ) - t := by ring
    rw [e]; exact this
  · rintro ⟨c, hc⟩
    have ht : t = (u : ℤ) + (n : ℤ) * c := by linarith
    rw [ht, Int.add_mul_emod_self_left]
    exact Int.emod_eq_of_lt (by positivity) (by exact_mod_cast hu)

/-- an extension rule under which "position `w + d` reads `u`" iff "position `u − d` reads `w`" -/
def ShiftSymm (m : Ext) (n : ℕ) : Prop :=
  ∀ (u w : ℕ) (d : ℤ), u < n → w < n →
    (extPos m n ((w : ℤ) + d) = some (u : ℤ) ↔ extPos m n ((u : ℤ) - d) = some (w : ℤ))

lemma shiftSymm_wrap (n : ℕ) : ShiftSymm .wrap n := by
  intro u w d hu hw
  simp only [extPos, Option.some.injEq]
  rw [emod_eq_iff_dvd n _ u hu, emod_eq_iff_dvd n _ w hw]
  have : (u : ℤ) - d - w = -((w : ℤ) + d - u) := by ring
  rw [this, dvd_neg]

lemma shiftSymm_constant (n : ℕ) : ShiftSymm .constant n := by
  intro u w d hu hw
  simp only [extPos]
  split_ifs with h1 h2 h2 <;> simp <;> omega

lemma hit_symm (m : Ext) (n : ℕ) (h : ShiftSymm m n) (u w : ℕ) (d : ℤ) (hu : u < n) (hw : w < n) :
    (hit m n ((w : ℤ) + d) u : R) = hit m n ((u : ℤ) - d) w := by
  unfold hit
  simp only [h u w d hu hw]

/-! ## flipping the PSF transposes the convolution (odd size, shift-symmetric extension) -/

/-- `P[::-1]` -/
def flip1 (s : ℕ) (P : ℕ → R) : ℕ → R := fun a => P (s - 1 - a)

lemma sum_reflect_int (s : ℕ) (G : ℕ → ℤ → R) :
    ∑ a ∈ range s, G (s - 1 - a) ((a : ℤ)) = ∑ a ∈ range s, G a ((s : ℤ) - 1 - a) := by
  rw [← Finset.sum_range_reflect]
  refine Finset.sum_congr rfl fun a ha => ?_
  have ha' : a < s := mem_range.mp ha
  have h1 : s - 1 - (s - 1 - a) = a := by omega
  have h2 : ((s - 1 - a : ℕ) : ℤ) = (s : ℤ) - 1 - a := by omega
  rw [h1, h2]

lemma conv1_flip_transpose (m : Ext) (k n : ℕ) (P : ℕ → R) (h : ShiftSymm m n)
    (u w : ℕ) (hu : u < n) (hw : w < n) :
    (conv1 m (2 * k + 1) (flip1 (2 * k + 1) P) n).e w u = (conv1 m (2 * k + 1) P n).e u w := by
  simp only [conv1, sumTo_eq_sum, flip1]
  have hk : ((2 * k + 1) / 2 : ℕ) = k := by omega
  rw [hk]
  rw [sum_reflect_int (2 * k + 1) (fun a' t => P a' * hit m n ((w : ℤ) + (k : ℕ) - t) u)]
  refine Finset.sum_congr rfl fun a _ => ?_
  congr 1
  have e1 : (w : ℤ) + (k : ℕ) - (((2 * k + 1 : ℕ) : ℤ) - 1 - a) = (w : ℤ) + ((a : ℤ) - k) := by push_cast; ring
  have e2 : (u : ℤ) + (k : ℕ) - (a : ℤ) = (u : ℤ) - ((a : ℤ) - k) := by ring
  rw [e1, e2]
  exact hit_symm m n h u w _ hu hw

lemma conv2_flip_transpose (m : Ext) (k n : ℕ) (P : ℕ → ℕ → R) (h : ShiftSymm m n)
    (i j : ℕ) (hi : i < n * n) (hj : j < n * n) :
    (conv2 m (2 * k + 1) (flip2 (2 * k + 1) P) n).e j i = (conv2 m (2 * k + 1) P n).e i j := by
  have hn : 0 < n := by
    rcases Nat.eq_zero_or_pos n with h0 | h0
    · subst h0; simp at hi
    · exact h0
  have hu : i / n < n := Nat.div_lt_of_lt_mul hi
  have hv : i % n < n := Nat.mod_lt _ hn
  have hw : j / n < n := Nat.div_lt_of_lt_mul hj
  have hz : j % n < n := Nat.mod_lt _ hn
  simp only [conv2, sumTo_eq_sum, flip2]
  have hk : ((2 * k + 1) / 2 : ℕ) = k := by omega
  rw [hk]
  rw [sum_reflect_int (2 * k + 1) (fun a' t => ∑ b ∈ range (2 * k + 1), P a' (2 * k + 1 - 1 - b) *
      (hit m n (((j / n : ℕ) : ℤ) + (k : ℕ) - t) (i / n) * hit m n (((j % n : ℕ) : ℤ) + (k : ℕ) - (b : ℤ)) (i % n)))]
  refine Finset.sum_congr rfl fun a _ => ?_
  rw [sum_reflect_int (2 * k + 1) (fun b' t => P a b' *
      (hit m n (((j / n : ℕ) : ℤ) + (k : ℕ) - (((2 * k + 1 : ℕ) : ℤ) - 1 - a)) (i / n) * hit m n (((j % n : ℕ) : ℤ) + (k : ℕ) - t) (i % n)))]
  refine Finset.sum_congr rfl fun b _ => ?_
  congr 1
  have e1 : ∀ (w : ℕ) (a : ℕ), (w : ℤ) + (k : ℕ) - (((2 * k + 1 : ℕ) : ℤ) - 1 - a) = (w : ℤ) + ((a : ℤ) - k) := by
    intro w a; push_cast; ring
  have e2 : ∀ (u : ℕ) (a : ℕ), (u : ℤ) + (k : ℕ) - (a : ℤ) = (u : ℤ) - ((a : ℤ) - k) := by intro u a; ring
  rw [e1, e1, e2, e2, hit_symm m n h _ _ _ hu hw, hit_symm m n h _ _ _ hv hz]


/-! ## the transposed model as matrices; step expansion with one node per step -/

lemma identity_apply (n : ℕ) (v : ℕ → R) (i : ℕ) (hi : i < n) : (LMat.identity n : LMat R).apply v i = v i := by
  rw [apply_eq]
  simp [LMat.identity, hi]

lemma tFwdPar_eq (M : LinModel R) (hs : M.WellShaped) (y : ℕ → R) (i : ℕ) (hi : i < M.dom.parDim) :
    M.tFwdPar y i = M.tFwdMat.apply y i := by
  unfold LinModel.tFwdPar LinModel.tFwdMat
  rw [apply_mul]
  have h1 : ∀ v : ℕ → R, ∀ k, k < M.B.cols → M.rng.reE v k = M.rng.reEMat.apply v k := by
    intro v k hk
    unfold Geom.reE Geom.reEMat
    split_ifs
    · rw [identity_apply]; rw [← hs.B_cols]; exact hk
    · rfl
  have h2 : ∀ v : ℕ → R, M.dom.reF v i = M.dom.reFMat.apply v i := by
    intro v
    unfold Geom.reF Geom.reFMat
    split_ifs
    · rw [identity_apply _ _ _ hi]
    · rfl
  rw [h2]
  refine apply_congr_vec _ _ _ _ fun k _ => ?_
  rw [apply_mul]
  refine apply_congr_vec _ _ _ _ fun k' _ => ?_
  rw [apply_mul]
  refine apply_congr_vec _ _ _ _ fun k'' hk'' => ?_
  rw [apply_mul]
  exact h1 _ _ hk''

lemma tAdjPar_eq (M : LinModel R) (hs : M.WellShaped) (x : ℕ → R) (i : ℕ) (hi : i < M.rng.parDim) :
    M.tAdjPar x i = M.tAdjMat.apply x i := by
  unfold LinModel.tAdjPar LinModel.tAdjMat
  rw [apply_mul]
  have h1 : ∀ v : ℕ → R, ∀ k, k < M.A.cols → M.dom.reE v k = M.dom.reEMat.apply v k := by
    intro v k hk
    unfold Geom.reE Geom.reEMat
    split_ifs
    · rw [identity_apply]; rw [← hs.A_cols]; exact hk
    · rfl
  have h2 : ∀ v : ℕ → R, M.rng.reF v i = M.rng.reFMat.apply v i := by
    intro v
    unfold Geom.reF Geom.reFMat
    split_ifs
    · rw [identity_apply _ _ _ hi]
    · rfl
  rw [h2]
  refine apply_congr_vec _ _ _ _ fun k _ => ?_
  rw [apply_mul]
  refine apply_congr_vec _ _ _ _ fun k' _ => ?_
  rw [apply_mul]
  refine apply_congr_vec _ _ _ _ fun k'' hk'' => ?_
  rw [apply_mul]
  exact h1 _ _ hk''

lemma sumTo_nat_eq (n : ℕ) (f : ℕ → ℕ) : sumTo n f = ∑ k ∈ range n, f k := by
  induction n with
  | zero => simp [sumTo]
  | succ n ih => simp [sumTo, ih, Finset.sum_range_succ]

lemma inStep_full (m i k : ℕ) (hi : i ≤ m) (hk : k ≤ m) : inStep (m + 1) (m + 1) i k = true ↔ k = i := by
  unfold inStep
  simp only [Nat.add_sub_cancel]
  split_ifs with h0
  · subst h0
    simp only [decide_eq_true_eq]
    constructor
    · intro h
      by_contra hne
      have : 1 ≤ k := by omega
      nlinarith
    · intro h; subst h; simp
  · simp only [Bool.and_eq_true, decide_eq_true_eq]
    constructor
    · rintro ⟨h1, h2⟩
      by_contra hne
      rcases Nat.lt_or_gt_of_ne hne with hlt | hgt
      · have : k + 1 ≤ i := hlt
        nlinarith
      · have : i + 1 ≤ k := hgt
        nlinarith
    · intro h; subst h
      constructor
      · have : 0 < k := Nat.pos_of_ne_zero h0
        nlinarith
      · nlinarith

lemma stepCount_full (m i : ℕ) (hi : i ≤ m) : stepCount (m + 1) (m + 1) i = 1 := by
  unfold stepCount
  rw [sumTo_nat_eq]
  have : ∀ k ∈ range (m + 1), (if inStep (m + 1) (m + 1) i k = true then 1 else 0) = if k = i then 1 else 0 := by
    intro k hk
    have hk' : k ≤ m := by have := mem_range.mp hk; omega
    simp only [inStep_full m i k hi hk']
  rw [Finset.sum_congr rfl this]
  simp [Finset.sum_ite_eq']
  omega

/-! ## reflecting (`symmetric`) padding with a PSF that is symmetric along each axis -/

lemma emod_eq_iff_dvd' (N : ℕ) (t : ℤ) (u : ℤ) (h0 : 0 ≤ u) (hu : u < N) : t % (N : ℤ) = u ↔ (N : ℤ) ∣ t - u := by
  lift u to ℕ using h0
  exact emod_eq_iff_dvd N t u (by exact_mod_cast hu)

lemma extPos_reflect_iff (n : ℕ) (t : ℤ) (w : ℕ) (hw : w < n) :
    extPos .reflect n t = some (w : ℤ) ↔ ((2 * (n : ℤ)) ∣ t - w ∨ (2 * (n : ℤ)) ∣ t + 1 + w) := by
  simp only [extPos, Option.some.injEq]
  have hN : (2 * (n : ℤ)) = ((2 * n : ℕ) : ℤ) := by push_cast; ring
  have hp0 : 0 ≤ t % (2 * (n : ℤ)) := Int.emod_nonneg _ (by omega)
  have hp1 : t % (2 * (n : ℤ)) < 2 * (n : ℤ) := Int.emod_lt_of_pos _ (by omega)
  have h1 : t % (2 * (n : ℤ)) = (w : ℤ) ↔ (2 * (n : ℤ)) ∣ t - w := by
    rw [hN]; exact emod_eq_iff_dvd' (2 * n) t w (by omega) (by push_cast; omega)
  have h2 : t % (2 * (n : ℤ)) = 2 * (n : ℤ) - 1 - w ↔ (2 * (n : ℤ)) ∣ t + 1 + w := by
    have e : t + 1 + (w : ℤ) = 2 * (n : ℤ) + (t - (2 * (n : ℤ) - 1 - w)) := by ring
    rw [e, dvd_add_right (dvd_refl _), hN]
    exact emod_eq_iff_dvd' (2 * n) t _ (by push_cast; omega) (by push_cast; omega)
  rw [← h1, ← h2]
  split_ifs <;> omega

lemma hit_reflect (n : ℕ) (t : ℤ) (w : ℕ) (hw : w < n) :
    (hit .reflect n t w : R) = (if (2 * (n : ℤ)) ∣ t - w then 1 else 0) + (if (2 * (n : ℤ)) ∣ t + 1 + w then 1 else 0) := by
  unfold hit
  rw [if_congr (extPos_reflect_iff n t w hw) rfl rfl]
  by_cases hA : (2 * (n : ℤ)) ∣ t - w <;> by_cases hB : (2 * (n : ℤ)) ∣ t + 1 + w
  · exfalso
    have hd : (2 * (n : ℤ)) ∣ (t + 1 + w) - (t - w) := dvd_sub hB hA
    have e : (t + 1 + (w : ℤ)) - (t - w) = 2 * (w : ℤ) + 1 := by ring
    rw [e] at hd
    have := Int.le_of_dvd (by omega) hd
    omega
  · simp [hA, hB]
  · simp [hA, hB]
  · simp [hA, hB]

/-- 1-D core: for weights `f` with `f (s-1-a) = f a` (`s = 2k+1`) the reflecting-extension
    convolution matrix is symmetric -/
lemma conv_reflect_symm (k n : ℕ) (f : ℕ → R) (hf : ∀ a, a < 2 * k + 1 → f (2 * k + 1 - 1 - a) = f a)
    (u w : ℕ) (hu : u < n) (hw : w < n) :
    ∑ a ∈ range (2 * k + 1), f a * hit .reflect n ((u : ℤ) + (k : ℕ) - (a : ℤ)) w
      = ∑ a ∈ range (2 * k + 1), f a * hit .reflect n ((w : ℤ) + (k : ℕ) - (a : ℤ)) u := by
  simp only [hit_reflect n _ w hw, hit_reflect n _ u hu, mul_add, Finset.sum_add_distrib]
  congr 1
  · -- first parts: reflect the summation index on the right
    have hr : ∑ a ∈ range (2 * k + 1), f a * (if (2 * (n : ℤ)) ∣ (w : ℤ) + (k : ℕ) - (a : ℤ) - u then (1 : R) else 0)
        = ∑ a ∈ range (2 * k + 1), f a * (if (2 * (n : ℤ)) ∣ (w : ℤ) + (k : ℕ) - (((2 * k + 1 : ℕ) : ℤ) - 1 - a) - u then (1 : R) else 0) := by
      rw [← sum_reflect_int (2 * k + 1) (fun a' t => f a' * (if (2 * (n : ℤ)) ∣ (w : ℤ) + (k : ℕ) - t - u then (1 : R) else 0))]
      exact Finset.sum_congr rfl fun a ha => by rw [hf a (mem_range.mp ha)]
    rw [hr]
    refine Finset.sum_congr rfl fun a _ => ?_
    have e : (w : ℤ) + (k : ℕ) - (((2 * k + 1 : ℕ) : ℤ) - 1 - a) - u = -((u : ℤ) + (k : ℕ) - (a : ℤ) - w) := by
      push_cast; ring
    simp only [e, dvd_neg]
  · refine Finset.sum_congr rfl fun a _ => ?_
    have e : (u : ℤ) + (k : ℕ) - (a : ℤ) + 1 + w = (w : ℤ) + (k : ℕ) - (a : ℤ) + 1 + u := by ring
    rw [e]

lemma conv2_reflect_symm (k n : ℕ) (P : ℕ → ℕ → R)
    (hP1 : ∀ a b, a < 2 * k + 1 → P (2 * k + 1 - 1 - a) b = P a b)
    (hP2 : ∀ a b, b < 2 * k + 1 → P a (2 * k + 1 - 1 - b) = P a b)
    (i j : ℕ) (hi : i < n * n) (hj : j < n * n) :
    (conv2 .reflect (2 * k + 1) (flip2 (2 * k + 1) P) n).e j i = (conv2 .reflect (2 * k + 1) P n).e i j := by
  have hn : 0 < n := by
    rcases Nat.eq_zero_or_pos n with h0 | h0
    · subst h0; simp at hi
    · exact h0
  have hu : i / n < n := Nat.div_lt_of_lt_mul hi
  have hv : i % n < n := Nat.mod_lt _ hn
  have hw : j / n < n := Nat.div_lt_of_lt_mul hj
  have hz : j % n < n := Nat.mod_lt _ hn
  simp only [conv2, sumTo_eq_sum, flip2]
  have hk : ((2 * k + 1) / 2 : ℕ) = k := by omega
  rw [hk]
  -- the flipped PSF is the PSF
  have hflip : ∀ a b, a < 2 * k + 1 → b < 2 * k + 1 → P (2 * k + 1 - 1 - a) (2 * k + 1 - 1 - b) = P a b := by
    intro a b ha hb; rw [hP1 _ _ ha, hP2 _ _ hb]
  calc ∑ a ∈ range (2 * k + 1), ∑ b ∈ range (2 * k + 1), P (2 * k + 1 - 1 - a) (2 * k + 1 - 1 - b) *
          (hit .reflect n (((j / n : ℕ) : ℤ) + (k : ℕ) - (a : ℤ)) (i / n) * hit .reflect n (((j % n : ℕ) : ℤ) + (k : ℕ) - (b : ℤ)) (i % n))
      = ∑ a ∈ range (2 * k + 1), ∑ b ∈ range (2 * k + 1), (P a b * hit .reflect n (((j / n : ℕ) : ℤ) + (k : ℕ) - (a : ℤ)) (i / n))
          * hit .reflect n (((j % n : ℕ) : ℤ) + (k : ℕ) - (b : ℤ)) (i % n) := by
        refine Finset.sum_congr rfl fun a ha => Finset.sum_congr rfl fun b hb => ?_
        rw [hflip a b (mem_range.mp ha) (mem_range.mp hb)]; ring
    _ = ∑ a ∈ range (2 * k + 1), ∑ b ∈ range (2 * k + 1), (P a b * hit .reflect n (((j / n : ℕ) : ℤ) + (k : ℕ) - (a : ℤ)) (i / n))
          * hit .reflect n (((i % n : ℕ) : ℤ) + (k : ℕ) - (b : ℤ)) (j % n) := by
        refine Finset.sum_congr rfl fun a ha => ?_
        exact conv_reflect_symm k n _ (fun b hb => by rw [hP2 _ _ hb]) _ _ hz hv
    _ = ∑ b ∈ range (2 * k + 1), ∑ a ∈ range (2 * k + 1), (P a b * hit .reflect n (((i % n : ℕ) : ℤ) + (k : ℕ) - (b : ℤ)) (j % n))
          * hit .reflect n (((j / n : ℕ) : ℤ) + (k : ℕ) - (a : ℤ)) (i / n) := by
        rw [Finset.sum_comm]
        refine Finset.sum_congr rfl fun b _ => Finset.sum_congr rfl fun a _ => ?_
        ring
    _ = ∑ b ∈ range (2 * k + 1), ∑ a ∈ range (2 * k + 1), (P a b * hit .reflect n (((i % n : ℕ) : ℤ) + (k : ℕ) - (b : ℤ)) (j % n))
          * hit .reflect n (((i / n : ℕ) : ℤ) + (k : ℕ) - (a : ℤ)) (j / n) := by
        refine Finset.sum_congr rfl fun b hb => ?_
        exact conv_reflect_symm k n _ (fun a ha => by rw [hP1 _ _ ha]) _ _ hw hu
    _ = _ := by
        rw [Finset.sum_comm]
        refine Finset.sum_congr rfl fun a _ => Finset.sum_congr rfl fun b _ => ?_
        ring

end CuqiVerif.C07
