import CuqiVerif.Model.C11_geom
import Mathlib.Tactic.Lemma

/-!
# C11 — lemmas for the lazily inferred geometry (`Model/C11_geom.lean`)

`Frame s s'`: the step relation every operation satisfies — address spaces only grow, no
`par_dim` of an existing geometry object, no parameter / family / name of an existing
distribution and no existing model changes; the `_geometry` of an existing distribution is either
kept or (only if it was undetermined and a dimension can be inferred from the parameters) re-bound
to a geometry allocated by the step, whose dimension is the inferred one; every geometry a step
allocates is determined; geometry references stay inside the heap (`WF`).
-/
namespace CuqiVerif.C11.Geo

/-- every distribution refers to an existing geometry object -/
def WF (s : St) : Prop := ∀ a, a < s.nD → (s.dist a).geo < s.nG

lemma upd_same {α : Type} (f : Nat → α) (a : Nat) (v : α) : upd f a v a = v := by simp [upd]

lemma upd_other {α : Type} (f : Nat → α) (a b : Nat) (v : α) (h : b ≠ a) : upd f a v b = f b := by simp [upd, h]

structure Frame (s s' : St) : Prop where
  nD : s.nD ≤ s'.nD
  nG : s.nG ≤ s'.nG
  nM : s.nM ≤ s'.nM
  wf : WF s'
  gdim : ∀ g, g < s.nG → (s'.geo g).dim = (s.geo g).dim
  newG : ∀ g, s.nG ≤ g → g < s'.nG → (s'.geo g).dim ≠ none
  pars : ∀ a, a < s.nD → (s'.dist a).slots = (s.dist a).slots ∧ (s'.dist a).fam = (s.dist a).fam ∧ (s'.dist a).name = (s.dist a).name
  mdl : ∀ m, m < s.nM → s'.mdl m = s.mdl m
  geo : ∀ a, a < s.nD → (s'.dist a).geo = (s.dist a).geo ∨
          ((s.geo (s.dist a).geo).dim = none ∧ inferred (s.dist a).slots ≠ none ∧ s.nG ≤ (s'.dist a).geo
            ∧ (s'.geo (s'.dist a).geo).dim = inferred (s.dist a).slots)

lemma Frame.refl {s : St} (h : WF s) : Frame s s :=
  ⟨Nat.le_refl _, Nat.le_refl _, Nat.le_refl _, h, fun _ _ => rfl, fun g h1 h2 => absurd h2 (by omega),
   fun _ _ => ⟨rfl, rfl, rfl⟩, fun _ _ => rfl, fun _ _ => Or.inl rfl⟩

lemma Frame.trans {s s1 s2 : St} (hw : WF s) (h1 : Frame s s1) (h2 : Frame s1 s2) : Frame s s2 := by
  refine ⟨Nat.le_trans h1.nD h2.nD, Nat.le_trans h1.nG h2.nG, Nat.le_trans h1.nM h2.nM, h2.wf, ?_, ?_, ?_, ?_, ?_⟩
  · intro g hg
    rw [h2.gdim g (Nat.lt_of_lt_of_le hg h1.nG), h1.gdim g hg]
  · intro g hg hg2
    by_cases hlt : g < s1.nG
    · rw [h2.gdim g hlt]; exact h1.newG g hg hlt
    · exact h2.newG g (by omega) hg2
  · intro a ha
    have ha1 : a < s1.nD := Nat.lt_of_lt_of_le ha h1.nD
    obtain ⟨p1, p2, p3⟩ := h1.pars a ha
    obtain ⟨q1, q2, q3⟩ := h2.pars a ha1
    exact ⟨q1.trans p1, q2.trans p2, q3.trans p3⟩
  · intro m hm
    rw [h2.mdl m (Nat.lt_of_lt_of_le hm h1.nM), h1.mdl m hm]
  · intro a ha
    have ha1 : a < s1.nD := Nat.lt_of_lt_of_le ha h1.nD
    have hsl : (s1.dist a).slots = (s.dist a).slots := (h1.pars a ha).1
    rcases h1.geo a ha with k1 | ⟨u1, i1, f1, d1⟩
    · rcases h2.geo a ha1 with k2 | ⟨u2, i2, f2, d2⟩
      · exact Or.inl (k2.trans k1)
      · refine Or.inr ⟨?_, ?_, Nat.le_trans h1.nG f2, ?_⟩
        · rw [k1] at u2
          rw [← h1.gdim _ (hw a ha)]; exact u2
        · rw [← hsl]; exact i2
        · rw [d2, hsl]
    · rcases h2.geo a ha1 with k2 | ⟨u2, i2, f2, d2⟩
      · refine Or.inr ⟨u1, i1, ?_, ?_⟩
        · rw [k2]; exact f1
        · rw [k2, h2.gdim _ (h1.wf a ha1)]; exact d1
      · refine Or.inr ⟨u1, i1, Nat.le_trans h1.nG f2, ?_⟩
        rw [d2, hsl]

/-! ## the primitive steps -/

lemma rebind_cases (s : St) (a : Nat) :
    (s.rebind a = s ∧ ¬ ((s.geo (s.dist a).geo).dim = none ∧ inferred (s.dist a).slots ≠ none)) ∨
    (∃ k, inferred (s.dist a).slots = some k ∧ (s.geo (s.dist a).geo).dim = none ∧
      s.rebind a = { s with nG := s.nG + 1, geo := upd s.geo s.nG ⟨some k, none⟩,
                            dist := upd s.dist a { (s.dist a) with geo := s.nG }, log := .distGeo a :: s.log }) := by
  unfold St.rebind
  cases hi : inferred (s.dist a).slots with
  | none => left; simp
  | some k =>
    cases hg : (s.geo (s.dist a).geo).dim with
    | none => right; exact ⟨k, rfl, rfl, rfl⟩
    | some g => left; simp

lemma rebind_frame {s : St} (hw : WF s) (a : Nat) (ha : a < s.nD) : Frame s (s.rebind a) := by
  rcases rebind_cases s a with ⟨he, _⟩ | ⟨k, hi, hg, he⟩
  · rw [he]; exact Frame.refl hw
  · rw [he]
    refine ⟨Nat.le_refl _, Nat.le_succ _, Nat.le_refl _, ?_, ?_, ?_, ?_, fun _ _ => rfl, ?_⟩
    · intro b hb
      show (upd s.dist a _ b).geo < s.nG + 1
      by_cases hba : b = a
      · subst hba; rw [upd_same]; exact Nat.lt_succ_self _
      · rw [upd_other _ _ _ _ hba]; exact Nat.lt_succ_of_lt (hw b hb)
    · intro g hg'
      show (upd s.geo s.nG _ g).dim = _
      rw [upd_other _ _ _ _ (Nat.ne_of_lt hg')]
    · intro g h1 h2
      have : g = s.nG := by
        have h2' : g < s.nG + 1 := h2
        omega
      subst this
      show (upd s.geo s.nG _ s.nG).dim ≠ none
      rw [upd_same]; simp
    · intro b _
      show (upd s.dist a _ b).slots = _ ∧ (upd s.dist a _ b).fam = _ ∧ (upd s.dist a _ b).name = _
      by_cases hba : b = a
      · subst hba; rw [upd_same]; exact ⟨rfl, rfl, rfl⟩
      · rw [upd_other _ _ _ _ hba]; exact ⟨rfl, rfl, rfl⟩
    · intro b _
      by_cases hba : b = a
      · subst hba
        right
        refine ⟨hg, by rw [hi]; simp, ?_, ?_⟩
        · show s.nG ≤ (upd s.dist b _ b).geo
          rw [upd_same]; exact Nat.le_refl _
        · show (upd s.geo s.nG _ (upd s.dist b _ b).geo).dim = _
          rw [upd_same]
          show (upd s.geo s.nG _ s.nG).dim = _
          rw [upd_same, hi]
      · left
        show (upd s.dist a _ b).geo = _
        rw [upd_other _ _ _ _ hba]

lemma rebind_other (s : St) (a b : Nat) (h : b ≠ a) : (s.rebind a).dist b = s.dist b := by
  rcases rebind_cases s a with ⟨he, _⟩ | ⟨k, _, _, he⟩
  · rw [he]
  · rw [he]; exact upd_other _ _ _ _ h

lemma label_frame {s : St} (hw : WF s) (g nm : Nat) : Frame s (s.label g nm) := by
  refine ⟨Nat.le_refl _, Nat.le_refl _, Nat.le_refl _, hw, ?_, fun g h1 h2 => absurd h2 (by show ¬ g < s.nG; omega),
          fun _ _ => ⟨rfl, rfl, rfl⟩, fun _ _ => rfl, fun _ _ => Or.inl rfl⟩
  intro g' _
  show (upd s.geo g _ g').dim = _
  by_cases h : g' = g
  · subst h; rw [upd_same]
  · rw [upd_other _ _ _ _ h]

lemma label_dist (s : St) (g nm : Nat) : (s.label g nm).dist = s.dist := rfl

lemma label_gdim (s : St) (g nm g' : Nat) : ((s.label g nm).geo g').dim = (s.geo g').dim := by
  show (upd s.geo g _ g').dim = _
  by_cases h : g' = g
  · subst h; rw [upd_same]
  · rw [upd_other _ _ _ _ h]

/-- the getter in three cases -/
lemma getter_cases (s : St) (a : Nat) :
    (s.getter a = (s, .err .typeError) ∧ inconsistent (inferred (s.dist a).slots) ((s.geo (s.dist a).geo).dim) = true) ∨
    (inconsistent (inferred (s.dist a).slots) ((s.geo (s.dist a).geo).dim) = false ∧
      (s.getter a = (s.rebind a, .err .valueError) ∧ ((s.rebind a).geo ((s.rebind a).dist a).geo).dim = none)) ∨
    (inconsistent (inferred (s.dist a).slots) ((s.geo (s.dist a).geo).dim) = false ∧
      ∃ n, ((s.rebind a).geo ((s.rebind a).dist a).geo).dim = some n ∧
        s.getter a = ((s.rebind a).label ((s.rebind a).dist a).geo (s.dist a).name, .ok ((s.rebind a).dist a).geo)) := by
  unfold St.getter
  by_cases hc : inconsistent (inferred (s.dist a).slots) ((s.geo (s.dist a).geo).dim) = true
  · left; rw [if_pos hc]; exact ⟨rfl, hc⟩
  · have hc' : inconsistent (inferred (s.dist a).slots) ((s.geo (s.dist a).geo).dim) = false := by
      cases h : inconsistent (inferred (s.dist a).slots) ((s.geo (s.dist a).geo).dim) with
      | true => exact absurd h hc
      | false => rfl
    right
    rw [if_neg hc]
    dsimp only
    cases hd : ((s.rebind a).geo ((s.rebind a).dist a).geo).dim with
    | none => left; exact ⟨hc', rfl, rfl⟩
    | some n => right; exact ⟨hc', n, rfl, rfl⟩

lemma getter_frame {s : St} (hw : WF s) (a : Nat) (ha : a < s.nD) : Frame s (s.getter a).1 := by
  rcases getter_cases s a with ⟨he, _⟩ | ⟨_, he, _⟩ | ⟨_, n, _, he⟩
  · rw [he]; exact Frame.refl hw
  · rw [he]; exact rebind_frame hw a ha
  · rw [he]
    have h1 := rebind_frame hw a ha
    exact Frame.trans hw h1 (label_frame h1.wf _ _)

lemma getter_other (s : St) (a b : Nat) (h : b ≠ a) : (s.getter a).1.dist b = s.dist b := by
  rcases getter_cases s a with ⟨he, _⟩ | ⟨_, he, _⟩ | ⟨_, n, _, he⟩
  · rw [he]
  · rw [he]; exact rebind_other s a b h
  · rw [he]; show ((s.rebind a).label _ _).dist b = _
    rw [label_dist]; exact rebind_other s a b h

/-- the dimension of the geometry bound after `rebind`, as a function of the two inputs of the getter -/
lemma rebind_dim (s : St) (a : Nat) :
    ((s.rebind a).geo ((s.rebind a).dist a).geo).dim =
      (match (s.geo (s.dist a).geo).dim with
       | some g => some g
       | none => inferred (s.dist a).slots) := by
  rcases rebind_cases s a with ⟨he, hn⟩ | ⟨k, hi, hg, he⟩
  · rw [he]
    cases hg : (s.geo (s.dist a).geo).dim with
    | some g => rfl
    | none =>
      cases hi : inferred (s.dist a).slots with
      | none => rfl
      | some k => exact absurd ⟨hg, by rw [hi]; simp⟩ hn
  · rw [he, hg, hi]
    show (upd s.geo s.nG _ (upd s.dist a _ a).geo).dim = _
    rw [upd_same]
    show (upd s.geo s.nG _ s.nG).dim = _
    rw [upd_same]

lemma dimOp_fst (s : St) (a : Nat) : (s.dimOp a).1 = (s.getter a).1 := by
  unfold St.dimOp
  cases h : s.getter a with
  | mk s1 r => cases r <;> rfl

/-- **`dist.dim` is a function of the inferred dimension and of the dimension of the geometry currently bound** -/
lemma dimOp_res (s : St) (a : Nat) :
    (s.dimOp a).2 = dimFn (inferred (s.dist a).slots) ((s.geo (s.dist a).geo).dim) := by
  have hr := rebind_dim s a
  unfold St.dimOp dimFn
  rcases getter_cases s a with ⟨he, hc⟩ | ⟨hc, he, hd⟩ | ⟨hc, n, hd, he⟩
  · rw [he, hc]; rfl
  · rw [he, hc]
    rw [hd] at hr
    cases hg : (s.geo (s.dist a).geo).dim with
    | some g => rw [hg] at hr; simp at hr
    | none =>
      rw [hg] at hr
      simp only at hr
      rw [← hr]
      rfl
  · rw [he, hc]
    dsimp only
    rw [label_gdim, hd]
    rw [hd] at hr
    cases hg : (s.geo (s.dist a).geo).dim with
    | some g =>
      rw [hg] at hr
      simp only [Option.some.injEq] at hr
      subst hr
      simp
    | none =>
      rw [hg] at hr
      simp only at hr
      rw [← hr]
      simp

lemma dimOp_frame {s : St} (hw : WF s) (a : Nat) (ha : a < s.nD) : Frame s (s.dimOp a).1 := by
  rw [dimOp_fst]; exact getter_frame hw a ha

lemma dimOp_other (s : St) (a b : Nat) (h : b ≠ a) : (s.dimOp a).1.dist b = s.dist b := by
  rw [dimOp_fst]; exact getter_other s a b h

/-! ## the operations -/

lemma condCopy_frame {s : St} (hw : WF s) (a : Nat) (ha : a < s.nD) (kw : Kw) : Frame s (s.condCopy a kw).1 := by
  refine ⟨Nat.le_succ _, Nat.le_refl _, Nat.le_refl _, ?_, fun _ _ => rfl, fun g h1 h2 => absurd h2 (by show ¬ g < s.nG; omega),
          ?_, fun _ _ => rfl, ?_⟩
  · intro b hb
    show (upd s.dist s.nD _ b).geo < s.nG
    by_cases h : b = s.nD
    · subst h; rw [upd_same]; exact hw a ha
    · rw [upd_other _ _ _ _ h]
      have hb' : b < s.nD + 1 := hb
      exact hw b (by omega)
  · intro b hb
    show (upd s.dist s.nD _ b).slots = _ ∧ (upd s.dist s.nD _ b).fam = _ ∧ (upd s.dist s.nD _ b).name = _
    rw [upd_other _ _ _ _ (Nat.ne_of_lt hb)]; exact ⟨rfl, rfl, rfl⟩
  · intro b hb
    left
    show (upd s.dist s.nD _ b).geo = _
    rw [upd_other _ _ _ _ (Nat.ne_of_lt hb)]

lemma condCopy_old (s : St) (a : Nat) (kw : Kw) (b : Nat) (hb : b < s.nD) : (s.condCopy a kw).1.dist b = s.dist b := by
  show upd s.dist s.nD _ b = _
  exact upd_other _ _ _ _ (Nat.ne_of_lt hb)

lemma condCopy_new (s : St) (a : Nat) (kw : Kw) :
    (s.condCopy a kw).1.dist s.nD = { (s.dist a) with slots := (s.dist a).slots.map (condSlot kw) } := by
  show upd s.dist s.nD _ s.nD = _
  exact upd_same _ _ _

lemma sampleOp_frame {s : St} (hw : WF s) (a : Nat) (ha : a < s.nD) : Frame s (s.sampleOp a).1 := by
  unfold St.sampleOp
  split
  · exact Frame.refl hw
  · have h1 := dimOp_frame hw a ha
    cases hd : s.dimOp a with
    | mk s1 r =>
      rw [hd] at h1
      cases r with
      | dim n =>
        dsimp only
        exact Frame.trans hw h1 (dimOp_frame h1.wf a (Nat.lt_of_lt_of_le ha h1.nD))
      | objD _ => exact h1
      | objM _ => exact h1
      | val => exact h1
      | err _ => exact h1

lemma sampleOp_other (s : St) (a b : Nat) (h : b ≠ a) : (s.sampleOp a).1.dist b = s.dist b := by
  unfold St.sampleOp
  split
  · rfl
  · have h1 := dimOp_other s a b h
    cases hd : s.dimOp a with
    | mk s1 r =>
      rw [hd] at h1
      cases r with
      | dim n => dsimp only; rw [dimOp_other s1 a b h]; exact h1
      | objD _ => exact h1
      | objM _ => exact h1
      | val => exact h1
      | err _ => exact h1

lemma gradOp_frame {s : St} (hw : WF s) (a : Nat) (ha : a < s.nD) : Frame s (s.gradOp a).1 := by
  unfold St.gradOp
  split
  · have h1 := getter_frame hw a ha
    cases hd : s.getter a with
    | mk s1 r =>
      rw [hd] at h1
      cases r with
      | ok _ => dsimp only; split <;> exact h1
      | err _ => exact h1
  · exact Frame.refl hw

lemma gradOp_other (s : St) (a b : Nat) (h : b ≠ a) : (s.gradOp a).1.dist b = s.dist b := by
  unfold St.gradOp
  split
  · have h1 := getter_other s a b h
    cases hd : s.getter a with
    | mk s1 r =>
      rw [hd] at h1
      cases r with
      | ok _ => dsimp only; split <;> exact h1
      | err _ => exact h1
  · rfl

lemma evalAt_frame {s : St} (hw : WF s) (b : Nat) (hb : b < s.nD) : Frame s (s.evalAt b).1 := by
  unfold St.evalAt
  split
  · have h1 := dimOp_frame hw b hb
    cases hd : s.dimOp b with
    | mk s1 r =>
      rw [hd] at h1
      cases r <;> exact h1
  · exact Frame.refl hw

lemma evalAt_other (s : St) (a b : Nat) (h : b ≠ a) : (s.evalAt a).1.dist b = s.dist b := by
  unfold St.evalAt
  split
  · have h1 := dimOp_other s a b h
    cases hd : s.dimOp a with
    | mk s1 r =>
      rw [hd] at h1
      cases r <;> exact h1
  · rfl

lemma logdOp_frame {s : St} (hw : WF s) (a : Nat) (ha : a < s.nD) (kw : Kw) : Frame s (s.logdOp a kw).1 := by
  unfold St.logdOp
  dsimp only
  split
  · exact Frame.refl hw
  · split
    · exact evalAt_frame hw a ha
    · have h1 := condCopy_frame hw a ha kw
      exact Frame.trans hw h1 (evalAt_frame h1.wf s.nD (Nat.lt_succ_self _))

/-- `logd` never touches an object that existed before — not even its receiver (the evaluation happens on the copy);
    exception: a fully specified Laplace, whose `logpdf` reads its own `dim` -/
lemma logdOp_other (s : St) (a : Nat) (kw : Kw) (b : Nat) (hb : b < s.nD) (h : b ≠ a) : (s.logdOp a kw).1.dist b = s.dist b := by
  unfold St.logdOp
  dsimp only
  split
  · rfl
  · split
    · exact evalAt_other s a b h
    · show ((s.condCopy a kw).1.evalAt s.nD).1.dist b = _
      rw [evalAt_other _ _ _ (Nat.ne_of_lt hb), condCopy_old s a kw b hb]

lemma applyOp_frame {s : St} (hw : WF s) (m a : Nat) (ha : a < s.nD) : Frame s (s.applyOp m a).1 := by
  unfold St.applyOp
  have h1 := dimOp_frame hw a ha
  cases hd : s.dimOp a with
  | mk s1 r =>
    rw [hd] at h1
    cases r with
    | dim n =>
      dsimp only
      split
      · exact h1
      · refine Frame.trans hw h1 ⟨Nat.le_refl _, Nat.le_refl _, Nat.le_succ _, h1.wf, fun _ _ => rfl,
          fun g (h1' : s1.nG ≤ g) (h2 : g < s1.nG) => absurd h2 (Nat.not_lt.mpr h1'), fun _ _ => ⟨rfl, rfl, rfl⟩, ?_, fun _ _ => Or.inl rfl⟩
        intro m' hm'
        show upd s1.mdl s1.nM _ m' = _
        exact upd_other _ _ _ _ (Nat.ne_of_lt hm')
    | objD _ => exact h1
    | objM _ => exact h1
    | val => exact h1
    | err _ => exact h1

lemma applyOp_other (s : St) (m a b : Nat) (h : b ≠ a) : (s.applyOp m a).1.dist b = s.dist b := by
  unfold St.applyOp
  have h1 := dimOp_other s a b h
  cases hd : s.dimOp a with
  | mk s1 r =>
    rw [hd] at h1
    cases r with
    | dim n => dsimp only; split <;> exact h1
    | objD _ => exact h1
    | objM _ => exact h1
    | val => exact h1
    | err _ => exact h1

lemma condOp_frame {s : St} (hw : WF s) (a : Nat) (ha : a < s.nD) (kw : Kw) : Frame s (s.condOp a kw).1 := by
  unfold St.condOp
  split
  · exact condCopy_frame hw a ha kw
  · exact Frame.refl hw

lemma condOp_old (s : St) (a : Nat) (kw : Kw) (b : Nat) (hb : b < s.nD) : (s.condOp a kw).1.dist b = s.dist b := by
  unfold St.condOp
  split
  · exact condCopy_old s a kw b hb
  · rfl

lemma run_frame {s : St} (hw : WF s) (op : Op) : Frame s (s.run op).1 := by
  unfold St.run
  split
  · next hr =>
    cases op with
    | cond a kw => exact condOp_frame hw a hr kw
    | dim a => exact dimOp_frame hw a hr
    | grad a => exact gradOp_frame hw a hr
    | sample a => exact sampleOp_frame hw a hr
    | logd a kw => exact logdOp_frame hw a hr kw
    | apply m a =>
      dsimp only
      split
      · exact applyOp_frame hw m a hr
      · exact Frame.refl hw
  · exact Frame.refl hw

/-- an operation changes no existing distribution other than its receiver -/
lemma run_other (s : St) (op : Op) (b : Nat) (hb : b < s.nD) (h : b ≠ op.recv) : (s.run op).1.dist b = s.dist b := by
  unfold St.run
  split
  · cases op with
    | cond a kw => exact condOp_old s a kw b hb
    | dim a => exact dimOp_other s a b h
    | grad a => exact gradOp_other s a b h
    | sample a => exact sampleOp_other s a b h
    | logd a kw => exact logdOp_other s a kw b hb h
    | apply m a =>
      dsimp only
      split
      · exact applyOp_other s m a b h
      · rfl
  · rfl

lemma runAll_frame {s : St} (hw : WF s) (ops : List Op) : Frame s (s.runAll ops) := by
  induction ops generalizing s with
  | nil => exact Frame.refl hw
  | cons op ops ih =>
    have h1 := run_frame hw op
    exact Frame.trans hw h1 (ih h1.wf)

lemma runAll_other {s : St} (hw : WF s) (ops : List Op) (b : Nat) (hb : b < s.nD) (h : ∀ op ∈ ops, op.recv ≠ b) :
    (s.runAll ops).dist b = s.dist b := by
  induction ops generalizing s with
  | nil => rfl
  | cons op ops ih =>
    have h1 := run_frame hw op
    show ((s.run op).1.runAll ops).dist b = _
    rw [ih h1.wf (Nat.lt_of_lt_of_le hb h1.nD) (fun o ho => h o (List.mem_cons_of_mem _ ho))]
    exact run_other s op b hb (fun e => h op (List.mem_cons_self) e.symm)

/-! ## what a user observes -/

lemma condDim_eq {s : St} (hw : WF s) (a : Nat) (ha : a < s.nD) (kw : Kw) :
    s.condDim a kw = dimFn (inferred ((s.dist a).slots.map (condSlot kw))) ((s.geo (s.dist a).geo).dim) := by
  unfold St.condDim
  have hf := condCopy_frame hw a ha kw
  have h := dimOp_res (s.condCopy a kw).1 s.nD
  rw [condCopy_new] at h
  exact h

/-- the two inputs of `dimFn` after a frame step, when the geometry was re-bound -/
lemma dimFn_rebound (k : Nat) : dimFn (some k) (some k) = dimFn (some k) none := by
  unfold dimFn inconsistent
  by_cases hk : k = 0
  · subst hk; simp
  · simp [hk]

lemma Frame.dimFn_eq {s s' : St} (hw : WF s) (h : Frame s s') (a : Nat) (ha : a < s.nD) :
    dimFn (inferred (s'.dist a).slots) ((s'.geo (s'.dist a).geo).dim) = dimFn (inferred (s.dist a).slots) ((s.geo (s.dist a).geo).dim) := by
  rw [(h.pars a ha).1]
  rcases h.geo a ha with k | ⟨u, i, _, d⟩
  · rw [k, h.gdim _ (hw a ha)]
  · rw [d, u]
    cases hi : inferred (s.dist a).slots with
    | none => exact absurd hi i
    | some k => exact dimFn_rebound k

lemma map_condSlot_vals (kw : Kw) (sl : List MV) (h : sl.all MV.isVal = true) : sl.map (condSlot kw) = sl := by
  induction sl with
  | nil => rfl
  | cons v r ih =>
    simp only [List.all_cons, Bool.and_eq_true] at h
    rw [List.map_cons, ih h.2]
    cases v with
    | val n => rfl
    | unset k => simp [MV.isVal] at h
    | fn f acc => simp [MV.isVal] at h

end CuqiVerif.C11.Geo

namespace CuqiVerif.C11.Geo

/-! ## with determined geometries the only writes are labels -/

/-- the log grew by `_variable_name` labels only -/
def Lab (s s' : St) : Prop := ∃ l, s'.log = l ++ s.log ∧ ∀ w ∈ l, ∃ g, w = Wr.geoVname g

lemma Lab.refl (s : St) : Lab s s := ⟨[], rfl, fun _ h => absurd h (List.not_mem_nil)⟩

lemma Lab.of_log_eq {s s' : St} (h : s'.log = s.log) : Lab s s' := ⟨[], by simpa using h, fun _ h => absurd h (List.not_mem_nil)⟩

lemma Lab.trans {s s1 s2 : St} (h1 : Lab s s1) (h2 : Lab s1 s2) : Lab s s2 := by
  obtain ⟨l1, e1, p1⟩ := h1
  obtain ⟨l2, e2, p2⟩ := h2
  refine ⟨l2 ++ l1, by rw [e2, e1, List.append_assoc], ?_⟩
  intro w hw
  rcases List.mem_append.1 hw with h | h
  · exact p2 w h
  · exact p1 w h

lemma Frame.allDet {s s' : St} (h : Frame s s') (hall : s.allDetermined) : s'.allDetermined := by
  intro g hg
  by_cases hlt : g < s.nG
  · rw [h.gdim g hlt]; exact hall g hlt
  · exact h.newG g (by omega) hg

lemma getter_lab {s : St} (hw : WF s) (hall : s.allDetermined) (a : Nat) (ha : a < s.nD) : Lab s (s.getter a).1 := by
  have hdet : (s.geo (s.dist a).geo).dim ≠ none := hall _ (hw a ha)
  have hreb : s.rebind a = s := by
    rcases rebind_cases s a with ⟨he, _⟩ | ⟨k, _, hg, _⟩
    · exact he
    · exact absurd hg hdet
  rcases getter_cases s a with ⟨he, _⟩ | ⟨_, he, _⟩ | ⟨_, n, _, he⟩
  · rw [he]; exact Lab.refl s
  · rw [he, hreb]; exact Lab.refl s
  · rw [he, hreb]
    exact ⟨[Wr.geoVname (s.dist a).geo], rfl, fun w hw => ⟨_, by simpa using hw⟩⟩

lemma dimOp_lab {s : St} (hw : WF s) (hall : s.allDetermined) (a : Nat) (ha : a < s.nD) : Lab s (s.dimOp a).1 := by
  rw [dimOp_fst]; exact getter_lab hw hall a ha

lemma evalAt_lab {s : St} (hw : WF s) (hall : s.allDetermined) (b : Nat) (hb : b < s.nD) : Lab s (s.evalAt b).1 := by
  unfold St.evalAt
  split
  · have h1 := dimOp_lab hw hall b hb
    cases hd : s.dimOp b with
    | mk s1 r => rw [hd] at h1; cases r <;> exact h1
  · exact Lab.refl s

lemma run_lab {s : St} (hw : WF s) (hall : s.allDetermined) (op : Op) : Lab s (s.run op).1 := by
  unfold St.run
  split
  · next hr =>
    cases op with
    | cond a kw =>
      show Lab s (s.condOp a kw).1
      unfold St.condOp
      split
      · exact Lab.of_log_eq rfl
      · exact Lab.refl s
    | dim a => exact dimOp_lab hw hall a hr
    | grad a =>
      show Lab s (s.gradOp a).1
      unfold St.gradOp
      split
      · have h1 := getter_lab hw hall a hr
        cases hd : s.getter a with
        | mk s1 r =>
          rw [hd] at h1
          cases r with
          | ok _ => dsimp only; split <;> exact h1
          | err _ => exact h1
      · exact Lab.refl s
    | sample a =>
      show Lab s (s.sampleOp a).1
      unfold St.sampleOp
      split
      · exact Lab.refl s
      · have h1 := dimOp_lab hw hall a hr
        have hf := dimOp_frame hw a hr
        cases hd : s.dimOp a with
        | mk s1 r =>
          rw [hd] at h1 hf
          cases r with
          | dim n => dsimp only; exact h1.trans (dimOp_lab hf.wf (hf.allDet hall) a (Nat.lt_of_lt_of_le hr hf.nD))
          | objD _ => exact h1
          | objM _ => exact h1
          | val => exact h1
          | err _ => exact h1
    | logd a kw =>
      show Lab s (s.logdOp a kw).1
      unfold St.logdOp
      dsimp only
      split
      · exact Lab.refl s
      · split
        · exact evalAt_lab hw hall a hr
        · have hf := condCopy_frame hw a hr kw
          exact (Lab.of_log_eq (s := s) (s' := (s.condCopy a kw).1) rfl).trans
            (evalAt_lab hf.wf (hf.allDet hall) s.nD (Nat.lt_succ_self _))
    | apply m a =>
      dsimp only
      split
      · show Lab s (s.applyOp m a).1
        unfold St.applyOp
        have h1 := dimOp_lab hw hall a hr
        cases hd : s.dimOp a with
        | mk s1 r =>
          rw [hd] at h1
          cases r with
          | dim n =>
            dsimp only
            split
            · exact h1
            · exact h1.trans (Lab.of_log_eq rfl)
          | objD _ => exact h1
          | objM _ => exact h1
          | val => exact h1
          | err _ => exact h1
      · exact Lab.refl s
  · exact Lab.refl s

lemma runAll_lab {s : St} (hw : WF s) (hall : s.allDetermined) (ops : List Op) : Lab s (s.runAll ops) := by
  induction ops generalizing s with
  | nil => exact Lab.refl s
  | cons op ops ih =>
    have hf := run_frame hw op
    exact (run_lab hw hall op).trans (ih hf.wf (hf.allDet hall))

end CuqiVerif.C11.Geo
