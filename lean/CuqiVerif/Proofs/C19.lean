import CuqiVerif.Model.C19
import Mathlib.Tactic.Ring
import Mathlib.Tactic.Linarith
import Mathlib.Tactic.Positivity
import Mathlib.Data.List.Basic
import Mathlib.Data.List.GetD
import Mathlib.Data.Rat.Floor
import Mathlib.Algebra.Order.Floor.Ring

/-!
# C19 — helper definitions and lemmas (slices, interpolation on sorted lists, `mapE`)
-/
namespace CuqiVerif.C19


/-- closed form of the slice for a burn-in count `b ≥ 0` and a thinning `t ≥ 1` -/
lemma sliceIdx_nat (n b t : ℕ) (ht : 1 ≤ t) :
    sliceIdx n (b : ℤ) (t : ℤ) =
      some ((List.range ((n - min b n + t - 1) / t)).map (fun i => min b n + i * t)) := by
  unfold sliceIdx
  have h0 : ¬ ((t : ℤ) = 0) := by omega
  have h1 : (t : ℤ) > 0 := by omega
  have h2 : ¬ ((b : ℤ) < 0) := by omega
  simp only [h0, h1, h2, if_false, if_true, Int.toNat_natCast]

/-- `i < ⌈m / t⌉ ↔ i·t < m` -/
lemma lt_ceilDiv_iff (m t i : ℕ) (ht : 1 ≤ t) : i < (m + t - 1) / t ↔ i * t < m := by
  rw [Nat.lt_iff_add_one_le, Nat.le_div_iff_mul_le (by omega), Nat.add_mul]
  omega

lemma filterMap_getElem?_of_isSome {α β : Type} (g : α → Option β) :
    ∀ (l : List α), (∀ x ∈ l, (g x).isSome) → ∀ i : ℕ, (l.filterMap g)[i]? = l[i]?.bind g
  | [], _, i => by simp
  | x :: l, h, i => by
    obtain ⟨y, hy⟩ := Option.isSome_iff_exists.mp (h x (by simp))
    rw [List.filterMap_cons_some hy]
    cases i with
    | zero => simp [hy]
    | succ i =>
      simp only [List.getElem?_cons_succ]
      exact filterMap_getElem?_of_isSome g l (fun x hx => h x (by simp [hx])) i

/-- the spec-level slice for natural `b`, `t` -/
def natSlice {α : Type} (xs : List α) (b t : ℕ) : List α :=
  ((List.range ((xs.length - min b xs.length + t - 1) / t)).map (fun i => min b xs.length + i * t)).filterMap
    (fun i => xs[i]?)

lemma pySlice_nat {α : Type} (xs : List α) (b t : ℕ) (ht : 1 ≤ t) :
    pySlice xs (b : ℤ) (t : ℤ) = some (natSlice xs b t) := by
  unfold pySlice natSlice
  rw [sliceIdx_nat _ _ _ ht]
  rfl

lemma natSlice_getElem? {α : Type} (xs : List α) (b t : ℕ) (ht : 1 ≤ t) (i : ℕ) :
    (natSlice xs b t)[i]? = xs[b + i * t]? := by
  unfold natSlice
  set n := xs.length with hn
  rw [filterMap_getElem?_of_isSome]
  · by_cases hi : i < (n - min b n + t - 1) / t
    · have h2 := (lt_ceilDiv_iff _ _ _ ht).mp hi
      have hb : min b n = b := by omega
      rw [List.getElem?_map, List.getElem?_range hi]
      simp [hb]
    · have h2 : ¬ (i * t < n - min b n) := fun h => hi ((lt_ceilDiv_iff _ _ _ ht).mpr h)
      have : n ≤ b + i * t := by omega
      rw [List.getElem?_map, List.getElem?_eq_none (by simpa using Nat.le_of_not_lt hi)]
      simp [List.getElem?_eq_none (hn ▸ this)]
  · intro x hx
    simp only [List.mem_map, List.mem_range] at hx
    obtain ⟨j, hj, rfl⟩ := hx
    have h2 := (lt_ceilDiv_iff _ _ _ ht).mp hj
    have : min b n + j * t < xs.length := by omega
    simp [this]


lemma filterMap_length_of_isSome {α β : Type} (g : α → Option β) :
    ∀ (l : List α), (∀ x ∈ l, (g x).isSome) → (l.filterMap g).length = l.length
  | [], _ => by simp
  | x :: l, h => by
    obtain ⟨y, hy⟩ := Option.isSome_iff_exists.mp (h x (by simp))
    rw [List.filterMap_cons_some hy]
    simp [filterMap_length_of_isSome g l (fun x hx => h x (by simp [hx]))]

lemma natSlice_length {α : Type} (xs : List α) (b t : ℕ) (ht : 1 ≤ t) :
    (natSlice xs b t).length = (xs.length - b + t - 1) / t := by
  unfold natSlice
  rw [filterMap_length_of_isSome]
  · simp only [List.length_map, List.length_range]
    congr 2
    omega
  · intro x hx
    simp only [List.mem_map, List.mem_range] at hx
    obtain ⟨j, hj, rfl⟩ := hx
    have h2 := (lt_ceilDiv_iff _ _ _ ht).mp hj
    have : min b xs.length + j * t < xs.length := by omega
    simp [this]

lemma natSlice_map {α β : Type} (f : α → β) (xs : List α) (b t : ℕ) (ht : 1 ≤ t) :
    natSlice (xs.map f) b t = (natSlice xs b t).map f := by
  apply List.ext_getElem?
  intro i
  rw [natSlice_getElem? _ _ _ ht, List.getElem?_map, List.getElem?_map, natSlice_getElem? _ _ _ ht]

lemma natSlice_compose {α : Type} (xs : List α) (b₁ t₁ b₂ t₂ : ℕ) (h₁ : 1 ≤ t₁) (h₂ : 1 ≤ t₂) :
    natSlice (natSlice xs b₁ t₁) b₂ t₂ = natSlice xs (b₁ + b₂ * t₁) (t₁ * t₂) := by
  apply List.ext_getElem?
  intro i
  rw [natSlice_getElem? _ _ _ h₂, natSlice_getElem? _ _ _ h₁,
    natSlice_getElem? _ _ _ (Nat.one_le_iff_ne_zero.mpr (Nat.mul_ne_zero (by omega) (by omega)))]
  congr 1
  ring



/-- linear interpolation between consecutive values of a monotone sequence is monotone in the
    position `k + g` -/
lemma lerp_mono (a : ℕ → ℚ) (ha : Monotone a) (k₁ k₂ : ℕ) (g₁ g₂ : ℚ)
    (h₁ : 0 ≤ g₁) (h₁' : g₁ < 1) (h₂ : 0 ≤ g₂) (h₂' : g₂ < 1)
    (h : (k₁ : ℚ) + g₁ ≤ (k₂ : ℚ) + g₂) :
    a k₁ + (a (k₁ + 1) - a k₁) * g₁ ≤ a k₂ + (a (k₂ + 1) - a k₂) * g₂ := by
  rcases Nat.lt_trichotomy k₁ k₂ with hk | hk | hk
  · have e1 : a k₁ ≤ a (k₁ + 1) := ha (Nat.le_succ _)
    have e2 : a (k₁ + 1) ≤ a k₂ := ha hk
    have e3 : a k₂ ≤ a (k₂ + 1) := ha (Nat.le_succ _)
    have : a k₁ + (a (k₁ + 1) - a k₁) * g₁ ≤ a (k₁ + 1) := by nlinarith
    have : a k₂ ≤ a k₂ + (a (k₂ + 1) - a k₂) * g₂ := by nlinarith
    linarith
  · subst hk
    have e1 : a k₁ ≤ a (k₁ + 1) := ha (Nat.le_succ _)
    have : g₁ ≤ g₂ := by linarith
    nlinarith
  · exfalso
    have : (k₂ : ℚ) + 1 ≤ k₁ := by exact_mod_cast hk
    linarith

lemma floor_toNat_bounds (v : ℚ) (hv : 0 ≤ v) :
    ((v.floor.toNat : ℕ) : ℚ) ≤ v ∧ v < ((v.floor.toNat : ℕ) : ℚ) + 1 := by
  have hf : v.floor = ⌊v⌋ := rfl
  have h0 : 0 ≤ ⌊v⌋ := Int.floor_nonneg.mpr hv
  have hc : ((v.floor.toNat : ℕ) : ℚ) = ((⌊v⌋ : ℤ) : ℚ) := by
    rw [hf]
    have : ((⌊v⌋.toNat : ℕ) : ℤ) = ⌊v⌋ := Int.toNat_of_nonneg h0
    exact_mod_cast this
  rw [hc]
  exact ⟨Int.floor_le v, Int.lt_floor_add_one v⟩


lemma sorted_pairwise (xs : List ℚ) : (sorted xs).Pairwise (· ≤ ·) := by
  have h := List.pairwise_mergeSort (le := fun a b : ℚ => decide (a ≤ b))
    (by intro a b c hab hbc; simp only [decide_eq_true_eq] at *; exact le_trans hab hbc)
    (by intro a b; simp only [Bool.or_eq_true, decide_eq_true_eq]; exact le_total a b) xs
  unfold sorted
  exact h.imp (by intro a b hab; simpa using hab)

lemma sorted_length (xs : List ℚ) : (sorted xs).length = xs.length := by
  unfold sorted; simp

/-- the list read as a sequence, indices clipped to the last element -/
def seqOf (s : List ℚ) (i : ℕ) : ℚ := s.getD (min i (s.length - 1)) 0

lemma seqOf_mono (s : List ℚ) (hs : s.Pairwise (· ≤ ·)) : Monotone (seqOf s) := by
  intro i j hij
  unfold seqOf
  by_cases hn : s.length = 0
  · have : s = [] := List.length_eq_zero_iff.mp hn
    subst this; simp
  · have hi : min i (s.length - 1) < s.length := by omega
    have hj : min j (s.length - 1) < s.length := by omega
    rw [List.getD_eq_getElem s 0 hi, List.getD_eq_getElem s 0 hj]
    rcases Nat.lt_or_ge (min i (s.length - 1)) (min j (s.length - 1)) with h | h
    · exact (List.pairwise_iff_getElem.mp hs) _ _ hi hj h
    · have : min i (s.length - 1) = min j (s.length - 1) := by omega
      simp [this]

lemma interp_eq (s : List ℚ) (v : ℚ) (hv : 0 ≤ v) (hle : v ≤ ((s.length - 1 : ℕ) : ℚ)) :
    interp s v = seqOf s v.floor.toNat
      + (seqOf s (v.floor.toNat + 1) - seqOf s v.floor.toNat) * (v - (v.floor.toNat : ℚ)) := by
  obtain ⟨hb, _⟩ := floor_toNat_bounds v hv
  have hk : v.floor.toNat ≤ s.length - 1 := by
    have : ((v.floor.toNat : ℕ) : ℚ) ≤ ((s.length - 1 : ℕ) : ℚ) := le_trans hb hle
    exact_mod_cast this
  unfold interp seqOf
  simp only [min_eq_left hk]

lemma interp_mono (s : List ℚ) (hs : s.Pairwise (· ≤ ·)) (v w : ℚ) (hv : 0 ≤ v) (hvw : v ≤ w)
    (hw : w ≤ ((s.length - 1 : ℕ) : ℚ)) : interp s v ≤ interp s w := by
  rw [interp_eq s v hv (le_trans hvw hw), interp_eq s w (le_trans hv hvw) hw]
  obtain ⟨a1, a2⟩ := floor_toNat_bounds v hv
  obtain ⟨b1, b2⟩ := floor_toNat_bounds w (le_trans hv hvw)
  apply lerp_mono _ (seqOf_mono s hs) <;> linarith


lemma floor_toNat_eq (v : ℚ) (k : ℕ) (h1 : (k : ℚ) ≤ v) (h2 : v < (k : ℚ) + 1) : v.floor.toNat = k := by
  have hf : v.floor = ⌊v⌋ := rfl
  have : ⌊v⌋ = (k : ℤ) := by
    rw [Int.floor_eq_iff]
    constructor <;> push_cast <;> assumption
  rw [hf, this]; simp

lemma median_eq_interp (s : List ℚ) (hne : s ≠ []) :
    (if s.length % 2 = 1 then s.getD (s.length / 2) 0
      else (s.getD (s.length / 2 - 1) 0 + s.getD (s.length / 2) 0) / 2)
    = interp s (((s.length - 1 : ℕ) : ℚ) * (50 / 100)) := by
  have hn : 1 ≤ s.length := List.length_pos_iff.mpr hne
  rcases Nat.even_or_odd' s.length with ⟨m, hm | hm⟩
  · -- even length 2(j+1)
    obtain ⟨j, rfl⟩ : ∃ j, m = j + 1 := ⟨m - 1, by omega⟩
    have h1 : s.length - 1 = 2 * j + 1 := by omega
    have hv : ((s.length - 1 : ℕ) : ℚ) * (50 / 100) = (j : ℚ) + 1 / 2 := by
      rw [h1]; push_cast; ring
    have hfl : ((j : ℚ) + 1 / 2).floor.toNat = j := floor_toNat_eq _ j (by linarith) (by linarith)
    have e1 : s.length % 2 = 0 := by omega
    have e2 : s.length / 2 = j + 1 := by omega
    unfold interp
    rw [hv, hfl, h1]
    have e3 : min (j + 1) (2 * j + 1) = j + 1 := by omega
    simp only [e1, e2, e3]
    norm_num
    ring
  · -- odd length 2m+1
    have h1 : s.length - 1 = 2 * m := by omega
    have hv : ((s.length - 1 : ℕ) : ℚ) * (50 / 100) = (m : ℚ) := by
      rw [h1]; push_cast; ring
    have hfl : ((m : ℚ)).floor.toNat = m := floor_toNat_eq _ m (by linarith) (by linarith)
    have e1 : s.length % 2 = 1 := by omega
    have e2 : s.length / 2 = m := by omega
    unfold interp
    rw [hv, hfl]
    simp [e1, e2]


lemma mapE_ok_iff_map {α β : Type} (f : α → Except String β) :
    ∀ (xs : List α) (ys : List β), mapE f xs = .ok ys ↔ xs.map f = ys.map Except.ok
  | [], ys => by
    cases ys <;> simp [mapE]
  | x :: xs, ys => by
    have ih := mapE_ok_iff_map f xs
    cases ys with
    | nil =>
      simp only [mapE, List.map_cons, List.map_nil]
      cases f x with
      | error e => simp
      | ok y =>
        cases mapE f xs with
        | error e => simp
        | ok zs => simp
    | cons y' ys' =>
      simp only [mapE, List.map_cons, List.cons.injEq]
      cases f x with
      | error e => simp
      | ok y =>
        cases hm : mapE f xs with
        | error e =>
          have := (ih ys').not.mp (by rw [hm]; simp)
          simp [this]
        | ok zs =>
          have hz := (ih zs).mp hm
          simp only [Except.ok.injEq, List.cons.injEq]
          constructor
          · rintro ⟨rfl, rfl⟩; exact ⟨rfl, hz⟩
          · rintro ⟨h1, h2⟩
            refine ⟨h1, ?_⟩
            have := (ih ys').mpr h2
            rw [hm] at this
            exact Except.ok.inj this

end CuqiVerif.C19
