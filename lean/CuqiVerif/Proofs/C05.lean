import CuqiVerif.Model.C05
import CuqiVerif.Proofs.RExpr
import Mathlib.Algebra.BigOperators.Group.Finset.Basic
import Mathlib.Algebra.BigOperators.Intervals
import Mathlib.Data.Rat.Defs
import Mathlib.Data.Rat.Lemmas
import Mathlib.Data.List.GetD
import Mathlib.Analysis.SpecialFunctions.Gamma.Basic
import Mathlib.Tactic.Ring
import Mathlib.Tactic.FieldSimp
import Mathlib.Tactic.Linarith

/-!
# C05 — helper lemmas (forward substitution on lists, exact square roots, environments)
-/
namespace CuqiVerif.C05
open CuqiVerif RExpr


lemma foldl_range_eq_sum (f : ℕ → ℚ) (k : ℕ) :
    (List.range k).foldl (fun acc j => acc + f j) 0 = ∑ j ∈ Finset.range k, f j := by
  induction k with
  | zero => simp
  | succ k ih => rw [List.range_succ, List.foldl_append, ih, Finset.sum_range_succ]; simp

lemma fwdXs_length (L : ℕ → ℕ → ℚ) (b : ℕ → ℚ) (k : ℕ) : (fwdXs L b k).length = k := by
  induction k with
  | zero => simp [fwdXs]
  | succ k ih => simp [fwdXs, ih]

lemma fwdXs_prefix (L : ℕ → ℕ → ℚ) (b : ℕ → ℚ) (j k : ℕ) (h : j < k) (m : ℕ) :
    (fwdXs L b (k + m)).getD j 0 = (fwdXs L b k).getD j 0 := by
  induction m with
  | zero => simp
  | succ m ih =>
    rw [← Nat.add_assoc]
    show (fwdXs L b (k + m) ++ _).getD j 0 = _
    rw [List.getD_append _ _ _ _ (by rw [fwdXs_length]; omega), ih]

/-- the value forward substitution assigns to unknown `i` -/
def fwdX (L : ℕ → ℕ → ℚ) (b : ℕ → ℚ) (i : ℕ) : ℚ := (fwdXs L b (i + 1)).getD i 0

lemma fwdXs_getD (L : ℕ → ℕ → ℚ) (b : ℕ → ℚ) (n i : ℕ) (h : i < n) :
    (fwdXs L b n).getD i 0 = fwdX L b i := by
  obtain ⟨m, rfl⟩ : ∃ m, n = (i + 1) + m := ⟨n - (i + 1), by omega⟩
  exact fwdXs_prefix L b i (i + 1) (by omega) m

lemma fwdX_eq (L : ℕ → ℕ → ℚ) (b : ℕ → ℚ) (i : ℕ) :
    fwdX L b i = (b i - ∑ j ∈ Finset.range i, L i j * fwdX L b j) / L i i := by
  unfold fwdX
  show (fwdXs L b i ++ _).getD i 0 = _
  rw [List.getD_append_right _ _ _ _ (by rw [fwdXs_length])]
  simp only [fwdXs_length, Nat.sub_self, List.getD_cons_zero]
  rw [foldl_range_eq_sum (fun j => L i j * (fwdXs L b i).getD j 0)]
  congr 2
  apply Finset.sum_congr rfl
  intro j hj
  rw [Finset.mem_range] at hj
  rw [fwdXs_getD L b i j hj]; rfl



lemma sqrtQ?_sq (q r : ℚ) (h : RExpr.sqrtQ? q = some r) : r * r = q := by
  unfold RExpr.sqrtQ? at h
  by_cases hq : q < 0
  · simp [hq] at h
  · simp only [hq, if_false] at h
    by_cases hc : Nat.sqrt q.num.natAbs * Nat.sqrt q.num.natAbs = q.num.natAbs ∧ Nat.sqrt q.den * Nat.sqrt q.den = q.den
    · simp only [hc, and_self, if_true, Option.some.injEq] at h
      subst h
      have hnum : (0 : ℤ) ≤ q.num := Rat.num_nonneg.mpr (not_lt.mp hq)
      have hd : Nat.sqrt q.den ≠ 0 := by
        intro h0; rw [h0] at hc; exact q.den_ne_zero hc.2.symm
      rw [Rat.mkRat_mul_mkRat]
      have h1 : ((Nat.sqrt q.num.natAbs : ℤ) * (Nat.sqrt q.num.natAbs : ℤ)) = q.num := by
        have := hc.1
        have h2 : ((Nat.sqrt q.num.natAbs * Nat.sqrt q.num.natAbs : ℕ) : ℤ) = (q.num.natAbs : ℤ) := by rw [this]
        rw [Nat.cast_mul, Int.natAbs_of_nonneg hnum] at h2
        exact h2
      rw [h1, hc.2]
      exact Rat.mkRat_self q
    · simp [hc] at h


/-- environment `x, p₁, p₂, p₃` -/
def env4 (x a b c : ℝ) : ℕ → ℝ := fun k => match k with | 0 => x | 1 => a | 2 => b | _ => c
@[simp] lemma env4_0 (x a b c : ℝ) : env4 x a b c 0 = x := rfl
@[simp] lemma env4_1 (x a b c : ℝ) : env4 x a b c 1 = a := rfl
@[simp] lemma env4_2 (x a b c : ℝ) : env4 x a b c 2 = b := rfl
@[simp] lemma env4_3 (x a b c : ℝ) : env4 x a b c 3 = c := rfl


/-- numpy's documented density of `RandomState.gamma(shape=k, scale=θ)` -/
noncomputable def numpyGammaPdf (k θ x : ℝ) : ℝ := x ^ (k - 1) * Real.exp (-x / θ) / (θ ^ k * Real.Gamma k)


/-- the code's `delta`, `mu` as real numbers -/
noncomputable def mhnDelta (α β γ : ℝ) : ℝ := eval (env4 0 α β γ) (Mhn.delta (var 1) (var 2) (var 3))
noncomputable def mhnMu (α β γ : ℝ) : ℝ := eval (env4 0 α β γ) (Mhn.mu (var 1) (var 2) (var 3))

lemma delta_indep (t α β γ : ℝ) : eval (env4 t α β γ) (Mhn.delta (var 1) (var 2) (var 3)) = mhnDelta α β γ := by
  simp [mhnDelta, Mhn.delta]
lemma mu_indep (t α β γ : ℝ) : eval (env4 t α β γ) (Mhn.mu (var 1) (var 2) (var 3)) = mhnMu α β γ := by
  simp [mhnMu, Mhn.mu]


end CuqiVerif.C05
