import CuqiVerif.Model.C09_target
import CuqiVerif.Proofs.C09
import CuqiVerif.Props.C01_full

/-!
# C09 — helper lemmas for `Props/C09_target.lean`

The object handed to a block sampler, computed by `Model/C09_target.lean` with the `JointDistribution`
model of C01, on a well-formed model graph (`C01.WF`).  The C01 development supplies: `st σ F` (the
density standing for factor `F` after the assignment `σ`), `condition_steps`, `reduce_rep`,
`rep_logd_ok`, `rep_paramNames`, `jointNames_st`, `total`, `total_congr`.
-/
namespace CuqiVerif.C09
open CuqiVerif.C01

variable {V K : Type} [AddCommMonoid K]

/-- names of the variables the assignment `σ` leaves free, in density order: `get_parameter_names()`
    of the conditioned joint -/
def freeNames (Fs : List (Factor V K)) (σ : Kw V) : List Name :=
  (Fs.filter (fun F => decide (F.name ∉ kwKeys σ))).map (·.name)

/-- the factors that have `n` among their conditioning variables: the children of `n` in the model graph -/
def childrenOf (Fs : List (Factor V K)) (n : Name) : List (Factor V K) :=
  Fs.filter (fun F => decide (n ∈ F.params))

omit [AddCommMonoid K] in
lemma freeNames_nodup (Fs : List (Factor V K)) (hw : WF Fs) (σ : Kw V) : (freeNames Fs σ).Nodup :=
  (List.filter_sublist.map _).nodup hw.nodup

omit [AddCommMonoid K] in
lemma mem_freeNames (Fs : List (Factor V K)) (σ : Kw V) (n : Name) :
    n ∈ freeNames Fs σ ↔ n ∈ Fs.map (·.name) ∧ n ∉ kwKeys σ := by
  unfold freeNames
  simp only [List.mem_map, List.mem_filter, decide_eq_true_eq]
  constructor
  · rintro ⟨F, ⟨hF, hn⟩, rfl⟩; exact ⟨⟨F, hF, rfl⟩, hn⟩
  · rintro ⟨⟨F, hF, rfl⟩, hn⟩; exact ⟨F, ⟨hF, hn⟩, rfl⟩

/-- number of distributions left in the conditioned joint = number of free variables -/
lemma length_dists (Fs : List (Factor V K)) (σ : Kw V) :
    ((Fs.map (st σ)).filter Dens.isDist).length = (freeNames Fs σ).length := by
  rw [filter_isDist_map, List.length_map]
  have := congrArg List.length (jointNames_eq Fs σ)
  rw [jointNames_st, List.length_map, List.length_map] at this
  unfold freeNames
  rw [List.length_map]
  exact this.symm

/-- with at least two variables left free `_reduce_to_single_density` returns the joint itself -/
lemma reduce_joint_of_two (Fs : List (Factor V K)) (σ : Kw V) (fl : Flavor)
    (h2 : 2 ≤ (freeNames Fs σ).length) :
    reduce fl (Fs.map (st σ)) = .ok (.joint fl (Fs.map (st σ))) := by
  unfold reduce
  have : ((Fs.map (st σ)).filter Dens.isDist).length > 1 := by rw [length_dists]; omega
  simp only [this, if_true]

omit [AddCommMonoid K] in
lemma kwKeys_others (names : List Name) (cur : Name → V) (n : Name) :
    kwKeys (others names cur n) = names.filter (fun m => m != n) := by
  unfold others kwKeys
  rw [List.map_map]
  exact List.map_id' _

omit [AddCommMonoid K] in
lemma kwGet_map_pair (l : List Name) (f : Name → V) (x : Name) :
    kwGet (l.map (fun m => (m, f m))) x = if x ∈ l then some (f x) else none := by
  induction l with
  | nil => simp [kwGet]
  | cons a r ih =>
    simp only [List.map_cons, kwGet, List.mem_cons]
    by_cases h : a = x
    · subst h; simp
    · have h' : ¬ x = a := fun e => h e.symm
      simp [h, h', ih]

omit [AddCommMonoid K] in
lemma kwGet_others (names : List Name) (cur : Name → V) (n x : Name) :
    kwGet (others names cur n) x = if x ∈ names ∧ x ≠ n then some (cur x) else none := by
  unfold others
  rw [kwGet_map_pair]
  simp [List.mem_filter]

omit [AddCommMonoid K] in
lemma kwGet_tuple (names : List Name) (cur : Name → V) (x : Name) :
    kwGet (tuple names cur) x = if x ∈ names then some (cur x) else none := by
  unfold tuple
  exact kwGet_map_pair names cur x

omit [AddCommMonoid K] in
/-- after conditioning on the data and on all other blocks exactly block `n` is free -/
lemma freeNames_handed (Fs : List (Factor V K)) (hw : WF Fs) (σ₀ : Kw V) (cur : Name → V) (n : Name)
    (hn : n ∈ freeNames Fs σ₀) :
    freeNames Fs (σ₀ ++ others (freeNames Fs σ₀) cur n) = [n] := by
  apply eq_singleton_of
  · obtain ⟨hF, hk⟩ := (mem_freeNames Fs σ₀ n).1 hn
    have : n ∈ freeNames Fs (σ₀ ++ others (freeNames Fs σ₀) cur n) := by
      rw [mem_freeNames]
      refine ⟨hF, ?_⟩
      rw [kwKeys_append, List.mem_append, kwKeys_others]
      rintro (h | h)
      · exact hk h
      · simp at h
    exact List.ne_nil_of_mem this
  · exact freeNames_nodup Fs hw _
  · intro x hx
    obtain ⟨hF, hk⟩ := (mem_freeNames Fs _ x).1 hx
    rw [kwKeys_append, List.mem_append, kwKeys_others] at hk
    by_contra hne
    apply hk
    right
    rw [List.mem_filter]
    refine ⟨(mem_freeNames Fs σ₀ x).2 ⟨hF, fun h => hk (Or.inl h)⟩, ?_⟩
    simpa using hne

/-- the complete assignment "data, every other block at its current value, block `n` at `v`" gives
    every variable the same value as "data, the current tuple with block `n` replaced by `v`" -/
lemma total_handed (Fs : List (Factor V K)) (hw : WF Fs) (σ₀ : Kw V) (cur : Name → V) (n : Name) (v : V)
    (hn : n ∈ freeNames Fs σ₀) :
    total Fs ((σ₀ ++ others (freeNames Fs σ₀) cur n) ++ [(n, v)])
      = total Fs (σ₀ ++ tuple (freeNames Fs σ₀) (upd cur n v)) := by
  apply total_congr Fs hw
  intro m _
  rw [kwGet_append, kwGet_append, kwGet_append, kwGet_others, kwGet_tuple]
  cases hσ : kwGet σ₀ m with
  | some d => rfl
  | none =>
    by_cases hm : m ∈ freeNames Fs σ₀
    · by_cases hmn : m = n
      · subst hmn; simp [kwGet, upd, hm]
      · simp [hm, hmn, upd]
    · have hmn : m ≠ n := fun e => hm (e ▸ hn)
      simp [hm, kwGet, hmn.symm]

omit [AddCommMonoid K] in
lemma mem_freeNames_of_singleton (Fs : List (Factor V K)) (σ : Kw V) (n p : Name)
    (h1 : freeNames Fs σ = [n]) (hp : p ∈ Fs.map (·.name)) (hk : p ∉ kwKeys σ) : p = n := by
  have : p ∈ freeNames Fs σ := (mem_freeNames Fs σ p).2 ⟨hp, hk⟩
  rw [h1] at this
  simpa using this

/-- when exactly `n` is left free, the fixed densities that are still likelihoods are the children of `n` -/
lemma isLik_st_of_one_free (Fs : List (Factor V K)) (hw : WF Fs) (σ : Kw V) (n : Name)
    (h1 : freeNames Fs σ = [n]) (F : Factor V K) (hF : F ∈ Fs) :
    (st σ F).isLik = decide (n ∈ F.params) := by
  have hnfree : n ∉ kwKeys σ := ((mem_freeNames Fs σ n).1 (by rw [h1]; simp)).2
  rcases st_cases σ F with ⟨h, hs⟩ | ⟨d, h, hfree, hs⟩ | ⟨d, h, hfree, hs⟩
  · -- `F` itself is free: `F.name = n`, and no factor conditions on itself
    have hk := (kwGet_eq_none_iff σ F.name).1 h
    have hFn : F.name = n := mem_freeNames_of_singleton Fs σ n F.name h1 (List.mem_map.2 ⟨F, hF, rfl⟩) hk
    have : n ∉ F.params := hFn ▸ (hw.fok F hF).noself
    simp [hs, Dens.isLik, this]
  · obtain ⟨p, hp⟩ := List.exists_mem_of_ne_nil _ hfree
    obtain ⟨hpp, hpk⟩ := (mem_free_penv F σ p).1 hp
    have : p = n := mem_freeNames_of_singleton Fs σ n p h1 (hw.closed F hF p hpp) hpk
    subst this
    simp [hs, Dens.isLik, hpp]
  · have : n ∉ F.params := by
      intro hn
      have : n ∈ free F (penv F σ) := (mem_free_penv F σ n).2 ⟨hn, hnfree⟩
      rw [hfree] at this
      simp at this
    simp [hs, Dens.isLik, this]

lemma filter_isLik_of_one_free (Fs : List (Factor V K)) (hw : WF Fs) (σ : Kw V) (n : Name)
    (h1 : freeNames Fs σ = [n]) :
    Fs.filter (fun F => (st σ F).isLik) = childrenOf Fs n := by
  unfold childrenOf
  apply List.filter_congr
  intro F hF
  exact isLik_st_of_one_free Fs hw σ n h1 F hF

end CuqiVerif.C09
