import CuqiVerif.Proofs.C13_shapes

/-!
# helper lemmas for `Props/C13_total.lean`: conversion chains never fail
-/

namespace CuqiVerif.C13

section abstract
variable {X : Type} {M : Sys X} {RP RF RV : X → X → Prop}

/-- under `Lossless`, with a vector representation defined on well-formed function values, every single
    conversion request succeeds on a sample satisfying the chain invariant -/
lemma Sys.Lossless.convert_total (L : M.Lossless RP RF RV) (hT : ∀ f, RF f f → ∃ v, M.f2v f = some v)
    (p : X) (hp : RP p p) (c : Conv) (s : St X) (hI : M.Inv RP RF RV p s) :
    ∃ s', M.convert c s = some s' := by
  cases c with
  | parameters =>
    obtain ⟨s'', h, _, _⟩ := L.inv_parameters p hp s hI
    exact ⟨s'', h⟩
  | funvals =>
    by_cases h0 : (!s.isPar && !s.isVec) = true
    · exact ⟨s, Sys.convert_funvals_noop M s h0⟩
    · rw [Sys.convert_funvals_conv M s h0]
      unfold Sys.Inv at hI
      cases hpar : s.isPar with
      | true =>
        simp only [hpar, if_true] at hI ⊢
        obtain ⟨y, _, h1, _, _⟩ := L.hp2f _ _ hI
        exact ⟨_, by rw [h1]; rfl⟩
      | false =>
        have hv : s.isVec = true := by
          cases hv : s.isVec with
          | true => rfl
          | false => simp [hpar, hv] at h0
        simp only [hpar, hv, Bool.false_eq_true, if_false, Bool.not_true] at hI ⊢
        obtain ⟨f, v, _, _, hrv⟩ := hI
        obtain ⟨f1, _, h1, _, _⟩ := L.hv2f _ _ hrv
        exact ⟨_, by rw [h1]; rfl⟩
  | vector =>
    by_cases h0 : (s.isVec || s.isPar) = true
    · exact ⟨s, Sys.convert_vector_noop M s h0⟩
    · rw [Sys.convert_vector_conv M s h0]
      have hpar : s.isPar = false := by cases h : s.isPar <;> simp_all
      have hv : s.isVec = false := by cases h : s.isVec <;> simp_all
      unfold Sys.Inv at hI
      simp only [hpar, hv, Bool.false_eq_true, if_false, Bool.not_false, if_true] at hI
      obtain ⟨f, _, hrf⟩ := hI
      have hrefl : RF s.data s.data := L.transF _ _ _ hrf (L.symF _ _ hrf)
      obtain ⟨v, h1⟩ := hT _ hrefl
      exact ⟨_, by rw [h1]; rfl⟩

/-- … hence every chain of requests runs through, and the invariant holds at its end -/
lemma Sys.Lossless.chain_total (L : M.Lossless RP RF RV) (hT : ∀ f, RF f f → ∃ v, M.f2v f = some v)
    (p : X) (hp : RP p p) : ∀ (cs : List Conv) (s : St X), M.Inv RP RF RV p s →
      ∃ s', M.chain cs s = some s' := by
  intro cs
  induction cs with
  | nil => intro s _; exact ⟨s, rfl⟩
  | cons c cs ih =>
    intro s hI
    obtain ⟨s1, h1⟩ := L.convert_total hT p hp c s hI
    obtain ⟨s2, h2⟩ := ih s1 (L.convert_inv p hp c s s1 hI h1)
    exact ⟨s2, by simp only [Sys.chain, h1, Option.bind_some]; exact h2⟩

end abstract

/-- converse of `samples_convert_col`: if the per-sample conversion succeeds on every sample of a
    non-empty collection, the conversion of the collection succeeds -/
lemma samples_convert_of_cols (g : Geom) (c : Conv) (s : Samples) (hns : 0 < s.ns)
    (h : ∀ i, i < s.ns → ∃ t, (sysOf g).convert c (s.colSt s.ns i) = some t) :
    ∃ s', Samples.convert g c s = some s' := by
  have : Nonempty Arr := ⟨⟨[], fun _ => 0⟩⟩
  cases c with
  | funvals =>
    simp only [Samples.convert, Samples.funvals]
    by_cases h0 : (!s.isPar && !s.isVec) = true
    · exact ⟨s, by rw [if_pos h0]⟩
    · rw [if_neg h0]
      have hc : ∀ i, i < s.ns → ∃ d, (if s.isPar then (sysOf g).p2f else (sysOf g).v2f) (s.arr.col s.ns i) = some d := by
        intro i hi
        obtain ⟨t, ht⟩ := h i hi
        rw [Sys.convert_funvals_conv _ (s.colSt s.ns i) h0] at ht
        obtain ⟨d, hd, _⟩ := Option.map_eq_some_iff.mp ht
        exact ⟨d, hd⟩
      cases hfs : g.funShape with
      | none =>
        obtain ⟨d, hd⟩ := hc 0 hns
        cases hp : s.isPar <;> simp [sysOf, hfs, hp] at hd
      | some fs =>
        simp only
        have hc' : ∀ i, i < s.ns → ∃ d, ((if s.isPar then g.par2fun else g.vec2fun) (s.arr.col s.ns i)).bind
            (fun v => broadcastTo v fs) = some d := by
          intro i hi
          obtain ⟨d, hd⟩ := hc i hi
          refine ⟨d, ?_⟩
          cases hp : s.isPar with
          | true => simpa [sysOf, hfs, hp] using hd
          | false => simpa [sysOf, hfs, hp] using hd
        choose! D hD using hc'
        obtain ⟨out, ho, _, _⟩ := convertAll_spec fs s _ D hD
        exact ⟨_, by rw [ho]; rfl⟩
  | vector =>
    simp only [Samples.convert, Samples.vector]
    by_cases h0 : (s.isVec || s.isPar) = true
    · exact ⟨s, by rw [if_pos h0]⟩
    · rw [if_neg h0]
      have hc : ∀ i, i < s.ns → ∃ d, (sysOf g).f2v (s.arr.col s.ns i) = some d := by
        intro i hi
        obtain ⟨t, ht⟩ := h i hi
        rw [Sys.convert_vector_conv _ (s.colSt s.ns i) h0] at ht
        obtain ⟨d, hd, _⟩ := Option.map_eq_some_iff.mp ht
        exact ⟨d, hd⟩
      cases hvs : g.funvecShape with
      | none =>
        obtain ⟨d, hd⟩ := hc 0 hns
        simp [sysOf, hvs] at hd
      | some vs =>
        simp only
        have hc' : ∀ i, i < s.ns → ∃ d, ((fun x => optOfExcept (g.fun2vec x)) (s.arr.col s.ns i)).bind
            (fun v => broadcastTo v [prod vs]) = some d := by
          intro i hi
          obtain ⟨d, hd⟩ := hc i hi
          exact ⟨d, by simpa [sysOf, hvs] using hd⟩
        choose! D hD using hc'
        obtain ⟨out, ho, _, _⟩ := convertAll_spec [prod vs] s (fun x => optOfExcept (g.fun2vec x)) D hD
        exact ⟨_, by rw [ho]; rfl⟩
  | parameters =>
    simp only [Samples.convert, Samples.parameters]
    by_cases h0 : s.isPar = true
    · exact ⟨s, by rw [if_pos h0]⟩
    · rw [if_neg h0]
      have hc : ∀ i, i < s.ns → ∃ d, (if !s.isVec then (sysOf g).f2p else (sysOf g).v2p) (s.arr.col s.ns i) = some d := by
        intro i hi
        obtain ⟨t, ht⟩ := h i hi
        rw [Sys.convert_parameters_conv _ (s.colSt s.ns i) h0] at ht
        obtain ⟨d, hd, _⟩ := Option.map_eq_some_iff.mp ht
        exact ⟨d, hd⟩
      have hc' : ∀ i, i < s.ns → ∃ d, ((if !s.isVec then fun x => optOfExcept (g.fun2par x)
          else fun x => (g.vec2fun x).bind (fun f => optOfExcept (g.fun2par f))) (s.arr.col s.ns i)).bind
          (fun v => broadcastTo v [prod g.parShape]) = some d := by
        intro i hi
        obtain ⟨d, hd⟩ := hc i hi
        refine ⟨d, ?_⟩
        cases hv : s.isVec with
        | true => simpa [sysOf, hv] using hd
        | false => simpa [sysOf, hv] using hd
      choose! D hD using hc'
      obtain ⟨out, ho, _, _⟩ := convertAll_spec [prod g.parShape] s _ D hD
      exact ⟨_, by rw [ho]; rfl⟩

end CuqiVerif.C13
