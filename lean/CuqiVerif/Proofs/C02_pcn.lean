import CuqiVerif.Proofs.C02_density
import CuqiVerif.Props.C05_law
import Mathlib.Probability.Distributions.Gaussian.Fernique
import Mathlib.Analysis.SpecialFunctions.Complex.Arg

/-!
# C02 — helper definitions and lemmas for `Props/C02_pcn.lean`

The pCN proposal `x* = a·x + s·ξ` as a Mathlib `Kernel` on a separable Banach space `E`
(`pcnKernel μ a s x = law of a•x + s•ξ, ξ ~ μ`), the joint law of (state, proposal) under
`x ~ μ` (`pcnPair`), and the reflection `(x, ξ) ↦ (a x + s ξ, s x − a ξ)` (`pcnReflect`) which
preserves `μ ⊗ μ` for a centred Gaussian `μ` when `a² + s² = 1` (Mathlib's rotation invariance
`IsGaussian.map_rotation_eq_self` + symmetry of a centred Gaussian).  `E = ι → ℝ` with
`μ = gaussDrawLaw 0 B` (the law of `B ξ`, `ξ = rng.randn(n)`, i.e. `N(0, B Bᵀ)`) is the instance
the code runs.
-/

open MeasureTheory ProbabilityTheory Matrix WithLp
open scoped ENNReal
open CuqiVerif.C05

namespace CuqiVerif.C02

/-- a point of the unit circle is `(cos θ, sin θ)` -/
lemma exists_angle (a s : ℝ) (h : a ^ 2 + s ^ 2 = 1) : ∃ θ : ℝ, Real.cos θ = a ∧ Real.sin θ = s := by
  have hz : ‖(⟨a, s⟩ : ℂ)‖ = 1 := by
    rw [Complex.norm_def, Complex.normSq_mk, ← sq, ← sq, h, Real.sqrt_one]
  obtain ⟨θ, hθ⟩ := (Complex.norm_eq_one_iff _).1 hz
  refine ⟨θ, ?_, ?_⟩
  · have := congrArg Complex.re hθ
    rwa [Complex.exp_ofReal_mul_I_re] at this
  · have := congrArg Complex.im hθ
    rwa [Complex.exp_ofReal_mul_I_im] at this

section algebra
variable {E : Type*} [AddCommGroup E] [Module ℝ E]

/-- the pCN move `(x, ξ) ↦ a x + s ξ` (generic version of the executable `pcnPropose`,
    see `pcnPropose_eq_pcnMove`) -/
def pcnMove (a s : ℝ) (p : E × E) : E := a • p.1 + s • p.2

/-- the reflection `(x, ξ) ↦ (a x + s ξ, s x − a ξ)` -/
def pcnReflect (a s : ℝ) (p : E × E) : E × E := (a • p.1 + s • p.2, s • p.1 - a • p.2)

/-- (current state, proposal) as a function of (state, noise) -/
def pcnPair (a s : ℝ) (p : E × E) : E × E := (p.1, pcnMove a s p)

/-- proposing from the reflected pair gives the swapped pair: with `y = a x + s ξ`,
    `ξ' = s x − a ξ` one has `a y + s ξ' = x` (this is the `ξ'` of `pcn_ratio`) -/
lemma pcnPair_comp_reflect (a s : ℝ) (h : a ^ 2 + s ^ 2 = 1) :
    pcnPair (E := E) a s ∘ pcnReflect a s = Prod.swap ∘ pcnPair a s := by
  ext p
  · simp [pcnPair, pcnMove, pcnReflect]
  · simp only [pcnPair, pcnMove, pcnReflect, Function.comp_apply, Prod.swap_prod_mk]
    rw [smul_add, smul_sub, smul_smul, smul_smul, smul_smul, smul_smul, mul_comm s a]
    have : p.1 = (a ^ 2 + s ^ 2) • p.1 := by rw [h, one_smul]
    conv_rhs => rw [this]
    rw [add_smul, sq, sq]
    abel

end algebra

section generic
variable {E : Type*} [NormedAddCommGroup E] [NormedSpace ℝ E] [MeasurableSpace E] [BorelSpace E]
  [SecondCountableTopology E]

lemma measurable_pcnMove (a s : ℝ) : Measurable (pcnMove (E := E) a s) := by
  unfold pcnMove; fun_prop

lemma measurable_pcnReflect (a s : ℝ) : Measurable (pcnReflect (E := E) a s) := by
  unfold pcnReflect; fun_prop

lemma measurable_pcnPair (a s : ℝ) : Measurable (pcnPair (E := E) a s) := by
  unfold pcnPair pcnMove; fun_prop

/-- **the pCN proposal kernel**: `x ↦ law of a•x + s•ξ`, `ξ ~ μ` — the push-forward of
    `δ_x ⊗ μ` under `pcnMove`, so measurability in `x` is part of the object. -/
noncomputable def pcnKernel (μ : Measure E) [SFinite μ] (a s : ℝ) : ProbabilityTheory.Kernel E E :=
  ((ProbabilityTheory.Kernel.id : ProbabilityTheory.Kernel E E) ×ₖ
    ProbabilityTheory.Kernel.const E μ).map (pcnMove a s)

lemma pcnKernel_apply (μ : Measure E) [SFinite μ] (a s : ℝ) (x : E) :
    pcnKernel μ a s x = μ.map (fun ξ => a • x + s • ξ) := by
  unfold pcnKernel
  rw [ProbabilityTheory.Kernel.map_apply _ (measurable_pcnMove a s),
    ProbabilityTheory.Kernel.prod_apply, ProbabilityTheory.Kernel.id_apply,
    ProbabilityTheory.Kernel.const_apply, Measure.dirac_prod,
    Measure.map_map (measurable_pcnMove a s) measurable_prodMk_left]
  rfl

instance (μ : Measure E) [IsProbabilityMeasure μ] (a s : ℝ) : IsMarkovKernel (pcnKernel μ a s) :=
  ⟨fun x => by
    rw [pcnKernel_apply]
    exact Measure.isProbabilityMeasure_map (by fun_prop)⟩

/-- flow of the pCN kernel through a rectangle = joint law of (state, proposal) of the rectangle -/
lemma setLIntegral_pcnKernel (μ : Measure E) [SFinite μ] (a s : ℝ) {A B : Set E}
    (hA : MeasurableSet A) (hB : MeasurableSet B) :
    ∫⁻ x in A, pcnKernel μ a s x B ∂μ = (μ.prod μ).map (pcnPair a s) (A ×ˢ B) := by
  rw [Measure.map_apply (measurable_pcnPair a s) (hA.prod hB),
    Measure.prod_apply ((measurable_pcnPair a s) (hA.prod hB)), ← lintegral_indicator hA]
  refine lintegral_congr (fun x => ?_)
  by_cases hx : x ∈ A
  · rw [Set.indicator_of_mem hx, pcnKernel_apply, Measure.map_apply (by fun_prop) hB]
    congr 1
    ext ξ
    simp [pcnPair, pcnMove, hx]
  · rw [Set.indicator_of_notMem hx]
    have : Prod.mk x ⁻¹' (pcnPair a s ⁻¹' A ×ˢ B) = ∅ := by
      ext ξ
      simp [pcnPair, hx]
    rw [this, measure_empty]

/-- exchangeability of (state, proposal) under `x ~ μ` is reversibility of the proposal kernel -/
lemma pcnKernel_isReversible_of_swap (μ : Measure E) [SFinite μ] (a s : ℝ)
    (hsw : ((μ.prod μ).map (pcnPair a s)).map Prod.swap = (μ.prod μ).map (pcnPair a s)) :
    (pcnKernel μ a s).IsReversible μ := by
  intro A B hA hB
  rw [setLIntegral_pcnKernel μ a s hA hB, setLIntegral_pcnKernel μ a s hB hA, ← hsw,
    Measure.map_apply measurable_swap (hA.prod hB), Set.preimage_swap_prod, hsw]

/-- one step from `x ~ μ`: the law of `a X + s ξ`, `(X, ξ) ~ μ ⊗ μ` -/
lemma bind_pcnKernel (μ : Measure E) [SFinite μ] (a s : ℝ) :
    μ.bind (pcnKernel μ a s) = (μ.prod μ).map (pcnMove a s) := by
  ext S hS
  rw [Measure.bind_apply hS (ProbabilityTheory.Kernel.aemeasurable _),
    Measure.map_apply (measurable_pcnMove a s) hS,
    Measure.prod_apply ((measurable_pcnMove a s) hS)]
  refine lintegral_congr (fun x => ?_)
  rw [pcnKernel_apply, Measure.map_apply (by fun_prop) hS]
  rfl

/-- the mean of any continuous linear functional after one proposal step from `μ` -/
lemma integral_dual_map_pcnMove (μ : Measure E) [IsProbabilityMeasure μ] (a s : ℝ)
    (L : StrongDual ℝ E) (hL : Integrable L μ) :
    ∫ y, L y ∂((μ.prod μ).map (pcnMove a s)) = (a + s) * ∫ x, L x ∂μ := by
  rw [integral_map (measurable_pcnMove a s).aemeasurable L.continuous.aestronglyMeasurable]
  have h1 : ∀ p : E × E, L (pcnMove a s p) = a * L p.1 + s * L p.2 := by
    intro p; simp [pcnMove]
  simp_rw [h1]
  rw [integral_add ((hL.comp_fst μ).const_mul a) ((hL.comp_snd μ).const_mul s),
    integral_const_mul, integral_const_mul, integral_fun_fst, integral_fun_snd]
  simp only [probReal_univ, one_smul]
  ring

variable [CompleteSpace E]

/-- a centred Gaussian measure is symmetric -/
lemma map_neg_eq_self_of_centered (μ : Measure E) [IsGaussian μ] (hμ : μ[id] = 0) :
    μ.map (fun x => -x) = μ := by
  have h := IsGaussian.map_rotation_eq_self hμ Real.pi
  have h2 := congrArg (fun ν => ν.map Prod.fst) h
  rw [Measure.map_map measurable_fst (by fun_prop), Measure.map_fst_prod] at h2
  have hf : (Prod.fst ∘ ⇑(ContinuousLinearMap.rotation (E := E) Real.pi)) = (fun x => -x) ∘ Prod.fst := by
    ext p
    simp [ContinuousLinearMap.rotation_apply]
  rw [hf, ← Measure.map_map (by fun_prop) measurable_fst, Measure.map_fst_prod] at h2
  simpa using h2

/-- **the reflection preserves `μ ⊗ μ`** for a centred Gaussian `μ` and `a² + s² = 1` -/
lemma map_pcnReflect_eq_self (μ : Measure E) [IsGaussian μ] (hμ : μ[id] = 0) (a s : ℝ)
    (h : a ^ 2 + s ^ 2 = 1) : (μ.prod μ).map (pcnReflect a s) = μ.prod μ := by
  obtain ⟨θ, hc, hs⟩ := exists_angle a s h
  have hrot := IsGaussian.map_rotation_eq_self hμ θ
  have hneg := map_neg_eq_self_of_centered μ hμ
  have hcomp : pcnReflect (E := E) a s
      = (Prod.map id (fun x => -x)) ∘ ⇑(ContinuousLinearMap.rotation (E := E) θ) := by
    ext p
    · simp [pcnReflect, ContinuousLinearMap.rotation_apply, hc, hs]
    · simp [pcnReflect, ContinuousLinearMap.rotation_apply, hc, hs]; abel
  rw [hcomp, ← Measure.map_map (by fun_prop) (by fun_prop), hrot,
    ← Measure.map_prod_map _ _ measurable_id (by fun_prop), hneg, Measure.map_id]

/-- (state, proposal) is exchangeable under a centred Gaussian prior -/
lemma pcnPair_swap (μ : Measure E) [IsGaussian μ] (hμ : μ[id] = 0) (a s : ℝ)
    (h : a ^ 2 + s ^ 2 = 1) :
    ((μ.prod μ).map (pcnPair a s)).map Prod.swap = (μ.prod μ).map (pcnPair a s) := by
  rw [Measure.map_map measurable_swap (measurable_pcnPair a s), ← pcnPair_comp_reflect a s h,
    ← Measure.map_map (measurable_pcnPair a s) (measurable_pcnReflect a s),
    map_pcnReflect_eq_self μ hμ a s h]

end generic

/-! ### transport of a reversible kernel by a measurable bijection; flat likelihood -/

section transport
variable {X : Type*} [MeasurableSpace X]

/-- conjugating a kernel by a measurable bijection `e`: `x ↦ e_* κ(e⁻¹ x)` -/
noncomputable def conjKernel (e : X ≃ᵐ X) (κ : ProbabilityTheory.Kernel X X) : ProbabilityTheory.Kernel X X :=
  (κ.comap e.symm e.symm.measurable).map e

lemma conjKernel_apply (e : X ≃ᵐ X) (κ : ProbabilityTheory.Kernel X X) (x : X) :
    conjKernel e κ x = (κ (e.symm x)).map e := by
  unfold conjKernel
  rw [ProbabilityTheory.Kernel.map_apply _ e.measurable, ProbabilityTheory.Kernel.comap_apply]

lemma conjKernel_isReversible (e : X ≃ᵐ X) {κ : ProbabilityTheory.Kernel X X} {μ : Measure X}
    (h : κ.IsReversible μ) : (conjKernel e κ).IsReversible (μ.map e) := by
  intro A B hA hB
  rw [setLIntegral_map hA (ProbabilityTheory.Kernel.measurable_coe _ hB) e.measurable,
    setLIntegral_map hB (ProbabilityTheory.Kernel.measurable_coe _ hA) e.measurable]
  simp only [conjKernel_apply, MeasurableEquiv.symm_apply_apply]
  simp_rw [Measure.map_apply e.measurable hB, Measure.map_apply e.measurable hA]
  exact h (e.measurable hA) (e.measurable hB)

/-- with a flat likelihood and a Markov proposal every move is accepted: the MH kernel IS the proposal -/
lemma mhKernelR_flat (Q : ProbabilityTheory.Kernel X X) [IsMarkovKernel Q] :
    mhKernelR Q (fun _ => 1) (fun _ _ => 1) = Q := by
  ext x B hB
  unfold mhKernelR
  rw [accKernelR_apply Q measurable_const (measurable_mhAlphaD measurable_const measurable_const) x hB]
  have h1 : ∀ y, moveDens (fun _ _ : X => (1:ℝ)) (mhAlphaD (fun _ => 1) (fun _ _ => 1)) x y = 1 := by
    intro y; simp [moveDens, mhAlphaD]
  have h2 : rejProbR Q (fun _ _ : X => (1:ℝ)) (mhAlphaD (fun _ => 1) (fun _ _ => 1)) x = 0 := by
    unfold rejProbR; simp [h1]
  simp [h1, h2]

lemma targetMeasure_one (μ : Measure X) : targetMeasure μ (fun _ => 1) = μ := by
  unfold targetMeasure; simp

end transport

/-! ### the mean-corrected proposal -/

section shifted
variable {E : Type*} [NormedAddCommGroup E] [NormedSpace ℝ E] [MeasurableSpace E] [BorelSpace E]
  [SecondCountableTopology E]

/-- the mean-corrected pCN proposal for a prior `ν` with mean `m`:
    `x ↦ law of m + a (x − m) + s (ξ − m)`, `ξ ~ ν` (`pcnKernelMean_apply`) -/
noncomputable def pcnKernelMean (ν : Measure E) [SFinite ν] (m : E) (a s : ℝ) :
    ProbabilityTheory.Kernel E E :=
  conjKernel (MeasurableEquiv.addRight m) (pcnKernel (ν.map (fun x => x - m)) a s)

lemma pcnKernelMean_apply (ν : Measure E) [SFinite ν] (m : E) (a s : ℝ) (x : E) :
    pcnKernelMean ν m a s x = ν.map (fun ξ => m + a • (x - m) + s • (ξ - m)) := by
  unfold pcnKernelMean
  rw [conjKernel_apply, pcnKernel_apply, Measure.map_map (by fun_prop) (by fun_prop),
    Measure.map_map (by fun_prop) (by fun_prop)]
  congr 1
  ext ξ
  simp [sub_eq_add_neg]
  abel

instance (ν : Measure E) [IsProbabilityMeasure ν] (m : E) (a s : ℝ) :
    IsMarkovKernel (pcnKernelMean ν m a s) :=
  ⟨fun x => by
    rw [pcnKernelMean_apply]
    exact Measure.isProbabilityMeasure_map (by fun_prop)⟩

variable [CompleteSpace E]

lemma pcnKernelMean_isReversible (ν : Measure E) [IsGaussian ν] (m : E) (hm : ν[id] = m) (a s : ℝ)
    (h : a ^ 2 + s ^ 2 = 1) : (pcnKernelMean ν m a s).IsReversible ν := by
  have hc : (ν.map (fun x => x - m))[id] = 0 := by
    rw [integral_map (by fun_prop) (by fun_prop)]
    simp only [id_eq]
    rw [integral_sub IsGaussian.integrable_fun_id (integrable_const m), integral_const]
    simp only [id_eq] at hm
    simp [hm]
  have hrev := pcnKernel_isReversible_of_swap (ν.map (fun x => x - m)) a s
    (pcnPair_swap _ hc a s h)
  have hν : (ν.map (fun x => x - m)).map (MeasurableEquiv.addRight m) = ν := by
    rw [Measure.map_map (MeasurableEquiv.measurable _) (by fun_prop)]
    have : (⇑(MeasurableEquiv.addRight m) ∘ fun x : E => x - m) = id := by
      ext x; simp
    rw [this, Measure.map_id]
  have := conjKernel_isReversible (MeasurableEquiv.addRight m) hrev
  rwa [hν] at this

end shifted

/-! ### covariance structure of (state, proposal) -/

section cov
variable {E : Type*} [NormedAddCommGroup E] [NormedSpace ℝ E] [MeasurableSpace E] [BorelSpace E]
  [SecondCountableTopology E]

lemma pcn_cross_cov (μ : Measure E) [IsGaussian μ] (a s : ℝ) (L1 L2 : StrongDual ℝ E) :
    cov[fun p => L1 p.1, fun p => L2 p.2; (μ.prod μ).map (pcnPair a s)] = a * cov[L1, L2; μ] := by
  rw [covariance_map (by fun_prop) (by fun_prop) (measurable_pcnPair a s).aemeasurable]
  have e2 : (fun p : E × E => L2 p.2) ∘ pcnPair a s
      = (fun p => a * L2 p.1) + (fun p => s * L2 p.2) := by
    ext p; simp [pcnPair, pcnMove]
  have e1 : (fun p : E × E => L1 p.1) ∘ pcnPair a s = fun p => L1 p.1 := rfl
  have m1 := IsGaussian.memLp_dual μ L1 2 (by simp)
  have m2 := IsGaussian.memLp_dual μ L2 2 (by simp)
  rw [e1, e2, covariance_add_right (m1.comp_fst μ) ((m2.comp_fst μ).const_mul a)
    ((m2.comp_snd μ).const_mul s), covariance_const_mul_right, covariance_const_mul_right,
    covariance_fst_snd_prod m1 m2, mul_zero, add_zero]
  congr 1
  have h := covariance_map (μ := μ.prod μ) (Z := Prod.fst) (X := L1) (Y := L2)
    (by fun_prop) (by fun_prop) measurable_fst.aemeasurable
  rw [Measure.map_fst_prod, measure_univ, one_smul] at h
  exact h.symm

lemma pcnPair_map_fst (μ : Measure E) [IsProbabilityMeasure μ] (a s : ℝ) :
    ((μ.prod μ).map (pcnPair a s)).map Prod.fst = μ := by
  rw [Measure.map_map measurable_fst (measurable_pcnPair a s)]
  have : Prod.fst ∘ pcnPair (E := E) a s = Prod.fst := rfl
  rw [this, Measure.map_fst_prod, measure_univ, one_smul]

lemma pcnPair_map_snd [CompleteSpace E] (μ : Measure E) [IsGaussian μ] (hμ : μ[id] = 0) (a s : ℝ)
    (h : a ^ 2 + s ^ 2 = 1) :
    ((μ.prod μ).map (pcnPair a s)).map Prod.snd = μ := by
  rw [← pcnPair_swap μ hμ a s h, Measure.map_map measurable_snd measurable_swap]
  exact pcnPair_map_fst μ a s

end cov

/-! ### the instance the code runs: `ι → ℝ`, prior = law of `m + B ξ`, `ξ = rng.randn(n)` -/

section concrete
variable {ι : Type*} [Fintype ι] [DecidableEq ι]

instance isGaussian_gaussDrawLaw (m : ι → ℝ) (B : Matrix ι ι ℝ) : IsGaussian (gaussDrawLaw m B) := by
  rw [gaussDrawLaw_eq_map_ofLp]
  exact isGaussian_map_equiv (EuclideanSpace.equiv ι ℝ)

lemma integral_id_gaussDrawLaw (m : ι → ℝ) (B : Matrix ι ι ℝ) :
    ∫ x, x ∂(gaussDrawLaw m B) = m := by
  ext i
  have h := IsGaussian.integral_dual (μ := gaussDrawLaw m B)
    (ContinuousLinearMap.proj (R := ℝ) (φ := fun _ : ι => ℝ) i)
  rw [ContinuousLinearMap.proj_apply] at h
  rw [← h]
  exact gauss_draw_mean m B i

omit [DecidableEq ι] in
lemma pcnKernel_gaussDrawLaw (m : ι → ℝ) (B : Matrix ι ι ℝ) (a s : ℝ) (x : ι → ℝ) :
    pcnKernel (gaussDrawLaw m B) a s x = gaussDrawLaw (a • x + s • m) (s • B) := by
  rw [pcnKernel_apply, gaussDrawLaw, gaussDrawLaw, Measure.map_map (by fun_prop) (measurable_affine m B)]
  congr 1
  ext ξ i
  simp [smul_mulVec, add_assoc]

end concrete

end CuqiVerif.C02
