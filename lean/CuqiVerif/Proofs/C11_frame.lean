import CuqiVerif.Proofs.C11

/-!
# C11 — the operational (event-level) frame relation of the heap model

`Proofs/C11.lean` shows that every operation is a `Step`: non-exempt fields of old objects are
stable and the write log is fresh-or-exempt.  That relation says nothing about the *exempt* fields
(benign caches, array content) and does not say that the log is *complete*.  Here the walk over
all operations of `Model/C11.lean` is redone for the stronger relation `FStep n s s'`:

* the heap only grows, class tags are stable;
* the log of `s'` is `add ++ s.log` and **every** attribute of **every** object that existed in
  `s` is unchanged unless `(address, field) ∈ add` (the log is complete: all mutation goes
  through `St.write`, all allocation through `St.alloc`);
* every logged write targets an object at or above the watermark `n`, or one of the four
  fields the code really writes in place on objects it did not create
  (`Fld.inplace`: `_Gaussian.mean`, `_Gaussian.cov`, `_gaussian._name`, `_constant[...]`);
* the target of an in-place write is, at the time of the write, held by some object through the
  corresponding holder attribute (`_Gaussian`, `_gaussian`, `_constant`) — stated as the
  preservation of the invariant `Held n P` for every predicate `P`; the special case
  `ArrFresh n` (no `_constant` refers to an array below the watermark) gives: no array content
  below the watermark is written.

`FStep.toStep` is the simulation lemma: the relation used by `Props/C11.lean` is a projection of
this one.  Results of object-returning operations are fresh *and* allocated (`FGood`).
-/
namespace CuqiVerif.C11

/-- the fields the modelled code writes IN PLACE on objects the operation did not allocate:
    the re-synchronised `mean` / `cov` of a Lognormal's shared Gaussian, the `_name` pushed onto
    the Gaussian inside a RegularizedGaussian, and the content of an ndarray `_constant`. -/
def Fld.inplace : Fld → Bool
  | .cmean | .ccov | .syncName | .cval => true
  | _ => false

lemma inplace_exempt (f : Fld) (h : f.inplace = true) : f.exempt = true := by
  cases f <;> first | rfl | cases h

/-- every array object referred to by a `_constant` lies at or above the watermark -/
def ArrFresh (n : Nat) (s : St) : Prop := ∀ a c, s.get a .const = .ref c → n ≤ c

/-- the attributes the modelled operations ever write (on any object, fresh or not); all other
    attributes (`_name`, family, `_geometry`, `data`, `value`, `_mutable_vars`, `_variable_name`, …)
    are fixed at allocation -/
def Fld.writable : Fld → Bool
  | .orig | .slot _ | .cacheG | .gauss | .distr | .dens | .const | .lik | .prior | .args
  | .cmean | .ccov | .syncName | .cval => true
  | _ => false

/-- the attributes through which the targets of the in-place writes are held -/
def Fld.isHolder : Fld → Bool
  | .cacheG | .gauss | .const => true
  | _ => false

/-- through which attribute of its owner the target of an in-place write is reached:
    `self._Gaussian.mean/cov = …`, `self._gaussian._name = …`, `density._constant += …` -/
def holder : Fld → Option Fld
  | .cmean | .ccov => some .cacheG
  | .syncName => some .gauss
  | .cval => some .const
  | _ => none

lemma holder_inplace {f hf : Fld} (e : holder f = some hf) : f.inplace = true := by
  cases f <;> first | rfl | cases e

lemma holder_isHolder {f hf : Fld} (e : holder f = some hf) : hf.isHolder = true := by
  cases f <;> first | (simp only [holder, Option.some.injEq] at e; subst e; rfl) | cases e

lemma holder_not_isHolder {f hf : Fld} (e : holder f = some hf) : f.isHolder = false := by
  cases f <;> first | rfl | cases e

lemma inplace_holder {f : Fld} (h : f.inplace = true) : ∃ hf, holder f = some hf := by
  cases f <;> first | exact ⟨_, rfl⟩ | cases h

/-- which class of owner performs the in-place write of attribute `f` on what it holds: a
    `Lognormal` on its `_Gaussian`, a `RegularizedGaussian` on its `_gaussian`; the array `+=` is
    performed on behalf of any density -/
def ownerOk : Fld → Cls → Bool
  | .cmean, c => c == .lognormal
  | .ccov, c => c == .lognormal
  | .syncName, c => c == .reggauss
  | .cval, _ => true
  | _, _ => false

/-- every object referred to through a holder attribute lies at or above the watermark or
    satisfies `P` (with the attribute and the class of the referring object) — an invariant of
    all operations, for every `P` -/
def Held (n : Nat) (P : Fld → Cls → Nat → Prop) (s : St) : Prop :=
  ∀ hf a g, hf.isHolder = true → s.get a hf = .ref g → n ≤ g ∨ P hf (s.cls a) g

lemma alloc_cls_old (s : St) (o : Obj) (a : Nat) (h : a < s.size) : (s.alloc o).1.cls a = s.cls a := by
  unfold St.cls; rw [alloc_obj_old s o a h]

lemma alloc_cls_new (s : St) (o : Obj) : (s.alloc o).1.cls s.size = o.cls := by
  unfold St.cls; rw [alloc_obj_new]

lemma held_of_arrFresh {n : Nat} {s : St} (h : ArrFresh n s) : Held n (fun hf _ _ => hf ≠ .const) s := by
  intro hf a g _ hg
  by_cases e : hf = .const
  · subst e; exact Or.inl (h a g hg)
  · exact Or.inr e

lemma arrFresh_of_held {n : Nat} {s : St} (h : Held n (fun hf _ _ => hf ≠ .const) s) : ArrFresh n s := by
  intro a c hc
  rcases h .const a c rfl hc with h1 | h1
  · exact h1
  · exact absurd rfl h1

/-- the log segment added between `s` and `s'` (the model's reported write set; `escapes` /
    `benignEscapes` of `Model/C11.lean` are filters of exactly this list) -/
def added (s s' : St) : List (Nat × Fld) := s'.log.take (s'.log.length - s.log.length)

lemma added_eq {s s' : St} {add : List (Nat × Fld)} (h : s'.log = add ++ s.log) : added s s' = add := by
  unfold added
  rw [h]
  simp

/-! ## primitives -/

lemma get_oob (s : St) (a : Nat) (f : Fld) (h : s.size ≤ a) : s.get a f = .none := by
  unfold St.get
  rw [St.obj_eq, Array.getElem?_eq_none (by unfold St.size at h; omega)]
  rfl

lemma lt_of_get_ref {s : St} {a c : Nat} {f : Fld} (h : s.get a f = .ref c) : a < s.size := by
  apply Classical.byContradiction
  intro hlt
  rw [get_oob s a f (by omega)] at h
  exact absurd h (by simp)

lemma alloc_get_old (s : St) (o : Obj) (a : Nat) (f : Fld) (h : a < s.size) : (s.alloc o).1.get a f = s.get a f := by
  unfold St.get; rw [alloc_obj_old s o a h]

lemma alloc_get_new (s : St) (o : Obj) (f : Fld) : (s.alloc o).1.get s.size f = o.fld f := by
  unfold St.get; rw [alloc_obj_new]

lemma write_get_cases (s : St) (a a' : Nat) (f f' : Fld) (v : Val) :
    (s.write a f v).get a' f' = s.get a' f' ∨ (a' = a ∧ f' = f ∧ (s.write a f v).get a' f' = v) := by
  by_cases ha : a' = a
  · by_cases hf : f' = f
    · subst ha; subst hf
      by_cases hb : a' < s.size
      · exact Or.inr ⟨rfl, rfl, write_get_same s a' f' v hb⟩
      · left
        rw [get_oob _ _ _ (by rw [write_size]; omega), get_oob _ _ _ (by omega)]
    · exact Or.inl (write_get_other _ _ _ _ _ _ (Or.inr hf))
  · exact Or.inl (write_get_other _ _ _ _ _ _ (Or.inl ha))

/-! ## events: the operational reading of a heap transformer -/

/-- a primitive heap event: allocation of an object at the next address, or a (logged) attribute write -/
inductive Ev
  | alloc (o : Obj)
  | write (a : Nat) (f : Fld) (v : Val)

def St.apply (s : St) : Ev → St
  | .alloc o => (s.alloc o).1
  | .write a f v => s.write a f v

/-- run a list of events, oldest first -/
def St.replay (s : St) (evs : List Ev) : St := evs.foldl St.apply s

def Ev.target : Ev → List (Nat × Fld)
  | .alloc _ => []
  | .write a f _ => [(a, f)]

/-- the (address, attribute) pairs written by an event list, newest first (the order of the log) -/
def evWrites : List Ev → List (Nat × Fld)
  | [] => []
  | e :: es => evWrites es ++ e.target

/-- number of allocations of an event list -/
def evAllocs : List Ev → Nat
  | [] => 0
  | .alloc _ :: es => evAllocs es + 1
  | .write _ _ _ :: es => evAllocs es

lemma replay_nil (s : St) : s.replay [] = s := rfl

lemma replay_cons (s : St) (e : Ev) (es : List Ev) : s.replay (e :: es) = (s.apply e).replay es := rfl

lemma replay_append (s : St) (e1 e2 : List Ev) : s.replay (e1 ++ e2) = (s.replay e1).replay e2 := by
  unfold St.replay; rw [List.foldl_append]

lemma apply_log (s : St) (e : Ev) : (s.apply e).log = e.target ++ s.log := by
  cases e <;> rfl

lemma apply_size (s : St) (e : Ev) : s.size ≤ (s.apply e).size := by
  cases e with
  | alloc o => simp only [St.apply, alloc_size]; omega
  | write a f v => simp only [St.apply, write_size]; exact Nat.le_refl _

lemma replay_log (evs : List Ev) : ∀ s : St, (s.replay evs).log = evWrites evs ++ s.log := by
  induction evs with
  | nil => intro s; rfl
  | cons e es ih =>
    intro s
    rw [replay_cons, ih, apply_log, evWrites, List.append_assoc]

lemma replay_size (evs : List Ev) : ∀ s : St, (s.replay evs).size = s.size + evAllocs evs := by
  induction evs with
  | nil => intro s; rfl
  | cons e es ih =>
    intro s
    rw [replay_cons, ih]
    cases e with
    | alloc o => simp only [St.apply, alloc_size, evAllocs]; omega
    | write a f v => simp only [St.apply, write_size, evAllocs]

lemma replay_get (evs : List Ev) : ∀ (s : St) (a : Nat) (f : Fld), a < s.size → (a, f) ∉ evWrites evs →
    (s.replay evs).get a f = s.get a f := by
  induction evs with
  | nil => intro s a f _ _; rfl
  | cons e es ih =>
    intro s a f ha hm
    rw [evWrites, List.mem_append, not_or] at hm
    rw [replay_cons, ih _ a f (Nat.lt_of_lt_of_le ha (apply_size s e)) hm.1]
    cases e with
    | alloc o => exact alloc_get_old s o a f ha
    | write a' f' v =>
      apply write_get_other
      by_cases e1 : a = a'
      · right; intro e2; apply hm.2; rw [e1, e2]; simp [Ev.target]
      · exact Or.inl e1

lemma replay_cls (evs : List Ev) : ∀ (s : St) (a : Nat), a < s.size → (s.replay evs).cls a = s.cls a := by
  induction evs with
  | nil => intro s a _; rfl
  | cons e es ih =>
    intro s a ha
    rw [replay_cons, ih _ a (Nat.lt_of_lt_of_le ha (apply_size s e))]
    cases e with
    | alloc o => unfold St.cls; simp only [St.apply]; rw [alloc_obj_old s o a ha]
    | write a' f' v => exact write_cls s a' a f' v

/-! ## the full frame relation -/

structure FStep (n : Nat) (s s' : St) : Prop where
  hn : n ≤ s.size
  size : s.size ≤ s'.size
  cls : ∀ a, a < s.size → s'.cls a = s.cls a
  seg : ∃ add : List (Nat × Fld), s'.log = add ++ s.log ∧
        (∀ a f, a < s.size → (a, f) ∉ add → s'.get a f = s.get a f) ∧
        (∀ w, w ∈ add → (n ≤ w.1 ∨ w.2.inplace = true) ∧ w.2.writable = true) ∧
        (∀ P, Held n P s → ∀ w, w ∈ add → n ≤ w.1 ∨
           ∃ hf c, holder w.2 = some hf ∧ ownerOk w.2 c = true ∧ P hf c w.1)
  held : ∀ P, Held n P s → Held n P s'
  trace : ∃ evs : List Ev, s' = s.replay evs

lemma FStep.refl {n : Nat} {s : St} (h : n ≤ s.size) : FStep n s s :=
  ⟨h, Nat.le_refl _, fun _ _ => rfl,
   ⟨[], rfl, fun _ _ _ _ => rfl, fun _ hw => absurd hw (by simp), fun _ _ _ hw => absurd hw (by simp)⟩,
   fun _ h => h, ⟨[], rfl⟩⟩

lemma FStep.trans {n : Nat} {s s' s'' : St} (h1 : FStep n s s') (h2 : FStep n s' s'') : FStep n s s'' where
  hn := h1.hn
  size := Nat.le_trans h1.size h2.size
  cls := fun a ha => by rw [h2.cls a (Nat.lt_of_lt_of_le ha h1.size), h1.cls a ha]
  seg := by
    obtain ⟨add1, hl1, hg1, hc1, ha1⟩ := h1.seg
    obtain ⟨add2, hl2, hg2, hc2, ha2⟩ := h2.seg
    refine ⟨add2 ++ add1, by rw [hl2, hl1, List.append_assoc], ?_, ?_, ?_⟩
    · intro a f ha hm
      rw [List.mem_append, not_or] at hm
      rw [hg2 a f (Nat.lt_of_lt_of_le ha h1.size) hm.1, hg1 a f ha hm.2]
    · intro w hw
      rcases List.mem_append.1 hw with hw | hw
      · exact hc2 w hw
      · exact hc1 w hw
    · intro P hP w hw
      rcases List.mem_append.1 hw with hw | hw
      · exact ha2 P (h1.held P hP) w hw
      · exact ha1 P hP w hw
  held := fun P h => h2.held P (h1.held P h)
  trace := by
    obtain ⟨e1, he1⟩ := h1.trace
    obtain ⟨e2, he2⟩ := h2.trace
    exact ⟨e1 ++ e2, by rw [replay_append, ← he1, ← he2]⟩

lemma FStep.le {n : Nat} {s s' : St} (h : FStep n s s') : n ≤ s'.size := Nat.le_trans h.hn h.size

/-- **Simulation**: the relation `Step` used by `Props/C11.lean` (non-exempt fields below the
    watermark stable, log fresh-or-exempt) is a projection of the event-level relation. -/
lemma FStep.toStep {n : Nat} {s s' : St} (h : FStep n s s') : Step n s s' where
  hn := h.hn
  size := h.size
  cls := h.cls
  get := fun a f ha hf => by
    obtain ⟨add, _, hg, hc, _⟩ := h.seg
    apply hg a f (Nat.lt_of_lt_of_le ha h.hn)
    intro hm
    rcases (hc _ hm).1 with h1 | h1
    · exact absurd h1 (by simp only; omega)
    · rw [inplace_exempt f h1] at hf; exact absurd hf (by decide)
  log := fun w hw => by
    obtain ⟨add, hl, _, hc, _⟩ := h.seg
    rw [hl] at hw
    rcases List.mem_append.1 hw with hw | hw
    · rcases (hc w hw).1 with h1 | h1
      · exact Or.inr (Or.inl h1)
      · exact Or.inr (Or.inr (inplace_exempt _ h1))
    · exact Or.inl hw

lemma FStep.arr {n : Nat} {s s' : St} (h : FStep n s s') (ha : ArrFresh n s) : ArrFresh n s' :=
  arrFresh_of_held (h.held _ (held_of_arrFresh ha))

/-- allocation of an object whose holder attributes (`_Gaussian`, `_gaussian`, `_constant`), if
    they are references, refer to what some existing object already holds through the same
    attribute (a shallow copy) or to an address above the watermark -/
lemma fstep_alloc {n : Nat} {s : St} (h : n ≤ s.size) (o : Obj)
    (ho : ∀ hf c, hf.isHolder = true → o.fld hf = .ref c → n ≤ c ∨ ∃ a, s.get a hf = .ref c ∧ s.cls a = o.cls) :
    FStep n s (s.alloc o).1 where
  hn := h
  size := by rw [alloc_size]; omega
  cls := fun a ha => by unfold St.cls; rw [alloc_obj_old s o a ha]
  seg := ⟨[], rfl, fun a f ha _ => alloc_get_old s o a f ha, fun _ hw => absurd hw (by simp),
          fun _ _ _ hw => absurd hw (by simp)⟩
  held := fun P hP hf a c hh hc => by
    by_cases h1 : a < s.size
    · rw [alloc_get_old s o a _ h1] at hc; rw [alloc_cls_old s o a h1]; exact hP hf a c hh hc
    · by_cases h2 : a = s.size
      · subst h2
        rw [alloc_get_new] at hc
        rw [alloc_cls_new]
        rcases ho hf c hh hc with h3 | ⟨a', h3, h4⟩
        · exact Or.inl h3
        · rw [← h4]; exact hP hf a' c hh h3
      · rw [get_oob _ _ _ (by rw [alloc_size]; omega)] at hc
        exact absurd hc (by simp)
  trace := ⟨[.alloc o], rfl⟩

/-- a shallow copy -/
lemma fstep_copy {n : Nat} {s : St} (h : n ≤ s.size) (a : Nat) : FStep n s (s.alloc (s.obj a)).1 :=
  fstep_alloc h _ (fun _ _ _ hc => Or.inr ⟨a, hc, rfl⟩)

/-- a literal object (constructor call) holds no reference in a holder attribute -/
macro "lit_noref" : tactic =>
  `(tactic| (intro hf c hh hc; cases hf <;>
      first | (simp [Obj.ofList, Obj.set, Obj.empty] at hc; done) | cases hh))

lemma fstep_write {n : Nat} {s : St} (h : n ≤ s.size) (a : Nat) (f : Fld) (v : Val)
    (ha : n ≤ a ∨ ∃ hf d, holder f = some hf ∧ s.get d hf = .ref a ∧ ownerOk f (s.cls d) = true)
    (hv : f.isHolder = true → ∀ c, v = .ref c → n ≤ c ∨ ∃ a', s.get a' f = .ref c ∧ s.cls a' = s.cls a)
    (hw : f.writable = true := by rfl) :
    FStep n s (s.write a f v) where
  hn := h
  size := by rw [write_size]; exact Nat.le_refl _
  cls := fun a' _ => write_cls s a a' f v
  seg := by
    refine ⟨[(a, f)], rfl, ?_, ?_, ?_⟩
    · intro a' f' _ hm
      apply write_get_other
      by_cases e : a' = a
      · right; intro e2; apply hm; rw [e, e2]; simp
      · exact Or.inl e
    · intro w hw
      simp only [List.mem_singleton] at hw
      subst hw
      refine ⟨?_, hw⟩
      rcases ha with h1 | ⟨hf, d, e, _, _⟩
      · exact Or.inl h1
      · exact Or.inr (holder_inplace e)
    · intro P hP w hw
      simp only [List.mem_singleton] at hw
      subst hw
      rcases ha with h1 | ⟨hf, d, e, hd, hok⟩
      · exact Or.inl h1
      · rcases hP hf d a (holder_isHolder e) hd with h2 | h2
        · exact Or.inl h2
        · exact Or.inr ⟨hf, s.cls d, e, hok, h2⟩
  held := fun P hP hf a' c hh hc => by
    rw [write_cls]
    rcases write_get_cases s a a' f hf v with h1 | ⟨h0, h2, h3⟩
    · rw [h1] at hc; exact hP hf a' c hh hc
    · rw [h3] at hc
      subst h2
      rcases hv hh c hc with h4 | ⟨a'', h4, h5⟩
      · exact Or.inl h4
      · rw [h0, ← h5]; exact hP hf a'' c hh h4
  trace := ⟨[.write a f v], rfl⟩

/-- a write of a non-holder attribute on a fresh object -/
lemma fstep_write' {n : Nat} {s : St} (h : n ≤ s.size) (a : Nat) (f : Fld) (v : Val)
    (ha : n ≤ a) (hf : f.isHolder = false := by rfl) (hw : f.writable = true := by rfl) :
    FStep n s (s.write a f v) :=
  fstep_write h a f v (Or.inl ha) (fun e => absurd e (by rw [hf]; decide)) hw

/-- an in-place write on an object that `d` holds through the attribute `hf` -/
lemma fstep_write_held {n : Nat} {s : St} (h : n ≤ s.size) (a : Nat) (f : Fld) (v : Val)
    (hf : Fld) (d : Nat) (e : holder f = some hf) (hd : s.get d hf = .ref a)
    (hok : ownerOk f (s.cls d) = true) : FStep n s (s.write a f v) :=
  fstep_write h a f v (Or.inr ⟨hf, d, e, hd, hok⟩) (fun e' => absurd e' (by rw [holder_not_isHolder e]; decide))
    (by cases f <;> first | rfl | cases e)

lemma fstep_ite_write_held {n : Nat} {s : St} (h : n ≤ s.size) (c : Prop) [Decidable c] (a : Nat) (f : Fld) (v : Val)
    (hf : Fld) (d : Nat) (e : holder f = some hf) (hd : s.get d hf = .ref a)
    (hok : ownerOk f (s.cls d) = true) :
    FStep n s (if c then s else s.write a f v) := by
  split
  · exact FStep.refl h
  · exact fstep_write_held h a f v hf d e hd hok

/-! ## building blocks -/

lemma resync_fstep {n : Nat} {s : St} (h : n ≤ s.size) (a : Nat) : FStep n s (s.resync a) := by
  unfold St.resync
  split
  · next g hcl hg =>
    have h1 := fstep_ite_write_held h (s.get g .cmean = s.get a (.slot 0)) g .cmean (s.get a (.slot 0)) .cacheG a rfl hg
      (by rw [hcl]; rfl)
    have hcl' : (if s.get g .cmean = s.get a (.slot 0) then s else s.write g .cmean (s.get a (.slot 0))).cls a = .lognormal := by
      split
      · exact hcl
      · rw [write_cls]; exact hcl
    have hg' : (if s.get g .cmean = s.get a (.slot 0) then s else s.write g .cmean (s.get a (.slot 0))).get a .cacheG = .ref g := by
      split
      · exact hg
      · rw [write_get_other _ _ _ _ _ _ (Or.inr (by decide))]; exact hg
    exact h1.trans (fstep_ite_write_held h1.le _ g .ccov _ .cacheG a rfl hg' (by rw [hcl']; rfl))
  · exact FStep.refl h

lemma syncInner_fstep {n : Nat} {s : St} (h : n ≤ s.size) (a : Nat) : FStep n s (s.syncInner a) := by
  unfold St.syncInner
  split
  · next g k hcl hg _ => exact fstep_write_held h g .syncName _ .gauss a rfl hg (by rw [hcl]; rfl)
  · exact FStep.refl h

lemma makeCopy_fstep {n : Nat} {s : St} (h : n ≤ s.size) (a : Nat) : FStep n s (s.makeCopy a).1 := by
  unfold St.makeCopy
  have h1 := fstep_copy h a
  exact h1.trans (fstep_write' h1.le _ .orig _ (by rw [alloc_addr]; exact h))

lemma makeCopy_size (s : St) (a : Nat) : (s.makeCopy a).1.size = s.size + 1 := by
  unfold St.makeCopy
  simp only [write_size, alloc_size]

lemma condSlot_fstep {n : Nat} {s : St} (h : n ≤ s.size) (o : Obj) (kw : Kw) (b i : Nat) (hb : n ≤ b) :
    FStep n s (condSlot o kw s b i) := by
  unfold condSlot
  split
  · split
    · exact fstep_write' h _ _ _ hb
    · exact FStep.refl h
  · dsimp only
    split
    · exact fstep_write' h _ _ _ hb
    · split
      · exact fstep_write' h _ _ _ hb
      · exact FStep.refl h
  · exact FStep.refl h

lemma foldl_fstep {n : Nat} (g : St → Nat → St) (hg : ∀ s i, n ≤ s.size → FStep n s (g s i)) :
    ∀ (l : List Nat) (s : St), n ≤ s.size → FStep n s (l.foldl g s) := by
  intro l
  induction l with
  | nil => intro s h; exact FStep.refl h
  | cons i l ih =>
    intro s h
    have h1 := hg s i h
    exact h1.trans (ih _ h1.le)

lemma condSlots_fstep {n : Nat} {s : St} (h : n ≤ s.size) (o : Obj) (kw : Kw) (b : Nat) (hb : n ≤ b) :
    FStep n s (condSlots o kw s b) := by
  unfold condSlots
  exact foldl_fstep _ (fun s i hs => condSlot_fstep hs o kw b i hb) _ s h

lemma condNormalSlot_fstep {n : Nat} {s : St} (h : n ≤ s.size) (a b : Nat) (hb : n ≤ b) :
    FStep n s (s.condNormalSlot a b) := by
  unfold St.condNormalSlot
  split
  · next g _ _ =>
    have h1 := resync_fstep h a
    have h2 := makeCopy_fstep h1.le g
    refine (h1.trans h2).trans (fstep_write (h1.trans h2).le _ .cacheG _ (Or.inl hb) ?_)
    intro _ c hv
    simp only [Val.ref.injEq] at hv
    subst hv
    left; exact h1.le
  · exact FStep.refl h

/-- a pair (state, result) produced from `s`: an `FStep`; an object result is fresh and allocated -/
structure FGood (n : Nat) (s : St) (p : St × Res) : Prop where
  step : FStep n s p.1
  fresh : ∀ r, p.2 = .obj r → s.size ≤ r
  bound : ∀ r, p.2 = .obj r → r < p.1.size

lemma FGood.mono {n : Nat} {s s0 : St} {p : St × Res} (h0 : FStep n s0 s) (h : FGood n s p) : FGood n s0 p :=
  ⟨h0.trans h.step, fun r hr => Nat.le_trans h0.size (h.fresh r hr), h.bound⟩

lemma fgood_err {n : Nat} {s s' : St} (h : FStep n s s') : FGood n s (s', .err) :=
  ⟨h, fun r hr => absurd hr (by simp), fun r hr => absurd hr (by simp)⟩

lemma toLikelihood_fgood {n : Nat} {s : St} (h : n ≤ s.size) (b : Nat) (data : Int) :
    FGood n s (s.toLikelihood b data) := by
  unfold St.toLikelihood
  split
  · refine ⟨fstep_alloc h _ (by lit_noref), fun r hr => ?_, fun r hr => ?_⟩
    · simp only [alloc_addr, Res.obj.injEq] at hr; omega
    · simp only [alloc_addr, Res.obj.injEq] at hr; rw [alloc_size]; omega
  · refine ⟨fstep_alloc h _ (by lit_noref), fun r hr => ?_, fun r hr => ?_⟩
    · simp only [alloc_addr, Res.obj.injEq] at hr; omega
    · simp only [alloc_addr, Res.obj.injEq] at hr; rw [alloc_size]; omega

lemma condDist_fgood {n : Nat} {s : St} (h : n ≤ s.size) (a : Nat) (kw : Kw) : FGood n s (s.condDist a kw) := by
  unfold St.condDist
  have h1 := makeCopy_fstep h a
  have hb : n ≤ (s.makeCopy a).2 := by rw [makeCopy_addr]; exact h
  have h2 := condSlots_fstep h1.le (s.obj a) kw _ hb
  have h3 := condNormalSlot_fstep (h1.trans h2).le a _ hb
  have h123 := (h1.trans h2).trans h3
  have hsz : (s.makeCopy a).2 < ((condSlots (s.obj a) kw (s.makeCopy a).1 (s.makeCopy a).2).condNormalSlot a (s.makeCopy a).2).size := by
    have := (h2.trans h3).size
    rw [makeCopy_size] at this
    have e := makeCopy_addr s a
    omega
  have hself : FGood n s (((condSlots (s.obj a) kw (s.makeCopy a).1 (s.makeCopy a).2).condNormalSlot a (s.makeCopy a).2), .obj (s.makeCopy a).2) :=
    ⟨h123, fun r hr => by simp only [Res.obj.injEq] at hr; rw [← hr, makeCopy_addr]; exact Nat.le_refl _,
     fun r hr => by simp only [Res.obj.injEq] at hr; rw [← hr]; exact hsz⟩
  dsimp only
  split
  · exact hself
  · split
    · split
      · exact (toLikelihood_fgood h123.le _ _).mono h123
      · exact fgood_err h123
    · exact fgood_err h123

lemma condReg_fgood {n : Nat} {s : St} (h : n ≤ s.size) (a : Nat) (kw : Kw) : FGood n s (s.condReg a kw) := by
  unfold St.condReg
  split
  · next g _ =>
    dsimp only
    have h1 := makeCopy_fstep h a
    have hb : n ≤ (s.makeCopy a).2 := by rw [makeCopy_addr]; exact h
    have h2 := syncInner_fstep h1.le a
    have h12 := h1.trans h2
    have h3' := fun kw' => condDist_fgood h12.le g kw'
    split
    · next s3 g' heq =>
      have h3 : FGood n ((s.makeCopy a).1.syncInner a) (s3, .obj g') := by rw [← heq]; exact h3' _
      have h123 := h12.trans h3.step
      have h4 := fstep_write h123.le (s.makeCopy a).2 .gauss (.ref g') (Or.inl hb)
        (fun _ c hv => by
          simp only [Val.ref.injEq] at hv
          subst hv
          exact Or.inl (Nat.le_trans h12.le (h3.fresh _ rfl)))
      have h1234 := h123.trans h4
      split
      · exact (toLikelihood_fgood h1234.le _ _).mono h1234
      · refine ⟨h1234, fun r hr => ?_, fun r hr => ?_⟩
        · simp only [Res.obj.injEq] at hr; rw [← hr, makeCopy_addr]; exact Nat.le_refl _
        · simp only [Res.obj.injEq] at hr
          have := (h2.trans (h3.step.trans h4)).size
          rw [makeCopy_size] at this
          have e := makeCopy_addr s a
          dsimp only at this ⊢
          omega
    · next s3 r _ heq =>
      have h3 : FGood n ((s.makeCopy a).1.syncInner a) (s3, r) := by rw [← heq]; exact h3' _
      exact fgood_err (h12.trans h3.step)
  · exact fgood_err (FStep.refl h)

lemma condDistOrReg_fgood {n : Nat} {s : St} (h : n ≤ s.size) (d : Nat) (kw : Kw) :
    FGood n s (if s.cls d = .reggauss then s.condReg d kw else s.condDist d kw) := by
  split
  · exact condReg_fgood h d kw
  · exact condDist_fgood h d kw

lemma condLik_fgood {n : Nat} {s : St} (h : n ≤ s.size) (a : Nat) (kw : Kw) : FGood n s (s.condLik a kw) := by
  unfold St.condLik
  split
  · next d data _ _ =>
    dsimp only
    have h1 := fstep_copy h a
    have hb : n ≤ (s.alloc (s.obj a)).2 := by rw [alloc_addr]; exact h
    have h2 := condDistOrReg_fgood h1.le d kw
    split
    · next s2 d' heq =>
      rw [heq] at h2
      have h12 := h1.trans h2.step
      split
      · exact fgood_err h12
      · have h3 := fstep_write' h12.le (s.alloc (s.obj a)).2 .distr (.ref d') hb
        have h123 := h12.trans h3
        split
        · exact (toLikelihood_fgood h123.le _ _).mono h123
        · refine ⟨h123, fun r hr => ?_, fun r hr => ?_⟩
          · simp only [Res.obj.injEq] at hr; rw [← hr, alloc_addr]; exact Nat.le_refl _
          · simp only [Res.obj.injEq] at hr
            have := (h2.step.trans h3).size
            rw [alloc_size] at this
            have e := alloc_addr s (s.obj a)
            dsimp only at this ⊢
            omega
    · next s2 r _ heq =>
      rw [heq] at h2
      exact fgood_err (h1.trans h2.step)
  · exact fgood_err (FStep.refl h)

/-- conditioning a density held by a joint: the result is fresh, or the evaluated density itself -/
lemma condDens_fstep {n : Nat} {s : St} (h : n ≤ s.size) (a : Nat) (kw : Kw) : FStep n s (s.condDens a kw).1 := by
  unfold St.condDens
  split
  · exact (condDist_fgood h a kw).step
  · exact (condDist_fgood h a kw).step
  · exact (condReg_fgood h a kw).step
  · exact (condLik_fgood h a kw).step
  · exact FStep.refl h
  · exact FStep.refl h

lemma condDens_res' (s : St) (a : Nat) (kw : Kw) :
    ∀ r, (s.condDens a kw).2 = .obj r →
      r < (s.condDens a kw).1.size ∧ (s.size ≤ r ∨ (r = a ∧ s.cls a = .eval)) := by
  intro r hr
  have h0 : s.size ≤ s.size := Nat.le_refl _
  unfold St.condDens at hr ⊢
  split at hr
  · next hc => rw [hc]; exact ⟨(condDist_fgood h0 a kw).bound r hr, Or.inl ((condDist_fgood h0 a kw).fresh r hr)⟩
  · next hc => rw [hc]; exact ⟨(condDist_fgood h0 a kw).bound r hr, Or.inl ((condDist_fgood h0 a kw).fresh r hr)⟩
  · next hc => rw [hc]; exact ⟨(condReg_fgood h0 a kw).bound r hr, Or.inl ((condReg_fgood h0 a kw).fresh r hr)⟩
  · next hc => rw [hc]; exact ⟨(condLik_fgood h0 a kw).bound r hr, Or.inl ((condLik_fgood h0 a kw).fresh r hr)⟩
  · next he =>
    simp only [Res.obj.injEq] at hr
    rw [he]
    subst hr
    exact ⟨cls_ne_geom_lt s a (by rw [he]; decide), Or.inr ⟨rfl, rfl⟩⟩
  · exact absurd hr (by simp)

/-! ## joint conditioning -/

/-- invariant on the entries already replaced: allocated, and fresh (≥ n) or an evaluated density -/
def EntryOk' (n : Nat) (s : St) (d : Nat) : Prop := d < s.size ∧ (n ≤ d ∨ s.cls d = .eval)

lemma EntryOk'.mono {n : Nat} {s s' : St} {d : Nat} (h : FStep n s s') (hd : EntryOk' n s d) : EntryOk' n s' d := by
  refine ⟨Nat.lt_of_lt_of_le hd.1 h.size, ?_⟩
  rcases hd.2 with h2 | h2
  · exact Or.inl h2
  · exact Or.inr (by rw [h.cls d hd.1]; exact h2)

lemma condList_fspec {n : Nat} (kw : Kw) (j : Nat) (hj : n ≤ j) :
    ∀ (rest : List Nat) (s : St) (pre : List Nat), n ≤ s.size →
      (∀ d ∈ pre, EntryOk' n s d) →
      FStep n s (condList kw j s pre rest).1 ∧
      ∀ ds, (condList kw j s pre rest).2 = some ds → ∀ d ∈ ds, EntryOk' n (condList kw j s pre rest).1 d := by
  intro rest
  induction rest with
  | nil =>
    intro s pre h hpre
    refine ⟨FStep.refl h, ?_⟩
    intro ds hds d hd
    simp only [condList, Option.some.injEq] at hds
    subst hds
    exact hpre d hd
  | cons d0 rest ih =>
    intro s pre h hpre
    unfold condList
    have h1 := condDens_fstep h d0 (restrictKw kw (s.parNamesDens d0))
    have hres := condDens_res' s d0 (restrictKw kw (s.parNamesDens d0))
    split
    · next s1 d' heq =>
      rw [heq] at h1
      have hres' := hres d' (by rw [heq])
      rw [heq] at hres'
      have h2 := fstep_write' h1.le j .dens (.refs (pre ++ d' :: rest)) hj
      have h12 := h1.trans h2
      have hpre' : ∀ d ∈ pre ++ [d'], EntryOk' n (s1.write j .dens (.refs (pre ++ d' :: rest))) d := by
        intro d hd
        rcases List.mem_append.1 hd with hd | hd
        · exact (hpre d hd).mono h12
        · simp only [List.mem_singleton] at hd
          subst hd
          refine EntryOk'.mono h2 ⟨hres'.1, ?_⟩
          rcases hres'.2 with hf | ⟨he, hc⟩
          · exact Or.inl (Nat.le_trans h hf)
          · subst he
            have hlt : d < s.size := cls_ne_geom_lt s d (by rw [hc]; decide)
            exact Or.inr (by rw [h1.cls d hlt]; exact hc)
      have := ih (s1.write j .dens (.refs (pre ++ d' :: rest))) (pre ++ [d']) h12.le hpre'
      exact ⟨h12.trans this.1, this.2⟩
    · next s1 r _ heq =>
      rw [heq] at h1
      exact ⟨h1, fun ds hds => absurd hds (by simp)⟩

/-- `density._constant += x` on a fresh density `d`: the field is re-bound on `d` (fresh); an
    array-typed constant is additionally mutated in place — field `cval` of the array object the
    density refers to (possibly old and shared). -/
lemma addConst_fstep {n : Nat} {s : St} (h : n ≤ s.size) (d : Nat) (ds : List Nat) (hd : n ≤ d) :
    FStep n s (s.addConst d ds) := by
  unfold St.addConst
  split
  · next cell hc =>
    dsimp only
    have h1 : FStep n s (if s.hasEvals ds = true then s.write cell .cval (.num (s.constOf d + s.sumEvals ds)) else s) := by
      split
      · exact fstep_write_held h cell .cval _ .const d rfl hc rfl
      · exact FStep.refl h
    have hc' : (if s.hasEvals ds = true then s.write cell .cval (.num (s.constOf d + s.sumEvals ds)) else s).get d .const = .ref cell := by
      split
      · rw [write_get_other _ _ _ _ _ _ (Or.inr (by decide))]; exact hc
      · exact hc
    refine h1.trans (fstep_write h1.le d .const _ (Or.inl hd) ?_)
    intro _ c hv
    simp only [Val.ref.injEq] at hv
    subst hv
    exact Or.inr ⟨d, hc', rfl⟩
  · split
    · have h1 := fstep_alloc h (Obj.ofList .arr [(.cval, .num (s.constOf d + s.sumEvals ds))])
        (by lit_noref)
      refine h1.trans (fstep_write h1.le d .const _ (Or.inl hd) ?_)
      intro _ c hv
      simp only [Val.ref.injEq] at hv
      subst hv
      left; exact h
    · exact fstep_write h d .const _ (Or.inl hd) (fun _ c hv => absurd hv (by simp))

lemma addConst_size (s : St) (d : Nat) (ds : List Nat) : s.size ≤ (s.addConst d ds).size :=
  (addConst_fstep (n := 0) (Nat.zero_le _) d ds (Nat.zero_le _)).size

lemma reduce_fgood {n : Nat} {s : St} (h : n ≤ s.size) (j : Nat) (hj : n ≤ j) (hjb : j < s.size) (ds : List Nat)
    (hds : ∀ d ∈ ds, EntryOk' n s d) :
    FStep n s (s.reduce j ds).1 ∧ ∀ r, (s.reduce j ds).2 = .obj r → n ≤ r ∧ r < (s.reduce j ds).1.size := by
  have hdist : ∀ d, d ∈ ds.filter (fun d => (s.cls d).isDist) → n ≤ d ∧ d < s.size := by
    intro d hd
    rcases List.mem_filter.1 hd with ⟨hm, hc⟩
    refine ⟨?_, (hds d hm).1⟩
    rcases (hds d hm).2 with hh | he
    · exact hh
    · rw [he] at hc; exact absurd hc (by decide)
  have hlik : ∀ d, d ∈ ds.filter (fun d => decide (s.cls d = .lik)) → n ≤ d ∧ d < s.size := by
    intro d hd
    rcases List.mem_filter.1 hd with ⟨hm, hc⟩
    refine ⟨?_, (hds d hm).1⟩
    rcases (hds d hm).2 with hh | he
    · exact hh
    · rw [he] at hc; exact absurd hc (by decide)
  unfold St.reduce
  dsimp only
  split
  · exact ⟨FStep.refl h, fun r hr => by simp only [Res.obj.injEq] at hr; dsimp only; omega⟩
  · refine ⟨fstep_alloc h _ (by lit_noref), fun r hr => ?_⟩
    simp only [alloc_addr, Res.obj.injEq] at hr
    dsimp only
    rw [alloc_size]; omega
  · next d l hd hl =>
    split
    · have h1 := fstep_alloc h (Obj.ofList .post [(.lik, .ref l), (.prior, .ref d), (.const, .num 0)])
        (by lit_noref)
      refine ⟨h1.trans (addConst_fstep h1.le _ ds (by rw [alloc_addr]; exact h)), ?_⟩
      intro r hr
      simp only [alloc_addr, Res.obj.injEq] at hr
      have := addConst_size (s.alloc (Obj.ofList .post [(.lik, .ref l), (.prior, .ref d), (.const, .num 0)])).1
        (s.alloc (Obj.ofList .post [(.lik, .ref l), (.prior, .ref d), (.const, .num 0)])).2 ds
      rw [alloc_size] at this
      dsimp only at this ⊢
      omega
    · exact ⟨FStep.refl h, fun r hr => by simp only [Res.obj.injEq] at hr; dsimp only; omega⟩
  · next d hd hl =>
    have hdn := hdist d (by rw [hd]; simp)
    refine ⟨addConst_fstep h d ds hdn.1, fun r hr => ?_⟩
    simp only [Res.obj.injEq] at hr
    have := addConst_size s d ds
    dsimp only
    omega
  · next l hd hl =>
    have hln := hlik l (by rw [hl]; simp)
    exact ⟨FStep.refl h, fun r hr => by simp only [Res.obj.injEq] at hr; dsimp only; omega⟩
  · exact ⟨FStep.refl h, fun r hr => by simp only [Res.obj.injEq] at hr; dsimp only; omega⟩

lemma condJoint_fgood {n : Nat} {s : St} (h : n ≤ s.size) (a : Nat) (kw : Kw) :
    FStep n s (s.condJoint a kw).1 ∧
      ∀ r, (s.condJoint a kw).2 = .obj r → s.size ≤ r ∧ r < (s.condJoint a kw).1.size := by
  unfold St.condJoint
  split
  · next ds _ =>
    dsimp only
    have h1 := fstep_copy h a
    have hj : n ≤ (s.alloc (s.obj a)).2 := by rw [alloc_addr]; exact h
    have h2 := fstep_write' h1.le (s.alloc (s.obj a)).2 .dens (.refs ds) hj
    have h12 := h1.trans h2
    have h3 := condList_fspec kw (s.alloc (s.obj a)).2 hj ds _ [] h12.le (fun d hd => absurd hd (by simp))
    -- the same walk with the watermark at the heap size gives freshness of the result
    have k1 := fstep_copy (Nat.le_refl s.size) a
    have kj : s.size ≤ (s.alloc (s.obj a)).2 := by rw [alloc_addr]; exact Nat.le_refl _
    have k2 := fstep_write' k1.le (s.alloc (s.obj a)).2 .dens (.refs ds) kj
    have k12 := k1.trans k2
    have k3 := condList_fspec kw (s.alloc (s.obj a)).2 kj ds _ [] k12.le (fun d hd => absurd hd (by simp))
    split
    · next s3 ds' heq =>
      rw [heq] at h3 k3
      have h123 := h12.trans h3.1
      have k123 := k12.trans k3.1
      have hjb : (s.alloc (s.obj a)).2 < s3.size := by
        have := k123.size
        have h5 := (k2.trans k3.1).size
        rw [alloc_size] at h5
        have e := alloc_addr s (s.obj a)
        dsimp only at this h5 ⊢
        omega
      have h4 := reduce_fgood h123.le (s.alloc (s.obj a)).2 hj hjb ds' (h3.2 ds' rfl)
      have k4 := reduce_fgood k123.le (s.alloc (s.obj a)).2 kj hjb ds' (k3.2 ds' rfl)
      exact ⟨h123.trans h4.1, k4.2⟩
    · next s3 heq =>
      rw [heq] at h3
      exact ⟨h12.trans h3.1, fun r hr => absurd hr (by simp)⟩
  · exact ⟨FStep.refl h, fun r hr => absurd hr (by simp)⟩

lemma condPost_fgood {n : Nat} {s : St} (h : n ≤ s.size) (a : Nat) (kw : Kw) : FGood n s (s.condPost a kw) := by
  unfold St.condPost
  split
  · next l p _ _ =>
    dsimp only
    have h1 := makeCopy_fstep h a
    have hb : n ≤ (s.makeCopy a).2 := by rw [makeCopy_addr]; exact h
    have h2 := condLik_fgood h1.le l []
    split
    · next s2 l' heq =>
      rw [heq] at h2
      have h12 := h1.trans h2.step
      have h3 := fstep_write' h12.le (s.makeCopy a).2 .lik (.ref l') hb
      have h123 := h12.trans h3
      have h4 := condDens_fstep h123.le p []
      split
      · next s4 p' heq4 =>
        rw [heq4] at h4
        have h5 := fstep_write' (h123.trans h4).le (s.makeCopy a).2 .prior (.ref p') hb
        refine ⟨(h123.trans h4).trans h5, fun r hr => ?_, fun r hr => ?_⟩
        · simp only [Res.obj.injEq] at hr; rw [← hr, makeCopy_addr]; exact Nat.le_refl _
        · simp only [Res.obj.injEq] at hr
          have := ((h2.step.trans h3).trans (h4.trans h5)).size
          rw [makeCopy_size] at this
          have e := makeCopy_addr s a
          dsimp only at this ⊢
          omega
      · next s4 r _ heq4 =>
        rw [heq4] at h4
        exact fgood_err (h123.trans h4)
    · next s2 r _ heq =>
      rw [heq] at h2
      exact fgood_err (h1.trans h2.step)
  · exact fgood_err (FStep.refl h)

lemma condAny_fstep {n : Nat} {s : St} (h : n ≤ s.size) (a : Nat) (kw : Kw) : FStep n s (s.condAny a kw).1 := by
  unfold St.condAny
  split
  · exact (condJoint_fgood h a kw).1
  · exact (condJoint_fgood h a kw).1
  · exact (condPost_fgood h a kw).step
  all_goals first | exact condDens_fstep h a kw | exact FStep.refl h

/-- the result of `obj(**kw)`: allocated; fresh, or the receiver itself when it is an evaluated density -/
lemma condAny_res (s : St) (a : Nat) (kw : Kw) :
    ∀ r, (s.condAny a kw).2 = .obj r →
      r < (s.condAny a kw).1.size ∧ (s.size ≤ r ∨ (r = a ∧ s.cls a = .eval)) := by
  intro r hr
  have h0 : s.size ≤ s.size := Nat.le_refl _
  unfold St.condAny at hr ⊢
  split at hr
  · next hc => rw [hc]; have := (condJoint_fgood h0 a kw).2 r hr; exact ⟨this.2, Or.inl this.1⟩
  · next hc => rw [hc]; have := (condJoint_fgood h0 a kw).2 r hr; exact ⟨this.2, Or.inl this.1⟩
  · next hc => rw [hc]; exact ⟨(condPost_fgood h0 a kw).bound r hr, Or.inl ((condPost_fgood h0 a kw).fresh r hr)⟩
  · next hc => rw [hc]; have := condDens_res' s a kw r hr; rw [hc] at this; exact this
  · next hc => rw [hc]; have := condDens_res' s a kw r hr; rw [hc] at this; exact this
  · next hc => rw [hc]; have := condDens_res' s a kw r hr; rw [hc] at this; exact this
  · next hc => rw [hc]; have := condDens_res' s a kw r hr; rw [hc] at this; exact this
  · next hc => rw [hc]; have := condDens_res' s a kw r hr; rw [hc] at this; exact this
  · exact absurd hr (by simp)

/-! ## evaluation -/

lemma logdDist_fstep {n : Nat} {s : St} (h : n ≤ s.size) (a : Nat) (kw : Kw) : FStep n s (s.logdDist a kw).1 := by
  unfold St.logdDist
  dsimp only
  split
  · exact FStep.refl h
  · split
    · exact FStep.refl h
    · split
      · exact FStep.refl h
      · split
        · exact resync_fstep h a
        · have h1 := condDistOrReg_fgood (s := s) h a (restrictKw kw (s.condVars a))
          split
          · next s1 b heq =>
            rw [heq] at h1
            exact h1.step.trans (resync_fstep h1.step.le b)
          · next s1 r _ heq =>
            rw [heq] at h1
            exact h1.step

lemma logdLik_fstep {n : Nat} {s : St} (h : n ≤ s.size) (a : Nat) (kw : Kw) : FStep n s (s.logdLik a kw).1 := by
  unfold St.logdLik
  split
  · next d data _ _ =>
    split
    · exact FStep.refl h
    · have h1 := condDistOrReg_fgood (s := s) h d kw
      split
      · next s1 b heq =>
        rw [heq] at h1
        exact h1.step.trans (resync_fstep h1.step.le b)
      · next s1 r _ heq =>
        rw [heq] at h1
        exact h1.step
  · exact FStep.refl h

lemma logdDens_fstep {n : Nat} {s : St} (h : n ≤ s.size) (a : Nat) (kw : Kw) : FStep n s (s.logdDens a kw).1 := by
  unfold St.logdDens
  split
  · exact logdDist_fstep h a kw
  · exact logdDist_fstep h a kw
  · exact logdDist_fstep h a kw
  · exact logdLik_fstep h a kw
  · split <;> exact FStep.refl h
  · exact FStep.refl h

lemma logdList_fstep {n : Nat} (kw : Kw) :
    ∀ (ds : List Nat) (s : St) (acc : Int), n ≤ s.size → FStep n s (logdList kw s acc ds).1 := by
  intro ds
  induction ds with
  | nil => intro s acc h; exact FStep.refl h
  | cons d rest ih =>
    intro s acc h
    unfold logdList
    have h1 := logdDens_fstep h d (restrictKw kw (s.parNamesDens d))
    split
    · next s1 v heq =>
      rw [heq] at h1
      exact h1.trans (ih s1 (acc + v) h1.le)
    · next s1 r _ heq =>
      rw [heq] at h1
      exact h1

lemma logdJoint_fstep {n : Nat} {s : St} (h : n ≤ s.size) (a : Nat) (kw : Kw) : FStep n s (s.logdJoint a kw).1 := by
  unfold St.logdJoint
  split
  · split
    · exact FStep.refl h
    · exact logdList_fstep kw _ s 0 h
  · exact FStep.refl h

lemma logdPost_fstep {n : Nat} {s : St} (h : n ≤ s.size) (a : Nat) (kw : Kw) : FStep n s (s.logdPost a kw).1 := by
  unfold St.logdPost
  split
  · next l p _ _ =>
    have h1 := logdLik_fstep h l kw
    split
    · next s1 v1 heq =>
      rw [heq] at h1
      have h2 := logdDist_fstep h1.le p kw
      split
      · next s2 v2 heq2 => rw [heq2] at h2; exact h1.trans h2
      · next s2 r _ heq2 => rw [heq2] at h2; exact h1.trans h2
    · next s1 r _ heq =>
      rw [heq] at h1
      exact h1
  · exact FStep.refl h

lemma logdAny_fstep {n : Nat} {s : St} (h : n ≤ s.size) (a : Nat) (kw : Kw) : FStep n s (s.logdAny a kw).1 := by
  unfold St.logdAny
  split
  · exact logdJoint_fstep h a kw
  · exact logdJoint_fstep h a kw
  · exact logdPost_fstep h a kw
  all_goals first | exact logdDens_fstep h a kw | exact FStep.refl h

lemma touch_fstep {n : Nat} {s : St} (h : n ≤ s.size) (a : Nat) : FStep n s (s.touch a) := by
  unfold St.touch
  split
  · exact resync_fstep h a
  · exact syncInner_fstep h a
  · split
    · next d _ => exact (resync_fstep h d).trans (syncInner_fstep (resync_fstep h d).le d)
    · exact FStep.refl h
  · split
    · next l p _ _ =>
      dsimp only
      have h1 : FStep n s (match s.get l .distr with | .ref d => (s.resync d).syncInner d | _ => s) := by
        split
        · next d _ => exact (resync_fstep h d).trans (syncInner_fstep (resync_fstep h d).le d)
        · exact FStep.refl h
      exact (h1.trans (resync_fstep h1.le p)).trans (syncInner_fstep (h1.trans (resync_fstep h1.le p)).le p)
    · exact FStep.refl h
  · exact FStep.refl h

lemma gradAny_fstep {n : Nat} {s : St} (h : n ≤ s.size) (a : Nat) : FStep n s (s.gradAny a).1 := by
  unfold St.gradAny
  split
  all_goals first
    | exact touch_fstep h a
    | exact FStep.refl h
    | (split <;> first | exact touch_fstep h a | exact FStep.refl h)

lemma sampleAny_fstep {n : Nat} {s : St} (h : n ≤ s.size) (a : Nat) : FStep n s (s.sampleAny a).1 := by
  unfold St.sampleAny
  split
  all_goals first
    | exact FStep.refl h
    | (split <;> first | exact touch_fstep h a | exact FStep.refl h)

lemma toLikAny_fstep {n : Nat} {s : St} (h : n ≤ s.size) (a : Nat) (data : Int) : FStep n s (s.toLikAny a data).1 := by
  unfold St.toLikAny
  split
  all_goals first | exact (toLikelihood_fgood h a data).step | exact FStep.refl h

lemma applyModel_fstep {n : Nat} {s : St} (h : n ≤ s.size) (m d : Nat) : FStep n s (s.applyModel m d).1 := by
  unfold St.applyModel
  split
  · have h1 := fstep_copy h m
    exact h1.trans (fstep_write' h1.le _ .args _ (by rw [alloc_addr]; exact h))
  · exact FStep.refl h

lemma mkJoint_fstep {n : Nat} {s : St} (h : n ≤ s.size) (ds : List Nat) : FStep n s (s.mkJoint ds).1 := by
  unfold St.mkJoint
  dsimp only
  split
  · exact fstep_alloc h _ (by lit_noref)
  · exact FStep.refl h

lemma run_fstep {n : Nat} {s : St} (h : n ≤ s.size) (op : Op) : FStep n s (s.run op).1 := by
  cases op with
  | cond a kw => exact condAny_fstep h a kw
  | logd a kw => exact logdAny_fstep h a kw
  | grad a => exact gradAny_fstep h a
  | sample a => exact sampleAny_fstep h a
  | tolik a data => exact toLikAny_fstep h a data
  | apply m d => exact applyModel_fstep h m d
  | mkjoint ds => exact mkJoint_fstep h ds

lemma runAll_fstep {n : Nat} : ∀ (ops : List Op) (s : St), n ≤ s.size → FStep n s (s.runAll ops) := by
  intro ops
  induction ops with
  | nil => intro s h; exact FStep.refl h
  | cons op ops ih =>
    intro s h
    unfold St.runAll
    have h1 := run_fstep h op
    exact h1.trans (ih _ h1.le)

/-! ## results of object-returning operations -/

lemma logdDist_noobj (s : St) (a : Nat) (kw : Kw) (r : Nat) : (s.logdDist a kw).2 ≠ .obj r := by
  unfold St.logdDist
  dsimp only
  repeat' split
  all_goals simp

lemma logdLik_noobj (s : St) (a : Nat) (kw : Kw) (r : Nat) : (s.logdLik a kw).2 ≠ .obj r := by
  unfold St.logdLik
  repeat' split
  all_goals simp

lemma logdDens_noobj (s : St) (a : Nat) (kw : Kw) (r : Nat) : (s.logdDens a kw).2 ≠ .obj r := by
  unfold St.logdDens
  split
  · exact logdDist_noobj s a kw r
  · exact logdDist_noobj s a kw r
  · exact logdDist_noobj s a kw r
  · exact logdLik_noobj s a kw r
  · split <;> simp
  · simp

lemma logdList_noobj (kw : Kw) (r : Nat) :
    ∀ (ds : List Nat) (s : St) (acc : Int), (logdList kw s acc ds).2 ≠ .obj r := by
  intro ds
  induction ds with
  | nil => intro s acc; simp [logdList]
  | cons d rest ih =>
    intro s acc
    unfold logdList
    split
    · exact ih _ _
    · simp

lemma logdJoint_noobj (s : St) (a : Nat) (kw : Kw) (r : Nat) : (s.logdJoint a kw).2 ≠ .obj r := by
  unfold St.logdJoint
  split
  · split
    · simp
    · exact logdList_noobj kw r _ s 0
  · simp

lemma logdPost_noobj (s : St) (a : Nat) (kw : Kw) (r : Nat) : (s.logdPost a kw).2 ≠ .obj r := by
  unfold St.logdPost
  repeat' split
  all_goals simp

lemma logdAny_noobj (s : St) (a : Nat) (kw : Kw) (r : Nat) : (s.logdAny a kw).2 ≠ .obj r := by
  unfold St.logdAny
  split
  · exact logdJoint_noobj s a kw r
  · exact logdJoint_noobj s a kw r
  · exact logdPost_noobj s a kw r
  all_goals first | exact logdDens_noobj s a kw r | simp

lemma gradAny_noobj (s : St) (a : Nat) (r : Nat) : (s.gradAny a).2 ≠ .obj r := by
  unfold St.gradAny
  repeat' split
  all_goals simp

lemma sampleAny_noobj (s : St) (a : Nat) (r : Nat) : (s.sampleAny a).2 ≠ .obj r := by
  unfold St.sampleAny
  repeat' split
  all_goals simp

lemma toLikAny_fgood {n : Nat} {s : St} (h : n ≤ s.size) (a : Nat) (data : Int) : FGood n s (s.toLikAny a data) := by
  unfold St.toLikAny
  split
  all_goals first | exact toLikelihood_fgood h a data | exact fgood_err (FStep.refl h)

lemma applyModel_fgood {n : Nat} {s : St} (h : n ≤ s.size) (m d : Nat) : FGood n s (s.applyModel m d) := by
  unfold St.applyModel
  split
  · have h1 := fstep_copy h m
    refine ⟨h1.trans (fstep_write' h1.le _ .args _ (by rw [alloc_addr]; exact h)), fun r hr => ?_, fun r hr => ?_⟩
    · simp only [alloc_addr, Res.obj.injEq] at hr; omega
    · simp only [alloc_addr, Res.obj.injEq] at hr
      dsimp only
      rw [write_size, alloc_size]; omega
  · exact fgood_err (FStep.refl h)

lemma mkJoint_fgood {n : Nat} {s : St} (h : n ≤ s.size) (ds : List Nat) : FGood n s (s.mkJoint ds) := by
  unfold St.mkJoint
  dsimp only
  split
  · refine ⟨fstep_alloc h _ (by lit_noref), fun r hr => ?_, fun r hr => ?_⟩
    · simp only [alloc_addr, Res.obj.injEq] at hr; omega
    · simp only [alloc_addr, Res.obj.injEq] at hr
      dsimp only
      rw [alloc_size]; omega
  · exact fgood_err (FStep.refl h)

/-- every object result of every operation is allocated in the resulting heap, and is fresh
    unless the operation is `EvaluatedDensity._condition`, which returns `self` -/
lemma run_res (s : St) (op : Op) (r : Nat) (hr : (s.run op).2 = .obj r) :
    r < (s.run op).1.size ∧ (s.size ≤ r ∨ ∃ kw, op = .cond r kw ∧ s.cls r = .eval) := by
  have h0 : s.size ≤ s.size := Nat.le_refl _
  cases op with
  | cond a kw =>
    have := condAny_res s a kw r hr
    refine ⟨this.1, ?_⟩
    rcases this.2 with h | ⟨h1, h2⟩
    · exact Or.inl h
    · subst h1; exact Or.inr ⟨kw, rfl, h2⟩
  | logd a kw => exact absurd hr (logdAny_noobj s a kw r)
  | grad a => exact absurd hr (gradAny_noobj s a r)
  | sample a => exact absurd hr (sampleAny_noobj s a r)
  | tolik a data => exact ⟨(toLikAny_fgood h0 a data).bound r hr, Or.inl ((toLikAny_fgood h0 a data).fresh r hr)⟩
  | apply m d => exact ⟨(applyModel_fgood h0 m d).bound r hr, Or.inl ((applyModel_fgood h0 m d).fresh r hr)⟩
  | mkjoint ds => exact ⟨(mkJoint_fgood h0 ds).bound r hr, Or.inl ((mkJoint_fgood h0 ds).fresh r hr)⟩

/-! ## shallow copies share their attribute values -/

lemma makeCopy_get (s : St) (a : Nat) (f : Fld) (hf : f ≠ .orig) :
    (s.makeCopy a).1.get (s.makeCopy a).2 f = s.get a f := by
  unfold St.makeCopy
  dsimp only
  rw [write_get_other _ _ _ _ _ _ (Or.inr hf), alloc_addr, alloc_get_new]
  rfl

lemma makeCopy_cls (s : St) (a : Nat) : (s.makeCopy a).1.cls (s.makeCopy a).2 = s.cls a := by
  unfold St.makeCopy
  dsimp only
  rw [write_cls, alloc_addr]
  unfold St.cls
  rw [alloc_obj_new]

lemma obj_eq_of (s s' : St) (a : Nat) (hc : s'.cls a = s.cls a) (hg : ∀ f, s'.get a f = s.get a f) :
    s'.obj a = s.obj a := by
  unfold St.cls at hc
  unfold St.get at hg
  cases h1 : s'.obj a with
  | mk c1 f1 =>
    cases h2 : s.obj a with
    | mk c2 f2 =>
      rw [h1, h2] at hc
      simp only [h1, h2] at hg
      simp only at hc
      subst hc
      congr
      funext f
      exact hg f

/-! ## conditioning = shallow copy + re-binding of mutable variables only -/

lemma condSlot_get_other (o : Obj) (kw : Kw) (s : St) (b i x : Nat) (f : Fld) (hf : ∀ j, f ≠ .slot j) :
    (condSlot o kw s b i).get x f = s.get x f := by
  unfold condSlot
  split
  · split
    · exact write_get_other _ _ _ _ _ _ (Or.inr (hf i))
    · rfl
  · dsimp only
    split
    · exact write_get_other _ _ _ _ _ _ (Or.inr (hf i))
    · split
      · exact write_get_other _ _ _ _ _ _ (Or.inr (hf i))
      · rfl
  · rfl

lemma condSlots_get_other (o : Obj) (kw : Kw) (b x : Nat) (f : Fld) (hf : ∀ j, f ≠ .slot j) :
    ∀ (l : List Nat) (s : St), (l.foldl (fun st i => condSlot o kw st b i) s).get x f = s.get x f := by
  intro l
  induction l with
  | nil => intro s; rfl
  | cons i l ih =>
    intro s
    rw [List.foldl_cons, ih, condSlot_get_other o kw s b i x f hf]

lemma resync_get_other (s : St) (a x : Nat) (f : Fld) (h1 : f ≠ .cmean) (h2 : f ≠ .ccov) :
    (s.resync a).get x f = s.get x f := by
  unfold St.resync
  split
  · dsimp only
    split <;> split <;>
      simp only [write_get_other _ _ _ _ _ _ (Or.inr h1), write_get_other _ _ _ _ _ _ (Or.inr h2)]
  · rfl

lemma condNormalSlot_get_other (s : St) (a b x : Nat) (f : Fld) (hx : x < s.size)
    (h1 : f ≠ .cmean) (h2 : f ≠ .ccov) (h3 : f ≠ .orig) (h4 : f ≠ .cacheG) :
    (s.condNormalSlot a b).get x f = s.get x f := by
  unfold St.condNormalSlot
  split
  · next g _ _ =>
    dsimp only
    rw [write_get_other _ _ _ _ _ _ (Or.inr h4)]
    unfold St.makeCopy
    dsimp only
    rw [write_get_other _ _ _ _ _ _ (Or.inr h3),
        alloc_get_old _ _ _ _ (Nat.lt_of_lt_of_le hx (resync_fstep (n := 0) (Nat.zero_le _) a).size),
        resync_get_other s a x f h1 h2]
  · rfl

lemma toLikelihood_get_old (s : St) (b x : Nat) (data : Int) (f : Fld) (hx : x < s.size) :
    (s.toLikelihood b data).1.get x f = s.get x f := by
  unfold St.toLikelihood
  split <;> exact alloc_get_old _ _ _ _ hx

/-- the conditioned copy made by `Distribution._condition` (address `s.size`) has every attribute
    value of its original except `_original_density`, the mutable variables and (Lognormal) `_Gaussian` -/
lemma condDist_copy_get (s : St) (a : Nat) (kw : Kw) (f : Fld) (hs : ∀ j, f ≠ .slot j)
    (h1 : f ≠ .cmean) (h2 : f ≠ .ccov) (h3 : f ≠ .orig) (h4 : f ≠ .cacheG) :
    (s.condDist a kw).1.get s.size f = s.get a f := by
  have hb : (s.makeCopy a).2 = s.size := rfl
  have hsz1 : (s.makeCopy a).1.size = s.size + 1 := makeCopy_size s a
  have hsz2 := (condSlots_fstep (n := 0) (s := (s.makeCopy a).1) (Nat.zero_le _) (s.obj a) kw (s.makeCopy a).2 (Nat.zero_le _)).size
  have hsz3 := (condNormalSlot_fstep (n := 0) (s := condSlots (s.obj a) kw (s.makeCopy a).1 (s.makeCopy a).2)
    (Nat.zero_le _) a (s.makeCopy a).2 (Nat.zero_le _)).size
  have key : ((condSlots (s.obj a) kw (s.makeCopy a).1 (s.makeCopy a).2).condNormalSlot a (s.makeCopy a).2).get s.size f
      = s.get a f := by
    rw [condNormalSlot_get_other _ _ _ _ _ (by omega) h1 h2 h3 h4]
    unfold condSlots
    rw [condSlots_get_other _ _ _ _ _ hs, ← hb, makeCopy_get s a f h3]
  unfold St.condDist
  dsimp only
  split
  · exact key
  · split
    · split
      · rw [toLikelihood_get_old _ _ _ _ _ (by omega)]; exact key
      · exact key
    · exact key

/-! ## the other deriving operations: shallow copy + re-binding of one or two attributes -/

lemma FStep.get_noninplace {n : Nat} {s s' : St} (h : FStep n s s') (a : Nat) (f : Fld) (ha : a < n)
    (hf : f.inplace = false) : s'.get a f = s.get a f := by
  obtain ⟨add, _, hg, hc, _⟩ := h.seg
  apply hg a f (Nat.lt_of_lt_of_le ha h.hn)
  intro hm
  rcases (hc _ hm).1 with h1 | h1
  · exact absurd h1 (by simp only; omega)
  · rw [hf] at h1; exact absurd h1 (by decide)

lemma alloc_copy_get (s : St) (a : Nat) (f : Fld) : (s.alloc (s.obj a)).1.get s.size f = s.get a f := by
  rw [alloc_get_new]; rfl

/-- `Model.forward(dist)`: the new model has every attribute value of the model but `_non_default_args` -/
lemma applyModel_copy_get (s : St) (m d r : Nat) (hr : (s.applyModel m d).2 = .obj r) (f : Fld) (hf : f ≠ .args) :
    r = s.size ∧ (s.applyModel m d).1.get s.size f = s.get m f := by
  revert hr
  unfold St.applyModel
  split
  · intro hr
    simp only [alloc_addr, Res.obj.injEq] at hr
    refine ⟨hr.symm, ?_⟩
    dsimp only
    rw [write_get_other _ _ _ _ _ _ (Or.inr hf)]
    exact alloc_copy_get s m f
  · intro hr; exact absurd hr (by simp)

/-- `Likelihood._condition`: the new likelihood (address `s.size`) has every attribute value of the
    receiver but `distribution` -/
lemma condLik_copy_get (s : St) (a d : Nat) (data : Int) (kw : Kw) (hd : s.get a .distr = .ref d)
    (hdat : s.get a .data = .num data) (f : Fld) (hf : f ≠ .distr) (hi : f.inplace = false) :
    (s.condLik a kw).1.get s.size f = s.get a f := by
  have hlt : s.size < (s.alloc (s.obj a)).1.size := by rw [alloc_size]; omega
  have h2 := condDistOrReg_fgood (n := (s.alloc (s.obj a)).1.size) (Nat.le_refl _) d kw
  have base : ∀ s2 r, (if (s.alloc (s.obj a)).1.cls d = .reggauss then (s.alloc (s.obj a)).1.condReg d kw
      else (s.alloc (s.obj a)).1.condDist d kw) = (s2, r) → s2.get s.size f = s.get a f ∧ s.size < s2.size := by
    intro s2 r heq
    rw [heq] at h2
    exact ⟨by rw [h2.step.get_noninplace s.size f hlt hi]; exact alloc_copy_get s a f,
           Nat.lt_of_lt_of_le hlt h2.step.size⟩
  unfold St.condLik
  rw [hd, hdat]
  dsimp only
  split
  · next s2 d' heq =>
    have hb := base s2 _ heq
    split
    · exact hb.1
    · have e : (s.alloc (s.obj a)).2 = s.size := rfl
      split
      · rw [toLikelihood_get_old _ _ _ _ _ (by rw [write_size]; exact hb.2), e,
            write_get_other _ _ _ _ _ _ (Or.inr hf)]
        exact hb.1
      · dsimp only
        rw [e, write_get_other _ _ _ _ _ _ (Or.inr hf)]
        exact hb.1
  · next s2 r _ heq => exact (base s2 r heq).1

/-- `RegularizedGaussian._condition`: the copy has every attribute value of the receiver but
    `_original_density` and `_gaussian` -/
lemma condReg_copy_get (s : St) (a g : Nat) (kw : Kw) (hg : s.get a .gauss = .ref g) (f : Fld)
    (h1 : f ≠ .orig) (h2 : f ≠ .gauss) (hi : f.inplace = false) :
    (s.condReg a kw).1.get s.size f = s.get a f := by
  have hb : (s.makeCopy a).2 = s.size := rfl
  have hlt : s.size < (s.makeCopy a).1.size := by rw [makeCopy_size]; omega
  have hs := syncInner_fstep (n := (s.makeCopy a).1.size) (Nat.le_refl _) a
  have e2 : ((s.makeCopy a).1.syncInner a).get s.size f = s.get a f := by
    rw [hs.get_noninplace s.size f hlt hi, ← hb, makeCopy_get s a f h1]
  have hlt2 : s.size < ((s.makeCopy a).1.syncInner a).size := Nat.lt_of_lt_of_le hlt hs.size
  have h3' := fun kw' => condDist_fgood (n := ((s.makeCopy a).1.syncInner a).size) (Nat.le_refl _) g kw'
  unfold St.condReg
  rw [hg]
  dsimp only
  split
  · next s3 g' heq =>
    have h3 : FGood ((s.makeCopy a).1.syncInner a).size ((s.makeCopy a).1.syncInner a) (s3, .obj g') := by
      rw [← heq]; exact h3' _
    have e3 : s3.get s.size f = s.get a f := by
      rw [h3.step.get_noninplace s.size f hlt2 hi]; exact e2
    have hlt3 : s.size < s3.size := Nat.lt_of_lt_of_le hlt2 h3.step.size
    split
    · rw [toLikelihood_get_old _ _ _ _ _ (by rw [write_size]; exact hlt3), hb,
          write_get_other _ _ _ _ _ _ (Or.inr h2)]
      exact e3
    · dsimp only
      rw [hb, write_get_other _ _ _ _ _ _ (Or.inr h2)]
      exact e3
  · next s3 r _ heq =>
    have h3 : FGood ((s.makeCopy a).1.syncInner a).size ((s.makeCopy a).1.syncInner a) (s3, r) := by
      rw [← heq]; exact h3' _
    dsimp only
    rw [h3.step.get_noninplace s.size f hlt2 hi]; exact e2

/-- `Posterior()`: the copy has every attribute value of the receiver but `_original_density`,
    `likelihood` and `prior` -/
lemma condPost_copy_get (s : St) (a l p : Nat) (hl : s.get a .lik = .ref l) (hp : s.get a .prior = .ref p) (f : Fld)
    (h1 : f ≠ .orig) (h2 : f ≠ .lik) (h3 : f ≠ .prior) (hi : f.inplace = false) :
    (s.condPost a []).1.get s.size f = s.get a f := by
  have hb : (s.makeCopy a).2 = s.size := rfl
  have hlt : s.size < (s.makeCopy a).1.size := by rw [makeCopy_size]; omega
  have e1 : (s.makeCopy a).1.get s.size f = s.get a f := by rw [← hb, makeCopy_get s a f h1]
  have k2 := condLik_fgood (n := (s.makeCopy a).1.size) (Nat.le_refl _) l []
  unfold St.condPost
  rw [hl, hp]
  dsimp only
  split
  · next s2 l' heq =>
    rw [heq] at k2
    have e2 : s2.get s.size f = s.get a f := by rw [k2.step.get_noninplace s.size f hlt hi]; exact e1
    have hlt2 : s.size < s2.size := Nat.lt_of_lt_of_le hlt k2.step.size
    have k4 := condDens_fstep (n := (s2.write (s.makeCopy a).2 .lik (.ref l')).size) (Nat.le_refl _) p []
    have e3 : (s2.write (s.makeCopy a).2 .lik (.ref l')).get s.size f = s.get a f := by
      rw [hb, write_get_other _ _ _ _ _ _ (Or.inr h2)]; exact e2
    split
    · next s4 p' heq4 =>
      rw [heq4] at k4
      dsimp only
      rw [hb, write_get_other _ _ _ _ _ _ (Or.inr h3),
          k4.get_noninplace s.size f (by rw [write_size]; exact hlt2) hi]
      rw [hb] at e3; exact e3
    · next s4 r _ heq4 =>
      rw [heq4] at k4
      dsimp only
      rw [k4.get_noninplace s.size f (by rw [write_size]; exact hlt2) hi]
      exact e3
  · next s2 r _ heq =>
    rw [heq] at k2
    dsimp only
    rw [k2.step.get_noninplace s.size f hlt hi]; exact e1

lemma condList_get_joint (kw : Kw) (j : Nat) (f : Fld) (hf : f ≠ .dens) (hi : f.inplace = false) :
    ∀ (rest : List Nat) (s : St) (pre : List Nat), j < s.size →
      (condList kw j s pre rest).1.get j f = s.get j f ∧ j < (condList kw j s pre rest).1.size := by
  intro rest
  induction rest with
  | nil => intro s pre h; exact ⟨rfl, h⟩
  | cons d0 rest ih =>
    intro s pre h
    unfold condList
    have h1 := condDens_fstep (n := s.size) (Nat.le_refl _) d0 (restrictKw kw (s.parNamesDens d0))
    split
    · next s1 d' heq =>
      rw [heq] at h1
      have hs1 : j < s1.size := Nat.lt_of_lt_of_le h h1.size
      have := ih (s1.write j .dens (.refs (pre ++ d' :: rest))) (pre ++ [d']) (by rw [write_size]; exact hs1)
      refine ⟨?_, this.2⟩
      rw [this.1, write_get_other _ _ _ _ _ _ (Or.inr hf)]
      exact h1.get_noninplace j f h hi
    · next s1 r _ heq =>
      rw [heq] at h1
      exact ⟨h1.get_noninplace j f h hi, Nat.lt_of_lt_of_le h h1.size⟩

lemma addConst_get_other (s : St) (d : Nat) (ds : List Nat) (x : Nat) (f : Fld) (hx : x < s.size)
    (hf : f ≠ .const) (hc : f ≠ .cval) : (s.addConst d ds).get x f = s.get x f := by
  unfold St.addConst
  split
  · dsimp only
    rw [write_get_other _ _ _ _ _ _ (Or.inr hf)]
    split
    · exact write_get_other _ _ _ _ _ _ (Or.inr hc)
    · rfl
  · split
    · dsimp only
      rw [write_get_other _ _ _ _ _ _ (Or.inr hf)]
      exact alloc_get_old _ _ _ _ hx
    · exact write_get_other _ _ _ _ _ _ (Or.inr hf)

lemma reduce_get_other (s : St) (j : Nat) (ds : List Nat) (x : Nat) (f : Fld) (hx : x < s.size)
    (hf : f ≠ .const) (hc : f ≠ .cval) : (s.reduce j ds).1.get x f = s.get x f := by
  unfold St.reduce
  dsimp only
  split
  · rfl
  · exact alloc_get_old _ _ _ _ hx
  · split
    · dsimp only
      rw [addConst_get_other _ _ _ _ _ (by rw [alloc_size]; omega) hf hc]
      exact alloc_get_old _ _ _ _ hx
    · rfl
  · exact addConst_get_other _ _ _ _ _ hx hf hc
  · rfl
  · rfl

/-- `JointDistribution._condition`: the new joint (address `s.size`; returned unless the joint
    reduces to a single density) has every attribute value of the receiver but `_densities`
    (`_constant` is left out: `_add_constants_to_density` re-binds it on the reduced density) -/
lemma condJoint_copy_get (s : St) (a : Nat) (ds : List Nat) (kw : Kw) (hd : s.get a .dens = .refs ds) (f : Fld)
    (h1 : f ≠ .dens) (h2 : f ≠ .const) (hi : f.inplace = false) :
    (s.condJoint a kw).1.get s.size f = s.get a f := by
  have hcv : f ≠ .cval := by intro e; rw [e] at hi; exact absurd hi (by decide)
  have hj : (s.alloc (s.obj a)).2 = s.size := rfl
  have hlt : s.size < ((s.alloc (s.obj a)).1.write (s.alloc (s.obj a)).2 .dens (.refs ds)).size := by
    rw [write_size, alloc_size]; omega
  have e1 : ((s.alloc (s.obj a)).1.write (s.alloc (s.obj a)).2 .dens (.refs ds)).get s.size f = s.get a f := by
    rw [write_get_other _ _ _ _ _ _ (Or.inr h1)]; exact alloc_copy_get s a f
  have h3 := condList_get_joint kw s.size f h1 hi ds _ [] hlt
  rw [hj] at h3 e1
  unfold St.condJoint
  rw [hd]
  dsimp only
  rw [hj]
  split
  · next s3 ds' heq =>
    rw [heq] at h3
    rw [reduce_get_other _ _ _ _ _ h3.2 h2 hcv, h3.1]
    exact e1
  · next s3 heq =>
    rw [heq] at h3
    dsimp only
    rw [h3.1]; exact e1

end CuqiVerif.C11
