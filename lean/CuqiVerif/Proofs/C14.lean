import CuqiVerif.Model.C14

/-!
# C14 — helper lemmas (attribute maps, loops)
-/
namespace CuqiVerif.C14

/-- two objects carry the same values on the attributes `ks` -/
def AgreeOn (ks : List String) (o o' : Obj) : Prop := ∀ k, k ∈ ks → o.get k = o'.get k

theorem get_set (o : Obj) (k k' : String) (v : Val) :
    (o.set k v).get k' = if k' = k then v else o.get k' := by
  simp [Obj.set, Obj.get]

theorem get_clear (o : Obj) (ks : List String) (k : String) :
    (o.clear ks).get k = if k ∈ ks then Val.none else o.get k := by
  induction ks generalizing o with
  | nil => simp [Obj.clear]
  | cons a as ih =>
    simp only [Obj.clear, ih, get_set, List.mem_cons]
    by_cases h1 : k ∈ as
    · simp [h1]
    · by_cases h2 : k = a <;> simp [h1, h2]

theorem AgreeOn.refl (ks : List String) (o : Obj) : AgreeOn ks o o := fun _ _ => rfl

theorem AgreeOn.symm {ks : List String} {o o' : Obj} (h : AgreeOn ks o o') : AgreeOn ks o' o :=
  fun k hk => (h k hk).symm

theorem AgreeOn.mono {ks ks' : List String} {o o' : Obj} (h : AgreeOn ks o o')
    (hs : ∀ k, k ∈ ks' → k ∈ ks) : AgreeOn ks' o o' := fun k hk => h k (hs k hk)

/-- `set_state(get_state(orig))` on any object: succeeds, copies the state keys of `orig`, leaves
    every other attribute alone. General form with an accumulator of the keys still to be set. -/
theorem setState_map_spec (S : List String) (orig : Obj) :
    ∀ (ks : List String), (∀ k, k ∈ ks → k ∈ S) → ∀ (o : Obj),
      ∃ o', setState S (ks.map (fun k => (k, orig.get k))) o = some o' ∧
        (∀ k, k ∈ ks → o'.get k = orig.get k) ∧ (∀ k, k ∉ ks → o'.get k = o.get k) := by
  intro ks
  induction ks with
  | nil => intro _ o; exact ⟨o, by simp [setState]⟩
  | cons a as ih =>
    intro hsub o
    have ha : a ∈ S := hsub a (by simp)
    obtain ⟨o', h1, h2, h3⟩ := ih (fun k hk => hsub k (by simp [hk])) (o.set a (orig.get a))
    refine ⟨o', ?_, ?_, ?_⟩
    · simp [setState, ha, h1]
    · intro k hk
      by_cases hka : k ∈ as
      · exact h2 k hka
      · have : k = a := by
          rcases List.mem_cons.mp hk with h | h
          · exact h
          · exact absurd h hka
        subst this
        rw [h3 k hka, get_set]; simp
    · intro k hk
      have hka : k ∉ as := fun h => hk (by simp [h])
      have hne : k ≠ a := fun h => hk (by simp [h])
      rw [h3 k hka, get_set]; simp [hne]

theorem setState_getState (S : List String) (orig fresh : Obj) :
    ∃ o', setState S (getState S orig) fresh = some o' ∧ AgreeOn S o' orig ∧
      (∀ k, k ∉ S → o'.get k = fresh.get k) := by
  obtain ⟨o', h1, h2, h3⟩ := setState_map_spec S orig S (fun _ h => h) fresh
  exact ⟨o', h1, h2, h3⟩

/-! ### the sampling loop -/

theorem oneStep_initialized {D A : Type} (sp : Spec D A) (r : Run D A) :
    (oneStep sp r).initialized = r.initialized := rfl

theorem sampleLoop_initialized {D A : Type} (sp : Spec D A) (n : Nat) (r : Run D A) :
    (sampleLoop sp n r).initialized = r.initialized := by
  induction n generalizing r with
  | zero => rfl
  | succ k ih => simp only [sampleLoop]; rw [ih]; rfl

theorem ensureInit_initialized {D A : Type} (sp : Spec D A) (r : Run D A) :
    (ensureInit sp r).initialized = true := by
  unfold ensureInit
  by_cases h : r.initialized = true
  · simp [h]
  · simp [h, initializeRun]

theorem ensureInit_of_initialized {D A : Type} (sp : Spec D A) (r : Run D A)
    (h : r.initialized = true) : ensureInit sp r = r := by
  simp [ensureInit, h]

theorem sampleLoop_inv {D A : Type} (sp : Spec D A) (Inv : Obj → Prop)
    (hstep : ∀ o ds, Inv o → Inv (sp.step o ds).1) (n : Nat) (r : Run D A) (h : Inv r.obj) :
    Inv (sampleLoop sp n r).obj := by
  induction n generalizing r with
  | zero => exact h
  | succ k ih =>
    simp only [sampleLoop]
    apply ih
    exact hstep _ _ h

end CuqiVerif.C14
