import CuqiVerif.Props.C17
import CuqiVerif.Props.C01_full
import CuqiVerif.Props.C04_norm

/-!
# C17 — helper definitions and lemmas for `Props/C17_posterior.lean`

* `Vec`, `gaussLogd`: the log-density `Gaussian(mean, cov).logd(y)` for a diagonal covariance, *defined as*
  C04's `gaussDiagLogpdf` (the value the C04 driver assembles from `gaussLogpdf`, `quadForm`, `prodList` for
  what `canonDiag .cov` returns), and its closed form.
* `yFac`, `xFac`: the two-node model graph `y | x`, `x` of every test problem as C01 `Factor`s over vector
  values, with arbitrary log-densities `ll x y`, `lp x`; `graph_wf`: it is well-formed (C01's `WF`).
* `buildVia`: `BayesianProblem.__init__` on C17's two construction `Path`s, run in C01's executable model
  (`condJoint`, `toLik`, `fresh`); `build_reduce`: both paths reduce the same density list;
  `build_post`: the result is the `Posterior` holding the likelihood `(y-factor, data)` and the prior, and
  it evaluates (by position and by keyword) to `ll x data + lp x` — through C01's `reduce_rep`,
  `rep_logd_ok`, `condition_steps`.
-/
open Finset

set_option linter.unusedSimpArgs false
set_option linter.unusedVariables false

namespace CuqiVerif.C17
open CuqiVerif.C07

/-- vectors (signals, images in C-order, data, parameters): entries beyond the length are never read -/
abbrev Vec := ℕ → ℝ

/-! ## the Gaussian log-density (C04) -/

/-- `Gaussian(mean, cov).logd(y)` with a scalar / vector (diagonal) covariance, dimension `m`: C04's
    `gaussDiagLogpdf` — `gaussLogpdf rank detCov quad` with `rank = m`, `detCov = Π cov_i`,
    `quad = quadForm m diag(1/cov_i) (y − mean)`. -/
noncomputable def gaussLogd (m : ℕ) (mean cov y : Vec) : ℝ :=
  C04.gaussDiagLogpdf m (fun i : Fin m => mean i) (fun i : Fin m => cov i) (fun i : Fin m => y i)

lemma gaussLogd_eq_sum (m : ℕ) (mean cov y : Vec) :
    gaussLogd m mean cov y
      = -(1 / 2 * ((m : ℝ) * Real.log (2 * Real.pi) + Real.log (∏ i ∈ range m, cov i)))
        + -(1 / 2 * ∑ i ∈ range m, 1 / cov i * (y i - mean i) ^ 2) := by
  unfold gaussLogd C04.gaussDiagLogpdf
  simp only [C04.gaussLogpdf, RExpr.eval_add, RExpr.eval_neg, RExpr.eval_mul, RExpr.eval_log, RExpr.eval_pi,
    RExpr.eval_ofNat, RExpr.eval_div, RExpr.eval_var, C04.env4_0, C04.env4_1, C04.env4_2, Nat.cast_ofNat, Nat.cast_one]
  rw [C04.quadForm_diag, Fin.prod_univ_eq_prod_range (fun i => cov i) m]
  congr 2
  congr 1
  refine Finset.sum_congr rfl fun i hi => ?_
  have hi' : i < m := mem_range.mp hi
  have e : ∀ w : Vec, C04.extFin (fun j : Fin m => w j) i = w i := fun w => C04.extFin_val (fun j : Fin m => w j) ⟨i, hi'⟩
  rw [e, e, e]

lemma gaussLogd_eq_documented (m : ℕ) (mean cov sd y : Vec)
    (hcov : ∀ i, i < m → cov i = sd i * sd i) (hsd : ∀ i, i < m → sd i ≠ 0) :
    gaussLogd m mean cov y
      = -(1 / 2) * ∑ i ∈ range m, ((y i - mean i) / sd i) ^ 2 - ∑ i ∈ range m, Real.log |sd i|
        - (m : ℝ) / 2 * Real.log (2 * Real.pi) := by
  rw [gaussLogd_eq_sum]
  have h1 : Real.log (∏ i ∈ range m, cov i) = 2 * ∑ i ∈ range m, Real.log |sd i| := by
    rw [Real.log_prod]
    · rw [Finset.mul_sum]
      refine Finset.sum_congr rfl fun i hi => ?_
      have hi' := mem_range.mp hi
      rw [hcov i hi', Real.log_mul (hsd i hi') (hsd i hi'), Real.log_abs]; ring
    · intro i hi
      have hi' := mem_range.mp hi
      rw [hcov i hi']; exact mul_ne_zero (hsd i hi') (hsd i hi')
  have h2 : ∑ i ∈ range m, 1 / cov i * (y i - mean i) ^ 2 = ∑ i ∈ range m, ((y i - mean i) / sd i) ^ 2 := by
    refine Finset.sum_congr rfl fun i hi => ?_
    have hi' := mem_range.mp hi
    rw [hcov i hi']
    have := hsd i hi'
    field_simp
  rw [h1, h2]; ring

/-! ## the model graph `y | x`, `x` in C01's model -/

def splitVec : List ℕ → Vec → List Vec
  | [], v => [v]
  | [_], v => [v]
  | d :: ds, v => v :: splitVec ds (fun i => v (i + d))

instance : C01.Stackable Vec := ⟨splitVec⟩

def getv (ρ : C01.Name → Option Vec) (n : C01.Name) : Vec := (ρ n).getD (fun _ => 0)

/-- generic graph: y | x with log-density `ll x y`, x with log-density `lp x` -/
def yFac (dim : ℕ) (ll : Vec → Vec → ℝ) : C01.Factor Vec ℝ :=
  { name := "y", params := ["x"], dim := dim, f := fun ρ => ll (getv ρ "x") (getv ρ "y") }
def xFac (dim : ℕ) (lp : Vec → ℝ) : C01.Factor Vec ℝ :=
  { name := "x", params := [], dim := dim, f := fun ρ => lp (getv ρ "x") }

lemma graph_wf (m n : ℕ) (ll : Vec → Vec → ℝ) (lp : Vec → ℝ) : C01.WF [yFac m ll, xFac n lp] := by
  refine ⟨by simp [yFac, xFac], ?_, ?_, ?_⟩
  · intro F hF p hp
    simp only [List.mem_cons, List.not_mem_nil, or_false] at hF
    rcases hF with rfl | rfl
    · simp only [yFac, List.mem_cons, List.not_mem_nil, or_false] at hp
      subst hp; simp [yFac, xFac]
    · simp [xFac] at hp
  · intro F hF
    simp only [List.mem_cons, List.not_mem_nil, or_false] at hF
    rcases hF with rfl | rfl
    · refine ⟨by simp [yFac, xFac], by simp [yFac, xFac, C01.mainKey], fun ρ ρ' h => ?_⟩
      have h1 := h "x" (by simp [yFac])
      have h2 := h "y" (by simp [yFac])
      simp only [yFac, getv, h1, h2]
    · refine ⟨by simp [yFac, xFac], by simp [yFac, xFac, C01.mainKey], fun ρ ρ' h => ?_⟩
      have h1 := h "x" (by simp [xFac])
      simp only [xFac, getv, h1]
  · intro F hF
    simp only [List.mem_cons, List.not_mem_nil, or_false] at hF
    rcases hF with rfl | rfl <;> simp [yFac, xFac]

lemma graph_total (m n : ℕ) (ll : Vec → Vec → ℝ) (lp : Vec → ℝ) (d x : Vec) :
    C01.total [yFac m ll, xFac n lp] ([("y", d)] ++ ([] ++ ["x"].zip [x])) = ll x d + lp x := by
  simp [C01.total, yFac, xFac, getv, C01.kwGet]


/-- `BayesianProblem.__init__` on the two paths, in C01's executable model -/
def buildVia (m n : ℕ) (ll : Vec → Vec → ℝ) (lp : Vec → ℝ) (d : Vec) : Path → Except C01.Err (C01.Obj Vec ℝ)
  | .viaData => C01.condJoint .plain [C01.fresh (yFac m ll), C01.fresh (xFac n lp)] [] [("y", d)]
  | .viaLikelihood =>
      C01.condJoint .plain [C01.toLik (yFac m ll) (fun _ => none) 0 d, C01.fresh (xFac n lp)] [] []

@[simp] lemma yFac_name (m : ℕ) (ll : Vec → Vec → ℝ) : (yFac m ll).name = "y" := rfl
@[simp] lemma yFac_params (m : ℕ) (ll : Vec → Vec → ℝ) : (yFac m ll).params = ["x"] := rfl
@[simp] lemma xFac_name (n : ℕ) (lp : Vec → ℝ) : (xFac n lp).name = "x" := rfl
@[simp] lemma xFac_params (n : ℕ) (lp : Vec → ℝ) : (xFac n lp).params = [] := rfl

lemma st_y (m : ℕ) (ll : Vec → Vec → ℝ) (d : Vec) :
    C01.st [("y", d)] (yFac m ll) = C01.Dens.lik (yFac m ll) (fun _ => none) d 0 := by
  have : C01.penv (yFac m ll) [("y", d)] = fun _ => none := by
    funext k
    simp only [C01.penv, yFac_params, List.mem_cons, List.not_mem_nil, or_false]
    split_ifs with h
    · subst h; simp [C01.kwGet]
    · rfl
  simp only [C01.st, yFac_name, C01.kwGet, if_true, this, C01.toLik, C01.free, yFac_params]
  simp

lemma st_x (n : ℕ) (lp : Vec → ℝ) (d : Vec) :
    C01.st [("y", d)] (xFac n lp) = C01.fresh (xFac n lp) := by
  have : C01.penv (xFac n lp) [("y", d)] = fun _ => none := by
    funext k
    simp [C01.penv]
  simp [C01.st, C01.kwGet, C01.fresh, this]

lemma build_reduce (m n : ℕ) (ll : Vec → Vec → ℝ) (lp : Vec → ℝ) (d : Vec) (path : Path) :
    buildVia m n ll lp d path
      = C01.reduce .plain ([yFac m ll, xFac n lp].map (C01.st [("y", d)])) := by
  have hw := graph_wf m n ll lp
  cases path with
  | viaData =>
    have hfresh : [C01.fresh (yFac m ll), C01.fresh (xFac n lp)]
        = [yFac m ll, xFac n lp].map (C01.st ([] : C01.Kw Vec)) := by
      simp [C01.st_fresh]
    rw [buildVia, hfresh, C01.condition_steps _ hw.fok, List.nil_append]
  | viaLikelihood =>
    have hl : [C01.toLik (yFac m ll) (fun _ => none) 0 d, C01.fresh (xFac n lp)]
        = [yFac m ll, xFac n lp].map (C01.st [("y", d)]) := by
      have : C01.toLik (yFac m ll) (fun _ => none) 0 d = C01.Dens.lik (yFac m ll) (fun _ => none) d 0 := by
        simp [C01.toLik, C01.free]
      simp [st_y, st_x, this]
    rw [buildVia, hl, C01.condition_steps _ hw.fok, List.append_nil]

lemma build_post (m n : ℕ) (ll : Vec → Vec → ℝ) (lp : Vec → ℝ) (d : Vec) (path : Path) :
    ∃ o, buildVia m n ll lp d path = .ok o ∧ o.kind = "Posterior" ∧ o.paramNames = ["x"] ∧
      o = .post (.lik (yFac m ll) (fun _ => none) d 0) (C01.fresh (xFac n lp)) (0 + 0) none ∧
      ∀ x : Vec, o.logd [x] [] = .ok (ll x d + lp x) ∧ o.logd [] [("x", x)] = .ok (ll x d + lp x) := by
  have hw := graph_wf m n ll lp
  rw [build_reduce]
  obtain ⟨o, ho, hr, hk, hnm⟩ := C01.reduce_rep [yFac m ll, xFac n lp] hw [("y", d)] .plain (by decide)
  have hD : [yFac m ll, xFac n lp].filter (fun F => (C01.st [("y", d)] F).isDist) = [xFac n lp] := by
    simp [C01.isDist_st, List.filter, C01.kwKeys]
  have hL : [yFac m ll, xFac n lp].filter (fun F => (C01.st [("y", d)] F).isLik) = [yFac m ll] := by
    simp [List.filter, st_y, st_x, C01.fresh, C01.Dens.isLik]
  have hkind : o.kind = "Posterior" := by rw [hk rfl, hD, hL]; rfl
  have hpn : o.paramNames = ["x"] := by
    rw [C01.rep_paramNames _ hw _ o hr, C01.jointNames_st]
    simp [C01.kwKeys, List.filter]
  refine ⟨o, ho, hkind, hpn, ?_, fun x => ⟨?_, ?_⟩⟩
  · have e : C01.reduce .plain ([yFac m ll, xFac n lp].map (C01.st [("y", d)]))
        = .ok (.post (.lik (yFac m ll) (fun _ => none) d 0) (C01.fresh (xFac n lp)) (0 + 0) none) := by
      simp [st_y, st_x, C01.free, C01.fresh, C01.reduce, List.filter, C01.Dens.isDist, C01.Dens.isLik,
        C01.setEq, C01.Dens.paramNames, C01.mkPost, C01.sumEvals]
    rw [e] at ho
    cases ho; rfl
  · have h := C01.rep_logd_ok _ hw _ o hr [x] [] (by simp [hpn, C01.Refused, C01.kwKeys])
    rw [h, hpn, graph_total]
  · have h := C01.rep_logd_ok _ hw _ o hr [] [("x", x)] (by simp [hpn, C01.Refused, C01.kwKeys])
    rw [h, hpn]
    simp [C01.total, yFac, xFac, getv, C01.kwGet]


/-! ## Abel1D: the squares the model carries are non-negative -/

lemma abelSq_nonneg (n : ℕ) (ep : ℚ) (hep : 0 ≤ ep) (i j : ℕ) : 0 ≤ (abelSq n ep).e i j := by
  unfold abelSq
  simp only
  split_ifs
  · exact div_nonneg (div_nonneg hep (Nat.cast_nonneg n)) (by positivity)
  · exact le_refl 0

end CuqiVerif.C17
