import CuqiVerif.Model.C15_gauss
import CuqiVerif.Proofs.C15
import Mathlib.Algebra.Order.Field.Basic
import Mathlib.Tactic.FieldSimp

/-!
Helper lemmas for `Props/C15_gauss.lean` (the Gaussian specification layer of C15).
-/
open Finset

set_option linter.unusedSectionVars false
set_option linter.unusedVariables false

namespace CuqiVerif.C15

lemma allLt_iff (n : ℕ) (p : ℕ → Bool) : allLt n p = true ↔ ∀ i, i < n → p i = true := by
  simp [allLt, List.all_eq_true]

section
variable {K : Type} [Field K] [LinearOrder K]

lemma isRightInverse_iff (n : ℕ) (M X : ℕ → ℕ → K) :
    isRightInverse n M X = true ↔
      ∀ i j, i < n → j < n → sumTo n (fun k => M i k * X k j) = if i = j then 1 else 0 := by
  simp only [isRightInverse, allLt_iff, decide_eq_true_eq]
  exact ⟨fun h i j hi hj => h i hi j hj, fun h i hi j hj => h i j hi hj⟩

lemma certInv_ok (inv : Inverter K) (n : ℕ) (M X : ℕ → ℕ → K) (h : certInv inv n M = .ok X) :
    ∀ i j, i < n → j < n → sumTo n (fun k => M i k * X k j) = if i = j then 1 else 0 := by
  unfold certInv at h
  split at h
  · cases h
  · rename_i Y hY
    split at h
    · rename_i hc
      cases h
      exact (isRightInverse_iff n M _).mp hc
    · cases h

lemma isDiagonal_iff (d : ℕ) (F : ℕ → ℕ → K) :
    isDiagonal d F = true ↔ ∀ i j, i < d → j < d → i ≠ j → F i j = 0 := by
  simp only [isDiagonal, allLt_iff, Bool.or_eq_true, decide_eq_true_eq]
  constructor
  · intro h i j hi hj hij
    rcases h i hi j hj with h' | h'
    · exact absurd h' hij
    · exact h'
  · intro h i hi j hj
    by_cases hij : i = j
    · exact Or.inl hij
    · exact Or.inr (h i j hi hj hij)

lemma isSymm_iff (d : ℕ) (F : ℕ → ℕ → K) :
    isSymm d F = true ↔ ∀ i j, i < d → j < d → F i j = F j i := by
  simp only [isSymm, allLt_iff, decide_eq_true_eq]
  exact ⟨fun h i j hi hj => h i hi j hj, fun h i hi j hj => h i j hi hj⟩

/-- a sum against a diagonal matrix collapses -/
lemma sumTo_mul_diagMat (n : ℕ) (a g : ℕ → K) (j : ℕ) (hj : j < n) :
    sumTo n (fun k => a k * diagMat g k j) = a j * g j := by
  rw [sumTo_eq_sum]
  rw [Finset.sum_eq_single j]
  · simp [diagMat]
  · intro k _ hk
    simp [diagMat, hk]
  · intro h
    exact absurd (Finset.mem_range.mpr hj) h

lemma sumTo_diagMat_mul (n : ℕ) (g : ℕ → K) (a : ℕ → K) (i : ℕ) (hi : i < n) :
    sumTo n (fun k => diagMat g i k * a k) = g i * a i := by
  rw [sumTo_eq_sum]
  rw [Finset.sum_eq_single i]
  · simp [diagMat]
  · intro k _ hk
    simp [diagMat, Ne.symm hk]
  · intro h
    exact absurd (Finset.mem_range.mpr hi) h

end

end CuqiVerif.C15
