import CuqiVerif.Model.C08_stat
import CuqiVerif.Props.C08
import Mathlib.Algebra.BigOperators.Group.List.Basic
import Mathlib.Algebra.Order.BigOperators.Group.List
import Mathlib.Analysis.SpecialFunctions.Exp

/-!
# C08 — helper lemmas for `Props/C08_stat.lean` (the acceptance statistic)
-/
namespace CuqiVerif.C08

section Generic
variable {Z A : Type}

/-- the literal transcription with accumulators computes `buildTree`'s tree, the sum of `w` over its visited
    leaves and their number, and leaves the same draws -/
lemma buildTreeStat_eq [AddMonoid A] (c : Ctx Z) (w : Z → A) (v : Int) (j : Nat) (z : Z) (us : List Rat) :
    buildTreeStat c w v j z us =
      ((buildTree c v j z us).1,
       (((buildTree c v j z us).1.leaves.map w).sum, (buildTree c v j z us).1.leaves.length),
       (buildTree c v j z us).2) := by
  induction j generalizing z us with
  | zero => simp [buildTreeStat, buildTree]
  | succ j ih =>
    simp only [buildTreeStat, buildTree]
    rw [ih z us]
    generalize buildTree c v j z us = b1
    obtain ⟨t1, us1⟩ := b1
    simp only
    by_cases hs : t1.s = true
    · simp only [hs, if_true]
      rw [ih _ us1]
      generalize buildTree c v j (if v = -1 then t1.zminus else t1.zplus) us1 = b2
      obtain ⟨t2, us2⟩ := b2
      simp only [List.map_append, List.sum_append, List.length_append]
    · simp only [hs]
      simp

/-- what `loopBodyStat` returns besides `loopBody`'s state -/
lemma loopBodyStat_eq [AddMonoid A] (c : Ctx Z) (w : Z → A) (guard : Z → Bool) (st : Loop Z) :
    loopBodyStat c w guard st =
      (loopBody c guard st, (((loopBody c guard st).last.map w).sum, (loopBody c guard st).last.length)) := by
  simp only [loopBodyStat, loopBody]
  generalize popU st.us = p
  obtain ⟨ud, us0⟩ := p
  simp only
  rw [buildTreeStat_eq]

lemma loopBody_last_ne_nil (c : Ctx Z) (guard : Z → Bool) (st : Loop Z) : (loopBody c guard st).last ≠ [] := by
  simp only [loopBody]
  generalize popU st.us = p
  obtain ⟨ud, us0⟩ := p
  simp only
  intro h
  have := (buildTree_inv c (if ud < 1/2 then 1 else -1) st.j
    (if (if ud < 1/2 then (1:Int) else -1) = -1 then st.zminus else st.zplus) us0).len_pos
  rw [h] at this
  simp at this

/-- the statistic stored belongs to the `last` doubling of the loop state -/
def StatOK [AddMonoid A] (w : Z → A) (st : Loop Z) (o : Option (A × Nat)) : Prop :=
  st.last ≠ [] ∧ o = some ((st.last.map w).sum, st.last.length)

lemma loopStat_fst [AddMonoid A] (c : Ctx Z) (w : Z → A) (guard : Z → Bool) (md fuel : Nat) (st : Loop Z)
    (o : Option (A × Nat)) : (loopStat c w guard md fuel (st, o)).1 = loop c guard md fuel st := by
  induction fuel generalizing st o with
  | zero => simp [loopStat, loop]
  | succ f ih =>
    simp only [loopStat, loop]
    by_cases h : (st.s && decide (st.j ≤ md)) = true
    · simp only [h, if_true]
      rw [loopBodyStat_eq]
      exact ih _ _
    · simp [h]

lemma loopStat_ok [AddMonoid A] (c : Ctx Z) (w : Z → A) (guard : Z → Bool) (md fuel : Nat) (st : Loop Z)
    (o : Option (A × Nat)) (h : StatOK w st o) :
    StatOK w (loopStat c w guard md fuel (st, o)).1 (loopStat c w guard md fuel (st, o)).2 := by
  induction fuel generalizing st o with
  | zero => simpa [loopStat] using h
  | succ f ih =>
    simp only [loopStat]
    by_cases hc : (st.s && decide (st.j ≤ md)) = true
    · simp only [hc, if_true]
      rw [loopBodyStat_eq]
      exact ih _ _ ⟨loopBody_last_ne_nil c guard st, rfl⟩
    · simpa [hc] using h

end Generic

/-! ## the symbolic sum of the executable instance -/

instance : Zero StatSum := ⟨⟨0, [], 0, 0⟩⟩

lemma StatSum.add_def (a b : StatSum) :
    a + b = ⟨a.ones + b.ones, a.exps ++ b.exps, a.zeros + b.zeros, a.nans + b.nans⟩ := rfl

lemma StatSum.zero_def : (0 : StatSum) = ⟨0, [], 0, 0⟩ := rfl

instance : AddMonoid StatSum where
  add := fun a b => a + b
  zero := 0
  add_assoc := by
    intro a b c
    show a + b + c = a + (b + c)
    simp only [StatSum.add_def, List.append_assoc, Nat.add_assoc]
  zero_add := by
    intro a
    show 0 + a = a
    simp [StatSum.add_def, StatSum.zero_def]
  add_zero := by
    intro a
    show a + 0 = a
    simp [StatSum.add_def, StatSum.zero_def]
  nsmul := nsmulRec

/-- value of a symbolic sum without NaN terms: every `1` counts 1, every exponent `d` counts `exp d`,
    every `exp(-inf)` counts 0 -/
noncomputable def StatSum.evalR (s : StatSum) : ℝ :=
  (s.ones : ℝ) + (s.exps.map (fun d : Rat => Real.exp (d : ℝ))).sum

lemma StatSum.evalR_add (a b : StatSum) : (a + b).evalR = a.evalR + b.evalR := by
  simp only [StatSum.evalR, StatSum.add_def, List.map_append, List.sum_append]
  push_cast; ring

lemma StatSum.evalR_zero : (0 : StatSum).evalR = 0 := by
  simp [StatSum.evalR, StatSum.zero_def]

lemma StatSum.nans_add (a b : StatSum) : (a + b).nans = a.nans + b.nans := rfl

lemma StatSum.evalR_sum (l : List StatSum) : l.sum.evalR = (l.map StatSum.evalR).sum := by
  induction l with
  | nil => simpa using StatSum.evalR_zero
  | cons a l ih => simp only [List.sum_cons, List.map_cons, StatSum.evalR_add, ih]

lemma StatSum.nans_sum (l : List StatSum) : l.sum.nans = (l.map StatSum.nans).sum := by
  induction l with
  | nil => rfl
  | cons a l ih => simp only [List.sum_cons, List.map_cons, StatSum.nans_add, ih]

end CuqiVerif.C08
