import CuqiVerif.Model.C07_obj
import CuqiVerif.Proofs.C07

/-!
# C07 — helper lemmas for the object model (`Model/C07_obj.lean`)
-/
set_option linter.unusedSectionVars false
set_option linter.unusedVariables false

namespace CuqiVerif.C07

variable {R : Type} [CommRing R]

/-- the stored matrix, if any, is the column-by-column matrix of the CURRENT forward map -/
def Obj.Inv (o : Obj R) : Prop :=
  o.cache = none ∨ o.cache = some (columnsOf o.M.rng.parDim o.M.dom.parDim o.M.fwdPar)

lemma step_getMatrix_eq (o : Obj R) : o.step .getMatrix =
    if (o.M.matrixBacked || !o.getMatrixOk) = true then o else { o with cache := some o.getMatrixOut } := rfl

lemma step_getMatrix_M (o : Obj R) : (o.step .getMatrix).M = o.M := by
  rw [step_getMatrix_eq]
  split <;> rfl

lemma step_frame (o : Obj R) (op : Op R) :
    (o.step op).M.A = o.M.A ∧ (o.step op).M.B = o.M.B ∧ (o.step op).M.matrixBacked = o.M.matrixBacked := by
  cases op with
  | getMatrix => rw [step_getMatrix_M]; exact ⟨rfl, rfl, rfl⟩
  | setDom g => exact ⟨rfl, rfl, rfl⟩
  | setRng g => exact ⟨rfl, rfl, rfl⟩

lemma run_frame_aux (ops : List (Op R)) : ∀ o : Obj R,
    (o.run ops).M.A = o.M.A ∧ (o.run ops).M.B = o.M.B ∧ (o.run ops).M.matrixBacked = o.M.matrixBacked := by
  induction ops with
  | nil => intro o; exact ⟨rfl, rfl, rfl⟩
  | cons op t ih =>
    intro o
    obtain ⟨h1, h2, h3⟩ := ih (o.step op)
    obtain ⟨g1, g2, g3⟩ := step_frame o op
    exact ⟨h1.trans g1, h2.trans g2, h3.trans g3⟩

lemma getMatrixOut_of_inv (o : Obj R) (h : o.Inv) (hfn : o.M.matrixBacked = false) :
    o.getMatrixOut = columnsOf o.M.rng.parDim o.M.dom.parDim o.M.fwdPar := by
  unfold Obj.getMatrixOut
  rw [hfn]
  rcases h with h | h <;> simp [h]

lemma step_getMatrix_inv (o : Obj R) (h : o.Inv) : (o.step .getMatrix).Inv := by
  by_cases hc : (o.M.matrixBacked || !o.getMatrixOk) = true
  · have : o.step .getMatrix = o := by rw [step_getMatrix_eq, if_pos hc]
    rw [this]; exact h
  · have hfn : o.M.matrixBacked = false := by
      cases hm : o.M.matrixBacked <;> simp_all
    have : o.step .getMatrix = { o with cache := some o.getMatrixOut } := by
      rw [step_getMatrix_eq, if_neg hc]
    rw [this]
    right
    show some o.getMatrixOut = _
    rw [getMatrixOut_of_inv o h hfn]

lemma inv_history_aux (ops : List (Op R)) : ∀ (o : Obj R) (cached : Bool), o.Inv →
    (o.cache.isSome = true → cached = true) → safeFrom cached ops = true → (o.run ops).Inv := by
  induction ops with
  | nil => intro o _ h _ _; exact h
  | cons op t ih =>
    intro o cached h hc hs
    cases op with
    | getMatrix =>
      exact ih (o.step .getMatrix) true (step_getMatrix_inv o h) (fun _ => rfl) (by simpa [safeFrom] using hs)
    | setDom g =>
      simp only [safeFrom, Bool.and_eq_true, Bool.not_eq_true'] at hs
      have hnone : o.cache = none := by
        cases hcache : o.cache with
        | none => rfl
        | some C => have := hc (by simp [hcache]); rw [hs.1] at this; cases this
      exact ih (o.step (.setDom g)) cached (Or.inl hnone) (fun hh => by
        have : (o.step (.setDom g)).cache = o.cache := rfl
        rw [this, hnone] at hh; cases hh) hs.2
    | setRng g =>
      simp only [safeFrom, Bool.and_eq_true, Bool.not_eq_true'] at hs
      have hnone : o.cache = none := by
        cases hcache : o.cache with
        | none => rfl
        | some C => have := hc (by simp [hcache]); rw [hs.1] at this; cases this
      exact ih (o.step (.setRng g)) cached (Or.inl hnone) (fun hh => by
        have : (o.step (.setRng g)).cache = o.cache := rfl
        rw [this, hnone] at hh; cases hh) hs.2

/-! ### histories that leave one geometry alone -/

lemma run_rng_of_noSetRng (post : List (Op R)) : ∀ (o : Obj R), (∀ op ∈ post, ∀ g, op ≠ Op.setRng g) →
    (o.run post).M.rng = o.M.rng := by
  induction post with
  | nil => intro o _; rfl
  | cons op t ih =>
    intro o h
    have ht : ∀ op' ∈ t, ∀ g, op' ≠ Op.setRng g := fun op' hm g => h op' (List.mem_cons_of_mem _ hm) g
    show ((o.step op).run t).M.rng = _
    rw [ih (o.step op) ht]
    cases op with
    | getMatrix => rw [step_getMatrix_M]
    | setDom g => rfl
    | setRng g => exact absurd rfl (h (.setRng g) List.mem_cons_self g)

lemma run_dom_of_noSetDom (post : List (Op R)) : ∀ (o : Obj R), (∀ op ∈ post, ∀ g, op ≠ Op.setDom g) →
    (o.run post).M.dom = o.M.dom := by
  induction post with
  | nil => intro o _; rfl
  | cons op t ih =>
    intro o h
    have ht : ∀ op' ∈ t, ∀ g, op' ≠ Op.setDom g := fun op' hm g => h op' (List.mem_cons_of_mem _ hm) g
    show ((o.step op).run t).M.dom = _
    rw [ih (o.step op) ht]
    cases op with
    | getMatrix => rw [step_getMatrix_M]
    | setRng g => rfl
    | setDom g => exact absurd rfl (h (.setDom g) List.mem_cons_self g)

lemma hstate_run_base (post : List (Op R)) : ∀ (s : HState R),
    (s.run (post.map HOp.base)) = { o := s.o.run post, t := s.t } := by
  induction post with
  | nil => intro s; rfl
  | cons op t ih => intro s; exact ih (s.step (.base op))

end CuqiVerif.C07
