import CuqiVerif.Model.C18_interp
import CuqiVerif.Proofs.C18_analysis
import Mathlib.Algebra.BigOperators.Group.Finset.Basic
import Mathlib.Algebra.BigOperators.Ring.Finset
import Mathlib.Tactic.Ring
import Mathlib.Tactic.Linarith
import Mathlib.Tactic.NormNum

/-!
# C18 — helper lemmas for the exact quadratic spline (`Model/C18_interp.lean`)
-/
open Finset

set_option linter.unusedSectionVars false
set_option linter.unusedVariables false

namespace CuqiVerif.C18

/-- the three B-spline weights de Boor's recurrence uses on interval `l` at the point `x` -/
def dbW0 (t : ℕ → ℚ) (l : ℕ) (x : ℚ) : ℚ :=
  (1 - (x - t l) / (t (l + 1) - t l)) * (1 - (x - t (l - 1)) / (t (l + 1) - t (l - 1)))
def dbW1 (t : ℕ → ℚ) (l : ℕ) (x : ℚ) : ℚ :=
  (1 - (x - t l) / (t (l + 1) - t l)) * ((x - t (l - 1)) / (t (l + 1) - t (l - 1)))
    + (x - t l) / (t (l + 1) - t l) * (1 - (x - t l) / (t (l + 2) - t l))
def dbW2 (t : ℕ → ℚ) (l : ℕ) (x : ℚ) : ℚ :=
  (x - t l) / (t (l + 1) - t l) * ((x - t l) / (t (l + 2) - t l))

lemma deBoor2_weights (t c : ℕ → ℚ) (l : ℕ) (x : ℚ) :
    deBoor2 t c l x = dbW0 t l x * c (l - 2) + dbW1 t l x * c (l - 1) + dbW2 t l x * c l := by
  unfold deBoor2 dbW0 dbW1 dbW2
  ring

lemma list_sum_map_range (f : ℕ → ℚ) (n : ℕ) : ((List.range n).map f).sum = ∑ j ∈ range n, f j := by
  induction n with
  | zero => simp
  | succ n ih => simp [List.range_succ, Finset.sum_range_succ, ih]

/-- `j`-th unit coefficient vector of length `n` -/
def unitVec (n j : ℕ) : List ℚ := (List.range n).map fun m => if m = j then 1 else 0

lemma unitVec_length (n j : ℕ) : (unitVec n j).length = n := by simp [unitVec]

lemma unitVec_getD (n j m : ℕ) : (unitVec n j).getD m 0 = if m < n ∧ m = j then 1 else 0 := by
  unfold unitVec
  by_cases h : m < n
  · simp [List.getD_eq_getElem?_getD, h]
  · simp [List.getD_eq_getElem?_getD, h]

lemma sum_unit_mul (n m : ℕ) (c : List ℚ) (hc : c.length = n) :
    ∑ j ∈ range n, (unitVec n j).getD m 0 * c.getD j 0 = c.getD m 0 := by
  by_cases h : m < n
  · have : ∀ j ∈ range n, (unitVec n j).getD m 0 * c.getD j 0 = if m = j then c.getD j 0 else 0 := by
      intro j _
      rw [unitVec_getD]
      by_cases hj : m = j
      · subst hj; simp [h]
      · simp [hj]
    rw [Finset.sum_congr rfl this, Finset.sum_ite_eq]
    simp [h]
  · have : ∀ j ∈ range n, (unitVec n j).getD m 0 * c.getD j 0 = 0 := by
      intro j _
      rw [unitVec_getD]
      simp [h]
    rw [Finset.sum_congr rfl this]
    have h0 : c.getD m 0 = 0 := by
      rw [List.getD_eq_getElem?_getD, List.getElem?_eq_none (by omega)]
      rfl
    rw [h0]
    simp

/-- `rowDot` of a tabulated row with a coefficient list of the same length is the finite sum -/
lemma rowDot_range (n : ℕ) (g : ℕ → ℚ) (c : List ℚ) (hc : c.length = n) :
    rowDot ((List.range n).map g) c = ∑ j ∈ range n, g j * c.getD j 0 := by
  have e : List.zipWith (· * ·) ((List.range n).map g) c = (List.range n).map fun j => g j * c.getD j 0 := by
    apply List.ext_getElem
    · simp [hc]
    · intro i h1 h2
      have hi : i < n := by simpa using h2
      simp [List.getD_eq_getElem?_getD, hc, hi]
  unfold rowDot
  rw [foldl_add_eq, zero_add, e, list_sum_map_range]

end CuqiVerif.C18
