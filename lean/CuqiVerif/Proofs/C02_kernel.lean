import CuqiVerif.Proofs.C02_density
import CuqiVerif.Proofs.C02_pcn
import Mathlib.Probability.Kernel.WithDensity
import Mathlib.Probability.Kernel.Invariance
import Mathlib.Probability.Kernel.Composition.Comp
import Mathlib.MeasureTheory.Measure.Prod
import Mathlib.MeasureTheory.Measure.WithDensity
import Mathlib.Probability.Distributions.Gaussian.Real

/-!
# C02 — Metropolis–Hastings kernel with `ℝ≥0∞`-valued densities (helpers)

Definitions (`mhAlphaE`, `IsMHAcc`, `rejE`, `moveKernelE`, `mhMoveE`, `mhKernelE`, `targetE`,
`densE`) and the lemmas behind `CuqiVerif/Props/C02_kernel.lean`.

Difference to `Proofs/C02_density.lean`: densities take values in `ℝ≥0∞` (no sign / integrability
side conditions), and the acceptance probability uses the `ℝ≥0∞` division `b / 0 = ∞` (`b ≠ 0`),
`0 / 0 = 0` — which is exactly what the IEEE log-domain test of the executable model does
(`log π(y) − (−inf) = +inf` ⇒ `min(0, +inf) = 0` ⇒ accept; `−inf − (−inf) = NaN` and the proposal
value `−inf` is refused by the guards), whereas `mhAlphaD` (real division, `b / 0 = 0`) rejects
every move out of `{π q = 0}`.
-/

namespace CuqiVerif.C02

open MeasureTheory ProbabilityTheory Set
open scoped ENNReal

/-! ### pointwise algebra in `ℝ≥0∞` -/

/-- `a · min(1, b/a) = min(a, b)` in `ℝ≥0∞` as soon as `a` is finite (`a = 0` and `b = ∞` allowed). -/
lemma flux_eq_min_E {a b : ℝ≥0∞} (ha : a ≠ ∞) : a * min 1 (b / a) = min a b := by
  rcases eq_or_ne a 0 with h0 | h0
  · subst h0; simp
  · rw [mul_min, mul_one, ENNReal.mul_div_cancel h0 ha]

section general
variable {X : Type*} [MeasurableSpace X]

/-- Metropolis–Hastings acceptance probability for `ℝ≥0∞`-valued densities
    (`b / 0 = ∞` for `b ≠ 0`: a move out of a zero-density point is accepted; `0 / 0 = 0`). -/
noncomputable def mhAlphaE (π : X → ℝ≥0∞) (q : X → X → ℝ≥0∞) (x y : X) : ℝ≥0∞ :=
  min 1 (π y * q y x / (π x * q x y))

/-- `α` is a Metropolis–Hastings acceptance function for `(π, q)` whatever it does where the
    denominator `π(x) q(x,y)` vanishes (the convention-free notion). -/
def IsMHAcc (π : X → ℝ≥0∞) (q α : X → X → ℝ≥0∞) : Prop :=
  ∀ x y, π x * q x y ≠ 0 → α x y = min 1 (π y * q y x / (π x * q x y))

/-- rejection probability `r(x) = 1 − ∫ f(x,y) μ(dy)` -/
noncomputable def rejE (μ : Measure X) (f : X → X → ℝ≥0∞) (x : X) : ℝ≥0∞ := 1 - ∫⁻ y, f x y ∂μ

/-- Metropolis-type kernel with move density `f(x,y)` (= proposal density × acceptance probability)
    w.r.t. the reference measure: `P(x, A) = ∫_A f(x,y) μ(dy) + r(x) 1_A(x)`. -/
noncomputable def moveKernelE (μ : Measure X) [SFinite μ] (f : X → X → ℝ≥0∞) :
    ProbabilityTheory.Kernel X X :=
  (ProbabilityTheory.Kernel.const X μ).withDensity f
    + (ProbabilityTheory.Kernel.id : ProbabilityTheory.Kernel X X).withDensity (fun x _ => rejE μ f x)

/-- move density of Metropolis–Hastings: `q(x,y) α(x,y)` -/
noncomputable def mhMoveE (π : X → ℝ≥0∞) (q : X → X → ℝ≥0∞) (x y : X) : ℝ≥0∞ :=
  q x y * mhAlphaE π q x y

/-- the Metropolis–Hastings kernel, `ℝ≥0∞`-valued densities -/
noncomputable def mhKernelE (μ : Measure X) [SFinite μ] (π : X → ℝ≥0∞) (q : X → X → ℝ≥0∞) :
    ProbabilityTheory.Kernel X X :=
  moveKernelE μ (mhMoveE π q)

/-- the target `π · μ` -/
noncomputable def targetE (μ : Measure X) (π : X → ℝ≥0∞) : Measure X := μ.withDensity π

omit [MeasurableSpace X] in
lemma mhAlphaE_le_one (π : X → ℝ≥0∞) (q : X → X → ℝ≥0∞) (x y : X) : mhAlphaE π q x y ≤ 1 :=
  min_le_left _ _

omit [MeasurableSpace X] in
lemma isMHAcc_mhAlphaE (π : X → ℝ≥0∞) (q : X → X → ℝ≥0∞) : IsMHAcc π q (mhAlphaE π q) :=
  fun _ _ _ => rfl

omit [MeasurableSpace X] in
/-- the flux of any MH acceptance function is `min(π(x)q(x,y), π(y)q(y,x))` -/
lemma isMHAcc_flux {π : X → ℝ≥0∞} {q α : X → X → ℝ≥0∞} (hα : IsMHAcc π q α)
    (hπ : ∀ x, π x ≠ ∞) (hq : ∀ x y, q x y ≠ ∞) (x y : X) :
    π x * q x y * α x y = min (π x * q x y) (π y * q y x) := by
  rcases eq_or_ne (π x * q x y) 0 with h0 | h0
  · rw [h0]; simp
  · rw [hα x y h0]
    exact flux_eq_min_E (ENNReal.mul_ne_top (hπ x) (hq x y))

omit [MeasurableSpace X] in
lemma isMHAcc_balance {π : X → ℝ≥0∞} {q α : X → X → ℝ≥0∞} (hα : IsMHAcc π q α)
    (hπ : ∀ x, π x ≠ ∞) (hq : ∀ x y, q x y ≠ ∞) (x y : X) :
    π x * q x y * α x y = π y * q y x * α y x := by
  rw [isMHAcc_flux hα hπ hq x y, isMHAcc_flux hα hπ hq y x, min_comm]

lemma measurable_mhAlphaE {π : X → ℝ≥0∞} {q : X → X → ℝ≥0∞} (hπ : Measurable π)
    (hq : Measurable (Function.uncurry q)) : Measurable (Function.uncurry (mhAlphaE π q)) := by
  have hswap : Measurable (fun p : X × X => q p.2 p.1) := hq.comp measurable_swap
  have h1 : Measurable (fun p : X × X => π p.2 * q p.2 p.1 / (π p.1 * q p.1 p.2)) :=
    ((hπ.comp measurable_snd).mul hswap).div ((hπ.comp measurable_fst).mul hq)
  exact measurable_const.min h1

lemma measurable_mhMoveE {π : X → ℝ≥0∞} {q : X → X → ℝ≥0∞} (hπ : Measurable π)
    (hq : Measurable (Function.uncurry q)) : Measurable (Function.uncurry (mhMoveE π q)) :=
  hq.mul (measurable_mhAlphaE hπ hq)

lemma measurable_rejE (μ : Measure X) [SFinite μ] {f : X → X → ℝ≥0∞}
    (hf : Measurable (Function.uncurry f)) : Measurable (rejE μ f) := by
  unfold rejE
  exact measurable_const.sub hf.lintegral_prod_right'

/-- the kernel evaluated on a measurable set -/
lemma moveKernelE_apply (μ : Measure X) [SFinite μ] {f : X → X → ℝ≥0∞}
    (hf : Measurable (Function.uncurry f)) (x : X) {B : Set X} (hB : MeasurableSet B) :
    moveKernelE μ f x B = ∫⁻ y in B, f x y ∂μ + rejE μ f x * B.indicator 1 x := by
  have hr : Measurable (Function.uncurry (fun (x : X) (_ : X) => rejE μ f x)) :=
    (measurable_rejE μ hf).comp measurable_fst
  unfold moveKernelE
  rw [add_apply, Measure.add_apply,
    ProbabilityTheory.Kernel.withDensity_apply' _ hf,
    ProbabilityTheory.Kernel.withDensity_apply' _ hr, ProbabilityTheory.Kernel.id_apply,
    setLIntegral_const, Measure.dirac_apply' _ hB, ProbabilityTheory.Kernel.const_apply]

/-- total mass one when the move density is sub-stochastic -/
lemma moveKernelE_univ (μ : Measure X) [SFinite μ] {f : X → X → ℝ≥0∞}
    (hf : Measurable (Function.uncurry f)) (x : X) (h1 : ∫⁻ y, f x y ∂μ ≤ 1) :
    moveKernelE μ f x Set.univ = 1 := by
  rw [moveKernelE_apply μ hf x MeasurableSet.univ, Measure.restrict_univ]
  simp only [indicator_univ, Pi.one_apply, mul_one]
  unfold rejE
  exact add_tsub_cancel_of_le h1

/-- the flow `A → B` split into the move part and the stay part -/
lemma moveKernelE_flow (μ : Measure X) [SFinite μ] {π : X → ℝ≥0∞} {f : X → X → ℝ≥0∞}
    (hπ : Measurable π) (hf : Measurable (Function.uncurry f))
    {A B : Set X} (hA : MeasurableSet A) (hB : MeasurableSet B) :
    ∫⁻ x in A, π x * moveKernelE μ f x B ∂μ
      = ∫⁻ x, ∫⁻ y, A.indicator 1 x * B.indicator 1 y * (π x * f x y) ∂μ ∂μ
        + ∫⁻ x, (A ∩ B).indicator 1 x * (π x * rejE μ f x) ∂μ := by
  rw [← lintegral_indicator hA]
  have hinner : ∀ x, Measurable (fun y => f x y) := fun x => hf.comp measurable_prodMk_left
  have hpt : ∀ x, A.indicator (fun x => π x * moveKernelE μ f x B) x
      = (∫⁻ y, A.indicator 1 x * B.indicator 1 y * (π x * f x y) ∂μ)
        + (A ∩ B).indicator 1 x * (π x * rejE μ f x) := by
    intro x
    have hKx := moveKernelE_apply μ hf x hB
    have h1 : ∀ y, A.indicator (1 : X → ℝ≥0∞) x * B.indicator 1 y * (π x * f x y)
        = (A.indicator 1 x * π x) * B.indicator (fun y => f x y) y := by
      intro y
      by_cases hy : y ∈ B <;> simp [hy, mul_assoc]
    have hint : ∫⁻ y, A.indicator (1 : X → ℝ≥0∞) x * B.indicator 1 y * (π x * f x y) ∂μ
        = A.indicator 1 x * π x * ∫⁻ y in B, f x y ∂μ := by
      simp_rw [h1]
      rw [lintegral_const_mul _ ((hinner x).indicator hB), lintegral_indicator hB]
    rw [hint]
    by_cases hx : x ∈ A
    · by_cases hxB : x ∈ B
      · simp [hx, hxB, hKx, mul_add]
      · simp [hx, hxB, hKx]
    · simp [hx]
  simp_rw [hpt]
  rw [lintegral_add_left]
  have hm : Measurable (Function.uncurry
      (fun x y => A.indicator (1 : X → ℝ≥0∞) x * B.indicator 1 y * (π x * f x y))) :=
    (((measurable_one.indicator hA).comp measurable_fst).mul
      ((measurable_one.indicator hB).comp measurable_snd)).mul ((hπ.comp measurable_fst).mul hf)
  exact hm.lintegral_prod_right'

/-- the flow of the absolutely continuous part as a double integral -/
lemma ac_flow (μ : Measure X) [SFinite μ] {π : X → ℝ≥0∞} {f : X → X → ℝ≥0∞}
    (hf : Measurable (Function.uncurry f))
    {A B : Set X} (hA : MeasurableSet A) (hB : MeasurableSet B) :
    ∫⁻ x in A, π x * ∫⁻ y in B, f x y ∂μ ∂μ
      = ∫⁻ x, ∫⁻ y, A.indicator 1 x * B.indicator 1 y * (π x * f x y) ∂μ ∂μ := by
  rw [← lintegral_indicator hA]
  have hinner : ∀ x, Measurable (fun y => f x y) := fun x => hf.comp measurable_prodMk_left
  refine lintegral_congr (fun x => ?_)
  have h1 : ∀ y, A.indicator (1 : X → ℝ≥0∞) x * B.indicator 1 y * (π x * f x y)
      = (A.indicator 1 x * π x) * B.indicator (fun y => f x y) y := by
    intro y
    by_cases hy : y ∈ B <;> simp [hy, mul_assoc]
  simp_rw [h1]
  rw [lintegral_const_mul _ ((hinner x).indicator hB), lintegral_indicator hB]
  by_cases hx : x ∈ A <;> simp [hx]

/-- Tonelli + symmetric flux density: the double integral is symmetric in `(A, B)` -/
lemma flux_swap (μ : Measure X) [SFinite μ] {F : X → X → ℝ≥0∞}
    (hF : Measurable (Function.uncurry F)) (hsymm : ∀ x y, F x y = F y x)
    {A B : Set X} (hA : MeasurableSet A) (hB : MeasurableSet B) :
    ∫⁻ x, ∫⁻ y, A.indicator 1 x * B.indicator 1 y * F x y ∂μ ∂μ
      = ∫⁻ x, ∫⁻ y, B.indicator 1 x * A.indicator 1 y * F x y ∂μ ∂μ := by
  have hm : Measurable (Function.uncurry
      (fun x y => A.indicator (1 : X → ℝ≥0∞) x * B.indicator 1 y * F x y)) :=
    (((measurable_one.indicator hA).comp measurable_fst).mul
      ((measurable_one.indicator hB).comp measurable_snd)).mul hF
  rw [lintegral_lintegral_swap hm.aemeasurable]
  refine lintegral_congr (fun x => lintegral_congr (fun y => ?_))
  rw [hsymm y x, mul_comm (A.indicator 1 y)]

/-- integrated detailed balance of the absolutely continuous part -/
lemma ac_detailed_balance (μ : Measure X) [SFinite μ] {π : X → ℝ≥0∞} {f : X → X → ℝ≥0∞}
    (hπ : Measurable π) (hf : Measurable (Function.uncurry f))
    (hsymm : ∀ x y, π x * f x y = π y * f y x)
    {A B : Set X} (hA : MeasurableSet A) (hB : MeasurableSet B) :
    ∫⁻ x in A, π x * ∫⁻ y in B, f x y ∂μ ∂μ = ∫⁻ x in B, π x * ∫⁻ y in A, f x y ∂μ ∂μ := by
  rw [ac_flow μ hf hA hB, ac_flow μ hf hB hA]
  exact flux_swap μ (F := fun x y => π x * f x y) ((hπ.comp measurable_fst).mul hf) hsymm hA hB

/-- detailed balance of the whole kernel, set-integral form w.r.t. the reference measure -/
lemma moveKernelE_detailed_balance (μ : Measure X) [SFinite μ] {π : X → ℝ≥0∞} {f : X → X → ℝ≥0∞}
    (hπ : Measurable π) (hf : Measurable (Function.uncurry f))
    (hsymm : ∀ x y, π x * f x y = π y * f y x)
    {A B : Set X} (hA : MeasurableSet A) (hB : MeasurableSet B) :
    ∫⁻ x in A, π x * moveKernelE μ f x B ∂μ = ∫⁻ x in B, π x * moveKernelE μ f x A ∂μ := by
  rw [moveKernelE_flow μ hπ hf hA hB, moveKernelE_flow μ hπ hf hB hA, inter_comm B A]
  congr 1
  exact flux_swap μ (F := fun x y => π x * f x y) ((hπ.comp measurable_fst).mul hf) hsymm hA hB

/-- the same in Mathlib's vocabulary -/
lemma moveKernelE_isReversible' (μ : Measure X) [SFinite μ] {π : X → ℝ≥0∞} {f : X → X → ℝ≥0∞}
    (hπ : Measurable π) (hf : Measurable (Function.uncurry f))
    (hsymm : ∀ x y, π x * f x y = π y * f y x) :
    (moveKernelE μ f).IsReversible (targetE μ π) := by
  intro A B hA hB
  unfold targetE
  rw [setLIntegral_withDensity_eq_setLIntegral_mul _ hπ
      (ProbabilityTheory.Kernel.measurable_coe _ hB) hA,
    setLIntegral_withDensity_eq_setLIntegral_mul _ hπ
      (ProbabilityTheory.Kernel.measurable_coe _ hA) hB]
  exact moveKernelE_detailed_balance μ hπ hf hsymm hA hB

omit [MeasurableSpace X] in
/-- flux symmetry of the MH move density -/
lemma mhMoveE_flux_symm {π : X → ℝ≥0∞} {q : X → X → ℝ≥0∞}
    (hπ : ∀ x, π x ≠ ∞) (hq : ∀ x y, q x y ≠ ∞) (x y : X) :
    π x * mhMoveE π q x y = π y * mhMoveE π q y x := by
  unfold mhMoveE
  rw [← mul_assoc, ← mul_assoc]
  exact isMHAcc_balance (isMHAcc_mhAlphaE π q) hπ hq x y

omit [MeasurableSpace X] in
lemma mhMoveE_le (π : X → ℝ≥0∞) (q : X → X → ℝ≥0∞) (x y : X) : mhMoveE π q x y ≤ q x y := by
  unfold mhMoveE
  calc q x y * mhAlphaE π q x y ≤ q x y * 1 := by gcongr; exact mhAlphaE_le_one π q x y
    _ = q x y := mul_one _

omit [MeasurableSpace X] in
/-- symmetric proposal: the proposal density cancels, also where it vanishes (move density) -/
lemma mhMoveE_of_symm {π : X → ℝ≥0∞} {q : X → X → ℝ≥0∞} {x y : X} (hs : q x y = q y x)
    (hq : q x y ≠ ∞) : mhMoveE π q x y = q x y * min 1 (π y / π x) := by
  unfold mhMoveE mhAlphaE
  rcases eq_or_ne (q x y) 0 with h0 | h0
  · rw [h0]; simp
  · rw [← hs, ENNReal.mul_div_mul_right _ _ h0 hq]

/-- two move densities that agree at `x` give the same transition measure at `x` -/
lemma moveKernelE_congr_at (μ : Measure X) [SFinite μ] {f g : X → X → ℝ≥0∞}
    (hf : Measurable (Function.uncurry f)) (hg : Measurable (Function.uncurry g))
    {x : X} (h : ∀ y, f x y = g x y) : moveKernelE μ f x = moveKernelE μ g x := by
  ext B hB
  rw [moveKernelE_apply μ hf x hB, moveKernelE_apply μ hg x hB]
  unfold rejE
  simp_rw [h]

/-- the real-valued kernel of `Proofs/C02_density.lean` is the `ℝ≥0∞` one for `ofReal` densities -/
lemma accKernel_eq_moveKernelE (lam : Measure X) [SFinite lam] (q a : X → X → ℝ) :
    accKernel lam q a = moveKernelE lam (moveDens q a) := rfl

omit [MeasurableSpace X] in
/-- where the current density is positive the two zero-denominator conventions give the same move
    density -/
lemma mhMoveE_ofReal {π : X → ℝ} {q : X → X → ℝ} (hπ0 : ∀ x, 0 ≤ π x) (hq0 : ∀ x y, 0 ≤ q x y)
    {x : X} (hx : 0 < π x) (y : X) :
    mhMoveE (fun x => ENNReal.ofReal (π x)) (fun x y => ENNReal.ofReal (q x y)) x y
      = moveDens q (mhAlphaD π q) x y := by
  unfold mhMoveE mhAlphaE moveDens mhAlphaD
  rcases (hq0 x y).eq_or_lt with h0 | h0
  · simp [← h0]
  · have hd : 0 < π x * q x y := mul_pos hx h0
    rw [← ENNReal.ofReal_mul (hπ0 y), ← ENNReal.ofReal_mul (hπ0 x), ← ENNReal.ofReal_div_of_pos hd,
      ← ENNReal.ofReal_one, ← ENNReal.ofReal_min, ← ENNReal.ofReal_mul (hq0 x y)]

omit [MeasurableSpace X] in
/-- positive denominator: the `ℝ≥0∞` acceptance probability is the real one -/
lemma mhAlphaE_ofReal {π : X → ℝ} {q : X → X → ℝ} (hπ0 : ∀ x, 0 ≤ π x)
    {x y : X} (hx : 0 < π x) (hxy : 0 < q x y) :
    mhAlphaE (fun x => ENNReal.ofReal (π x)) (fun x y => ENNReal.ofReal (q x y)) x y
      = ENNReal.ofReal (mhAlphaD π q x y) := by
  unfold mhAlphaE mhAlphaD
  have hd : 0 < π x * q x y := mul_pos hx hxy
  rw [← ENNReal.ofReal_mul (hπ0 y), ← ENNReal.ofReal_mul (hπ0 x), ← ENNReal.ofReal_div_of_pos hd,
    ← ENNReal.ofReal_one, ← ENNReal.ofReal_min]

end general

/-! ### tie to the IEEE log-domain accept test of the executable model -/

open XVal in
/-- density value of an IEEE log-density: `exp` with `exp(−inf) = 0`, `exp(+inf) = ∞`
    (`nan ↦ 0` is a dummy; the theorems exclude it) -/
noncomputable def densE : XVal → ℝ≥0∞
  | .neginf => 0
  | .posinf => ∞
  | .nan => 0
  | .fin q => ENNReal.ofReal (Real.exp ((q : ℚ) : ℝ))

lemma ofReal_exp_le_min_one_iff (l r : ℝ) :
    ENNReal.ofReal (Real.exp l) ≤ min 1 (ENNReal.ofReal (Real.exp r)) ↔ l ≤ min 0 r := by
  rw [le_min_iff, le_min_iff, ← ENNReal.ofReal_one,
    ENNReal.ofReal_le_ofReal_iff zero_le_one, ENNReal.ofReal_le_ofReal_iff (Real.exp_pos r).le,
    Real.exp_le_exp, ← Real.exp_zero, Real.exp_le_exp]

/-! ### the kernel is the law of "propose, draw `u`, move iff `u ≤ α`" -/

section law

/-- the uniform distribution on `(0, 1]` -/
noncomputable def unif01 : Measure ℝ := volume.restrict (Ioc 0 1)

instance : IsProbabilityMeasure unif01 :=
  ⟨by unfold unif01; rw [Measure.restrict_apply MeasurableSet.univ, univ_inter, Real.volume_Ioc]; simp⟩

lemma measurableSet_unif_le (a : ℝ≥0∞) : MeasurableSet {u : ℝ | ENNReal.ofReal u ≤ a} :=
  measurableSet_le ENNReal.measurable_ofReal measurable_const

/-- `P(u ≤ a) = a` for `u ~ U(0,1]`, `a ≤ 1` -/
lemma unif01_le {a : ℝ≥0∞} (ha : a ≤ 1) : unif01 {u : ℝ | ENNReal.ofReal u ≤ a} = a := by
  have hat : a ≠ ∞ := ne_top_of_le_ne_top ENNReal.one_ne_top ha
  have h1 : a.toReal ≤ 1 := by simpa using ENNReal.toReal_mono ENNReal.one_ne_top ha
  unfold unif01
  rw [Measure.restrict_apply (measurableSet_unif_le a)]
  have hset : {u : ℝ | ENNReal.ofReal u ≤ a} ∩ Ioc 0 1 = Ioc 0 a.toReal := by
    ext u
    simp only [mem_inter_iff, mem_ofPred_eq, mem_Ioc, ENNReal.ofReal_le_iff_le_toReal hat]
    constructor
    · rintro ⟨h, h0, _⟩; exact ⟨h0, h⟩
    · rintro ⟨h0, h⟩; exact ⟨h, h0, h.trans h1⟩
  rw [hset, Real.volume_Ioc, sub_zero, ENNReal.ofReal_toReal hat]

lemma unif01_not_le {a : ℝ≥0∞} (ha : a ≤ 1) : unif01 {u : ℝ | ¬ ENNReal.ofReal u ≤ a} = 1 - a := by
  have h := measure_compl (μ := unif01) (measurableSet_unif_le a) (measure_ne_top _ _)
  rw [unif01_le ha, measure_univ] at h
  exact h

variable {X : Type*} [MeasurableSpace X]

/-- one accept/reject step: from `x`, with proposal `y` and uniform draw `u`, go to `y` iff
    `u ≤ α(x,y)` — the generic version of the model's `metropolis` tail (`accepts_iff_le_alphaE`
    identifies its test with `u ≤ α`) -/
noncomputable def mhStepG (α : X → X → ℝ≥0∞) (x y : X) (u : ℝ) : X :=
  if ENNReal.ofReal u ≤ α x y then y else x

lemma measurable_mhStepG {α : X → X → ℝ≥0∞} (hα : Measurable (Function.uncurry α)) (x : X) :
    Measurable (fun p : X × ℝ => mhStepG α x p.1 p.2) := by
  unfold mhStepG
  refine Measurable.ite ?_ measurable_fst measurable_const
  exact measurableSet_le (ENNReal.measurable_ofReal.comp measurable_snd)
    (hα.comp (measurable_const.prodMk measurable_fst))

omit [MeasurableSpace X] in
set_option linter.unusedSimpArgs false in
/-- the `u`-slice: probability that the step from `x` with proposal `y` lands in `A` -/
lemma unif01_slice (α : X → X → ℝ≥0∞) (hα1 : ∀ x y, α x y ≤ 1) (x y : X) (A : Set X) :
    unif01 {u : ℝ | mhStepG α x y u ∈ A}
      = A.indicator 1 y * α x y + A.indicator 1 x * (1 - α x y) := by
  unfold mhStepG
  by_cases hy : y ∈ A <;> by_cases hx : x ∈ A
  · have : {u : ℝ | (if ENNReal.ofReal u ≤ α x y then y else x) ∈ A} = univ := by
      ext u; by_cases h : ENNReal.ofReal u ≤ α x y <;>
        simp only [mem_ofPred_eq, mem_univ, mem_empty_iff_false, h, ↓reduceIte, hx, hy,
          not_true_eq_false, not_false_eq_true]
    rw [this, measure_univ]
    simp [hx, hy, add_tsub_cancel_of_le (hα1 x y)]
  · have : {u : ℝ | (if ENNReal.ofReal u ≤ α x y then y else x) ∈ A}
        = {u : ℝ | ENNReal.ofReal u ≤ α x y} := by
      ext u; by_cases h : ENNReal.ofReal u ≤ α x y <;>
        simp only [mem_ofPred_eq, mem_univ, mem_empty_iff_false, h, ↓reduceIte, hx, hy,
          not_true_eq_false, not_false_eq_true]
    rw [this, unif01_le (hα1 x y)]
    simp [hx, hy]
  · have : {u : ℝ | (if ENNReal.ofReal u ≤ α x y then y else x) ∈ A}
        = {u : ℝ | ¬ ENNReal.ofReal u ≤ α x y} := by
      ext u; by_cases h : ENNReal.ofReal u ≤ α x y <;>
        simp only [mem_ofPred_eq, mem_univ, mem_empty_iff_false, h, ↓reduceIte, hx, hy,
          not_true_eq_false, not_false_eq_true]
    rw [this, unif01_not_le (hα1 x y)]
    simp [hx, hy]
  · have : {u : ℝ | (if ENNReal.ofReal u ≤ α x y then y else x) ∈ A} = ∅ := by
      ext u; by_cases h : ENNReal.ofReal u ≤ α x y <;>
        simp only [mem_ofPred_eq, mem_univ, mem_empty_iff_false, h, ↓reduceIte, hx, hy,
          not_true_eq_false, not_false_eq_true]
    rw [this, measure_empty]
    simp [hx, hy]

/-- `∫ q (1 − α) = 1 − ∫ q α` for a probability density `q` and `α ≤ 1` -/
lemma lintegral_rej (μ : Measure X) {q α : X → X → ℝ≥0∞} (hq : Measurable (Function.uncurry q))
    (hα : Measurable (Function.uncurry α)) (hα1 : ∀ x y, α x y ≤ 1) (hqf : ∀ x y, q x y ≠ ∞)
    (x : X) (hq1 : ∫⁻ y, q x y ∂μ = 1) :
    ∫⁻ y, q x y * (1 - α x y) ∂μ = rejE μ (fun x y => q x y * α x y) x := by
  unfold rejE
  have hqx : Measurable (fun y => q x y) := hq.of_uncurry_left
  have hax : Measurable (fun y => α x y) := hα.of_uncurry_left
  have hle : ∀ y, q x y * α x y ≤ q x y := fun y => by
    calc q x y * α x y ≤ q x y * 1 := by gcongr; exact hα1 x y
      _ = q x y := mul_one _
  have hfin : ∫⁻ y, q x y * α x y ∂μ ≠ ∞ :=
    ne_top_of_le_ne_top ENNReal.one_ne_top ((lintegral_mono hle).trans hq1.le)
  have hqa : Measurable (fun y => q x y * α x y) := hqx.mul hax
  conv_rhs => rw [← hq1]
  rw [← lintegral_sub hqa hfin (Filter.Eventually.of_forall hle)]
  refine lintegral_congr (fun y => ?_)
  rw [ENNReal.mul_sub (fun _ _ => hqf x y), mul_one]

/-- **law of one step**: propose `y ~ q(x,·) μ`, draw `u ~ U(0,1]` independently, move iff
    `u ≤ α(x,y)` — the distribution of the next state is the kernel `∫_A q α dμ + r δ_x`. -/
lemma law_mhStepG (μ : Measure X) [SFinite μ] {q α : X → X → ℝ≥0∞}
    (hq : Measurable (Function.uncurry q)) (hα : Measurable (Function.uncurry α))
    (hα1 : ∀ x y, α x y ≤ 1) (hqf : ∀ x y, q x y ≠ ∞) (x : X) (hq1 : ∫⁻ y, q x y ∂μ = 1) :
    ((μ.withDensity (q x)).prod unif01).map (fun p : X × ℝ => mhStepG α x p.1 p.2)
      = moveKernelE μ (fun x y => q x y * α x y) x := by
  have hqx : Measurable (fun y => q x y) := hq.of_uncurry_left
  have hax : Measurable (fun y => α x y) := hα.of_uncurry_left
  have hf : Measurable (Function.uncurry (fun x y => q x y * α x y)) := hq.mul hα
  ext A hA
  rw [Measure.map_apply (measurable_mhStepG hα x) hA,
    Measure.prod_apply ((measurable_mhStepG hα x) hA), moveKernelE_apply μ hf x hA]
  have hsl : ∀ y, unif01 (Prod.mk y ⁻¹' ((fun p : X × ℝ => mhStepG α x p.1 p.2) ⁻¹' A))
      = A.indicator 1 y * α x y + A.indicator 1 x * (1 - α x y) := fun y =>
    unif01_slice α hα1 x y A
  simp_rw [hsl]
  have hm1 : Measurable (fun y => A.indicator (1 : X → ℝ≥0∞) y * α x y) :=
    (measurable_one.indicator hA).mul hax
  have hm2 : Measurable (fun y => A.indicator (1 : X → ℝ≥0∞) x * (1 - α x y)) :=
    measurable_const.mul (measurable_const.sub hax)
  have hm : Measurable (fun y => A.indicator (1 : X → ℝ≥0∞) y * α x y
      + A.indicator 1 x * (1 - α x y)) := hm1.add hm2
  rw [lintegral_withDensity_eq_lintegral_mul _ hqx hm]
  have hpt : ∀ y, (q x * fun y => A.indicator (1 : X → ℝ≥0∞) y * α x y
        + A.indicator 1 x * (1 - α x y)) y
      = A.indicator (fun y => q x y * α x y) y + A.indicator 1 x * (q x y * (1 - α x y)) := by
    intro y
    simp only [Pi.mul_apply]
    rw [mul_add, mul_left_comm (q x y) (A.indicator 1 x)]
    congr 1
    by_cases hy : y ∈ A <;> simp [hy]
  rw [lintegral_congr hpt]
  have hqa : Measurable (fun y => q x y * α x y) := hqx.mul hax
  have hqr : Measurable (fun y => q x y * (1 - α x y)) := hqx.mul (measurable_const.sub hax)
  rw [lintegral_add_left (hqa.indicator hA), lintegral_indicator hA,
    lintegral_const_mul _ hqr,
    lintegral_rej μ hq hα hα1 hqf x hq1, mul_comm (A.indicator 1 x)]

/-- proposals produced by a mechanism `y = g ξ`, `ξ ~ γ`: the joint law of `(y, u)` is the image of
    the joint law of the raw draws `(ξ, u)` -/
lemma law_step_pushforward {Ξ : Type*} [MeasurableSpace Ξ] (γ : Measure Ξ) [SFinite γ]
    {g : Ξ → X} (hg : Measurable g) {α : X → X → ℝ≥0∞} (hα : Measurable (Function.uncurry α))
    (x : X) :
    ((γ.map g).prod unif01).map (fun p : X × ℝ => mhStepG α x p.1 p.2)
      = (γ.prod unif01).map (fun p : Ξ × ℝ => mhStepG α x (g p.1) p.2) := by
  have h : (γ.map g).prod unif01 = (γ.prod unif01).map (Prod.map g id) := by
    conv_lhs => rw [← Measure.map_id (μ := unif01)]
    exact Measure.map_prod_map γ unif01 hg measurable_id
  rw [h, Measure.map_map (measurable_mhStepG hα x) (hg.prodMap measurable_id)]
  rfl

end law

/-! ### proposals given by a reference KERNEL (pCN in any dimension): law of the step -/

section refkernel
variable {X : Type*} [MeasurableSpace X]

/-- at a fixed `x` the reference-kernel construction of `Proofs/C02_density.lean` is the
    reference-measure construction of this file with `μ := ρ x` -/
lemma accKernelR_eq_moveKernelE_at (ρ : ProbabilityTheory.Kernel X X) [IsSFiniteKernel ρ]
    {q a : X → X → ℝ} (hq : Measurable (Function.uncurry q)) (ha : Measurable (Function.uncurry a))
    (x : X) : accKernelR ρ q a x = moveKernelE (ρ x) (moveDens q a) x := by
  ext B hB
  rw [accKernelR_apply ρ hq ha x hB, moveKernelE_apply (ρ x) (measurable_moveDens hq ha) x hB]
  rfl

/-- law of one accept/reject step when the proposal is `q(x,·) • ρ(x,·)` for a reference kernel -/
lemma law_step_accKernelR (ρ : ProbabilityTheory.Kernel X X) [IsSFiniteKernel ρ]
    {q a : X → X → ℝ} (hq : Measurable (Function.uncurry q)) (ha : Measurable (Function.uncurry a))
    (hq0 : ∀ x y, 0 ≤ q x y) (ha1 : ∀ x y, a x y ≤ 1) (x : X)
    (hq1 : ∫⁻ y, ENNReal.ofReal (q x y) ∂ρ x = 1) :
    (((ρ x).withDensity (fun y => ENNReal.ofReal (q x y))).prod unif01).map
        (fun p : X × ℝ => mhStepG (fun x y => ENNReal.ofReal (a x y)) x p.1 p.2)
      = accKernelR ρ q a x := by
  have hqE : Measurable (Function.uncurry (fun x y => ENNReal.ofReal (q x y))) := hq.ennreal_ofReal
  have haE : Measurable (Function.uncurry (fun x y => ENNReal.ofReal (a x y))) := ha.ennreal_ofReal
  have h := law_mhStepG (ρ x) hqE haE
    (fun x y => by rw [← ENNReal.ofReal_one]; exact ENNReal.ofReal_le_ofReal (ha1 x y))
    (fun _ _ => ENNReal.ofReal_ne_top) x hq1
  rw [h, accKernelR_eq_moveKernelE_at ρ hq ha x]
  have hf : Measurable (Function.uncurry
      (fun x y => ENNReal.ofReal (q x y) * ENNReal.ofReal (a x y))) := hqE.mul haE
  refine moveKernelE_congr_at (ρ x) hf (measurable_moveDens hq ha) (fun y => ?_)
  unfold moveDens
  rw [ENNReal.ofReal_mul (hq0 x y)]

end refkernel

/-! ### the model's zero-denominator convention with a reference kernel (pCN, every dimension) -/

section modelconv
variable {X : Type*} [MeasurableSpace X]

/-- `moveKernelE` with a reference KERNEL: `P(x,A) = ∫_A f(x,y) ρ(x,dy) + r(x) 1_A(x)` -/
noncomputable def moveKernelER (ρ : ProbabilityTheory.Kernel X X) [IsSFiniteKernel ρ]
    (f : X → X → ℝ≥0∞) : ProbabilityTheory.Kernel X X :=
  ρ.withDensity f
    + (ProbabilityTheory.Kernel.id : ProbabilityTheory.Kernel X X).withDensity
        (fun x _ => rejE (ρ x) f x)

lemma moveKernelER_at (ρ : ProbabilityTheory.Kernel X X) [IsSFiniteKernel ρ] {f : X → X → ℝ≥0∞}
    (hf : Measurable (Function.uncurry f)) (x : X) :
    moveKernelER ρ f x = moveKernelE (ρ x) f x := by
  ext B hB
  have hr : Measurable (Function.uncurry (fun (x : X) (_ : X) => rejE (ρ x) f x)) := by
    unfold rejE
    exact (measurable_const.sub hf.lintegral_kernel_prod_right).comp measurable_fst
  rw [moveKernelE_apply (ρ x) hf x hB]
  unfold moveKernelER
  rw [add_apply, Measure.add_apply, ProbabilityTheory.Kernel.withDensity_apply' _ hf,
    ProbabilityTheory.Kernel.withDensity_apply' _ hr, ProbabilityTheory.Kernel.id_apply,
    setLIntegral_const, Measure.dirac_apply' _ hB]

lemma accKernelR_eq_moveKernelER (ρ : ProbabilityTheory.Kernel X X) [IsSFiniteKernel ρ]
    (q a : X → X → ℝ) : accKernelR ρ q a = moveKernelER ρ (moveDens q a) := rfl

/-- reversibility only sees the kernel almost everywhere w.r.t. the target -/
lemma isReversible_congr_ae {κ κ' : ProbabilityTheory.Kernel X X} {ν : Measure X}
    (h : ∀ᵐ x ∂ν, κ x = κ' x) (hκ : κ.IsReversible ν) : κ'.IsReversible ν := by
  intro A B hA hB
  have e : ∀ (S T : Set X), ∫⁻ x in S, κ' x T ∂ν = ∫⁻ x in S, κ x T ∂ν := fun S T =>
    lintegral_congr_ae (ae_restrict_of_ae (h.mono (fun x hx => by simp only [hx])))
  rw [e A B, e B A]
  exact hκ hA hB

/-- likelihood-ratio acceptance with the `ℝ≥0∞` division (the model's convention) -/
noncomputable def likAlphaE (L : X → ℝ) (x y : X) : ℝ≥0∞ :=
  min 1 (ENNReal.ofReal (L y) / ENNReal.ofReal (L x))

omit [MeasurableSpace X] in
lemma likAlphaE_le_one (L : X → ℝ) (x y : X) : likAlphaE L x y ≤ 1 := min_le_left _ _

lemma measurable_likAlphaE {L : X → ℝ} (hL : Measurable L) :
    Measurable (Function.uncurry (likAlphaE L)) := by
  unfold likAlphaE
  exact measurable_const.min
    ((hL.comp measurable_snd).ennreal_ofReal.div (hL.comp measurable_fst).ennreal_ofReal)

omit [MeasurableSpace X] in
/-- it is `mhAlphaE` for a constant (symmetric) proposal density -/
lemma likAlphaE_eq_mhAlphaE (L : X → ℝ) (x y : X) :
    likAlphaE L x y = mhAlphaE (fun x => ENNReal.ofReal (L x)) (fun _ _ => 1) x y := by
  unfold likAlphaE mhAlphaE; simp

omit [MeasurableSpace X] in
/-- where the current likelihood is positive both conventions agree -/
lemma likAlphaE_of_pos {L : X → ℝ} {x : X} (hx : 0 < L x) (y : X) :
    likAlphaE L x y = moveDens (fun _ _ => 1) (mhAlphaD L (fun _ _ => 1)) x y := by
  unfold likAlphaE moveDens mhAlphaD
  rw [← ENNReal.ofReal_div_of_pos hx, ← ENNReal.ofReal_one, ← ENNReal.ofReal_min]
  simp

lemma moveKernelER_lik_eq_of_pos (Q : ProbabilityTheory.Kernel X X) [IsSFiniteKernel Q]
    {L : X → ℝ} (hL : Measurable L) {x : X} (hx : 0 < L x) :
    moveKernelER Q (likAlphaE L) x = mhKernelR Q L (fun _ _ => 1) x := by
  have hα : Measurable (Function.uncurry (mhAlphaD L (fun _ _ => (1 : ℝ)))) :=
    measurable_mhAlphaD hL measurable_const
  unfold mhKernelR
  rw [moveKernelER_at Q (measurable_likAlphaE hL) x,
    accKernelR_eq_moveKernelE_at Q measurable_const hα x]
  exact moveKernelE_congr_at (Q x) (measurable_likAlphaE hL)
    (measurable_moveDens measurable_const hα) (fun y => likAlphaE_of_pos hx y)

lemma moveKernelER_lik_isMarkov (Q : ProbabilityTheory.Kernel X X) [IsMarkovKernel Q]
    {L : X → ℝ} (hL : Measurable L) : IsMarkovKernel (moveKernelER Q (likAlphaE L)) :=
  ⟨fun x => ⟨by
    rw [moveKernelER_at Q (measurable_likAlphaE hL) x]
    refine moveKernelE_univ (Q x) (measurable_likAlphaE hL) x ?_
    calc ∫⁻ y, likAlphaE L x y ∂Q x ≤ ∫⁻ _, 1 ∂Q x := lintegral_mono (likAlphaE_le_one L x)
      _ = 1 := by simp⟩⟩

lemma moveKernelER_lik_isReversible {μ0 : Measure X} [IsFiniteMeasure μ0]
    {Q : ProbabilityTheory.Kernel X X} [IsMarkovKernel Q] (hQ : Q.IsReversible μ0)
    {L : X → ℝ} (hL : Measurable L) (hL0 : ∀ x, 0 ≤ L x) :
    (moveKernelER Q (likAlphaE L)).IsReversible (targetMeasure μ0 L) := by
  have hD : (mhKernelR Q L (fun _ _ => 1)).IsReversible (targetMeasure μ0 L) :=
    accKernelR_isReversible' (symmRef_of_isReversible hQ) hL measurable_const
      (measurable_mhAlphaD hL measurable_const) hL0 (mhAlphaD_balance hL0 (fun _ _ => zero_le_one))
  refine isReversible_congr_ae ?_ hD
  unfold targetMeasure
  rw [ae_withDensity_iff hL.ennreal_ofReal]
  refine ae_of_all _ (fun x hx => ?_)
  have hpos : 0 < L x := by
    rcases (hL0 x).eq_or_lt with h | h
    · exact absurd (by simp [← h]) hx
    · exact h
  exact (moveKernelER_lik_eq_of_pos Q hL hpos).symm

end modelconv

/-! ### two consecutive steps: the law of the composite is the composition of the kernels -/

section chain
variable {X : Type*} [MeasurableSpace X]

/-- the accept/reject step is jointly measurable in (state, proposal, uniform) -/
lemma measurable_mhStepG_joint {α : X → X → ℝ≥0∞} (hα : Measurable (Function.uncurry α)) :
    Measurable (fun p : X × X × ℝ => mhStepG α p.1 p.2.1 p.2.2) := by
  unfold mhStepG
  refine Measurable.ite ?_ (measurable_fst.comp measurable_snd) measurable_fst
  exact measurableSet_le (ENNReal.measurable_ofReal.comp (measurable_snd.comp measurable_snd))
    (hα.comp (measurable_fst.prodMk (measurable_fst.comp measurable_snd)))

/-- if one step from `x` driven by inputs `ω₁ ~ P₁` has law `κ₁ x` and one step from `y` driven by
    independent inputs `ω₂ ~ P₂` has law `κ₂ y`, the two steps in a row have law `(κ₂ ∘ₖ κ₁) x` -/
lemma law_two_steps {Ω₁ Ω₂ : Type*} [MeasurableSpace Ω₁] [MeasurableSpace Ω₂]
    (P₁ : Measure Ω₁) (P₂ : Measure Ω₂) [SFinite P₂]
    {F₁ : X → Ω₁ → X} {F₂ : X → Ω₂ → X} (x : X) (hF₁ : Measurable (F₁ x))
    (hF₂ : Measurable (Function.uncurry F₂))
    {κ₁ κ₂ : ProbabilityTheory.Kernel X X} (h₁ : P₁.map (F₁ x) = κ₁ x)
    (h₂ : ∀ y, P₂.map (F₂ y) = κ₂ y) :
    (P₁.prod P₂).map (fun ω : Ω₁ × Ω₂ => F₂ (F₁ x ω.1) ω.2) = (κ₂ ∘ₖ κ₁) x := by
  have hm : Measurable (fun ω : Ω₁ × Ω₂ => F₂ (F₁ x ω.1) ω.2) :=
    hF₂.comp ((hF₁.comp measurable_fst).prodMk measurable_snd)
  have hF₂y : ∀ y, Measurable (F₂ y) := fun y => hF₂.of_uncurry_left
  ext A hA
  rw [Measure.map_apply hm hA, Measure.prod_apply (hm hA),
    ProbabilityTheory.Kernel.comp_apply' _ _ _ hA, ← h₁,
    lintegral_map (ProbabilityTheory.Kernel.measurable_coe κ₂ hA) hF₁]
  refine lintegral_congr (fun ω₁ => ?_)
  rw [← h₂ (F₁ x ω₁), Measure.map_apply (hF₂y _) hA]
  rfl

end chain

/-! ### pCN in density form: the Mehler kernel (density of `N(a x, v)` w.r.t. the prior `N(0,1)`) -/

section mehler
open scoped NNReal

/-- density of the pCN proposal `N(a x, v)` w.r.t. the PRIOR `N(0,1)` (not Lebesgue) -/
noncomputable def mehlerE (a : ℝ) (v : ℝ≥0) (x y : ℝ) : ℝ≥0∞ :=
  ENNReal.ofReal (pcnDens1 a v x y / gaussianPDFReal 0 1 y)

lemma measurable_mehlerE (a : ℝ) (v : ℝ≥0) : Measurable (Function.uncurry (mehlerE a v)) := by
  unfold mehlerE
  exact ((measurable_pcnDens1 a v).div
    ((measurable_gaussianPDFReal 0 1).comp measurable_snd)).ennreal_ofReal

lemma mehlerE_ne_top (a : ℝ) (v : ℝ≥0) (x y : ℝ) : mehlerE a v x y ≠ ∞ := ENNReal.ofReal_ne_top

/-- `a² + v = 1`: the Mehler kernel is symmetric -/
lemma mehlerE_symm (a : ℝ) {v : ℝ≥0} (hv : v ≠ 0) (h : a ^ 2 + (v : ℝ) = 1) (x y : ℝ) :
    mehlerE a v x y = mehlerE a v y x := by
  unfold mehlerE
  congr 1
  have hb := pcnDens1_balance a hv h x y
  simp only [mul_one] at hb
  have hx : gaussianPDFReal 0 1 x ≠ 0 := (gaussianPDFReal_pos 0 1 x one_ne_zero).ne'
  have hy : gaussianPDFReal 0 1 y ≠ 0 := (gaussianPDFReal_pos 0 1 y one_ne_zero).ne'
  rw [div_eq_div_iff hy hx]
  linarith

/-- prior density × Mehler kernel = Lebesgue density of `N(a x, v)` -/
lemma gaussianPDF_mul_mehlerE (a : ℝ) (v : ℝ≥0) (x y : ℝ) :
    gaussianPDF 0 1 y * mehlerE a v x y = gaussianPDF (a * x) v y := by
  unfold mehlerE gaussianPDF pcnDens1
  have hy : gaussianPDFReal 0 1 y ≠ 0 := (gaussianPDFReal_pos 0 1 y one_ne_zero).ne'
  rw [← ENNReal.ofReal_mul (gaussianPDFReal_nonneg 0 1 y), mul_div_cancel₀ _ hy]

/-- the proposal with density `mehlerE` w.r.t. the prior is the pCN proposal `N(a x, v)` -/
lemma mehler_proposal_law (a : ℝ) {v : ℝ≥0} (hv : v ≠ 0) (x : ℝ) :
    (gaussianReal 0 1).withDensity (mehlerE a v x) = gaussianReal (a * x) v := by
  have hm : Measurable (mehlerE a v x) := (measurable_mehlerE a v).of_uncurry_left
  rw [gaussianReal_of_var_ne_zero 0 one_ne_zero, gaussianReal_of_var_ne_zero _ hv,
    ← withDensity_mul _ (measurable_gaussianPDF 0 1) hm]
  congr 1
  ext y
  exact gaussianPDF_mul_mehlerE a v x y

lemma lintegral_mehlerE (a : ℝ) {v : ℝ≥0} (hv : v ≠ 0) (x : ℝ) :
    ∫⁻ y, mehlerE a v x y ∂(gaussianReal 0 1) = 1 := by
  have hm : Measurable (mehlerE a v x) := (measurable_mehlerE a v).of_uncurry_left
  rw [← setLIntegral_univ, ← withDensity_apply _ MeasurableSet.univ, mehler_proposal_law a hv x]
  exact measure_univ

/-- law of `m + s ξ`, `ξ ~ N(0,1)` -/
lemma gaussian_affine_law (m s : ℝ) :
    (gaussianReal 0 1).map (fun ξ => m + s * ξ) = gaussianReal m (NNReal.mk (s ^ 2) (sq_nonneg s)) := by
  have h1 : (fun ξ : ℝ => m + s * ξ) = (fun y => m + y) ∘ (fun ξ => s * ξ) := rfl
  rw [h1, ← Measure.map_map (measurable_const_add m) (measurable_const_mul s),
    gaussianReal_map_const_mul, gaussianReal_map_const_add]
  simp

end mehler

/-! ### Gaussian random walk on `ℝ^ι`: the law of `x + s ξ` has the density `rwDens` -/

section rwpi
open scoped NNReal
variable {ι : Type*} [Fintype ι]

/-- independent `N(x_i, v)` coordinates have the joint Lebesgue density `rwDens v x` -/
lemma pi_gaussian_eq_withDensity {v : ℝ≥0} (hv : v ≠ 0) (x : ι → ℝ) :
    Measure.pi (fun i => gaussianReal (x i) v)
      = (volume : Measure (ι → ℝ)).withDensity (fun y => ENNReal.ofReal (rwDens v x y)) := by
  refine Measure.pi_eq (fun s hs => ?_)
  rw [withDensity_apply _ (MeasurableSet.univ_pi hs), ← lintegral_indicator (MeasurableSet.univ_pi hs)]
  have hpt : ∀ y : ι → ℝ, (Set.pi univ s).indicator (fun y => ENNReal.ofReal (rwDens v x y)) y
      = ENNReal.ofReal (∏ i, (s i).indicator (gaussianPDFReal (x i) v) (y i)) := by
    intro y
    by_cases h : y ∈ Set.pi univ s
    · rw [indicator_of_mem h]
      congr 1
      unfold rwDens
      exact Finset.prod_congr rfl (fun i _ => (indicator_of_mem (h i (mem_univ i)) _).symm)
    · rw [indicator_of_notMem h]
      have : ∃ i, y i ∉ s i := by simpa [Set.mem_univ_pi] using h
      obtain ⟨i, hi⟩ := this
      rw [Finset.prod_eq_zero (Finset.mem_univ i) (indicator_of_notMem hi _), ENNReal.ofReal_zero]
  rw [lintegral_congr hpt]
  have hint : Integrable (fun y : ι → ℝ => ∏ i, (s i).indicator (gaussianPDFReal (x i) v) (y i))
      volume :=
    Integrable.fintype_prod (fun i => (integrable_gaussianPDFReal (x i) v).indicator (hs i))
  have hnn : ∀ i (t : ℝ), 0 ≤ (s i).indicator (gaussianPDFReal (x i) v) t := fun i t =>
    indicator_nonneg (fun t _ => gaussianPDFReal_nonneg _ _ t) t
  rw [← ofReal_integral_eq_lintegral_ofReal hint
    (ae_of_all _ (fun y => Finset.prod_nonneg (fun i _ => hnn i (y i)))),
    integral_fintype_prod_volume_eq_prod,
    ENNReal.ofReal_prod_of_nonneg (fun i _ => integral_nonneg (hnn i))]
  refine Finset.prod_congr rfl (fun i _ => ?_)
  rw [gaussianReal_apply_eq_integral _ hv, integral_indicator (hs i)]

/-- law of the random-walk proposal `x + s ξ`, `ξ ~ N(0, I)` (`randn(n)`), in every dimension -/
lemma rw_proposal_law (s : ℝ) (hs : s ≠ 0) (x : ι → ℝ) :
    (Measure.pi (fun _ : ι => gaussianReal 0 1)).map (fun ξ i => x i + s * ξ i)
      = (volume : Measure (ι → ℝ)).withDensity
          (fun y => ENNReal.ofReal (rwDens (NNReal.mk (s ^ 2) (sq_nonneg s)) x y)) := by
  have hv : NNReal.mk (s ^ 2) (sq_nonneg s) ≠ 0 := by
    intro h; exact hs (by simpa using congrArg NNReal.toReal h)
  have hmap : ∀ i, (gaussianReal 0 1).map (fun ξ => x i + s * ξ)
      = gaussianReal (x i) (NNReal.mk (s ^ 2) (sq_nonneg s)) := fun i => gaussian_affine_law (x i) s
  have : ∀ i, SigmaFinite ((gaussianReal 0 1).map (fun ξ => x i + s * ξ)) := fun i => by
    rw [hmap i]; infer_instance
  rw [Measure.pi_map_pi (fun i => (by fun_prop : Measurable (fun ξ : ℝ => x i + s * ξ)).aemeasurable)]
  simp_rw [hmap]
  exact pi_gaussian_eq_withDensity hv x

/-- proposal density of the Gaussian random walk with scale `s` on `ℝ^ι`, `ℝ≥0∞`-valued -/
noncomputable def rwQ (s : ℝ) (x y : ι → ℝ) : ℝ≥0∞ :=
  ENNReal.ofReal (rwDens (NNReal.mk (s ^ 2) (sq_nonneg s)) x y)

lemma measurable_rwQ (s : ℝ) : Measurable (Function.uncurry (rwQ (ι := ι) s)) :=
  (measurable_rwDens _).ennreal_ofReal

/-- one random-walk Metropolis step from `y` driven by the raw inputs `p = (ξ, u)` -/
noncomputable def rwStepG (π : (ι → ℝ) → ℝ≥0∞) (s : ℝ) (y : ι → ℝ) (p : (ι → ℝ) × ℝ) : ι → ℝ :=
  mhStepG (mhAlphaE π (rwQ s)) y (fun i => y i + s * p.1 i) p.2

lemma measurable_rwStepG {π : (ι → ℝ) → ℝ≥0∞} (hπ : Measurable π) (s : ℝ) :
    Measurable (Function.uncurry (rwStepG π s)) :=
  (measurable_mhStepG_joint (measurable_mhAlphaE hπ (measurable_rwQ s))).comp
    (measurable_fst.prodMk ((measurable_pi_lambda _ (fun i => by fun_prop)).prodMk
      (measurable_snd.comp measurable_snd)))

end rwpi

/-! ### one coordinate of CWMH: law of `x[j := x_j + s ξ]` -/

section cwlaw
open scoped NNReal
variable {n : ℕ}

lemma measurable_update_coord (j : Fin (n + 1)) (x : Fin (n + 1) → ℝ) :
    Measurable (fun t : ℝ => Function.update x j t) :=
  measurable_pi_lambda _ (fun i => by
    by_cases h : i = j
    · subst h; simp only [Function.update_self]; exact measurable_id
    · simp only [Function.update_of_ne h]; exact measurable_const)

/-- the coordinate proposal `rwCoordDens j v x · • coordRef j x` is the law of `x[j := t]`,
    `t ~ N(x_j, v)` -/
lemma coord_proposal_law (j : Fin (n + 1)) {v : ℝ≥0} (hv : v ≠ 0) (x : Fin (n + 1) → ℝ) :
    (coordRef j x).withDensity (fun y => ENNReal.ofReal (rwCoordDens j v x y))
      = (gaussianReal (x j) v).map (fun t => Function.update x j t) := by
  have hu := measurable_update_coord j x
  have hd : Measurable (fun y : Fin (n + 1) → ℝ => ENNReal.ofReal (rwCoordDens j v x y)) :=
    ((measurable_rwCoordDens j v).of_uncurry_left).ennreal_ofReal
  ext A hA
  rw [withDensity_apply _ hA, ← lintegral_indicator hA, lintegral_coordRef j x (hd.indicator hA),
    Measure.map_apply hu hA, gaussianReal_apply _ hv, ← lintegral_indicator (hu hA)]
  refine lintegral_congr (fun t => ?_)
  by_cases ht : Function.update x j t ∈ A
  · rw [indicator_of_mem ht, indicator_of_mem (show t ∈ (fun t => Function.update x j t) ⁻¹' A from ht)]
    unfold rwCoordDens gaussianPDF
    simp only [Function.update_self]
  · rw [indicator_of_notMem ht,
      indicator_of_notMem (show t ∉ (fun t => Function.update x j t) ⁻¹' A from ht)]

/-- … from a standard normal draw: `x[j := x_j + s ξ]`, `ξ ~ N(0,1)` -/
lemma coord_proposal_law_inputs (j : Fin (n + 1)) (s : ℝ) (hs : s ≠ 0) (x : Fin (n + 1) → ℝ) :
    (coordRef j x).withDensity
        (fun y => ENNReal.ofReal (rwCoordDens j (NNReal.mk (s ^ 2) (sq_nonneg s)) x y))
      = (gaussianReal 0 1).map (fun ξ => Function.update x j (x j + s * ξ)) := by
  have hv : NNReal.mk (s ^ 2) (sq_nonneg s) ≠ 0 := by
    intro h; exact hs (by simpa using congrArg NNReal.toReal h)
  rw [coord_proposal_law j hv x, ← gaussian_affine_law (x j) s,
    Measure.map_map (measurable_update_coord j x) (by fun_prop)]
  rfl

end cwlaw

end CuqiVerif.C02
