import CuqiVerif.Model.C03_gallery
import CuqiVerif.Proofs.RExpr
import CuqiVerif.Proofs.C03
import Mathlib.Analysis.SpecialFunctions.Trigonometric.Deriv

/-!
# C03 gallery — helper lemmas

`envL l` — the environment given by a list (`var k ↦ l[k]`, `0` beyond the list): the two evaluation
coordinates `x0 = var 0`, `x1 = var 1` followed by the attributes of the gallery object.
`gal_hasDerivAt0/1` — the master theorem `RExpr.hasDerivAt_deriv` along the first / second coordinate line.
-/
namespace CuqiVerif.C03
open CuqiVerif RExpr

/-- environment from a list of reals -/
def envL (l : List ℝ) : ℕ → ℝ := fun k => l.getD k 0

@[simp] lemma envL_zero (a : ℝ) (r : List ℝ) : envL (a :: r) 0 = a := rfl
@[simp] lemma envL_succ (a : ℝ) (r : List ℝ) (k : ℕ) : envL (a :: r) (k + 1) = envL r k := rfl
@[simp] lemma envL_one (a b : ℝ) (r : List ℝ) : envL (a :: b :: r) 1 = b := rfl
@[simp] lemma envL_two (a b c : ℝ) (r : List ℝ) : envL (a :: b :: c :: r) 2 = c := rfl
@[simp] lemma envL_three (a b c d : ℝ) (r : List ℝ) : envL (a :: b :: c :: d :: r) 3 = d := rfl
@[simp] lemma envL_four (a b c d e : ℝ) (r : List ℝ) : envL (a :: b :: c :: d :: e :: r) 4 = e := rfl

lemma update_envL0 (x0 t : ℝ) (r : List ℝ) : Function.update (envL (x0 :: r)) 0 t = envL (t :: r) := by
  funext k
  rcases k with _ | k <;> simp [envL, Function.update]

lemma update_envL1 (x0 x1 t : ℝ) (r : List ℝ) :
    Function.update (envL (x0 :: x1 :: r)) 1 t = envL (x0 :: t :: r) := by
  funext k
  rcases k with _ | _ | k <;> simp [envL, Function.update]

/-- master theorem along the first coordinate line -/
lemma gal_hasDerivAt0 (f g : RExpr) (x0 : ℝ) (r : List ℝ) (hs : Safe 0 (envL (x0 :: r)) f)
    (hg : eval (envL (x0 :: r)) (RExpr.deriv 0 f) = eval (envL (x0 :: r)) g) :
    HasDerivAt (fun t => eval (envL (t :: r)) f) (eval (envL (x0 :: r)) g) x0 := by
  have := hasDerivAt_of_eval_deriv_eq 0 (envL (x0 :: r)) f g hs hg
  simpa [update_envL0] using this

/-- master theorem along the second coordinate line -/
lemma gal_hasDerivAt1 (f g : RExpr) (x0 x1 : ℝ) (r : List ℝ) (hs : Safe 1 (envL (x0 :: x1 :: r)) f)
    (hg : eval (envL (x0 :: x1 :: r)) (RExpr.deriv 1 f) = eval (envL (x0 :: x1 :: r)) g) :
    HasDerivAt (fun t => eval (envL (x0 :: t :: r)) f) (eval (envL (x0 :: x1 :: r)) g) x1 := by
  have := hasDerivAt_of_eval_deriv_eq 1 (envL (x0 :: x1 :: r)) f g hs hg
  simpa [update_envL1] using this

/-! ### the 2-dimensional Gaussian kernel of squiggle / banana, written out -/
@[simp] lemma vec2_zero {R : Type} (a b : R) : vec2 a b 0 = a := rfl
@[simp] lemma vec2_one {R : Type} (a b : R) : vec2 a b 1 = b := rfl

section two
variable {R : Type} [CommRing R]

lemma gaussQuad_two (P : ℕ → ℕ → R) (y μ : ℕ → R) :
    gaussQuad 2 P y μ = (y 0 - μ 0) * (P 0 0 * (y 0 - μ 0) + P 0 1 * (y 1 - μ 1))
      + (y 1 - μ 1) * (P 1 0 * (y 0 - μ 0) + P 1 1 * (y 1 - μ 1)) := by
  simp [gaussQuad_eq, Finset.sum_range_succ]

lemma gaussGrad_two (P : ℕ → ℕ → R) (y μ : ℕ → R) (i : ℕ) :
    gaussGrad 2 P y μ i = -(P i 0 * (y 0 - μ 0) + P i 1 * (y 1 - μ 1)) := by
  simp [gaussGrad_eq, Finset.sum_range_succ]
end two

/-- derivative of a two-dimensional quadratic form along a differentiable curve `(u(t), v(t))` -/
lemma hasDerivAt_quad2 (p00 p01 p10 p11 : ℝ) (hsym : p01 = p10) (u v : ℝ → ℝ) (u' v' t0 : ℝ)
    (hu : HasDerivAt u u' t0) (hv : HasDerivAt v v' t0) :
    HasDerivAt (fun t => -((u t) * (p00 * u t + p01 * v t) + (v t) * (p10 * u t + p11 * v t)) / 2)
      (-(p00 * u t0 + p01 * v t0) * u' + -(p10 * u t0 + p11 * v t0) * v') t0 := by
  have h1 := ((hu.fun_mul ((hu.const_mul p00).fun_add (hv.const_mul p01))).fun_add
    (hv.fun_mul ((hu.const_mul p10).fun_add (hv.const_mul p11)))).fun_neg.div_const 2
  refine h1.congr_deriv ?_
  subst hsym
  ring

end CuqiVerif.C03
