import CuqiVerif.Props.C02
import Mathlib.Probability.Kernel.WithDensity
import Mathlib.Probability.Kernel.Invariance
import Mathlib.Probability.Kernel.Composition.Prod
import Mathlib.MeasureTheory.Measure.Prod
import Mathlib.MeasureTheory.Measure.WithDensity
import Mathlib.MeasureTheory.Constructions.Pi
import Mathlib.MeasureTheory.Measure.Lebesgue.Basic
import Mathlib.Probability.Distributions.Gaussian.Real
import Mathlib.MeasureTheory.Integral.Pi
import Mathlib.Probability.Kernel.Composition.MeasureCompProd

/-!
# C02 — Metropolis–Hastings kernels with densities on general measurable spaces (helpers)

Definitions (`moveDens`, `rejProb`, `accKernel`, `mhAlphaD`, `mhKernelD`, `targetMeasure`,
`scaleKernel`, `mixKernel`) and the measure-theoretic lemmas behind the theorems of
`CuqiVerif/Props/C02_density.lean`.
-/

namespace CuqiVerif.C02

open MeasureTheory ProbabilityTheory Set
open scoped ENNReal

section general
variable {X : Type*} [MeasurableSpace X]

/-- density (w.r.t. the reference) of the accepted move `x → y`:
    proposal density × acceptance probability -/
noncomputable def moveDens (q a : X → X → ℝ) (x y : X) : ℝ≥0∞ := ENNReal.ofReal (q x y * a x y)

/-- rejection probability `r(x) = 1 − ∫ q(x,y) a(x,y) ρ(x,dy)` for a reference kernel `ρ` -/
noncomputable def rejProbR (ρ : ProbabilityTheory.Kernel X X) (q a : X → X → ℝ) (x : X) : ℝ≥0∞ :=
  1 - ∫⁻ y, moveDens q a x y ∂ρ x

/-- Metropolis-type kernel with a reference KERNEL `ρ` (proposal `q(x,·) • ρ(x,·)`):
    `K(x, A) = ∫_A q(x,y) a(x,y) ρ(x,dy) + r(x) δ_x(A)`.  `ρ = const lam` is the classical case
    of densities w.r.t. one reference measure; `ρ(x,·) = lamY ⊗ δ_z` is a one-block update. -/
noncomputable def accKernelR (ρ : ProbabilityTheory.Kernel X X) [IsSFiniteKernel ρ] (q a : X → X → ℝ) :
    ProbabilityTheory.Kernel X X :=
  ρ.withDensity (moveDens q a)
    + (ProbabilityTheory.Kernel.id : ProbabilityTheory.Kernel X X).withDensity (fun x _ => rejProbR ρ q a x)

/-- rejection probability `r(x) = 1 − ∫ q(x,y) a(x,y) λ(dy)` -/
noncomputable def rejProb (lam : Measure X) (q a : X → X → ℝ) (x : X) : ℝ≥0∞ :=
  1 - ∫⁻ y, moveDens q a x y ∂lam

/-- Metropolis-type kernel with proposal density `q` w.r.t. a reference measure and acceptance
    function `a`: `K(x, A) = ∫_A q(x,y) a(x,y) λ(dy) + r(x) δ_x(A)`. -/
noncomputable def accKernel (lam : Measure X) [SFinite lam] (q a : X → X → ℝ) : ProbabilityTheory.Kernel X X :=
  accKernelR (ProbabilityTheory.Kernel.const X lam) q a

/-- the target measure `μ = π · λ` -/
noncomputable def targetMeasure (lam : Measure X) (π : X → ℝ) : Measure X :=
  lam.withDensity (fun x => ENNReal.ofReal (π x))

/-- Metropolis–Hastings acceptance probability for densities (the generic version of `mhAlpha`;
    `min 1 (b / 0) = 0` in a field with `x / 0 = 0`: moves out of `{π q = 0}` are rejected). -/
noncomputable def mhAlphaD (π : X → ℝ) (q : X → X → ℝ) (x y : X) : ℝ :=
  min 1 (π y * q y x / (π x * q x y))

/-- the Metropolis–Hastings kernel on a general measurable space -/
noncomputable def mhKernelD (lam : Measure X) [SFinite lam] (π : X → ℝ) (q : X → X → ℝ) :
    ProbabilityTheory.Kernel X X :=
  accKernel lam q (mhAlphaD π q)

/-- the Metropolis–Hastings kernel for a proposal `q(x,·) • ρ(x,·)` with reference kernel `ρ` -/
noncomputable def mhKernelR (ρ : ProbabilityTheory.Kernel X X) [IsSFiniteKernel ρ] (π : X → ℝ)
    (q : X → X → ℝ) : ProbabilityTheory.Kernel X X :=
  accKernelR ρ q (mhAlphaD π q)

instance (ρ : ProbabilityTheory.Kernel X X) [IsSFiniteKernel ρ] (q a : X → X → ℝ) :
    IsSFiniteKernel (accKernelR ρ q a) := by
  unfold accKernelR
  have h1 : IsSFiniteKernel (ρ.withDensity (moveDens q a)) :=
    ProbabilityTheory.Kernel.IsSFiniteKernel.withDensity _ (fun _ _ => ENNReal.ofReal_ne_top)
  have h2 : IsSFiniteKernel ((ProbabilityTheory.Kernel.id : ProbabilityTheory.Kernel X X).withDensity
      (fun x _ => rejProbR ρ q a x)) :=
    ProbabilityTheory.Kernel.IsSFiniteKernel.withDensity _
      (fun x _ => ne_top_of_le_ne_top ENNReal.one_ne_top tsub_le_self)
  infer_instance

instance (lam : Measure X) [SFinite lam] (q a : X → X → ℝ) : IsSFiniteKernel (accKernel lam q a) := by
  unfold accKernel; infer_instance

instance (lam : Measure X) [SFinite lam] (π : X → ℝ) (q : X → X → ℝ) :
    IsSFiniteKernel (mhKernelD lam π q) := by unfold mhKernelD; infer_instance

instance (ρ : ProbabilityTheory.Kernel X X) [IsSFiniteKernel ρ] (π : X → ℝ) (q : X → X → ℝ) :
    IsSFiniteKernel (mhKernelR ρ π q) := by unfold mhKernelR; infer_instance

/-- Barker's acceptance probability `π(y)q(y,x) / (π(x)q(x,y) + π(y)q(y,x))` -/
noncomputable def barkerAlpha (π : X → ℝ) (q : X → X → ℝ) (x y : X) : ℝ :=
  π y * q y x / (π x * q x y + π y * q y x)

lemma measurable_barkerAlpha {π : X → ℝ} {q : X → X → ℝ} (hπ : Measurable π)
    (hq : Measurable (Function.uncurry q)) : Measurable (Function.uncurry (barkerAlpha π q)) := by
  have hswap : Measurable (fun p : X × X => q p.2 p.1) := hq.comp measurable_swap
  exact ((hπ.comp measurable_snd).mul hswap).div
    (((hπ.comp measurable_fst).mul hq).add ((hπ.comp measurable_snd).mul hswap))

omit [MeasurableSpace X] in
lemma barkerAlpha_balance (π : X → ℝ) (q : X → X → ℝ) (x y : X) :
    π x * q x y * barkerAlpha π q x y = π y * q y x * barkerAlpha π q y x := by
  unfold barkerAlpha
  rw [add_comm (π y * q y x)]
  ring

/-- the reference pair `(lam, ρ)` is symmetric: `lam(dx) ρ(x,dy)` is invariant under `(x,y) ↦ (y,x)` -/
def SymmRef (lam : Measure X) (ρ : ProbabilityTheory.Kernel X X) : Prop :=
  ∀ G : X → X → ℝ≥0∞, Measurable (Function.uncurry G) →
    ∫⁻ x, ∫⁻ y, G x y ∂ρ x ∂lam = ∫⁻ x, ∫⁻ y, G y x ∂ρ x ∂lam

/-- Tonelli: one reference measure for all `x` is a symmetric reference. -/
lemma symmRef_const (lam : Measure X) [SFinite lam] : SymmRef lam (ProbabilityTheory.Kernel.const X lam) := by
  intro G hG
  simp only [ProbabilityTheory.Kernel.const_apply]
  exact lintegral_lintegral_swap hG.aemeasurable

lemma measurable_moveDens {q a : X → X → ℝ} (hq : Measurable (Function.uncurry q))
    (ha : Measurable (Function.uncurry a)) : Measurable (Function.uncurry (moveDens q a)) := by
  unfold moveDens
  exact (hq.mul ha).ennreal_ofReal

lemma measurable_mhAlphaD {π : X → ℝ} {q : X → X → ℝ} (hπ : Measurable π)
    (hq : Measurable (Function.uncurry q)) : Measurable (Function.uncurry (mhAlphaD π q)) := by
  have hswap : Measurable (fun p : X × X => q p.2 p.1) := hq.comp measurable_swap
  have h1 : Measurable (fun p : X × X => π p.2 * q p.2 p.1 / (π p.1 * q p.1 p.2)) :=
    ((hπ.comp measurable_snd).mul hswap).div ((hπ.comp measurable_fst).mul hq)
  exact measurable_const.min h1

lemma measurable_rejProbR (ρ : ProbabilityTheory.Kernel X X) [IsSFiniteKernel ρ] {q a : X → X → ℝ}
    (hq : Measurable (Function.uncurry q)) (ha : Measurable (Function.uncurry a)) :
    Measurable (rejProbR ρ q a) := by
  unfold rejProbR
  exact measurable_const.sub (measurable_moveDens hq ha).lintegral_kernel_prod_right

/-- the kernel evaluated on a measurable set -/
lemma accKernelR_apply (ρ : ProbabilityTheory.Kernel X X) [IsSFiniteKernel ρ] {q a : X → X → ℝ}
    (hq : Measurable (Function.uncurry q)) (ha : Measurable (Function.uncurry a))
    (x : X) {B : Set X} (hB : MeasurableSet B) :
    accKernelR ρ q a x B = ∫⁻ y in B, moveDens q a x y ∂ρ x + rejProbR ρ q a x * B.indicator 1 x := by
  have hr : Measurable (Function.uncurry (fun (x : X) (_ : X) => rejProbR ρ q a x)) :=
    (measurable_rejProbR ρ hq ha).comp measurable_fst
  unfold accKernelR
  rw [add_apply, Measure.add_apply, ProbabilityTheory.Kernel.withDensity_apply' _ (measurable_moveDens hq ha),
    ProbabilityTheory.Kernel.withDensity_apply' _ hr, ProbabilityTheory.Kernel.id_apply, setLIntegral_const,
    Measure.dirac_apply' _ hB]

lemma accKernel_apply (lam : Measure X) [SFinite lam] {q a : X → X → ℝ}
    (hq : Measurable (Function.uncurry q)) (ha : Measurable (Function.uncurry a))
    (x : X) {B : Set X} (hB : MeasurableSet B) :
    accKernel lam q a x B = ∫⁻ y in B, moveDens q a x y ∂lam + rejProb lam q a x * B.indicator 1 x := by
  unfold accKernel
  rw [accKernelR_apply _ hq ha x hB]
  simp only [rejProbR, rejProb, ProbabilityTheory.Kernel.const_apply]

omit [MeasurableSpace X] in
lemma moveDens_le {q a : X → X → ℝ} (hq0 : ∀ x y, 0 ≤ q x y) (ha1 : ∀ x y, a x y ≤ 1) (x y : X) :
    moveDens q a x y ≤ ENNReal.ofReal (q x y) :=
  ENNReal.ofReal_le_ofReal (mul_le_of_le_one_right (hq0 x y) (ha1 x y))

lemma lintegral_moveDens_le_one (ν : Measure X) {q a : X → X → ℝ} (hq0 : ∀ x y, 0 ≤ q x y)
    (ha1 : ∀ x y, a x y ≤ 1) (x : X) (hq1 : ∫⁻ y, ENNReal.ofReal (q x y) ∂ν = 1) :
    ∫⁻ y, moveDens q a x y ∂ν ≤ 1 := by
  rw [← hq1]
  exact lintegral_mono (fun y => moveDens_le hq0 ha1 x y)

/-- total mass one -/
lemma accKernelR_univ (ρ : ProbabilityTheory.Kernel X X) [IsSFiniteKernel ρ] {q a : X → X → ℝ}
    (hq : Measurable (Function.uncurry q)) (ha : Measurable (Function.uncurry a))
    (hq0 : ∀ x y, 0 ≤ q x y) (ha1 : ∀ x y, a x y ≤ 1)
    (hq1 : ∀ x, ∫⁻ y, ENNReal.ofReal (q x y) ∂ρ x = 1) (x : X) :
    accKernelR ρ q a x Set.univ = 1 := by
  rw [accKernelR_apply ρ hq ha x MeasurableSet.univ, Measure.restrict_univ]
  simp only [indicator_univ, Pi.one_apply, mul_one]
  unfold rejProbR
  exact add_tsub_cancel_of_le (lintegral_moveDens_le_one (ρ x) hq0 ha1 x (hq1 x))

lemma accKernel_univ (lam : Measure X) [SFinite lam] {q a : X → X → ℝ}
    (hq : Measurable (Function.uncurry q)) (ha : Measurable (Function.uncurry a))
    (hq0 : ∀ x y, 0 ≤ q x y) (ha1 : ∀ x y, a x y ≤ 1)
    (hq1 : ∀ x, ∫⁻ y, ENNReal.ofReal (q x y) ∂lam = 1) (x : X) :
    accKernel lam q a x Set.univ = 1 :=
  accKernelR_univ _ hq ha hq0 ha1 (by simpa only [ProbabilityTheory.Kernel.const_apply] using hq1) x

/-- symmetric reference + symmetric flow density ⇒ symmetric flows. -/
lemma lintegral_symm_flow {lam : Measure X} {ρ : ProbabilityTheory.Kernel X X} (hρ : SymmRef lam ρ)
    {F : X → X → ℝ≥0∞}
    (hF : Measurable (Function.uncurry F)) (hsymm : ∀ x y, F x y = F y x)
    {g h : X → ℝ≥0∞} (hg : Measurable g) (hh : Measurable h) :
    ∫⁻ x, ∫⁻ y, g x * h y * F x y ∂ρ x ∂lam = ∫⁻ x, ∫⁻ y, h x * g y * F x y ∂ρ x ∂lam := by
  have hm : Measurable (Function.uncurry (fun x y => g x * h y * F x y)) :=
    ((hg.comp measurable_fst).mul (hh.comp measurable_snd)).mul hF
  rw [hρ _ hm]
  refine lintegral_congr (fun x => lintegral_congr (fun y => ?_))
  rw [hsymm y x, mul_comm (g y) (h x)]

/-- the flow density `π(x) q(x,y) a(x,y)` -/
noncomputable def flowDens (π : X → ℝ) (q a : X → X → ℝ) (x y : X) : ℝ≥0∞ :=
  ENNReal.ofReal (π x) * moveDens q a x y

lemma measurable_flowDens {π : X → ℝ} {q a : X → X → ℝ} (hπ : Measurable π)
    (hq : Measurable (Function.uncurry q)) (ha : Measurable (Function.uncurry a)) :
    Measurable (Function.uncurry (flowDens π q a)) :=
  ((hπ.comp measurable_fst).ennreal_ofReal).mul (measurable_moveDens hq ha)

omit [MeasurableSpace X] in
lemma flowDens_symm {π : X → ℝ} {q a : X → X → ℝ} (hπ0 : ∀ x, 0 ≤ π x)
    (hbal : ∀ x y, π x * q x y * a x y = π y * q y x * a y x) (x y : X) :
    flowDens π q a x y = flowDens π q a y x := by
  unfold flowDens moveDens
  rw [← ENNReal.ofReal_mul (hπ0 x), ← ENNReal.ofReal_mul (hπ0 y), ← mul_assoc, ← mul_assoc, hbal x y]

/-- the flow `A → B` split into the move part and the stay part -/
lemma accKernelR_flow (lam : Measure X) (ρ : ProbabilityTheory.Kernel X X) [IsSFiniteKernel ρ]
    {π : X → ℝ} {q a : X → X → ℝ}
    (hπ : Measurable π) (hq : Measurable (Function.uncurry q)) (ha : Measurable (Function.uncurry a))
    {A B : Set X} (hA : MeasurableSet A) (hB : MeasurableSet B) :
    ∫⁻ x in A, accKernelR ρ q a x B ∂(targetMeasure lam π)
      = ∫⁻ x, ∫⁻ y, A.indicator 1 x * B.indicator 1 y * flowDens π q a x y ∂ρ x ∂lam
        + ∫⁻ x, (A ∩ B).indicator 1 x * (ENNReal.ofReal (π x) * rejProbR ρ q a x) ∂lam := by
  have hπ' : Measurable (fun x => ENNReal.ofReal (π x)) := hπ.ennreal_ofReal
  have hK : Measurable (fun x => accKernelR ρ q a x B) := ProbabilityTheory.Kernel.measurable_coe _ hB
  unfold targetMeasure
  rw [setLIntegral_withDensity_eq_setLIntegral_mul _ hπ' hK hA, ← lintegral_indicator hA]
  have hinner : ∀ x, Measurable (fun y => moveDens q a x y) := fun x =>
    (measurable_moveDens hq ha).comp measurable_prodMk_left
  have hpt : ∀ x, A.indicator ((fun x => ENNReal.ofReal (π x)) * fun x => accKernelR ρ q a x B) x
      = (∫⁻ y, A.indicator 1 x * B.indicator 1 y * flowDens π q a x y ∂ρ x)
        + (A ∩ B).indicator 1 x * (ENNReal.ofReal (π x) * rejProbR ρ q a x) := by
    intro x
    have hKx := accKernelR_apply ρ hq ha x hB
    have h1 : ∀ y, A.indicator (1 : X → ℝ≥0∞) x * B.indicator 1 y * flowDens π q a x y
        = (A.indicator 1 x * ENNReal.ofReal (π x)) * B.indicator (fun y => moveDens q a x y) y := by
      intro y
      unfold flowDens
      by_cases hy : y ∈ B <;> simp [hy, mul_assoc]
    have hint : ∫⁻ y, A.indicator (1 : X → ℝ≥0∞) x * B.indicator 1 y * flowDens π q a x y ∂ρ x
        = A.indicator 1 x * ENNReal.ofReal (π x) * ∫⁻ y in B, moveDens q a x y ∂ρ x := by
      simp_rw [h1]
      rw [lintegral_const_mul _ ((hinner x).indicator hB), lintegral_indicator hB]
    rw [hint]
    by_cases hx : x ∈ A
    · by_cases hxB : x ∈ B
      · simp [hx, hxB, hKx, mul_add]
      · simp [hx, hxB, hKx]
    · simp [hx]
  simp_rw [hpt]
  rw [lintegral_add_left]
  have hm : Measurable (Function.uncurry
      (fun x y => A.indicator (1 : X → ℝ≥0∞) x * B.indicator 1 y * flowDens π q a x y)) :=
    (((measurable_one.indicator hA).comp measurable_fst).mul
      ((measurable_one.indicator hB).comp measurable_snd)).mul (measurable_flowDens hπ hq ha)
  exact hm.lintegral_kernel_prod_right

/-- reversibility of `accKernelR` from a symmetric reference and pointwise balance of `π q a` -/
lemma accKernelR_isReversible' {lam : Measure X} {ρ : ProbabilityTheory.Kernel X X} [IsSFiniteKernel ρ]
    (hρ : SymmRef lam ρ) {π : X → ℝ} {q a : X → X → ℝ}
    (hπ : Measurable π) (hq : Measurable (Function.uncurry q)) (ha : Measurable (Function.uncurry a))
    (hπ0 : ∀ x, 0 ≤ π x) (hbal : ∀ x y, π x * q x y * a x y = π y * q y x * a y x) :
    (accKernelR ρ q a).IsReversible (targetMeasure lam π) := by
  intro A B hA hB
  rw [accKernelR_flow lam ρ hπ hq ha hA hB, accKernelR_flow lam ρ hπ hq ha hB hA, inter_comm B A]
  congr 1
  exact lintegral_symm_flow hρ (measurable_flowDens hπ hq ha) (flowDens_symm hπ0 hbal)
    (measurable_one.indicator hA) (measurable_one.indicator hB)

lemma accKernel_isReversible' (lam : Measure X) [SFinite lam] {π : X → ℝ} {q a : X → X → ℝ}
    (hπ : Measurable π) (hq : Measurable (Function.uncurry q)) (ha : Measurable (Function.uncurry a))
    (hπ0 : ∀ x, 0 ≤ π x) (hbal : ∀ x y, π x * q x y * a x y = π y * q y x * a y x) :
    (accKernel lam q a).IsReversible (targetMeasure lam π) :=
  accKernelR_isReversible' (symmRef_const lam) hπ hq ha hπ0 hbal

omit [MeasurableSpace X] in
/-- pointwise balance of the MH acceptance probability (instance of `detailed_balance`) -/
lemma mhAlphaD_balance {π : X → ℝ} {q : X → X → ℝ} (hπ0 : ∀ x, 0 ≤ π x) (hq0 : ∀ x y, 0 ≤ q x y)
    (x y : X) : π x * q x y * mhAlphaD π q x y = π y * q y x * mhAlphaD π q y x :=
  detailed_balance (π x) (π y) (q x y) (q y x) (hπ0 x) (hπ0 y) (hq0 x y) (hq0 y x)

omit [MeasurableSpace X] in
lemma mhAlphaD_le_one (π : X → ℝ) (q : X → X → ℝ) (x y : X) : mhAlphaD π q x y ≤ 1 := min_le_left _ _

omit [MeasurableSpace X] in
lemma mhAlphaD_nonneg {π : X → ℝ} {q : X → X → ℝ} (hπ0 : ∀ x, 0 ≤ π x) (hq0 : ∀ x y, 0 ≤ q x y)
    (x y : X) : 0 ≤ mhAlphaD π q x y :=
  le_min zero_le_one (div_nonneg (mul_nonneg (hπ0 y) (hq0 y x)) (mul_nonneg (hπ0 x) (hq0 x y)))

/-! ### mixtures and sweeps -/

/-- `w • κ` (Mathlib has no `ℝ≥0∞`-scalar action on kernels; a constant density does it) -/
noncomputable def scaleKernel (w : ℝ≥0∞) (κ : ProbabilityTheory.Kernel X X) [IsSFiniteKernel κ] :
    ProbabilityTheory.Kernel X X := κ.withDensity (fun _ _ => w)

lemma scaleKernel_apply (w : ℝ≥0∞) (κ : ProbabilityTheory.Kernel X X) [IsSFiniteKernel κ] (x : X)
    (s : Set X) : scaleKernel w κ x s = w * κ x s := by
  unfold scaleKernel
  rw [ProbabilityTheory.Kernel.withDensity_apply' _ measurable_const, setLIntegral_const]

/-- finite mixture `Σ_i w_i κ_i` (random-scan combination of kernels) -/
noncomputable def mixKernel {ι : Type*} [Fintype ι] (w : ι → ℝ≥0∞)
    (κ : ι → ProbabilityTheory.Kernel X X) [∀ i, IsSFiniteKernel (κ i)] : ProbabilityTheory.Kernel X X :=
  ∑ i, scaleKernel (w i) (κ i)

lemma mixKernel_apply {ι : Type*} [Fintype ι] (w : ι → ℝ≥0∞)
    (κ : ι → ProbabilityTheory.Kernel X X) [∀ i, IsSFiniteKernel (κ i)] (x : X) (s : Set X) :
    mixKernel w κ x s = ∑ i, w i * κ i x s := by
  unfold mixKernel
  rw [FunLike.coe_sum, Finset.sum_apply, Measure.coe_finsetSum, Finset.sum_apply]
  exact Finset.sum_congr rfl (fun i _ => scaleKernel_apply _ _ _ _)

/-- deterministic sweep: composition of a list of kernels (the head acts last) -/
noncomputable def sweepKernel : List (ProbabilityTheory.Kernel X X) → ProbabilityTheory.Kernel X X
  | [] => ProbabilityTheory.Kernel.id
  | κ :: ks => κ ∘ₖ sweepKernel ks

lemma id_invariant (μ : Measure X) : (ProbabilityTheory.Kernel.id : ProbabilityTheory.Kernel X X).Invariant μ := by
  unfold ProbabilityTheory.Kernel.Invariant
  exact Measure.id_comp

/-! ### one-block updates on a product space, transport along measurable equivalences -/

section block
variable {Y Z : Type*} [MeasurableSpace Y] [MeasurableSpace Z]

/-- reference kernel of a one-block update on `Y × Z`: the first block is drawn from `lamY`,
    the second block is kept: `ρ((y,z), ·) = lamY ⊗ δ_z`. -/
noncomputable def blockRef (lamY : Measure Y) [SFinite lamY] : ProbabilityTheory.Kernel (Y × Z) (Y × Z) :=
  (ProbabilityTheory.Kernel.const (Y × Z) lamY) ×ₖ
    (ProbabilityTheory.Kernel.deterministic (Prod.snd : Y × Z → Z) measurable_snd)

instance (lamY : Measure Y) [SFinite lamY] : IsSFiniteKernel (blockRef (Z := Z) lamY) := by
  unfold blockRef; infer_instance

lemma lintegral_blockRef (lamY : Measure Y) [SFinite lamY] (p : Y × Z) {g : Y × Z → ℝ≥0∞}
    (hg : Measurable g) : ∫⁻ c, g c ∂blockRef lamY p = ∫⁻ y', g (y', p.2) ∂lamY := by
  unfold blockRef
  rw [ProbabilityTheory.Kernel.lintegral_prod _ _ _ hg]
  simp only [ProbabilityTheory.Kernel.const_apply]
  refine lintegral_congr (fun y' => ?_)
  exact ProbabilityTheory.Kernel.lintegral_deterministic' (f := fun c => g (y', c)) measurable_snd
    (hg.comp measurable_prodMk_left)

/-- Tonelli in the updated block, for every value of the other block -/
lemma symmRef_block (lamY : Measure Y) [SFinite lamY] (lamZ : Measure Z) [SFinite lamZ] :
    SymmRef (lamY.prod lamZ) (blockRef lamY) := by
  intro G hG
  have hsec : ∀ (H : (Y × Z) → (Y × Z) → ℝ≥0∞), Measurable (Function.uncurry H) → ∀ p : Y × Z,
      ∫⁻ c, H p c ∂blockRef lamY p = ∫⁻ y', H p (y', p.2) ∂lamY := fun H hH p =>
    lintegral_blockRef lamY p (hH.comp measurable_prodMk_left)
  have hG' : Measurable (Function.uncurry (fun x y => G y x)) := hG.comp measurable_swap
  simp_rw [hsec G hG, hsec _ hG']
  have m1 : Measurable (fun p : Y × Z => ∫⁻ y', G p (y', p.2) ∂lamY) := by
    have : Measurable (Function.uncurry (fun (p : Y × Z) (y' : Y) => G p (y', p.2))) :=
      hG.comp (measurable_fst.prodMk (measurable_snd.prodMk (measurable_snd.comp measurable_fst)))
    exact this.lintegral_prod_right'
  have m2 : Measurable (fun p : Y × Z => ∫⁻ y', G (y', p.2) p ∂lamY) := by
    have : Measurable (Function.uncurry (fun (p : Y × Z) (y' : Y) => G (y', p.2) p)) :=
      hG.comp ((measurable_snd.prodMk (measurable_snd.comp measurable_fst)).prodMk measurable_fst)
    exact this.lintegral_prod_right'
  rw [lintegral_prod_symm _ m1.aemeasurable, lintegral_prod_symm _ m2.aemeasurable]
  refine lintegral_congr (fun z => ?_)
  have m3 : Measurable (Function.uncurry (fun (y y' : Y) => G (y, z) (y', z))) :=
    hG.comp ((measurable_fst.prodMk measurable_const).prodMk (measurable_snd.prodMk measurable_const))
  exact lintegral_lintegral_swap m3.aemeasurable

end block

section transport
variable {W : Type*} [MeasurableSpace W]

/-- transport of a reference kernel along a measurable equivalence `e : X ≃ᵐ W` -/
noncomputable def pullRef (e : X ≃ᵐ W) (ρ : ProbabilityTheory.Kernel W W) : ProbabilityTheory.Kernel X X :=
  (ρ.comap e e.measurable).map e.symm

instance (e : X ≃ᵐ W) (ρ : ProbabilityTheory.Kernel W W) [IsSFiniteKernel ρ] : IsSFiniteKernel (pullRef e ρ) := by
  unfold pullRef; infer_instance

lemma lintegral_pullRef (e : X ≃ᵐ W) (ρ : ProbabilityTheory.Kernel W W) (x : X) {g : X → ℝ≥0∞}
    (hg : Measurable g) : ∫⁻ y, g y ∂pullRef e ρ x = ∫⁻ v, g (e.symm v) ∂ρ (e x) := by
  unfold pullRef
  rw [ProbabilityTheory.Kernel.lintegral_map _ e.symm.measurable _ hg, ProbabilityTheory.Kernel.lintegral_comap]

/-- a symmetric reference stays symmetric under a measurable equivalence -/
lemma symmRef_pull (e : X ≃ᵐ W) {lamW : Measure W} {ρ : ProbabilityTheory.Kernel W W} [IsSFiniteKernel ρ]
    (h : SymmRef lamW ρ) : SymmRef (lamW.map e.symm) (pullRef e ρ) := by
  intro G hG
  have hG' : Measurable (Function.uncurry (fun x y => G y x)) := hG.comp measurable_swap
  have key : ∀ (H : X → X → ℝ≥0∞), Measurable (Function.uncurry H) →
      ∫⁻ x, ∫⁻ y, H x y ∂pullRef e ρ x ∂(lamW.map e.symm)
        = ∫⁻ w, ∫⁻ v, H (e.symm w) (e.symm v) ∂ρ w ∂lamW := by
    intro H hH
    rw [lintegral_map hH.lintegral_kernel_prod_right e.symm.measurable]
    refine lintegral_congr (fun w => ?_)
    have := lintegral_pullRef e ρ (e.symm w) (g := fun b => H (e.symm w) b) (hH.comp measurable_prodMk_left)
    rw [this, e.apply_symm_apply]
  rw [key G hG, key _ hG']
  exact h (fun w v => G (e.symm w) (e.symm v))
    (hG.comp ((e.symm.measurable.comp measurable_fst).prodMk (e.symm.measurable.comp measurable_snd)))

end transport

/-! ### a proposal kernel that is reversible w.r.t. the reference measure is a symmetric reference -/

section reversibleRef

/-- set-level reversibility of a Markov kernel w.r.t. a finite measure extends to all measurable
    functions on the product (π-λ theorem: `Measure.ext_prod`) -/
lemma symmRef_of_isReversible {lam : Measure X} [IsFiniteMeasure lam] {ρ : ProbabilityTheory.Kernel X X}
    [IsMarkovKernel ρ] (h : ρ.IsReversible lam) : SymmRef lam ρ := by
  have hμ : lam ⊗ₘ ρ = (lam ⊗ₘ ρ).map Prod.swap := by
    apply Measure.ext_prod
    intro s t hs ht
    rw [Measure.map_apply measurable_swap (hs.prod ht), Set.preimage_swap_prod,
      Measure.compProd_apply_prod hs ht, Measure.compProd_apply_prod ht hs]
    exact h hs ht
  intro G hG
  have hG' : Measurable (Function.uncurry (fun x y => G y x)) := hG.comp measurable_swap
  have e1 := Measure.lintegral_compProd (μ := lam) (κ := ρ) hG
  have e2 := Measure.lintegral_compProd (μ := lam) (κ := ρ) hG'
  simp only [Function.uncurry_apply_pair] at e1 e2
  rw [← e1, ← e2, hμ, lintegral_map hG measurable_swap]
  rw [← hμ]
  rfl

end reversibleRef

end general

/-! ### single-coordinate updates on `ℝ^(n+1)` -/

section coord
variable {n : ℕ}

/-- reference kernel of a single-coordinate update on `Fin (n+1) → ℝ`: coordinate `j` is drawn
    from Lebesgue measure, the others are kept (`lintegral_coordRef`). -/
noncomputable def coordRef (j : Fin (n + 1)) :
    ProbabilityTheory.Kernel (Fin (n + 1) → ℝ) (Fin (n + 1) → ℝ) :=
  pullRef (MeasurableEquiv.piFinSuccAbove (fun _ => ℝ) j) (blockRef (volume : Measure ℝ))

instance (j : Fin (n + 1)) : IsSFiniteKernel (coordRef j) := by unfold coordRef; infer_instance

lemma lintegral_coordRef (j : Fin (n + 1)) (x : Fin (n + 1) → ℝ) {g : (Fin (n + 1) → ℝ) → ℝ≥0∞}
    (hg : Measurable g) : ∫⁻ y, g y ∂coordRef j x = ∫⁻ t, g (Function.update x j t) := by
  unfold coordRef
  rw [lintegral_pullRef _ _ _ hg]
  have := lintegral_blockRef (volume : Measure ℝ) ((MeasurableEquiv.piFinSuccAbove (fun _ => ℝ) j) x)
    (g := fun v => g ((MeasurableEquiv.piFinSuccAbove (fun _ => ℝ) j).symm v))
    (hg.comp (MeasurableEquiv.piFinSuccAbove (fun _ => ℝ) j).symm.measurable)
  rw [this]
  refine lintegral_congr (fun t => ?_)
  congr 1
  show Fin.insertNth j t (Fin.removeNth j x) = Function.update x j t
  exact Fin.insertNth_removeNth j t x

lemma symmRef_coord (j : Fin (n + 1)) :
    SymmRef (volume : Measure (Fin (n + 1) → ℝ)) (coordRef j) := by
  have h := symmRef_pull (MeasurableEquiv.piFinSuccAbove (fun _ => ℝ) j)
    (symmRef_block (volume : Measure ℝ) (volume : Measure (Fin n → ℝ)))
  have hv : Measure.map (MeasurableEquiv.piFinSuccAbove (fun _ => ℝ) j).symm
      ((volume : Measure ℝ).prod (volume : Measure (Fin n → ℝ))) = volume :=
    (volume_preserving_piFinSuccAbove (fun _ => ℝ) j).symm.map_eq
  rw [hv] at h
  exact h

/-- single-coordinate Metropolis–Hastings kernel on `ℝ^(n+1)` (one iteration of the CWMH loop):
    propose `x[j := t]` with `t ~ q(x, x[j := t]) dt`, accept with the MH probability -/
noncomputable def cwKernel (j : Fin (n + 1)) (π : (Fin (n + 1) → ℝ) → ℝ)
    (q : (Fin (n + 1) → ℝ) → (Fin (n + 1) → ℝ) → ℝ) :
    ProbabilityTheory.Kernel (Fin (n + 1) → ℝ) (Fin (n + 1) → ℝ) :=
  mhKernelR (coordRef j) π q

instance (j : Fin (n + 1)) (π : (Fin (n + 1) → ℝ) → ℝ)
    (q : (Fin (n + 1) → ℝ) → (Fin (n + 1) → ℝ) → ℝ) : IsSFiniteKernel (cwKernel j π q) := by
  unfold cwKernel; infer_instance

end coord

/-! ### Gaussian random-walk proposals (what `MH` / `CWMH` of CUQIpy use: `x + s·ξ`, `ξ ~ N(0, I)`) -/

section gauss
open scoped NNReal

lemma gaussianPDFReal_symm (a b : ℝ) (v : ℝ≥0) : gaussianPDFReal a v b = gaussianPDFReal b v a := by
  unfold gaussianPDFReal
  rw [show (b - a) ^ 2 = (a - b) ^ 2 by ring]

lemma measurable_gaussianPDFReal_uncurry (v : ℝ≥0) :
    Measurable (fun p : ℝ × ℝ => gaussianPDFReal p.1 v p.2) := by
  unfold gaussianPDFReal
  fun_prop

variable {n : ℕ}

/-- density of the proposal `y_j = x_j + s ξ`, `ξ ~ N(0,1)`, `v = s²`, in the updated coordinate -/
noncomputable def rwCoordDens (j : Fin (n + 1)) (v : ℝ≥0) (x y : Fin (n + 1) → ℝ) : ℝ :=
  gaussianPDFReal (x j) v (y j)

lemma measurable_rwCoordDens (j : Fin (n + 1)) (v : ℝ≥0) :
    Measurable (Function.uncurry (rwCoordDens j v)) := by
  show Measurable (fun p : (Fin (n + 1) → ℝ) × (Fin (n + 1) → ℝ) => gaussianPDFReal (p.1 j) v (p.2 j))
  unfold gaussianPDFReal
  fun_prop

lemma rwCoordDens_nonneg (j : Fin (n + 1)) (v : ℝ≥0) (x y : Fin (n + 1) → ℝ) : 0 ≤ rwCoordDens j v x y :=
  gaussianPDFReal_nonneg _ _ _

lemma rwCoordDens_symm (j : Fin (n + 1)) (v : ℝ≥0) (x y : Fin (n + 1) → ℝ) :
    rwCoordDens j v x y = rwCoordDens j v y x := gaussianPDFReal_symm _ _ _

lemma rwCoordDens_pos (j : Fin (n + 1)) {v : ℝ≥0} (hv : v ≠ 0) (x y : Fin (n + 1) → ℝ) :
    0 < rwCoordDens j v x y := gaussianPDFReal_pos _ _ _ hv

lemma lintegral_rwCoordDens (j : Fin (n + 1)) {v : ℝ≥0} (hv : v ≠ 0) (x : Fin (n + 1) → ℝ) :
    ∫⁻ t, ENNReal.ofReal (rwCoordDens j v x (Function.update x j t)) = 1 := by
  unfold rwCoordDens
  simp only [Function.update_self]
  exact lintegral_gaussianPDFReal_eq_one (x j) hv

variable {ι : Type*} [Fintype ι]

/-- density of `y = x + s ξ`, `ξ ~ N(0, I)`, `v = s²`, on `ℝ^ι` w.r.t. Lebesgue measure -/
noncomputable def rwDens (v : ℝ≥0) (x y : ι → ℝ) : ℝ := ∏ i, gaussianPDFReal (x i) v (y i)

lemma measurable_rwDens (v : ℝ≥0) : Measurable (Function.uncurry (rwDens (ι := ι) v)) := by
  show Measurable (fun p : (ι → ℝ) × (ι → ℝ) => ∏ i, gaussianPDFReal (p.1 i) v (p.2 i))
  unfold gaussianPDFReal
  fun_prop

lemma rwDens_nonneg (v : ℝ≥0) (x y : ι → ℝ) : 0 ≤ rwDens v x y :=
  Finset.prod_nonneg (fun _ _ => gaussianPDFReal_nonneg _ _ _)

lemma rwDens_pos {v : ℝ≥0} (hv : v ≠ 0) (x y : ι → ℝ) : 0 < rwDens v x y :=
  Finset.prod_pos (fun _ _ => gaussianPDFReal_pos _ _ _ hv)

lemma rwDens_symm (v : ℝ≥0) (x y : ι → ℝ) : rwDens v x y = rwDens v y x :=
  Finset.prod_congr rfl (fun _ _ => gaussianPDFReal_symm _ _ _)

lemma lintegral_rwDens {v : ℝ≥0} (hv : v ≠ 0) (x : ι → ℝ) :
    ∫⁻ y, ENNReal.ofReal (rwDens v x y) = 1 := by
  unfold rwDens
  have hint : Integrable (fun y : ι → ℝ => ∏ i, gaussianPDFReal (x i) v (y i)) volume :=
    Integrable.fintype_prod (fun i => integrable_gaussianPDFReal (x i) v)
  rw [← ofReal_integral_eq_lintegral_ofReal hint
    (ae_of_all _ (fun y => Finset.prod_nonneg (fun _ _ => gaussianPDFReal_nonneg _ _ _))),
    integral_fintype_prod_volume_eq_prod]
  simp [integral_gaussianPDFReal_eq_one _ hv]

end gauss

/-! ### the pCN proposal in one dimension: `Q(x,·) = N(a x, v)`, `a² + v = 1`, prior `N(0,1)` -/

section pcn1
open scoped NNReal

/-- density of the pCN proposal `y = a·x + s·ξ`, `ξ ~ N(0,1)`, `v = s²` -/
noncomputable def pcnDens1 (a : ℝ) (v : ℝ≥0) (x y : ℝ) : ℝ := gaussianPDFReal (a * x) v y

lemma measurable_pcnDens1 (a : ℝ) (v : ℝ≥0) : Measurable (Function.uncurry (pcnDens1 a v)) := by
  show Measurable (fun p : ℝ × ℝ => gaussianPDFReal (a * p.1) v p.2)
  unfold gaussianPDFReal
  fun_prop

/-- the pCN proposal kernel on `ℝ` (built from its density; `pcnProposal1_apply` identifies it) -/
noncomputable def pcnProposal1 (a : ℝ) (v : ℝ≥0) : ProbabilityTheory.Kernel ℝ ℝ :=
  accKernel volume (pcnDens1 a v) (fun _ _ => 1)

instance (a : ℝ) (v : ℝ≥0) : IsSFiniteKernel (pcnProposal1 a v) := by unfold pcnProposal1; infer_instance

lemma pcnProposal1_apply (a : ℝ) {v : ℝ≥0} (hv : v ≠ 0) (x : ℝ) :
    pcnProposal1 a v x = gaussianReal (a * x) v := by
  ext B hB
  unfold pcnProposal1
  rw [accKernel_apply volume (measurable_pcnDens1 a v) measurable_const x hB, gaussianReal_apply _ hv]
  have h1 : rejProb volume (pcnDens1 a v) (fun _ _ => 1) x = 0 := by
    unfold rejProb moveDens pcnDens1
    simp only [mul_one]
    rw [lintegral_gaussianPDFReal_eq_one _ hv, tsub_self]
  rw [h1, zero_mul, add_zero]
  unfold moveDens pcnDens1 gaussianPDF
  simp only [mul_one]

instance (a : ℝ) {v : ℝ≥0} [hv : Fact (v ≠ 0)] : IsMarkovKernel (pcnProposal1 a v) :=
  ⟨fun x => by rw [pcnProposal1_apply a hv.out x]; infer_instance⟩

lemma targetMeasure_gaussian : targetMeasure volume (gaussianPDFReal 0 1) = gaussianReal 0 1 := by
  rw [gaussianReal_of_var_ne_zero 0 one_ne_zero]
  rfl

/-- pointwise form of `pcn_ratio` in one dimension -/
lemma pcnDens1_balance (a : ℝ) {v : ℝ≥0} (hv : v ≠ 0) (h : a ^ 2 + (v : ℝ) = 1) (x y : ℝ) :
    gaussianPDFReal 0 1 x * pcnDens1 a v x y * 1 = gaussianPDFReal 0 1 y * pcnDens1 a v y x * 1 := by
  have hv' : (v : ℝ) ≠ 0 := by exact_mod_cast hv
  unfold pcnDens1 gaussianPDFReal
  simp only [mul_one, NNReal.coe_one, sub_zero]
  rw [mul_mul_mul_comm, mul_mul_mul_comm _ (Real.exp _), ← Real.exp_add, ← Real.exp_add]
  congr 2
  have hv1 : (v : ℝ) = 1 - a ^ 2 := by linarith
  field_simp
  rw [hv1]
  ring

lemma pcnProposal1_isReversible (a : ℝ) {v : ℝ≥0} (hv : v ≠ 0) (h : a ^ 2 + (v : ℝ) = 1) :
    (pcnProposal1 a v).IsReversible (gaussianReal 0 1) := by
  rw [← targetMeasure_gaussian]
  exact accKernel_isReversible' volume (measurable_gaussianPDFReal 0 1) (measurable_pcnDens1 a v)
    measurable_const (gaussianPDFReal_nonneg 0 1) (pcnDens1_balance a hv h)

end pcn1

/-! ### Gaussian proposals with a state-dependent mean (MALA: mean `x + (ε/2) g(x)`) -/

section drift
open scoped NNReal
variable {ι : Type*} [Fintype ι]

/-- density of `y = m(x) + s ξ`, `ξ ~ N(0, I)`, `v = s²`, on `ℝ^ι` w.r.t. Lebesgue measure -/
noncomputable def driftDens (v : ℝ≥0) (m : (ι → ℝ) → (ι → ℝ)) (x y : ι → ℝ) : ℝ :=
  ∏ i, gaussianPDFReal (m x i) v (y i)

lemma measurable_driftDens (v : ℝ≥0) {m : (ι → ℝ) → (ι → ℝ)} (hm : Measurable m) :
    Measurable (Function.uncurry (driftDens v m)) := by
  show Measurable (fun p : (ι → ℝ) × (ι → ℝ) => ∏ i, gaussianPDFReal (m p.1 i) v (p.2 i))
  unfold gaussianPDFReal
  fun_prop

lemma driftDens_nonneg (v : ℝ≥0) (m : (ι → ℝ) → (ι → ℝ)) (x y : ι → ℝ) : 0 ≤ driftDens v m x y :=
  Finset.prod_nonneg (fun _ _ => gaussianPDFReal_nonneg _ _ _)

lemma driftDens_pos {v : ℝ≥0} (hv : v ≠ 0) (m : (ι → ℝ) → (ι → ℝ)) (x y : ι → ℝ) :
    0 < driftDens v m x y :=
  Finset.prod_pos (fun _ _ => gaussianPDFReal_pos _ _ _ hv)

lemma lintegral_driftDens {v : ℝ≥0} (hv : v ≠ 0) (m : (ι → ℝ) → (ι → ℝ)) (x : ι → ℝ) :
    ∫⁻ y, ENNReal.ofReal (driftDens v m x y) = 1 := by
  unfold driftDens
  have hint : Integrable (fun y : ι → ℝ => ∏ i, gaussianPDFReal (m x i) v (y i)) volume :=
    Integrable.fintype_prod (fun i => integrable_gaussianPDFReal (m x i) v)
  rw [← ofReal_integral_eq_lintegral_ofReal hint
    (ae_of_all _ (fun y => Finset.prod_nonneg (fun _ _ => gaussianPDFReal_nonneg _ _ _))),
    integral_fintype_prod_volume_eq_prod]
  simp [integral_gaussianPDFReal_eq_one _ hv]

/-- `log q(x,y) = −(n/2) log(2πv) − |y − m(x)|²/(2v)` (this is `gaussLogPdf v n |y − m(x)|²`) -/
lemma log_driftDens {v : ℝ≥0} (hv : v ≠ 0) (m : (ι → ℝ) → (ι → ℝ)) (x y : ι → ℝ) :
    Real.log (driftDens v m x y)
      = gaussLogPdf v (Fintype.card ι) (∑ i, (y i - m x i) ^ 2) := by
  have hv' : (0:ℝ) < v := by exact_mod_cast pos_iff_ne_zero.2 hv
  have hpos : (0:ℝ) < 2 * Real.pi * v := by positivity
  unfold driftDens gaussLogPdf
  rw [Real.log_prod (fun i _ => (gaussianPDFReal_pos _ _ _ hv).ne')]
  have h1 : ∀ i, Real.log (gaussianPDFReal (m x i) v (y i))
      = -(1 / 2) * Real.log (2 * Real.pi * v) - (y i - m x i) ^ 2 / (2 * v) := by
    intro i
    unfold gaussianPDFReal
    rw [Real.log_mul (inv_ne_zero (Real.sqrt_pos.2 hpos).ne') (Real.exp_pos _).ne', Real.log_exp,
      Real.log_inv, Real.log_sqrt hpos.le]
    ring
  simp_rw [h1]
  rw [Finset.sum_sub_distrib, Finset.sum_const, Finset.card_univ, ← Finset.sum_div]
  simp only [nsmul_eq_mul]
  ring

end drift

end CuqiVerif.C02
