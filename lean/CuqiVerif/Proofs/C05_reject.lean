import Mathlib.MeasureTheory.Measure.Prod
import Mathlib.MeasureTheory.Measure.Lebesgue.Basic
import Mathlib.MeasureTheory.Measure.WithDensity
import Mathlib.Probability.ConditionalProbability
import Mathlib.Analysis.SpecialFunctions.Exp
/-
  helper lemmas for `Props/C05_reject.lean`
-/
open MeasureTheory ENNReal Set

namespace CuqiVerif.C05

variable {α : Type*} [MeasurableSpace α]

/-- law of `rng.uniform()`: Lebesgue measure on `[0, 1)` -/
noncomputable def unif01 : Measure ℝ := volume.restrict (Ico 0 1)

instance : SFinite unif01 := by unfold unif01; infer_instance

lemma unif01_Iio (c : ℝ) (hc1 : c ≤ 1) : unif01 (Iio c) = ENNReal.ofReal c := by
  unfold unif01
  rw [Measure.restrict_apply measurableSet_Iio]
  have : Iio c ∩ Ico 0 1 = Ico 0 c := by
    ext u
    simp only [mem_inter_iff, mem_Iio, mem_Ico]
    constructor
    · rintro ⟨h1, h2, _⟩; exact ⟨h2, h1⟩
    · rintro ⟨h1, h2⟩; exact ⟨h2, h1, lt_of_lt_of_le h2 hc1⟩
  rw [this, Real.volume_Ico, sub_zero]

lemma measurableSet_accept (eb : α → ℝ) (heb : Measurable eb) : MeasurableSet {p : α × ℝ | p.2 < eb p.1} :=
  measurableSet_lt measurable_snd (heb.comp measurable_fst)

lemma rejection_accepted_mass' (μ : Measure α) [SFinite μ] (eb : α → ℝ) (heb : Measurable eb)
    (_h0 : ∀ t, 0 ≤ eb t) (h1 : ∀ t, eb t ≤ 1) (S : Set α) (hS : MeasurableSet S) :
    (μ.prod unif01) {p | p.1 ∈ S ∧ p.2 < eb p.1} = ∫⁻ t in S, ENNReal.ofReal (eb t) ∂μ := by
  have hmeas : MeasurableSet {p : α × ℝ | p.1 ∈ S ∧ p.2 < eb p.1} :=
    (measurable_fst hS).inter (measurableSet_accept eb heb)
  rw [Measure.prod_apply hmeas, ← lintegral_indicator hS]
  congr 1
  ext t
  by_cases ht : t ∈ S
  · have : Prod.mk t ⁻¹' {p : α × ℝ | p.1 ∈ S ∧ p.2 < eb p.1} = Iio (eb t) := by
      ext u; simp [ht]
    rw [this, unif01_Iio _ (h1 t), indicator_of_mem ht]
  · have : Prod.mk t ⁻¹' {p : α × ℝ | p.1 ∈ S ∧ p.2 < eb p.1} = ∅ := by
      ext u; simp [ht]
    rw [this, measure_empty, indicator_of_notMem ht]

lemma unif01_Iio_min (c : ℝ) : unif01 (Iio c) = ENNReal.ofReal (min c 1) := by
  unfold unif01
  rw [Measure.restrict_apply measurableSet_Iio]
  have : Iio c ∩ Ico 0 1 = Ico 0 (min c 1) := by
    ext u
    simp only [mem_inter_iff, mem_Iio, mem_Ico, lt_min_iff]
    constructor
    · rintro ⟨h1, h2, h3⟩; exact ⟨h2, h1, h3⟩
    · rintro ⟨h1, h2, h3⟩; exact ⟨h2, h1, h3⟩
  rw [this, Real.volume_Ico, sub_zero]

lemma rejection_accepted_mass_capped' (μ : Measure α) [SFinite μ] (eb : α → ℝ) (heb : Measurable eb)
    (S : Set α) (hS : MeasurableSet S) :
    (μ.prod unif01) {p | p.1 ∈ S ∧ p.2 < eb p.1} = ∫⁻ t in S, ENNReal.ofReal (min (eb t) 1) ∂μ := by
  have hmeas : MeasurableSet {p : α × ℝ | p.1 ∈ S ∧ p.2 < eb p.1} :=
    (measurable_fst hS).inter (measurableSet_accept eb heb)
  rw [Measure.prod_apply hmeas, ← lintegral_indicator hS]
  congr 1
  ext t
  by_cases ht : t ∈ S
  · have : Prod.mk t ⁻¹' {p : α × ℝ | p.1 ∈ S ∧ p.2 < eb p.1} = Iio (eb t) := by
      ext u; simp [ht]
    rw [this, unif01_Iio_min, indicator_of_mem ht]
  · have : Prod.mk t ⁻¹' {p : α × ℝ | p.1 ∈ S ∧ p.2 < eb p.1} = ∅ := by
      ext u; simp [ht]
    rw [this, measure_empty, indicator_of_notMem ht]

lemma rejection_accepted_law' (lam : Measure α) [SFinite lam] (g f eb : α → ℝ) (c : ℝ) (hc : 0 ≤ c)
    (hg : Measurable g) (heb : Measurable eb) (h0 : ∀ t, 0 ≤ eb t) (h1 : ∀ t, eb t ≤ 1)
    (hg0 : ∀ t, 0 ≤ g t) (hid : ∀ t, g t * eb t = c * f t) :
    (((lam.withDensity fun t => ENNReal.ofReal (g t)).prod unif01).restrict {p | p.2 < eb p.1}).map Prod.fst
      = ENNReal.ofReal c • lam.withDensity fun t => ENNReal.ofReal (f t) := by
  ext S hS
  rw [Measure.map_apply measurable_fst hS, Measure.restrict_apply (measurable_fst hS)]
  have hset : Prod.fst ⁻¹' S ∩ {p : α × ℝ | p.2 < eb p.1} = {p | p.1 ∈ S ∧ p.2 < eb p.1} := by
    ext p; simp
  rw [hset, rejection_accepted_mass' _ eb heb h0 h1 S hS]
  have hgm : Measurable fun t => ENNReal.ofReal (g t) := hg.ennreal_ofReal
  rw [setLIntegral_withDensity_eq_setLIntegral_mul _ hgm heb.ennreal_ofReal hS]
  rw [Measure.smul_apply, withDensity_apply _ hS, smul_eq_mul, ← lintegral_const_mul' _ _ ENNReal.ofReal_ne_top]
  congr 1
  ext t
  simp only [Pi.mul_apply]
  rw [← ENNReal.ofReal_mul (hg0 t), hid t, ENNReal.ofReal_mul hc]

lemma rejection_cond_law' (lam : Measure α) [SFinite lam] (g f eb : α → ℝ) (c : ℝ) (hc : 0 < c)
    (hg : Measurable g) (heb : Measurable eb) (h0 : ∀ t, 0 ≤ eb t) (h1 : ∀ t, eb t ≤ 1)
    (hg0 : ∀ t, 0 ≤ g t) (hid : ∀ t, g t * eb t = c * f t) :
    (ProbabilityTheory.cond ((lam.withDensity fun t => ENNReal.ofReal (g t)).prod unif01) {p | p.2 < eb p.1}).map Prod.fst
      = ((lam.withDensity fun t => ENNReal.ofReal (f t)) univ)⁻¹ • lam.withDensity fun t => ENNReal.ofReal (f t) := by
  have hlaw := rejection_accepted_law' lam g f eb c hc.le hg heb h0 h1 hg0 hid
  set P := (lam.withDensity fun t => ENNReal.ofReal (g t)).prod unif01 with hP
  set Lf := lam.withDensity fun t => ENNReal.ofReal (f t) with hLf
  set A : Set (α × ℝ) := {p | p.2 < eb p.1} with hA
  have hmass : P A = ENNReal.ofReal c * Lf univ := by
    have h2 := congrArg (fun m : Measure α => m univ) hlaw
    simp only [Measure.smul_apply, smul_eq_mul] at h2
    rw [Measure.map_apply measurable_fst MeasurableSet.univ, preimage_univ, Measure.restrict_apply MeasurableSet.univ,
      univ_inter] at h2
    exact h2
  rw [ProbabilityTheory.cond, Measure.map_smul, hlaw, hmass, smul_smul]
  congr 1
  have hc0 : ENNReal.ofReal c ≠ 0 := by simpa using hc
  rw [ENNReal.mul_inv (Or.inl hc0) (Or.inl ENNReal.ofReal_ne_top), mul_comm, ← mul_assoc,
    ENNReal.mul_inv_cancel hc0 ENNReal.ofReal_ne_top, one_mul]

lemma rejection_loop_law' (acc : Measure α) (q : ℝ≥0∞) (L : ℕ → Measure α)
    (hL0 : L 0 = 0) (hL : ∀ n, L (n + 1) = acc + q • L n) (n : ℕ) :
    L n = (∑ k ∈ Finset.range n, q ^ k) • acc := by
  induction n with
  | zero => simp [hL0]
  | succ n ih =>
    rw [hL n, ih, Finset.sum_range_succ', smul_smul, add_smul, Finset.mul_sum, pow_zero, one_smul, add_comm]
    congr 2
    apply Finset.sum_congr rfl
    intro k _
    rw [pow_succ, mul_comm]

end CuqiVerif.C05
