import CuqiVerif.Proofs.C08_orbit
import Mathlib.Algebra.BigOperators.Fin
import Mathlib.MeasureTheory.Constructions.Pi
import Mathlib.MeasureTheory.Measure.Lebesgue.Basic
import Mathlib.Data.ENNReal.BigOperators
import Mathlib.Data.Rat.Cast.Lemmas

/-!
# C08 — probabilistic semantics of the draw script: definitions and helper lemmas

`Rnd α` is a randomised computation: a finite decision tree whose inner nodes `test p k` consume one
uniform draw `u` and continue with `k (u < p)`.  It has two interpretations:

* `Rnd.run d us` — the deterministic one on a concrete draw script `us` (same `popU` as the model);
* `Rnd.E d f` / `Rnd.outcomes d` — the probabilistic one: every test against the threshold `p`
  yields `true` with weight `p` and `false` with weight `1 - p`, independently per draw; the
  result is a finitely supported distribution with rational weights.

`buildTreeD`, `loopBodyD`, `loopD`, `nutsStepD` are `Model/C08.lean`'s `buildTree`, `loopBody`,
`loop`, `nutsStep` written in this monad (each test on a popped draw replaced by `Rnd.draw`).
-/

namespace CuqiVerif.C08

/-- randomised computation over uniform draws: `test p k` = pop a draw `u`, continue with `k (u < p)` -/
inductive Rnd (α : Type) where
  | ret : α → Rnd α
  | test : ℚ → (Bool → Rnd α) → Rnd α

namespace Rnd
variable {α β : Type}

def bind : Rnd α → (α → Rnd β) → Rnd β
  | ret a, f => f a
  | test p k, f => test p (fun b => (k b).bind f)

/-- one uniform draw tested against the threshold `p` -/
def draw (p : ℚ) : Rnd Bool := test p ret

/-- deterministic semantics on a concrete draw script: each `test p` pops the next draw `u` (with
    the model's `popU`) and branches on `u < p` -/
def run : Rnd α → List ℚ → α × List ℚ
  | ret a, us => (a, us)
  | test p k, us => run (k (decide ((popU us).1 < p))) (popU us).2

/-- probabilistic semantics: expectation of `f` when every `test p` yields `true` with weight `p`
    and `false` with weight `1 - p`, independently -/
def E : Rnd α → (α → ℚ) → ℚ
  | ret a, f => f a
  | test p k, f => p * E (k true) f + (1 - p) * E (k false) f

/-- the same distribution as an explicit finite list of (outcome, weight) pairs, one per path -/
def outcomes : Rnd α → List (α × ℚ)
  | ret a => [(a, 1)]
  | test p k => (outcomes (k true)).map (fun aw => (aw.1, p * aw.2))
      ++ (outcomes (k false)).map (fun aw => (aw.1, (1 - p) * aw.2))

/-- the tests met by the script `us`: thresholds and results, in order -/
def trace : Rnd α → List ℚ → List (ℚ × Bool)
  | ret _, _ => []
  | test p k, us => (p, decide ((popU us).1 < p)) :: trace (k (decide ((popU us).1 < p))) (popU us).2

/-- weight of one branch: `p` for `u < p`, `1 - p` for `u ≥ p` -/
def branchW (pb : ℚ × Bool) : ℚ := if pb.2 then pb.1 else 1 - pb.1

/-- weight of the path the script `us` takes: the product of its branch weights -/
def pathW (d : Rnd α) (us : List ℚ) : ℚ := ((d.trace us).map branchW).prod

/-- all thresholds are probabilities -/
def Valid : Rnd α → Prop
  | ret _ => True
  | test p k => 0 ≤ p ∧ p ≤ 1 ∧ ∀ b, Valid (k b)

/-- probability of the event `P` -/
def pr (d : Rnd α) (P : α → Prop) [DecidablePred P] : ℚ := d.E (fun a => if P a then 1 else 0)

lemma run_bind (d : Rnd α) (f : α → Rnd β) (us : List ℚ) :
    (d.bind f).run us = (f (d.run us).1).run (d.run us).2 := by
  induction d generalizing us with
  | ret a => rfl
  | test p k ih => simp only [bind, run, ih]

lemma run_draw (p : ℚ) (us : List ℚ) :
    (draw p).run us = (decide ((popU us).1 < p), (popU us).2) := rfl

lemma E_bind (d : Rnd α) (f : α → Rnd β) (g : β → ℚ) :
    (d.bind f).E g = d.E (fun a => (f a).E g) := by
  induction d with
  | ret a => rfl
  | test p k ih => simp only [bind, E, ih]

lemma E_draw (p : ℚ) (g : Bool → ℚ) : (draw p).E g = p * g true + (1 - p) * g false := rfl

lemma E_ret (a : α) (g : α → ℚ) : (ret a).E g = g a := rfl

lemma E_const (d : Rnd α) (x : ℚ) : d.E (fun _ => x) = x := by
  induction d with
  | ret a => rfl
  | test p k ih => simp only [E, ih]; ring

lemma E_add (d : Rnd α) (f g : α → ℚ) : d.E (fun a => f a + g a) = d.E f + d.E g := by
  induction d with
  | ret a => rfl
  | test p k ih => simp only [E, ih]; ring

lemma E_mul_left (d : Rnd α) (x : ℚ) (f : α → ℚ) : d.E (fun a => x * f a) = x * d.E f := by
  induction d with
  | ret a => rfl
  | test p k ih => simp only [E, ih]; ring

lemma E_nonneg (d : Rnd α) (hv : d.Valid) (f : α → ℚ) (hf : ∀ a, 0 ≤ f a) : 0 ≤ d.E f := by
  induction d with
  | ret a => exact hf a
  | test p k ih =>
    obtain ⟨h0, h1, hk⟩ := hv
    simp only [E]
    have := ih true (hk true); have := ih false (hk false)
    have : 0 ≤ 1 - p := by linarith
    positivity

lemma E_eq_outcomes (d : Rnd α) (f : α → ℚ) :
    d.E f = (d.outcomes.map (fun aw => aw.2 * f aw.1)).sum := by
  induction d with
  | ret a => simp [E, outcomes]
  | test p k ih =>
    simp only [E, outcomes, List.map_append, List.map_map, List.sum_append, ih]
    have h : ∀ (x : ℚ) (l : List (α × ℚ)),
        (l.map ((fun aw : α × ℚ => aw.2 * f aw.1) ∘ fun aw => (aw.1, x * aw.2))).sum
          = x * (l.map (fun aw => aw.2 * f aw.1)).sum := by
      intro x l
      induction l with
      | nil => simp
      | cons a l ihl => simp only [List.map_cons, List.sum_cons, ihl, Function.comp]; ring
    rw [h, h]

lemma run_mem_outcomes (d : Rnd α) (us : List ℚ) : ((d.run us).1, d.pathW us) ∈ d.outcomes := by
  induction d generalizing us with
  | ret a => simp [run, pathW, trace, outcomes]
  | test p k ih =>
    simp only [run, pathW, trace, outcomes, List.map_cons, List.prod_cons, List.mem_append, List.mem_map]
    by_cases h : (popU us).1 < p
    · left
      refine ⟨_, ih true (popU us).2, ?_⟩
      simp [h, branchW, pathW]
    · right
      refine ⟨_, ih false (popU us).2, ?_⟩
      simp [h, branchW, pathW]

lemma outcomes_weight_nonneg (d : Rnd α) (hv : d.Valid) : ∀ aw ∈ d.outcomes, 0 ≤ aw.2 := by
  induction d with
  | ret a => intro aw h; simp [outcomes] at h; rw [h]; norm_num
  | test p k ih =>
    obtain ⟨h0, h1, hk⟩ := hv
    intro aw h
    simp only [outcomes, List.mem_append, List.mem_map] at h
    rcases h with ⟨x, hx, rfl⟩ | ⟨x, hx, rfl⟩
    · exact mul_nonneg h0 (ih true (hk true) x hx)
    · exact mul_nonneg (by linarith) (ih false (hk false) x hx)

/-- two scripts whose draws fall on the same side of every threshold met give the same result -/
lemma run_eq_of_trace_eq (d : Rnd α) (us us' : List ℚ) (h : d.trace us = d.trace us') :
    (d.run us).1 = (d.run us').1 := by
  induction d generalizing us us' with
  | ret a => rfl
  | test p k ih =>
    simp only [trace, List.cons.injEq, Prod.mk.injEq, true_and] at h
    obtain ⟨h1, h2⟩ := h
    simp only [run]
    rw [← h1] at h2 ⊢
    exact ih _ _ _ h2

lemma valid_bind (d : Rnd α) (f : α → Rnd β) (hd : d.Valid) (hf : ∀ a, (f a).Valid) :
    (d.bind f).Valid := by
  induction d with
  | ret a => exact hf a
  | test p k ih =>
    obtain ⟨h0, h1, hk⟩ := hd
    exact ⟨h0, h1, fun b => ih b (hk b)⟩

lemma valid_draw (p : ℚ) (h0 : 0 ≤ p) (h1 : p ≤ 1) : (draw p).Valid := ⟨h0, h1, fun _ => trivial⟩

/-- an expectation only depends on the values of the integrand on the results of scripts -/
lemma E_congr_run (d : Rnd α) (f g : α → ℚ) (h : ∀ us, f (d.run us).1 = g (d.run us).1) :
    d.E f = d.E g := by
  induction d with
  | ret a => exact h []
  | test p k ih =>
    simp only [E]
    rw [ih true, ih false]
    · intro us
      have := h (p :: us)
      simpa [run, popU] using this
    · intro us
      have := h ((p - 1) :: us)
      simpa [run, popU] using this

end Rnd

/-! ## the model's tree recursion and doubling loop in the monad `Rnd` -/
section Model
variable {Z : Type}

/-- the combined tree of `buildTree`'s recursive case; `b` = "the second half's candidate is taken" -/
def joinTree (c : Ctx Z) (v : Int) (t1 t2 : Tree Z) (b : Bool) : Tree Z :=
  { zminus := if v = -1 then t2.zminus else t1.zminus,
    zplus := if v = -1 then t1.zplus else t2.zplus,
    cand := if b then t2.cand else t1.cand,
    n := t1.n + t2.n,
    s := t2.s && c.noUturn (if v = -1 then t2.zminus else t1.zminus) (if v = -1 then t1.zplus else t2.zplus),
    leaves := t1.leaves ++ t2.leaves,
    nodes := 1 + t1.nodes + t2.nodes,
    wts := t1.wts.map ((1 - secondProb t1.n t2.n) * ·) ++ t2.wts.map (secondProb t1.n t2.n * ·) }

/-- `buildTree` with every test `rand() < n2/max(1,n1+n2)` replaced by a Bernoulli choice of that
    probability (structure identical to `buildTree`) -/
def buildTreeD (c : Ctx Z) (v : Int) : Nat → Z → Rnd (Tree Z)
  | 0, z =>
    let z' := c.step v z
    .ret { zminus := z', zplus := z', cand := z', n := if inSlice c z' then 1 else 0,
           s := notDiverged c z', leaves := [z'], nodes := 1, wts := [1] }
  | j + 1, z =>
    (buildTreeD c v j z).bind fun t1 =>
      if t1.s then
        (buildTreeD c v j (if v = -1 then t1.zminus else t1.zplus)).bind fun t2 =>
          (Rnd.draw (secondProb t1.n t2.n)).bind fun b => .ret (joinTree c v t1 t2 b)
      else .ret { t1 with nodes := 1 + t1.nodes }

/-- the loop state after one doubling in direction `v` with new sub-tree `t` and acceptance verdict -/
def nextLoop (c : Ctx Z) (st : Loop Z) (v : Int) (t : Tree Z) (accept : Bool) (us : List Rat) : Loop Z :=
  { cur := if accept then t.cand else st.cur,
    zminus := if v = -1 then t.zminus else st.zminus,
    zplus := if v = -1 then st.zplus else t.zplus,
    j := st.j + 1,
    s := t.s && c.noUturn (if v = -1 then t.zminus else st.zminus) (if v = -1 then st.zplus else t.zplus),
    n := st.n + t.n,
    acc := st.acc || accept,
    last := t.leaves,
    nodes := st.nodes + t.nodes,
    us := us }

/-- `min(1, n'/n)` -/
def topProb (n n' : Nat) : ℚ := min 1 ((n' : ℚ) / (n : ℚ))

/-- what `loopBody` does after the new sub-tree `t` was built: the top-level test (a draw only if
    `s' = 1`), the guard, and the update of the loop state -/
def afterTree (c : Ctx Z) (guard : Z → Bool) (st : Loop Z) (v : Int) (t : Tree Z) : Rnd (Loop Z) :=
  (if t.s then (Rnd.draw (topProb st.n t.n)).bind fun a => .ret (a && guard t.cand)
    else .ret false).bind fun accept => .ret (nextLoop c st v t accept [])

/-- `loopBody` in the monad: fair coin for the direction, `buildTreeD`, and — only if `s' = 1` —
    a Bernoulli(`min(1, n'/n)`) choice for the top-level test.  (The field `us` of the state is
    not used: the monad threads the draws.) -/
def loopBodyD (c : Ctx Z) (guard : Z → Bool) (st : Loop Z) : Rnd (Loop Z) :=
  (Rnd.draw (1 / 2)).bind fun b =>
    (buildTreeD c (if b then 1 else -1) st.j
        (if (if b then (1 : Int) else -1) = -1 then st.zminus else st.zplus)).bind
      (afterTree c guard st (if b then 1 else -1))

/-- `loop` in the monad -/
def loopD (c : Ctx Z) (guard : Z → Bool) (maxDepth : Nat) : Nat → Loop Z → Rnd (Loop Z)
  | 0, st => .ret st
  | fuel + 1, st =>
    if st.s && decide (st.j ≤ maxDepth) then (loopBodyD c guard st).bind (loopD c guard maxDepth fuel)
    else .ret st

/-- `nutsStep` in the monad: the randomised transition of the model -/
def nutsStepD (c : Ctx Z) (guard : Z → Bool) (maxDepth : Nat) (z0 : Z) : Rnd (Loop Z) :=
  loopD c guard maxDepth (maxDepth + 1) (loopInit z0 [])

/-- overwrite the (unused) draw-script field of a loop state with the draws left over -/
def setUs (r : Loop Z × List Rat) : Loop Z := { r.1 with us := r.2 }

/-! ### (i) simulation: the executable model is the deterministic interpretation -/

lemma takeSecond_eq (u : ℚ) (n1 n2 : ℕ) : takeSecond u n1 n2 = decide (u < secondProb n1 n2) := by
  rw [Bool.eq_iff_iff, takeSecond_iff, decide_eq_true_iff]

lemma buildTreeD_run (c : Ctx Z) (v : Int) (j : ℕ) (z : Z) (us : List Rat) :
    (buildTreeD c v j z).run us = buildTree c v j z us := by
  induction j generalizing z us with
  | zero => rfl
  | succ j ih =>
    simp only [buildTreeD, buildTree, Rnd.run_bind, ih]
    generalize buildTree c v j z us = b1
    obtain ⟨t1, us1⟩ := b1
    by_cases hs : t1.s = true
    · simp only [hs, if_true, Rnd.run_bind, ih]
      generalize buildTree c v j (if v = -1 then t1.zminus else t1.zplus) us1 = b2
      obtain ⟨t2, us2⟩ := b2
      simp only [Rnd.run_draw, Rnd.run, joinTree, takeSecond_eq]
      rfl
    · simp only [hs]
      rfl

lemma topProb_test (u : ℚ) (n n' : ℕ) (hn : 0 < n) :
    (decide (u * (n : ℚ) < (n' : ℚ)) && decide (u < 1)) = decide (u < topProb n n') := by
  rw [Bool.eq_iff_iff, top_accept u n n' hn, decide_eq_true_iff]; rfl

lemma loopBodyD_run (c : Ctx Z) (guard : Z → Bool) (st : Loop Z) (hn : 0 < st.n) :
    setUs ((loopBodyD c guard st).run st.us) = loopBody c guard st := by
  simp only [loopBodyD, afterTree, loopBody, Rnd.run_bind, Rnd.run_draw, buildTreeD_run, decide_eq_true_eq]
  generalize (if (popU st.us).1 < 1 / 2 then (1 : Int) else -1) = v
  generalize buildTree c v st.j (if v = -1 then st.zminus else st.zplus) (popU st.us).2 = b
  obtain ⟨t, us1⟩ := b
  by_cases hts : t.s = true
  · simp only [hts, if_true, Rnd.run_bind, Rnd.run_draw, Rnd.run, setUs, nextLoop,
      topProb_test _ _ _ hn]
  · simp only [hts, setUs, nextLoop]
    rfl

lemma loopBodyD_us (c : Ctx Z) (guard : Z → Bool) (st : Loop Z) (x : List Rat) :
    loopBodyD c guard { st with us := x } = loopBodyD c guard st := rfl

lemma loopD_us (c : Ctx Z) (guard : Z → Bool) (md fuel : ℕ) (st : Loop Z) (x us : List Rat) :
    setUs ((loopD c guard md fuel { st with us := x }).run us) = setUs ((loopD c guard md fuel st).run us) := by
  cases fuel with
  | zero => rfl
  | succ fuel =>
    simp only [loopD, loopBodyD_us]
    split
    · rfl
    · rfl

lemma loopBody_n_pos (c : Ctx Z) (guard : Z → Bool) (st : Loop Z) (hn : 0 < st.n) :
    0 < (loopBody c guard st).n := by
  simp only [loopBody]; omega

lemma loopD_run (c : Ctx Z) (guard : Z → Bool) (md fuel : ℕ) (st : Loop Z) (hn : 0 < st.n) :
    setUs ((loopD c guard md fuel st).run st.us) = loop c guard md fuel st := by
  induction fuel generalizing st with
  | zero => rfl
  | succ fuel ih =>
    simp only [loopD, loop]
    split
    · rw [Rnd.run_bind, ← ih _ (loopBody_n_pos c guard st hn), ← loopBodyD_run c guard st hn]
      exact (loopD_us c guard md fuel ((loopBodyD c guard st).run st.us).1 _ _).symm
    · rfl

/-! ### (ii) the law of `buildTreeD`: deterministic skeleton, candidate distributed by `wts` -/

/-- `Σ_k ws[k] · h(ls[k])` over two aligned lists -/
def wsum : List Z → List ℚ → (Z → ℚ) → ℚ
  | y :: ls, w :: ws, h => w * h y + wsum ls ws h
  | [], _, _ => 0
  | _ :: _, [], _ => 0

/-- the tree with another candidate -/
def Tree.setCand (t : Tree Z) (y : Z) : Tree Z := { t with cand := y }

lemma wsum_append (l1 l2 : List Z) (w1 w2 : List ℚ) (h : Z → ℚ) (hl : w1.length = l1.length) :
    wsum (l1 ++ l2) (w1 ++ w2) h = wsum l1 w1 h + wsum l2 w2 h := by
  induction l1 generalizing w1 with
  | nil =>
    cases w1 with
    | nil => simp [wsum]
    | cons a w => simp at hl
  | cons y l ih =>
    cases w1 with
    | nil => simp at hl
    | cons a w =>
      simp only [List.cons_append, wsum, ih w (by simpa using hl)]; ring

lemma wsum_map_mul (l : List Z) (w : List ℚ) (a : ℚ) (h : Z → ℚ) :
    wsum l (w.map (a * ·)) h = a * wsum l w h := by
  induction l generalizing w with
  | nil => simp [wsum]
  | cons y l ih =>
    cases w with
    | nil => simp [wsum]
    | cons b w => simp only [List.map_cons, wsum, ih]; ring

lemma wsum_add (l : List Z) (w : List ℚ) (f g : Z → ℚ) :
    wsum l w (fun y => f y + g y) = wsum l w f + wsum l w g := by
  induction l generalizing w with
  | nil => simp [wsum]
  | cons y l ih =>
    cases w with
    | nil => simp [wsum]
    | cons b w => simp only [wsum, ih]; ring

lemma wsum_mul_left (l : List Z) (w : List ℚ) (a : ℚ) (f : Z → ℚ) :
    wsum l w (fun y => a * f y) = a * wsum l w f := by
  induction l generalizing w with
  | nil => simp [wsum]
  | cons y l ih =>
    cases w with
    | nil => simp [wsum]
    | cons b w => simp only [wsum, ih]; ring

lemma wsum_const (l : List Z) (w : List ℚ) (x : ℚ) (hl : w.length = l.length) :
    wsum l w (fun _ => x) = w.sum * x := by
  induction l generalizing w with
  | nil =>
    cases w with
    | nil => simp [wsum]
    | cons a w => simp at hl
  | cons y l ih =>
    cases w with
    | nil => simp at hl
    | cons b w => simp only [wsum, List.sum_cons, ih w (by simpa using hl)]; ring

lemma wsum_congr (l : List Z) (w : List ℚ) (f g : Z → ℚ) (h : ∀ y ∈ l, f y = g y) :
    wsum l w f = wsum l w g := by
  induction l generalizing w with
  | nil => simp [wsum]
  | cons y l ih =>
    cases w with
    | nil => simp [wsum]
    | cons b w =>
      simp only [wsum]
      rw [h y (by simp), ih w (fun y hy => h y (List.mem_cons_of_mem _ hy))]

/-- weights that are uniform on the in-slice leaves turn `wsum` into an average -/
lemma wsum_uniform (c : Ctx Z) (l : List Z) (w : List ℚ) (n : ℕ) (hu : UniformOn c l w n) (f : Z → ℚ) :
    wsum l w f = (1 / (n : ℚ)) * ((l.filter (inSlice c)).map f).sum := by
  unfold UniformOn at hu
  induction hu with
  | nil => simp [wsum]
  | @cons z w zs ws hw _ ih =>
    simp only [wsum, ih, hw]
    by_cases hz : inSlice c z = true
    · simp only [hz, if_true, List.filter_cons_of_pos, List.map_cons, List.sum_cons]; ring
    · simp only [hz, Bool.false_eq_true, if_false, zero_mul, zero_add]
      rw [List.filter_cons_of_neg (by simpa using hz)]

lemma buildTreeD_E (c : Ctx Z) (v : Int) (j : ℕ) (z : Z) (us : List Rat) (g : Tree Z → ℚ) :
    (buildTreeD c v j z).E g =
      wsum (buildTree c v j z us).1.leaves (buildTree c v j z us).1.wts
        (fun y => g ((buildTree c v j z us).1.setCand y)) := by
  induction j generalizing z us g with
  | zero => simp [buildTreeD, buildTree, Rnd.E, wsum, Tree.setCand]
  | succ j ih =>
    simp only [buildTreeD, buildTree, Rnd.E_bind]
    rw [ih z us]
    have V1 := buildTree_inv c v j z us
    have S1 := wts_sum_one c v j z us
    generalize buildTree c v j z us = b1 at V1 S1 ⊢
    obtain ⟨t1, us1⟩ := b1
    simp only at V1 S1 ⊢
    by_cases hs : t1.s = true
    · simp only [hs, if_true, Tree.setCand, Rnd.E_bind]
      have e : ∀ g' : Tree Z → ℚ, (buildTreeD c v j (if v = -1 then t1.zminus else t1.zplus)).E g' = _ :=
        fun g' => ih (if v = -1 then t1.zminus else t1.zplus) us1 g'
      simp only [e]
      have V2 := buildTree_inv c v j (if v = -1 then t1.zminus else t1.zplus) us1
      have S2 := wts_sum_one c v j (if v = -1 then t1.zminus else t1.zplus) us1
      generalize buildTree c v j (if v = -1 then t1.zminus else t1.zplus) us1 = b2 at V2 S2 ⊢
      obtain ⟨t2, us2⟩ := b2
      simp only at V2 S2 ⊢
      simp only [Rnd.E_draw, Rnd.E_ret, joinTree, Tree.setCand, if_true, Bool.false_eq_true, if_false]
      rw [wsum_append _ _ _ _ _ (by simp [V1.wts_len]), wsum_map_mul, wsum_map_mul]
      simp only [wsum_add, wsum_mul_left, wsum_const _ _ _ V2.wts_len, wsum_const _ _ _ V1.wts_len, S1, S2]
      ring
    · simp only [hs, Bool.false_eq_true, if_false, Tree.setCand, Rnd.E_ret]

/-! ### all thresholds are probabilities -/

lemma secondProb_mem (n1 n2 : ℕ) : 0 ≤ secondProb n1 n2 ∧ secondProb n1 n2 ≤ 1 := by
  unfold secondProb
  have hpos : (0 : ℚ) < ((max 1 (n1 + n2) : ℕ) : ℚ) := by
    have : 0 < max 1 (n1 + n2) := by omega
    exact_mod_cast this
  refine ⟨by positivity, ?_⟩
  rw [div_le_one hpos]
  have : n2 ≤ max 1 (n1 + n2) := by omega
  exact_mod_cast this

lemma topProb_mem (n n' : ℕ) : 0 ≤ topProb n n' ∧ topProb n n' ≤ 1 := by
  unfold topProb
  exact ⟨le_min (by norm_num) (by positivity), min_le_left _ _⟩

lemma buildTreeD_valid (c : Ctx Z) (v : Int) (j : ℕ) (z : Z) : (buildTreeD c v j z).Valid := by
  induction j generalizing z with
  | zero => trivial
  | succ j ih =>
    simp only [buildTreeD]
    apply Rnd.valid_bind _ _ (ih z)
    intro t1
    split
    · apply Rnd.valid_bind _ _ (ih _)
      intro t2
      apply Rnd.valid_bind _ _ (Rnd.valid_draw _ (secondProb_mem _ _).1 (secondProb_mem _ _).2)
      intro b; trivial
    · trivial

lemma loopBodyD_valid (c : Ctx Z) (guard : Z → Bool) (st : Loop Z) : (loopBodyD c guard st).Valid := by
  unfold loopBodyD
  apply Rnd.valid_bind _ _ (Rnd.valid_draw _ (by norm_num) (by norm_num))
  intro b
  apply Rnd.valid_bind _ _ (buildTreeD_valid c _ _ _)
  intro t
  unfold afterTree
  apply Rnd.valid_bind
  · split
    · apply Rnd.valid_bind _ _ (Rnd.valid_draw _ (topProb_mem _ _).1 (topProb_mem _ _).2)
      intro a; trivial
    · trivial
  · intro a; trivial

lemma loopD_valid (c : Ctx Z) (guard : Z → Bool) (md fuel : ℕ) (st : Loop Z) :
    (loopD c guard md fuel st).Valid := by
  induction fuel generalizing st with
  | zero => trivial
  | succ fuel ih =>
    simp only [loopD]
    split
    · exact Rnd.valid_bind _ _ (loopBodyD_valid c guard st) (fun a => ih a)
    · trivial

end Model

/-! ### (iii) the law of the final state of the randomised loop is the orbit-level kernel -/

section Law
open Finset

/-- one doubling seen from the future: expected value of `V` at the index after the doubling
    (old block at `lo`, new half at `nlo`), given the current index `i` -/
def Orb.mix (o : Orb) (j : ℕ) (lo nlo : ℤ) (V : ℤ → ℚ) (i : ℤ) : ℚ :=
  o.stay j lo nlo * V i + o.acc j lo nlo * ∑ t ∈ range (2 ^ j), o.unif nlo j (nlo + t) * V (nlo + t)

/-- value function of the orbit-level loop: expected value of `h` at the final index when `r` more
    doublings are allowed, the visited block is `[lo, lo + 2^j)`, the continuation flag is `s` and
    the current index is `i` -/
def Orb.val (o : Orb) (h : ℤ → ℚ) : ℕ → ℤ → ℕ → Bool → ℤ → ℚ
  | 0, _, _, _ => h
  | r + 1, lo, j, s => fun i =>
    if s = true then
      1 / 2 * o.mix j lo (lo - 2 ^ j)
          (o.val h r (lo - 2 ^ j) (j + 1) (o.good j (lo - 2 ^ j) && o.ut (j + 1) (lo - 2 ^ j))) i
      + 1 / 2 * o.mix j lo (lo + 2 ^ j)
          (o.val h r lo (j + 1) (o.good j (lo + 2 ^ j) && o.ut (j + 1) lo)) i
    else h i

lemma Orb.val_false (o : Orb) (h : ℤ → ℚ) (r : ℕ) (lo : ℤ) (j : ℕ) (i : ℤ) : o.val h r lo j false i = h i := by
  cases r <;> simp [Orb.val]

lemma Orb.sum_unif_mul_window (o : Orb) (a : ℤ) (j : ℕ) (V : ℤ → ℚ) (W : Finset ℤ)
    (hW : Finset.Ico a (a + 2 ^ j) ⊆ W) :
    ∑ k ∈ W, o.unif a j k * V k = ∑ t ∈ range (2 ^ j), o.unif a j (a + t) * V (a + t) := by
  have h1 : ∑ k ∈ Finset.Ico a (a + 2 ^ j), o.unif a j k * V k = ∑ k ∈ W, o.unif a j k * V k := by
    apply Finset.sum_subset hW
    intro k _ hk
    rw [o.unif_out a j k (by intro h; apply hk; simp only [Finset.mem_Ico]; exact h), zero_mul]
  rw [← h1]
  have := sum_Ico_eq_range (fun k => o.unif a j k * V k) a (2 ^ j)
  push_cast at this
  exact this

lemma Orb.mix_dual (o : Orb) (j : ℕ) (lo nlo : ℤ) (V dist : ℤ → ℚ) (W : Finset ℤ)
    (hW : Finset.Ico nlo (nlo + 2 ^ j) ⊆ W) (hm : ∑ k ∈ W, dist k = 1) :
    ∑ i ∈ W, (o.stay j lo nlo * dist i + o.acc j lo nlo * o.unif nlo j i) * V i
      = ∑ i ∈ W, dist i * o.mix j lo nlo V i := by
  have hL : ∑ i ∈ W, (o.stay j lo nlo * dist i + o.acc j lo nlo * o.unif nlo j i) * V i
      = o.stay j lo nlo * ∑ i ∈ W, dist i * V i + o.acc j lo nlo * ∑ i ∈ W, o.unif nlo j i * V i := by
    rw [Finset.mul_sum, Finset.mul_sum, ← Finset.sum_add_distrib]
    apply Finset.sum_congr rfl; intro i _; ring
  have hR : ∑ i ∈ W, dist i * o.mix j lo nlo V i
      = o.stay j lo nlo * ∑ i ∈ W, dist i * V i
        + (∑ i ∈ W, dist i) * (o.acc j lo nlo * ∑ t ∈ range (2 ^ j), o.unif nlo j (nlo + t) * V (nlo + t)) := by
    rw [Finset.mul_sum, Finset.sum_mul, ← Finset.sum_add_distrib]
    apply Finset.sum_congr rfl; intro i _; unfold Orb.mix; ring
  rw [hL, hR, hm, o.sum_unif_mul_window nlo j V W hW, one_mul]

/-- **duality** between the forward law `Orb.walk` and the value function `Orb.val` -/
lemma Orb.walk_val (o : Orb) (h : ℤ → ℚ) (r : ℕ) (st : OSt) (W : Finset ℤ)
    (hW : Finset.Ico (st.lo + 2 ^ st.j - 2 ^ (st.j + r)) (st.lo + 2 ^ (st.j + r)) ⊆ W)
    (hm : ∑ k ∈ W, st.dist k = 1) :
    ∑ k ∈ W, o.walk r st k * h k = ∑ i ∈ W, st.dist i * o.val h r st.lo st.j st.s i := by
  induction r generalizing st with
  | zero => rfl
  | succ r ih =>
    by_cases hs : st.s = true
    · have hT : (2 : ℤ) ^ (st.j + 1 + r) = 2 ^ (st.j + (r + 1)) := by congr 1; omega
      have hX : (2 : ℤ) ^ (st.j + 1) = 2 * 2 ^ st.j := by rw [pow_succ]; ring
      have hXpos : (0 : ℤ) < 2 ^ st.j := by positivity
      have hTX : (2 : ℤ) * 2 ^ st.j ≤ 2 ^ (st.j + (r + 1)) := by
        rw [← hX]; exact pow_le_pow_right₀ (by norm_num) (by omega)
      have hWb : ∀ b : Bool, Finset.Ico (if b then st.lo - 2 ^ st.j else st.lo + 2 ^ st.j)
          ((if b then st.lo - 2 ^ st.j else st.lo + 2 ^ st.j) + 2 ^ st.j) ⊆ W := by
        intro b
        refine subset_trans ?_ hW
        apply Finset.Ico_subset_Ico
        · cases b <;> simp only [if_true, Bool.false_eq_true, if_false] <;> linarith
        · cases b <;> simp only [if_true, Bool.false_eq_true, if_false] <;> linarith
      have hbody : ∀ b, ∑ k ∈ W, o.walk r (o.body b st) k * h k
          = ∑ i ∈ W, (o.body b st).dist i * o.val h r (o.body b st).lo (o.body b st).j (o.body b st).s i := by
        intro b
        apply ih
        · refine subset_trans ?_ hW
          apply Finset.Ico_subset_Ico
          · cases b <;> simp only [Orb.body, hT, hX, if_true, Bool.false_eq_true, if_false] <;> linarith
          · cases b <;> simp only [Orb.body, hT, if_true, Bool.false_eq_true, if_false] <;> linarith
        · exact o.body_mass b st W (hWb b) hm
      have hsplit : ∑ k ∈ W, o.walk (r + 1) st k * h k
          = 1 / 2 * ∑ k ∈ W, o.walk r (o.body true st) k * h k
            + 1 / 2 * ∑ k ∈ W, o.walk r (o.body false st) k * h k := by
        simp only [Orb.walk, hs, if_true]
        rw [Finset.mul_sum, Finset.mul_sum, ← Finset.sum_add_distrib]
        apply Finset.sum_congr rfl; intro k _; ring
      rw [hsplit, hbody true, hbody false]
      have e1 := o.mix_dual st.j st.lo (st.lo - 2 ^ st.j)
        (o.val h r (st.lo - 2 ^ st.j) (st.j + 1) (o.good st.j (st.lo - 2 ^ st.j) && o.ut (st.j + 1) (st.lo - 2 ^ st.j)))
        st.dist W (by simpa using hWb true) hm
      have e2 := o.mix_dual st.j st.lo (st.lo + 2 ^ st.j)
        (o.val h r st.lo (st.j + 1) (o.good st.j (st.lo + 2 ^ st.j) && o.ut (st.j + 1) st.lo))
        st.dist W (by simpa using hWb false) hm
      simp only [Orb.body, if_true, Bool.false_eq_true, if_false]
      rw [e1, e2]
      simp only [Orb.val, hs, if_true]
      rw [Finset.mul_sum, Finset.mul_sum, ← Finset.sum_add_distrib]
      apply Finset.sum_congr rfl; intro k _; ring
    · simp only [Orb.walk, hs, Orb.val_false]
      rfl

end Law

/-! ### the model side: one doubling of the randomised loop is `Orb.mix` -/
section ModelLaw
open Finset
variable {Z : Type}

lemma setCand_s (t : Tree Z) (y : Z) : (t.setCand y).s = t.s := rfl
lemma setCand_n (t : Tree Z) (y : Z) : (t.setCand y).n = t.n := rfl
lemma setCand_cand (t : Tree Z) (y : Z) : (t.setCand y).cand = y := rfl

lemma afterTree_E (c : Ctx Z) (guard : Z → Bool) (st : Loop Z) (v : Int) (t : Tree Z) (K : Loop Z → ℚ) :
    (afterTree c guard st v t).E K =
      if t.s = true then
        topProb st.n t.n * K (nextLoop c st v t (guard t.cand) [])
          + (1 - topProb st.n t.n) * K (nextLoop c st v t false [])
      else K (nextLoop c st v t false []) := by
  unfold afterTree
  by_cases hs : t.s = true
  · simp only [hs, if_true, Rnd.E_bind, Rnd.E_draw, Rnd.E_ret, Bool.true_and, Bool.false_and]
  · simp only [hs, Bool.false_eq_true, if_false, Rnd.E_bind, Rnd.E_ret]

lemma single_fsum (c : Ctx Z) (z0 : Z) (F : Z → ℚ) (x : ℤ) :
    (([pt c z0 x].filter (inSlice c)).map F).sum
      = if sliceAt c z0 x = true then F (pt c z0 x) else 0 := by
  by_cases hs : sliceAt c z0 x = true
  · have hs' : inSlice c (pt c z0 x) = true := hs
    simp [hs, hs']
  · have hs' : ¬ inSlice c (pt c z0 x) = true := hs
    simp [hs, hs']

lemma orbit_fsum_fwd (c : Ctx Z) (h : StepInverse c) (z0 : Z) (F : Z → ℚ) (k : ℤ) (n : ℕ) :
    (((orbit c 1 (pt c z0 k) n).filter (inSlice c)).map F).sum
      = ∑ t ∈ range n, if sliceAt c z0 (k + 1 + t) = true then F (pt c z0 (k + 1 + t)) else 0 := by
  induction n with
  | zero => simp [orbit]
  | succ n ih =>
    rw [orbit_succ_last, List.filter_append, List.map_append, List.sum_append, ih,
      Finset.sum_range_succ, iterate_pt c h z0 1 (Or.inl rfl)]
    congr 1
    have : k + 1 * ((n + 1 : ℕ) : ℤ) = k + 1 + n := by push_cast; ring
    rw [this]
    exact single_fsum c z0 F _

lemma orbit_fsum_bwd (c : Ctx Z) (h : StepInverse c) (z0 : Z) (F : Z → ℚ) (k : ℤ) (n : ℕ) :
    (((orbit c (-1) (pt c z0 k) n).filter (inSlice c)).map F).sum
      = ∑ t ∈ range n, if sliceAt c z0 (k - n + t) = true then F (pt c z0 (k - n + t)) else 0 := by
  induction n with
  | zero => simp [orbit]
  | succ n ih =>
    rw [orbit_succ_last, List.filter_append, List.map_append, List.sum_append, ih,
      iterate_pt c h z0 (-1) (Or.inr rfl), Finset.sum_range_succ']
    congr 1
    · apply Finset.sum_congr rfl; intro t _
      have : k - ((n + 1 : ℕ) : ℤ) + ((t + 1 : ℕ) : ℤ) = k - n + t := by push_cast; ring
      rw [this]
    · have e1 : k + -1 * ((n + 1 : ℕ) : ℤ) = k - ((n + 1 : ℕ) : ℤ) + ((0 : ℕ) : ℤ) := by push_cast; ring
      rw [e1]
      exact single_fsum c z0 F _

/-- a full sub-tree: `n'` is the in-slice count of its index block and the candidate law `wts`
    averages over the in-slice indices of the block -/
lemma tree_avg (c : Ctx Z) (hinv : StepInverse c) (z0 : Z) (v : ℤ) (hv : v = 1 ∨ v = -1) (j : ℕ)
    (k0 : ℤ) (us : List Rat) (hs : (buildTree c v j (pt c z0 k0) us).1.s = true) :
    (buildTree c v j (pt c z0 k0) us).1.n = cnt (sliceAt c z0) (blockLo v k0 j) (2 ^ j) ∧
    (0 < (buildTree c v j (pt c z0 k0) us).1.n → ∀ F : Z → ℚ,
      wsum (buildTree c v j (pt c z0 k0) us).1.leaves (buildTree c v j (pt c z0 k0) us).1.wts F
        = (1 / ((buildTree c v j (pt c z0 k0) us).1.n : ℚ)) *
          ∑ t ∈ range (2 ^ j), if sliceAt c z0 (blockLo v k0 j + t) = true
            then F (pt c z0 (blockLo v k0 j + t)) else 0) := by
  have T := buildTree_inv c v j (pt c z0 k0) us
  have U := progressive_uniform c v j (pt c z0 k0) us
  generalize buildTree c v j (pt c z0 k0) us = b at T U hs ⊢
  obtain ⟨t, us1⟩ := b
  simp only at T U hs ⊢
  have hlen := T.len_full hs
  rcases hv with rfl | rfl
  · simp only [blockLo, show ((1 : ℤ) = -1) = False by decide, if_false]
    constructor
    · rw [T.count, T.leaves_orbit, orbit_count_fwd c hinv, hlen]
    · intro hn F
      rw [wsum_uniform c _ _ _ (U hn) F, T.leaves_orbit, orbit_fsum_fwd c hinv, hlen]
  · simp only [blockLo, if_true]
    have hc : ((2 ^ j : ℕ) : ℤ) = 2 ^ j := by push_cast; rfl
    constructor
    · rw [T.count, T.leaves_orbit, orbit_count_bwd c hinv, hlen, hc]
    · intro hn F
      rw [wsum_uniform c _ _ _ (U hn) F, T.leaves_orbit, orbit_fsum_bwd c hinv, hlen, hc]

lemma Orb.unif_at (o : Orb) (a : ℤ) (j t : ℕ) (ht : t < 2 ^ j) :
    o.unif a j (a + t) = if o.S (a + t) = true ∧ o.g (a + t) = true
      then 1 / (cnt o.S a (2 ^ j) : ℚ) else 0 := by
  have h1 : a ≤ a + (t : ℤ) := by omega
  have h2 : a + (t : ℤ) < a + 2 ^ j := by
    have : (t : ℤ) < ((2 ^ j : ℕ) : ℤ) := by exact_mod_cast ht
    push_cast at this; linarith
  unfold Orb.unif
  by_cases h : o.S (a + t) = true ∧ o.g (a + t) = true
  · rw [if_pos ⟨h1, h2, h.1, h.2⟩, if_pos h]
  · rw [if_neg (by intro h'; exact h ⟨h'.2.2.1, h'.2.2.2⟩), if_neg h]

lemma loopInv_count (c : Ctx Z) (z0 : Z) (st : Loop Z) (lo hi : ℤ) (I : LoopInv c z0 st lo hi)
    (hs : st.s = true) : st.n = cnt (sliceAt c z0) lo (2 ^ st.j) ∧ hi + 1 = lo + 2 ^ st.j := by
  have hfull := I.full hs
  refine ⟨?_, by linarith⟩
  rw [I.count, hfull]
  have : ((2 : ℤ) ^ st.j).toNat = 2 ^ st.j := by
    have : ((2 : ℤ) ^ st.j) = ((2 ^ st.j : ℕ) : ℤ) := by push_cast; rfl
    rw [this, Int.toNat_natCast]
  rw [this]

lemma topProb_zero (n : ℕ) : topProb n 0 = 0 := by
  unfold topProb; simp

/-- one direction of one doubling: build the new half, test, update — seen through any
    continuation `K` that depends on the new state only through the index of its current point -/
lemma dir_mix (c : Ctx Z) (hinv : StepInverse c) (guard : Z → Bool) (z0 : Z) (st : Loop Z) (lo hi i : ℤ)
    (I : LoopInv c z0 st lo hi) (hs : st.s = true) (hcur : st.cur = pt c z0 i)
    (v : ℤ) (hv : v = 1 ∨ v = -1) (K : Loop Z → ℚ) (V : ℤ → ℚ)
    (hK : ∀ (y : Z) (a : Bool) (i1 : ℤ),
      (nextLoop c st v ((buildTree c v st.j (if v = -1 then st.zminus else st.zplus) []).1.setCand y) a []).cur
        = pt c z0 i1 →
      K (nextLoop c st v ((buildTree c v st.j (if v = -1 then st.zminus else st.zplus) []).1.setCand y) a [])
        = V i1) :
    (buildTreeD c v st.j (if v = -1 then st.zminus else st.zplus)).E (fun t => (afterTree c guard st v t).E K)
      = (orbOf c guard z0).mix st.j lo (if v = -1 then lo - 2 ^ st.j else lo + 2 ^ st.j) V i := by
  obtain ⟨hn, hhi⟩ := loopInv_count c z0 st lo hi I hs
  rw [buildTreeD_E c v st.j _ []]
  have hstart : (if v = -1 then st.zminus else st.zplus) = pt c z0 (if v = -1 then lo else hi) := by
    split
    · exact I.zminus
    · exact I.zplus
  rw [hstart] at hK ⊢
  have hblock : blockLo v (if v = -1 then lo else hi) st.j
      = (if v = -1 then lo - 2 ^ st.j else lo + 2 ^ st.j) := by
    unfold blockLo
    split
    · rfl
    · exact hhi
  have T := buildTree_inv c v st.j (pt c z0 (if v = -1 then lo else hi)) []
  have S1 := wts_sum_one c v st.j (pt c z0 (if v = -1 then lo else hi)) []
  have G := (buildTree_good c hinv guard z0 v hv st.j (if v = -1 then lo else hi) []).1
  have A := tree_avg c hinv z0 v hv st.j (if v = -1 then lo else hi) []
  rw [hblock] at G A
  generalize (if v = -1 then lo - 2 ^ st.j else lo + 2 ^ st.j) = nlo at G A ⊢
  generalize buildTree c v st.j (pt c z0 (if v = -1 then lo else hi)) [] = r at T S1 G A hK ⊢
  obtain ⟨t0, us0⟩ := r
  simp only at T S1 G A hK ⊢
  simp only [afterTree_E, setCand_s, setCand_n, setCand_cand]
  have hKf : ∀ y, K (nextLoop c st v (t0.setCand y) false []) = V i := fun y => hK y false i hcur
  by_cases hts : t0.s = true
  · obtain ⟨hn', havg⟩ := A hts
    simp only [hts, if_true, hKf]
    have hKg : ∀ y, K (nextLoop c st v (t0.setCand y) (guard y) [])
        = if guard y = true then K (nextLoop c st v (t0.setCand y) true []) else V i := by
      intro y
      by_cases hg : guard y = true
      · rw [hg]; simp
      · have hg' : guard y = false := by simpa using hg
        rw [hg', hKf]; simp
    have e : wsum t0.leaves t0.wts (fun y => topProb st.n t0.n * K (nextLoop c st v (t0.setCand y) (guard y) [])
          + (1 - topProb st.n t0.n) * V i)
        = V i + topProb st.n t0.n * wsum t0.leaves t0.wts
            (fun y => if guard y = true then K (nextLoop c st v (t0.setCand y) true []) - V i else 0) := by
      have h1 : wsum t0.leaves t0.wts (fun y => topProb st.n t0.n * K (nextLoop c st v (t0.setCand y) (guard y) [])
            + (1 - topProb st.n t0.n) * V i)
          = wsum t0.leaves t0.wts (fun y => V i + topProb st.n t0.n *
              (if guard y = true then K (nextLoop c st v (t0.setCand y) true []) - V i else 0)) := by
        apply wsum_congr
        intro y _
        rw [hKg]
        split <;> ring
      rw [h1, wsum_add, wsum_const _ _ _ T.wts_len, S1, one_mul, wsum_mul_left]
    rw [e]
    have hmixacc : (orbOf c guard z0).acc st.j lo nlo = topProb st.n t0.n := by
      unfold Orb.acc topProb
      rw [← G, hts, if_pos rfl, hn, hn']
      rfl
    unfold Orb.mix Orb.stay
    rw [hmixacc]
    by_cases hpos : 0 < t0.n
    · rw [havg hpos]
      have hne : (t0.n : ℚ) ≠ 0 := by exact_mod_cast (ne_of_gt hpos)
      have hsum : (1 / (t0.n : ℚ)) * ∑ t ∈ range (2 ^ st.j),
            (if sliceAt c z0 (nlo + t) = true then
              (if guard (pt c z0 (nlo + t)) = true
                then K (nextLoop c st v (t0.setCand (pt c z0 (nlo + t))) true []) - V i else 0) else 0)
          = ∑ t ∈ range (2 ^ st.j), (orbOf c guard z0).unif nlo st.j (nlo + t) * (V (nlo + t) - V i) := by
        rw [Finset.mul_sum]
        apply Finset.sum_congr rfl
        intro t ht
        rw [Orb.unif_at _ _ _ _ (Finset.mem_range.mp ht)]
        have hKt : K (nextLoop c st v (t0.setCand (pt c z0 (nlo + t))) true []) = V (nlo + t) :=
          hK _ true _ rfl
        have hcnt : (cnt (orbOf c guard z0).S nlo (2 ^ st.j) : ℚ) = (t0.n : ℚ) := by
          rw [hn']; rfl
        rw [hKt, hcnt]
        show _ = (if sliceAt c z0 (nlo + t) = true ∧ guard (pt c z0 (nlo + t)) = true then _ else _) * _
        by_cases h1 : sliceAt c z0 (nlo + t) = true <;> by_cases h2 : guard (pt c z0 (nlo + t)) = true <;>
          simp [h1, h2]
      rw [hsum]
      simp only [mul_sub, Finset.sum_sub_distrib, ← Finset.sum_mul]
      ring
    · have h0 : t0.n = 0 := by omega
      rw [h0, topProb_zero]
      ring
  · have hf : t0.s = false := by simpa using hts
    simp only [hf, Bool.false_eq_true, if_false, hKf]
    rw [wsum_const _ _ _ T.wts_len, S1, one_mul]
    unfold Orb.mix Orb.stay Orb.acc
    rw [← G, hf]
    simp

lemma loopInv_congr (c : Ctx Z) (z0 : Z) (st st' : Loop Z) (lo hi : ℤ) (I : LoopInv c z0 st lo hi)
    (h1 : st'.zminus = st.zminus) (h2 : st'.zplus = st.zplus) (h3 : st'.n = st.n) (h4 : st'.s = st.s)
    (h5 : st'.j = st.j) : LoopInv c z0 st' lo hi :=
  ⟨I.lo_le, I.hi_ge, by rw [h1]; exact I.zminus, by rw [h2]; exact I.zplus, by rw [h3]; exact I.count,
    by rw [h4, h5]; exact I.full⟩

/-- the state produced by `nextLoop` from the tree of the empty script has the same skeleton as
    `loopBody` run on a one-draw script that picks the same direction -/
lemma loopBody_fields (c : Ctx Z) (guard : Z → Bool) (st : Loop Z) (b : Bool) (y : Z) (a : Bool) (x : List Rat) :
    let sts : Loop Z := { st with us := [if b then 0 else 1 / 2] }
    let st1 := nextLoop c st (if b then 1 else -1)
      ((buildTree c (if b then 1 else -1) st.j
        (if (if b then (1 : Int) else -1) = -1 then st.zminus else st.zplus) []).1.setCand y) a x
    st1.zminus = (loopBody c guard sts).zminus ∧ st1.zplus = (loopBody c guard sts).zplus ∧
      st1.n = (loopBody c guard sts).n ∧ st1.s = (loopBody c guard sts).s ∧
      st1.j = (loopBody c guard sts).j ∧ dirBit sts = !b := by
  cases b
  · simp [loopBody, nextLoop, popU, Tree.setCand, dirBit]
  · simp [loopBody, nextLoop, popU, Tree.setCand, dirBit]

lemma nextLoop_inv (c : Ctx Z) (hinv : StepInverse c) (guard : Z → Bool) (z0 : Z) (st : Loop Z) (lo hi : ℤ)
    (I : LoopInv c z0 st lo hi) (hs : st.s = true) (b : Bool) (y : Z) (a : Bool) (x : List Rat) :
    let st1 := nextLoop c st (if b then 1 else -1)
      ((buildTree c (if b then 1 else -1) st.j
        (if (if b then (1 : Int) else -1) = -1 then st.zminus else st.zplus) []).1.setCand y) a x
    st1.j = st.j + 1 ∧
    st1.s = ((orbOf c guard z0).good st.j (if b then lo + 2 ^ st.j else lo - 2 ^ st.j)
              && (orbOf c guard z0).ut (st.j + 1) (if b then lo else lo - 2 ^ st.j)) ∧
    (st1.s = true → ∃ hi', LoopInv c z0 st1 (if b then lo else lo - 2 ^ st.j) hi') := by
  intro st1
  obtain ⟨f1, f2, f3, f4, f5, f6⟩ := loopBody_fields c guard st b y a x
  have Is : LoopInv c z0 ({ st with us := [if b then 0 else 1 / 2] } : Loop Z) lo hi :=
    ⟨I.lo_le, I.hi_ge, I.zminus, I.zplus, I.count, I.full⟩
  have hS := loopBody_s c hinv guard z0 _ lo hi Is hs (fun _ => 0)
  obtain ⟨len, _, _, hfull, I'⟩ := loopBody_inv c hinv guard z0 _ lo hi Is hs
  refine ⟨rfl, ?_, ?_⟩
  · show st1.s = _
    rw [f4, hS, f6]
    cases b <;> simp [Orb.body]
  · intro h1
    have hl : len = 2 ^ st.j := hfull (by rw [← f4]; exact h1)
    rw [f6, hl] at I'
    have := loopInv_congr c z0 _ st1 _ _ I' f1 f2 f3 f4 f5
    refine ⟨if b then hi + 2 ^ st.j else hi, ?_⟩
    cases b
    · simpa using this
    · simpa using this

/-- **the randomised loop of the model computes the orbit-level value function** -/
lemma loopD_val (c : Ctx Z) (hinv : StepInverse c) (guard : Z → Bool) (z0 : Z) (md : ℕ) (h : Z → ℚ)
    (fuel : ℕ) : ∀ (st : Loop Z) (lo i : ℤ),
    st.j + fuel = md + 1 → (st.s = true → ∃ hi, LoopInv c z0 st lo hi) → st.cur = pt c z0 i →
    (loopD c guard md fuel st).E (fun st' => h st'.cur)
      = (orbOf c guard z0).val (fun k => h (pt c z0 k)) fuel lo st.j st.s i := by
  induction fuel with
  | zero =>
    intro st lo i _ _ hcur
    simp [loopD, Rnd.E, Orb.val, hcur]
  | succ fuel ih =>
    intro st lo i hj hI hcur
    by_cases hs : st.s = true
    · obtain ⟨hi, I⟩ := hI hs
      have hjle : st.j ≤ md := by omega
      have hdir : ∀ b : Bool,
          (buildTreeD c (if b then 1 else -1) st.j
              (if (if b then (1 : Int) else -1) = -1 then st.zminus else st.zplus)).E
            (fun t => (afterTree c guard st (if b then 1 else -1) t).E
              (fun st1 => (loopD c guard md fuel st1).E (fun st' => h st'.cur)))
          = (orbOf c guard z0).mix st.j lo
              (if (if b then (1 : Int) else -1) = -1 then lo - 2 ^ st.j else lo + 2 ^ st.j)
              ((orbOf c guard z0).val (fun k => h (pt c z0 k)) fuel (if b then lo else lo - 2 ^ st.j) (st.j + 1)
                ((orbOf c guard z0).good st.j (if b then lo + 2 ^ st.j else lo - 2 ^ st.j)
                  && (orbOf c guard z0).ut (st.j + 1) (if b then lo else lo - 2 ^ st.j))) i := by
        intro b
        apply dir_mix c hinv guard z0 st lo hi i I hs hcur (if b then 1 else -1) (by cases b <;> simp)
        intro y a i1 hc1
        obtain ⟨e1, e2, e3⟩ := nextLoop_inv c hinv guard z0 st lo hi I hs b y a []
        have := ih _ (if b then lo else lo - 2 ^ st.j) i1 (by rw [e1]; omega) e3 hc1
        rw [this, e1, e2]
      simp only [loopD, hs, hjle, decide_true, Bool.and_self, if_true, Rnd.E_bind]
      unfold loopBodyD
      simp only [Rnd.E_bind, Rnd.E_draw]
      have h1 := hdir true
      have h2 := hdir false
      simp only [if_true, Bool.false_eq_true, if_false] at h1 h2 ⊢
      rw [h1, h2]
      simp only [Orb.val, if_true, if_false, show ((1 : ℤ) = -1) = False by decide]
      ring
    · have hf : st.s = false := by simpa using hs
      simp only [loopD, hf, Bool.false_and, Bool.false_eq_true, if_false, Rnd.E, Orb.val_false, hcur]

end ModelLaw

/-! ### translation covariance of the orbit-level kernel (to start a transition at any index) -/
section Shift
open Finset

/-- `o'` is the trajectory `o` re-indexed so that its index `0` is the index `d` of `o` -/
structure Orb.IsShift (o' o : Orb) (d : ℤ) : Prop where
  S : ∀ k, o'.S k = o.S (k + d)
  nd : ∀ k, o'.nd k = o.nd (k + d)
  ut : ∀ j a, o'.ut j a = o.ut j (a + d)
  g : ∀ k, o'.g k = o.g (k + d)

variable {o' o : Orb} {d : ℤ}

lemma Orb.IsShift.good (h : o'.IsShift o d) (j : ℕ) : ∀ a, o'.good j a = o.good j (a + d) := by
  induction j with
  | zero => intro a; simp only [Orb.good, h.nd]
  | succ j ih =>
    intro a
    simp only [Orb.good, ih, h.ut]
    rw [show a + 2 ^ j + d = a + d + 2 ^ j by ring]

lemma Orb.IsShift.cnt (h : o'.IsShift o d) (a : ℤ) (n : ℕ) : cnt o'.S a n = cnt o.S (a + d) n := by
  unfold CuqiVerif.C08.cnt
  apply Finset.sum_congr rfl
  intro t _
  rw [h.S, show a + t + d = a + d + t by ring]

lemma Orb.IsShift.unif (h : o'.IsShift o d) (a : ℤ) (j : ℕ) (k : ℤ) :
    o'.unif a j k = o.unif (a + d) j (k + d) := by
  unfold Orb.unif
  rw [h.cnt, h.S, h.g]
  have : (a ≤ k ∧ k < a + 2 ^ j ∧ o.S (k + d) = true ∧ o.g (k + d) = true)
      ↔ (a + d ≤ k + d ∧ k + d < a + d + 2 ^ j ∧ o.S (k + d) = true ∧ o.g (k + d) = true) := by
    constructor
    · rintro ⟨h1, h2, h3, h4⟩; exact ⟨by linarith, by linarith, h3, h4⟩
    · rintro ⟨h1, h2, h3, h4⟩; exact ⟨by linarith, by linarith, h3, h4⟩
  rw [if_congr this rfl rfl]

lemma Orb.IsShift.acc (h : o'.IsShift o d) (j : ℕ) (aO aN : ℤ) :
    o'.acc j aO aN = o.acc j (aO + d) (aN + d) := by
  unfold Orb.acc
  rw [h.good, h.cnt, h.cnt]

lemma Orb.IsShift.stay (h : o'.IsShift o d) (j : ℕ) (aO aN : ℤ) :
    o'.stay j aO aN = o.stay j (aO + d) (aN + d) := by
  unfold Orb.stay
  rw [h.acc]
  congr 2
  apply Finset.sum_congr rfl
  intro t _
  rw [h.unif, show aN + t + d = aN + d + t by ring]

lemma Orb.IsShift.walk (h : o'.IsShift o d) (r : ℕ) : ∀ (st' st : OSt), st.lo = st'.lo + d → st.j = st'.j →
    st.s = st'.s → (∀ k, st'.dist k = st.dist (k + d)) → ∀ k, o'.walk r st' k = o.walk r st (k + d) := by
  induction r with
  | zero => intro st' st _ _ _ hd k; exact hd k
  | succ r ih =>
    intro st' st hlo hj hs hd k
    simp only [Orb.walk, hs]
    split
    · have hb : ∀ b, o'.walk r (o'.body b st') k = o.walk r (o.body b st) (k + d) := by
        intro b
        apply ih
        · cases b
          · simp only [Orb.body, hlo, Bool.false_eq_true, if_false]
          · simp only [Orb.body, hlo, hj, if_true]; ring
        · simp only [Orb.body, hj]
        · cases b
          · simp only [Orb.body, hlo, hj, Bool.false_eq_true, if_false, h.good, h.ut]
            rw [show st'.lo + 2 ^ st'.j + d = st'.lo + d + 2 ^ st'.j by ring]
          · simp only [Orb.body, hlo, hj, if_true, h.good, h.ut]
            rw [show st'.lo - 2 ^ st'.j + d = st'.lo + d - 2 ^ st'.j by ring]
        · intro x
          cases b
          · simp only [Orb.body, hlo, hj, Bool.false_eq_true, if_false, h.stay, h.acc, h.unif, hd]
            rw [show st'.lo + 2 ^ st'.j + d = st'.lo + d + 2 ^ st'.j by ring]
          · simp only [Orb.body, hlo, hj, if_true, h.stay, h.acc, h.unif, hd]
            rw [show st'.lo - 2 ^ st'.j + d = st'.lo + d - 2 ^ st'.j by ring]
      show 1 / 2 * o'.walk r (o'.body true st') k + 1 / 2 * o'.walk r (o'.body false st') k = _
      rw [hb true, hb false]
    · exact hd k

lemma Orb.IsShift.P (h : o'.IsShift o d) (M : ℕ) (i k : ℤ) : o'.P M i k = o.P M (i + d) (k + d) := by
  unfold Orb.P
  apply h.walk M (oinit i) (oinit (i + d)) rfl rfl rfl
  intro x
  simp only [oinit, add_left_inj]

end Shift

section ShiftModel
variable {Z : Type}

lemma pt_zero (c : Ctx Z) (z : Z) : pt c z 0 = z := rfl

lemma pt_add (c : Ctx Z) (h : StepInverse c) (z0 : Z) (i k : ℤ) : pt c (pt c z0 i) k = pt c z0 (i + k) := by
  induction k using Int.induction_on with
  | zero => rw [pt_zero, add_zero]
  | succ n ih =>
    rw [← pt_succ c h, ih, pt_succ c h]; congr 1; ring
  | pred n ih =>
    rw [← pt_pred c h, ih, pt_pred c h]; congr 1; ring

lemma orbOf_shift (c : Ctx Z) (h : StepInverse c) (guard : Z → Bool) (z0 : Z) (i0 : ℤ) :
    (orbOf c guard (pt c z0 i0)).IsShift (orbOf c guard z0) i0 := by
  constructor
  · intro k; simp only [orbOf, sliceAt, pt_add c h, add_comm]
  · intro k; simp only [orbOf, pt_add c h, add_comm]
  · intro j a; simp only [orbOf, pt_add c h]
    congr 2 <;> ring
  · intro k; simp only [orbOf, pt_add c h, add_comm]

end ShiftModel

/-! ### assembling: the law of the final state of `nutsStepD` -/
section Final
open Finset
variable {Z : Type}

lemma nutsStepD_law0 (c : Ctx Z) (hinv : StepInverse c) (guard : Z → Bool) (z0 : Z) (md : ℕ) (h : Z → ℚ)
    (h0 : inSlice c z0 = true) (W : Finset ℤ)
    (hW : Finset.Ico (1 - 2 ^ (md + 1)) (2 ^ (md + 1)) ⊆ W) :
    (nutsStepD c guard md z0).E (fun st => h st.cur)
      = ∑ k ∈ W, (orbOf c guard z0).P (md + 1) 0 k * h (pt c z0 k) := by
  unfold nutsStepD
  rw [loopD_val c hinv guard z0 md h (md + 1) (loopInit z0 []) 0 0 (by simp [loopInit])
    (fun _ => ⟨0, loopInit_inv c z0 [] h0⟩) rfl]
  unfold Orb.P
  have h0W : (0 : ℤ) ∈ W := by
    apply hW
    have : (0 : ℤ) < 2 ^ (md + 1) := by positivity
    simp only [Finset.mem_Ico]; omega
  rw [Orb.walk_val (orbOf c guard z0) (fun k => h (pt c z0 k)) (md + 1) (oinit 0) W
    (by simpa [oinit] using hW) (by simp only [oinit]; rw [Finset.sum_ite_eq' W 0]; simp [h0W])]
  simp only [oinit, ite_mul, one_mul, zero_mul]
  rw [Finset.sum_ite_eq' W 0, if_pos h0W]
  rfl

lemma nutsStepD_law_from (c : Ctx Z) (hinv : StepInverse c) (guard : Z → Bool) (z0 : Z) (md : ℕ) (h : Z → ℚ)
    (i0 : ℤ) (h0 : inSlice c (pt c z0 i0) = true) (W : Finset ℤ)
    (hW : Finset.Ico (i0 + 1 - 2 ^ (md + 1)) (i0 + 2 ^ (md + 1)) ⊆ W) :
    (nutsStepD c guard md (pt c z0 i0)).E (fun st => h st.cur)
      = ∑ k ∈ W, (orbOf c guard z0).P (md + 1) i0 k * h (pt c z0 k) := by
  have hsh := orbOf_shift c hinv guard z0 i0
  rw [nutsStepD_law0 c hinv guard (pt c z0 i0) md h h0 (W.image (fun k => k - i0))]
  · rw [Finset.sum_image (by intro x _ y _ hxy; simpa using hxy)]
    apply Finset.sum_congr rfl
    intro k _
    rw [hsh.P, pt_add c hinv, zero_add, sub_add_cancel, add_sub_cancel]
  · intro x hx
    simp only [Finset.mem_Ico] at hx
    rw [Finset.mem_image]
    refine ⟨x + i0, hW ?_, by ring⟩
    simp only [Finset.mem_Ico]; omega

lemma nutsStepD_prob [DecidableEq Z] (c : Ctx Z) (hinv : StepInverse c) (guard : Z → Bool) (z0 : Z) (md : ℕ)
    (hinj : Function.Injective (pt c z0)) (i k : ℤ) (hi : inSlice c (pt c z0 i) = true) :
    (nutsStepD c guard md (pt c z0 i)).E (fun st => if st.cur = pt c z0 k then 1 else 0)
      = (orbOf c guard z0).P (md + 1) i k := by
  rw [nutsStepD_law_from c hinv guard z0 md (fun z => if z = pt c z0 k then 1 else 0) i hi
    (insert k (Finset.Ico (i + 1 - 2 ^ (md + 1)) (i + 2 ^ (md + 1)))) (Finset.subset_insert _ _)]
  simp only [hinj.eq_iff, mul_ite, mul_one, mul_zero]
  rw [Finset.sum_ite_eq', if_pos (Finset.mem_insert_self _ _)]

end Final

/-! ### the link to Lebesgue measure: paths are boxes of draws, path weights their volumes -/
section Volume
open MeasureTheory
variable {α : Type}

/-- the draw `u` falls on the recorded side `pb.2` of the threshold `pb.1` -/
def sideOK (pb : ℚ × Bool) (u : ℝ) : Prop := (u < (pb.1 : ℝ)) ↔ pb.2 = true

/-- the script follows the path `π`: its `k`-th draw falls on the recorded side of the `k`-th threshold -/
def follows : List (ℚ × Bool) → List ℚ → Prop
  | [], _ => True
  | pb :: π, us => (decide ((popU us).1 < pb.1) = pb.2) ∧ follows π (popU us).2

lemma trace_eq_iff_follows (d : Rnd α) (us us' : List ℚ) :
    d.trace us' = d.trace us ↔ follows (d.trace us) us' := by
  induction d generalizing us us' with
  | ret a => simp [Rnd.trace, follows]
  | test p k ih =>
    simp only [Rnd.trace, follows, List.cons.injEq, Prod.mk.injEq, true_and]
    constructor
    · rintro ⟨h1, h2⟩
      rw [h1] at h2
      exact ⟨h1, (ih _ _ _).mp h2⟩
    · rintro ⟨h1, h2⟩
      refine ⟨h1, ?_⟩
      rw [h1]
      exact (ih _ _ _).mpr h2

lemma popU_eq (us : List ℚ) : popU us = (us.getD 0 (1 / 2), us.tail) := by
  cases us <;> rfl

lemma getD_tail' (us : List ℚ) (k : ℕ) (x : ℚ) : us.tail.getD k x = us.getD (k + 1) x := by
  cases us <;> simp

lemma follows_iff (π : List (ℚ × Bool)) : ∀ us : List ℚ,
    follows π us ↔ ∀ k : Fin π.length, sideOK (π.get k) ((us.getD k (1 / 2) : ℚ) : ℝ) := by
  induction π with
  | nil => intro us; simp [follows]
  | cons pb π ih =>
    intro us
    simp only [follows, ih, popU_eq, List.length_cons, Fin.forall_fin_succ, getD_tail']
    apply and_congr
    · simp only [sideOK, List.get_eq_getElem, Fin.val_zero, List.getElem_cons_zero, Rat.cast_lt]
      cases pb.2 <;> simp
    · rfl

/-- the draws in `[0,1)` on the `b`-side of the threshold `p` form an interval of length `branchW (p, b)` -/
lemma side_set (pb : ℚ × Bool) (h0 : 0 ≤ pb.1) (h1 : pb.1 ≤ 1) :
    {u : ℝ | 0 ≤ u ∧ u < 1 ∧ sideOK pb u}
      = Set.Ico (if pb.2 then 0 else (pb.1 : ℝ)) (if pb.2 then (pb.1 : ℝ) else 1) := by
  have h0' : (0 : ℝ) ≤ pb.1 := by exact_mod_cast h0
  have h1' : (pb.1 : ℝ) ≤ 1 := by exact_mod_cast h1
  ext u
  simp only [Set.mem_ofPred_eq, sideOK, Set.mem_Ico]
  cases pb.2
  · simp only [Bool.false_eq_true, iff_false, not_lt, if_false]
    constructor
    · rintro ⟨_, h2, h3⟩; exact ⟨h3, h2⟩
    · rintro ⟨h2, h3⟩; exact ⟨by linarith, h3, h2⟩
  · simp only [iff_true, if_true]
    constructor
    · rintro ⟨h2, _, h3⟩; exact ⟨h2, h3⟩
    · rintro ⟨h2, h3⟩; exact ⟨h2, by linarith, h3⟩

lemma branchW_eq (pb : ℚ × Bool) :
    ((Rnd.branchW pb : ℚ) : ℝ) = (if pb.2 then (pb.1 : ℝ) else 1) - (if pb.2 then 0 else (pb.1 : ℝ)) := by
  unfold Rnd.branchW
  cases pb.2 <;> simp

lemma branchW_nonneg (pb : ℚ × Bool) (h0 : 0 ≤ pb.1) (h1 : pb.1 ≤ 1) : 0 ≤ Rnd.branchW pb := by
  unfold Rnd.branchW
  split
  · exact h0
  · linarith

lemma box_volume (π : List (ℚ × Bool)) (hπ : ∀ pb ∈ π, 0 ≤ pb.1 ∧ pb.1 ≤ 1) :
    volume {x : Fin π.length → ℝ | ∀ k, 0 ≤ x k ∧ x k < 1 ∧ sideOK (π.get k) (x k)}
      = ENNReal.ofReal (((π.map Rnd.branchW).prod : ℚ) : ℝ) := by
  have hset : {x : Fin π.length → ℝ | ∀ k, 0 ≤ x k ∧ x k < 1 ∧ sideOK (π.get k) (x k)}
      = Set.pi Set.univ (fun k : Fin π.length =>
          Set.Ico (if (π.get k).2 then 0 else ((π.get k).1 : ℝ)) (if (π.get k).2 then ((π.get k).1 : ℝ) else 1)) := by
    ext x
    simp only [Set.mem_ofPred_eq, Set.mem_pi, Set.mem_univ, true_imp_iff]
    apply forall_congr'
    intro k
    have hk := hπ (π.get k) (List.get_mem π k)
    have := side_set (π.get k) hk.1 hk.2
    rw [Set.ext_iff] at this
    exact this (x k)
  rw [hset, Real.volume_pi_Ico]
  have hprod : (((π.map Rnd.branchW).prod : ℚ) : ℝ)
      = ∏ k : Fin π.length, ((Rnd.branchW (π.get k) : ℚ) : ℝ) := by
    have := Fin.prod_univ_fun_getElem π (fun pb => ((Rnd.branchW pb : ℚ) : ℝ))
    simp only [List.get_eq_getElem]
    rw [this, Rat.cast_list_prod, List.map_map]
    rfl
  rw [hprod, ENNReal.ofReal_prod_of_nonneg]
  · apply Finset.prod_congr rfl
    intro k _
    rw [branchW_eq]
  · intro k _
    have hk := hπ (π.get k) (List.get_mem π k)
    exact_mod_cast branchW_nonneg _ hk.1 hk.2

lemma trace_valid (d : Rnd α) (hv : d.Valid) (us : List ℚ) : ∀ pb ∈ d.trace us, 0 ≤ pb.1 ∧ pb.1 ≤ 1 := by
  induction d generalizing us with
  | ret a => intro pb h; simp [Rnd.trace] at h
  | test p k ih =>
    obtain ⟨h0, h1, hk⟩ := hv
    intro pb h
    simp only [Rnd.trace, List.mem_cons] at h
    rcases h with rfl | h
    · exact ⟨h0, h1⟩
    · exact ih _ (hk _) _ pb h

end Volume

section Misc
variable {Z : Type}

lemma inSlice_notDiverged (c : Ctx Z) (hd : 0 < c.deltaMax) (z : Z) (h : inSlice c z = true) :
    notDiverged c z = true := by
  unfold inSlice at h
  unfold notDiverged
  cases hh : c.ham z with
  | fin q =>
    rw [hh] at h
    simp only [XR.geRat, decide_eq_true_eq] at h
    simp only [XR.gtRatShift, decide_eq_true_eq]
    linarith
  | nan => rw [hh] at h; simp [XR.geRat] at h
  | pinf => rfl
  | ninf => rw [hh] at h; simp [XR.geRat] at h

end Misc

/-! ### the law is the push-forward of the uniform measure on draw vectors -/
section Pushforward
open MeasureTheory
variable {α : Type}

/-- deterministic interpretation on a vector of `n` real draws (a draw beyond the `n`-th is `1/2`,
    as `popU` does on an exhausted script) -/
noncomputable def Rnd.runR : Rnd α → (n : ℕ) → (Fin n → ℝ) → α
  | .ret a, _, _ => a
  | .test p k, 0, x => Rnd.runR (k (decide ((1 / 2 : ℝ) < (p : ℝ)))) 0 x
  | .test p k, n + 1, x => Rnd.runR (k (decide (x 0 < (p : ℝ)))) n (Fin.tail x)

/-- maximal number of draws consumed -/
def Rnd.depth : Rnd α → ℕ
  | .ret _ => 0
  | .test _ k => 1 + max (Rnd.depth (k true)) (Rnd.depth (k false))

/-- the unit cube `[0,1)^n` of draw vectors -/
def cube (n : ℕ) : Set (Fin n → ℝ) := {x | ∀ i, 0 ≤ x i ∧ x i < 1}

lemma cube_eq (n : ℕ) : cube n = Set.pi Set.univ (fun _ : Fin n => Set.Ico (0 : ℝ) 1) := by
  ext x; simp [cube, Set.mem_pi]

lemma cube_measurable (n : ℕ) : MeasurableSet (cube n) := by
  rw [cube_eq]; exact MeasurableSet.univ_pi (fun _ => measurableSet_Ico)

lemma cube_volume (n : ℕ) : volume (cube n) = 1 := by
  rw [cube_eq, Real.volume_pi_Ico]; simp

lemma e_apply (n : ℕ) (x : Fin (n + 1) → ℝ) :
    MeasurableEquiv.piFinSuccAbove (fun _ : Fin (n + 1) => ℝ) 0 x = (x 0, Fin.tail x) := by
  simp [MeasurableEquiv.piFinSuccAbove, Fin.insertNthEquiv]

lemma pr_test (p : ℚ) (k : Bool → Rnd α) (P : α → Prop) [DecidablePred P] :
    (Rnd.test p k).pr P = p * (k true).pr P + (1 - p) * (k false).pr P := rfl

lemma pr_nonneg (d : Rnd α) (hv : d.Valid) (P : α → Prop) [DecidablePred P] : 0 ≤ d.pr P :=
  d.E_nonneg hv _ (fun a => by split <;> norm_num)

lemma cell_split (n : ℕ) (p : ℚ) (h0 : 0 ≤ p) (h1 : p ≤ 1) (k : Bool → Rnd α) (P : α → Prop) :
    {x : Fin (n + 1) → ℝ | x ∈ cube (n + 1) ∧ P ((Rnd.test p k).runR (n + 1) x)}
      = (MeasurableEquiv.piFinSuccAbove (fun _ : Fin (n + 1) => ℝ) 0) ⁻¹'
          (Set.Ico 0 (p : ℝ) ×ˢ {y : Fin n → ℝ | y ∈ cube n ∧ P ((k true).runR n y)})
        ∪ (MeasurableEquiv.piFinSuccAbove (fun _ : Fin (n + 1) => ℝ) 0) ⁻¹'
          (Set.Ico (p : ℝ) 1 ×ˢ {y : Fin n → ℝ | y ∈ cube n ∧ P ((k false).runR n y)}) := by
  have h0' : (0 : ℝ) ≤ p := by exact_mod_cast h0
  have h1' : (p : ℝ) ≤ 1 := by exact_mod_cast h1
  ext x
  simp only [Set.mem_ofPred_eq, Set.mem_union, Set.mem_preimage, e_apply, Set.mem_prod, Set.mem_Ico,
    cube, Fin.forall_fin_succ, Rnd.runR, Fin.tail]
  by_cases hx : x 0 < (p : ℝ)
  · rw [decide_eq_true hx]
    constructor
    · rintro ⟨⟨⟨a, _⟩, b⟩, c⟩; exact Or.inl ⟨⟨a, hx⟩, b, c⟩
    · rintro (⟨⟨a, _⟩, b, c⟩ | ⟨⟨a, _⟩, _⟩)
      · exact ⟨⟨⟨a, by linarith⟩, b⟩, c⟩
      · linarith
  · rw [decide_eq_false hx]
    constructor
    · rintro ⟨⟨⟨_, a⟩, b⟩, c⟩; exact Or.inr ⟨⟨by linarith, a⟩, b, c⟩
    · rintro (⟨⟨_, a⟩, _⟩ | ⟨⟨a, a'⟩, b, c⟩)
      · exact absurd a hx
      · exact ⟨⟨⟨by linarith, a'⟩, b⟩, c⟩

lemma runR_law (d : Rnd α) (hv : d.Valid) (P : α → Prop) [DecidablePred P] :
    ∀ n, d.depth ≤ n → MeasurableSet {x : Fin n → ℝ | x ∈ cube n ∧ P (d.runR n x)} ∧
      volume {x : Fin n → ℝ | x ∈ cube n ∧ P (d.runR n x)} = ENNReal.ofReal ((d.pr P : ℚ) : ℝ) := by
  induction d with
  | ret a =>
    intro n _
    by_cases hP : P a
    · have : {x : Fin n → ℝ | x ∈ cube n ∧ P ((Rnd.ret a).runR n x)} = cube n := by
        ext x; simp [Rnd.runR, hP]
      rw [this]
      refine ⟨cube_measurable n, ?_⟩
      rw [cube_volume]; simp [Rnd.pr, Rnd.E, hP]
    · have : {x : Fin n → ℝ | x ∈ cube n ∧ P ((Rnd.ret a).runR n x)} = ∅ := by
        ext x; simp [Rnd.runR, hP]
      rw [this]
      refine ⟨MeasurableSet.empty, ?_⟩
      simp [Rnd.pr, Rnd.E, hP]
  | test p k ih =>
    obtain ⟨h0, h1, hk⟩ := hv
    intro n hn
    cases n with
    | zero => simp [Rnd.depth] at hn
    | succ n =>
      have hdT : (k true).depth ≤ n := by simp only [Rnd.depth] at hn; omega
      have hdF : (k false).depth ≤ n := by simp only [Rnd.depth] at hn; omega
      obtain ⟨mT, vT⟩ := ih true (hk true) n hdT
      obtain ⟨mF, vF⟩ := ih false (hk false) n hdF
      rw [cell_split n p h0 h1 k P]
      set e := MeasurableEquiv.piFinSuccAbove (fun _ : Fin (n + 1) => ℝ) 0
      have hmp := volume_preserving_piFinSuccAbove (fun _ : Fin (n + 1) => ℝ) 0
      have m1 : MeasurableSet (e ⁻¹' (Set.Ico 0 (p : ℝ) ×ˢ {y : Fin n → ℝ | y ∈ cube n ∧ P ((k true).runR n y)})) :=
        e.measurable (measurableSet_Ico.prod mT)
      have m2 : MeasurableSet (e ⁻¹' (Set.Ico (p : ℝ) 1 ×ˢ {y : Fin n → ℝ | y ∈ cube n ∧ P ((k false).runR n y)})) :=
        e.measurable (measurableSet_Ico.prod mF)
      refine ⟨m1.union m2, ?_⟩
      have hdisj : Disjoint (e ⁻¹' (Set.Ico 0 (p : ℝ) ×ˢ {y : Fin n → ℝ | y ∈ cube n ∧ P ((k true).runR n y)}))
          (e ⁻¹' (Set.Ico (p : ℝ) 1 ×ˢ {y : Fin n → ℝ | y ∈ cube n ∧ P ((k false).runR n y)})) := by
        rw [Set.disjoint_left]
        intro x hx1 hx2
        simp only [Set.mem_preimage, Set.mem_prod, Set.mem_Ico] at hx1 hx2
        linarith [hx1.1.2, hx2.1.1]
      rw [measure_union hdisj m2, hmp.measure_preimage_equiv, hmp.measure_preimage_equiv,
        Measure.volume_eq_prod, Measure.prod_prod, Measure.prod_prod, Real.volume_Ico, Real.volume_Ico, vT, vF,
        pr_test]
      have hT := pr_nonneg (k true) (hk true) P
      have hF := pr_nonneg (k false) (hk false) P
      have h0' : (0 : ℝ) ≤ p := by exact_mod_cast h0
      have h1'' : (p : ℝ) ≤ 1 := by exact_mod_cast h1
      have h1' : (0 : ℝ) ≤ 1 - p := by linarith
      have hT' : (0 : ℝ) ≤ ((k true).pr P : ℚ) := by exact_mod_cast hT
      have hF' : (0 : ℝ) ≤ ((k false).pr P : ℚ) := by exact_mod_cast hF
      rw [← ENNReal.ofReal_mul (by linarith), ← ENNReal.ofReal_mul h1',
        ← ENNReal.ofReal_add (by positivity) (by positivity)]
      congr 1
      push_cast
      ring

/-- on rational scripts the real-draw interpretation is the script interpretation `Rnd.run` -/
lemma run_runR (d : Rnd α) : ∀ us : List ℚ,
    (d.run us).1 = d.runR us.length (fun i => ((us.get i : ℚ) : ℝ)) := by
  induction d with
  | ret a => intro us; cases us <;> rfl
  | test p k ih =>
    intro us
    cases us with
    | nil =>
      have hd : decide ((1 / 2 : ℚ) < p) = decide ((1 / 2 : ℝ) < (p : ℝ)) := by
        rw [decide_eq_decide, ← Rat.cast_lt (K := ℝ)]; push_cast; rfl
      show ((k (decide ((1 / 2 : ℚ) < p))).run []).1
        = (k (decide ((1 / 2 : ℝ) < (p : ℝ)))).runR 0 (fun i => (((([] : List ℚ).get i : ℚ)) : ℝ))
      rw [ih _ [], hd]
      rfl
    | cons u rest =>
      have hd : decide (u < p) = decide ((u : ℝ) < (p : ℝ)) := by
        rw [decide_eq_decide, Rat.cast_lt]
      show ((k (decide (u < p))).run rest).1
        = (k (decide ((u : ℝ) < (p : ℝ)))).runR rest.length (fun i => ((rest.get i : ℚ) : ℝ))
      rw [ih _ rest, hd]

end Pushforward

end CuqiVerif.C08
