import CuqiVerif.Proofs.C08_orbit

/-!
# C08 — probabilistic semantics of the draw script: definitions and helper lemmas

`Rnd α` is a randomised computation: a finite decision tree whose inner nodes `test p k` consume one
uniform draw `u` and continue with `k (u < p)`.  It has two interpretations:

* `Rnd.run d us` — the deterministic one on a concrete draw script `us` (same `popU` as the model);
* `Rnd.E d f` / `Rnd.outcomes d` — the probabilistic one: every test against the threshold `p`
  yields `true` with weight `p` and `false` with weight `1 - p`, independently per draw; the
  result is a finitely supported distribution with rational weights.

`buildTreeD`, `loopBodyD`, `loopD`, `nutsStepD` are `Model/C08.lean`'s `buildTree`, `loopBody`,
`loop`, `nutsStep` written in this monad (each test on a popped draw replaced by `Rnd.draw`).
-/

namespace CuqiVerif.C08

/-- randomised computation over uniform draws: `test p k` = pop a draw `u`, continue with `k (u < p)` -/
inductive Rnd (α : Type) where
  | ret : α → Rnd α
  | test : ℚ → (Bool → Rnd α) → Rnd α

namespace Rnd
variable {α β : Type}

def bind : Rnd α → (α → Rnd β) → Rnd β
  | ret a, f => f a
  | test p k, f => test p (fun b => (k b).bind f)

/-- one uniform draw tested against the threshold `p` -/
def draw (p : ℚ) : Rnd Bool := test p ret

/-- deterministic semantics on a concrete draw script: each `test p` pops the next draw `u` (with
    the model's `popU`) and branches on `u < p` -/
def run : Rnd α → List ℚ → α × List ℚ
  | ret a, us => (a, us)
  | test p k, us => run (k (decide ((popU us).1 < p))) (popU us).2

/-- probabilistic semantics: expectation of `f` when every `test p` yields `true` with weight `p`
    and `false` with weight `1 - p`, independently -/
def E : Rnd α → (α → ℚ) → ℚ
  | ret a, f => f a
  | test p k, f => p * E (k true) f + (1 - p) * E (k false) f

/-- the same distribution as an explicit finite list of (outcome, weight) pairs, one per path -/
def outcomes : Rnd α → List (α × ℚ)
  | ret a => [(a, 1)]
  | test p k => (outcomes (k true)).map (fun aw => (aw.1, p * aw.2))
      ++ (outcomes (k false)).map (fun aw => (aw.1, (1 - p) * aw.2))

/-- the tests met by the script `us`: thresholds and results, in order -/
def trace : Rnd α → List ℚ → List (ℚ × Bool)
  | ret _, _ => []
  | test p k, us => (p, decide ((popU us).1 < p)) :: trace (k (decide ((popU us).1 < p))) (popU us).2

/-- weight of one branch: `p` for `u < p`, `1 - p` for `u ≥ p` -/
def branchW (pb : ℚ × Bool) : ℚ := if pb.2 then pb.1 else 1 - pb.1

/-- weight of the path the script `us` takes: the product of its branch weights -/
def pathW (d : Rnd α) (us : List ℚ) : ℚ := ((d.trace us).map branchW).prod

/-- all thresholds are probabilities -/
def Valid : Rnd α → Prop
  | ret _ => True
  | test p k => 0 ≤ p ∧ p ≤ 1 ∧ ∀ b, Valid (k b)

/-- probability of the event `P` -/
def pr (d : Rnd α) (P : α → Prop) [DecidablePred P] : ℚ := d.E (fun a => if P a then 1 else 0)

lemma run_bind (d : Rnd α) (f : α → Rnd β) (us : List ℚ) :
    (d.bind f).run us = (f (d.run us).1).run (d.run us).2 := by
  induction d generalizing us with
  | ret a => rfl
  | test p k ih => simp only [bind, run, ih]

lemma run_draw (p : ℚ) (us : List ℚ) :
    (draw p).run us = (decide ((popU us).1 < p), (popU us).2) := rfl

lemma E_bind (d : Rnd α) (f : α → Rnd β) (g : β → ℚ) :
    (d.bind f).E g = d.E (fun a => (f a).E g) := by
  induction d with
  | ret a => rfl
  | test p k ih => simp only [bind, E, ih]

lemma E_draw (p : ℚ) (g : Bool → ℚ) : (draw p).E g = p * g true + (1 - p) * g false := rfl

lemma E_ret (a : α) (g : α → ℚ) : (ret a).E g = g a := rfl

lemma E_const (d : Rnd α) (x : ℚ) : d.E (fun _ => x) = x := by
  induction d with
  | ret a => rfl
  | test p k ih => simp only [E, ih]; ring

lemma E_add (d : Rnd α) (f g : α → ℚ) : d.E (fun a => f a + g a) = d.E f + d.E g := by
  induction d with
  | ret a => rfl
  | test p k ih => simp only [E, ih]; ring

lemma E_mul_left (d : Rnd α) (x : ℚ) (f : α → ℚ) : d.E (fun a => x * f a) = x * d.E f := by
  induction d with
  | ret a => rfl
  | test p k ih => simp only [E, ih]; ring

lemma E_nonneg (d : Rnd α) (hv : d.Valid) (f : α → ℚ) (hf : ∀ a, 0 ≤ f a) : 0 ≤ d.E f := by
  induction d with
  | ret a => exact hf a
  | test p k ih =>
    obtain ⟨h0, h1, hk⟩ := hv
    simp only [E]
    have := ih true (hk true); have := ih false (hk false)
    have : 0 ≤ 1 - p := by linarith
    positivity

lemma E_eq_outcomes (d : Rnd α) (f : α → ℚ) :
    d.E f = (d.outcomes.map (fun aw => aw.2 * f aw.1)).sum := by
  induction d with
  | ret a => simp [E, outcomes]
  | test p k ih =>
    simp only [E, outcomes, List.map_append, List.map_map, List.sum_append, ih]
    have h : ∀ (x : ℚ) (l : List (α × ℚ)),
        (l.map ((fun aw : α × ℚ => aw.2 * f aw.1) ∘ fun aw => (aw.1, x * aw.2))).sum
          = x * (l.map (fun aw => aw.2 * f aw.1)).sum := by
      intro x l
      induction l with
      | nil => simp
      | cons a l ihl => simp only [List.map_cons, List.sum_cons, ihl, Function.comp]; ring
    rw [h, h]

lemma run_mem_outcomes (d : Rnd α) (us : List ℚ) : ((d.run us).1, d.pathW us) ∈ d.outcomes := by
  induction d generalizing us with
  | ret a => simp [run, pathW, trace, outcomes]
  | test p k ih =>
    simp only [run, pathW, trace, outcomes, List.map_cons, List.prod_cons, List.mem_append, List.mem_map]
    by_cases h : (popU us).1 < p
    · left
      refine ⟨_, ih true (popU us).2, ?_⟩
      simp [h, branchW, pathW]
    · right
      refine ⟨_, ih false (popU us).2, ?_⟩
      simp [h, branchW, pathW]

lemma outcomes_weight_nonneg (d : Rnd α) (hv : d.Valid) : ∀ aw ∈ d.outcomes, 0 ≤ aw.2 := by
  induction d with
  | ret a => intro aw h; simp [outcomes] at h; rw [h]; norm_num
  | test p k ih =>
    obtain ⟨h0, h1, hk⟩ := hv
    intro aw h
    simp only [outcomes, List.mem_append, List.mem_map] at h
    rcases h with ⟨x, hx, rfl⟩ | ⟨x, hx, rfl⟩
    · exact mul_nonneg h0 (ih true (hk true) x hx)
    · exact mul_nonneg (by linarith) (ih false (hk false) x hx)

/-- two scripts whose draws fall on the same side of every threshold met give the same result -/
lemma run_eq_of_trace_eq (d : Rnd α) (us us' : List ℚ) (h : d.trace us = d.trace us') :
    (d.run us).1 = (d.run us').1 := by
  induction d generalizing us us' with
  | ret a => rfl
  | test p k ih =>
    simp only [trace, List.cons.injEq, Prod.mk.injEq, true_and] at h
    obtain ⟨h1, h2⟩ := h
    simp only [run]
    rw [← h1] at h2 ⊢
    exact ih _ _ _ h2

lemma valid_bind (d : Rnd α) (f : α → Rnd β) (hd : d.Valid) (hf : ∀ a, (f a).Valid) :
    (d.bind f).Valid := by
  induction d with
  | ret a => exact hf a
  | test p k ih =>
    obtain ⟨h0, h1, hk⟩ := hd
    exact ⟨h0, h1, fun b => ih b (hk b)⟩

lemma valid_draw (p : ℚ) (h0 : 0 ≤ p) (h1 : p ≤ 1) : (draw p).Valid := ⟨h0, h1, fun _ => trivial⟩

/-- an expectation only depends on the values of the integrand on the results of scripts -/
lemma E_congr_run (d : Rnd α) (f g : α → ℚ) (h : ∀ us, f (d.run us).1 = g (d.run us).1) :
    d.E f = d.E g := by
  induction d with
  | ret a => exact h []
  | test p k ih =>
    simp only [E]
    rw [ih true, ih false]
    · intro us
      have := h (p :: us)
      simpa [run, popU] using this
    · intro us
      have := h ((p - 1) :: us)
      simpa [run, popU] using this

end Rnd

/-! ## the model's tree recursion and doubling loop in the monad `Rnd` -/
section Model
variable {Z : Type}

/-- the combined tree of `buildTree`'s recursive case; `b` = "the second half's candidate is taken" -/
def joinTree (c : Ctx Z) (v : Int) (t1 t2 : Tree Z) (b : Bool) : Tree Z :=
  { zminus := if v = -1 then t2.zminus else t1.zminus,
    zplus := if v = -1 then t1.zplus else t2.zplus,
    cand := if b then t2.cand else t1.cand,
    n := t1.n + t2.n,
    s := t2.s && c.noUturn (if v = -1 then t2.zminus else t1.zminus) (if v = -1 then t1.zplus else t2.zplus),
    leaves := t1.leaves ++ t2.leaves,
    nodes := 1 + t1.nodes + t2.nodes,
    wts := t1.wts.map ((1 - secondProb t1.n t2.n) * ·) ++ t2.wts.map (secondProb t1.n t2.n * ·) }

/-- `buildTree` with every test `rand() < n2/max(1,n1+n2)` replaced by a Bernoulli choice of that
    probability (structure identical to `buildTree`) -/
def buildTreeD (c : Ctx Z) (v : Int) : Nat → Z → Rnd (Tree Z)
  | 0, z =>
    let z' := c.step v z
    .ret { zminus := z', zplus := z', cand := z', n := if inSlice c z' then 1 else 0,
           s := notDiverged c z', leaves := [z'], nodes := 1, wts := [1] }
  | j + 1, z =>
    (buildTreeD c v j z).bind fun t1 =>
      if t1.s then
        (buildTreeD c v j (if v = -1 then t1.zminus else t1.zplus)).bind fun t2 =>
          (Rnd.draw (secondProb t1.n t2.n)).bind fun b => .ret (joinTree c v t1 t2 b)
      else .ret { t1 with nodes := 1 + t1.nodes }

/-- the loop state after one doubling in direction `v` with new sub-tree `t` and acceptance verdict -/
def nextLoop (c : Ctx Z) (st : Loop Z) (v : Int) (t : Tree Z) (accept : Bool) (us : List Rat) : Loop Z :=
  { cur := if accept then t.cand else st.cur,
    zminus := if v = -1 then t.zminus else st.zminus,
    zplus := if v = -1 then st.zplus else t.zplus,
    j := st.j + 1,
    s := t.s && c.noUturn (if v = -1 then t.zminus else st.zminus) (if v = -1 then st.zplus else t.zplus),
    n := st.n + t.n,
    acc := st.acc || accept,
    last := t.leaves,
    nodes := st.nodes + t.nodes,
    us := us }

/-- `min(1, n'/n)` -/
def topProb (n n' : Nat) : ℚ := min 1 ((n' : ℚ) / (n : ℚ))

/-- what `loopBody` does after the new sub-tree `t` was built: the top-level test (a draw only if
    `s' = 1`), the guard, and the update of the loop state -/
def afterTree (c : Ctx Z) (guard : Z → Bool) (st : Loop Z) (v : Int) (t : Tree Z) : Rnd (Loop Z) :=
  (if t.s then (Rnd.draw (topProb st.n t.n)).bind fun a => .ret (a && guard t.cand)
    else .ret false).bind fun accept => .ret (nextLoop c st v t accept [])

/-- `loopBody` in the monad: fair coin for the direction, `buildTreeD`, and — only if `s' = 1` —
    a Bernoulli(`min(1, n'/n)`) choice for the top-level test.  (The field `us` of the state is
    not used: the monad threads the draws.) -/
def loopBodyD (c : Ctx Z) (guard : Z → Bool) (st : Loop Z) : Rnd (Loop Z) :=
  (Rnd.draw (1 / 2)).bind fun b =>
    (buildTreeD c (if b then 1 else -1) st.j
        (if (if b then (1 : Int) else -1) = -1 then st.zminus else st.zplus)).bind
      (afterTree c guard st (if b then 1 else -1))

/-- `loop` in the monad -/
def loopD (c : Ctx Z) (guard : Z → Bool) (maxDepth : Nat) : Nat → Loop Z → Rnd (Loop Z)
  | 0, st => .ret st
  | fuel + 1, st =>
    if st.s && decide (st.j ≤ maxDepth) then (loopBodyD c guard st).bind (loopD c guard maxDepth fuel)
    else .ret st

/-- `nutsStep` in the monad: the randomised transition of the model -/
def nutsStepD (c : Ctx Z) (guard : Z → Bool) (maxDepth : Nat) (z0 : Z) : Rnd (Loop Z) :=
  loopD c guard maxDepth (maxDepth + 1) (loopInit z0 [])

/-- overwrite the (unused) draw-script field of a loop state with the draws left over -/
def setUs (r : Loop Z × List Rat) : Loop Z := { r.1 with us := r.2 }

/-! ### (i) simulation: the executable model is the deterministic interpretation -/

lemma takeSecond_eq (u : ℚ) (n1 n2 : ℕ) : takeSecond u n1 n2 = decide (u < secondProb n1 n2) := by
  rw [Bool.eq_iff_iff, takeSecond_iff, decide_eq_true_iff]

lemma buildTreeD_run (c : Ctx Z) (v : Int) (j : ℕ) (z : Z) (us : List Rat) :
    (buildTreeD c v j z).run us = buildTree c v j z us := by
  induction j generalizing z us with
  | zero => rfl
  | succ j ih =>
    simp only [buildTreeD, buildTree, Rnd.run_bind, ih]
    generalize buildTree c v j z us = b1
    obtain ⟨t1, us1⟩ := b1
    by_cases hs : t1.s = true
    · simp only [hs, if_true, Rnd.run_bind, ih]
      generalize buildTree c v j (if v = -1 then t1.zminus else t1.zplus) us1 = b2
      obtain ⟨t2, us2⟩ := b2
      simp only [Rnd.run_draw, Rnd.run, joinTree, takeSecond_eq]
      rfl
    · simp only [hs]
      rfl

lemma topProb_test (u : ℚ) (n n' : ℕ) (hn : 0 < n) :
    (decide (u * (n : ℚ) < (n' : ℚ)) && decide (u < 1)) = decide (u < topProb n n') := by
  rw [Bool.eq_iff_iff, top_accept u n n' hn, decide_eq_true_iff]; rfl

lemma loopBodyD_run (c : Ctx Z) (guard : Z → Bool) (st : Loop Z) (hn : 0 < st.n) :
    setUs ((loopBodyD c guard st).run st.us) = loopBody c guard st := by
  simp only [loopBodyD, afterTree, loopBody, Rnd.run_bind, Rnd.run_draw, buildTreeD_run, decide_eq_true_eq]
  generalize (if (popU st.us).1 < 1 / 2 then (1 : Int) else -1) = v
  generalize buildTree c v st.j (if v = -1 then st.zminus else st.zplus) (popU st.us).2 = b
  obtain ⟨t, us1⟩ := b
  by_cases hts : t.s = true
  · simp only [hts, if_true, Rnd.run_bind, Rnd.run_draw, Rnd.run, setUs, nextLoop,
      topProb_test _ _ _ hn]
  · simp only [hts, setUs, nextLoop]
    rfl

lemma loopBodyD_us (c : Ctx Z) (guard : Z → Bool) (st : Loop Z) (x : List Rat) :
    loopBodyD c guard { st with us := x } = loopBodyD c guard st := rfl

lemma loopD_us (c : Ctx Z) (guard : Z → Bool) (md fuel : ℕ) (st : Loop Z) (x us : List Rat) :
    setUs ((loopD c guard md fuel { st with us := x }).run us) = setUs ((loopD c guard md fuel st).run us) := by
  cases fuel with
  | zero => rfl
  | succ fuel =>
    simp only [loopD, loopBodyD_us]
    split
    · rfl
    · rfl

lemma loopBody_n_pos (c : Ctx Z) (guard : Z → Bool) (st : Loop Z) (hn : 0 < st.n) :
    0 < (loopBody c guard st).n := by
  simp only [loopBody]; omega

lemma loopD_run (c : Ctx Z) (guard : Z → Bool) (md fuel : ℕ) (st : Loop Z) (hn : 0 < st.n) :
    setUs ((loopD c guard md fuel st).run st.us) = loop c guard md fuel st := by
  induction fuel generalizing st with
  | zero => rfl
  | succ fuel ih =>
    simp only [loopD, loop]
    split
    · rw [Rnd.run_bind, ← ih _ (loopBody_n_pos c guard st hn), ← loopBodyD_run c guard st hn]
      exact (loopD_us c guard md fuel ((loopBodyD c guard st).run st.us).1 _ _).symm
    · rfl

/-! ### (ii) the law of `buildTreeD`: deterministic skeleton, candidate distributed by `wts` -/

/-- `Σ_k ws[k] · h(ls[k])` over two aligned lists -/
def wsum : List Z → List ℚ → (Z → ℚ) → ℚ
  | y :: ls, w :: ws, h => w * h y + wsum ls ws h
  | [], _, _ => 0
  | _ :: _, [], _ => 0

/-- the tree with another candidate -/
def Tree.setCand (t : Tree Z) (y : Z) : Tree Z := { t with cand := y }

lemma wsum_append (l1 l2 : List Z) (w1 w2 : List ℚ) (h : Z → ℚ) (hl : w1.length = l1.length) :
    wsum (l1 ++ l2) (w1 ++ w2) h = wsum l1 w1 h + wsum l2 w2 h := by
  induction l1 generalizing w1 with
  | nil =>
    cases w1 with
    | nil => simp [wsum]
    | cons a w => simp at hl
  | cons y l ih =>
    cases w1 with
    | nil => simp at hl
    | cons a w =>
      simp only [List.cons_append, wsum, ih w (by simpa using hl)]; ring

lemma wsum_map_mul (l : List Z) (w : List ℚ) (a : ℚ) (h : Z → ℚ) :
    wsum l (w.map (a * ·)) h = a * wsum l w h := by
  induction l generalizing w with
  | nil => simp [wsum]
  | cons y l ih =>
    cases w with
    | nil => simp [wsum]
    | cons b w => simp only [List.map_cons, wsum, ih]; ring

lemma wsum_add (l : List Z) (w : List ℚ) (f g : Z → ℚ) :
    wsum l w (fun y => f y + g y) = wsum l w f + wsum l w g := by
  induction l generalizing w with
  | nil => simp [wsum]
  | cons y l ih =>
    cases w with
    | nil => simp [wsum]
    | cons b w => simp only [wsum, ih]; ring

lemma wsum_mul_left (l : List Z) (w : List ℚ) (a : ℚ) (f : Z → ℚ) :
    wsum l w (fun y => a * f y) = a * wsum l w f := by
  induction l generalizing w with
  | nil => simp [wsum]
  | cons y l ih =>
    cases w with
    | nil => simp [wsum]
    | cons b w => simp only [wsum, ih]; ring

lemma wsum_const (l : List Z) (w : List ℚ) (x : ℚ) (hl : w.length = l.length) :
    wsum l w (fun _ => x) = w.sum * x := by
  induction l generalizing w with
  | nil =>
    cases w with
    | nil => simp [wsum]
    | cons a w => simp at hl
  | cons y l ih =>
    cases w with
    | nil => simp at hl
    | cons b w => simp only [wsum, List.sum_cons, ih w (by simpa using hl)]; ring

lemma wsum_congr (l : List Z) (w : List ℚ) (f g : Z → ℚ) (h : ∀ y ∈ l, f y = g y) :
    wsum l w f = wsum l w g := by
  induction l generalizing w with
  | nil => simp [wsum]
  | cons y l ih =>
    cases w with
    | nil => simp [wsum]
    | cons b w =>
      simp only [wsum]
      rw [h y (by simp), ih w (fun y hy => h y (List.mem_cons_of_mem _ hy))]

/-- weights that are uniform on the in-slice leaves turn `wsum` into an average -/
lemma wsum_uniform (c : Ctx Z) (l : List Z) (w : List ℚ) (n : ℕ) (hu : UniformOn c l w n) (f : Z → ℚ) :
    wsum l w f = (1 / (n : ℚ)) * ((l.filter (inSlice c)).map f).sum := by
  unfold UniformOn at hu
  induction hu with
  | nil => simp [wsum]
  | @cons z w zs ws hw _ ih =>
    simp only [wsum, ih, hw]
    by_cases hz : inSlice c z = true
    · simp only [hz, if_true, List.filter_cons_of_pos, List.map_cons, List.sum_cons]; ring
    · simp only [hz, Bool.false_eq_true, if_false, zero_mul, zero_add]
      rw [List.filter_cons_of_neg (by simpa using hz)]

lemma buildTreeD_E (c : Ctx Z) (v : Int) (j : ℕ) (z : Z) (us : List Rat) (g : Tree Z → ℚ) :
    (buildTreeD c v j z).E g =
      wsum (buildTree c v j z us).1.leaves (buildTree c v j z us).1.wts
        (fun y => g ((buildTree c v j z us).1.setCand y)) := by
  induction j generalizing z us g with
  | zero => simp [buildTreeD, buildTree, Rnd.E, wsum, Tree.setCand]
  | succ j ih =>
    simp only [buildTreeD, buildTree, Rnd.E_bind]
    rw [ih z us]
    have V1 := buildTree_inv c v j z us
    have S1 := wts_sum_one c v j z us
    generalize buildTree c v j z us = b1 at V1 S1 ⊢
    obtain ⟨t1, us1⟩ := b1
    simp only at V1 S1 ⊢
    by_cases hs : t1.s = true
    · simp only [hs, if_true, Tree.setCand, Rnd.E_bind]
      have e : ∀ g' : Tree Z → ℚ, (buildTreeD c v j (if v = -1 then t1.zminus else t1.zplus)).E g' = _ :=
        fun g' => ih (if v = -1 then t1.zminus else t1.zplus) us1 g'
      simp only [e]
      have V2 := buildTree_inv c v j (if v = -1 then t1.zminus else t1.zplus) us1
      have S2 := wts_sum_one c v j (if v = -1 then t1.zminus else t1.zplus) us1
      generalize buildTree c v j (if v = -1 then t1.zminus else t1.zplus) us1 = b2 at V2 S2 ⊢
      obtain ⟨t2, us2⟩ := b2
      simp only at V2 S2 ⊢
      simp only [Rnd.E_draw, Rnd.E_ret, joinTree, Tree.setCand, if_true, Bool.false_eq_true, if_false]
      rw [wsum_append _ _ _ _ _ (by simp [V1.wts_len]), wsum_map_mul, wsum_map_mul]
      simp only [wsum_add, wsum_mul_left, wsum_const _ _ _ V2.wts_len, wsum_const _ _ _ V1.wts_len, S1, S2]
      ring
    · simp only [hs, Bool.false_eq_true, if_false, Tree.setCand, Rnd.E_ret]

/-! ### all thresholds are probabilities -/

lemma secondProb_mem (n1 n2 : ℕ) : 0 ≤ secondProb n1 n2 ∧ secondProb n1 n2 ≤ 1 := by
  unfold secondProb
  have hpos : (0 : ℚ) < ((max 1 (n1 + n2) : ℕ) : ℚ) := by
    have : 0 < max 1 (n1 + n2) := by omega
    exact_mod_cast this
  refine ⟨by positivity, ?_⟩
  rw [div_le_one hpos]
  have : n2 ≤ max 1 (n1 + n2) := by omega
  exact_mod_cast this

lemma topProb_mem (n n' : ℕ) : 0 ≤ topProb n n' ∧ topProb n n' ≤ 1 := by
  unfold topProb
  exact ⟨le_min (by norm_num) (by positivity), min_le_left _ _⟩

lemma buildTreeD_valid (c : Ctx Z) (v : Int) (j : ℕ) (z : Z) : (buildTreeD c v j z).Valid := by
  induction j generalizing z with
  | zero => trivial
  | succ j ih =>
    simp only [buildTreeD]
    apply Rnd.valid_bind _ _ (ih z)
    intro t1
    split
    · apply Rnd.valid_bind _ _ (ih _)
      intro t2
      apply Rnd.valid_bind _ _ (Rnd.valid_draw _ (secondProb_mem _ _).1 (secondProb_mem _ _).2)
      intro b; trivial
    · trivial

lemma loopBodyD_valid (c : Ctx Z) (guard : Z → Bool) (st : Loop Z) : (loopBodyD c guard st).Valid := by
  unfold loopBodyD
  apply Rnd.valid_bind _ _ (Rnd.valid_draw _ (by norm_num) (by norm_num))
  intro b
  apply Rnd.valid_bind _ _ (buildTreeD_valid c _ _ _)
  intro t
  unfold afterTree
  apply Rnd.valid_bind
  · split
    · apply Rnd.valid_bind _ _ (Rnd.valid_draw _ (topProb_mem _ _).1 (topProb_mem _ _).2)
      intro a; trivial
    · trivial
  · intro a; trivial

lemma loopD_valid (c : Ctx Z) (guard : Z → Bool) (md fuel : ℕ) (st : Loop Z) :
    (loopD c guard md fuel st).Valid := by
  induction fuel generalizing st with
  | zero => trivial
  | succ fuel ih =>
    simp only [loopD]
    split
    · exact Rnd.valid_bind _ _ (loopBodyD_valid c guard st) (fun a => ih a)
    · trivial

end Model

/-! ### (iii) the law of the final state of the randomised loop is the orbit-level kernel -/

section Law
open Finset

/-- one doubling seen from the future: expected value of `V` at the index after the doubling
    (old block at `lo`, new half at `nlo`), given the current index `i` -/
def Orb.mix (o : Orb) (j : ℕ) (lo nlo : ℤ) (V : ℤ → ℚ) (i : ℤ) : ℚ :=
  o.stay j lo nlo * V i + o.acc j lo nlo * ∑ t ∈ range (2 ^ j), o.unif nlo j (nlo + t) * V (nlo + t)

/-- value function of the orbit-level loop: expected value of `h` at the final index when `r` more
    doublings are allowed, the visited block is `[lo, lo + 2^j)`, the continuation flag is `s` and
    the current index is `i` -/
def Orb.val (o : Orb) (h : ℤ → ℚ) : ℕ → ℤ → ℕ → Bool → ℤ → ℚ
  | 0, _, _, _ => h
  | r + 1, lo, j, s => fun i =>
    if s = true then
      1 / 2 * o.mix j lo (lo - 2 ^ j)
          (o.val h r (lo - 2 ^ j) (j + 1) (o.good j (lo - 2 ^ j) && o.ut (j + 1) (lo - 2 ^ j))) i
      + 1 / 2 * o.mix j lo (lo + 2 ^ j)
          (o.val h r lo (j + 1) (o.good j (lo + 2 ^ j) && o.ut (j + 1) lo)) i
    else h i

lemma Orb.val_false (o : Orb) (h : ℤ → ℚ) (r : ℕ) (lo : ℤ) (j : ℕ) (i : ℤ) : o.val h r lo j false i = h i := by
  cases r <;> simp [Orb.val]

lemma Orb.sum_unif_mul_window (o : Orb) (a : ℤ) (j : ℕ) (V : ℤ → ℚ) (W : Finset ℤ)
    (hW : Finset.Ico a (a + 2 ^ j) ⊆ W) :
    ∑ k ∈ W, o.unif a j k * V k = ∑ t ∈ range (2 ^ j), o.unif a j (a + t) * V (a + t) := by
  have h1 : ∑ k ∈ Finset.Ico a (a + 2 ^ j), o.unif a j k * V k = ∑ k ∈ W, o.unif a j k * V k := by
    apply Finset.sum_subset hW
    intro k _ hk
    rw [o.unif_out a j k (by intro h; apply hk; simp only [Finset.mem_Ico]; exact h), zero_mul]
  rw [← h1]
  have := sum_Ico_eq_range (fun k => o.unif a j k * V k) a (2 ^ j)
  push_cast at this
  exact this

lemma Orb.mix_dual (o : Orb) (j : ℕ) (lo nlo : ℤ) (V dist : ℤ → ℚ) (W : Finset ℤ)
    (hW : Finset.Ico nlo (nlo + 2 ^ j) ⊆ W) (hm : ∑ k ∈ W, dist k = 1) :
    ∑ i ∈ W, (o.stay j lo nlo * dist i + o.acc j lo nlo * o.unif nlo j i) * V i
      = ∑ i ∈ W, dist i * o.mix j lo nlo V i := by
  have hL : ∑ i ∈ W, (o.stay j lo nlo * dist i + o.acc j lo nlo * o.unif nlo j i) * V i
      = o.stay j lo nlo * ∑ i ∈ W, dist i * V i + o.acc j lo nlo * ∑ i ∈ W, o.unif nlo j i * V i := by
    rw [Finset.mul_sum, Finset.mul_sum, ← Finset.sum_add_distrib]
    apply Finset.sum_congr rfl; intro i _; ring
  have hR : ∑ i ∈ W, dist i * o.mix j lo nlo V i
      = o.stay j lo nlo * ∑ i ∈ W, dist i * V i
        + (∑ i ∈ W, dist i) * (o.acc j lo nlo * ∑ t ∈ range (2 ^ j), o.unif nlo j (nlo + t) * V (nlo + t)) := by
    rw [Finset.mul_sum, Finset.sum_mul, ← Finset.sum_add_distrib]
    apply Finset.sum_congr rfl; intro i _; unfold Orb.mix; ring
  rw [hL, hR, hm, o.sum_unif_mul_window nlo j V W hW, one_mul]

/-- **duality** between the forward law `Orb.walk` and the value function `Orb.val` -/
lemma Orb.walk_val (o : Orb) (h : ℤ → ℚ) (r : ℕ) (st : OSt) (W : Finset ℤ)
    (hW : Finset.Ico (st.lo + 2 ^ st.j - 2 ^ (st.j + r)) (st.lo + 2 ^ (st.j + r)) ⊆ W)
    (hm : ∑ k ∈ W, st.dist k = 1) :
    ∑ k ∈ W, o.walk r st k * h k = ∑ i ∈ W, st.dist i * o.val h r st.lo st.j st.s i := by
  induction r generalizing st with
  | zero => rfl
  | succ r ih =>
    by_cases hs : st.s = true
    · have hT : (2 : ℤ) ^ (st.j + 1 + r) = 2 ^ (st.j + (r + 1)) := by congr 1; omega
      have hX : (2 : ℤ) ^ (st.j + 1) = 2 * 2 ^ st.j := by rw [pow_succ]; ring
      have hXpos : (0 : ℤ) < 2 ^ st.j := by positivity
      have hTX : (2 : ℤ) * 2 ^ st.j ≤ 2 ^ (st.j + (r + 1)) := by
        rw [← hX]; exact pow_le_pow_right₀ (by norm_num) (by omega)
      have hWb : ∀ b : Bool, Finset.Ico (if b then st.lo - 2 ^ st.j else st.lo + 2 ^ st.j)
          ((if b then st.lo - 2 ^ st.j else st.lo + 2 ^ st.j) + 2 ^ st.j) ⊆ W := by
        intro b
        refine subset_trans ?_ hW
        apply Finset.Ico_subset_Ico
        · cases b <;> simp only [if_true, Bool.false_eq_true, if_false] <;> linarith
        · cases b <;> simp only [if_true, Bool.false_eq_true, if_false] <;> linarith
      have hbody : ∀ b, ∑ k ∈ W, o.walk r (o.body b st) k * h k
          = ∑ i ∈ W, (o.body b st).dist i * o.val h r (o.body b st).lo (o.body b st).j (o.body b st).s i := by
        intro b
        apply ih
        · refine subset_trans ?_ hW
          apply Finset.Ico_subset_Ico
          · cases b <;> simp only [Orb.body, hT, hX, if_true, Bool.false_eq_true, if_false] <;> linarith
          · cases b <;> simp only [Orb.body, hT, if_true, Bool.false_eq_true, if_false] <;> linarith
        · exact o.body_mass b st W (hWb b) hm
      have hsplit : ∑ k ∈ W, o.walk (r + 1) st k * h k
          = 1 / 2 * ∑ k ∈ W, o.walk r (o.body true st) k * h k
            + 1 / 2 * ∑ k ∈ W, o.walk r (o.body false st) k * h k := by
        simp only [Orb.walk, hs, if_true]
        rw [Finset.mul_sum, Finset.mul_sum, ← Finset.sum_add_distrib]
        apply Finset.sum_congr rfl; intro k _; ring
      rw [hsplit, hbody true, hbody false]
      have e1 := o.mix_dual st.j st.lo (st.lo - 2 ^ st.j)
        (o.val h r (st.lo - 2 ^ st.j) (st.j + 1) (o.good st.j (st.lo - 2 ^ st.j) && o.ut (st.j + 1) (st.lo - 2 ^ st.j)))
        st.dist W (by simpa using hWb true) hm
      have e2 := o.mix_dual st.j st.lo (st.lo + 2 ^ st.j)
        (o.val h r st.lo (st.j + 1) (o.good st.j (st.lo + 2 ^ st.j) && o.ut (st.j + 1) st.lo))
        st.dist W (by simpa using hWb false) hm
      simp only [Orb.body, if_true, Bool.false_eq_true, if_false]
      rw [e1, e2]
      simp only [Orb.val, hs, if_true]
      rw [Finset.mul_sum, Finset.mul_sum, ← Finset.sum_add_distrib]
      apply Finset.sum_congr rfl; intro k _; ring
    · simp only [Orb.walk, hs, Orb.val_false]
      rfl

end Law

/-! ### the model side: one doubling of the randomised loop is `Orb.mix` -/
section ModelLaw
open Finset
variable {Z : Type}

lemma setCand_s (t : Tree Z) (y : Z) : (t.setCand y).s = t.s := rfl
lemma setCand_n (t : Tree Z) (y : Z) : (t.setCand y).n = t.n := rfl
lemma setCand_cand (t : Tree Z) (y : Z) : (t.setCand y).cand = y := rfl

lemma afterTree_E (c : Ctx Z) (guard : Z → Bool) (st : Loop Z) (v : Int) (t : Tree Z) (K : Loop Z → ℚ) :
    (afterTree c guard st v t).E K =
      if t.s = true then
        topProb st.n t.n * K (nextLoop c st v t (guard t.cand) [])
          + (1 - topProb st.n t.n) * K (nextLoop c st v t false [])
      else K (nextLoop c st v t false []) := by
  unfold afterTree
  by_cases hs : t.s = true
  · simp only [hs, if_true, Rnd.E_bind, Rnd.E_draw, Rnd.E_ret, Bool.true_and, Bool.false_and]
  · simp only [hs, Bool.false_eq_true, if_false, Rnd.E_bind, Rnd.E_ret]

lemma single_fsum (c : Ctx Z) (z0 : Z) (F : Z → ℚ) (x : ℤ) :
    (([pt c z0 x].filter (inSlice c)).map F).sum
      = if sliceAt c z0 x = true then F (pt c z0 x) else 0 := by
  by_cases hs : sliceAt c z0 x = true
  · have hs' : inSlice c (pt c z0 x) = true := hs
    simp [hs, hs']
  · have hs' : ¬ inSlice c (pt c z0 x) = true := hs
    simp [hs, hs']

lemma orbit_fsum_fwd (c : Ctx Z) (h : StepInverse c) (z0 : Z) (F : Z → ℚ) (k : ℤ) (n : ℕ) :
    (((orbit c 1 (pt c z0 k) n).filter (inSlice c)).map F).sum
      = ∑ t ∈ range n, if sliceAt c z0 (k + 1 + t) = true then F (pt c z0 (k + 1 + t)) else 0 := by
  induction n with
  | zero => simp [orbit]
  | succ n ih =>
    rw [orbit_succ_last, List.filter_append, List.map_append, List.sum_append, ih,
      Finset.sum_range_succ, iterate_pt c h z0 1 (Or.inl rfl)]
    congr 1
    have : k + 1 * ((n + 1 : ℕ) : ℤ) = k + 1 + n := by push_cast; ring
    rw [this]
    exact single_fsum c z0 F _

lemma orbit_fsum_bwd (c : Ctx Z) (h : StepInverse c) (z0 : Z) (F : Z → ℚ) (k : ℤ) (n : ℕ) :
    (((orbit c (-1) (pt c z0 k) n).filter (inSlice c)).map F).sum
      = ∑ t ∈ range n, if sliceAt c z0 (k - n + t) = true then F (pt c z0 (k - n + t)) else 0 := by
  induction n with
  | zero => simp [orbit]
  | succ n ih =>
    rw [orbit_succ_last, List.filter_append, List.map_append, List.sum_append, ih,
      iterate_pt c h z0 (-1) (Or.inr rfl), Finset.sum_range_succ']
    congr 1
    · apply Finset.sum_congr rfl; intro t _
      have : k - ((n + 1 : ℕ) : ℤ) + ((t + 1 : ℕ) : ℤ) = k - n + t := by push_cast; ring
      rw [this]
    · have e1 : k + -1 * ((n + 1 : ℕ) : ℤ) = k - ((n + 1 : ℕ) : ℤ) + ((0 : ℕ) : ℤ) := by push_cast; ring
      rw [e1]
      exact single_fsum c z0 F _

/-- a full sub-tree: `n'` is the in-slice count of its index block and the candidate law `wts`
    averages over the in-slice indices of the block -/
lemma tree_avg (c : Ctx Z) (hinv : StepInverse c) (z0 : Z) (v : ℤ) (hv : v = 1 ∨ v = -1) (j : ℕ)
    (k0 : ℤ) (us : List Rat) (hs : (buildTree c v j (pt c z0 k0) us).1.s = true) :
    (buildTree c v j (pt c z0 k0) us).1.n = cnt (sliceAt c z0) (blockLo v k0 j) (2 ^ j) ∧
    (0 < (buildTree c v j (pt c z0 k0) us).1.n → ∀ F : Z → ℚ,
      wsum (buildTree c v j (pt c z0 k0) us).1.leaves (buildTree c v j (pt c z0 k0) us).1.wts F
        = (1 / ((buildTree c v j (pt c z0 k0) us).1.n : ℚ)) *
          ∑ t ∈ range (2 ^ j), if sliceAt c z0 (blockLo v k0 j + t) = true
            then F (pt c z0 (blockLo v k0 j + t)) else 0) := by
  have T := buildTree_inv c v j (pt c z0 k0) us
  have U := progressive_uniform c v j (pt c z0 k0) us
  generalize buildTree c v j (pt c z0 k0) us = b at T U hs ⊢
  obtain ⟨t, us1⟩ := b
  simp only at T U hs ⊢
  have hlen := T.len_full hs
  rcases hv with rfl | rfl
  · simp only [blockLo, show ((1 : ℤ) = -1) = False by decide, if_false]
    constructor
    · rw [T.count, T.leaves_orbit, orbit_count_fwd c hinv, hlen]
    · intro hn F
      rw [wsum_uniform c _ _ _ (U hn) F, T.leaves_orbit, orbit_fsum_fwd c hinv, hlen]
  · simp only [blockLo, if_true]
    have hc : ((2 ^ j : ℕ) : ℤ) = 2 ^ j := by push_cast; rfl
    constructor
    · rw [T.count, T.leaves_orbit, orbit_count_bwd c hinv, hlen, hc]
    · intro hn F
      rw [wsum_uniform c _ _ _ (U hn) F, T.leaves_orbit, orbit_fsum_bwd c hinv, hlen, hc]

lemma Orb.unif_at (o : Orb) (a : ℤ) (j t : ℕ) (ht : t < 2 ^ j) :
    o.unif a j (a + t) = if o.S (a + t) = true ∧ o.g (a + t) = true
      then 1 / (cnt o.S a (2 ^ j) : ℚ) else 0 := by
  have h1 : a ≤ a + (t : ℤ) := by omega
  have h2 : a + (t : ℤ) < a + 2 ^ j := by
    have : (t : ℤ) < ((2 ^ j : ℕ) : ℤ) := by exact_mod_cast ht
    push_cast at this; linarith
  unfold Orb.unif
  by_cases h : o.S (a + t) = true ∧ o.g (a + t) = true
  · rw [if_pos ⟨h1, h2, h.1, h.2⟩, if_pos h]
  · rw [if_neg (by intro h'; exact h ⟨h'.2.2.1, h'.2.2.2⟩), if_neg h]

lemma loopInv_count (c : Ctx Z) (z0 : Z) (st : Loop Z) (lo hi : ℤ) (I : LoopInv c z0 st lo hi)
    (hs : st.s = true) : st.n = cnt (sliceAt c z0) lo (2 ^ st.j) ∧ hi + 1 = lo + 2 ^ st.j := by
  have hfull := I.full hs
  refine ⟨?_, by linarith⟩
  rw [I.count, hfull]
  have : ((2 : ℤ) ^ st.j).toNat = 2 ^ st.j := by
    have : ((2 : ℤ) ^ st.j) = ((2 ^ st.j : ℕ) : ℤ) := by push_cast; rfl
    rw [this, Int.toNat_natCast]
  rw [this]

lemma topProb_zero (n : ℕ) : topProb n 0 = 0 := by
  unfold topProb; simp

/-- one direction of one doubling: build the new half, test, update — seen through any
    continuation `K` that depends on the new state only through the index of its current point -/
lemma dir_mix (c : Ctx Z) (hinv : StepInverse c) (guard : Z → Bool) (z0 : Z) (st : Loop Z) (lo hi i : ℤ)
    (I : LoopInv c z0 st lo hi) (hs : st.s = true) (hcur : st.cur = pt c z0 i)
    (v : ℤ) (hv : v = 1 ∨ v = -1) (K : Loop Z → ℚ) (V : ℤ → ℚ)
    (hK : ∀ (y : Z) (a : Bool) (i1 : ℤ),
      (nextLoop c st v ((buildTree c v st.j (if v = -1 then st.zminus else st.zplus) []).1.setCand y) a []).cur
        = pt c z0 i1 →
      K (nextLoop c st v ((buildTree c v st.j (if v = -1 then st.zminus else st.zplus) []).1.setCand y) a [])
        = V i1) :
    (buildTreeD c v st.j (if v = -1 then st.zminus else st.zplus)).E (fun t => (afterTree c guard st v t).E K)
      = (orbOf c guard z0).mix st.j lo (if v = -1 then lo - 2 ^ st.j else lo + 2 ^ st.j) V i := by
  obtain ⟨hn, hhi⟩ := loopInv_count c z0 st lo hi I hs
  rw [buildTreeD_E c v st.j _ []]
  have hstart : (if v = -1 then st.zminus else st.zplus) = pt c z0 (if v = -1 then lo else hi) := by
    split
    · exact I.zminus
    · exact I.zplus
  rw [hstart] at hK ⊢
  have hblock : blockLo v (if v = -1 then lo else hi) st.j
      = (if v = -1 then lo - 2 ^ st.j else lo + 2 ^ st.j) := by
    unfold blockLo
    split
    · rfl
    · exact hhi
  have T := buildTree_inv c v st.j (pt c z0 (if v = -1 then lo else hi)) []
  have S1 := wts_sum_one c v st.j (pt c z0 (if v = -1 then lo else hi)) []
  have G := (buildTree_good c hinv guard z0 v hv st.j (if v = -1 then lo else hi) []).1
  have A := tree_avg c hinv z0 v hv st.j (if v = -1 then lo else hi) []
  rw [hblock] at G A
  generalize (if v = -1 then lo - 2 ^ st.j else lo + 2 ^ st.j) = nlo at G A ⊢
  generalize buildTree c v st.j (pt c z0 (if v = -1 then lo else hi)) [] = r at T S1 G A hK ⊢
  obtain ⟨t0, us0⟩ := r
  simp only at T S1 G A hK ⊢
  simp only [afterTree_E, setCand_s, setCand_n, setCand_cand]
  have hKf : ∀ y, K (nextLoop c st v (t0.setCand y) false []) = V i := fun y => hK y false i hcur
  by_cases hts : t0.s = true
  · obtain ⟨hn', havg⟩ := A hts
    simp only [hts, if_true, hKf]
    have hKg : ∀ y, K (nextLoop c st v (t0.setCand y) (guard y) [])
        = if guard y = true then K (nextLoop c st v (t0.setCand y) true []) else V i := by
      intro y
      by_cases hg : guard y = true
      · rw [hg]; simp
      · have hg' : guard y = false := by simpa using hg
        rw [hg', hKf]; simp
    have e : wsum t0.leaves t0.wts (fun y => topProb st.n t0.n * K (nextLoop c st v (t0.setCand y) (guard y) [])
          + (1 - topProb st.n t0.n) * V i)
        = V i + topProb st.n t0.n * wsum t0.leaves t0.wts
            (fun y => if guard y = true then K (nextLoop c st v (t0.setCand y) true []) - V i else 0) := by
      rw [← wsum_mul_left, ← one_mul (V i), ← S1, ← wsum_const t0.leaves t0.wts (V i) T.wts_len, ← wsum_add]
      apply wsum_congr
      intro y _
      rw [hKg]
      split <;> ring
    rw [e]
    have hmixacc : (orbOf c guard z0).acc st.j lo nlo = topProb st.n t0.n := by
      unfold Orb.acc topProb
      rw [← G, hts, if_pos rfl, hn, hn']
      rfl
    unfold Orb.mix Orb.stay
    rw [hmixacc]
    by_cases hpos : 0 < t0.n
    · rw [havg hpos]
      have hne : (t0.n : ℚ) ≠ 0 := by exact_mod_cast (ne_of_gt hpos)
      have hsum : (1 / (t0.n : ℚ)) * ∑ t ∈ range (2 ^ st.j),
            (if sliceAt c z0 (nlo + t) = true then
              (if guard (pt c z0 (nlo + t)) = true
                then K (nextLoop c st v (t0.setCand (pt c z0 (nlo + t))) true []) - V i else 0) else 0)
          = ∑ t ∈ range (2 ^ st.j), (orbOf c guard z0).unif nlo st.j (nlo + t) * (V (nlo + t) - V i) := by
        rw [Finset.mul_sum]
        apply Finset.sum_congr rfl
        intro t ht
        rw [Orb.unif_at _ _ _ _ (Finset.mem_range.mp ht)]
        have hKt : K (nextLoop c st v (t0.setCand (pt c z0 (nlo + t))) true []) = V (nlo + t) :=
          hK _ true _ rfl
        have hcnt : (cnt (orbOf c guard z0).S nlo (2 ^ st.j) : ℚ) = (t0.n : ℚ) := by
          rw [hn']; rfl
        rw [hKt, hcnt]
        show _ = (if sliceAt c z0 (nlo + t) = true ∧ guard (pt c z0 (nlo + t)) = true then _ else _) * _
        by_cases h1 : sliceAt c z0 (nlo + t) = true <;> by_cases h2 : guard (pt c z0 (nlo + t)) = true <;>
          simp [h1, h2]
      rw [hsum]
      simp only [mul_sub, Finset.sum_sub_distrib, ← Finset.sum_mul]
      ring
    · have h0 : t0.n = 0 := by omega
      rw [h0, topProb_zero]
      ring
  · have hf : t0.s = false := by simpa using hts
    simp only [hts, if_false, hKf]
    rw [wsum_const _ _ _ T.wts_len, S1, one_mul]
    unfold Orb.mix Orb.stay Orb.acc
    rw [← G, hf]
    simp

end ModelLaw

end CuqiVerif.C08
