import CuqiVerif.Model.C18
import Mathlib.Algebra.BigOperators.Group.Finset.Basic
import Mathlib.Algebra.BigOperators.Ring.Finset
import Mathlib.Algebra.BigOperators.Intervals
import Mathlib.Tactic.Ring
import Mathlib.Tactic.Linarith
import Mathlib.Tactic.NormNum

/-!
# C18 — helper lemmas (sums, tabulation, the unrolled time loops)
All statements are about the executable definitions of `CuqiVerif/Model/C18.lean`, instantiated at
an arbitrary commutative ring `R` (the driver runs `R = Rat`).
-/
open Finset

set_option linter.unusedSectionVars false
set_option linter.unusedVariables false

namespace CuqiVerif.C18

variable {R : Type} [CommRing R]

lemma sumTo_eq_sum (n : ℕ) (f : ℕ → R) : sumTo n f = ∑ k ∈ range n, f k := by
  induction n with
  | zero => simp [sumTo]
  | succ n ih => simp [sumTo, ih, Finset.sum_range_succ]

/-- tabulation does not change the entries below `n` -/
lemma force_apply (n : ℕ) (v : Vec R) (i : ℕ) (hi : i < n) : force n v i = v i := by
  simp [force, Array.getElem?_ofFn, hi]

lemma force_apply_ge (n : ℕ) (v : Vec R) (i : ℕ) (hi : n ≤ i) : force n v i = 0 := by
  simp [force, Array.getElem?_ofFn, Nat.not_lt.mpr hi]

lemma mulVec_eq (n : ℕ) (A : Mat R) (x : Vec R) (i : ℕ) : mulVec n A x i = ∑ j ∈ range n, A i j * x j := by
  simp [mulVec, sumTo_eq_sum]

lemma vecMul_eq (m : ℕ) (d : Vec R) (J : Mat R) (j : ℕ) : vecMul m d J j = ∑ i ∈ range m, d i * J i j := by
  simp [vecMul, sumTo_eq_sum]

/-- the coded forward step is the textbook explicit Euler step -/
lemma fwdStep_apply (n : ℕ) (dt : R) (f : Form R) (u : Vec R) (i : ℕ) (hi : i < n) :
    fwdStep n dt f u i = u i + dt * ((∑ j ∈ range n, f.op i j * u j) + f.src i) := by
  rw [fwdStep, force_apply _ _ _ hi, sumTo_eq_sum]
  have : ∀ j ∈ range n, (dt * f.op i j + eye i j) * u j = dt * (f.op i j * u j) + (if i = j then u j else 0) := by
    intro j _
    by_cases h : i = j <;> simp [eye, h] <;> ring
  rw [Finset.sum_congr rfl this, Finset.sum_add_distrib, ← Finset.mul_sum]
  simp [hi]
  ring

end CuqiVerif.C18
