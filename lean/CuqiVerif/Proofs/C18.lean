import CuqiVerif.Model.C18
import Mathlib.Algebra.BigOperators.Group.Finset.Basic
import Mathlib.Algebra.BigOperators.Ring.Finset
import Mathlib.Algebra.BigOperators.Intervals
import Mathlib.Tactic.Ring
import Mathlib.Tactic.Linarith
import Mathlib.Tactic.NormNum
import Mathlib.Tactic.LinearCombination

/-!
# C18 — helper lemmas (sums, tabulation, the unrolled time loops)
All statements are about the executable definitions of `CuqiVerif/Model/C18.lean`, instantiated at
an arbitrary commutative ring `R` (the driver runs `R = Rat`).
-/
open Finset

set_option linter.unusedSectionVars false
set_option linter.unusedVariables false

namespace CuqiVerif.C18

variable {R : Type} [CommRing R]

lemma sumTo_eq_sum (n : ℕ) (f : ℕ → R) : sumTo n f = ∑ k ∈ range n, f k := by
  induction n with
  | zero => simp [sumTo]
  | succ n ih => simp [sumTo, ih, Finset.sum_range_succ]

/-- tabulation does not change the entries below `n` -/
lemma rd_tab (n : ℕ) (v : Vec R) (i : ℕ) (hi : i < n) : rd (tab n v) i = v i := by
  simp [rd, tab, hi]

lemma rd_tab_ge (n : ℕ) (v : Vec R) (i : ℕ) (hi : n ≤ i) : rd (tab n v) i = 0 := by
  simp [rd, tab, Nat.not_lt.mpr hi]

@[simp] lemma tab_size (n : ℕ) (v : Vec R) : (tab n v).size = n := by simp [tab]

lemma mulVec_eq (n : ℕ) (A : Mat R) (x : Vec R) (i : ℕ) : mulVec n A x i = ∑ j ∈ range n, A i j * x j := by
  simp [mulVec, sumTo_eq_sum]

lemma vecMul_eq (m : ℕ) (d : Vec R) (J : Mat R) (j : ℕ) : vecMul m d J j = ∑ i ∈ range m, d i * J i j := by
  simp [vecMul, sumTo_eq_sum]

/-- the coded forward step is the textbook explicit Euler step -/
lemma fwdStep_apply (n : ℕ) (dt : R) (f : Form R) (u : Array R) (i : ℕ) (hi : i < n) :
    rd (fwdStep n dt f u) i = rd u i + dt * ((∑ j ∈ range n, f.op i j * rd u j) + f.src i) := by
  rw [fwdStep, rd_tab _ _ _ hi, sumTo_eq_sum]
  have : ∀ j ∈ range n, (dt * f.op i j + eye i j) * rd u j = dt * (f.op i j * rd u j) + (if i = j then rd u j else 0) := by
    intro j _
    by_cases h : i = j <;> simp [eye, h] <;> ring
  rw [Finset.sum_congr rfl this, Finset.sum_add_distrib, ← Finset.mul_sum]
  simp [hi]
  ring


/-! ## the unrolled forward loop -/

lemma fwdLevels_length (n : ℕ) (form : R → Form R) :
    ∀ (rest : List R) (t : R) (u : Array R), (fwdLevels n form t u rest).length = rest.length := by
  intro rest
  induction rest with
  | nil => intro t u; simp [fwdLevels]
  | cons t' rest ih => intro t u; simp [fwdLevels, ih]

/-- level `k+1` of the forward loop is one coded step from level `k`, with the form assembled at the
    time of level `k` and `dt` the gap to the next grid time -/
lemma fwdLevels_step (n : ℕ) (form : R → Form R) :
    ∀ (rest : List R) (t : R) (u : Array R) (k : ℕ), k < rest.length →
      (u :: fwdLevels n form t u rest).getD (k + 1) #[] =
        fwdStep n ((t :: rest).getD (k + 1) 0 - (t :: rest).getD k 0) (form ((t :: rest).getD k 0))
          ((u :: fwdLevels n form t u rest).getD k #[]) := by
  intro rest
  induction rest with
  | nil => intro t u k hk; simp at hk
  | cons t' rest ih =>
    intro t u k hk
    cases k with
    | zero => simp [fwdLevels]
    | succ k =>
      have hk' : k < rest.length := by simpa using hk
      have := ih t' (fwdStep n (t' - t) (form t) u) k hk'
      simpa [fwdLevels] using this

/-! ## the unrolled backward loop -/

/-- the solver's unpacked solution solves the system it was given (rows below `n`) -/
def SolverCorrect {I : Type} (n : ℕ) (solver : Mat R → Vec R → SolverRet (Vec R) I) : Prop :=
  ∀ A b x info, unpack (solver A b) = .ok (x, info) → ∀ i, i < n → ∑ j ∈ range n, A i j * x j = b i

lemma bwdLevels_length {I : Type} (n : ℕ) (form : R → Form R) (solver : Mat R → Vec R → SolverRet (Vec R) I) :
    ∀ (rest : List R) (t : R) (u : Array R) (steps : List (Array R × Option (List I))),
      bwdLevels n form solver t u rest = .ok steps → steps.length = rest.length := by
  intro rest
  induction rest with
  | nil => intro t u steps h; simp [bwdLevels] at h; cases h; rfl
  | cons t' rest ih =>
    intro t u steps h
    simp only [bwdLevels] at h
    split at h
    · cases h
    · rename_i x info hx
      split at h
      · cases h
      · rename_i tail htail
        cases h
        simp [ih _ _ _ htail]

/-- level `k+1` of the backward loop is the (tabulated) unpacked answer of the solver to the coded
    system `I - dt·A(t_{k+1})`, `u_k + dt·b(t_{k+1})` -/
lemma bwdLevels_step {I : Type} (n : ℕ) (form : R → Form R) (solver : Mat R → Vec R → SolverRet (Vec R) I) :
    ∀ (rest : List R) (t : R) (u : Array R) (steps : List (Array R × Option (List I))),
      bwdLevels n form solver t u rest = .ok steps → ∀ k, k < rest.length →
      ∃ x info,
        unpack (solver (bwdMat ((t :: rest).getD (k + 1) 0 - (t :: rest).getD k 0) (form ((t :: rest).getD (k + 1) 0)))
          (bwdRhs ((t :: rest).getD (k + 1) 0 - (t :: rest).getD k 0) (form ((t :: rest).getD (k + 1) 0))
            (rd ((u :: steps.map (·.1)).getD k #[])))) = .ok (x, info)
        ∧ (u :: steps.map (·.1)).getD (k + 1) #[] = tab n x
        ∧ (steps.getD k (#[], none)).2 = info := by
  intro rest
  induction rest with
  | nil => intro t u steps h k hk; simp at hk
  | cons t' rest ih =>
    intro t u steps h k hk
    simp only [bwdLevels] at h
    split at h
    · cases h
    · rename_i x info hx
      split at h
      · cases h
      · rename_i tail htail
        cases h
        cases k with
        | zero => exact ⟨x, info, by simpa using hx, by simp, by simp⟩
        | succ k =>
          have hk' : k < rest.length := by simpa using hk
          obtain ⟨x', info', h1, h2, h3⟩ := ih t' (tab n x) tail htail k hk'
          exact ⟨x', info', by simpa using h1, by simpa using h2, by simpa using h3⟩

/-- from the certificate of the coded backward system to the textbook implicit Euler relation -/
lemma bwd_relation (n : ℕ) (dt : R) (f : Form R) (u : Vec R) (x : Vec R)
    (hx : ∀ i, i < n → ∑ j ∈ range n, bwdMat dt f i j * x j = bwdRhs dt f u i) (i : ℕ) (hi : i < n) :
    x i = u i + dt * ((∑ j ∈ range n, f.op i j * x j) + f.src i) := by
  have h := hx i hi
  have e : ∀ j ∈ range n, bwdMat dt f i j * x j = (if i = j then x j else 0) - dt * (f.op i j * x j) := by
    intro j _
    by_cases hij : i = j <;> simp [bwdMat, eye, hij] <;> ring
  rw [Finset.sum_congr rfl e, Finset.sum_sub_distrib, ← Finset.mul_sum] at h
  simp [hi, bwdRhs] at h
  linear_combination h

end CuqiVerif.C18
