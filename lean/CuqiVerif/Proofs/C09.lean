import CuqiVerif.Model.C09

/-!
# C09 — helper definitions and lemmas (folds over the parameter names, event logs, column arrays)
-/
namespace CuqiVerif.C09

set_option linter.unusedSectionVars false

variable {N V : Type}

/-! ## experimental -/

/-- the sampler after `k` transitions fed by the draws `pos, pos+1, …` -/
def stepEnd (ds : Nat → Draw V) : Nat → Nat → Smp N V → Smp N V
  | 0, _, s => s
  | k + 1, pos, s => stepEnd ds k (pos + 1) (s.step (ds pos))

/-- the `step` events of these `k` transitions: a chain, each starting where the previous ended -/
def stepEvs (ds : Nat → Draw V) (n : N) : Nat → Nat → Smp N V → List (Ev N V)
  | 0, _, _ => []
  | k + 1, pos, s =>
    Ev.step n s.currentPoint (s.step (ds pos)).currentPoint :: stepEvs ds n k (pos + 1) (s.step (ds pos))

theorem stepLoop_eq (ds : Nat → Draw V) (n : N) (k pos : Nat) (s : Smp N V) (log : List (Ev N V)) :
    stepLoop ds n k pos s log = (stepEnd ds k pos s, log ++ stepEvs ds n k pos s) := by
  induction k generalizing pos s log with
  | zero => simp [stepLoop, stepEnd, stepEvs]
  | succ k ih => simp [stepLoop, stepEnd, stepEvs, ih]

theorem stepEvs_length (ds : Nat → Draw V) (n : N) (k pos : Nat) (s : Smp N V) :
    (stepEvs ds n k pos s).length = k := by
  induction k generalizing pos s with
  | zero => simp [stepEvs]
  | succ k ih => simp [stepEvs, ih]

variable [DecidableEq N]

/-- the sampler of block `n` as it stands after the prologue of its update -/
def startSmp (g : HG N V) (n : N) : Smp N V := (g.smp n).prologue (others g.names g.cur n)

/-- the events one block update appends -/
def blockEvs (ds : Nat → Draw V) (g : HG N V) (n : N) : List (Ev N V) :=
  let s0 := startSmp g n
  Ev.visit n (others g.names g.cur n) s0.currentPoint s0.cache s0.accLen :: stepEvs ds n (g.nsteps n) g.pos s0

theorem blockUpdate_log (ds : Nat → Draw V) (g : HG N V) (n : N) :
    (blockUpdate ds g n).log = g.log ++ blockEvs ds g n := by
  simp [blockUpdate, blockEvs, startSmp, stepLoop_eq]

theorem blockUpdate_smp (ds : Nat → Draw V) (g : HG N V) (n : N) :
    (blockUpdate ds g n).smp = upd g.smp n (stepEnd ds (g.nsteps n) g.pos (startSmp g n)) := by
  simp [blockUpdate, startSmp, stepLoop_eq]

theorem blockUpdate_cur (ds : Nat → Draw V) (g : HG N V) (n : N) :
    (blockUpdate ds g n).cur = upd g.cur n (stepEnd ds (g.nsteps n) g.pos (startSmp g n)).currentPoint := by
  simp [blockUpdate, startSmp, stepLoop_eq]

@[simp] theorem blockUpdate_names (ds : Nat → Draw V) (g : HG N V) (n : N) :
    (blockUpdate ds g n).names = g.names := rfl
@[simp] theorem blockUpdate_nsteps (ds : Nat → Draw V) (g : HG N V) (n : N) :
    (blockUpdate ds g n).nsteps = g.nsteps := rfl
@[simp] theorem blockUpdate_stored (ds : Nat → Draw V) (g : HG N V) (n : N) :
    (blockUpdate ds g n).stored = g.stored := rfl
@[simp] theorem blockUpdate_pos (ds : Nat → Draw V) (g : HG N V) (n : N) :
    (blockUpdate ds g n).pos = g.pos + g.nsteps n := rfl

/-- the sweep restricted to a list of blocks (the full sweep is `sweepL ds g.names g`) -/
def sweepL (ds : Nat → Draw V) (l : List N) (g : HG N V) : HG N V := l.foldl (blockUpdate ds) g

theorem sweep_eq_sweepL (ds : Nat → Draw V) (g : HG N V) : sweep ds g = sweepL ds g.names g := rfl

@[simp] theorem sweepL_nil (ds : Nat → Draw V) (g : HG N V) : sweepL ds [] g = g := rfl
@[simp] theorem sweepL_cons (ds : Nat → Draw V) (a : N) (l : List N) (g : HG N V) :
    sweepL ds (a :: l) g = sweepL ds l (blockUpdate ds g a) := rfl
theorem sweepL_append (ds : Nat → Draw V) (l₁ l₂ : List N) (g : HG N V) :
    sweepL ds (l₁ ++ l₂) g = sweepL ds l₂ (sweepL ds l₁ g) := by
  simp [sweepL, List.foldl_append]

@[simp] theorem sweepL_names (ds : Nat → Draw V) (l : List N) (g : HG N V) : (sweepL ds l g).names = g.names := by
  induction l generalizing g with
  | nil => rfl
  | cons a l ih => simp [ih]
@[simp] theorem sweepL_nsteps (ds : Nat → Draw V) (l : List N) (g : HG N V) : (sweepL ds l g).nsteps = g.nsteps := by
  induction l generalizing g with
  | nil => rfl
  | cons a l ih => simp [ih]
@[simp] theorem sweepL_stored (ds : Nat → Draw V) (l : List N) (g : HG N V) : (sweepL ds l g).stored = g.stored := by
  induction l generalizing g with
  | nil => rfl
  | cons a l ih => simp [ih]

/-- blocks that are not in `l` keep their value -/
theorem sweepL_cur_of_not_mem (ds : Nat → Draw V) (l : List N) (g : HG N V) (m : N) (h : m ∉ l) :
    (sweepL ds l g).cur m = g.cur m := by
  induction l generalizing g with
  | nil => rfl
  | cons a l ih =>
    have h1 : m ≠ a := fun e => h (by simp [e])
    have h2 : m ∉ l := fun e => h (by simp [e])
    rw [sweepL_cons, ih _ h2, blockUpdate_cur]
    simp [upd, h1]

/-- … and their sampler object -/
theorem sweepL_smp_of_not_mem (ds : Nat → Draw V) (l : List N) (g : HG N V) (m : N) (h : m ∉ l) :
    (sweepL ds l g).smp m = g.smp m := by
  induction l generalizing g with
  | nil => rfl
  | cons a l ih =>
    have h1 : m ≠ a := fun e => h (by simp [e])
    have h2 : m ∉ l := fun e => h (by simp [e])
    rw [sweepL_cons, ih _ h2, blockUpdate_smp]
    simp [upd, h1]

/-- events appended by the sweep over `l` -/
def sweepEvs (ds : Nat → Draw V) : List N → HG N V → List (Ev N V)
  | [], _ => []
  | a :: l, g => blockEvs ds g a ++ sweepEvs ds l (blockUpdate ds g a)

theorem sweepL_log (ds : Nat → Draw V) (l : List N) (g : HG N V) :
    (sweepL ds l g).log = g.log ++ sweepEvs ds l g := by
  induction l generalizing g with
  | nil => simp [sweepEvs]
  | cons a l ih => simp [ih, blockUpdate_log, sweepEvs, List.append_assoc]

theorem sweepEvs_append (ds : Nat → Draw V) (l₁ l₂ : List N) (g : HG N V) :
    sweepEvs ds (l₁ ++ l₂) g = sweepEvs ds l₁ g ++ sweepEvs ds l₂ (sweepL ds l₁ g) := by
  induction l₁ generalizing g with
  | nil => simp [sweepEvs]
  | cons a l ih => simp [sweepEvs, ih, List.append_assoc]

theorem sweepL_pos (ds : Nat → Draw V) (l : List N) (g : HG N V) :
    (sweepL ds l g).pos = g.pos + (l.map g.nsteps).sum := by
  induction l generalizing g with
  | nil => simp
  | cons a l ih => simp [ih, Nat.add_assoc]

/-- names of the blocks whose update begins, in log order -/
def visits : List (Ev N V) → List N
  | [] => []
  | Ev.visit n _ _ _ _ :: l => n :: visits l
  | _ :: l => visits l

/-- number of `step` events of block `n` -/
def stepCount (n : N) : List (Ev N V) → Nat
  | [] => 0
  | Ev.step m _ _ :: l => (if m = n then 1 else 0) + stepCount n l
  | _ :: l => stepCount n l

theorem visits_append (l₁ l₂ : List (Ev N V)) : visits (l₁ ++ l₂) = visits l₁ ++ visits l₂ := by
  induction l₁ with
  | nil => rfl
  | cons e l ih => cases e <;> simp [visits, ih]

theorem stepCount_append (n : N) (l₁ l₂ : List (Ev N V)) :
    stepCount n (l₁ ++ l₂) = stepCount n l₁ + stepCount n l₂ := by
  induction l₁ with
  | nil => simp [stepCount]
  | cons e l ih => cases e <;> simp [stepCount, ih, Nat.add_assoc]

theorem visits_stepEvs (ds : Nat → Draw V) (n : N) (k pos : Nat) (s : Smp N V) :
    visits (stepEvs ds n k pos s) = [] := by
  induction k generalizing pos s with
  | zero => rfl
  | succ k ih => simp [stepEvs, visits, ih]

theorem stepCount_stepEvs (ds : Nat → Draw V) (n m : N) (k pos : Nat) (s : Smp N V) :
    stepCount m (stepEvs ds n k pos s) = if n = m then k else 0 := by
  induction k generalizing pos s with
  | zero => simp [stepEvs, stepCount]
  | succ k ih =>
    simp only [stepEvs, stepCount, ih]
    by_cases h : n = m <;> simp [h, Nat.add_comm]

theorem visits_blockEvs (ds : Nat → Draw V) (g : HG N V) (n : N) : visits (blockEvs ds g n) = [n] := by
  simp [blockEvs, visits, visits_stepEvs]

theorem stepCount_blockEvs (ds : Nat → Draw V) (g : HG N V) (n m : N) :
    stepCount m (blockEvs ds g n) = if n = m then g.nsteps n else 0 := by
  simp [blockEvs, stepCount, stepCount_stepEvs]

theorem visits_sweepEvs (ds : Nat → Draw V) (l : List N) (g : HG N V) : visits (sweepEvs ds l g) = l := by
  induction l generalizing g with
  | nil => rfl
  | cons a l ih => simp [sweepEvs, visits_append, visits_blockEvs, ih]

theorem stepCount_sweepEvs (ds : Nat → Draw V) (l : List N) (g : HG N V) (m : N) :
    stepCount m (sweepEvs ds l g) = l.count m * g.nsteps m := by
  induction l generalizing g with
  | nil => simp [sweepEvs, stepCount]
  | cons a l ih =>
    simp only [sweepEvs, stepCount_append, stepCount_blockEvs, ih, blockUpdate_nsteps, List.count_cons]
    by_cases h : a = m
    · subst h; simp [Nat.add_mul, Nat.add_comm]
    · simp [h]

/-- the point of a sampler is not changed by the prologue (state restored / `initial_point` overwritten) -/
theorem prologue_point (s : Smp N V) (tgt : List (N × V)) : (s.prologue tgt).currentPoint = s.currentPoint := by
  unfold Smp.prologue
  by_cases h : s.isNuts <;> simp [h, Smp.initialize]

theorem prologue_target (s : Smp N V) (tgt : List (N × V)) : (s.prologue tgt).target = tgt := by
  unfold Smp.prologue
  by_cases h : s.isNuts <;> simp [h, Smp.initialize]

/-- every block's sampler sits at the block's current value -/
def Sync (g : HG N V) : Prop := ∀ m, (g.smp m).currentPoint = g.cur m

theorem sync_blockUpdate (ds : Nat → Draw V) (g : HG N V) (n : N) (h : Sync g) : Sync (blockUpdate ds g n) := by
  intro m
  rw [blockUpdate_smp, blockUpdate_cur]
  by_cases e : m = n
  · simp [upd, e]
  · simp [upd, e, h m]

theorem sync_sweepL (ds : Nat → Draw V) (l : List N) (g : HG N V) (h : Sync g) : Sync (sweepL ds l g) := by
  induction l generalizing g with
  | nil => exact h
  | cons a l ih => exact ih _ (sync_blockUpdate ds g a h)

theorem sync_store (g : HG N V) (h : Sync g) : Sync (store g) := h

theorem sync_sampleN (ds : Nat → Draw V) (k : Nat) (g : HG N V) (h : Sync g) : Sync (sampleN ds k g) := by
  induction k generalizing g with
  | zero => exact h
  | succ k ih => exact ih _ (sync_store _ (sync_sweepL ds _ g h))

theorem sampleN_add (ds : Nat → Draw V) (a b : Nat) (g : HG N V) :
    sampleN ds (a + b) g = sampleN ds b (sampleN ds a g) := by
  induction a generalizing g with
  | zero => simp [sampleN]
  | succ a ih => rw [Nat.succ_add]; simp [sampleN, ih]

@[simp] theorem store_names (g : HG N V) : (store g).names = g.names := rfl
@[simp] theorem store_cur (g : HG N V) : (store g).cur = g.cur := rfl

@[simp] theorem sampleN_names (ds : Nat → Draw V) (k : Nat) (g : HG N V) : (sampleN ds k g).names = g.names := by
  induction k generalizing g with
  | zero => rfl
  | succ k ih => simp [sampleN, ih, sweep_eq_sweepL]

theorem sampleN_succ' (ds : Nat → Draw V) (k : Nat) (g : HG N V) :
    sampleN ds (k + 1) g = store (sweep ds (sampleN ds k g)) := by
  have := sampleN_add ds k 1 g
  simpa [sampleN] using this

/-! ## legacy -/

abbrev LSt (N V : Type) := (N → V) × Nat × List (LEv N V)

/-- the legacy sweep restricted to a list of blocks -/
def lsweepL (ds : Nat → V) (names l : List N) (st : LSt N V) : LSt N V := l.foldl (lblock ds names) st

theorem lsweep_eq_lsweepL (ds : Nat → V) (names : List N) (st : LSt N V) :
    lsweep ds names st = lsweepL ds names names st := rfl

theorem lsweepL_append (ds : Nat → V) (names l₁ l₂ : List N) (st : LSt N V) :
    lsweepL ds names (l₁ ++ l₂) st = lsweepL ds names l₂ (lsweepL ds names l₁ st) := by
  simp [lsweepL, List.foldl_append]

theorem lsweepL_cons (ds : Nat → V) (names : List N) (a : N) (l : List N) (st : LSt N V) :
    lsweepL ds names (a :: l) st = lsweepL ds names l (lblock ds names st a) := rfl

theorem lsweepL_cur_of_not_mem (ds : Nat → V) (names l : List N) (st : LSt N V) (m : N) (h : m ∉ l) :
    (lsweepL ds names l st).1 m = st.1 m := by
  induction l generalizing st with
  | nil => rfl
  | cons a l ih =>
    have h1 : m ≠ a := fun e => h (by simp [e])
    have h2 : m ∉ l := fun e => h (by simp [e])
    rw [lsweepL_cons, ih _ h2]
    simp [lblock, upd, h1]

/-- names of the blocks advanced, in log order -/
def lvisits : List (LEv N V) → List N
  | [] => []
  | LEv.step n _ _ _ :: l => n :: lvisits l
  | _ :: l => lvisits l

theorem lvisits_append (l₁ l₂ : List (LEv N V)) : lvisits (l₁ ++ l₂) = lvisits l₁ ++ lvisits l₂ := by
  induction l₁ with
  | nil => rfl
  | cons e l ih => cases e <;> simp [lvisits, ih]

theorem lsweepL_visits (ds : Nat → V) (names l : List N) (st : LSt N V) :
    lvisits (lsweepL ds names l st).2.2 = lvisits st.2.2 ++ l := by
  induction l generalizing st with
  | nil => simp [lsweepL]
  | cons a l ih =>
    rw [lsweepL_cons, ih]
    simp [lblock, lvisits_append, lvisits]

theorem lsweepL_pos (ds : Nat → V) (names l : List N) (st : LSt N V) :
    (lsweepL ds names l st).2.1 = st.2.1 + l.length := by
  induction l generalizing st with
  | nil => simp [lsweepL]
  | cons a l ih =>
    rw [lsweepL_cons, ih]
    simp only [lblock, List.length_cons]; omega

/-- `k` legacy sweeps with a store after each: the post-sweep tuples and the final state -/
def lrun (ds : Nat → V) (names : List N) (w : Bool) : Nat → Nat → LSt N V → List (N → V) × LSt N V
  | 0, _, st => ([], st)
  | k + 1, i, st =>
    let st' := lsweep ds names st
    let r := lrun ds names w k (i + 1) (st'.1, st'.2.1, st'.2.2 ++ [LEv.store w i (tuple names st'.1)])
    (st'.1 :: r.1, r.2)

theorem lloop_eq (ds : Nat → V) (names : List N) (w : Bool) (k : Nat) (A : List (N → V)) (z : N → V)
    (st : LSt N V) :
    (lloop ds names w k A.length (A ++ List.replicate k z) st).1 = A ++ (lrun ds names w k A.length st).1
    ∧ (lloop ds names w k A.length (A ++ List.replicate k z) st).2 = (lrun ds names w k A.length st).2 := by
  induction k generalizing A st with
  | zero => simp [lloop, lrun]
  | succ k ih =>
    have hset : setCol (A ++ List.replicate (k + 1) z) A.length (lsweep ds names st).1
        = (A ++ [(lsweep ds names st).1]) ++ List.replicate k z := by
      simp [setCol, List.replicate_succ]
    have hlen : (A ++ [(lsweep ds names st).1]).length = A.length + 1 := by simp
    simp only [lloop, lrun, hset]
    rw [← hlen]
    have := ih (A ++ [(lsweep ds names st).1])
      ((lsweep ds names st).1, (lsweep ds names st).2.1,
        (lsweep ds names st).2.2 ++ [LEv.store w A.length (tuple names (lsweep ds names st).1)])
    constructor
    · rw [this.1]; simp
    · rw [this.2]

theorem lloop_eq_nil (ds : Nat → V) (names : List N) (w : Bool) (k : Nat) (z : N → V) (st : LSt N V) :
    lloop ds names w k 0 (List.replicate k z) st = ((lrun ds names w k 0 st).1, (lrun ds names w k 0 st).2) := by
  have := lloop_eq ds names w k [] z st
  simp only [List.length_nil, List.nil_append] at this
  exact Prod.ext this.1 this.2

theorem lrun_length (ds : Nat → V) (names : List N) (w : Bool) (k i : Nat) (st : LSt N V) :
    (lrun ds names w k i st).1.length = k := by
  induction k generalizing i st with
  | zero => rfl
  | succ k ih => simp [lrun, ih]

theorem lrun_get (ds : Nat → V) (names : List N) (w : Bool) (k i j : Nat) (st : LSt N V) (hj : j < k) :
    (lrun ds names w k i st).1[j]? = some (lrun ds names w (j + 1) i st).2.1 := by
  induction k generalizing i j st with
  | zero => omega
  | succ k ih =>
    cases j with
    | zero => simp [lrun]
    | succ j =>
      have := ih (i + 1) j ((lsweep ds names st).1, (lsweep ds names st).2.1,
        (lsweep ds names st).2.2 ++ [LEv.store w i (tuple names (lsweep ds names st).1)]) (by omega)
      simpa [lrun] using this

theorem lrun_add (ds : Nat → V) (names : List N) (w : Bool) (a b i : Nat) (st : LSt N V) :
    lrun ds names w (a + b) i st
      = ((lrun ds names w a i st).1 ++ (lrun ds names w b (i + a) (lrun ds names w a i st).2).1,
         (lrun ds names w b (i + a) (lrun ds names w a i st).2).2) := by
  induction a generalizing i st with
  | zero => simp [lrun]
  | succ a ih =>
    rw [Nat.succ_add]
    simp only [lrun, ih]
    simp [Nat.add_assoc, Nat.add_comm 1 a]

theorem lrun_last (ds : Nat → V) (names : List N) (w : Bool) (k i : Nat) (st : LSt N V) (hk : 1 ≤ k) :
    (lrun ds names w k i st).1.getLast? = some (lrun ds names w k i st).2.1 := by
  have h := lrun_get ds names w k i (k - 1) st (by omega)
  have hl := lrun_length ds names w k i st
  rw [List.getLast?_eq_getElem?, hl, h]
  have : k - 1 + 1 = k := by omega
  rw [this]

/-- the default initial points of a fresh legacy sampler -/
def linit0 (g : LG N V) : N → V := fun n => (g.initPoint n).getD (g.ones n)

theorem lsample_first (ds : Nat → V) (g : LG N V) (a : Nat) (hw : g.warm = none) (hs : g.samples = none) :
    lsample ds g a 0 = .ok { g with samples := some (lrun ds g.names false a 0 (linit0 g, g.pos, g.log)).1
                                    warm := some []
                                    pos := (lrun ds g.names false a 0 (linit0 g, g.pos, g.log)).2.2.1
                                    log := (lrun ds g.names false a 0 (linit0 g, g.pos, g.log)).2.2.2 } := by
  unfold linit0
  simp [lsample, linit, hw, hs, lloop, lloop_eq_nil]

theorem lsample_next (ds : Nat → V) (g : LG N V) (b : Nat) (C : List (N → V)) (c : N → V)
    (hC : C.getLast? = some c) (hs : g.samples = some C) (hw : g.warm = some []) :
    lsample ds g b 0 = .ok { g with samples := some (C ++ (lrun ds g.names false b C.length (c, g.pos, g.log)).1)
                                    warm := some []
                                    pos := (lrun ds g.names false b C.length (c, g.pos, g.log)).2.2.1
                                    log := (lrun ds g.names false b C.length (c, g.pos, g.log)).2.2.2 } := by
  have h := lloop_eq ds g.names false b C g.zeros (c, g.pos, g.log)
  simp [lsample, linit, hw, hs, hC, lloop, h.1, h.2]

theorem lsample_continue (ds : Nat → V) (g : LG N V) (a b : Nat) (ha : 1 ≤ a)
    (hw : g.warm = none) (hs : g.samples = none) :
    (lsample ds g a 0).bind (fun g' => lsample ds g' b 0) = lsample ds g (a + b) 0 := by
  rw [lsample_first ds g a hw hs, lsample_first ds g (a + b) hw hs]
  simp only [Except.bind]
  rw [lsample_next ds _ b _ _ (lrun_last ds g.names false a 0 _ ha) rfl rfl]
  simp [lrun_add, lrun_length]

/-- first call with warm-up: the warm-up loop runs from the initial points, the sampling loop goes on
    from the state the warm-up ended in -/
theorem lsample_fresh (ds : Nat → V) (g : LG N V) (Ns Nb : Nat) (hw : g.warm = none) (hs : g.samples = none) :
    lsample ds g Ns Nb =
      let w := lrun ds g.names true Nb 0 (linit0 g, g.pos, g.log)
      let r := lrun ds g.names false Ns 0 w.2
      .ok { g with samples := some r.1, warm := some w.1, pos := r.2.2.1, log := r.2.2.2 } := by
  unfold linit0
  simp [lsample, linit, hw, hs, lloop_eq_nil]

end CuqiVerif.C09
